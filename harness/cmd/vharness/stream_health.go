package main

// Stream `health` (property C23): histories of transactions over nested resources and containers,
// run on the real runtime (one fresh ledger per history; engine per history).  After every
// transaction the harness opens a fresh runtime.Storage over the ledger, loads every slab register,
// reads every account storage map, walks (= decodes) every stored value and calls Storage.CheckHealth.
//
//	health <engine> <tx>|<tx>|...   =>   <c|f>,<c|f>,...          (every check healthy)
//	                                =>   <c|f>,...,unhealthy:<kind>   (first unhealthy check; stops there)
//
// tx = space separated tokens, accounts a ∈ {1,2,3}, paths p ∈ {0..3}; a trailing `!` aborts the
// transaction with panic after its effects:
//	save a p d w          save C.make(depth d, width w) to /storage/r<p> of account a
//	destroy a p           load and destroy
//	move a p b q          load from a, save to b (another account or path)
//	addkid a p d w        through a reference: append a new subtree to the resource's kids
//	takekid a p           through a reference: remove the last kid and destroy it
//	movekid a p b q       remove the last kid of a.p and append it to the kids of b.q
//	kidtopath a p q       remove the last kid of a.p and save it to /storage/r<q> of a
//	putdict a p k d w     through a reference: dict[k] <- new subtree, old entry destroyed
//	takedict a p k        through a reference: remove dict[k] and destroy it
//	grow a p n / shrink a p n   the resource's [Int] field grows / shrinks by n (crosses inlining thresholds)
//	savedata a p n m      save a [[Int]] of n arrays of m Ints to /storage/d<p>
//	copydata a p b q      copy /storage/d<p> of a and save the copy to /storage/d<q> of b
//	dropdata a p          load /storage/d<p> and drop it
//	setdata a p i m       load, replace element i by a fresh array of m Ints (overwrite), save back

import (
	"fmt"
	"strconv"
	"strings"
	"time"

	"github.com/onflow/atree"

	"github.com/onflow/cadence"
	"github.com/onflow/cadence/common"
	"github.com/onflow/cadence/interpreter"
	"github.com/onflow/cadence/runtime"
	. "github.com/onflow/cadence/test_utils/runtime_utils"

	"verif/harness/internal/cdc"
	"verif/harness/internal/hx"
)

func init() {
	hx.Register(&hx.Stream{Name: "health", Gen: genHealth, Exec: execHealth, Parallel: true, Timeout: 300 * time.Second})
}

const healthContract = `
access(all) contract C {
    access(all) resource R {
        access(all) var kids: @[R]
        access(all) var dict: @{String: R}
        access(all) var data: [Int]
        init() { self.kids <- []; self.dict <- {}; self.data = [] }
        access(all) fun addKid(_ r: @R) { self.kids.append(<-r) }
        access(all) fun takeKid(): @R? {
            if self.kids.length == 0 { return nil }
            return <- self.kids.removeLast()
        }
        access(all) fun putDict(_ k: String, _ r: @R) { let old <- self.dict[k] <- r; destroy old }
        access(all) fun takeDict(_ k: String): @R? { return <- self.dict.remove(key: k) }
        access(all) fun grow(_ n: Int) { var i = 0; while i < n { self.data.append(i); i = i + 1 } }
        access(all) fun shrink(_ n: Int) { var i = 0; while i < n && self.data.length > 0 { self.data.removeLast(); i = i + 1 } }
    }
    access(all) fun make(_ depth: Int, _ width: Int): @R {
        let r <- create R()
        if depth > 0 {
            var i = 0
            while i < width { r.addKid(<- C.make(depth - 1, width)); i = i + 1 }
        }
        return <- r
    }
    access(all) fun data(_ n: Int, _ m: Int): [[Int]] {
        let out: [[Int]] = []
        var i = 0
        while i < n {
            let inner: [Int] = []
            var j = 0
            while j < m { inner.append(j); j = j + 1 }
            out.append(inner)
            i = i + 1
        }
        return out
    }
}
`

func healthTxSource(tok []string) (src string, ok bool) {
	abort := ""
	if len(tok) > 0 && tok[len(tok)-1] == "!" {
		abort = `panic("abort")`
		tok = tok[:len(tok)-1]
	}
	if len(tok) == 0 {
		return "", false
	}
	arg := func(i int) string {
		if i < len(tok) {
			return tok[i]
		}
		return "0"
	}
	acct := func(i int) string { return "s" + arg(i) }
	rp := func(i int) string { return "/storage/r" + arg(i) }
	dp := func(i int) string { return "/storage/d" + arg(i) }
	var body string
	switch tok[0] {
	case "save":
		body = fmt.Sprintf(`%s.storage.save(<- C.make(%s, %s), to: %s)`, acct(1), arg(3), arg(4), rp(2))
	case "destroy":
		body = fmt.Sprintf(`let r <- %s.storage.load<@C.R>(from: %s) ?? panic("none")
            destroy r`, acct(1), rp(2))
	case "move":
		body = fmt.Sprintf(`let r <- %s.storage.load<@C.R>(from: %s) ?? panic("none")
            %s.storage.save(<- r, to: %s)`, acct(1), rp(2), acct(3), rp(4))
	case "addkid":
		body = fmt.Sprintf(`let ref = %s.storage.borrow<&C.R>(from: %s) ?? panic("none")
            ref.addKid(<- C.make(%s, %s))`, acct(1), rp(2), arg(3), arg(4))
	case "takekid":
		body = fmt.Sprintf(`let ref = %s.storage.borrow<&C.R>(from: %s) ?? panic("none")
            let k <- ref.takeKid() ?? panic("nokid")
            destroy k`, acct(1), rp(2))
	case "movekid":
		body = fmt.Sprintf(`let ref = %s.storage.borrow<&C.R>(from: %s) ?? panic("none")
            let dst = %s.storage.borrow<&C.R>(from: %s) ?? panic("none")
            let k <- ref.takeKid() ?? panic("nokid")
            dst.addKid(<- k)`, acct(1), rp(2), acct(3), rp(4))
	case "kidtopath":
		body = fmt.Sprintf(`let ref = %s.storage.borrow<&C.R>(from: %s) ?? panic("none")
            let k <- ref.takeKid() ?? panic("nokid")
            %s.storage.save(<- k, to: %s)`, acct(1), rp(2), acct(1), rp(3))
	case "putdict":
		body = fmt.Sprintf(`let ref = %s.storage.borrow<&C.R>(from: %s) ?? panic("none")
            ref.putDict("%s", <- C.make(%s, %s))`, acct(1), rp(2), arg(3), arg(4), arg(5))
	case "takedict":
		body = fmt.Sprintf(`let ref = %s.storage.borrow<&C.R>(from: %s) ?? panic("none")
            let k <- ref.takeDict("%s") ?? panic("nokey")
            destroy k`, acct(1), rp(2), arg(3))
	case "grow":
		body = fmt.Sprintf(`let ref = %s.storage.borrow<&C.R>(from: %s) ?? panic("none")
            ref.grow(%s)`, acct(1), rp(2), arg(3))
	case "shrink":
		body = fmt.Sprintf(`let ref = %s.storage.borrow<&C.R>(from: %s) ?? panic("none")
            ref.shrink(%s)`, acct(1), rp(2), arg(3))
	case "savedata":
		body = fmt.Sprintf(`%s.storage.save(C.data(%s, %s), to: %s)`, acct(1), arg(3), arg(4), dp(2))
	case "copydata":
		body = fmt.Sprintf(`let v = %s.storage.copy<[[Int]]>(from: %s) ?? panic("none")
            %s.storage.save(v, to: %s)`, acct(1), dp(2), acct(3), dp(4))
	case "dropdata":
		body = fmt.Sprintf(`let v = %s.storage.load<[[Int]]>(from: %s) ?? panic("none")`, acct(1), dp(2))
	case "setdata":
		body = fmt.Sprintf(`var v = %s.storage.load<[[Int]]>(from: %s) ?? panic("none")
            if %s >= v.length { panic("index") }
            v[%s] = C.data(1, %s)[0]
            %s.storage.save(v, to: %s)`, acct(1), dp(2), arg(3), arg(3), arg(4), acct(1), dp(2))
	default:
		return "", false
	}
	return fmt.Sprintf(`import C from 0x1
        transaction {
          prepare(s1: auth(Storage) &Account, s2: auth(Storage) &Account, s3: auth(Storage) &Account) {
            %s
            %s
          }
        }`, body, abort), true
}

var healthAccounts = []common.Address{
	common.MustBytesToAddress([]byte{1}), common.MustBytesToAddress([]byte{2}), common.MustBytesToAddress([]byte{3}),
}

// healthCheck opens a fresh storage over the ledger and checks all of it; "" = healthy
func healthCheck(ledger TestLedger) (verdict string) {
	defer func() {
		if r := recover(); r != nil {
			verdict = "panic-while-reading"
		}
	}()
	storage := runtime.NewStorage(ledger, nil, nil, runtime.StorageConfig{})
	inter, err := interpreter.NewInterpreter(nil, common.StringLocation("health"), &interpreter.Config{Storage: storage})
	if err != nil {
		return "no-interpreter"
	}
	// every slab register of the ledger must decode
	for key, val := range ledger.StoredValues { //nolint:maprange
		if len(val) == 0 {
			continue
		}
		i := strings.Index(key, "|")
		if i < 0 {
			continue
		}
		owner, k := key[:i], key[i+1:]
		if len(k) != 9 || k[0] != '$' || len(owner) != 8 {
			continue
		}
		var addr atree.Address
		copy(addr[:], owner)
		var idx atree.SlabIndex
		copy(idx[:], k[1:])
		slab, found, err := storage.Retrieve(atree.NewSlabID(addr, idx))
		if err != nil || !found || slab == nil {
			return "slab-does-not-decode"
		}
	}
	// every stored value of every account must decode
	for _, a := range healthAccounts {
		for _, domain := range common.AllStorageDomains {
			m := storage.GetDomainStorageMap(inter, a, domain, false)
			if m == nil {
				continue
			}
			it := m.Iterator()
			for {
				k, v := it.Next(nil)
				if k == nil {
					break
				}
				if v == nil {
					return "nil-stored-value"
				}
				interpreter.InspectValue(inter, v, func(interpreter.Value) bool { return true })
			}
		}
	}
	if err := storage.CheckHealth(); err != nil {
		switch err.(type) {
		case runtime.UnreferencedRootSlabsError:
			return "unreferenced-root-slabs"
		}
		msg := err.Error()
		switch {
		case strings.Contains(msg, "two parents"), strings.Contains(msg, "two references"):
			return "slab-referenced-twice"
		case strings.Contains(msg, "not found"):
			return "dangling-slab-reference"
		case strings.Contains(msg, "non-root slab"):
			return "storage-map-not-root"
		}
		return "storage-health-error"
	}
	return ""
}

// healthEnv runs transactions like cdc.Env does (same host interface, computation limit), but lets the
// stream choose runtime.Config.AtreeValidationEnabled: with the validation on (the test default) the
// runtime itself aborts a transaction that leaves the slab storage inconsistent, so an unhealthy
// ledger can only be *committed* — and observed by the health check — with the production setting (off).
type healthEnv struct {
	ledger   TestLedger
	codes    map[common.Location][]byte
	signers  []common.Address
	validate bool
	nextTx   func() common.TransactionLocation
	uuid     uint64
}

func (e *healthEnv) tx(src string, useVM bool) (class, kind string) {
	defer func() {
		if r := recover(); r != nil {
			class, kind = "crash", "escaped-panic"
		}
	}()
	iface := &TestRuntimeInterface{
		Storage:                  e.ledger,
		OnGetCode:                func(l runtime.Location) ([]byte, error) { return e.codes[l], nil },
		OnResolveLocation:        MultipleIdentifierLocationResolver,
		OnGetAccountContractCode: func(l common.AddressLocation) ([]byte, error) { return e.codes[l], nil },
		OnUpdateAccountContractCode: func(l common.AddressLocation, code []byte) error {
			e.codes[l] = code
			return nil
		},
		OnGetSigningAccounts: func() ([]runtime.Address, error) { return e.signers, nil },
		OnProgramLog:         func(string) {},
		OnEmitEvent:          func(cadence.Event) error { return nil },
		OnGenerateUUID:       func() (uint64, error) { e.uuid++; return e.uuid, nil },
	}
	rt := NewTestRuntimeWithConfig(runtime.Config{AtreeValidationEnabled: e.validate})
	err := rt.ExecuteTransaction(
		runtime.Script{Source: []byte(src)},
		runtime.Context{
			Interface:        iface,
			Location:         e.nextTx(),
			UseVM:            useVM,
			ComputationGauge: &cdc.Gauge{Limit: 5000000},
		},
	)
	return cdc.Classify(err)
}

func execHealth(op []string) string {
	if len(op) < 3 {
		return "bad-op"
	}
	engine := op[1]
	validate := strings.HasSuffix(engine, "+v")
	useVM := strings.HasPrefix(engine, "vm")
	env := &healthEnv{
		ledger:   NewTestLedger(nil, nil),
		codes:    map[common.Location][]byte{},
		validate: validate,
		nextTx:   NewTransactionLocationGenerator(),
	}
	env.signers = []common.Address{healthAccounts[0]}
	if class, kind := env.tx(fmt.Sprintf(`transaction { prepare(signer: auth(Contracts) &Account) { signer.contracts.add(name: "C", code: "%x".decodeHex()) } }`, healthContract), useVM); class != "none" {
		return "deploy-failed:" + kind
	}
	if v := healthCheck(env.ledger); v != "" {
		return "unhealthy:" + v
	}
	env.signers = healthAccounts
	var obs []string
	for _, tx := range strings.Split(op[2], "|") {
		src, ok := healthTxSource(strings.Fields(tx))
		if !ok {
			return "bad-op"
		}
		class, kind := env.tx(src, useVM)
		switch class {
		case "none":
			obs = append(obs, "c")
		case "user":
			obs = append(obs, "f")
		default:
			obs = append(obs, "f-"+class+"-"+kind)
		}
		if v := healthCheck(env.ledger); v != "" {
			obs = append(obs, "unhealthy:"+v)
			break
		}
	}
	return strings.Join(obs, ",")
}

// ---------------------------------------------------------------- generator

func genHealth(c *hx.Ctx) {
	// see genStored: decorrelate consecutive seeds
	r := c.Rng.Fork()
	n := c.N
	for i := 0; i < n; i++ {
		// shadow of which paths are occupied, to keep most transactions valid
		occR := map[string]bool{}
		occD := map[string]bool{}
		key := func(a, p int) string { return strconv.Itoa(a) + "/" + strconv.Itoa(p) }
		pickOcc := func(m map[string]bool) (int, int, bool) {
			var ks []string
			for a := 1; a <= 3; a++ {
				for p := 0; p < 4; p++ {
					if m[key(a, p)] {
						ks = append(ks, key(a, p))
					}
				}
			}
			if len(ks) == 0 || r.Chance(7) { // sometimes an empty path on purpose
				return 1 + r.Intn(3), r.Intn(4), false
			}
			k := ks[r.Intn(len(ks))]
			a, _ := strconv.Atoi(k[:1])
			p, _ := strconv.Atoi(k[2:])
			return a, p, true
		}
		pickFree := func(m map[string]bool) (int, int) {
			for t := 0; t < 8; t++ {
				a, p := 1+r.Intn(3), r.Intn(4)
				if !m[key(a, p)] || r.Chance(5) {
					return a, p
				}
			}
			return 1 + r.Intn(3), r.Intn(4)
		}
		steps := 4 + r.Intn(9)
		var txs []string
		for s := 0; s < steps; s++ {
			abort := r.Chance(8)
			var tx string
			k := r.Intn(20)
			if len(occR) == 0 && k < 17 && r.Chance(70) {
				k = 0 // nothing stored yet: save first
			}
			if len(occD) == 0 && k >= 18 && r.Chance(70) {
				k = 17
			}
			switch {
			case k < 3:
				a, p := pickFree(occR)
				tx = fmt.Sprintf("save %d %d %d %d", a, p, r.Intn(4), 1+r.Intn(3))
				if !abort && !occR[key(a, p)] {
					occR[key(a, p)] = true
				}
			case k < 4:
				a, p, ok := pickOcc(occR)
				tx = fmt.Sprintf("destroy %d %d", a, p)
				if !abort && ok {
					delete(occR, key(a, p))
				}
			case k < 6:
				a, p, ok := pickOcc(occR)
				b, q := pickFree(occR)
				tx = fmt.Sprintf("move %d %d %d %d", a, p, b, q)
				if !abort && ok && !occR[key(b, q)] {
					delete(occR, key(a, p))
					occR[key(b, q)] = true
				}
			case k < 8:
				a, p, _ := pickOcc(occR)
				tx = fmt.Sprintf("addkid %d %d %d %d", a, p, r.Intn(3), 1+r.Intn(3))
			case k < 9:
				a, p, _ := pickOcc(occR)
				tx = fmt.Sprintf("takekid %d %d", a, p)
			case k < 11:
				a, p, _ := pickOcc(occR)
				b, q, _ := pickOcc(occR)
				tx = fmt.Sprintf("movekid %d %d %d %d", a, p, b, q)
			case k < 12:
				a, p, _ := pickOcc(occR)
				q := r.Intn(4)
				tx = fmt.Sprintf("kidtopath %d %d %d", a, p, q)
				// whether it commits depends on the kids; the shadow is only a heuristic here
			case k < 14:
				a, p, _ := pickOcc(occR)
				tx = fmt.Sprintf("putdict %d %d %s %d %d", a, p, r.Pick([]string{"x", "y", "z"}), r.Intn(3), 1+r.Intn(3))
			case k < 15:
				a, p, _ := pickOcc(occR)
				tx = fmt.Sprintf("takedict %d %d %s", a, p, r.Pick([]string{"x", "y", "z"}))
			case k < 16:
				a, p, _ := pickOcc(occR)
				tx = fmt.Sprintf("grow %d %d %d", a, p, []int{1, 10, 40, 120, 300}[r.Intn(5)])
			case k < 17:
				a, p, _ := pickOcc(occR)
				tx = fmt.Sprintf("shrink %d %d %d", a, p, []int{1, 10, 40, 120, 300}[r.Intn(5)])
			case k < 18:
				a, p := pickFree(occD)
				tx = fmt.Sprintf("savedata %d %d %d %d", a, p, r.Intn(5), []int{0, 1, 5, 30, 100}[r.Intn(5)])
				if !abort && !occD[key(a, p)] {
					occD[key(a, p)] = true
				}
			case k < 19:
				a, p, ok := pickOcc(occD)
				b, q := pickFree(occD)
				tx = fmt.Sprintf("copydata %d %d %d %d", a, p, b, q)
				if !abort && ok && !occD[key(b, q)] {
					occD[key(b, q)] = true
				}
			default:
				a, p, ok := pickOcc(occD)
				if r.Bool() {
					tx = fmt.Sprintf("dropdata %d %d", a, p)
					if !abort && ok {
						delete(occD, key(a, p))
					}
				} else {
					tx = fmt.Sprintf("setdata %d %d %d %d", a, p, r.Intn(4), []int{0, 3, 50, 150}[r.Intn(4)])
				}
			}
			if abort {
				tx += " !"
			}
			txs = append(txs, tx)
		}
		// engine × atree validation (off = the production setting, where only the health check can notice)
		c.Emit("health", []string{"interp", "vm", "interp", "vm", "interp+v", "vm+v"}[r.Intn(6)], strings.Join(txs, "|"))
	}
}
