package main

// Stream `health` (property C23): histories of transactions over nested resources and containers,
// run on the real runtime (one fresh ledger per history; engine per history).  After every
// transaction the harness opens a fresh runtime.Storage over the ledger, loads every slab register,
// reads every account storage map, walks (= decodes) every stored value and calls Storage.CheckHealth.
//
//	health <engine> <tx>|<tx>|...   =>   <c|f>,<c|f>,...          (every check healthy)
//	                                =>   <c|f>,...,unhealthy:<kind>   (first unhealthy check; stops there)
//
// tx = space separated tokens, accounts a ∈ {1,2,3}, paths p ∈ {0..3}; a trailing `!` aborts the
// transaction with panic after its effects:
//	save a p d w          save C.make(depth d, width w) to /storage/r<p> of account a
//	destroy a p           load and destroy
//	move a p b q          load from a, save to b (another account or path)
//	addkid a p d w        through a reference: append a new subtree to the resource's kids
//	takekid a p           through a reference: remove the last kid and destroy it
//	movekid a p b q       remove the last kid of a.p and append it to the kids of b.q
//	kidtopath a p q       remove the last kid of a.p and save it to /storage/r<q> of a
//	putdict a p k d w     through a reference: dict[k] <- new subtree, old entry destroyed
//	takedict a p k        through a reference: remove dict[k] and destroy it
//	grow a p n / shrink a p n   the resource's [Int] field grows / shrinks by n (crosses inlining thresholds)
//	savedata a p n m      save a [[Int]] of n arrays of m Ints to /storage/d<p>
//	copydata a p b q      copy /storage/d<p> of a and save the copy to /storage/d<q> of b
//	dropdata a p          load /storage/d<p> and drop it
//	setdata a p i m       load, replace element i by a fresh array of m Ints (overwrite), save back
//
// optional-typed elements / fields holding immutable values that are too large to be stored inline
// (atree keeps them in a slab of their own), all through a borrowed reference to the resource at a.p:
//	addopt a p n          opt.append(<string of n characters>?)  (n = 0: nil)      opt: [String?]
//	addbig a p n          big.append(<integer of n bytes>?)      (n = 0: nil)      big: [Int?]
//	copyopt a p i         let v = ref.opt[i mod length]; ref.appendOpt(v)   (copy of a stored optional, stored again)
//	copybig a p i         the same for big
//	optto a p i b q       copy opt[i] of a.p into the opt of the resource at b.q
//	optone a p i          one = opt[i]   (field of type String?; the old value is overwritten)
//	oneopt a p            opt.append(one)
//	optod a p i k         od[k] = opt[i]        od: {String: String?}
//	odopt a p k           opt.append(od[k] ?? nil)
//	optpath a p i b q     save a copy of opt[i] to /storage/o<q> of b (whatever was there is loaded and dropped)
//	pathopt a p b q       copy /storage/o<q> of b and append it to opt of a.p
//	setsd a p k m         sd[k] = array of m Ints      sd: {String: [Int]}
//	rmsd a p k            sd.remove(key: k)            (single-entry removal through a reference)
//	clrsd a p k           sd[k] = nil
//	readall a p           read every element / entry / key of the resource at a.p through a reference
// dictionary keys k: x, y, z are short; K<n> stands for a key of 260 + 40 n characters (stored in a slab of its own)

import (
	"fmt"
	"os"
	"strconv"
	"strings"
	"time"

	"github.com/onflow/atree"

	"github.com/onflow/cadence"
	"github.com/onflow/cadence/common"
	"github.com/onflow/cadence/interpreter"
	"github.com/onflow/cadence/runtime"
	. "github.com/onflow/cadence/test_utils/runtime_utils"

	"verif/harness/internal/cdc"
	"verif/harness/internal/hx"
)

func init() {
	hx.Register(&hx.Stream{Name: "health", Gen: genHealth, Exec: execHealth, Parallel: true, Timeout: 300 * time.Second})
}

const healthContract = `
access(all) contract C {
    access(all) resource R {
        access(all) var kids: @[R]
        access(all) var dict: @{String: R}
        access(all) var data: [Int]
        access(all) var opt: [String?]
        access(all) var big: [Int?]
        access(all) var one: String?
        access(all) var od: {String: String?}
        access(all) var sd: {String: [Int]}
        init() { self.kids <- []; self.dict <- {}; self.data = []; self.opt = []; self.big = []; self.one = nil; self.od = {}; self.sd = {} }
        access(all) fun appendOpt(_ v: String?) { self.opt.append(v) }
        access(all) fun appendBig(_ v: Int?) { self.big.append(v) }
        access(all) fun setOne(_ v: String?) { self.one = v }
        access(all) fun putOD(_ k: String, _ v: String?) { self.od[k] = v }
        access(all) fun setSD(_ k: String, _ m: Int) { self.sd[k] = C.data(1, m)[0] }
        access(all) fun rmSD(_ k: String) { self.sd.remove(key: k) }
        access(all) fun clrSD(_ k: String) { self.sd[k] = nil }
        access(all) fun readAll(): Int {
            var n = 0
            for v in self.opt { n = n + (v?.length ?? 0) }
            for v in self.big { if let b = v { n = n + (b > 0 ? 1 : 0) } }
            n = n + (self.one?.length ?? 0)
            for k in self.od.keys { let v = self.od[k] ?? nil; n = n + k.length + (v?.length ?? 0) }
            for k in self.sd.keys { n = n + k.length + self.sd[k]!.length }
            for k in self.dict.keys { n = n + k.length }
            return n
        }
        access(all) fun addKid(_ r: @R) { self.kids.append(<-r) }
        access(all) fun takeKid(): @R? {
            if self.kids.length == 0 { return nil }
            return <- self.kids.removeLast()
        }
        access(all) fun putDict(_ k: String, _ r: @R) { let old <- self.dict[k] <- r; destroy old }
        access(all) fun takeDict(_ k: String): @R? { return <- self.dict.remove(key: k) }
        access(all) fun grow(_ n: Int) { var i = 0; while i < n { self.data.append(i); i = i + 1 } }
        access(all) fun shrink(_ n: Int) { var i = 0; while i < n && self.data.length > 0 { self.data.removeLast(); i = i + 1 } }
    }
    access(all) fun make(_ depth: Int, _ width: Int): @R {
        let r <- create R()
        if depth > 0 {
            var i = 0
            while i < width { r.addKid(<- C.make(depth - 1, width)); i = i + 1 }
        }
        return <- r
    }
    access(all) fun data(_ n: Int, _ m: Int): [[Int]] {
        let out: [[Int]] = []
        var i = 0
        while i < n {
            let inner: [Int] = []
            var j = 0
            while j < m { inner.append(j); j = j + 1 }
            out.append(inner)
            i = i + 1
        }
        return out
    }
}
`

func healthTxSource(tok []string) (src string, ok bool) {
	abort := ""
	if len(tok) > 0 && tok[len(tok)-1] == "!" {
		abort = `panic("abort")`
		tok = tok[:len(tok)-1]
	}
	if len(tok) == 0 {
		return "", false
	}
	arg := func(i int) string {
		if i < len(tok) {
			return tok[i]
		}
		return "0"
	}
	acct := func(i int) string { return "s" + arg(i) }
	rp := func(i int) string { return "/storage/r" + arg(i) }
	dp := func(i int) string { return "/storage/d" + arg(i) }
	// a string literal of n characters / an integer of n bytes; 0 = nil
	strLit := func(i int) string {
		n, _ := strconv.Atoi(arg(i))
		if n == 0 {
			return "nil"
		}
		return `"` + strings.Repeat("s", n) + `"`
	}
	bigLit := func(i int) string {
		n, _ := strconv.Atoi(arg(i))
		if n == 0 {
			return "nil"
		}
		return fmt.Sprintf("(1 << %d) + 1", 8*n-1)
	}
	ref := func(i int) string {
		return fmt.Sprintf(`let ref = %s.storage.borrow<&C.R>(from: %s) ?? panic("none")`, acct(i), rp(i+1))
	}
	// v = a copy of opt[i mod length] read through the reference (nil when there is no element)
	optAt := func(i int) string {
		return fmt.Sprintf(`var v: String? = nil
            if ref.opt.length > 0 { v = ref.opt[Int(%s) %% ref.opt.length] }`, arg(i))
	}
	op := func(i int) string { return "/storage/o" + arg(i) }
	var body string
	switch tok[0] {
	case "addopt":
		body = ref(1) + "\n ref.appendOpt(" + strLit(3) + ")"
	case "addbig":
		body = ref(1) + "\n ref.appendBig(" + bigLit(3) + ")"
	case "copyopt":
		body = ref(1) + "\n" + optAt(3) + "\n ref.appendOpt(v)"
	case "copybig":
		body = ref(1) + fmt.Sprintf(`
            if ref.big.length > 0 { let v = ref.big[Int(%s) %% ref.big.length]; ref.appendBig(v) }`, arg(3))
	case "optto":
		body = ref(1) + "\n" + optAt(3) + fmt.Sprintf(`
            let dst = %s.storage.borrow<&C.R>(from: %s) ?? panic("none")
            dst.appendOpt(v)`, acct(4), rp(5))
	case "optone":
		body = ref(1) + "\n" + optAt(3) + "\n ref.setOne(v)"
	case "oneopt":
		body = ref(1) + "\n let v = ref.one\n ref.appendOpt(v)"
	case "optod":
		body = ref(1) + "\n" + optAt(3) + "\n ref.putOD(\"" + healthKey(arg(4)) + "\", v)"
	case "odopt":
		body = ref(1) + "\n let v = ref.od[\"" + healthKey(arg(3)) + "\"] ?? nil\n ref.appendOpt(v)"
	case "optpath":
		body = ref(1) + "\n" + optAt(3) + fmt.Sprintf(`
            let old = %s.storage.load<String?>(from: %s)
            %s.storage.save(v, to: %s)`, acct(4), op(5), acct(4), op(5))
	case "pathopt":
		body = ref(1) + fmt.Sprintf(`
            let v = %s.storage.copy<String?>(from: %s) ?? nil
            ref.appendOpt(v)`, acct(3), op(4))
	case "setsd":
		body = ref(1) + "\n ref.setSD(\"" + healthKey(arg(3)) + "\", " + arg(4) + ")"
	case "rmsd":
		body = ref(1) + "\n ref.rmSD(\"" + healthKey(arg(3)) + "\")"
	case "clrsd":
		body = ref(1) + "\n ref.clrSD(\"" + healthKey(arg(3)) + "\")"
	case "readall":
		body = ref(1) + "\n ref.readAll()"
	case "save":
		body = fmt.Sprintf(`%s.storage.save(<- C.make(%s, %s), to: %s)`, acct(1), arg(3), arg(4), rp(2))
	case "destroy":
		body = fmt.Sprintf(`let r <- %s.storage.load<@C.R>(from: %s) ?? panic("none")
            destroy r`, acct(1), rp(2))
	case "move":
		body = fmt.Sprintf(`let r <- %s.storage.load<@C.R>(from: %s) ?? panic("none")
            %s.storage.save(<- r, to: %s)`, acct(1), rp(2), acct(3), rp(4))
	case "addkid":
		body = fmt.Sprintf(`let ref = %s.storage.borrow<&C.R>(from: %s) ?? panic("none")
            ref.addKid(<- C.make(%s, %s))`, acct(1), rp(2), arg(3), arg(4))
	case "takekid":
		body = fmt.Sprintf(`let ref = %s.storage.borrow<&C.R>(from: %s) ?? panic("none")
            let k <- ref.takeKid() ?? panic("nokid")
            destroy k`, acct(1), rp(2))
	case "movekid":
		body = fmt.Sprintf(`let ref = %s.storage.borrow<&C.R>(from: %s) ?? panic("none")
            let dst = %s.storage.borrow<&C.R>(from: %s) ?? panic("none")
            let k <- ref.takeKid() ?? panic("nokid")
            dst.addKid(<- k)`, acct(1), rp(2), acct(3), rp(4))
	case "kidtopath":
		body = fmt.Sprintf(`let ref = %s.storage.borrow<&C.R>(from: %s) ?? panic("none")
            let k <- ref.takeKid() ?? panic("nokid")
            %s.storage.save(<- k, to: %s)`, acct(1), rp(2), acct(1), rp(3))
	case "putdict":
		body = fmt.Sprintf(`let ref = %s.storage.borrow<&C.R>(from: %s) ?? panic("none")
            ref.putDict("%s", <- C.make(%s, %s))`, acct(1), rp(2), healthKey(arg(3)), arg(4), arg(5))
	case "takedict":
		body = fmt.Sprintf(`let ref = %s.storage.borrow<&C.R>(from: %s) ?? panic("none")
            let k <- ref.takeDict("%s") ?? panic("nokey")
            destroy k`, acct(1), rp(2), healthKey(arg(3)))
	case "grow":
		body = fmt.Sprintf(`let ref = %s.storage.borrow<&C.R>(from: %s) ?? panic("none")
            ref.grow(%s)`, acct(1), rp(2), arg(3))
	case "shrink":
		body = fmt.Sprintf(`let ref = %s.storage.borrow<&C.R>(from: %s) ?? panic("none")
            ref.shrink(%s)`, acct(1), rp(2), arg(3))
	case "savedata":
		body = fmt.Sprintf(`%s.storage.save(C.data(%s, %s), to: %s)`, acct(1), arg(3), arg(4), dp(2))
	case "copydata":
		body = fmt.Sprintf(`let v = %s.storage.copy<[[Int]]>(from: %s) ?? panic("none")
            %s.storage.save(v, to: %s)`, acct(1), dp(2), acct(3), dp(4))
	case "dropdata":
		body = fmt.Sprintf(`let v = %s.storage.load<[[Int]]>(from: %s) ?? panic("none")`, acct(1), dp(2))
	case "setdata":
		body = fmt.Sprintf(`var v = %s.storage.load<[[Int]]>(from: %s) ?? panic("none")
            if %s >= v.length { panic("index") }
            v[%s] = C.data(1, %s)[0]
            %s.storage.save(v, to: %s)`, acct(1), dp(2), arg(3), arg(3), arg(4), acct(1), dp(2))
	default:
		return "", false
	}
	return fmt.Sprintf(`import C from 0x1
        transaction {
          prepare(s1: auth(Storage) &Account, s2: auth(Storage) &Account, s3: auth(Storage) &Account) {
            %s
            %s
          }
        }`, body, abort), true
}

// dictionary key for a key token: K<n> = a string over atree's inline limit for map keys
func healthKey(tok string) string {
	if strings.HasPrefix(tok, "K") {
		n, _ := strconv.Atoi(tok[1:])
		return tok + strings.Repeat("k", 260+40*n-len(tok))
	}
	return tok
}

var healthAccounts = []common.Address{
	common.MustBytesToAddress([]byte{1}), common.MustBytesToAddress([]byte{2}), common.MustBytesToAddress([]byte{3}),
}

// healthCheck opens a fresh storage over the ledger and checks all of it; "" = healthy
func healthCheck(ledger TestLedger) (verdict string) {
	defer func() {
		if r := recover(); r != nil {
			verdict = "panic-while-reading"
		}
	}()
	storage := runtime.NewStorage(ledger, nil, nil, runtime.StorageConfig{})
	inter, err := interpreter.NewInterpreter(nil, common.StringLocation("health"), &interpreter.Config{Storage: storage})
	if err != nil {
		return "no-interpreter"
	}
	// every slab register of the ledger must decode
	for key, val := range ledger.StoredValues { //nolint:maprange
		if len(val) == 0 {
			continue
		}
		i := strings.Index(key, "|")
		if i < 0 {
			continue
		}
		owner, k := key[:i], key[i+1:]
		if len(k) != 9 || k[0] != '$' || len(owner) != 8 {
			continue
		}
		var addr atree.Address
		copy(addr[:], owner)
		var idx atree.SlabIndex
		copy(idx[:], k[1:])
		slab, found, err := storage.Retrieve(atree.NewSlabID(addr, idx))
		if err != nil || !found || slab == nil {
			return "slab-does-not-decode"
		}
	}
	// every stored value of every account must decode
	for _, a := range healthAccounts {
		for _, domain := range common.AllStorageDomains {
			m := storage.GetDomainStorageMap(inter, a, domain, false)
			if m == nil {
				continue
			}
			it := m.Iterator()
			for {
				k, v := it.Next(nil)
				if k == nil {
					break
				}
				if v == nil {
					return "nil-stored-value"
				}
				interpreter.InspectValue(inter, v, func(interpreter.Value) bool { return true })
			}
		}
	}
	if err := storage.CheckHealth(); err != nil {
		switch err.(type) {
		case runtime.UnreferencedRootSlabsError:
			return "unreferenced-root-slabs"
		}
		msg := err.Error()
		switch {
		case strings.Contains(msg, "two parents"), strings.Contains(msg, "two references"):
			return "slab-referenced-twice"
		case strings.Contains(msg, "not found"):
			return "dangling-slab-reference"
		case strings.Contains(msg, "non-root slab"):
			return "storage-map-not-root"
		}
		return "storage-health-error"
	}
	return ""
}

// healthEnv runs transactions like cdc.Env does (same host interface, computation limit), but lets the
// stream choose runtime.Config.AtreeValidationEnabled: with the validation on (the test default) the
// runtime itself aborts a transaction that leaves the slab storage inconsistent, so an unhealthy
// ledger can only be *committed* — and observed by the health check — with the production setting (off).
type healthEnv struct {
	ledger   TestLedger
	codes    map[common.Location][]byte
	signers  []common.Address
	validate bool
	nextTx   func() common.TransactionLocation
	uuid     uint64
}

func (e *healthEnv) tx(src string, useVM bool) (class, kind string) {
	defer func() {
		if r := recover(); r != nil {
			class, kind = "crash", "escaped-panic"
		}
	}()
	iface := &TestRuntimeInterface{
		Storage:                  e.ledger,
		OnGetCode:                func(l runtime.Location) ([]byte, error) { return e.codes[l], nil },
		OnResolveLocation:        MultipleIdentifierLocationResolver,
		OnGetAccountContractCode: func(l common.AddressLocation) ([]byte, error) { return e.codes[l], nil },
		OnUpdateAccountContractCode: func(l common.AddressLocation, code []byte) error {
			e.codes[l] = code
			return nil
		},
		OnGetSigningAccounts: func() ([]runtime.Address, error) { return e.signers, nil },
		OnProgramLog:         func(string) {},
		OnEmitEvent:          func(cadence.Event) error { return nil },
		OnGenerateUUID:       func() (uint64, error) { e.uuid++; return e.uuid, nil },
	}
	rt := NewTestRuntimeWithConfig(runtime.Config{AtreeValidationEnabled: e.validate})
	err := rt.ExecuteTransaction(
		runtime.Script{Source: []byte(src)},
		runtime.Context{
			Interface:        iface,
			Location:         e.nextTx(),
			UseVM:            useVM,
			ComputationGauge: &cdc.Gauge{Limit: 5000000},
		},
	)
	if err != nil && os.Getenv("VERIF_DEBUG") != "" {
		fmt.Fprintln(os.Stderr, "health:", cdc.ErrString(err))
	}
	return cdc.Classify(err)
}

func execHealth(op []string) string {
	if len(op) < 3 {
		return "bad-op"
	}
	engine := op[1]
	validate := strings.HasSuffix(engine, "+v")
	useVM := strings.HasPrefix(engine, "vm")
	env := &healthEnv{
		ledger:   NewTestLedger(nil, nil),
		codes:    map[common.Location][]byte{},
		validate: validate,
		nextTx:   NewTransactionLocationGenerator(),
	}
	env.signers = []common.Address{healthAccounts[0]}
	if class, kind := env.tx(fmt.Sprintf(`transaction { prepare(signer: auth(Contracts) &Account) { signer.contracts.add(name: "C", code: "%x".decodeHex()) } }`, healthContract), useVM); class != "none" {
		return "deploy-failed:" + kind
	}
	if v := healthCheck(env.ledger); v != "" {
		return "unhealthy:" + v
	}
	env.signers = healthAccounts
	var obs []string
	for _, tx := range strings.Split(op[2], "|") {
		src, ok := healthTxSource(strings.Fields(tx))
		if !ok {
			return "bad-op"
		}
		class, kind := env.tx(src, useVM)
		switch class {
		case "none":
			obs = append(obs, "c")
		case "user":
			obs = append(obs, "f")
		default:
			obs = append(obs, "f-"+class+"-"+kind)
		}
		if v := healthCheck(env.ledger); v != "" {
			obs = append(obs, "unhealthy:"+v)
			break
		}
	}
	return strings.Join(obs, ",")
}

// ---------------------------------------------------------------- generator

func genHealth(c *hx.Ctx) {
	// see genStored: decorrelate consecutive seeds
	r := c.Rng.Fork()
	n := c.N
	for i := 0; i < n; i++ {
		// shadow of which paths are occupied, to keep most transactions valid
		occR := map[string]bool{}
		occD := map[string]bool{}
		key := func(a, p int) string { return strconv.Itoa(a) + "/" + strconv.Itoa(p) }
		pickOcc := func(m map[string]bool) (int, int, bool) {
			var ks []string
			for a := 1; a <= 3; a++ {
				for p := 0; p < 4; p++ {
					if m[key(a, p)] {
						ks = append(ks, key(a, p))
					}
				}
			}
			if len(ks) == 0 || r.Chance(7) { // sometimes an empty path on purpose
				return 1 + r.Intn(3), r.Intn(4), false
			}
			k := ks[r.Intn(len(ks))]
			a, _ := strconv.Atoi(k[:1])
			p, _ := strconv.Atoi(k[2:])
			return a, p, true
		}
		pickFree := func(m map[string]bool) (int, int) {
			for t := 0; t < 8; t++ {
				a, p := 1+r.Intn(3), r.Intn(4)
				if !m[key(a, p)] || r.Chance(5) {
					return a, p
				}
			}
			return 1 + r.Intn(3), r.Intn(4)
		}
		steps := 4 + r.Intn(9)
		// half of the histories concentrate on optional elements / large dictionary keys
		optHeavy := r.Bool()
		keys := []string{"x", "y", "z", "K0", "K1", "K3"}
		// shadow of the keys put into dict / sd of the resource at a path, so that most single-entry
		// removals hit an existing entry
		dictKeys := map[string][]string{}
		sdKeys := map[string][]string{}
		// a path whose resource has entries (sorted: the choice must not depend on map order)
		pathWithKeys := func(m map[string][]string) (int, int, bool) {
			var ks []string
			for a := 1; a <= 3; a++ {
				for p := 0; p < 4; p++ {
					if len(m[key(a, p)]) > 0 {
						ks = append(ks, key(a, p))
					}
				}
			}
			if len(ks) == 0 || r.Chance(10) {
				return 0, 0, false
			}
			k := ks[r.Intn(len(ks))]
			a, _ := strconv.Atoi(k[:1])
			p, _ := strconv.Atoi(k[2:])
			return a, p, true
		}
		takeKey := func(m map[string][]string, pk string) string {
			ks := m[pk]
			if len(ks) == 0 || r.Chance(15) {
				return r.Pick(keys)
			}
			i := r.Intn(len(ks))
			k := ks[i]
			m[pk] = append(append([]string{}, ks[:i]...), ks[i+1:]...)
			return k
		}
		var txs []string
		for s := 0; s < steps; s++ {
			abort := r.Chance(8)
			var tx string
			k := r.Intn(34)
			if optHeavy && len(occR) > 0 && r.Chance(50) {
				k = 20 + r.Intn(14)
			}
			if len(occR) > 0 && r.Chance(10) {
				// single-entry insertion / removal in the resource dictionary (keys over the inline limit included)
				k = 12
				has := false
				for _, ks := range dictKeys { //nolint:maprange (only emptiness is used)
					has = has || len(ks) > 0
				}
				if has && r.Bool() {
					k = 14
				}
			}
			if len(occR) == 0 && (k < 17 || k >= 20) && r.Chance(70) {
				k = 0 // nothing stored yet: save first
			}
			if len(occD) == 0 && k >= 18 && r.Chance(70) {
				k = 17
			}
			switch {
			case k < 3:
				a, p := pickFree(occR)
				tx = fmt.Sprintf("save %d %d %d %d", a, p, r.Intn(4), 1+r.Intn(3))
				if !abort && !occR[key(a, p)] {
					occR[key(a, p)] = true
				}
			case k < 4:
				a, p, ok := pickOcc(occR)
				tx = fmt.Sprintf("destroy %d %d", a, p)
				if !abort && ok {
					delete(occR, key(a, p))
					delete(dictKeys, key(a, p))
					delete(sdKeys, key(a, p))
				}
			case k < 6:
				a, p, ok := pickOcc(occR)
				b, q := pickFree(occR)
				tx = fmt.Sprintf("move %d %d %d %d", a, p, b, q)
				if !abort && ok && !occR[key(b, q)] {
					delete(occR, key(a, p))
					occR[key(b, q)] = true
					dictKeys[key(b, q)], sdKeys[key(b, q)] = dictKeys[key(a, p)], sdKeys[key(a, p)]
					delete(dictKeys, key(a, p))
					delete(sdKeys, key(a, p))
				}
			case k < 8:
				a, p, _ := pickOcc(occR)
				tx = fmt.Sprintf("addkid %d %d %d %d", a, p, r.Intn(3), 1+r.Intn(3))
			case k < 9:
				a, p, _ := pickOcc(occR)
				tx = fmt.Sprintf("takekid %d %d", a, p)
			case k < 11:
				a, p, _ := pickOcc(occR)
				b, q, _ := pickOcc(occR)
				tx = fmt.Sprintf("movekid %d %d %d %d", a, p, b, q)
			case k < 12:
				a, p, _ := pickOcc(occR)
				q := r.Intn(4)
				tx = fmt.Sprintf("kidtopath %d %d %d", a, p, q)
				// whether it commits depends on the kids; the shadow is only a heuristic here
			case k < 14:
				a, p, _ := pickOcc(occR)
				k := r.Pick(keys)
				tx = fmt.Sprintf("putdict %d %d %s %d %d", a, p, k, r.Intn(3), 1+r.Intn(3))
				if !abort {
					dictKeys[key(a, p)] = append(dictKeys[key(a, p)], k)
				}
			case k < 15:
				a, p, _ := pickOcc(occR)
				if a2, p2, ok := pathWithKeys(dictKeys); ok {
					a, p = a2, p2
				}
				if abort {
					tx = fmt.Sprintf("takedict %d %d %s", a, p, r.Pick(keys))
				} else {
					tx = fmt.Sprintf("takedict %d %d %s", a, p, takeKey(dictKeys, key(a, p)))
				}
			case k < 16:
				a, p, _ := pickOcc(occR)
				tx = fmt.Sprintf("grow %d %d %d", a, p, []int{1, 10, 40, 120, 300}[r.Intn(5)])
			case k < 17:
				a, p, _ := pickOcc(occR)
				tx = fmt.Sprintf("shrink %d %d %d", a, p, []int{1, 10, 40, 120, 300}[r.Intn(5)])
			case k < 18:
				a, p := pickFree(occD)
				tx = fmt.Sprintf("savedata %d %d %d %d", a, p, r.Intn(5), []int{0, 1, 5, 30, 100}[r.Intn(5)])
				if !abort && !occD[key(a, p)] {
					occD[key(a, p)] = true
				}
			case k < 19:
				a, p, ok := pickOcc(occD)
				b, q := pickFree(occD)
				tx = fmt.Sprintf("copydata %d %d %d %d", a, p, b, q)
				if !abort && ok && !occD[key(b, q)] {
					occD[key(b, q)] = true
				}
			case k >= 20:
				a, p, _ := pickOcc(occR)
				strSizes := []int{0, 5, 200, 300, 600, 600, 1500}
				switch k {
				case 20, 21, 22:
					tx = fmt.Sprintf("addopt %d %d %d", a, p, strSizes[r.Intn(len(strSizes))])
				case 23:
					tx = fmt.Sprintf("addbig %d %d %d", a, p, []int{0, 8, 300, 600, 1200}[r.Intn(5)])
				case 24, 25:
					tx = fmt.Sprintf("copyopt %d %d %d", a, p, r.Intn(4))
				case 26:
					tx = fmt.Sprintf("copybig %d %d %d", a, p, r.Intn(4))
				case 27:
					b, q, _ := pickOcc(occR)
					tx = fmt.Sprintf("optto %d %d %d %d %d", a, p, r.Intn(4), b, q)
				case 28:
					if r.Bool() {
						tx = fmt.Sprintf("optone %d %d %d", a, p, r.Intn(4))
					} else {
						tx = fmt.Sprintf("oneopt %d %d", a, p)
					}
				case 29:
					if r.Bool() {
						tx = fmt.Sprintf("optod %d %d %d %s", a, p, r.Intn(4), r.Pick([]string{"x", "K1"}))
					} else {
						tx = fmt.Sprintf("odopt %d %d %s", a, p, r.Pick([]string{"x", "K1"}))
					}
				case 30:
					if r.Bool() {
						tx = fmt.Sprintf("optpath %d %d %d %d %d", a, p, r.Intn(4), 1+r.Intn(3), r.Intn(2))
					} else {
						tx = fmt.Sprintf("pathopt %d %d %d %d", a, p, 1+r.Intn(3), r.Intn(2))
					}
				case 31:
					k := r.Pick(keys)
					tx = fmt.Sprintf("setsd %d %d %s %d", a, p, k, []int{0, 3, 50, 150}[r.Intn(4)])
					if !abort {
						sdKeys[key(a, p)] = append(sdKeys[key(a, p)], k)
					}
				case 32:
					k := r.Pick(keys)
					if a2, p2, ok := pathWithKeys(sdKeys); ok {
						a, p = a2, p2
					}
					if !abort {
						k = takeKey(sdKeys, key(a, p))
					}
					tx = fmt.Sprintf("%s %d %d %s", r.Pick([]string{"rmsd", "rmsd", "clrsd"}), a, p, k)
				default:
					tx = fmt.Sprintf("readall %d %d", a, p)
				}
			default:
				a, p, ok := pickOcc(occD)
				if r.Bool() {
					tx = fmt.Sprintf("dropdata %d %d", a, p)
					if !abort && ok {
						delete(occD, key(a, p))
					}
				} else {
					tx = fmt.Sprintf("setdata %d %d %d %d", a, p, r.Intn(4), []int{0, 3, 50, 150}[r.Intn(4)])
				}
			}
			if abort {
				tx += " !"
			}
			txs = append(txs, tx)
		}
		// engine × atree validation (off = the production setting, where only the health check can notice)
		c.Emit("health", []string{"interp", "vm", "interp", "vm", "interp+v", "vm+v"}[r.Intn(6)], strings.Join(txs, "|"))
	}
}
