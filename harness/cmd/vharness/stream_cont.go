package main

// Stream `cont` (property C20): operation sequences on one array / dictionary that lives in account
// storage, grouped into transactions; each transaction either loads the container into a local
// variable, works on it in memory and saves it back (mode M), or works on it in place through an
// `auth(Mutate) &` reference into storage (mode R).  The ledger persists between the transactions of a
// history, so every later transaction reloads what the earlier ones committed.  One line = one history:
//
//	cont <engine> <shape> <history>   =>   <obs tx1>|<obs tx2>|...
//
// shape   = arr:<T> | fix:<T> (constant-sized, 4 elements) | dict:<K>:<V>      T,K,V ∈ I S A P
//           (I Int, S String, A [Int], P struct K.P(a: Int, b: String); keys: I or S)
// history = tx ("|" tx)*     tx = ("M"|"R") ":" op (";" op)*
// element tokens: I decimal, or p<k>x<c> = 2^k + c (an Int too large to be inlined into its parent slab); S <letter><n> (the letter repeated n times); A i.i.i or e; P <int>_<S token>
// element lists: tokens joined by "+", "-" = empty list
// array ops:  ap,E  aa,L  in,i,E  rm,i  rf  rl  gt,i  st,i,E  sl,a,b  rv  cc,L  fl,k  mp,k  ct,E  fi,E  ln
//             tc,n (toConstantSized<[T; n]>)  tv (toVariableSized)   SL,a,b RV CC,L FL,k (c = c.slice(…) …; mode M)
// dict ops:   di,K,V  dr,K  dg,K  ds,K,V  dn,K  dk  dv  dc,K  df  de,j  it  ln
// both:       im,<outer>,<nest>,<when>,<mutation op>   an iteration over c with a mutation of c:
//             outer f (`for x in c`) | m (`c.map`, arrays) | k (`c.forEachKey`, dictionaries);
//             nest 0 none | 1 a nested `for y in c {}` that ends before the mutation | 2 a nested c.filter /
//             c.forEachKey that ends before it | 3 the mutation sits inside a nested `for y in c`;
//             when <j> inside the body at outer step j | a after the loop | b<j> `break` at step j, mutation after the loop;
//             mutation op: ap,E in,i,E rm,i rf rl st,i,E | di,K,V dr,K ds,K,V dn,K.   Logs "<steps>/<length>".
// Every op logs exactly one line, and every transaction ends with a dump `log(c)`.

import (
	"fmt"
	"os"
	"sort"
	"strconv"
	"strings"
	"time"

	"github.com/onflow/cadence/common"

	"verif/harness/internal/cdc"
	"verif/harness/internal/hx"
)

func init() {
	hx.Register(&hx.Stream{Name: "cont", Gen: genCont, Exec: execCont, Parallel: true, Timeout: 600 * time.Second})
}

const contContract = `
access(all) contract K {
    access(all) struct P { access(all) let a: Int; access(all) let b: String
        init(a: Int, b: String) { self.a = a; self.b = b } }
}
`

func contTypeSyntax(t string) string {
	switch t {
	case "I":
		return "Int"
	case "S":
		return "String"
	case "A":
		return "[Int]"
	case "P":
		return "K.P"
	}
	return "BAD"
}

func contStr(tok string) string {
	n, _ := strconv.Atoi(tok[1:])
	return strconv.Quote(strings.Repeat(tok[:1], n))
}

func contElem(t, tok string) string {
	switch t {
	case "I":
		if strings.HasPrefix(tok, "p") {
			i := strings.Index(tok, "x")
			return "((1 << " + tok[1:i] + ") + " + tok[i+1:] + ")"
		}
		return tok
	case "S":
		return contStr(tok)
	case "A":
		if tok == "e" {
			return "([] as [Int])"
		}
		return "[" + strings.ReplaceAll(tok, ".", ", ") + "]"
	case "P":
		i := strings.Index(tok, "_")
		return "K.P(a: " + contElem("I", tok[:i]) + ", b: " + contStr(tok[i+1:]) + ")"
	}
	return "BAD"
}

func contList(t, l string) string {
	if l == "-" {
		return "([] as [" + contTypeSyntax(t) + "])"
	}
	parts := strings.Split(l, "+")
	for i := range parts {
		parts[i] = contElem(t, parts[i])
	}
	return "[" + strings.Join(parts, ", ") + "]"
}

// filter predicates and map functions, per element type (index k)
func contPred(t string, k string) string {
	switch t + k {
	case "I0":
		return "x % 2 == 0"
	case "I1":
		return "x > 10"
	case "S0":
		return "x.length > 3"
	case "S1":
		return "x.length % 2 == 0"
	case "A0":
		return "x.length > 0"
	case "A1":
		return "x.length % 2 == 1"
	case "P0":
		return "x.a > 0"
	case "P1":
		return "x.b.length > 2"
	}
	return "BAD"
}

func contMapFn(t string, k string) (resType, body string) {
	switch t + k {
	case "I0":
		return "Int", "x * 2 + 1"
	case "I1":
		return "String", "x.toString()"
	case "S0":
		return "Int", "x.length"
	case "S1":
		return "String", "x.concat(\"z\")"
	case "A0":
		return "Int", "x.length"
	case "A1":
		return "[Int]", "x.concat([7])"
	case "P0":
		return "Int", "x.a"
	case "P1":
		return "String", "x.b"
	}
	return "BAD", "BAD"
}

const contFixN = 4

// the statement of a mutation op (fields f), without a log
func contMutStmt(et, kt, vt string, f []string) string {
	switch f[0] {
	case "ap":
		return fmt.Sprintf("c.append(%s)", contElem(et, f[1]))
	case "in":
		return fmt.Sprintf("c.insert(at: %s, %s)", f[1], contElem(et, f[2]))
	case "rm":
		return fmt.Sprintf("c.remove(at: %s)", f[1])
	case "rf":
		return "c.removeFirst()"
	case "rl":
		return "c.removeLast()"
	case "st":
		return fmt.Sprintf("c[%s] = %s", f[1], contElem(et, f[2]))
	case "di":
		return fmt.Sprintf("c.insert(key: %s, %s)", contElem(kt, f[1]), contElem(vt, f[2]))
	case "dr":
		return fmt.Sprintf("c.remove(key: %s)", contElem(kt, f[1]))
	case "ds":
		return fmt.Sprintf("c[%s] = %s", contElem(kt, f[1]), contElem(vt, f[2]))
	case "dn":
		return fmt.Sprintf("c[%s] = nil", contElem(kt, f[1]))
	}
	return "BAD MUTATION"
}

// an iteration over c with a mutation of c (op `im`, see the header); k makes the local names unique
func contIterSource(b *strings.Builder, k int, isDict bool, et, kt, vt string, f []string) {
	outer, nest, when := f[1], f[2], f[3]
	mut := contMutStmt(et, kt, vt, f[4:])
	elemT := contTypeSyntax(et)
	if isDict {
		elemT = contTypeSyntax(kt)
	}
	n := fmt.Sprintf("n%d", k)
	inside, after := "", ""
	switch {
	case when == "a":
		after = mut
	case strings.HasPrefix(when, "b"):
		inside = fmt.Sprintf("if %s == %s { break }", n, when[1:])
		after = mut
	default:
		inside = fmt.Sprintf("if %s == %s { %s }", n, when, mut)
	}
	nested := ""
	switch nest {
	case "1":
		nested = fmt.Sprintf("for y%d in c { }", k)
	case "2":
		if isDict {
			nested = fmt.Sprintf("c.forEachKey(fun (q: %s): Bool { return true })", elemT)
		} else {
			nested = fmt.Sprintf("let t%d = c.filter(view fun (q: %s): Bool { return true })", k, elemT)
		}
	case "3":
		nested = fmt.Sprintf("for y%d in c { %s }", k, inside)
		inside = ""
	}
	fmt.Fprintf(b, "  var %s = 0\n", n)
	switch outer {
	case "f":
		fmt.Fprintf(b, "  for x%d in c {\n   %s\n   %s\n   %s = %s + 1\n  }\n", k, nested, inside, n, n)
	case "m":
		fmt.Fprintf(b, "  let u%d = c.map(fun (p: %s): Int {\n   %s\n   %s\n   %s = %s + 1\n   return 0\n  })\n", k, elemT, nested, inside, n, n)
	case "k":
		fmt.Fprintf(b, "  c.forEachKey(fun (p: %s): Bool {\n   %s\n   %s\n   %s = %s + 1\n   return true\n  })\n", elemT, nested, inside, n, n)
	default:
		b.WriteString("  BAD OUTER\n")
	}
	if after != "" {
		fmt.Fprintf(b, "  %s\n", after)
	}
	fmt.Fprintf(b, "  log(%s.toString().concat(\"/\").concat(c.length.toString()))\n", n)
}

func contTxSource(shape string, tx string) string {
	sh := strings.Split(shape, ":")
	mode := tx[:1]
	ops := strings.Split(tx[2:], ";")
	var cty, et, kt, vt string
	switch sh[0] {
	case "arr":
		et = sh[1]
		cty = "[" + contTypeSyntax(et) + "]"
	case "fix":
		et = sh[1]
		cty = fmt.Sprintf("[%s; %d]", contTypeSyntax(et), contFixN)
	case "dict":
		kt, vt = sh[1], sh[2]
		cty = "{" + contTypeSyntax(kt) + ": " + contTypeSyntax(vt) + "}"
	}
	var b strings.Builder
	b.WriteString("import K from 0x1\ntransaction {\n prepare(a0: auth(Storage) &Account) {\n")
	if mode == "M" {
		fmt.Fprintf(&b, "  var c = a0.storage.load<%s>(from: /storage/c)!\n", cty)
	} else {
		fmt.Fprintf(&b, "  let c = a0.storage.borrow<auth(Mutate) &%s>(from: /storage/c)!\n", cty)
	}
	T := contTypeSyntax(et)
	for k, op := range ops {
		f := strings.Split(op, ",")
		switch f[0] {
		case "ap":
			fmt.Fprintf(&b, "  c.append(%s); log(c.length)\n", contElem(et, f[1]))
		case "aa":
			fmt.Fprintf(&b, "  c.appendAll(%s); log(c.length)\n", contList(et, f[1]))
		case "in":
			fmt.Fprintf(&b, "  c.insert(at: %s, %s); log(c.length)\n", f[1], contElem(et, f[2]))
		case "rm":
			fmt.Fprintf(&b, "  log(c.remove(at: %s))\n", f[1])
		case "rf":
			b.WriteString("  log(c.removeFirst())\n")
		case "rl":
			b.WriteString("  log(c.removeLast())\n")
		case "gt":
			fmt.Fprintf(&b, "  log(c[%s])\n", f[1])
		case "st":
			fmt.Fprintf(&b, "  c[%s] = %s; log(c.length)\n", f[1], contElem(et, f[2]))
		case "sl":
			fmt.Fprintf(&b, "  log(c.slice(from: %s, upTo: %s))\n", f[1], f[2])
		case "SL":
			fmt.Fprintf(&b, "  c = c.slice(from: %s, upTo: %s); log(c.length)\n", f[1], f[2])
		case "rv":
			b.WriteString("  log(c.reverse())\n")
		case "RV":
			b.WriteString("  c = c.reverse(); log(c.length)\n")
		case "cc":
			fmt.Fprintf(&b, "  log(c.concat(%s))\n", contList(et, f[1]))
		case "CC":
			fmt.Fprintf(&b, "  c = c.concat(%s); log(c.length)\n", contList(et, f[1]))
		case "fl":
			fmt.Fprintf(&b, "  log(c.filter(view fun (x: %s): Bool { return %s }))\n", T, contPred(et, f[1]))
		case "FL":
			fmt.Fprintf(&b, "  c = c.filter(view fun (x: %s): Bool { return %s }); log(c.length)\n", T, contPred(et, f[1]))
		case "mp":
			rt, body := contMapFn(et, f[1])
			fmt.Fprintf(&b, "  log(c.map(view fun (x: %s): %s { return %s }))\n", T, rt, body)
		case "ct":
			fmt.Fprintf(&b, "  log(c.contains(%s))\n", contElem(et, f[1]))
		case "fi":
			fmt.Fprintf(&b, "  log(c.firstIndex(of: %s))\n", contElem(et, f[1]))
		case "ln":
			b.WriteString("  log(c.length)\n")
		case "tc":
			fmt.Fprintf(&b, "  log(c.toConstantSized<[%s; %s]>())\n", T, f[1])
		case "tv":
			b.WriteString("  log(c.toVariableSized())\n")
		// dictionaries
		case "di":
			fmt.Fprintf(&b, "  log(c.insert(key: %s, %s))\n", contElem(kt, f[1]), contElem(vt, f[2]))
		case "dr":
			fmt.Fprintf(&b, "  log(c.remove(key: %s))\n", contElem(kt, f[1]))
		case "dg":
			fmt.Fprintf(&b, "  log(c[%s])\n", contElem(kt, f[1]))
		case "ds":
			fmt.Fprintf(&b, "  c[%s] = %s; log(c.length)\n", contElem(kt, f[1]), contElem(vt, f[2]))
		case "dn":
			fmt.Fprintf(&b, "  c[%s] = nil; log(c.length)\n", contElem(kt, f[1]))
		case "dk":
			b.WriteString("  log(c.keys)\n")
		case "dv":
			b.WriteString("  log(c.values)\n")
		case "dc":
			fmt.Fprintf(&b, "  log(c.containsKey(%s))\n", contElem(kt, f[1]))
		case "df":
			fmt.Fprintf(&b, "  let f%d: [%s] = []\n  c.forEachKey(fun (k: %s): Bool { f%d.append(k); return true })\n  log(f%d)\n",
				k, contTypeSyntax(kt), contTypeSyntax(kt), k, k)
		case "de":
			fmt.Fprintf(&b, "  var n%d = 0\n  c.forEachKey(fun (k: %s): Bool { n%d = n%d + 1; return n%d < %s })\n  log(n%d)\n",
				k, contTypeSyntax(kt), k, k, k, f[1], k)
		case "it":
			fmt.Fprintf(&b, "  let i%d: [%s] = []\n  for k in c { i%d.append(k) }\n  log(i%d)\n", k, contTypeSyntax(kt), k, k)
		case "im":
			if len(f) < 5 {
				b.WriteString("  BAD OP\n")
				break
			}
			contIterSource(&b, k, sh[0] == "dict", et, kt, vt, f)
		default:
			b.WriteString("  BAD OP\n")
		}
	}
	if mode == "M" {
		b.WriteString("  log(c)\n  a0.storage.save(c, to: /storage/c)\n")
	} else { // a storage reference does not print its referent: dump a copy of what is stored
		fmt.Fprintf(&b, "  log(a0.storage.copy<%s>(from: /storage/c)!)\n", cty)
	}
	b.WriteString(" }\n}\n")
	return b.String()
}

// compress runs (>= 4) of one lower-case letter: aaaaaa -> a*6
func contCompress(s string) string {
	var b strings.Builder
	for i := 0; i < len(s); {
		c := s[i]
		j := i
		for j < len(s) && s[j] == c {
			j++
		}
		if c >= 'a' && c <= 'z' && j-i >= 4 {
			b.WriteByte(c)
			b.WriteByte('*')
			b.WriteString(strconv.Itoa(j - i))
		} else {
			b.WriteString(s[i:j])
		}
		i = j
	}
	return b.String()
}

// split "a, b, c" at top-level ", "
func contSplitTop(s string) []string {
	var parts []string
	depth, start := 0, 0
	inStr := false
	for i := 0; i < len(s); i++ {
		switch c := s[i]; {
		case c == '"':
			inStr = !inStr
		case inStr:
		case c == '[' || c == '(' || c == '{':
			depth++
		case c == ']' || c == ')' || c == '}':
			depth--
		case c == ',' && depth == 0 && i+1 < len(s) && s[i+1] == ' ':
			parts = append(parts, s[start:i])
			start = i + 2
		}
	}
	if start <= len(s) && len(s) > 0 {
		parts = append(parts, s[start:])
	}
	return parts
}

// the fields of a composite print in the order of its atree map: sort them
func contSortFields(s string) string {
	var b strings.Builder
	for {
		i := strings.Index(s, "K.P(")
		if i < 0 {
			break
		}
		j := strings.Index(s[i:], ")")
		if j < 0 {
			break
		}
		parts := strings.Split(s[i+4:i+j], ", ")
		sort.Strings(parts)
		b.WriteString(s[:i+4])
		b.WriteString(strings.Join(parts, ", "))
		b.WriteString(")")
		s = s[i+j+1:]
	}
	b.WriteString(s)
	return b.String()
}

func contSortInside(s string) string {
	if len(s) < 2 {
		return s
	}
	open, close := s[:1], s[len(s)-1:]
	parts := contSplitTop(s[1 : len(s)-1])
	sort.Strings(parts)
	return open + strings.Join(parts, ", ") + close
}

func contCanonLog(shape string, opKind string, s string) string {
	s = strings.ReplaceAll(s, "A.0000000000000001.", "")
	s = contSortFields(contCompress(s))
	switch opKind {
	case "dk", "dv", "df", "it":
		s = contSortInside(s)
	case "dump":
		if strings.HasPrefix(shape, "dict") {
			s = contSortInside(s)
		}
	}
	return strings.ReplaceAll(strings.ReplaceAll(s, ";", "?"), "|", "?")
}

func contErrKind(out *cdc.Outcome) string {
	switch out.Kind {
	case "interpreter.ArrayIndexOutOfBoundsError", "interpreter.ArraySliceIndicesError", "interpreter.InvalidSliceIndexError":
		return "index"
	case "interpreter.ContainerMutatedDuringIterationError":
		return "mutation"
	}
	return out.Class + ":" + out.Kind
}

func contInit(shape string) string {
	sh := strings.Split(shape, ":")
	switch sh[0] {
	case "arr":
		return "[] as [" + contTypeSyntax(sh[1]) + "]"
	case "fix":
		zero := map[string]string{"I": "0", "S": "\"\"", "A": "[]", "P": "K.P(a: 0, b: \"\")"}[sh[1]]
		return fmt.Sprintf("[%s, %s, %s, %s] as [%s; %d]", zero, zero, zero, zero, contTypeSyntax(sh[1]), contFixN)
	default:
		return "{} as {" + contTypeSyntax(sh[1]) + ": " + contTypeSyntax(sh[2]) + "}"
	}
}

func execCont(op []string) string {
	useVM := op[1] == "vm"
	shape := op[2]
	env := cdc.NewEnv()
	env.Limit = 100000000
	env.Signers = []common.Address{common.MustBytesToAddress([]byte{1})}
	dbg := os.Getenv("VERIF_DEBUG") != ""
	dep := env.Tx(fmt.Sprintf(`transaction { prepare(signer: auth(Contracts) &Account) { signer.contracts.add(name: "K", code: "%x".decodeHex()) } }`, contContract), nil, useVM)
	if dep.Class != "none" {
		return "deploy-failed:" + dep.Class + ":" + dep.Kind
	}
	ini := env.Tx("import K from 0x1\ntransaction { prepare(a0: auth(Storage) &Account) { a0.storage.save("+contInit(shape)+", to: /storage/c) } }", nil, useVM)
	if ini.Class != "none" {
		if dbg {
			fmt.Fprintln(os.Stderr, "INIT FAILED:", cdc.ErrString(ini.Err))
		}
		return "init-failed:" + ini.Class + ":" + ini.Kind
	}
	var obs []string
	for _, tx := range strings.Split(op[3], "|") {
		src := contTxSource(shape, tx)
		out := env.Tx(src, nil, useVM)
		ops := strings.Split(tx[2:], ";")
		logs := make([]string, len(out.Logs))
		for i, l := range out.Logs {
			kind := "dump"
			if i < len(ops) {
				kind = strings.SplitN(ops[i], ",", 2)[0]
			}
			logs[i] = contCanonLog(shape, kind, l)
		}
		head := "ok"
		if out.Kind == "cdc.LimitExceeded" {
			return "computation-limit"
		}
		if out.Err != nil && strings.Contains(out.Err.Error(), "instruction count exceeds the maximum") {
			return "program-too-large" // VM compiler limit on the generated transaction: outside the model
		}
		if out.Class != "none" {
			head = "err:" + contErrKind(out)
			if dbg {
				fmt.Fprintln(os.Stderr, "TX ERROR:", cdc.ErrString(out.Err), "\n", src)
			}
		}
		obs = append(obs, head+"["+strings.Join(logs, ";")+"]")
	}
	return strings.Join(obs, "|")
}

// ---------------------------------------------------------------------------------------------
// generator

type contGen struct {
	r       *hx.Rng
	shape   []string
	n       int             // exact length of the array (the generator knows every error condition)
	keys    map[string]bool // exact key set of the dictionary
	pool    []string        // key tokens in use / candidates
	aborted bool            // the operation just generated fails: the transaction ends there
}

func contRandElem(r *hx.Rng, t string) string {
	switch t {
	case "I":
		if r.Chance(3) { // beyond the inline limit of an array element (~2^4000) / a dictionary key (~2^1800)
			return r.Pick([]string{"p9000x7", "p4400x1", "p2000x3"})
		}
		return r.Pick([]string{"0", "1", "2", "3", "5", "8", "11", "12", "42", "-7", "1000000", "340282366920938463463374607431768211456"})
	case "S":
		c := string(rune('a' + r.Intn(4)))
		n := []int{0, 1, 2, 3, 4, 5, 7, 20, 40, 100, 300, 600, 1100}[r.Intn(13)]
		if r.Chance(60) {
			n = r.Intn(6)
		}
		return c + strconv.Itoa(n)
	case "A":
		k := []int{0, 0, 1, 2, 3, 5, 8, 40}[r.Intn(8)]
		if r.Chance(2) {
			k = 150
		}
		if k == 0 {
			return "e"
		}
		xs := make([]string, k)
		for i := range xs {
			xs[i] = strconv.Itoa(r.Intn(20) - 3)
		}
		return strings.Join(xs, ".")
	case "P":
		return contRandElem(r, "I") + "_" + contRandElem(r, "S")
	}
	return "BAD"
}

func contRandList(r *hx.Rng, t string, max int) (string, int) {
	k := r.Intn(max + 1)
	if k == 0 {
		return "-", 0
	}
	xs := make([]string, k)
	for i := range xs {
		xs[i] = contRandElem(r, t)
	}
	return strings.Join(xs, "+"), k
}

// an index around the interesting points of [0, n]
func (g *contGen) index(validUpTo int, errChance int) int {
	r := g.r
	if r.Chance(errChance) {
		g.aborted = true
		return []int{-1, validUpTo + 1, validUpTo + 2, -5, validUpTo + 100}[r.Intn(5)]
	}
	if validUpTo < 0 {
		return 0
	}
	switch r.Intn(4) {
	case 0:
		return 0
	case 1:
		return validUpTo
	default:
		return r.Intn(validUpTo + 1)
	}
}

func (g *contGen) arrOp(mode string, fix bool, phase int) string {
	r := g.r
	et := g.shape[1]
	eq := et != "P" // structs are not equatable
	simple := et == "I" || et == "S"
	for {
		x := r.Intn(100)
		if !fix && phase == 0 && x < 50 { // growth phase
			x = r.Intn(12)
		}
		if !fix && phase == 2 && x < 60 { // shrink phase
			x = 20 + r.Intn(12)
		}
		switch {
		case fix && x < 30:
			i := g.index(contFixN-1, 2)
			return fmt.Sprintf("st,%d,%s", i, contRandElem(r, et))
		case fix && x < 50:
			return fmt.Sprintf("gt,%d", g.index(contFixN-1, 2))
		case fix && x < 56:
			return "tv"
		case fix && x < 80:
			continue
		case x < 8:
			g.n++
			return "ap," + contRandElem(r, et)
		case x < 14:
			max := 8
			if r.Chance(40) {
				max = 70
			}
			if et == "A" || et == "P" {
				max = max/2 + 1
			}
			l, k := contRandList(r, et, max)
			g.n += k
			return "aa," + l
		case x < 20:
			i := g.index(g.n, 1)
			if i >= 0 && i <= g.n {
				g.n++
			}
			return fmt.Sprintf("in,%d,%s", i, contRandElem(r, et))
		case x < 26:
			i := g.index(g.n-1, 1)
			if g.n == 0 {
				if !r.Chance(10) {
					continue
				}
				g.aborted = true
			}
			if i >= 0 && i < g.n {
				g.n--
			}
			return fmt.Sprintf("rm,%d", i)
		case x < 30:
			if g.n == 0 {
				if !r.Chance(10) {
					continue
				}
				g.aborted = true
			}
			if g.n > 0 {
				g.n--
			}
			return r.Pick([]string{"rf", "rl"})
		case x < 40:
			if g.n == 0 {
				if !r.Chance(10) {
					continue
				}
				g.aborted = true
			}
			return fmt.Sprintf("gt,%d", g.index(g.n-1, 1))
		case x < 48:
			if g.n == 0 {
				if !r.Chance(10) {
					continue
				}
				g.aborted = true
			}
			return fmt.Sprintf("st,%d,%s", g.index(g.n-1, 1), contRandElem(r, et))
		case x < 56:
			if mode == "R" && !simple {
				continue
			}
			a := g.index(g.n, 1)
			b := a
			if a >= 0 && a <= g.n {
				b = a + r.Intn(g.n-a+1)
			}
			switch r.Intn(40) {
			case 0:
				b = g.n + 1
				g.aborted = true
			case 1:
				b = a - 1
				g.aborted = true
			case 2, 3, 4:
				b = g.n
			case 5:
				if r.Chance(40) { // the empty range beyond the end: from == upTo > length
					a = g.n + 1 + r.Intn(3)
					b = a
					g.aborted = true
				}
			}
			kind := "sl"
			if mode == "M" && r.Chance(25) {
				kind = "SL"
				if a >= 0 && a <= b && b <= g.n {
					g.n = b - a
				}
			}
			return fmt.Sprintf("%s,%d,%d", kind, a, b)
		case x < 60:
			if mode == "R" && !simple {
				continue
			}
			if mode == "M" && r.Chance(40) {
				return "RV"
			}
			return "rv"
		case x < 65:
			if mode == "R" && !simple {
				continue
			}
			l, k := contRandList(r, et, 6)
			if mode == "M" && r.Chance(40) {
				g.n += k
				return "CC," + l
			}
			return "cc," + l
		case x < 71:
			if mode == "R" && !simple {
				continue
			}
			return "fl," + strconv.Itoa(r.Intn(2))
		case x < 77:
			if mode == "R" && !simple {
				continue
			}
			return "mp," + strconv.Itoa(r.Intn(2))
		case x < 84:
			if !eq {
				continue
			}
			return r.Pick([]string{"ct,", "fi,"}) + contRandElem(r, et)
		case x < 90:
			return "ln"
		case x < 94:
			if fix || (mode == "R" && !simple) {
				continue
			}
			n := g.n
			if r.Chance(50) {
				n = []int{0, 1, g.n + 1, 3}[r.Intn(4)]
			}
			return fmt.Sprintf("tc,%d", n)
		case x < 97:
			return g.iterOp(mode, fix)
		default:
			continue
		}
	}
}

// one in-place mutation of the array; with track the generator's length / abort bookkeeping is updated
func (g *contGen) arrMut(fix bool, track bool) string {
	r := g.r
	et := g.shape[1]
	n0, ab0 := g.n, g.aborted
	defer func() {
		if !track {
			g.n, g.aborted = n0, ab0
		}
	}()
	if fix {
		return fmt.Sprintf("st,%d,%s", g.index(contFixN-1, 3), contRandElem(r, et))
	}
	for {
		switch r.Intn(6) {
		case 0:
			g.n++
			return "ap," + contRandElem(r, et)
		case 1:
			i := g.index(g.n, 3)
			if i >= 0 && i <= g.n {
				g.n++
			}
			return fmt.Sprintf("in,%d,%s", i, contRandElem(r, et))
		case 2:
			if g.n == 0 {
				g.aborted = true
			}
			i := g.index(g.n-1, 3)
			if i >= 0 && i < g.n {
				g.n--
			}
			return fmt.Sprintf("rm,%d", i)
		case 3:
			if g.n == 0 {
				g.aborted = true
			} else {
				g.n--
			}
			return r.Pick([]string{"rf", "rl"})
		default:
			if g.n == 0 {
				continue
			}
			return fmt.Sprintf("st,%d,%s", g.index(g.n-1, 3), contRandElem(r, et))
		}
	}
}

func (g *contGen) dictMut(track bool) string {
	r := g.r
	vt := g.shape[2]
	k := g.key()
	switch r.Intn(4) {
	case 0:
		if track {
			g.keys[k] = true
		}
		return fmt.Sprintf("di,%s,%s", k, contRandElem(r, vt))
	case 1:
		if track {
			g.keys[k] = true
		}
		return fmt.Sprintf("ds,%s,%s", k, contRandElem(r, vt))
	case 2:
		if track {
			delete(g.keys, k)
		}
		return "dr," + k
	default:
		if track {
			delete(g.keys, k)
		}
		return "dn," + k
	}
}

// an iteration over the container with a mutation of it inside the body (the transaction aborts when the
// step is reached), after the loop, or after a break
func (g *contGen) iterOp(mode string, fix bool) string {
	r := g.r
	isDict := g.shape[0] == "dict"
	size := g.n
	if isDict {
		size = len(g.keys)
	}
	simple := isDict || g.shape[1] == "I" || g.shape[1] == "S"
	outer := "f"
	if r.Bool() {
		if isDict {
			outer = "k"
		} else if mode == "M" || simple {
			outer = "m"
		}
	}
	nest := r.Intn(4)
	if nest == 2 && !isDict && mode == "R" && !simple {
		nest = 1
	}
	x := r.Intn(100)
	inside := x < 25
	if nest == 3 && !inside {
		nest = 1
	}
	if outer != "f" && x >= 65 { // no break in a callback
		x = 40
	}
	mut := func(track bool) string {
		if isDict {
			return g.dictMut(track)
		}
		return g.arrMut(fix, track)
	}
	switch {
	case x < 8 && size > 0: // reached: mutation error (rare here, it ends the transaction; the directed block has them all)
		j := r.Intn(size)
		if r.Chance(30) {
			j = size - 1
		}
		m := mut(false)
		g.aborted = true
		return fmt.Sprintf("im,%s,%d,%d,%s", outer, nest, j, m)
	case x < 25: // not reached
		return fmt.Sprintf("im,%s,%d,%d,%s", outer, nest, size+r.Intn(3), mut(false))
	case x < 65:
		return fmt.Sprintf("im,%s,%d,a,%s", outer, nest, mut(true))
	default:
		return fmt.Sprintf("im,%s,%d,b%d,%s", outer, nest, r.Intn(size+2), mut(true))
	}
}

func (g *contGen) key() string {
	r := g.r
	if len(g.pool) > 0 && r.Chance(65) {
		return g.pool[r.Intn(len(g.pool))]
	}
	k := contRandElem(r, g.shape[1])
	if g.shape[1] == "I" && r.Chance(70) {
		k = strconv.Itoa(r.Intn(400))
	}
	if g.shape[1] == "S" && r.Chance(70) {
		k = string(rune('a'+r.Intn(26))) + strconv.Itoa(1+r.Intn(30))
	}
	g.pool = append(g.pool, k)
	return k
}

func (g *contGen) dictOp(mode string, phase int) string {
	r := g.r
	vt := g.shape[2]
	x := r.Intn(100)
	if phase == 0 && x < 60 {
		x = r.Intn(30)
	}
	if phase == 2 && x < 60 {
		x = 30 + r.Intn(20)
	}
	switch {
	case x < 18:
		k := g.key()
		g.keys[k] = true
		return fmt.Sprintf("di,%s,%s", k, contRandElem(r, vt))
	case x < 30:
		k := g.key()
		g.keys[k] = true
		return fmt.Sprintf("ds,%s,%s", k, contRandElem(r, vt))
	case x < 42:
		k := g.key()
		delete(g.keys, k)
		return "dr," + k
	case x < 50:
		k := g.key()
		delete(g.keys, k)
		return "dn," + k
	case x < 64:
		return "dg," + g.key()
	case x < 72:
		return "dc," + g.key()
	case x < 77:
		return "dk"
	case x < 82:
		return "dv"
	case x < 86:
		return "df"
	case x < 90:
		return fmt.Sprintf("de,%d", 1+r.Intn(len(g.keys)+2))
	case x < 94:
		return "it"
	case x < 97:
		return g.iterOp(mode, false)
	default:
		return "ln"
	}
}

// directed: every kind of iteration x nesting x mutation with the mutation inside a reached step (each in a
// transaction of its own: all abort with the mutation error and leave the container as it was), then the
// same with the step not reached, and mutations after the loop / after a break
func genContIterDirected(emit func(shape, h string)) {
	type sh struct {
		shape, setup string
		muts         []string
		after        []string // mutations applied after the loop, in this order (all valid)
	}
	arrMuts := func(e1, e2 string) []string {
		return []string{"ap," + e1, "in,99," + e2, "in,0," + e1, "rm,0", "rm,99", "rf", "rl", "st,0," + e2, "st,99," + e1}
	}
	arrAfter := func(e1, e2 string) []string {
		return []string{"ap," + e1, "rl", "in,1," + e2, "rm,0", "st,0," + e1, "rf"}
	}
	shapes := []sh{
		{"arr:I", "M:aa,1+2+3", arrMuts("4", "5"), arrAfter("4", "5")},
		{"arr:S", "M:aa,a1+b600+c3", arrMuts("d2", "e700"), arrAfter("d2", "e700")},
		{"arr:A", "M:aa,1.2+e+3", arrMuts("4.5", "e"), arrAfter("4.5", "e")},
		{"arr:P", "M:aa,1_a1+2_b2+3_c3", arrMuts("4_d1", "5_e0"), arrAfter("4_d1", "5_e0")},
		{"fix:I", "M:st,0,1", []string{"st,0,5", "st,3,6", "st,4,7", "st,-1,7"}, []string{"st,1,8", "st,3,9"}},
		{"dict:I:I", "M:di,1,10;di,2,20;di,3,30", []string{"di,4,40", "di,1,11", "dr,9", "dr,2", "ds,5,50", "ds,3,31", "dn,1", "dn,9"},
			[]string{"di,4,40", "dr,2", "ds,3,31", "dn,1", "dn,9"}},
		{"dict:S:P", "M:di,a1,1_a1;di,b2,2_b2;di,c3,3_c3", []string{"di,d4,4_d1", "dr,b2", "ds,a1,9_z1", "dn,c3", "dn,q1"},
			[]string{"di,d4,4_d1", "dr,b2", "ds,a1,9_z1", "dn,q1"}},
	}
	for _, s := range shapes {
		isDict := strings.HasPrefix(s.shape, "dict")
		et := strings.Split(s.shape, ":")[1]
		simple := isDict || et == "I" || et == "S"
		outers := []string{"f", "m"}
		if isDict {
			outers = []string{"f", "k"}
		}
		for _, mode := range []string{"M", "R"} {
			txs := []string{s.setup}
			var notReached, after []string
			ai := 0
			for _, o := range outers {
				if o == "m" && mode == "R" && !simple {
					continue
				}
				for nest := 0; nest < 4; nest++ {
					if nest == 2 && !isDict && mode == "R" && !simple {
						continue
					}
					for mi, m := range s.muts {
						txs = append(txs, fmt.Sprintf("%s:im,%s,%d,%d,%s", mode, o, nest, (mi+nest)%3, m))
						notReached = append(notReached, fmt.Sprintf("im,%s,%d,%d,%s", o, nest, 4+mi%3, m))
					}
					if nest < 3 {
						after = append(after, fmt.Sprintf("im,%s,%d,a,%s", o, nest, s.after[ai%len(s.after)]))
						ai++
						if o == "f" {
							after = append(after, fmt.Sprintf("im,%s,%d,b%d,%s", o, nest, ai%3, s.after[ai%len(s.after)]))
							ai++
						}
					}
				}
			}
			txs = append(txs, mode+":"+strings.Join(notReached, ";")+";ln")
			txs = append(txs, mode+":"+strings.Join(after, ";")+";ln")
			emit(s.shape, strings.Join(txs, "|"))
		}
	}
}

func genCont(c *hx.Ctx) {
	r := c.Rng
	shapes := []string{"arr:I", "arr:S", "arr:A", "arr:P", "fix:I", "fix:S", "dict:I:I", "dict:S:I", "dict:I:S", "dict:I:A", "dict:S:P", "dict:I:P"}
	genContIterDirected(func(shape, h string) {
		c.Emit("cont", "interp", shape, h)
		c.Emit("cont", "vm", shape, h)
	})
	for i := 0; i < c.N; i++ {
		shape := shapes[i%len(shapes)]
		if i >= len(shapes) {
			shape = shapes[r.Intn(len(shapes))]
			if r.Chance(50) { // weight toward variable-sized arrays
				shape = shapes[r.Intn(4)]
			}
		}
		g := &contGen{r: r, shape: strings.Split(shape, ":"), keys: map[string]bool{}}
		if g.shape[0] == "fix" {
			g.n = contFixN
		}
		total := 40 + r.Intn(260)
		if c.Thorough() {
			total = 200 + r.Intn(1300)
		}
		ntx := 2 + r.Intn(7)
		if total/ntx > 300 { // keep a generated transaction below the VM compiler's function-size limit
			ntx = total/300 + 1
		}
		var txs []string
		for j := 0; j < ntx; j++ {
			mode := r.Pick([]string{"M", "R"})
			nops := total / ntx
			if nops < 1 {
				nops = 1
			}
			phase := []int{0, 0, 1, 2, 1}[(j+r.Intn(2))%5]
			ops := make([]string, 0, nops)
			snapN, snapKeys := g.n, map[string]bool{}
			for k := range g.keys {
				snapKeys[k] = true
			}
			g.aborted = false
			for k := 0; k < nops && !g.aborted; k++ {
				switch g.shape[0] {
				case "arr":
					ops = append(ops, g.arrOp(mode, false, phase))
				case "fix":
					ops = append(ops, g.arrOp(mode, true, 1))
				default:
					ops = append(ops, g.dictOp(mode, phase))
				}
			}
			if g.aborted {
				g.n, g.keys = snapN, snapKeys
			} else if j == ntx-1 && mode == "M" && g.shape[0] == "arr" {
				// the generator does not track values, so an assigning filter can only be the last operation
				ops = append(ops, "FL,"+strconv.Itoa(r.Intn(2)))
			}
			txs = append(txs, mode+":"+strings.Join(ops, ";"))
		}
		h := strings.Join(txs, "|")
		c.Emit("cont", "interp", shape, h)
		c.Emit("cont", "vm", shape, h)
	}
}
