package main

// Stream `str` (property C19): string operations through the real *interpreter.StringValue methods
// (direct) and through Cadence scripts (both engines).  A string is written as its grapheme clusters
// (hex, separated by '.'; "-" = empty string) of the NFC-normalised text, as computed here by
// golang.org/x/text/unicode/norm and github.com/rivo/uniseg — the model's parameters.
//
//   str <mode> <op> args…      mode: direct | interp | vm
//   len s | get s i | slice s from to | iter s | utf8 s | index s n | contains s n | count s n
//   split s sep | replace s orig repl | concat a b r | join sep r parts… | norm rawhex r
//   enchex hexbytes | dechex s | lower s        (r = the segmented NFC result supplied by the harness)
//   mconcat how a b r    first evaluate the character length of both operands on the very same values
//                        (how = len | get | slice: .length, a[0], a.slice(from: 0, upTo: 0)), then concat;
//                        observes bytes : length : iterated characters : equal to the literal r : length of the full slice

import (
	"fmt"
	"os"
	"strconv"
	"strings"
	"unicode/utf8"

	"github.com/rivo/uniseg"
	"golang.org/x/text/unicode/norm"

	"github.com/onflow/cadence"
	"github.com/onflow/cadence/common"
	"github.com/onflow/cadence/interpreter"

	"verif/harness/internal/cdc"
	"verif/harness/internal/hx"
)

func init() {
	hx.Register(&hx.Stream{Name: "str", Gen: genStr, Exec: execStr, Parallel: true})
}

// segmented form of the NFC normalisation of text
func strSeg(text string) string {
	n := norm.NFC.String(text)
	if n == "" {
		return "-"
	}
	var parts []string
	g := uniseg.NewGraphemes(n)
	for g.Next() {
		parts = append(parts, hx.Hex([]byte(g.Str())))
	}
	return strings.Join(parts, ".")
}

func strUnseg(s string) string {
	if s == "-" {
		return ""
	}
	var sb strings.Builder
	for _, p := range strings.Split(s, ".") {
		sb.Write(hx.UnHex(p))
	}
	return sb.String()
}

func strClusters(s string) []string {
	if s == "-" {
		return nil
	}
	var out []string
	for _, p := range strings.Split(s, ".") {
		out = append(out, string(hx.UnHex(p)))
	}
	return out
}

func strInter() *interpreter.Interpreter {
	inter, err := interpreter.NewInterpreter(nil, common.StringLocation("test"), &interpreter.Config{
		Storage: interpreter.NewInMemoryStorage(nil, nil),
	})
	if err != nil {
		panic(err)
	}
	return inter
}

// classify a Go panic of the interpreter into the model's error labels
func strErr(r any) string {
	switch e := r.(type) {
	case *interpreter.StringSliceIndicesError:
		return "err:slice-indices"
	case *interpreter.InvalidSliceIndexError:
		return "err:invalid-slice"
	case *interpreter.StringIndexOutOfBoundsError:
		return "err:index"
	case *interpreter.InvalidHexByteError:
		return fmt.Sprintf("err:hexbyte:%02x", e.Byte)
	case *interpreter.InvalidHexLengthError:
		return "err:hexlength"
	}
	if os.Getenv("VERIF_DEBUG") != "" {
		fmt.Fprintf(os.Stderr, "str: unexpected panic %T %v\n", r, r)
	}
	return "panic"
}

func strKindErr(kind string) string {
	switch kind {
	case "interpreter.StringSliceIndicesError":
		return "err:slice-indices"
	case "interpreter.InvalidSliceIndexError":
		return "err:invalid-slice"
	case "interpreter.StringIndexOutOfBoundsError":
		return "err:index"
	case "interpreter.InvalidHexByteError":
		return "err:hexbyte"
	case "interpreter.InvalidHexLengthError":
		return "err:hexlength"
	}
	return "err:" + kind
}

func strArrayOfStrings(inter *interpreter.Interpreter, arr *interpreter.ArrayValue) string {
	var parts []string
	arr.Iterate(inter, func(v interpreter.Value) bool {
		parts = append(parts, hx.Hex([]byte(v.(*interpreter.StringValue).Str)))
		return true
	}, false)
	return "ok:" + strings.Join(parts, ",")
}

func execStrDirect(op []string) (res string) {
	defer func() {
		if r := recover(); r != nil {
			res = strErr(r)
		}
	}()
	inter := strInter()
	sv := func(s string) *interpreter.StringValue { return interpreter.NewUnmeteredStringValue(strUnseg(s)) }
	atoi := func(s string) int64 { n, _ := strconv.ParseInt(s, 10, 64); return n }
	switch op[2] {
	case "len":
		return "ok:" + strconv.Itoa(sv(op[3]).Length(inter))
	case "get":
		c := sv(op[3]).GetKey(inter, interpreter.NewUnmeteredIntValueFromInt64(atoi(op[4])))
		return "ok:" + hx.Hex([]byte(c.(interpreter.CharacterValue).Str))
	case "slice":
		r := sv(op[3]).Slice(inter, interpreter.NewUnmeteredIntValueFromInt64(atoi(op[4])), interpreter.NewUnmeteredIntValueFromInt64(atoi(op[5])))
		return "ok:" + hx.Hex([]byte(r.(*interpreter.StringValue).Str))
	case "iter":
		it := sv(op[3]).Iterator(inter)
		var parts []string
		for {
			v := it.Next(inter)
			if v == nil {
				break
			}
			parts = append(parts, hx.Hex([]byte(v.(interpreter.CharacterValue).Str)))
		}
		return "ok:" + strings.Join(parts, ".")
	case "utf8":
		return "ok:" + hx.Hex([]byte(sv(op[3]).Str))
	case "index":
		return "ok:" + sv(op[3]).IndexOf(inter, sv(op[4])).String()
	case "contains":
		return "ok:" + strBit(bool(sv(op[3]).Contains(inter, sv(op[4]))))
	case "count":
		return "ok:" + sv(op[3]).Count(inter, sv(op[4])).String()
	case "split":
		return strArrayOfStrings(inter, sv(op[3]).Split(inter, sv(op[4])))
	case "replace":
		return "ok:" + hx.Hex([]byte(sv(op[3]).ReplaceAll(inter, sv(op[4]), sv(op[5])).Str))
	case "concat":
		r := sv(op[3]).Concat(inter, sv(op[4])).(*interpreter.StringValue)
		return "ok:" + hx.Hex([]byte(r.Str)) + ":" + strconv.Itoa(r.Length(inter))
	case "mconcat":
		a, b := sv(op[4]), sv(op[5])
		for _, x := range []*interpreter.StringValue{a, b} {
			switch {
			case op[3] == "get" && x.Str != "":
				x.GetKey(inter, interpreter.NewUnmeteredIntValueFromInt64(0))
			case op[3] == "slice":
				x.Slice(inter, interpreter.NewUnmeteredIntValueFromInt64(0), interpreter.NewUnmeteredIntValueFromInt64(0))
			default:
				x.Length(inter)
			}
		}
		r := a.Concat(inter, b).(*interpreter.StringValue)
		n := r.Length(inter)
		iterated := 0
		for it := r.Iterator(inter); it.Next(inter) != nil; {
			iterated++
		}
		eq := r.Equal(inter, sv(op[6]))
		full := r.Slice(inter, interpreter.NewUnmeteredIntValueFromInt64(0), interpreter.NewUnmeteredIntValueFromInt64(int64(n))).(*interpreter.StringValue)
		return "ok:" + hx.Hex([]byte(r.Str)) + ":" + strconv.Itoa(n) + ":" + strconv.Itoa(iterated) + ":" + strBit(eq) + ":" + strconv.Itoa(full.Length(inter))
	case "join":
		var vs []interpreter.Value
		for _, p := range op[5:] {
			vs = append(vs, sv(p))
		}
		arr := interpreter.NewArrayValue(inter, interpreter.VarSizedArrayOfStringType, common.ZeroAddress, vs...)
		r := interpreter.StringFunctionJoin(inter, arr, sv(op[3])).(*interpreter.StringValue)
		return "ok:" + hx.Hex([]byte(r.Str)) + ":" + strconv.Itoa(r.Length(inter))
	case "norm":
		r := interpreter.NewUnmeteredStringValue(string(hx.UnHex(op[3])))
		return "ok:" + hx.Hex([]byte(r.Str)) + ":" + strconv.Itoa(r.Length(inter))
	case "enchex":
		arr := interpreter.ByteSliceToByteArrayValue(inter, hx.UnHex(op[3]))
		return "ok:" + hx.Hex([]byte(interpreter.StringFunctionEncodeHex(inter, arr).(*interpreter.StringValue).Str))
	case "dechex":
		arr := sv(op[3]).DecodeHex(inter)
		b, err := interpreter.ByteArrayValueToByteSlice(inter, arr)
		if err != nil {
			return "panic"
		}
		return "ok:" + hx.Hex(b)
	case "lower":
		return "ok:" + hx.Hex([]byte(sv(op[3]).ToLower(inter).Str))
	}
	return "bad-op"
}

func strLit(text string) string {
	var sb strings.Builder
	sb.WriteString("\"")
	for _, r := range text {
		fmt.Fprintf(&sb, "\\u{%x}", r)
	}
	sb.WriteString("\"")
	return sb.String()
}

func strCanon(v cadence.Value) string {
	switch x := v.(type) {
	case cadence.Int:
		return x.String()
	case cadence.Bool:
		return strBit(bool(x))
	case cadence.String:
		return hx.Hex([]byte(string(x)))
	case cadence.Character:
		return hx.Hex([]byte(string(x)))
	case cadence.UInt8:
		return fmt.Sprintf("%02x", uint8(x))
	case cadence.Array:
		if len(x.Values) == 0 {
			return ""
		}
		_, bytes := x.Values[0].(cadence.UInt8)
		parts := make([]string, len(x.Values))
		for i, e := range x.Values {
			parts[i] = strCanon(e)
		}
		if bytes {
			return strings.Join(parts, "")
		}
		return strings.Join(parts, ",")
	}
	return "?" + v.String()
}

func execStrScript(op []string) string {
	lit := func(s string) string { return strLit(strUnseg(s)) }
	var ret, body string
	switch op[2] {
	case "len":
		ret, body = "Int", lit(op[3])+".length"
	case "get":
		ret, body = "Character", lit(op[3])+"["+op[4]+"]"
	case "slice":
		ret, body = "String", lit(op[3])+".slice(from: "+op[4]+", upTo: "+op[5]+")"
	case "iter":
		ret = "[Character]"
		body = "fun (): [Character] { let r: [Character] = []; for c in " + lit(op[3]) + " { r.append(c) }; return r }()"
	case "utf8":
		ret, body = "[UInt8]", lit(op[3])+".utf8"
	case "index":
		ret, body = "Int", lit(op[3])+".index(of: "+lit(op[4])+")"
	case "contains":
		ret, body = "Bool", lit(op[3])+".contains("+lit(op[4])+")"
	case "count":
		ret, body = "Int", lit(op[3])+".count("+lit(op[4])+")"
	case "split":
		ret, body = "[String]", lit(op[3])+".split(separator: "+lit(op[4])+")"
	case "replace":
		ret, body = "String", lit(op[3])+".replaceAll(of: "+lit(op[4])+", with: "+lit(op[5])+")"
	case "concat":
		ret, body = "[AnyStruct]", "fun (): [AnyStruct] { let r = "+lit(op[3])+".concat("+lit(op[4])+"); return [r, r.length] }()"
	case "mconcat":
		measure := func(v string) string {
			switch {
			case op[3] == "get" && map[string]string{"a": op[4], "b": op[5]}[v] != "-":
				return v + "[0]"
			case op[3] == "slice":
				return v + ".slice(from: 0, upTo: 0)"
			}
			return v + ".length"
		}
		ret = "[AnyStruct]"
		body = "fun (): [AnyStruct] { let a = " + lit(op[4]) + "; let b = " + lit(op[5]) + "; let ma = " + measure("a") + "; let mb = " + measure("b") +
			"; let r = a.concat(b); var n = 0; for c in r { n = n + 1 }; return [r, r.length, n, r == " + lit(op[6]) + ", r.slice(from: 0, upTo: r.length).length] }()"
	case "join":
		var ps []string
		for _, p := range op[5:] {
			ps = append(ps, lit(p))
		}
		ret = "[AnyStruct]"
		body = "fun (): [AnyStruct] { let parts: [String] = [" + strings.Join(ps, ", ") + "]; let r = String.join(parts, separator: " + lit(op[3]) + "); return [r, r.length] }()"
	case "norm":
		ret = "[AnyStruct]"
		body = "fun (): [AnyStruct] { let r = " + strLit(string(hx.UnHex(op[3]))) + "; return [r, r.length] }()"
	case "enchex":
		var bs []string
		for _, b := range hx.UnHex(op[3]) {
			bs = append(bs, strconv.Itoa(int(b)))
		}
		ret, body = "String", "String.encodeHex(["+strings.Join(bs, ", ")+"] as [UInt8])"
	case "dechex":
		ret, body = "[UInt8]", lit(op[3])+".decodeHex()"
	case "lower":
		ret, body = "String", lit(op[3])+".toLower()"
	default:
		return "bad-op"
	}
	src := "access(all) fun main(): " + ret + " {\n  return " + body + "\n}\n"
	out := cdc.NewEnv().Script(src, nil, op[1] == "vm")
	switch out.Class {
	case "none":
		if arr, ok := out.Value.(cadence.Array); ok && ret == "[AnyStruct]" {
			parts := make([]string, len(arr.Values))
			for i, e := range arr.Values {
				parts[i] = strCanon(e)
			}
			return "ok:" + strings.Join(parts, ":")
		}
		if ret == "[Character]" {
			return "ok:" + strings.ReplaceAll(strCanon(out.Value), ",", ".")
		}
		if ret == "[UInt8]" && len(out.Value.(cadence.Array).Values) == 0 {
			return "ok:-"
		}
		return "ok:" + strCanon(out.Value)
	case "user":
		return strKindErr(out.Kind)
	}
	if os.Getenv("VERIF_DEBUG") != "" {
		fmt.Fprintln(os.Stderr, src, cdc.ErrString(out.Err))
	}
	return "err-" + out.Class
}

func execStr(op []string) string {
	if op[1] == "direct" {
		return execStrDirect(op)
	}
	return execStrScript(op)
}

// ---------------------------------------------------------------------------------------------
// Generator

var strPool = []string{
	"a", "b", "c", "A", "Z", "0", "9", " ", ",", "ab", "ba", "aa",
	"é", "é", "á", "ä̈", "q̣̇", "ṩ", "ñ", "̀", "́",
	"\U0001F600", "\U0001F468‍\U0001F469‍\U0001F467", "\U0001F468‍\U0001F469", "\U0001F469", "\U0001F468", "‍",
	"\U0001F44D\U0001F3FD", "\U0001F3FD", "❤️", "️",
	"\U0001F1E9\U0001F1EA", "\U0001F1EB\U0001F1F7", "\U0001F1E9", "\U0001F1EA", "\U0001F1EB",
	"가", "가", "각", "ᄀ", "ᅡ", "ᆨ", "한",
	"\r\n", "\r", "\n", "क्ष", "क", "्", "ष", "நி", "؀1", "中", "ß", "ǆ", "İ",
}

func strRandText(r *hx.Rng, maxPieces int) string {
	n := r.Intn(maxPieces + 1)
	var sb strings.Builder
	for i := 0; i < n; i++ {
		p := strPool[r.Intn(len(strPool))]
		sb.WriteString(p)
		if r.Chance(25) { // repeat: makes counts and overlapping matches interesting
			sb.WriteString(p)
		}
	}
	return sb.String()
}

// a fragment of text cut at rune boundaries that are (mostly) not cluster boundaries
func strMisaligned(r *hx.Rng, text string) string {
	runes := []rune(norm.NFC.String(text))
	if len(runes) == 0 {
		return ""
	}
	i := r.Intn(len(runes))
	j := i + 1 + r.Intn(len(runes)-i)
	return string(runes[i:j])
}

func strAligned(r *hx.Rng, seg string) string {
	cs := strClusters(seg)
	if len(cs) == 0 {
		return ""
	}
	i := r.Intn(len(cs))
	j := i + 1 + r.Intn(len(cs)-i)
	if j-i > 3 {
		j = i + 1 + r.Intn(3)
	}
	return strings.Join(cs[i:j], "")
}

func strNeedle(r *hx.Rng, seg string) string {
	text := strUnseg(seg)
	switch r.Intn(8) {
	case 0:
		return ""
	case 1, 2, 3:
		return strAligned(r, seg)
	case 4, 5:
		return strMisaligned(r, text)
	default:
		return strRandText(r, 2)
	}
}

// texts whose junction with anything before them does not re-compose under NFC
// (no letter: a following lone combining mark would compose with it)
var strSafe = []string{"中", "\U0001F600", "", "0", "12", "中中", "\U0001F1E9\U0001F1EA", "\U0001F600\U0001F468", "_"}

// Self-overlapping needles (C19: "substrings aligned to cluster boundaries"): the haystack is built so
// that the first byte-level occurrence of the needle is not on cluster boundaries while a later
// occurrence that overlaps it is.
//
// start-glued: hay = pre G u^m post, needle = u^k — G joins the first u into its cluster
// ([RI_x RI_a][RI_a RI_a], [CR LF][LF][LF], [prepend u][u][u]), so u^k first matches one unit too early.
var strGlued = []struct {
	glue  string
	units []string
}{
	{"\U0001F1E7", []string{"\U0001F1E6"}},
	{"\U0001F1E9", []string{"\U0001F1EA"}},
	{"\r", []string{"\n"}},
	{"\u0600", []string{"1", "a", "ab", "中", "\U0001F600", "q\u0307", "가"}},
	{"\u0605", []string{"7", "x"}},
	{"a\u0301", []string{"a"}}, // control: NFC composes, every occurrence is aligned
}

// end-glued: needle = (x M)^k x, hay = pre (x M)^m x post — an occurrence that is followed by M ends
// inside the cluster [x M]; only the last one is aligned, and it overlaps the ones before it.
var strPeriodic = [][2]string{
	{"x", "\u0301"}, {"q", "\u0323"}, {"q", "\u0307\u0323"}, {"\U0001F44D", "\U0001F3FD"}, {"中", "\u0301"},
	{"क", "\u094D"}, {"a", "\u200D"}, {"\U0001F469", "\u200D"}, {"\u2764", "\uFE0F"}, {"ᄀ", "ᅡ"}, {"நி", "\u0BCD"},
	{"e", "\u0301"}, // control: composes
}

func strOverlap(r *hx.Rng) (hay, needle string) {
	pre, post := "", ""
	if r.Chance(40) {
		pre = strRandText(r, 2)
	}
	if r.Chance(40) {
		post = strRandText(r, 2)
	}
	k := 1 + r.Intn(3)
	if r.Bool() {
		f := strGlued[r.Intn(len(strGlued))]
		u := f.units[r.Intn(len(f.units))]
		if k < 2 && len([]rune(u)) < 2 {
			k = 2
		}
		m := k + 1 + r.Intn(3)
		glue := f.glue
		if r.Chance(10) {
			glue = "" // control: aligned from the start
		}
		return pre + glue + strings.Repeat(u, m) + post, strings.Repeat(u, k)
	}
	f := strPeriodic[r.Intn(len(strPeriodic))]
	m := k + 1 + r.Intn(k+1)
	return pre + strings.Repeat(f[0]+f[1], m) + f[0] + post, strings.Repeat(f[0]+f[1], k) + f[0]
}

// operand pairs whose junction merges into one cluster or composes under NFC
var strJunctions = [][2]string{
	{"x", "\u0301"}, {"e", "\u0301"}, {"a", "\u0308\u0308"}, {"q\u0323", "\u0307"}, {"a\r", "\nb"}, {"\r", "\n"},
	{"\U0001F1E6", "\U0001F1E7"}, {"\U0001F1E9\U0001F1EA\U0001F1EB", "\U0001F1F7"},
	{"\U0001F469\u200D", "\U0001F4BB"}, {"\U0001F469", "\u200D\U0001F4BB"}, {"\U0001F468\u200D\U0001F469\u200D", "\U0001F467"},
	{"\U0001F476", "\U0001F3FB"}, {"\u2764", "\uFE0F"}, {"\u1100", "\u1161"}, {"가", "\u11A8"}, {"\u1100", "\u1100\u1161"},
	{"\u0600", "1"}, {"क", "\u094D"}, {"क\u094D", "ष"}, {"ந", "ி"}, {"\u0915", "\u093F"},
}

// replacement text for replaceAll: the empty replacement joins the kept pieces of the receiver directly, so
// it is only used when no two clusters of the receiver compose under NFC when put next to each other
// (e.g. LV syllable + trailing jamo after the jamo between them was removed); the other texts never
// compose with what precedes or follows them.  (The result of replaceAll is re-normalised by the
// interpreter; NFC is a parameter of the model, see props/C19.py.)
func strRepl(r *hx.Rng, seg string) string {
	repl := strSafe[r.Intn(len(strSafe))]
	if repl != "" {
		return repl
	}
	cs := strClusters(seg)
	for i := range cs {
		for j := i + 1; j < len(cs); j++ {
			if !norm.NFC.IsNormalString(cs[i] + cs[j]) {
				return "_"
			}
		}
	}
	return ""
}

func strIsASCII(s string) bool {
	for i := 0; i < len(s); i++ {
		if s[i] >= utf8.RuneSelf {
			return false
		}
	}
	return true
}

func genStr(c *hx.Ctx) {
	r := c.Rng
	emit := func(scriptable bool, fields ...string) {
		mode := "direct"
		if scriptable && r.Chance(12) {
			mode = []string{"interp", "vm"}[r.Intn(2)]
		}
		c.Emit(append([]string{"str", mode}, fields...)...)
	}
	itoa := strconv.Itoa
	// all byte values through encodeHex; all single / some double characters through decodeHex
	all := make([]byte, 256)
	for i := range all {
		all[i] = byte(i)
	}
	c.Emit("str", "direct", "enchex", hx.Hex(all))
	for b := 0; b < 128; b++ {
		c.Emit("str", "direct", "dechex", strSeg(string([]byte{byte(b)})))
		c.Emit("str", "direct", "dechex", strSeg(string([]byte{byte(b), '0'})))
		c.Emit("str", "direct", "dechex", strSeg(string([]byte{'a', byte(b)})))
	}
	for i := 0; i < c.N; i++ {
		text := strRandText(r, 7)
		s := strSeg(text)
		n := len(strClusters(s))
		ctrl := !strings.ContainsAny(strUnseg(s), "\r\n") // literals with CR / LF are written with escapes anyway
		_ = ctrl
		switch r.Intn(20) {
		case 16, 17:
			hay, nd := strOverlap(r)
			h, n := strSeg(hay), strSeg(nd)
			emit(true, "index", h, n)
			emit(true, "contains", h, n)
			emit(true, "count", h, n)
			emit(true, "split", h, n)
			emit(true, "replace", h, n, strSeg(strRepl(r, h)))
		case 18, 19:
			a, b := norm.NFC.String(strRandText(r, 2)), norm.NFC.String(strRandText(r, 2))
			if r.Chance(80) {
				j := strJunctions[r.Intn(len(strJunctions))]
				a, b = norm.NFC.String(a+j[0]), norm.NFC.String(j[1]+b)
			}
			emit(true, "mconcat", []string{"len", "len", "get", "slice"}[r.Intn(4)], strSeg(a), strSeg(b), strSeg(a+b))
		case 0:
			emit(true, "len", s)
			emit(true, "iter", s)
			emit(true, "utf8", s)
		case 1:
			emit(true, "get", s, itoa(r.Intn(n+3)-1))
		case 2, 3:
			emit(true, "slice", s, itoa(r.Intn(n+3)-1), itoa(r.Intn(n+3)-1))
		case 4, 5, 6:
			nd := strSeg(strNeedle(r, s))
			emit(true, "index", s, nd)
			emit(true, "contains", s, nd)
			emit(true, "count", s, nd)
		case 7, 8:
			emit(true, "split", s, strSeg(strNeedle(r, s)))
		case 9, 10:
			nd := strNeedle(r, s)
			emit(true, "replace", s, strSeg(nd), strSeg(strRepl(r, s)))
		case 11:
			b := strRandText(r, 3)
			emit(true, "concat", s, strSeg(b), strSeg(strUnseg(s)+norm.NFC.String(b)))
		case 12:
			k := r.Intn(4)
			parts := make([]string, k)
			raw := make([]string, k)
			for j := range parts {
				raw[j] = norm.NFC.String(strRandText(r, 2))
				parts[j] = strSeg(raw[j])
			}
			sep := norm.NFC.String(strRandText(r, 1))
			emit(true, append([]string{"join", strSeg(sep), strSeg(strings.Join(raw, sep))}, parts...)...)
		case 13:
			emit(true, "norm", hx.Hex([]byte(text)), s)
		case 14:
			switch r.Intn(3) {
			case 0:
				emit(true, "enchex", hx.Hex(r.Bytes(r.Intn(6))))
			case 1:
				emit(true, "dechex", strSeg(hx.Hex(r.Bytes(r.Intn(5)))+[]string{"", "", "a", "g", "0G", "é", "A"}[r.Intn(7)]))
			default:
				emit(true, "dechex", strSeg(strings.ToUpper(hx.Hex(r.Bytes(1+r.Intn(4))))))
			}
		default:
			if strIsASCII(strUnseg(s)) {
				emit(true, "lower", s)
			} else {
				emit(true, "lower", strSeg([]string{"ABC", "aBc9Z", "", "@[`{", "HELLO world"}[r.Intn(5)]))
			}
		}
	}
}

func strBit(b bool) string {
	if b {
		return "1"
	}
	return "0"
}
