package main

// Stream `peep` (property C34, peephole part): the real bbq compiler's peephole pass on real and
// synthetic instruction lists, for comparison with the Lean port Verif.Model.Lang.VM.Peephole.
//
// ops:
//   peep  src    <name>  <function index>  hex(Cadence source)  <unoptimised list>
//        The source is parsed, checked and compiled twice with the real compiler
//        (PeepholeOptimizationsEnabled false / true).  The unoptimised list of the function is part of
//        the op (it is the input of the pass); Exec recompiles, checks the list still is what the
//        compiler emits (otherwise `stale`) and answers with the optimised list.
//   peep  synth  <name>  <tokens>  <unoptimised list>
//        A synthetic instruction list (tokens, see peepTok) is handed to compiler.NewPeepholeOptimizer
//        of a compiler that compiled peepTableSrc (which fixes the constant and type tables the
//        Replacement functions consult).  Jumps to arbitrary offsets, windows at jump targets,
//        windows cut by the end of the code, unknown path domains.
//   result: `ok:<optimised list>` | `panic` | `stale` | `compile-error`
//
// list  := `-` | item (`;` item)*
// item  := op `:` target? `:` kind `:` path `:` payload        (see the header of the Lean model)

import (
	"fmt"
	"strconv"
	"strings"
	"time"

	"github.com/onflow/cadence/bbq"
	"github.com/onflow/cadence/bbq/compiler"
	"github.com/onflow/cadence/bbq/constant"
	"github.com/onflow/cadence/bbq/opcode"
	"github.com/onflow/cadence/common"
	"github.com/onflow/cadence/interpreter"
	"github.com/onflow/cadence/parser"
	"github.com/onflow/cadence/sema"

	"verif/harness/internal/hx"
)

func init() {
	hx.Register(&hx.Stream{Name: "peep", Gen: genPeep, Exec: execPeep, Parallel: true, Timeout: 30 * time.Second})
}

type peepProgram = bbq.Program[opcode.Instruction, interpreter.StaticType]

// ---------------------------------------------------------------- rendering

func peepKindOfType(ty interpreter.StaticType) constant.Kind {
	if pst, ok := ty.(interpreter.PrimitiveStaticType); ok {
		return constant.FromSemaType(pst.SemaType())
	}
	return constant.Unknown
}

func peepPathOfType(ty interpreter.StaticType) string {
	switch ty {
	case interpreter.PrimitiveStaticTypePublicPath:
		return "public"
	case interpreter.PrimitiveStaticTypePrivatePath:
		return "private"
	case interpreter.PrimitiveStaticTypeStoragePath:
		return "storage"
	}
	return ""
}

func peepClean(s string) string {
	s = strings.TrimSpace(s)
	s = strings.NewReplacer(":", "=", ";", ",", "\t", " ", "\n", " ").Replace(s)
	return s
}

func peepRenderInstr(ins opcode.Instruction, consts []constant.DecodedConstant, types []interpreter.StaticType) string {
	var sb strings.Builder
	ins.OperandsString(&sb, false)
	payload := peepClean(sb.String())
	target, kind, path := "", "", ""
	if opcode.IsJump(ins) {
		target = strconv.Itoa(int(opcode.JumpTarget(ins)))
		payload = ""
	}
	switch i := ins.(type) {
	case opcode.InstructionGetConstant:
		if int(i.Constant) < len(consts) {
			kind = fmt.Sprint(consts[i.Constant].Kind)
		} else {
			kind = "?"
		}
	case opcode.InstructionTransferAndConvert:
		if int(i.TargetType) < len(types) {
			kind = fmt.Sprint(peepKindOfType(types[i.TargetType]))
			path = peepPathOfType(types[i.TargetType])
		} else {
			kind = "?"
		}
	case opcode.InstructionNewPath:
		switch i.Domain {
		case common.PathDomainPublic:
			path = "public"
		case common.PathDomainPrivate:
			path = "private"
		case common.PathDomainStorage:
			path = "storage"
		default:
			path = "unknown"
		}
	}
	return ins.Opcode().String() + ":" + target + ":" + peepClean(kind) + ":" + path + ":" + payload
}

func peepRender(code []opcode.Instruction, consts []constant.DecodedConstant, types []interpreter.StaticType) string {
	if len(code) == 0 {
		return "-"
	}
	parts := make([]string, len(code))
	for i, ins := range code {
		parts[i] = peepRenderInstr(ins, consts, types)
	}
	return strings.Join(parts, ";")
}

// ---------------------------------------------------------------- compiling

var peepLocation = common.StringLocation("peep")

// peepCompile parses, checks and compiles src; nil when the program is rejected.
func peepCompile(src string, peephole bool) (prog *peepProgram, comp *compiler.Compiler[opcode.Instruction, interpreter.StaticType]) {
	defer func() {
		if r := recover(); r != nil {
			prog, comp = nil, nil
		}
	}()
	program, err := parser.ParseProgram(nil, []byte(src), parser.Config{})
	if err != nil {
		return nil, nil
	}
	checker, err := sema.NewChecker(program, peepLocation, nil, &sema.Config{AccessCheckMode: sema.AccessCheckModeStrict})
	if err != nil {
		return nil, nil
	}
	if err = checker.Check(); err != nil {
		return nil, nil
	}
	comp = compiler.NewInstructionCompilerWithConfig(
		interpreter.ProgramFromChecker(checker),
		checker.Location,
		&compiler.Config{PeepholeOptimizationsEnabled: peephole},
	)
	prog = comp.Compile()
	return prog, comp
}

// ---------------------------------------------------------------- synthetic lists

// The table program: fixes constants (kinds) and types for synthetic lists.
const peepTableSrc = `
access(all) struct S { access(all) var x: Int; access(all) var y: Int8; init() { self.x = 1; self.y = 2 } }
access(all) fun t(s: S) {
    let a: Int = 1
    let b: Int8 = 2
    let c: UInt64 = 3
    let d: Word16 = 4
    let e: Fix64 = 1.5
    let f: UFix64 = 2.5
    let g: String = "g"
    let h: Address = 0x1
    let i: Integer = 5
    let j: Int? = 6
    let k: AnyStruct = 7
    let l: UInt256 = 8
    let m: Character = "m"
    let p1: PublicPath = /public/p
    let p2: StoragePath = /storage/p
    let p3: Path = /public/q
    let p4: CapabilityPath = /public/r
    let p5: PublicPath? = /public/s
    let n: Int? = nil
    let o: [Int] = [1, 2]
    let q: Int = s.x
    let r: Int8 = s.y
}
`

type peepTable struct {
	prog *peepProgram
	comp *compiler.Compiler[opcode.Instruction, interpreter.StaticType]
}


// a fresh compiler per call (the optimizer keeps per-compiler state; Exec runs concurrently)
func peepNewTable() *peepTable {
	prog, comp := peepCompile(peepTableSrc, false)
	if prog == nil {
		return nil
	}
	return &peepTable{prog: prog, comp: comp}
}

// token := <letters><a>[.<b>]
func peepTok(tok string) (opcode.Instruction, bool) {
	i := 0
	for i < len(tok) && (tok[i] < '0' || tok[i] > '9') {
		i++
	}
	name, rest := tok[:i], tok[i:]
	var a, b uint16
	if rest != "" {
		parts := strings.SplitN(rest, ".", 2)
		x, err := strconv.ParseUint(parts[0], 10, 16)
		if err != nil {
			return nil, false
		}
		a = uint16(x)
		if len(parts) == 2 {
			y, err := strconv.ParseUint(parts[1], 10, 16)
			if err != nil {
				return nil, false
			}
			b = uint16(y)
		}
	}
	switch name {
	case "GL":
		return opcode.InstructionGetLocal{Local: a}, true
	case "SL":
		return opcode.InstructionSetLocal{Local: a}, true
	case "GF":
		return opcode.InstructionGetField{FieldName: a, AccessedType: b}, true
	case "GC":
		return opcode.InstructionGetConstant{Constant: a}, true
	case "TC":
		return opcode.InstructionTransferAndConvert{ValueType: a, TargetType: b}, true
	case "NP":
		return opcode.InstructionNewPath{Domain: common.PathDomain(a), Identifier: b}, true
	case "N":
		return opcode.InstructionNil{}, true
	case "T":
		return opcode.InstructionTrue{}, true
	case "D":
		return opcode.InstructionDrop{}, true
	case "A":
		return opcode.InstructionAdd{}, true
	case "R":
		return opcode.InstructionReturn{}, true
	case "J":
		return opcode.InstructionJump{Target: a}, true
	case "JF":
		return opcode.InstructionJumpIfFalse{Target: a}, true
	case "JT":
		return opcode.InstructionJumpIfTrue{Target: a}, true
	case "JN":
		return opcode.InstructionJumpIfNil{Target: a}, true
	}
	return nil, false
}

func peepToks(s string) ([]opcode.Instruction, bool) {
	if s == "-" {
		return nil, true
	}
	var code []opcode.Instruction
	for _, t := range strings.Split(s, " ") {
		ins, ok := peepTok(t)
		if !ok {
			return nil, false
		}
		code = append(code, ins)
	}
	return code, true
}

func peepGenSynth(r *hx.Rng, nConst, nType int) string {
	n := r.Intn(14)
	if r.Chance(10) {
		n = r.Intn(3)
	}
	toks := make([]string, 0, n)
	tgt := func() int {
		switch r.Intn(12) {
		case 0:
			return n // end of code
		case 1:
			return n + 1 + r.Intn(3) // beyond the end
		case 2:
			return []int{65535, 65534, 32768, 1000}[r.Intn(4)]
		}
		return r.Intn(n + 1)
	}
	for len(toks) < n {
		switch r.Intn(16) {
		case 0, 1: // full GetLocal GetField window
			toks = append(toks, fmt.Sprintf("GL%d", r.Intn(4)), fmt.Sprintf("GF%d.%d", r.Intn(3), r.Intn(nType)))
		case 2, 3: // constant + transfer
			toks = append(toks, fmt.Sprintf("GC%d", r.Intn(nConst)), fmt.Sprintf("TC%d.%d", r.Intn(nType), r.Intn(nType)))
		case 4: // path + transfer
			d := 1 + r.Intn(3)
			if r.Chance(4) {
				d = []int{0, 4, 9}[r.Intn(3)] // unknown domain: Replacement panics (unreachable)
			}
			toks = append(toks, fmt.Sprintf("NP%d.%d", d, r.Intn(nConst)), fmt.Sprintf("TC%d.%d", r.Intn(nType), r.Intn(nType)))
		case 5:
			toks = append(toks, "N", fmt.Sprintf("TC%d.%d", r.Intn(nType), r.Intn(nType)))
		case 6:
			toks = append(toks, fmt.Sprintf("GL%d", r.Intn(4)))
		case 7:
			toks = append(toks, fmt.Sprintf("GF%d.%d", r.Intn(3), r.Intn(nType)))
		case 8:
			toks = append(toks, fmt.Sprintf("GC%d", r.Intn(nConst)))
		case 9:
			toks = append(toks, fmt.Sprintf("TC%d.%d", r.Intn(nType), r.Intn(nType)))
		case 10:
			toks = append(toks, []string{"N", "T", "D", "A", "R", "SL1"}[r.Intn(6)])
		case 11:
			toks = append(toks, fmt.Sprintf("NP%d.%d", 1+r.Intn(3), r.Intn(nConst)))
		default:
			toks = append(toks, fmt.Sprintf("%s%d", []string{"J", "JF", "JT", "JN"}[r.Intn(4)], tgt()))
		}
	}
	if len(toks) == 0 {
		return "-"
	}
	return strings.Join(toks, " ")
}

// peepIdx: indices into the table program's constant and type tables that make a window rewritten
// or declined.
type peepIdx struct {
	constInt                                    int // a constant of kind Int
	typeInt, typeOther, typePublic, typeStorage int // types: kind Int; neither Int nor a path; PublicPath; StoragePath
}

func peepFindIdx(tbl *peepTable) (ix peepIdx, ok bool) {
	ix = peepIdx{-1, -1, -1, -1, -1}
	for i, c := range tbl.prog.Constants {
		if c.Kind == constant.Int && ix.constInt < 0 {
			ix.constInt = i
		}
	}
	for i, ty := range tbl.prog.Types {
		k, p := peepKindOfType(ty), peepPathOfType(ty)
		switch {
		case k == constant.Int && ix.typeInt < 0:
			ix.typeInt = i
		case p == "public" && ix.typePublic < 0:
			ix.typePublic = i
		case p == "storage" && ix.typeStorage < 0:
			ix.typeStorage = i
		case k == constant.Unknown && p == "" && ix.typeOther < 0:
			ix.typeOther = i
		}
	}
	ok = ix.constInt >= 0 && ix.typeInt >= 0 && ix.typeOther >= 0 && ix.typePublic >= 0 && ix.typeStorage >= 0
	return
}

// peepGenStructured: units (windows that are rewritten, windows that are matched but declined, plain
// instructions, jumps); every jump targets the start of a unit or the end of the code — the layout the
// compiler produces — so declined and rewritten windows lie in front of jump targets all the time.
func peepGenStructured(r *hx.Rng, ix peepIdx) string {
	n := 2 + r.Intn(8)
	type unit struct {
		toks []string
		jump string // non-empty: a jump whose target is resolved below
	}
	units := make([]unit, 0, n)
	for len(units) < n {
		switch r.Intn(12) {
		case 0, 1, 2: // declined constant window
			units = append(units, unit{toks: []string{fmt.Sprintf("GC%d", ix.constInt), fmt.Sprintf("TC0.%d", ix.typeOther)}})
		case 3: // rewritten constant window
			units = append(units, unit{toks: []string{fmt.Sprintf("GC%d", ix.constInt), fmt.Sprintf("TC0.%d", ix.typeInt)}})
		case 4: // declined path window (public path to a non-path / another path type)
			t := []int{ix.typeOther, ix.typeStorage}[r.Intn(2)]
			units = append(units, unit{toks: []string{"NP3.0", fmt.Sprintf("TC0.%d", t)}})
		case 5: // rewritten path window
			if r.Bool() {
				units = append(units, unit{toks: []string{"NP3.0", fmt.Sprintf("TC0.%d", ix.typePublic)}})
			} else {
				units = append(units, unit{toks: []string{"NP1.0", fmt.Sprintf("TC0.%d", ix.typeStorage)}})
			}
		case 6:
			units = append(units, unit{toks: []string{"N", fmt.Sprintf("TC0.%d", ix.typeOther)}})
		case 7:
			units = append(units, unit{toks: []string{"GL0", "GF0.0"}})
		case 8:
			units = append(units, unit{toks: []string{[]string{"T", "D", "A", "R", "SL1", "GL1"}[r.Intn(6)]}})
		default:
			units = append(units, unit{jump: []string{"J", "JF", "JT", "JN"}[r.Intn(4)]})
		}
	}
	starts := make([]int, len(units)+1)
	off := 0
	for i, u := range units {
		starts[i] = off
		if u.jump != "" {
			off++
		} else {
			off += len(u.toks)
		}
	}
	starts[len(units)] = off
	var toks []string
	for _, u := range units {
		if u.jump != "" {
			toks = append(toks, fmt.Sprintf("%s%d", u.jump, starts[r.Intn(len(starts))]))
		} else {
			toks = append(toks, u.toks...)
		}
	}
	return strings.Join(toks, " ")
}

// ---------------------------------------------------------------- Cadence program generator

type peepGen struct {
	r     *hx.Rng
	sb    strings.Builder
	fresh int
	ints  []string // Int variables in scope (var)
	opts  []string // Int? variables in scope
}

func (g *peepGen) v(prefix string) string {
	g.fresh++
	return prefix + strconv.Itoa(g.fresh)
}

func (g *peepGen) intAtom() string {
	r := g.r
	switch r.Intn(7) {
	case 0:
		return strconv.Itoa(r.Intn(100))
	case 1, 2:
		return "s." + r.Pick([]string{"x", "y"})
	case 3:
		return "t.x"
	case 4:
		if len(g.opts) > 0 {
			return "(" + r.Pick(g.opts) + " ?? " + g.intAtomSimple() + ")"
		}
	}
	if len(g.ints) > 0 {
		return r.Pick(g.ints)
	}
	return strconv.Itoa(r.Intn(10))
}

func (g *peepGen) intAtomSimple() string {
	r := g.r
	switch r.Intn(3) {
	case 0:
		return strconv.Itoa(r.Intn(100))
	case 1:
		return "s.x"
	}
	if len(g.ints) > 0 {
		return r.Pick(g.ints)
	}
	return "7"
}

func (g *peepGen) intExpr(depth int) string {
	r := g.r
	if depth <= 0 || r.Chance(45) {
		return g.intAtom()
	}
	return g.intExpr(depth-1) + " " + r.Pick([]string{"+", "-", "*"}) + " " + g.intExpr(depth-1)
}

func (g *peepGen) cond(depth int) string {
	r := g.r
	if depth > 0 && r.Chance(40) {
		return g.cond(depth-1) + " " + r.Pick([]string{"&&", "||"}) + " " + g.cond(depth-1)
	}
	switch r.Intn(6) {
	case 0:
		if len(g.opts) > 0 {
			return r.Pick(g.opts) + " == nil"
		}
	case 1:
		return "s.b"
	case 2:
		return "!s.b"
	}
	return g.intAtom() + " " + r.Pick([]string{"<", ">", "==", "!=", "<=", ">="}) + " " + g.intAtom()
}

func (g *peepGen) line(ind int, s string) {
	g.sb.WriteString(strings.Repeat("    ", ind))
	g.sb.WriteString(s)
	g.sb.WriteByte('\n')
}

func (g *peepGen) stmts(ind, depth, n int, inLoop bool) {
	ni, no := len(g.ints), len(g.opts)
	for k := 0; k < n; k++ {
		g.stmt(ind, depth, inLoop)
	}
	g.ints, g.opts = g.ints[:ni], g.opts[:no]
}

func (g *peepGen) stmt(ind, depth int, inLoop bool) {
	r := g.r
	c := r.Intn(26)
	if depth <= 0 && c >= 14 {
		c = r.Intn(14)
	}
	switch c {
	case 0: // constant to typed variable (Int constant, Int target: rewritten)
		v := g.v("a")
		g.line(ind, "var "+v+": Int = "+strconv.Itoa(r.Intn(1000)))
		g.ints = append(g.ints, v)
	case 1: // constants to other targets
		ty := r.Pick([]string{"Int8", "UInt64", "Word16", "Integer", "SignedInteger", "Int?", "AnyStruct", "UInt8?", "Number", "UInt256", "FixedSizeUnsignedInteger"})
		g.line(ind, "let "+g.v("c")+": "+ty+" = "+strconv.Itoa(r.Intn(100)))
	case 2: // nil to optional
		v := g.v("o")
		g.line(ind, "var "+v+": Int? = nil")
		g.opts = append(g.opts, v)
	case 3: // optional from value
		v := g.v("o")
		g.line(ind, "var "+v+": Int? = "+g.intAtom())
		g.opts = append(g.opts, v)
	case 4: // paths
		dom := r.Pick([]string{"public", "storage", "private"})
		ty := r.Pick([]string{"PublicPath", "StoragePath", "PrivatePath", "Path", "CapabilityPath", "PublicPath?", "AnyStruct"})
		ok := map[string][]string{
			"public":  {"PublicPath", "Path", "CapabilityPath", "PublicPath?", "AnyStruct"},
			"storage": {"StoragePath", "Path", "AnyStruct"},
			"private": {"PrivatePath", "Path", "CapabilityPath", "AnyStruct"},
		}[dom]
		good := false
		for _, o := range ok {
			if o == ty {
				good = true
			}
		}
		if !good {
			ty = ok[r.Intn(len(ok))]
		}
		g.line(ind, "let "+g.v("p")+": "+ty+" = /"+dom+"/"+r.Pick([]string{"foo", "bar", "baz"}))
	case 5: // field read first in statement
		v := g.v("a")
		g.line(ind, "var "+v+" = s."+r.Pick([]string{"x", "y"}))
		g.ints = append(g.ints, v)
	case 6:
		v := g.v("a")
		g.line(ind, "var "+v+": Int = "+g.intExpr(2))
		g.ints = append(g.ints, v)
	case 7:
		if len(g.ints) > 0 {
			g.line(ind, r.Pick(g.ints)+" = "+g.intExpr(2))
		} else {
			g.line(ind, "s.x")
		}
	case 8: // other constants
		switch r.Intn(5) {
		case 0:
			g.line(ind, "let "+g.v("s")+": String = \"str\"")
		case 1:
			g.line(ind, "let "+g.v("f")+": UFix64 = 1.5")
		case 2:
			g.line(ind, "let "+g.v("f")+": Fix64 = -2.25")
		case 3:
			g.line(ind, "let "+g.v("d")+": Address = 0x1")
		case 4:
			g.line(ind, "let "+g.v("s")+": String? = \"opt\"")
		}
	case 9:
		if len(g.opts) > 0 {
			g.line(ind, r.Pick(g.opts)+" = "+r.Pick([]string{"nil", g.intAtom()}))
		} else {
			g.line(ind, "let "+g.v("n")+": Int?? = nil")
		}
	case 10: // expression statements starting with the patterns
		g.line(ind, r.Pick([]string{"s.x", "t.y", "s.b", "s.p"}))
	case 11:
		if inLoop && r.Chance(60) {
			g.line(ind, "if "+g.cond(0)+" { "+r.Pick([]string{"break", "continue"})+" }")
		} else {
			g.line(ind, "let "+g.v("b")+": Bool = "+g.cond(1))
		}
	case 12:
		g.line(ind, "let "+g.v("r")+" = &s.x as &Int")
	case 13:
		v := g.v("a")
		if len(g.opts) > 0 {
			g.line(ind, "var "+v+": Int = "+r.Pick(g.opts)+" ?? "+g.intAtomSimple())
		} else {
			g.line(ind, "var "+v+": Int = s.o ?? s.x")
		}
		g.ints = append(g.ints, v)
	case 14, 15: // if / else
		g.line(ind, "if "+g.cond(1)+" {")
		g.stmts(ind+1, depth-1, r.Intn(3), inLoop)
		if r.Chance(60) {
			g.line(ind, "} else {")
			g.stmts(ind+1, depth-1, 1+r.Intn(2), inLoop)
		}
		g.line(ind, "}")
	case 16, 17: // while
		i := g.v("i")
		g.line(ind, "var "+i+" = 0")
		g.ints = append(g.ints, i)
		cond := i + " < " + strconv.Itoa(1+r.Intn(4))
		if r.Chance(50) {
			cond = "s.x < " + strconv.Itoa(r.Intn(5)) + " && " + cond
		}
		g.line(ind, "while "+cond+" {")
		if r.Chance(50) {
			g.line(ind+1, i+" = "+i+" + 1")
			g.stmts(ind+1, depth-1, r.Intn(3), true)
		} else {
			g.stmts(ind+1, depth-1, r.Intn(3), false)
			g.line(ind+1, i+" = "+i+" + 1")
		}
		g.line(ind, "}")
	case 18: // if let
		src := "s.o"
		if len(g.opts) > 0 && r.Bool() {
			src = r.Pick(g.opts)
		}
		z := g.v("z")
		g.line(ind, "if let "+z+" = "+src+" {")
		ni := len(g.ints)
		g.stmts(ind+1, depth-1, r.Intn(3), inLoop)
		g.ints = g.ints[:ni]
		if r.Bool() {
			g.line(ind, "} else {")
			g.stmts(ind+1, depth-1, 1+r.Intn(2), inLoop)
		}
		g.line(ind, "}")
	case 19: // for
		e := g.v("e")
		g.line(ind, "for "+e+" in ["+strconv.Itoa(r.Intn(9))+", "+strconv.Itoa(r.Intn(9))+"] {")
		g.stmts(ind+1, depth-1, r.Intn(3), true)
		g.line(ind, "}")
	case 20: // switch
		g.line(ind, "switch "+g.intAtom()+" {")
		for k := 0; k < 1+r.Intn(2); k++ {
			g.line(ind, "case "+strconv.Itoa(k)+":")
			g.stmts(ind+1, depth-1, 1+r.Intn(2), false)
		}
		if r.Bool() {
			g.line(ind, "default:")
			g.stmts(ind+1, depth-1, 1+r.Intn(2), false)
		}
		g.line(ind, "}")
	case 21: // conditional expression
		v := g.v("a")
		g.line(ind, "var "+v+": Int = "+g.cond(0)+" ? "+g.intAtom()+" : "+g.intAtom())
		g.ints = append(g.ints, v)
	case 22, 23: // a window the patterns match but decline, directly in front of jumps
		g.declined(ind)
		switch r.Intn(5) {
		case 0:
			v := g.v("a")
			g.line(ind, "var "+v+": Int = "+g.cond(0)+" ? "+g.intAtom()+" : "+g.intAtom())
			g.ints = append(g.ints, v)
		case 1:
			g.line(ind, "if "+g.cond(0)+" {")
			g.stmts(ind+1, depth-1, 1, inLoop)
			g.line(ind, "} else {")
			g.declined(ind + 1)
			g.line(ind, "}")
		case 2:
			i := g.v("i")
			g.line(ind, "var "+i+" = 0")
			g.line(ind, "while "+i+" < 2 {")
			g.line(ind+1, i+" = "+i+" + 1")
			g.declined(ind + 1)
			g.line(ind, "}")
		case 3:
			g.line(ind, "let "+g.v("b")+": Bool = "+g.cond(1))
		default:
			v := g.v("a")
			g.line(ind, "var "+v+": Int = s.o ?? "+g.intAtomSimple())
			g.ints = append(g.ints, v)
		}
	case 24, 25: // function expression / inner function: separate entries of Program.Functions
		// (the only code of a program the VM executes in optimised form)
		savedInts, savedOpts := g.ints, g.opts
		g.ints, g.opts = nil, nil
		name := g.v("h")
		if r.Bool() {
			g.line(ind, "let "+name+" = fun (s: S, t: S): Int {")
		} else {
			g.line(ind, "fun "+name+"(s: S, t: S): Int {")
		}
		if r.Chance(70) {
			g.declined(ind + 1)
		}
		g.stmts(ind+1, depth-1, 1+r.Intn(4), false)
		g.line(ind+1, "return "+g.intAtomSimple())
		g.line(ind, "}")
		g.ints, g.opts = savedInts, savedOpts
	}
}

// declined: one statement whose first two instructions form a window that a pattern matches by
// opcodes but declines (constant of another kind than the target type; path literal to a supertype).
func (g *peepGen) declined(ind int) {
	r := g.r
	switch r.Intn(4) {
	case 0, 1:
		ty := r.Pick([]string{"Int?", "AnyStruct", "Integer", "Number", "SignedInteger", "UInt8?", "Int??", "AnyStruct?"})
		g.line(ind, "let "+g.v("c")+": "+ty+" = "+strconv.Itoa(r.Intn(100)))
	case 2:
		dom := r.Pick([]string{"public", "storage", "private"})
		ty := map[string][]string{
			"public":  {"Path", "CapabilityPath", "PublicPath?", "AnyStruct"},
			"storage": {"Path", "StoragePath?", "AnyStruct"},
			"private": {"Path", "CapabilityPath", "AnyStruct"},
		}[dom]
		g.line(ind, "let "+g.v("p")+": "+r.Pick(ty)+" = /"+dom+"/"+r.Pick([]string{"foo", "bar", "baz"}))
	default:
		if r.Bool() {
			g.line(ind, "let "+g.v("s")+": "+r.Pick([]string{"String?", "AnyStruct"})+" = \"str\"")
		} else {
			g.line(ind, "let "+g.v("f")+": "+r.Pick([]string{"UFix64?", "AnyStruct", "FixedPoint"})+" = 1.5")
		}
	}
}

func peepGenSource(r *hx.Rng) string {
	g := &peepGen{r: r}
	g.line(0, "access(all) struct S {")
	g.line(1, "access(all) var x: Int")
	g.line(1, "access(all) var y: Int")
	g.line(1, "access(all) var b: Bool")
	g.line(1, "access(all) var o: Int?")
	g.line(1, "access(all) var p: PublicPath")
	g.line(1, "init() { self.x = 1; self.y = 2; self.b = true; self.o = nil; self.p = /public/foo }")
	if r.Chance(50) {
		g.line(1, "access(all) fun m(s: S, t: S): Int {")
		g.stmts(2, 2, 1+r.Intn(4), false)
		g.line(2, "return self.x + s.y")
		g.line(1, "}")
	}
	g.line(0, "}")
	nf := 1 + r.Intn(3)
	for f := 0; f < nf; f++ {
		g.ints, g.opts = nil, nil
		g.line(0, "access(all) fun f"+strconv.Itoa(f)+"(s: S, t: S): Int {")
		g.stmts(1, 3, 2+r.Intn(6), false)
		g.line(1, "return "+g.intAtomSimple())
		g.line(0, "}")
	}
	return g.sb.String()
}

// ---------------------------------------------------------------- Gen / Exec

func genPeep(c *hx.Ctx) {
	r := c.Rng
	tbl := peepNewTable()
	// fixed synthetic cases: the window shapes named in the task
	if tbl != nil {
		fixed := []string{
			"-", "GL0", "GC0", "N", "NP3.0", "T GL0",
			"GL0 GF0.0", "GC0 TC0.0", "N TC0.0", "NP3.0 TC0.0",
			"J2 GL0 GF0.0 R",          // jump over nothing, window after target start
			"J1 GL0 GF0.0 R",          // window starts at a jump target
			"J2 GL0 GF0.0 R",          // second window instruction is a jump target
			"JF4 N TC0.0 GL0 GF0.0 R", // jump across a rewritten window
			"JF3 N TC0.0 GL0 GF0.0 J0",
			"N TC0.0 N TC0.0 J4 J2 J5 J6 J9",
			"GL0 GL1 GF0.0 GF1.0", "GC0 GC1 TC0.0 TC0.1",
			"NP0.0 TC0.0", "NP7.1 TC0.0",
		}
		for i, f := range fixed {
			peepEmitSynth(c, tbl, "fixed"+strconv.Itoa(i), f)
		}
	}
	var ix peepIdx
	structured := false
	if tbl != nil {
		ix, structured = peepFindIdx(tbl)
	}
	if structured {
		gc, dec, rew := fmt.Sprintf("GC%d", ix.constInt), fmt.Sprintf("TC0.%d", ix.typeOther), fmt.Sprintf("TC0.%d", ix.typeInt)
		// windows that are matched but declined (the code is not shortened there) in front of jump targets
		fixed := []string{
			gc + " " + dec + " T JF6 " + gc + " J7 " + gc + " R",      // `let x: Int? = 1; c ? a : b`
			gc + " " + dec + " T JF7 GL0 D J2 R",                      // loop behind a declined window
			"JF4 " + gc + " " + dec + " R N R",                        // jump across a declined window
			"NP3.0 " + dec + " T JF5 N R",                             // declined path window
			gc + " " + rew + " " + gc + " " + dec + " T JF8 N J9 N R", // rewritten, then declined
			gc + " " + dec + " " + gc + " " + rew + " T JF8 N J9 N R", // declined, then rewritten
			gc + " " + dec + " " + gc + " " + dec + " " + gc + " " + dec + " J6 J4 J2 J7", // only declined windows
			"J2 R " + gc + " " + dec + " J1",                          // window starts at a jump target
		}
		for i, f := range fixed {
			peepEmitSynth(c, tbl, "declined"+strconv.Itoa(i), f)
		}
	}
	nSrc := c.N / 8
	if nSrc < 1 {
		nSrc = 1
	}
	emitted := 0
	for k := 0; k < nSrc*4 && emitted < c.N/2; k++ {
		src := peepGenSource(r.Fork())
		prog, _ := peepCompile(src, false)
		if prog == nil {
			c.Emit("peep", "src", "g"+strconv.Itoa(k), "0", hx.Hex([]byte(src)), "?")
			emitted++
			continue
		}
		for fi, fn := range prog.Functions {
			if fn.Code == nil {
				continue
			}
			c.Emit("peep", "src", "g"+strconv.Itoa(k)+"/"+peepClean(fn.QualifiedName), strconv.Itoa(fi), hx.Hex([]byte(src)),
				peepRender(fn.Code, prog.Constants, prog.Types))
			emitted++
		}
	}
	if tbl != nil {
		for k := 0; emitted < c.N; k++ {
			if structured && k%3 == 0 {
				peepEmitSynth(c, tbl, "u"+strconv.Itoa(k), peepGenStructured(r, ix))
			} else {
				peepEmitSynth(c, tbl, "r"+strconv.Itoa(k), peepGenSynth(r, len(tbl.prog.Constants), len(tbl.prog.Types)))
			}
			emitted++
		}
	}
}

func peepEmitSynth(c *hx.Ctx, tbl *peepTable, name, toks string) {
	code, ok := peepToks(toks)
	if !ok {
		return
	}
	c.Emit("peep", "synth", name, toks, peepRender(code, tbl.prog.Constants, tbl.prog.Types))
}

func execPeep(op []string) string {
	if len(op) < 2 || op[0] != "peep" {
		return "foreign-op"
	}
	switch op[1] {
	case "src":
		if len(op) != 6 {
			return "bad-op"
		}
		src := string(hx.UnHex(op[4]))
		fi, err := strconv.Atoi(op[3])
		if err != nil {
			return "bad-op"
		}
		plain, _ := peepCompile(src, false)
		if plain == nil {
			return "compile-error"
		}
		if fi >= len(plain.Functions) || peepRender(plain.Functions[fi].Code, plain.Constants, plain.Types) != op[5] {
			return "stale"
		}
		// compiler panics (e.g. the uint16 overflow in patchJumps) are reported as `panic`
		var opt *peepProgram
		panicked := false
		func() {
			defer func() {
				if r := recover(); r != nil {
					panicked = true
				}
			}()
			opt = peepCompileNoRecover(src)
		}()
		if panicked {
			return "panic"
		}
		if opt == nil || fi >= len(opt.Functions) {
			return "compile-error"
		}
		return "ok:" + peepRender(opt.Functions[fi].Code, opt.Constants, opt.Types)
	case "synth":
		if len(op) != 5 {
			return "bad-op"
		}
		tbl := peepNewTable()
		if tbl == nil {
			return "compile-error"
		}
		code, ok := peepToks(op[3])
		if !ok {
			return "bad-op"
		}
		if peepRender(code, tbl.prog.Constants, tbl.prog.Types) != op[4] {
			return "stale"
		}
		var res []opcode.Instruction
		panicked := false
		func() {
			defer func() {
				if r := recover(); r != nil {
					panicked = true
				}
			}()
			input := append([]opcode.Instruction{}, code...)
			res = compiler.NewPeepholeOptimizer(tbl.comp).Optimize(input)
		}()
		if panicked {
			return "panic"
		}
		return "ok:" + peepRender(res, tbl.prog.Constants, tbl.prog.Types)
	}
	return "bad-op"
}

// like peepCompile(src, true) but lets a panic of Compile escape
func peepCompileNoRecover(src string) *peepProgram {
	program, err := parser.ParseProgram(nil, []byte(src), parser.Config{})
	if err != nil {
		return nil
	}
	checker, err := sema.NewChecker(program, peepLocation, nil, &sema.Config{AccessCheckMode: sema.AccessCheckModeStrict})
	if err != nil {
		return nil
	}
	if err = checker.Check(); err != nil {
		return nil
	}
	comp := compiler.NewInstructionCompilerWithConfig(
		interpreter.ProgramFromChecker(checker),
		checker.Location,
		&compiler.Config{PeepholeOptimizationsEnabled: true},
	)
	return comp.Compile()
}
