package main

// Stream `caps` (property C25): histories of capability operations, grouped into transactions, run on
// the real runtime (fresh ledger per history and engine, persisting between the transactions; the host's
// account id counter is rolled back with a failed transaction).  One line = one history:
//
//	caps <engine> <history>   =>   <obs tx1>|<obs tx2>|...
//
// history = tx ("|" tx)*      tx = op (";" op)*      op = comma separated tokens (a = account 0..2,
// p = storage path index, q = public path index, T = S | S2 | I | Any, id = capability id):
//
//	is,a,p,T        capabilities.storage.issue<&T>(/storage/p)            logs the id
//	rt,a,id,p       getController(byCapabilityID: id)?.retarget(/storage/p)
//	dl,a,id         getController(id)?.delete()          tg,a,id,t   setTag("t")
//	gc,a,id         getController(id): logs id:target:type:tag
//	gs,a,p          getControllers(forPath:) ids (sorted)      fe,a,p  forEachController(forPath:) ids (sorted)
//	pb,a,id,q       capabilities.publish(getController(id)!.capability, at: /public/q)
//	ub,a,q          capabilities.unpublish(/public/q)?.id      ex,a,q  capabilities.exists(/public/q)
//	gp,a,q,T        capabilities.get<&T>(/public/q): id and check()
//	bp,a,q,T        capabilities.borrow<&T>(/public/q) + one read through the reference
//	ip,a,id,n,r     inbox.publish(getController(id)!.capability, name: n, recipient: account r)
//	iu,a,n,T        inbox.unpublish<&T>(n)?.id           ic,a,n,pv,T  inbox.claim<&T>(n, provider: account pv)?.id
//	sv,a,p,V        storage.save(V) (V = s<int> C.S | t<int> C.S2)      ld,a,p  storage.load<AnyStruct> != nil
//	pn              panic
//	cb,a,q,G,W      let c: Capability = capabilities.get<&G>(/public/q) (capability of type G, not the controller's
//	                type); logs c.id : c.check<&W>() : one read through c.borrow<&W>()
//	rp,a,q,G,q2     capabilities.publish(capabilities.get<&G>(/public/q), at: /public/q2)
//	kb,a,id,W       let c: Capability = getController(id)!.capability; logs id : check<&W>() : borrow<&W>() read
//	im,a,p,T,n      n times issue<&T>(/storage/p) in a loop (one log line per issue)
//	hr,a,id,s.s...  ONE controller reference (getController(id), loaded once) used for a sequence of calls:
//	                r<p> retarget, t<tag> setTag, g read id:target:type:tag, d delete (last), and q<p> =
//	                getControllers(forPath: p) in between (one log line per sub-operation)
//
// Every operation logs exactly one line (im, hr: one per repetition / sub-operation); observation of a transaction = `ok[log;...]` or
// `err:<kind>[logs before the abort]`.

import (
	"fmt"
	"os"
	"sort"
	"strings"
	"time"

	"github.com/onflow/cadence/common"

	"verif/harness/internal/acct"
	"verif/harness/internal/cdc"
	"verif/harness/internal/hx"
)

func init() {
	hx.Register(&hx.Stream{Name: "caps", Gen: genCaps, Exec: execCaps, Parallel: true, Timeout: 120 * time.Second})
}

const capsContract = `
access(all) contract C {
    access(all) struct interface I { access(all) fun get(): Int }
    access(all) struct S { access(all) let x: Int; init(x: Int) { self.x = x } }
    access(all) struct S2: I { access(all) let x: Int; init(x: Int) { self.x = x }
        access(all) fun get(): Int { return self.x + 1000 } }
}
`

var capsTypes = []string{"S", "S2", "I", "Any"}
var capsTypeSyntax = map[string]string{"S": "C.S", "S2": "C.S2", "I": "{C.I}", "Any": "AnyStruct"}

func capsRead(t string) string {
	switch t {
	case "S", "S2":
		return "r.x"
	case "I":
		return "r.get()"
	}
	return "r.getType().identifier"
}

// capsReadStr is a String expression reading through the reference `r` of type &T
func capsReadStr(t string) string {
	if t == "Any" {
		return "r.getType().identifier"
	}
	return capsRead(t) + ".toString()"
}

const capsCtrlLog = "log(c.capabilityID.toString().concat(\":\").concat(c.target().toString()).concat(\":\").concat(c.borrowType.identifier).concat(\":\").concat(c.tag))"

// capsTxSource returns the transaction and the kind of operation behind every expected log line.
func capsTxSource(tx string) (string, []string) {
	var b strings.Builder
	var kinds []string
	b.WriteString("import C from 0x4\ntransaction {\n prepare(a0: auth(Storage, Capabilities, Inbox) &Account, a1: auth(Storage, Capabilities, Inbox) &Account, a2: auth(Storage, Capabilities, Inbox) &Account) {\n")
	for k, op := range strings.Split(tx, ";") {
		f := strings.Split(op, ",")
		need := map[string]int{"is": 4, "im": 5, "rt": 4, "hr": 4, "dl": 3, "tg": 4, "gc": 3, "gs": 3, "fe": 3, "pb": 4, "ub": 3,
			"ex": 3, "gp": 4, "bp": 4, "cb": 5, "rp": 5, "kb": 4, "ip": 5, "iu": 4, "ic": 5, "sv": 4, "ld": 3, "pn": 1}
		if n, ok := need[f[0]]; !ok || len(f) != n {
			b.WriteString("  BAD OP\n")
			continue
		}
		acc := func() string { return "a" + f[1] }
		ctrl := func(body string) {
			fmt.Fprintf(&b, "  if let c = %s.capabilities.storage.getController(byCapabilityID: %s) { %s } else { log(\"nil\") }\n", acc(), f[2], body)
		}
		getControllers := func(name, path string) string {
			return fmt.Sprintf("let %s: [UInt64] = []\n  for x in %s.capabilities.storage.getControllers(forPath: /storage/p%s) { %s.append(x.capabilityID) }\n  log(%s)\n",
				name, acc(), path, name, name)
		}
		// check / borrow at &W through the untyped capability variable `v`, logged after `prefix`
		capUse := func(v, w string) string {
			return fmt.Sprintf("let s%d = %s.id.toString().concat(%s.check<&%s>() ? \":+:\" : \":-:\")\n  if let r = %s.borrow<&%s>() { log(s%d.concat(%s)) } else { log(s%d.concat(\"none\")) }\n",
				k, v, v, capsTypeSyntax[w], v, capsTypeSyntax[w], k, capsReadStr(w), k)
		}
		kind := f[0]
		reps := 1
		switch f[0] {
		case "is":
			fmt.Fprintf(&b, "  log(%s.capabilities.storage.issue<&%s>(/storage/p%s).id)\n", acc(), capsTypeSyntax[f[3]], f[2])
		case "im":
			fmt.Sscanf(f[4], "%d", &reps)
			if reps < 1 || reps > 200 {
				b.WriteString("  BAD OP\n")
				continue
			}
			kind = "is"
			fmt.Fprintf(&b, "  var i%d = 0\n  while i%d < %d { log(%s.capabilities.storage.issue<&%s>(/storage/p%s).id); i%d = i%d + 1 }\n",
				k, k, reps, acc(), capsTypeSyntax[f[3]], f[2], k, k)
		case "rt":
			ctrl(fmt.Sprintf("c.retarget(/storage/p%s); log(\"rt\")", f[3]))
		case "hr":
			var then, els strings.Builder
			for j, sub := range strings.Split(f[3], ".") {
				if sub == "" {
					then.WriteString("  BAD OP\n")
					continue
				}
				arg := sub[1:]
				sk := "hr"
				switch sub[0] {
				case 'r':
					fmt.Fprintf(&then, "  c.retarget(/storage/p%s); log(\"rt\")\n", arg)
					els.WriteString("  log(\"nil\")\n")
				case 't':
					fmt.Fprintf(&then, "  c.setTag(\"%s\"); log(\"tg\")\n", arg)
					els.WriteString("  log(\"nil\")\n")
				case 'g':
					then.WriteString("  " + capsCtrlLog + "\n")
					els.WriteString("  log(\"nil\")\n")
				case 'd':
					then.WriteString("  c.delete(); log(\"dl\")\n")
					els.WriteString("  log(\"nil\")\n")
				case 'q':
					sk = "gs"
					q := getControllers(fmt.Sprintf("ids%d_%d", len(kinds), j), arg)
					then.WriteString("  " + q)
					els.WriteString("  " + q)
				default:
					then.WriteString("  BAD OP\n")
				}
				kinds = append(kinds, sk)
			}
			fmt.Fprintf(&b, "  if let c = %s.capabilities.storage.getController(byCapabilityID: %s) {\n%s  } else {\n%s  }\n", acc(), f[2], then.String(), els.String())
			reps = 0
		case "dl":
			ctrl("c.delete(); log(\"dl\")")
		case "tg":
			ctrl(fmt.Sprintf("c.setTag(\"%s\"); log(\"tg\")", f[3]))
		case "gc":
			ctrl(capsCtrlLog)
		case "gs":
			b.WriteString("  " + getControllers(fmt.Sprintf("ids%d", k), f[2]))
		case "fe":
			fmt.Fprintf(&b, "  let ids%d: [UInt64] = []\n  %s.capabilities.storage.forEachController(forPath: /storage/p%s, fun (c: &StorageCapabilityController): Bool { ids%d.append(c.capabilityID); return true })\n  log(ids%d)\n", k, acc(), f[2], k, k)
		case "pb":
			ctrl(fmt.Sprintf("%s.capabilities.publish(c.capability, at: /public/q%s); log(\"pb\")", acc(), f[3]))
		case "ub":
			fmt.Fprintf(&b, "  log(%s.capabilities.unpublish(/public/q%s)?.id)\n", acc(), f[2])
		case "ex":
			fmt.Fprintf(&b, "  log(%s.capabilities.exists(/public/q%s))\n", acc(), f[2])
		case "gp":
			fmt.Fprintf(&b, "  let cap%d = %s.capabilities.get<&%s>(/public/q%s)\n  log(cap%d.id.toString().concat(cap%d.check() ? \"+\" : \"-\"))\n", k, acc(), capsTypeSyntax[f[3]], f[2], k, k)
		case "bp":
			fmt.Fprintf(&b, "  if let r = %s.capabilities.borrow<&%s>(/public/q%s) { log(%s) } else { log(\"none\") }\n", acc(), capsTypeSyntax[f[3]], f[2], capsRead(f[3]))
		case "cb":
			fmt.Fprintf(&b, "  let cap%d: Capability = %s.capabilities.get<&%s>(/public/q%s)\n  %s", k, acc(), capsTypeSyntax[f[3]], f[2], capUse(fmt.Sprintf("cap%d", k), f[4]))
		case "rp":
			fmt.Fprintf(&b, "  %s.capabilities.publish(%s.capabilities.get<&%s>(/public/q%s), at: /public/q%s)\n  log(\"rp\")\n", acc(), acc(), capsTypeSyntax[f[3]], f[2], f[4])
		case "kb":
			fmt.Fprintf(&b, "  if let c = %s.capabilities.storage.getController(byCapabilityID: %s) {\n  let cap%d: Capability = c.capability\n  %s  } else { log(\"nil\") }\n", acc(), f[2], k, capUse(fmt.Sprintf("cap%d", k), f[3]))
		case "ip":
			ctrl(fmt.Sprintf("%s.inbox.publish(c.capability, name: \"%s\", recipient: a%s.address); log(\"ip\")", acc(), f[3], f[4]))
		case "iu":
			fmt.Fprintf(&b, "  log(%s.inbox.unpublish<&%s>(\"%s\")?.id)\n", acc(), capsTypeSyntax[f[3]], f[2])
		case "ic":
			fmt.Fprintf(&b, "  log(%s.inbox.claim<&%s>(\"%s\", provider: a%s.address)?.id)\n", acc(), capsTypeSyntax[f[4]], f[2], f[3])
		case "sv":
			ctor := "C.S"
			if f[3][0] == 't' {
				ctor = "C.S2"
			}
			fmt.Fprintf(&b, "  %s.storage.save(%s(x: %s), to: /storage/p%s)\n  log(\"sv\")\n", acc(), ctor, f[3][1:], f[2])
		case "ld":
			fmt.Fprintf(&b, "  log(%s.storage.load<AnyStruct>(from: /storage/p%s) != nil)\n", acc(), f[2])
		case "pn":
			b.WriteString("  if a0.address == 0x1 { panic(\"abort\") }\n")
		}
		for i := 0; i < reps; i++ {
			kinds = append(kinds, kind)
		}
	}
	b.WriteString(" }\n}\n")
	return b.String(), kinds
}

func capsCanonLog(kind, s string) string {
	s = strings.ReplaceAll(s, "A.0000000000000004.", "")
	s = strings.ReplaceAll(s, "\"", "")
	switch kind {
	case "gs", "fe":
		inner := strings.TrimSuffix(strings.TrimPrefix(s, "["), "]")
		if inner == "" {
			return "[]"
		}
		parts := strings.Split(inner, ", ")
		sort.Slice(parts, func(i, j int) bool {
			if len(parts[i]) != len(parts[j]) {
				return len(parts[i]) < len(parts[j])
			}
			return parts[i] < parts[j]
		})
		return "[" + strings.Join(parts, " ") + "]"
	}
	return strings.ReplaceAll(strings.ReplaceAll(s, ";", "?"), "|", "?")
}

func capsErrKind(out *cdc.Outcome) string {
	switch out.Kind {
	case "interpreter.OverwriteError":
		return "overwrite"
	case "interpreter.ForceCastTypeMismatchError":
		return "cast"
	case "stdlib.PanicError":
		return "panic"
	}
	return out.Class + ":" + out.Kind
}

func execCaps(op []string) string {
	if len(op) != 3 {
		return "bad-op"
	}
	useVM := op[1] == "vm"
	env := acct.NewEnv()
	env.Signers = []common.Address{common.MustBytesToAddress([]byte{4})}
	dep := env.Tx(fmt.Sprintf(`transaction { prepare(signer: auth(Contracts) &Account) { signer.contracts.add(name: "C", code: "%x".decodeHex()) } }`, capsContract), useVM)
	if dep.Class != "none" {
		return "deploy-failed:" + dep.Class + ":" + dep.Kind
	}
	env.Signers = []common.Address{common.MustBytesToAddress([]byte{1}), common.MustBytesToAddress([]byte{2}), common.MustBytesToAddress([]byte{3})}
	var obs []string
	for _, tx := range strings.Split(op[2], "|") {
		src, kinds := capsTxSource(tx)
		out := env.Tx(src, useVM)
		logs := make([]string, len(out.Logs))
		for i, l := range out.Logs {
			kind := "?"
			if i < len(kinds) {
				kind = kinds[i]
			}
			logs[i] = capsCanonLog(kind, l)
		}
		head := "ok"
		if out.Class != "none" {
			head = "err:" + capsErrKind(out)
			if os.Getenv("VERIF_DEBUG") != "" {
				fmt.Fprintln(os.Stderr, "TX ERROR:", out.Kind, cdc.ErrString(out.Err), "\n", src)
			}
		}
		obs = append(obs, head+"["+strings.Join(logs, ";")+"]")
	}
	return strings.Join(obs, "|")
}

// ---------------------------------------------------------------------------------------------

type capsGen struct {
	r      *hx.Rng
	nextID [3]int
	live   [3][]int
}

func (g *capsGen) id(a int) int {
	r := g.r
	if len(g.live[a]) > 0 && r.Chance(80) {
		return g.live[a][r.Intn(len(g.live[a]))]
	}
	return 1 + r.Intn(g.nextID[a]+2)
}

func (g *capsGen) unlive(a, id int) {
	for i, v := range g.live[a] {
		if v == id {
			g.live[a] = append(g.live[a][:i:i], g.live[a][i+1:]...)
			break
		}
	}
}

// held: several calls through one loaded controller reference (retargets away and back, tags, reads, listings
// in between, optionally delete at the end)
func (g *capsGen) held(a int) string {
	r := g.r
	id := g.id(a)
	n := 2 + r.Intn(4)
	subs := make([]string, 0, n+1)
	first := r.Intn(4)
	for i := 0; i < n; i++ {
		switch x := r.Intn(10); {
		case x < 6:
			p := r.Intn(4)
			if r.Chance(40) {
				p = first // back to an earlier target
			}
			subs = append(subs, fmt.Sprintf("r%d", p))
		case x < 7:
			subs = append(subs, "t"+r.Pick([]string{"t1", "t2"}))
		case x < 8:
			subs = append(subs, "g")
		default:
			subs = append(subs, fmt.Sprintf("q%d", r.Intn(4)))
		}
	}
	if r.Chance(15) {
		subs = append(subs, "d")
		g.unlive(a, id)
	}
	return fmt.Sprintf("hr,%d,%d,%s", a, id, strings.Join(subs, "."))
}

func (g *capsGen) op() string {
	r := g.r
	a := r.Intn(3)
	if r.Chance(60) {
		a = 0
	}
	ty := func() string { return r.Pick(capsTypes) }
	names := []string{"x", "y"}
	switch x := r.Intn(124); {
	case x >= 100 && x < 108:
		// a capability of another type than its controller's (get<&G>), used untyped at a third type
		return fmt.Sprintf("cb,%d,%d,%s,%s", a, r.Intn(2), ty(), ty())
	case x >= 108 && x < 111:
		return fmt.Sprintf("rp,%d,%d,%s,%d", a, r.Intn(2), ty(), r.Intn(2))
	case x >= 111 && x < 114:
		return fmt.Sprintf("kb,%d,%d,%s", a, g.id(a), ty())
	case x >= 114 && x < 122:
		return g.held(a)
	case x >= 122:
		n := 2 + r.Intn(6)
		if r.Chance(30) {
			n = 10 + r.Intn(30)
		}
		p := r.Intn(4)
		for i := 0; i < n; i++ {
			g.nextID[a]++
			g.live[a] = append(g.live[a], g.nextID[a])
		}
		return fmt.Sprintf("im,%d,%d,%s,%d", a, p, ty(), n)
	case x < 18:
		g.nextID[a]++
		g.live[a] = append(g.live[a], g.nextID[a])
		return fmt.Sprintf("is,%d,%d,%s", a, r.Intn(4), ty())
	case x < 26:
		return fmt.Sprintf("rt,%d,%d,%d", a, g.id(a), r.Intn(4))
	case x < 33:
		id := g.id(a)
		g.unlive(a, id)
		return fmt.Sprintf("dl,%d,%d", a, id)
	case x < 37:
		return fmt.Sprintf("tg,%d,%d,%s", a, g.id(a), r.Pick([]string{"t1", "t2"}))
	case x < 44:
		return fmt.Sprintf("gc,%d,%d", a, g.id(a))
	case x < 52:
		return fmt.Sprintf("gs,%d,%d", a, r.Intn(4))
	case x < 58:
		return fmt.Sprintf("fe,%d,%d", a, r.Intn(4))
	case x < 65:
		return fmt.Sprintf("pb,%d,%d,%d", a, g.id(a), r.Intn(2))
	case x < 69:
		return fmt.Sprintf("ub,%d,%d", a, r.Intn(2))
	case x < 72:
		return fmt.Sprintf("ex,%d,%d", a, r.Intn(2))
	case x < 78:
		return fmt.Sprintf("gp,%d,%d,%s", a, r.Intn(2), ty())
	case x < 85:
		return fmt.Sprintf("bp,%d,%d,%s", a, r.Intn(2), ty())
	case x < 88:
		return fmt.Sprintf("ip,%d,%d,%s,%d", a, g.id(a), r.Pick(names), r.Intn(3))
	case x < 90:
		return fmt.Sprintf("iu,%d,%s,%s", a, r.Pick(names), r.Pick([]string{"Any", "Any", "S", "S2", "I"}))
	case x < 93:
		return fmt.Sprintf("ic,%d,%s,%d,%s", r.Intn(3), r.Pick(names), a, r.Pick([]string{"Any", "Any", "S", "S2", "I"}))
	case x < 97:
		return fmt.Sprintf("sv,%d,%d,%s%d", a, r.Intn(4), r.Pick([]string{"s", "t"}), r.Intn(50))
	case x < 99:
		return fmt.Sprintf("ld,%d,%d", a, r.Intn(4))
	default:
		return "pn"
	}
}

func genCaps(c *hx.Ctx) {
	r := c.Rng
	emit := func(h string) {
		for _, e := range []string{"interp", "vm"} {
			c.Emit("caps", e, h)
		}
	}
	// exhaustive: stored value kind x controller type x wanted type, through get / borrow
	for _, v := range []string{"s7", "t8", ""} {
		for _, ct := range capsTypes {
			for _, wt := range capsTypes {
				h := "is,0,1," + ct + ";pb,0,1,0"
				if v != "" {
					h = "sv,0,1," + v + ";" + h
				}
				emit(h + "|gp,0,0," + wt + ";bp,0,0," + wt + ";ex,0,0|dl,0,1;gp,0,0," + wt + ";bp,0,0," + wt + ";ex,0,0;ub,0,0;ex,0,0")
			}
		}
	}
	// inbox: provider / recipient / type combinations
	for _, ct := range capsTypes {
		for _, wt := range capsTypes {
			emit("is,0,0," + ct + ";ip,0,1,x,1|ic,2,x,0," + wt + "|ic,1,x,0," + wt + "|ic,1,x,0," + wt + ";iu,0,x," + wt)
			emit("is,0,0," + ct + ";ip,0,1,x,1|iu,0,x," + wt + "|ic,1,x,0,Any")
		}
	}
	// a capability whose type differs from its controller's: obtained with get<&G> (up- or downcast of the
	// published one), held untyped and checked / borrowed at &W; also re-published and borrowed at the new path.
	// Exhaustive over the first stored value x the value that replaces it x controller type x G x W
	// (CanBorrow must compare W with the capability's type AND with the controller's type; the replaced value
	// makes the dynamic check pass for a W unrelated to the controller's type).
	vals := []string{"s7", "t8"}
	for _, v1 := range append([]string{""}, vals...) {
		for _, v2 := range append([]string{""}, vals...) {
			for _, ct := range capsTypes {
				h := "is,0,1," + ct + ";pb,0,1,0"
				if v1 != "" {
					h = "sv,0,1," + v1 + ";" + h
				}
				h += "|ld,0,1"
				if v2 != "" {
					h += ";sv,0,1," + v2
				}
				for _, gt := range capsTypes {
					var ops []string
					for _, wt := range capsTypes {
						ops = append(ops, "cb,0,0,"+gt+","+wt)
					}
					// re-published under the type G, then capabilities.borrow / get at every W
					ops = append(ops, "rp,0,0,"+gt+",1")
					for _, wt := range capsTypes {
						ops = append(ops, "bp,0,1,"+wt, "gp,0,1,"+wt, "cb,0,1,"+wt+","+r.Pick(capsTypes))
					}
					ops = append(ops, "ub,0,1")
					h += "|" + strings.Join(ops, ";")
				}
				var ops []string
				for _, wt := range capsTypes {
					ops = append(ops, "kb,0,1,"+wt)
				}
				emit(h + "|" + strings.Join(ops, ";"))
			}
		}
	}
	// several retargets through ONE loaded controller reference (away and back, chains), then the listings of
	// every path in this and in the next transaction, then delete
	allPaths := func(a string) string {
		var ops []string
		for p := 0; p < 4; p++ {
			ops = append(ops, fmt.Sprintf("gs,%s,%d", a, p), fmt.Sprintf("fe,%s,%d", a, p))
		}
		return strings.Join(ops, ";")
	}
	for _, seq := range []string{"r1.r0", "r1.r1.r0", "r1.r2", "r1.r2.r0", "r0.r0", "r1.r0.r1", "r1.q0.q1.r0", "r1.g.r0.g", "r2.tt1.r0.g",
		"r1.r2.r3.r0.r1.r2.r3.r0", "r1.r0.d", "r1.d"} {
		last := seq[strings.LastIndex(seq, ".")+1:]
		h := "sv,0,0,s1;sv,0,1,s2;is,0,0,S;is,0,0,S;pb,0,1,0|hr,0,1," + seq + ";" + allPaths("0") + ";gc,0,1;bp,0,0,S|" +
			allPaths("0") + ";gc,0,1;bp,0,0,S;kb,0,1,S|"
		if last != "d" {
			h += "rt,0,1,3;" + allPaths("0") + "|dl,0,1;"
		}
		emit(h + allPaths("0") + ";gc,0,1;bp,0,0,S|dl,0,2;" + allPaths("0"))
	}
	for i := 0; i < 6+c.N/40; i++ {
		// random: k retargets on one reference in account a, other controllers on the same paths
		a := r.Intn(3)
		g := &capsGen{r: r}
		g.nextID[a], g.live[a] = 3, []int{1, 2, 3}
		h := fmt.Sprintf("is,%d,%d,S;is,%d,%d,S2;is,%d,%d,Any|%s;%s;%s|%s;gc,%d,1;gc,%d,2;gc,%d,3|%s;%s|%s", a, r.Intn(4), a, r.Intn(4), a, r.Intn(4),
			g.held(a), g.held(a), allPaths(fmt.Sprint(a)), allPaths(fmt.Sprint(a)), a, a, a, g.held(a), g.held(a), allPaths(fmt.Sprint(a)))
		emit(h)
	}
	// many controllers in one account (the controller map and the id sets span several slabs): a change made
	// in one transaction (retarget, setTag, delete; also through one held reference) must be there in the next
	for _, n := range []int{8, 20, 45, 120} {
		for _, ty := range []string{"S", "Any"} {
			mid, lastID := n/2, n
			h := fmt.Sprintf("im,0,0,%s,%d;pb,0,1,0|rt,0,1,1;rt,0,%d,2;hr,0,%d,r1.r3;tg,0,2,t1;gc,0,1;gc,0,%d;gc,0,%d|", ty, n, mid, lastID, mid, lastID)
			h += fmt.Sprintf("gc,0,1;gc,0,2;gc,0,%d;gc,0,%d;%s|", mid, lastID, allPaths("0"))
			h += fmt.Sprintf("hr,0,1,r2.r0.r1|gc,0,1;dl,0,%d;rt,0,%d,0|gc,0,1;gc,0,%d;gc,0,%d;%s;sv,0,1,s5;bp,0,0,%s|", mid, lastID, mid, lastID, allPaths("0"), ty)
			h += fmt.Sprintf("dl,0,1;im,0,3,I,3|%s;bp,0,0,%s;gc,0,%d", allPaths("0"), ty, n+3)
			emit(h)
		}
	}
	for i := 0; i < 2+c.N/100; i++ {
		// random retargets among many controllers, each checked in the following transaction
		n := 12 + r.Intn(50)
		a := r.Intn(3)
		h := fmt.Sprintf("im,%d,%d,%s,%d", a, r.Intn(4), r.Pick(capsTypes), n)
		for j := 0; j < 3; j++ {
			var ops, chk []string
			for k := 0; k < 3; k++ {
				id := 1 + r.Intn(n)
				switch r.Intn(4) {
				case 0:
					ops = append(ops, fmt.Sprintf("hr,%d,%d,r%d.r%d", a, id, r.Intn(4), r.Intn(4)))
				case 1:
					ops = append(ops, fmt.Sprintf("tg,%d,%d,t%d", a, id, r.Intn(3)))
				default:
					ops = append(ops, fmt.Sprintf("rt,%d,%d,%d", a, id, r.Intn(4)))
				}
				chk = append(chk, fmt.Sprintf("gc,%d,%d", a, id))
			}
			h += "|" + strings.Join(ops, ";") + "|" + strings.Join(chk, ";") + ";" + allPaths(fmt.Sprint(a))
		}
		emit(h)
	}
	for i := 0; i < c.N; i++ {
		g := &capsGen{r: r}
		ntx := 2 + r.Intn(7)
		txs := make([]string, ntx)
		for j := range txs {
			nops := 1 + r.Intn(7)
			ops := make([]string, nops)
			for k := range ops {
				ops[k] = g.op()
			}
			txs[j] = strings.Join(ops, ";")
		}
		emit(strings.Join(txs, "|"))
	}
}
