package main

// Stream `caps` (property C25): histories of capability operations, grouped into transactions, run on
// the real runtime (fresh ledger per history and engine, persisting between the transactions; the host's
// account id counter is rolled back with a failed transaction).  One line = one history:
//
//	caps <engine> <history>   =>   <obs tx1>|<obs tx2>|...
//
// history = tx ("|" tx)*      tx = op (";" op)*      op = comma separated tokens (a = account 0..2,
// p = storage path index, q = public path index, T = S | S2 | I | Any, id = capability id):
//
//	is,a,p,T        capabilities.storage.issue<&T>(/storage/p)            logs the id
//	rt,a,id,p       getController(byCapabilityID: id)?.retarget(/storage/p)
//	dl,a,id         getController(id)?.delete()          tg,a,id,t   setTag("t")
//	gc,a,id         getController(id): logs id:target:type:tag
//	gs,a,p          getControllers(forPath:) ids (sorted)      fe,a,p  forEachController(forPath:) ids (sorted)
//	pb,a,id,q       capabilities.publish(getController(id)!.capability, at: /public/q)
//	ub,a,q          capabilities.unpublish(/public/q)?.id      ex,a,q  capabilities.exists(/public/q)
//	gp,a,q,T        capabilities.get<&T>(/public/q): id and check()
//	bp,a,q,T        capabilities.borrow<&T>(/public/q) + one read through the reference
//	ip,a,id,n,r     inbox.publish(getController(id)!.capability, name: n, recipient: account r)
//	iu,a,n,T        inbox.unpublish<&T>(n)?.id           ic,a,n,pv,T  inbox.claim<&T>(n, provider: account pv)?.id
//	sv,a,p,V        storage.save(V) (V = s<int> C.S | t<int> C.S2)      ld,a,p  storage.load<AnyStruct> != nil
//	pn              panic
//
// Every operation logs exactly one line; observation of a transaction = `ok[log;...]` or
// `err:<kind>[logs before the abort]`.

import (
	"fmt"
	"os"
	"sort"
	"strings"
	"time"

	"github.com/onflow/cadence/common"

	"verif/harness/internal/acct"
	"verif/harness/internal/cdc"
	"verif/harness/internal/hx"
)

func init() {
	hx.Register(&hx.Stream{Name: "caps", Gen: genCaps, Exec: execCaps, Parallel: true, Timeout: 120 * time.Second})
}

const capsContract = `
access(all) contract C {
    access(all) struct interface I { access(all) fun get(): Int }
    access(all) struct S { access(all) let x: Int; init(x: Int) { self.x = x } }
    access(all) struct S2: I { access(all) let x: Int; init(x: Int) { self.x = x }
        access(all) fun get(): Int { return self.x + 1000 } }
}
`

var capsTypes = []string{"S", "S2", "I", "Any"}
var capsTypeSyntax = map[string]string{"S": "C.S", "S2": "C.S2", "I": "{C.I}", "Any": "AnyStruct"}

func capsRead(t string) string {
	switch t {
	case "S", "S2":
		return "r.x"
	case "I":
		return "r.get()"
	}
	return "r.getType().identifier"
}

func capsTxSource(tx string) string {
	var b strings.Builder
	b.WriteString("import C from 0x4\ntransaction {\n prepare(a0: auth(Storage, Capabilities, Inbox) &Account, a1: auth(Storage, Capabilities, Inbox) &Account, a2: auth(Storage, Capabilities, Inbox) &Account) {\n")
	for k, op := range strings.Split(tx, ";") {
		f := strings.Split(op, ",")
		acc := func() string { return "a" + f[1] }
		ctrl := func(body string) {
			fmt.Fprintf(&b, "  if let c = %s.capabilities.storage.getController(byCapabilityID: %s) { %s } else { log(\"nil\") }\n", acc(), f[2], body)
		}
		switch f[0] {
		case "is":
			fmt.Fprintf(&b, "  log(%s.capabilities.storage.issue<&%s>(/storage/p%s).id)\n", acc(), capsTypeSyntax[f[3]], f[2])
		case "rt":
			ctrl(fmt.Sprintf("c.retarget(/storage/p%s); log(\"rt\")", f[3]))
		case "dl":
			ctrl("c.delete(); log(\"dl\")")
		case "tg":
			ctrl(fmt.Sprintf("c.setTag(\"%s\"); log(\"tg\")", f[3]))
		case "gc":
			ctrl("log(c.capabilityID.toString().concat(\":\").concat(c.target().toString()).concat(\":\").concat(c.borrowType.identifier).concat(\":\").concat(c.tag))")
		case "gs":
			fmt.Fprintf(&b, "  let ids%d: [UInt64] = []\n  for c in %s.capabilities.storage.getControllers(forPath: /storage/p%s) { ids%d.append(c.capabilityID) }\n  log(ids%d)\n", k, acc(), f[2], k, k)
		case "fe":
			fmt.Fprintf(&b, "  let ids%d: [UInt64] = []\n  %s.capabilities.storage.forEachController(forPath: /storage/p%s, fun (c: &StorageCapabilityController): Bool { ids%d.append(c.capabilityID); return true })\n  log(ids%d)\n", k, acc(), f[2], k, k)
		case "pb":
			ctrl(fmt.Sprintf("%s.capabilities.publish(c.capability, at: /public/q%s); log(\"pb\")", acc(), f[3]))
		case "ub":
			fmt.Fprintf(&b, "  log(%s.capabilities.unpublish(/public/q%s)?.id)\n", acc(), f[2])
		case "ex":
			fmt.Fprintf(&b, "  log(%s.capabilities.exists(/public/q%s))\n", acc(), f[2])
		case "gp":
			fmt.Fprintf(&b, "  let cap%d = %s.capabilities.get<&%s>(/public/q%s)\n  log(cap%d.id.toString().concat(cap%d.check() ? \"+\" : \"-\"))\n", k, acc(), capsTypeSyntax[f[3]], f[2], k, k)
		case "bp":
			fmt.Fprintf(&b, "  if let r = %s.capabilities.borrow<&%s>(/public/q%s) { log(%s) } else { log(\"none\") }\n", acc(), capsTypeSyntax[f[3]], f[2], capsRead(f[3]))
		case "ip":
			ctrl(fmt.Sprintf("%s.inbox.publish(c.capability, name: \"%s\", recipient: a%s.address); log(\"ip\")", acc(), f[3], f[4]))
		case "iu":
			fmt.Fprintf(&b, "  log(%s.inbox.unpublish<&%s>(\"%s\")?.id)\n", acc(), capsTypeSyntax[f[3]], f[2])
		case "ic":
			fmt.Fprintf(&b, "  log(%s.inbox.claim<&%s>(\"%s\", provider: a%s.address)?.id)\n", acc(), capsTypeSyntax[f[4]], f[2], f[3])
		case "sv":
			ctor := "C.S"
			if f[3][0] == 't' {
				ctor = "C.S2"
			}
			fmt.Fprintf(&b, "  %s.storage.save(%s(x: %s), to: /storage/p%s)\n  log(\"sv\")\n", acc(), ctor, f[3][1:], f[2])
		case "ld":
			fmt.Fprintf(&b, "  log(%s.storage.load<AnyStruct>(from: /storage/p%s) != nil)\n", acc(), f[2])
		case "pn":
			b.WriteString("  if a0.address == 0x1 { panic(\"abort\") }\n")
		default:
			b.WriteString("  BAD OP\n")
		}
	}
	b.WriteString(" }\n}\n")
	return b.String()
}

func capsCanonLog(kind, s string) string {
	s = strings.ReplaceAll(s, "A.0000000000000004.", "")
	s = strings.ReplaceAll(s, "\"", "")
	switch kind {
	case "gs", "fe":
		inner := strings.TrimSuffix(strings.TrimPrefix(s, "["), "]")
		if inner == "" {
			return "[]"
		}
		parts := strings.Split(inner, ", ")
		sort.Slice(parts, func(i, j int) bool {
			if len(parts[i]) != len(parts[j]) {
				return len(parts[i]) < len(parts[j])
			}
			return parts[i] < parts[j]
		})
		return "[" + strings.Join(parts, " ") + "]"
	}
	return strings.ReplaceAll(strings.ReplaceAll(s, ";", "?"), "|", "?")
}

func capsErrKind(out *cdc.Outcome) string {
	switch out.Kind {
	case "interpreter.OverwriteError":
		return "overwrite"
	case "interpreter.ForceCastTypeMismatchError":
		return "cast"
	case "stdlib.PanicError":
		return "panic"
	}
	return out.Class + ":" + out.Kind
}

func execCaps(op []string) string {
	if len(op) != 3 {
		return "bad-op"
	}
	useVM := op[1] == "vm"
	env := acct.NewEnv()
	env.Signers = []common.Address{common.MustBytesToAddress([]byte{4})}
	dep := env.Tx(fmt.Sprintf(`transaction { prepare(signer: auth(Contracts) &Account) { signer.contracts.add(name: "C", code: "%x".decodeHex()) } }`, capsContract), useVM)
	if dep.Class != "none" {
		return "deploy-failed:" + dep.Class + ":" + dep.Kind
	}
	env.Signers = []common.Address{common.MustBytesToAddress([]byte{1}), common.MustBytesToAddress([]byte{2}), common.MustBytesToAddress([]byte{3})}
	var obs []string
	for _, tx := range strings.Split(op[2], "|") {
		out := env.Tx(capsTxSource(tx), useVM)
		ops := strings.Split(tx, ";")
		logs := make([]string, len(out.Logs))
		for i, l := range out.Logs {
			kind := "?"
			if i < len(ops) {
				kind = strings.SplitN(ops[i], ",", 2)[0]
			}
			logs[i] = capsCanonLog(kind, l)
		}
		head := "ok"
		if out.Class != "none" {
			head = "err:" + capsErrKind(out)
			if os.Getenv("VERIF_DEBUG") != "" {
				fmt.Fprintln(os.Stderr, "TX ERROR:", out.Kind, cdc.ErrString(out.Err), "\n", capsTxSource(tx))
			}
		}
		obs = append(obs, head+"["+strings.Join(logs, ";")+"]")
	}
	return strings.Join(obs, "|")
}

// ---------------------------------------------------------------------------------------------

type capsGen struct {
	r      *hx.Rng
	nextID [3]int
	live   [3][]int
}

func (g *capsGen) id(a int) int {
	r := g.r
	if len(g.live[a]) > 0 && r.Chance(80) {
		return g.live[a][r.Intn(len(g.live[a]))]
	}
	return 1 + r.Intn(g.nextID[a]+2)
}

func (g *capsGen) op() string {
	r := g.r
	a := r.Intn(3)
	if r.Chance(60) {
		a = 0
	}
	ty := func() string { return r.Pick(capsTypes) }
	names := []string{"x", "y"}
	switch x := r.Intn(100); {
	case x < 18:
		g.nextID[a]++
		g.live[a] = append(g.live[a], g.nextID[a])
		return fmt.Sprintf("is,%d,%d,%s", a, r.Intn(4), ty())
	case x < 26:
		return fmt.Sprintf("rt,%d,%d,%d", a, g.id(a), r.Intn(4))
	case x < 33:
		id := g.id(a)
		for i, v := range g.live[a] {
			if v == id {
				g.live[a] = append(g.live[a][:i:i], g.live[a][i+1:]...)
				break
			}
		}
		return fmt.Sprintf("dl,%d,%d", a, id)
	case x < 37:
		return fmt.Sprintf("tg,%d,%d,%s", a, g.id(a), r.Pick([]string{"t1", "t2"}))
	case x < 44:
		return fmt.Sprintf("gc,%d,%d", a, g.id(a))
	case x < 52:
		return fmt.Sprintf("gs,%d,%d", a, r.Intn(4))
	case x < 58:
		return fmt.Sprintf("fe,%d,%d", a, r.Intn(4))
	case x < 65:
		return fmt.Sprintf("pb,%d,%d,%d", a, g.id(a), r.Intn(2))
	case x < 69:
		return fmt.Sprintf("ub,%d,%d", a, r.Intn(2))
	case x < 72:
		return fmt.Sprintf("ex,%d,%d", a, r.Intn(2))
	case x < 78:
		return fmt.Sprintf("gp,%d,%d,%s", a, r.Intn(2), ty())
	case x < 85:
		return fmt.Sprintf("bp,%d,%d,%s", a, r.Intn(2), ty())
	case x < 88:
		return fmt.Sprintf("ip,%d,%d,%s,%d", a, g.id(a), r.Pick(names), r.Intn(3))
	case x < 90:
		return fmt.Sprintf("iu,%d,%s,%s", a, r.Pick(names), r.Pick([]string{"Any", "Any", "S", "S2", "I"}))
	case x < 93:
		return fmt.Sprintf("ic,%d,%s,%d,%s", r.Intn(3), r.Pick(names), a, r.Pick([]string{"Any", "Any", "S", "S2", "I"}))
	case x < 97:
		return fmt.Sprintf("sv,%d,%d,%s%d", a, r.Intn(4), r.Pick([]string{"s", "t"}), r.Intn(50))
	case x < 99:
		return fmt.Sprintf("ld,%d,%d", a, r.Intn(4))
	default:
		return "pn"
	}
}

func genCaps(c *hx.Ctx) {
	r := c.Rng
	emit := func(h string) {
		for _, e := range []string{"interp", "vm"} {
			c.Emit("caps", e, h)
		}
	}
	// exhaustive: stored value kind x controller type x wanted type, through get / borrow
	for _, v := range []string{"s7", "t8", ""} {
		for _, ct := range capsTypes {
			for _, wt := range capsTypes {
				h := "is,0,1," + ct + ";pb,0,1,0"
				if v != "" {
					h = "sv,0,1," + v + ";" + h
				}
				emit(h + "|gp,0,0," + wt + ";bp,0,0," + wt + ";ex,0,0|dl,0,1;gp,0,0," + wt + ";bp,0,0," + wt + ";ex,0,0;ub,0,0;ex,0,0")
			}
		}
	}
	// inbox: provider / recipient / type combinations
	for _, ct := range capsTypes {
		for _, wt := range capsTypes {
			emit("is,0,0," + ct + ";ip,0,1,x,1|ic,2,x,0," + wt + "|ic,1,x,0," + wt + "|ic,1,x,0," + wt + ";iu,0,x," + wt)
			emit("is,0,0," + ct + ";ip,0,1,x,1|iu,0,x," + wt + "|ic,1,x,0,Any")
		}
	}
	for i := 0; i < c.N; i++ {
		g := &capsGen{r: r}
		ntx := 2 + r.Intn(7)
		txs := make([]string, ntx)
		for j := range txs {
			nops := 1 + r.Intn(7)
			ops := make([]string, nops)
			for k := range ops {
				ops[k] = g.op()
			}
			txs[j] = strings.Join(ops, ";")
		}
		emit(strings.Join(txs, "|"))
	}
}
