package main

// Stream `auth` (property C06): the authorization algebra of sema/access.go on real sema.Access
// values: PermitsAccess, Equal, IntersectAccess, (*EntitlementMapAccess).Image / Domain.
//
// Access encoding (one field):  p:<prim>   c:A,B (conjunction, insertion order)   d:A,B (disjunction)
//                               m:<id>:<0|1 identity>:A>B;A>C (entitlement-map access)
// Result encoding: the same, with the entitlements of a set sorted.

import (
	"sort"
	"strconv"
	"strings"
	"sync"

	"github.com/onflow/cadence/ast"
	"github.com/onflow/cadence/common"
	"github.com/onflow/cadence/sema"

	"verif/harness/internal/cdc"
	"verif/harness/internal/hx"
)

func init() {
	hx.Register(&hx.Stream{Name: "auth", Gen: genAuth, Exec: execAuth, Parallel: true})
}

var authPrims = map[string]ast.PrimitiveAccess{
	"notSpecified": ast.AccessNotSpecified, "none": ast.AccessNone, "self": ast.AccessSelf,
	"contract": ast.AccessContract, "account": ast.AccessAccount, "all": ast.AccessAll,
	"pubSettableLegacy": ast.AccessPubSettableLegacy,
}
var authPrimNames = []string{"notSpecified", "none", "self", "contract", "account", "all", "pubSettableLegacy"}

var (
	authEntMu  sync.Mutex
	authEnts   = map[string]*sema.EntitlementType{}
	authMapMu  sync.Mutex
	authMaps   = map[string]*sema.EntitlementMapType{}
	authLoc    = common.StringLocation("auth")
	authSetStr = func(es []string) string { return strings.Join(es, ",") }
)

// one *EntitlementType per name (set membership in sema is by pointer)
func authEnt(name string) *sema.EntitlementType {
	authEntMu.Lock()
	defer authEntMu.Unlock()
	if e, ok := authEnts[name]; ok {
		return e
	}
	e := sema.NewEntitlementType(nil, authLoc, name)
	authEnts[name] = e
	return e
}

func authSplit(s string, sep string) []string {
	if s == "" {
		return nil
	}
	return strings.Split(s, sep)
}

// one *EntitlementMapType per id (Equal compares the types); the spec string is part of the key so
// that a different mapping never shares a cached image
func authMapType(spec string) *sema.EntitlementMapType {
	authMapMu.Lock()
	defer authMapMu.Unlock()
	if m, ok := authMaps[spec]; ok {
		return m
	}
	parts := strings.SplitN(spec, ":", 3) // id, identity, relations
	m := sema.NewEntitlementMapType(nil, authLoc, "M"+parts[0])
	m.IncludesIdentity = parts[1] == "1"
	for _, r := range authSplit(parts[2], ";") {
		io := strings.SplitN(r, ">", 2)
		m.Relations = append(m.Relations, sema.NewEntitlementRelation(nil, authEnt(io[0]), authEnt(io[1])))
	}
	authMaps[spec] = m
	return m
}

func authParse(s string) sema.Access {
	switch {
	case strings.HasPrefix(s, "p:"):
		p, ok := authPrims[s[2:]]
		if !ok {
			panic("bad primitive access " + s)
		}
		return sema.PrimitiveAccess(p)
	case strings.HasPrefix(s, "c:"), strings.HasPrefix(s, "d:"):
		kind := sema.Conjunction
		if s[0] == 'd' {
			kind = sema.Disjunction
		}
		var es []*sema.EntitlementType
		for _, n := range authSplit(s[2:], ",") {
			es = append(es, authEnt(n))
		}
		return sema.NewEntitlementSetAccess(es, kind)
	case strings.HasPrefix(s, "m:"):
		// a fresh access per operation: Domain / images are cached inside the access value
		return sema.NewEntitlementMapAccess(authMapType(s[2:]))
	}
	panic("bad access " + s)
}

func authRender(a sema.Access) string {
	switch a := a.(type) {
	case sema.PrimitiveAccess:
		for n, p := range authPrims {
			if sema.PrimitiveAccess(p) == a {
				return "p:" + n
			}
		}
		return "p:?" + strconv.Itoa(int(a))
	case sema.EntitlementSetAccess:
		var names []string
		a.Entitlements.Foreach(func(e *sema.EntitlementType, _ struct{}) {
			names = append(names, e.Identifier)
		})
		sort.Strings(names)
		k := "c:"
		if a.SetKind == sema.Disjunction {
			k = "d:"
		}
		return k + strings.Join(names, ",")
	case *sema.EntitlementMapAccess:
		return "m:" + strings.TrimPrefix(a.Type.Identifier, "M")
	}
	return "?"
}

func execAuth(op []string) string {
	b2s := func(b bool) string {
		if b {
			return "true"
		}
		return "false"
	}
	switch op[1] {
	case "permits":
		return b2s(authParse(op[2]).PermitsAccess(authParse(op[3])))
	case "equal":
		return b2s(authParse(op[2]).Equal(authParse(op[3])))
	case "intersect":
		return authRender(sema.IntersectAccess(authParse(op[2]), authParse(op[3])))
	case "image":
		m := authParse(op[2]).(*sema.EntitlementMapAccess)
		r, err := m.Image(nil, authParse(op[3]), ast.EmptyRange)
		if err != nil {
			if _, ok := err.(*sema.UnrepresentableEntitlementMapOutputError); ok {
				return "err"
			}
			return "err-other"
		}
		// a second call goes through the image cache and must agree
		r2, err2 := m.Image(nil, authParse(op[3]), ast.EmptyRange)
		if err2 != nil || authRender(r2) != authRender(r) {
			return "unstable"
		}
		return authRender(r)
	case "domain":
		m := authParse(op[2]).(*sema.EntitlementMapAccess)
		return authRender(m.Domain())
	case "prog":
		return authProg(op[2], op[3], op[4], op[5], op[6])
	}
	panic("unknown op")
}

func authTypeAuth(a string) string {
	switch {
	case a == "p:all":
		return ""
	case strings.HasPrefix(a, "c:"):
		return "auth(" + strings.ReplaceAll(a[2:], ",", ", ") + ") "
	case strings.HasPrefix(a, "d:"):
		return "auth(" + strings.ReplaceAll(a[2:], ",", " | ") + ") "
	}
	panic("bad authorization " + a)
}

// authProg: a struct T with a member `f` of mapping access (the last mapping of an include chain),
// a reference `auth(a) &T` upcast to `auth(b) &T`, and a call of `f.p()` where `p` requires `req`.
// chain = "<ident>:<rels>/<ident>:<rels>/..." — mapping i includes mapping i-1.
// Result: ok (checked and ran, returned 1) | reject (checker error) | other classes.
func authProg(a, b, req, chain, engine string) string {
	var sb strings.Builder
	for _, e := range []string{"A", "B", "C", "D", "E", "F"} {
		sb.WriteString("access(all) entitlement " + e + "\n")
	}
	ms := strings.Split(chain, "/")
	for i, m := range ms {
		parts := strings.SplitN(m, ":", 2)
		sb.WriteString("access(all) entitlement mapping M" + strconv.Itoa(i) + " {\n")
		if i > 0 {
			sb.WriteString("  include M" + strconv.Itoa(i-1) + "\n")
		}
		if parts[0] == "1" {
			sb.WriteString("  include Identity\n")
		}
		for _, r := range authSplit(parts[1], ";") {
			io := strings.SplitN(r, ">", 2)
			sb.WriteString("  " + io[0] + " -> " + io[1] + "\n")
		}
		sb.WriteString("}\n")
	}
	last := "M" + strconv.Itoa(len(ms)-1)
	reqAccess := "all"
	if req != "p:all" {
		reqAccess = strings.TrimSuffix(strings.TrimPrefix(authTypeAuth(req), "auth("), ") ")
	}
	sb.WriteString("access(all) struct G { access(" + reqAccess + ") fun p(): Int { return 1 } }\n")
	sb.WriteString("access(all) struct T {\n  access(mapping " + last + ") let f: G\n  init() { self.f = G() }\n}\n")
	sb.WriteString("access(all) fun main(): Int {\n  let t = T()\n")
	sb.WriteString("  let r = &t as " + authTypeAuth(a) + "&T\n")
	sb.WriteString("  let up = r as " + authTypeAuth(b) + "&T\n")
	sb.WriteString("  return up.f.p()\n}\n")
	env := cdc.NewEnv()
	out := env.Script(sb.String(), nil, engine == "vm")
	switch out.Class {
	case "none":
		if out.Value != nil && out.Value.String() == "1" {
			return "ok"
		}
		return "ok-wrong-value"
	case "user":
		if strings.Contains(out.Kind, "CheckerError") || strings.Contains(out.Kind, "ParsingCheckingError") {
			return "reject"
		}
		return "err-user:" + out.Kind
	}
	return "err-" + out.Class + ":" + out.Kind
}

func authSubsets(u []string) [][]string {
	out := [][]string{nil}
	for _, x := range u {
		n := len(out)
		for i := 0; i < n; i++ {
			s := append(append([]string{}, out[i]...), x)
			out = append(out, s)
		}
	}
	return out
}

func genAuth(c *hx.Ctx) {
	r := c.Rng
	u4 := []string{"A", "B", "C", "D"}
	// --- exhaustive: all accesses over a 4-entitlement universe, all pairs
	var accs []string
	for _, p := range authPrimNames {
		accs = append(accs, "p:"+p)
	}
	for _, s := range authSubsets(u4) { // includes the empty set (never built by the checker, but constructible)
		accs = append(accs, "c:"+authSetStr(s), "d:"+authSetStr(s))
	}
	accs = append(accs, "m:1:0:A>B;A>C;B>D", "m:2:1:")
	for _, a := range accs {
		for _, b := range accs {
			c.Emit("auth", "permits", a, b)
			c.Emit("auth", "equal", a, b)
			c.Emit("auth", "intersect", a, b)
		}
	}
	// --- exhaustive: all mappings over a 3-entitlement universe (512 relations x identity flag) x all inputs
	u3 := []string{"A", "B", "C"}
	var inputs []string
	for _, s := range authSubsets(u3) {
		inputs = append(inputs, "c:"+authSetStr(s), "d:"+authSetStr(s))
	}
	inputs = append(inputs, "p:all", "p:self", "p:none", "m:2:1:")
	var pairs []string
	for _, i := range u3 {
		for _, o := range u3 {
			pairs = append(pairs, i+">"+o)
		}
	}
	step := 1
	if !c.Thorough() {
		step = 1 // 1024 mappings x 20 inputs: cheap enough for the quick tier
	}
	for mask := 0; mask < 512; mask += step {
		var rel []string
		for i, p := range pairs {
			if mask&(1<<i) != 0 {
				rel = append(rel, p)
			}
		}
		for id := 0; id < 2; id++ {
			spec := "m:" + strconv.Itoa(100+mask*2+id) + ":" + strconv.Itoa(id) + ":" + strings.Join(rel, ";")
			for _, in := range inputs {
				c.Emit("auth", "image", spec, in)
			}
			c.Emit("auth", "domain", spec)
		}
	}
	// --- random: larger universe, shuffled insertion orders, duplicate relations, outputs outside the inputs
	u6 := []string{"A", "B", "C", "D", "E", "F"}
	randSet := func() string {
		var s []string
		k := r.Intn(5)
		for i := 0; i < k; i++ {
			s = append(s, u6[r.Intn(len(u6))]) // duplicates allowed: NewEntitlementSetAccess dedups
		}
		if r.Chance(50) {
			return "c:" + authSetStr(s)
		}
		return "d:" + authSetStr(s)
	}
	randAcc := func() string {
		if r.Chance(12) {
			return "p:" + authPrimNames[r.Intn(len(authPrimNames))]
		}
		return randSet()
	}
	for i := 0; i < c.N; i++ {
		a, b := randAcc(), randAcc()
		c.Emit("auth", "permits", a, b)
		c.Emit("auth", "equal", a, b)
		c.Emit("auth", "intersect", a, b)
		var rel []string
		k := r.Intn(8)
		for j := 0; j < k; j++ {
			rel = append(rel, u6[r.Intn(4)]+">"+u6[r.Intn(len(u6))])
		}
		spec := "m:" + strconv.Itoa(5000+i) + ":" + strconv.Itoa(r.Intn(2)) + ":" + strings.Join(rel, ";")
		c.Emit("auth", "image", spec, a)
		c.Emit("auth", "image", spec, b)
		c.Emit("auth", "domain", spec)
	}
	// --- programs: a mapped member read through an upcast reference, checker + one engine
	progAuth := func() string {
		if r.Chance(10) {
			return "p:all"
		}
		k := 1 + r.Intn(3)
		perm := []string{"A", "B", "C", "D"}
		for i := range perm {
			j := i + r.Intn(len(perm)-i)
			perm[i], perm[j] = perm[j], perm[i]
		}
		s := perm[:k]
		if k >= 2 && r.Chance(50) {
			return "d:" + authSetStr(s)
		}
		return "c:" + authSetStr(s)
	}
	nprog := c.N / 4
	for i := 0; i < nprog; i++ {
		a := progAuth()
		b := a
		switch r.Intn(4) { // bias toward permitted upcasts
		case 0:
			b = progAuth()
		case 1: // widen: a conjunction's subset or a disjunction containing one of its members
			if strings.HasPrefix(a, "c:") {
				es := authSplit(a[2:], ",")
				x := es[r.Intn(len(es))]
				others := []string{}
				for _, o := range u4 {
					if o != x {
						others = append(others, o)
					}
				}
				if r.Bool() {
					b = "d:" + x + "," + others[r.Intn(len(others))]
				} else {
					b = "c:" + x
				}
			} else if strings.HasPrefix(a, "d:") {
				es := authSplit(a[2:], ",")
				for _, o := range u4 {
					if !strings.Contains(a, o) {
						es = append(es, o)
						break
					}
				}
				b = "d:" + authSetStr(es)
			}
		case 2:
			b = "p:all"
		}
		nm := 1 + r.Intn(3)
		var chain []string
		for j := 0; j < nm; j++ {
			var rel []string
			k := r.Intn(4)
			seen := map[string]bool{}
			for l := 0; l < k; l++ {
				p := u4[r.Intn(4)] + ">" + u6[r.Intn(len(u6))]
				if !seen[p] { // a duplicate relation is a checker error of its own
					seen[p] = true
					rel = append(rel, p)
				}
			}
			id := "0"
			if r.Chance(15) {
				id = "1"
			}
			chain = append(chain, id+":"+strings.Join(rel, ";"))
		}
		var req string
		switch r.Intn(4) {
		case 0:
			req = "p:all"
		case 1:
			req = "d:" + u6[r.Intn(3)] + "," + u6[3+r.Intn(3)]
		default:
			req = "c:" + u6[r.Intn(len(u6))]
		}
		c.Emit("auth", "prog", a, b, req, strings.Join(chain, "/"), []string{"interp", "vm"}[r.Intn(2)])
	}
}
