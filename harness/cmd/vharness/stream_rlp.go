package main

// Stream `rlp` (property C46): RLP decoding, directly (rlp.DecodeString / DecodeList at a start
// index) and through the Cadence functions RLP.decodeString / RLP.decodeList in both engines.

import (
	"strconv"
	"strings"

	"github.com/onflow/cadence"
	"github.com/onflow/cadence/stdlib/rlp"

	"verif/harness/internal/cdc"
	"verif/harness/internal/hx"
)

func init() {
	hx.Register(&hx.Stream{Name: "rlp", Gen: genRlp, Exec: execRlp, Parallel: true})
}

func rlpHeader(base byte, n uint64) []byte {
	if n <= 55 {
		return []byte{base + byte(n)}
	}
	var lb []byte
	for x := n; x > 0; x >>= 8 {
		lb = append([]byte{byte(x)}, lb...)
	}
	return append([]byte{base + 55 + byte(len(lb))}, lb...)
}

func rlpEncStr(s []byte) []byte {
	if len(s) == 1 && s[0] <= 0x7f {
		return []byte{s[0]}
	}
	return append(rlpHeader(0x80, uint64(len(s))), s...)
}

// random nested item, encoded canonically
func rlpRandItem(r *hx.Rng, depth int) []byte {
	if depth == 0 || r.Chance(60) {
		n := []int{0, 1, 1, 2, 3, 10, 54, 55, 56, 57, 100, 255, 256, 300}[r.Intn(14)]
		s := r.Bytes(n)
		if n == 1 && r.Bool() {
			s[0] &= 0x7f
		}
		return rlpEncStr(s)
	}
	var payload []byte
	k := r.Intn(5)
	for i := 0; i < k; i++ {
		payload = append(payload, rlpRandItem(r, depth-1)...)
	}
	return append(rlpHeader(0xc0, uint64(len(payload))), payload...)
}

func rlpMutate(r *hx.Rng, b []byte) []byte {
	b = append([]byte{}, b...)
	switch r.Intn(8) {
	case 0: // truncate
		if len(b) > 0 {
			b = b[:r.Intn(len(b))]
		}
	case 1: // trailing bytes
		b = append(b, r.Bytes(1+r.Intn(3))...)
	case 2: // flip a byte
		if len(b) > 0 {
			b[r.Intn(len(b))] ^= byte(1 << r.Intn(8))
		}
	case 3: // replace the head by a long form with an extreme length
		base := []byte{0xb8, 0xf8}[r.Intn(2)]
		k := 1 + r.Intn(8)
		ext := [][]byte{
			{0xff, 0xff, 0xff, 0xff, 0xff, 0xff, 0xff, 0xff},
			{0x7f, 0xff, 0xff, 0xff, 0xff, 0xff, 0xff, 0xff},
			{0x7f, 0xff, 0xff, 0xff, 0xff, 0xff, 0xff, 0xfe},
			{0x80, 0, 0, 0, 0, 0, 0, 0},
			{0x7f, 0xff, 0xff, 0xff, 0xff, 0xff, 0xff, byte(0xf0 + r.Intn(16))},
			{0, 0, 0, 0, 0, 0, 0, 56},
			{0, 0, 0, 0, 0, 0, 1, 0},
		}[r.Intn(7)]
		b = append(append([]byte{base + byte(k-1)}, ext[8-k:]...), b...)
	case 4: // non-canonical: long form for a short length
		n := r.Intn(56)
		b = append([]byte{0xb8, byte(n)}, r.Bytes(n)...)
	case 5: // non-canonical single byte
		b = []byte{0x81, byte(r.Intn(0x80))}
	case 6: // leading zero in length
		n := 56 + r.Intn(200)
		b = append([]byte{0xb9, 0, byte(n)}, r.Bytes(n)...)
	case 7: // list whose announced size cuts an item
		if len(b) > 2 && b[0] >= 0xc1 && b[0] <= 0xf7 {
			b[0]--
		}
	}
	return b
}

func genRlp(c *hx.Ctx) {
	r := c.Rng
	emitAll := func(b []byte, scripts bool) {
		h := hx.Hex(b)
		c.Emit("rlp", "dstr", h, "0")
		c.Emit("rlp", "dlist", h, "0")
		if scripts {
			eng := []string{"interp", "vm"}[r.Intn(2)]
			c.Emit("rlp", "sstr", h, eng)
			c.Emit("rlp", "slist", h, eng)
		}
	}
	// exhaustive: all byte strings up to length 2 (quick) / 3 (thorough: direct calls only for length 3)
	emitAll(nil, true)
	for a := 0; a < 256; a++ {
		emitAll([]byte{byte(a)}, true)
	}
	for a := 0; a < 256; a++ {
		for b := 0; b < 256; b++ {
			emitAll([]byte{byte(a), byte(b)}, false)
		}
	}
	if c.Thorough() {
		for a := 0x78; a < 256; a++ { // first bytes below 0x78 behave like 0x00..0x77: one class is enough
			for b := 0; b < 256; b++ {
				for d := 0; d < 256; d += 1 {
					h := hx.Hex([]byte{byte(a), byte(b), byte(d)})
					c.Emit("rlp", "dstr", h, "0")
					c.Emit("rlp", "dlist", h, "0")
				}
			}
		}
	}
	for i := 0; i < c.N; i++ {
		item := rlpRandItem(r, 3)
		if r.Chance(55) {
			item = rlpMutate(r, item)
		}
		scripts := r.Chance(25)
		emitAll(item, scripts)
		if r.Chance(10) && len(item) > 0 { // non-zero start index (direct API only)
			st := strconv.Itoa(r.Intn(len(item) + 2))
			c.Emit("rlp", "dstr", hx.Hex(item), st)
			c.Emit("rlp", "dlist", hx.Hex(item), st)
		}
	}
}

func rlpGuard(f func() string) (res string) {
	defer func() {
		if r := recover(); r != nil {
			res = "panic"
		}
	}()
	return f()
}

func execRlp(op []string) string {
	inp := hx.UnHex(op[2])
	switch op[1] {
	case "dstr":
		st, _ := strconv.Atoi(op[3])
		return rlpGuard(func() string {
			s, n, err := rlp.DecodeString(inp, st)
			if err != nil {
				return "err"
			}
			return "ok:" + hx.Hex(s) + ":" + strconv.Itoa(n)
		})
	case "dlist":
		st, _ := strconv.Atoi(op[3])
		return rlpGuard(func() string {
			xs, n, err := rlp.DecodeList(inp, st)
			if err != nil {
				return "err"
			}
			return "ok:" + rlpItems(xs) + ":" + strconv.Itoa(n)
		})
	case "sstr", "slist":
		fn := "decodeString"
		ret := "[UInt8]"
		if op[1] == "slist" {
			fn = "decodeList"
			ret = "[[UInt8]]"
		}
		src := "access(all) fun main(data: [UInt8]): " + ret + " { return RLP." + fn + "(data) }"
		vals := make([]cadence.Value, len(inp))
		for i, b := range inp {
			vals[i] = cadence.UInt8(b)
		}
		arg := cdc.JSONArg(cadence.NewArray(vals).WithType(cadence.NewVariableSizedArrayType(cadence.UInt8Type)))
		env := cdc.NewEnv()
		out := env.Script(src, [][]byte{arg}, op[3] == "vm")
		switch out.Class {
		case "none":
			if op[1] == "sstr" {
				return "ok:" + hx.Hex(cdcBytes(out.Value))
			}
			arr := out.Value.(cadence.Array)
			xs := make([][]byte, len(arr.Values))
			for i, v := range arr.Values {
				xs[i] = cdcBytes(v)
			}
			return "ok:" + rlpItems(xs)
		case "user":
			return "err"
		default:
			return "err-" + out.Class
		}
	}
	return "bad-op"
}

func rlpItems(xs [][]byte) string {
	parts := make([]string, len(xs))
	for i, x := range xs {
		parts[i] = hx.Hex(x)
	}
	return "[" + strings.Join(parts, ",") + "]"
}

func cdcBytes(v cadence.Value) []byte {
	arr := v.(cadence.Array)
	b := make([]byte, len(arr.Values))
	for i, x := range arr.Values {
		b[i] = byte(x.(cadence.UInt8))
	}
	return b
}
