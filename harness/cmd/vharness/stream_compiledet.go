package main

// Stream `compiledet` (property C35): generated Cadence programs, each compiled repeatedly
// (instruction compiler, bytecode compiler, bytecode compiler with peephole optimisation; several
// times in this process and once in a fresh process); the printed programs, function order,
// constants, types, globals and byte code must be identical.  `compileCdc` is also used by the
// `instr` stream (instruction sequences of compiled programs).

import (
	"bufio"
	"bytes"
	"crypto/sha256"
	"encoding/hex"
	"fmt"
	"os"
	"os/exec"
	"strconv"
	"strings"
	"time"

	"github.com/onflow/cadence/bbq"
	"github.com/onflow/cadence/bbq/compiler"
	"github.com/onflow/cadence/common"
	"github.com/onflow/cadence/interpreter"
	"github.com/onflow/cadence/parser"
	"github.com/onflow/cadence/sema"
	"github.com/onflow/cadence/stdlib"

	"verif/harness/internal/hx"
)

func init() {
	hx.Register(&hx.Stream{Name: "compiledet", Gen: genCompileDet, Exec: execCompileDet, Parallel: true,
		Timeout: 120 * time.Second})
}


func cdcBaseActivation(common.Location) *sema.VariableActivation {
	activation := sema.NewVariableActivation(sema.BaseValueActivation)
	activation.DeclareValue(stdlib.VMPanicFunction)
	activation.DeclareValue(stdlib.VMAssertFunction)
	return activation
}

// compileCdc parses, checks and compiles; returns the instruction program and a canonical dump
// (printed instruction program + printed bytecode program + explicit tables).
func compileCdc(src string, withDump bool) (prog *bbq.InstructionProgram, dump string, err error) {
	defer func() {
		if r := recover(); r != nil {
			err = fmt.Errorf("panic: %v", r)
		}
	}()
	location := common.StringLocation("verif")
	ast, err := parser.ParseProgram(nil, []byte(src), parser.Config{})
	if err != nil {
		return nil, "", fmt.Errorf("parse: %w", err)
	}
	check := func() (*sema.Checker, error) {
		checker, err := sema.NewChecker(ast, location, nil, &sema.Config{
			AccessCheckMode:            sema.AccessCheckModeNotSpecifiedUnrestricted,
			ExtendedElaborationEnabled: true,
			BaseValueActivationHandler: cdcBaseActivation,
		})
		if err != nil {
			return nil, err
		}
		return checker, checker.Check()
	}
	checker, err := check()
	if err != nil {
		return nil, "", fmt.Errorf("check: %w", err)
	}
	comp := compiler.NewInstructionCompilerWithConfig(interpreter.ProgramFromChecker(checker), location, &compiler.Config{})
	prog = comp.Compile()
	if !withDump {
		return prog, "", nil
	}
	var sb strings.Builder
	sb.WriteString(bbq.NewInstructionsProgramPrinter(true, false, false).PrintProgram(prog))
	sb.WriteString("\n#functions\n")
	for i, f := range prog.Functions {
		fmt.Fprintf(&sb, "%d %s %s params=%d locals=%d code=%d\n", i, f.Name, f.QualifiedName, f.ParameterCount, f.LocalCount, len(f.Code))
	}
	sb.WriteString("#constants\n")
	for i, k := range prog.Constants {
		fmt.Fprintf(&sb, "%d %s %s\n", i, k.Kind, k.String())
	}
	sb.WriteString("#types\n")
	for i, t := range prog.Types {
		fmt.Fprintf(&sb, "%d %s\n", i, t.ID())
	}
	sb.WriteString("#globals\n")
	for i, g := range prog.Globals {
		gi := g.GetGlobalInfo()
		fmt.Fprintf(&sb, "%d %s %s %d %T\n", i, gi.Name, gi.QualifiedName, gi.Index, g)
	}
	sb.WriteString("#contracts\n")
	for i, ct := range prog.Contracts {
		fmt.Fprintf(&sb, "%d %s\n", i, ct.Name)
	}
	// bytecode compiler on a fresh checker (the compiler extends the elaboration).  The byte-code
	// type generator cannot encode every static type (e.g. function types): such a failure is part
	// of the dump (it must be reproducible too).
	bytecode := func(title string, cfg *compiler.Config) {
		sb.WriteString(title + "\n")
		defer func() {
			if r := recover(); r != nil {
				fmt.Fprintf(&sb, "unavailable: %v\n", r)
			}
		}()
		checker2, err := check()
		if err != nil {
			sb.WriteString("unavailable: check failed\n")
			return
		}
		bprog := compiler.NewBytecodeCompiler(interpreter.ProgramFromChecker(checker2), location, cfg).Compile()
		for i, f := range bprog.Functions {
			fmt.Fprintf(&sb, "%d %s %s\n", i, f.QualifiedName, hex.EncodeToString(f.Code))
		}
		for i, t := range bprog.Types {
			fmt.Fprintf(&sb, "t%d %s\n", i, hex.EncodeToString(t))
		}
	}
	bytecode("#bytecode", &compiler.Config{})
	bytecode("#bytecode-peephole", &compiler.Config{PeepholeOptimizationsEnabled: true})
	// instruction compiler with peephole optimisation
	func() {
		sb.WriteString("#instructions-peephole\n")
		defer func() {
			if r := recover(); r != nil {
				fmt.Fprintf(&sb, "unavailable: %v\n", r)
			}
		}()
		checker3, err := check()
		if err != nil {
			return
		}
		oprog := compiler.NewInstructionCompilerWithConfig(interpreter.ProgramFromChecker(checker3), location,
			&compiler.Config{PeepholeOptimizationsEnabled: true}).Compile()
		sb.WriteString(bbq.NewInstructionsProgramPrinter(false, false, false).PrintProgram(oprog))
	}()
	return prog, sb.String(), nil
}

func genCompileDet(c *hx.Ctx) {
	for i := 0; i < c.N; i++ {
		c.Emit("compiledet", genCdcProgram(c.Rng.Fork()))
	}
}

func dumpHash(d string) string {
	h := sha256.Sum256([]byte(d))
	return hex.EncodeToString(h[:8])
}

func firstDiffLine(a, b string) string {
	la, lb := strings.Split(a, "\n"), strings.Split(b, "\n")
	for i := 0; i < len(la) && i < len(lb); i++ {
		if la[i] != lb[i] {
			return fmt.Sprintf("line %d: %q vs %q", i, la[i], lb[i])
		}
	}
	return fmt.Sprintf("length %d vs %d lines", len(la), len(lb))
}

func execCompileDet(op []string) string {
	if len(op) < 2 || op[0] != "compiledet" {
		return "not-this-stream"
	}
	src := strings.ReplaceAll(op[1], "\\n", "\n")
	_, first, err := compileCdc(src, true)
	if err != nil {
		msg := err.Error()
		if os.Getenv("VERIF_DEBUG") != "" {
			fmt.Fprintln(os.Stderr, "compiledet:", msg)
		}
		if strings.HasPrefix(msg, "panic") {
			return "compile-panic"
		}
		return "rejected:" + strings.SplitN(msg, ":", 2)[0]
	}
	h := dumpHash(first)
	if os.Getenv("VERIF_COMPILEDET_CHILD") != "" {
		return "hash:" + h
	}
	reps := 4
	for i := 0; i < reps; i++ {
		_, next, err := compileCdc(src, true)
		if err != nil {
			return "differ:repetition " + strconv.Itoa(i) + " failed"
		}
		if next != first {
			return "differ:in-process repetition " + strconv.Itoa(i) + " " + hx.Clean(firstDiffLine(first, next))
		}
	}
	// one fresh process
	if os.Getenv("VERIF_COMPILEDET_NOFORK") == "" {
		tmp, err := os.CreateTemp("", "compiledet-*.txt")
		if err == nil {
			defer os.Remove(tmp.Name())
			fmt.Fprintf(tmp, "compiledet\t%s\n", hx.Clean(op[1]))
			tmp.Close()
			cmd := exec.Command(os.Args[0], "compiledet", "--replay", tmp.Name(), "--workers", "1")
			cmd.Env = append(os.Environ(), "VERIF_COMPILEDET_CHILD=1")
			var out bytes.Buffer
			cmd.Stdout = &out
			done := make(chan error, 1)
			if err := cmd.Start(); err == nil {
				go func() { done <- cmd.Wait() }()
				select {
				case <-done:
				case <-time.After(60 * time.Second):
					_ = cmd.Process.Kill()
					return "differ:fresh process timed out"
				}
				childHash := ""
				sc := bufio.NewScanner(&out)
				sc.Buffer(make([]byte, 1<<20), 1<<26)
				for sc.Scan() {
					line := sc.Text()
					if i := strings.LastIndex(line, "\t=>\t"); i >= 0 {
						childHash = line[i+4:]
					}
				}
				if childHash != "hash:"+h {
					return "differ:fresh process " + hx.Clean(childHash) + " vs hash:" + h
				}
				return "same:" + h + ":fresh"
			}
		}
	}
	return "same:" + h
}
