package main

// Stream `compiledet` (property C35): generated Cadence programs, each compiled repeatedly
// (instruction compiler, bytecode compiler, bytecode compiler with peephole optimisation; several
// times in this process and once in a fresh process); the printed programs, function order,
// constants, types, globals and byte code must be identical.  `compileCdc` is also used by the
// `instr` stream (instruction sequences of compiled programs).
//
// Multi-program scenarios (`compiledet multi <name> <src> <name> <src> ...`, see genCdcMulti): several
// programs at address 0x1 in dependency order — leaf contracts with enums / functions, interface
// programs importing several of them (separate import statements) whose functions carry pre / post
// conditions that use the imported contracts, and a last program (the target) with concrete types that
// inherit those conditions.  The whole set is compiled (import handler, elaboration resolver and
// location handler backed by the programs compiled so far, as in bbq/test_utils), then the target is
// recompiled 40 times against the same compiled dependencies (Go visits a two-entry map in the other
// order only once in eight ranges: 40 repetitions catch a two-import order flip with probability 0.995) and the whole set 3 more times from
// scratch, plus once in a fresh process; printed program (resolved and unresolved operands), imports,
// globals, constants, types, functions and byte code must be identical every time.

import (
	"bufio"
	"bytes"
	"crypto/sha256"
	"encoding/hex"
	"fmt"
	"os"
	"os/exec"
	"strconv"
	"strings"
	"time"

	"github.com/onflow/cadence/ast"
	"github.com/onflow/cadence/bbq"
	"github.com/onflow/cadence/bbq/compiler"
	"github.com/onflow/cadence/common"
	"github.com/onflow/cadence/interpreter"
	"github.com/onflow/cadence/parser"
	"github.com/onflow/cadence/sema"
	"github.com/onflow/cadence/stdlib"

	"verif/harness/internal/hx"
)

func init() {
	hx.Register(&hx.Stream{Name: "compiledet", Gen: genCompileDet, Exec: execCompileDet, Parallel: true,
		Timeout: 120 * time.Second})
}


func cdcBaseActivation(common.Location) *sema.VariableActivation {
	activation := sema.NewVariableActivation(sema.BaseValueActivation)
	activation.DeclareValue(stdlib.VMPanicFunction)
	activation.DeclareValue(stdlib.VMAssertFunction)
	return activation
}

// compileCdc parses, checks and compiles; returns the instruction program and a canonical dump
// (printed instruction program + printed bytecode program + explicit tables).
func compileCdc(src string, withDump bool) (prog *bbq.InstructionProgram, dump string, err error) {
	defer func() {
		if r := recover(); r != nil {
			err = fmt.Errorf("panic: %v", r)
		}
	}()
	location := common.StringLocation("verif")
	parsed, err := parser.ParseProgram(nil, []byte(src), parser.Config{})
	if err != nil {
		return nil, "", fmt.Errorf("parse: %w", err)
	}
	check := func() (*sema.Checker, error) {
		checker, err := sema.NewChecker(parsed, location, nil, &sema.Config{
			AccessCheckMode:            sema.AccessCheckModeNotSpecifiedUnrestricted,
			ExtendedElaborationEnabled: true,
			BaseValueActivationHandler: cdcBaseActivation,
		})
		if err != nil {
			return nil, err
		}
		return checker, checker.Check()
	}
	checker, err := check()
	if err != nil {
		return nil, "", fmt.Errorf("check: %w", err)
	}
	comp := compiler.NewInstructionCompilerWithConfig(interpreter.ProgramFromChecker(checker), location, &compiler.Config{})
	prog = comp.Compile()
	if !withDump {
		return prog, "", nil
	}
	var sb strings.Builder
	sb.WriteString(bbq.NewInstructionsProgramPrinter(true, false, false).PrintProgram(prog))
	sb.WriteString("\n#functions\n")
	for i, f := range prog.Functions {
		fmt.Fprintf(&sb, "%d %s %s params=%d locals=%d code=%d\n", i, f.Name, f.QualifiedName, f.ParameterCount, f.LocalCount, len(f.Code))
	}
	sb.WriteString("#constants\n")
	for i, k := range prog.Constants {
		fmt.Fprintf(&sb, "%d %s %s\n", i, k.Kind, k.String())
	}
	sb.WriteString("#types\n")
	for i, t := range prog.Types {
		fmt.Fprintf(&sb, "%d %s\n", i, t.ID())
	}
	sb.WriteString("#globals\n")
	for i, g := range prog.Globals {
		gi := g.GetGlobalInfo()
		fmt.Fprintf(&sb, "%d %s %s %d %T\n", i, gi.Name, gi.QualifiedName, gi.Index, g)
	}
	sb.WriteString("#contracts\n")
	for i, ct := range prog.Contracts {
		fmt.Fprintf(&sb, "%d %s\n", i, ct.Name)
	}
	// bytecode compiler on a fresh checker (the compiler extends the elaboration).  The byte-code
	// type generator cannot encode every static type (e.g. function types): such a failure is part
	// of the dump (it must be reproducible too).
	bytecode := func(title string, cfg *compiler.Config) {
		sb.WriteString(title + "\n")
		defer func() {
			if r := recover(); r != nil {
				fmt.Fprintf(&sb, "unavailable: %v\n", r)
			}
		}()
		checker2, err := check()
		if err != nil {
			sb.WriteString("unavailable: check failed\n")
			return
		}
		bprog := compiler.NewBytecodeCompiler(interpreter.ProgramFromChecker(checker2), location, cfg).Compile()
		for i, f := range bprog.Functions {
			fmt.Fprintf(&sb, "%d %s %s\n", i, f.QualifiedName, hex.EncodeToString(f.Code))
		}
		for i, t := range bprog.Types {
			fmt.Fprintf(&sb, "t%d %s\n", i, hex.EncodeToString(t))
		}
	}
	bytecode("#bytecode", &compiler.Config{})
	bytecode("#bytecode-peephole", &compiler.Config{PeepholeOptimizationsEnabled: true})
	// instruction compiler with peephole optimisation
	func() {
		sb.WriteString("#instructions-peephole\n")
		defer func() {
			if r := recover(); r != nil {
				fmt.Fprintf(&sb, "unavailable: %v\n", r)
			}
		}()
		checker3, err := check()
		if err != nil {
			return
		}
		oprog := compiler.NewInstructionCompilerWithConfig(interpreter.ProgramFromChecker(checker3), location,
			&compiler.Config{PeepholeOptimizationsEnabled: true}).Compile()
		sb.WriteString(bbq.NewInstructionsProgramPrinter(false, false, false).PrintProgram(oprog))
	}()
	return prog, sb.String(), nil
}

func genCompileDet(c *hx.Ctx) {
	// multi-program scenarios first: the directed shape (two enum contracts, an interface program
	// importing both with a pre-condition using them, an implementation in a fourth program), then
	// random ones
	nMulti := 12
	if c.Thorough() {
		nMulti = c.N / 4
	}
	for i := 0; i < nMulti; i++ {
		c.Emit(append([]string{"compiledet", "multi"}, genCdcMulti(c.Rng.Fork(), i < 2)...)...)
	}
	for i := 0; i < c.N; i++ {
		c.Emit("compiledet", genCdcProgram(c.Rng.Fork()))
	}
}

// ---- multi-program compilation

type cdcCompiled struct {
	program     *bbq.InstructionProgram
	elaboration *compiler.DesugaredElaboration
}

var cdcMultiAddress = common.MustBytesToAddress([]byte{1})

func cdcMultiLocationHandler(identifiers []ast.Identifier, location common.Location) ([]sema.ResolvedLocation, error) {
	addressLocation, ok := location.(common.AddressLocation)
	if !ok {
		return []sema.ResolvedLocation{{Location: location, Identifiers: identifiers}}, nil
	}
	var out []sema.ResolvedLocation
	for _, identifier := range identifiers {
		out = append(out, sema.ResolvedLocation{
			Location:    common.AddressLocation{Address: addressLocation.Address, Name: identifier.Identifier},
			Identifiers: []ast.Identifier{identifier},
		})
	}
	return out, nil
}

// cdcCompileOne parses, checks and compiles one program of a set against the programs compiled so
// far and returns its canonical dump.
func cdcCompileOne(name, src string, programs map[common.Location]*cdcCompiled, register bool, withBytecode bool) (dump string, err error) {
	defer func() {
		if r := recover(); r != nil {
			err = fmt.Errorf("panic: %v", r)
		}
	}()
	location := common.AddressLocation{Address: cdcMultiAddress, Name: name}
	program, err := parser.ParseProgram(nil, []byte(src), parser.Config{})
	if err != nil {
		return "", fmt.Errorf("parse: %w", err)
	}
	check := func() (*sema.Checker, error) {
		checker, err := sema.NewChecker(program, location, nil, &sema.Config{
			AccessCheckMode:            sema.AccessCheckModeNotSpecifiedUnrestricted,
			ExtendedElaborationEnabled: true,
			BaseValueActivationHandler: cdcBaseActivation,
			LocationHandler:            cdcMultiLocationHandler,
			ImportHandler: func(_ *sema.Checker, location common.Location, _ ast.Range) (sema.Import, error) {
				imported, ok := programs[location]
				if !ok {
					return nil, fmt.Errorf("cannot find contract in location %s", location)
				}
				return sema.ElaborationImport{Elaboration: imported.elaboration.OriginalElaboration()}, nil
			},
		})
		if err != nil {
			return nil, err
		}
		return checker, checker.Check()
	}
	config := func(peephole bool) *compiler.Config {
		return &compiler.Config{
			LocationHandler: cdcMultiLocationHandler,
			ImportHandler: func(location common.Location) *bbq.InstructionProgram {
				imported, ok := programs[location]
				if !ok {
					return nil
				}
				return imported.program
			},
			ElaborationResolver: func(location common.Location) (*compiler.DesugaredElaboration, error) {
				imported, ok := programs[location]
				if !ok {
					return nil, fmt.Errorf("cannot find elaboration for %s", location)
				}
				return imported.elaboration, nil
			},
			PeepholeOptimizationsEnabled: peephole,
		}
	}
	checker, err := check()
	if err != nil {
		return "", fmt.Errorf("check: %w", err)
	}
	comp := compiler.NewInstructionCompilerWithConfig(interpreter.ProgramFromChecker(checker), location, config(false))
	prog := comp.Compile()
	if register {
		programs[location] = &cdcCompiled{program: prog, elaboration: comp.DesugaredElaboration}
	}
	var sb strings.Builder
	fmt.Fprintf(&sb, "##### program %s\n", name)
	sb.WriteString(bbq.NewInstructionsProgramPrinter(false, false, false).PrintProgram(prog))
	sb.WriteString("\n#resolved\n")
	sb.WriteString(bbq.NewInstructionsProgramPrinter(true, false, false).PrintProgram(prog))
	sb.WriteString("\n#imports\n")
	for i, im := range prog.Imports {
		loc := "nil"
		if im.Location != nil {
			loc = im.Location.ID()
		}
		fmt.Fprintf(&sb, "%d %s %s\n", i, loc, im.Name)
	}
	sb.WriteString("#functions\n")
	for i, f := range prog.Functions {
		fmt.Fprintf(&sb, "%d %s %s params=%d locals=%d code=%d\n", i, f.Name, f.QualifiedName, f.ParameterCount, f.LocalCount, len(f.Code))
	}
	sb.WriteString("#constants\n")
	for i, k := range prog.Constants {
		fmt.Fprintf(&sb, "%d %s %s\n", i, k.Kind, k.String())
	}
	sb.WriteString("#types\n")
	for i, t := range prog.Types {
		fmt.Fprintf(&sb, "%d %s\n", i, t.ID())
	}
	sb.WriteString("#globals\n")
	for i, g := range prog.Globals {
		gi := g.GetGlobalInfo()
		loc := "nil"
		if gi.Location != nil {
			loc = gi.Location.ID()
		}
		fmt.Fprintf(&sb, "%d %s %s %s %d %T\n", i, loc, gi.Name, gi.QualifiedName, gi.Index, g)
	}
	sb.WriteString("#contracts\n")
	for i, ct := range prog.Contracts {
		fmt.Fprintf(&sb, "%d %s\n", i, ct.Name)
	}
	// byte code of the same program (fresh checker: the compiler extends the elaboration)
	for _, peephole := range []bool{false, true} {
		if !withBytecode {
			break
		}
		func() {
			fmt.Fprintf(&sb, "#bytecode peephole=%v\n", peephole)
			defer func() {
				if r := recover(); r != nil {
					fmt.Fprintf(&sb, "unavailable: %v\n", r)
				}
			}()
			checker2, err := check()
			if err != nil {
				sb.WriteString("unavailable: check failed\n")
				return
			}
			bprog := compiler.NewBytecodeCompiler(interpreter.ProgramFromChecker(checker2), location, config(peephole)).Compile()
			for i, f := range bprog.Functions {
				fmt.Fprintf(&sb, "%d %s %s\n", i, f.QualifiedName, hex.EncodeToString(f.Code))
			}
			for i, t := range bprog.Types {
				fmt.Fprintf(&sb, "t%d %s\n", i, hex.EncodeToString(t))
			}
			for i, im := range bprog.Imports {
				fmt.Fprintf(&sb, "i%d %s\n", i, im.Name)
			}
			for i, g := range bprog.Globals {
				gi := g.GetGlobalInfo()
				fmt.Fprintf(&sb, "g%d %s %d\n", i, gi.QualifiedName, gi.Index)
			}
		}()
	}
	return sb.String(), nil
}

// cdcCompileSet compiles all programs (name, source pairs, dependency order) from scratch.
func cdcCompileSet(pairs []string) (dump string, programs map[common.Location]*cdcCompiled, err error) {
	programs = map[common.Location]*cdcCompiled{}
	var sb strings.Builder
	for i := 0; i+1 < len(pairs); i += 2 {
		d, err := cdcCompileOne(pairs[i], strings.ReplaceAll(pairs[i+1], "\\n", "\n"), programs, true, true)
		if err != nil {
			return "", nil, fmt.Errorf("%s: %w", pairs[i], err)
		}
		sb.WriteString(d)
	}
	return sb.String(), programs, nil
}

const cdcMultiTargetReps = 40
const cdcMultiSetReps = 3
const cdcMultiBytecodeReps = 6
const cdcBytecodeMarker = "#bytecode peephole=false\n"

func execCompileDetMulti(op []string) string {
	pairs := op[2:]
	if len(pairs) < 2 || len(pairs)%2 != 0 {
		return "bad-op"
	}
	first, programs, err := cdcCompileSet(pairs)
	if err != nil {
		msg := err.Error()
		if os.Getenv("VERIF_DEBUG") != "" {
			fmt.Fprintln(os.Stderr, "compiledet multi:", msg)
		}
		if strings.Contains(msg, "panic") {
			return "compile-panic"
		}
		parts := strings.SplitN(msg, ":", 3)
		if len(parts) >= 2 {
			return "rejected:" + strings.TrimSpace(parts[1])
		}
		return "rejected:" + msg
	}
	h := dumpHash(first)
	if os.Getenv("VERIF_COMPILEDET_CHILD") != "" {
		return "hash:" + h
	}
	// the target again and again, against the same compiled dependencies
	targetName, targetSrc := pairs[len(pairs)-2], strings.ReplaceAll(pairs[len(pairs)-1], "\\n", "\n")
	marker := "##### program " + targetName + "\n"
	firstTarget := first[strings.LastIndex(first, marker):]
	// (byte code compilers in the first cdcMultiBytecodeReps repetitions only; afterwards the instruction
	// program with all its tables)
	firstInstr := firstTarget
	if j := strings.Index(firstTarget, cdcBytecodeMarker); j >= 0 {
		firstInstr = firstTarget[:j]
	}
	for i := 0; i < cdcMultiTargetReps; i++ {
		withBytecode := i < cdcMultiBytecodeReps
		next, err := cdcCompileOne(targetName, targetSrc, programs, false, withBytecode)
		if err != nil {
			return "differ:target repetition " + strconv.Itoa(i) + " failed"
		}
		want := firstTarget
		if !withBytecode {
			want = firstInstr
		}
		if next != want {
			return "differ:target " + targetName + " repetition " + strconv.Itoa(i) + " " + hx.Clean(firstDiffLine(want, next))
		}
	}
	// the whole set from scratch
	for i := 0; i < cdcMultiSetReps; i++ {
		next, _, err := cdcCompileSet(pairs)
		if err != nil {
			return "differ:set repetition " + strconv.Itoa(i) + " failed"
		}
		if next != first {
			return "differ:set repetition " + strconv.Itoa(i) + " " + hx.Clean(firstDiffLine(first, next))
		}
	}
	return cdcFreshProcess(op, h)
}

func dumpHash(d string) string {
	h := sha256.Sum256([]byte(d))
	return hex.EncodeToString(h[:8])
}

func firstDiffLine(a, b string) string {
	la, lb := strings.Split(a, "\n"), strings.Split(b, "\n")
	for i := 0; i < len(la) && i < len(lb); i++ {
		if la[i] != lb[i] {
			return fmt.Sprintf("line %d: %q vs %q", i, la[i], lb[i])
		}
	}
	return fmt.Sprintf("length %d vs %d lines", len(la), len(lb))
}

func execCompileDet(op []string) string {
	if len(op) < 2 || op[0] != "compiledet" {
		return "not-this-stream"
	}
	if op[1] == "multi" {
		return execCompileDetMulti(op)
	}
	src := strings.ReplaceAll(op[1], "\\n", "\n")
	_, first, err := compileCdc(src, true)
	if err != nil {
		msg := err.Error()
		if os.Getenv("VERIF_DEBUG") != "" {
			fmt.Fprintln(os.Stderr, "compiledet:", msg)
		}
		if strings.HasPrefix(msg, "panic") {
			return "compile-panic"
		}
		return "rejected:" + strings.SplitN(msg, ":", 2)[0]
	}
	h := dumpHash(first)
	if os.Getenv("VERIF_COMPILEDET_CHILD") != "" {
		return "hash:" + h
	}
	reps := 4
	for i := 0; i < reps; i++ {
		_, next, err := compileCdc(src, true)
		if err != nil {
			return "differ:repetition " + strconv.Itoa(i) + " failed"
		}
		if next != first {
			return "differ:in-process repetition " + strconv.Itoa(i) + " " + hx.Clean(firstDiffLine(first, next))
		}
	}
	return cdcFreshProcess(op, h)
}

// cdcFreshProcess replays the op in a fresh process and compares the hash of its first dump with h.
func cdcFreshProcess(op []string, h string) string {
	// one fresh process
	if os.Getenv("VERIF_COMPILEDET_NOFORK") == "" {
		tmp, err := os.CreateTemp("", "compiledet-*.txt")
		if err == nil {
			defer os.Remove(tmp.Name())
			cleaned := make([]string, len(op))
			for i, f := range op {
				cleaned[i] = hx.Clean(f)
			}
			fmt.Fprintf(tmp, "%s\n", strings.Join(cleaned, "\t"))
			tmp.Close()
			cmd := exec.Command(os.Args[0], "compiledet", "--replay", tmp.Name(), "--workers", "1")
			cmd.Env = append(os.Environ(), "VERIF_COMPILEDET_CHILD=1")
			var out bytes.Buffer
			cmd.Stdout = &out
			done := make(chan error, 1)
			if err := cmd.Start(); err == nil {
				go func() { done <- cmd.Wait() }()
				select {
				case <-done:
				case <-time.After(60 * time.Second):
					_ = cmd.Process.Kill()
					return "differ:fresh process timed out"
				}
				childHash := ""
				sc := bufio.NewScanner(&out)
				sc.Buffer(make([]byte, 1<<20), 1<<26)
				for sc.Scan() {
					line := sc.Text()
					if i := strings.LastIndex(line, "\t=>\t"); i >= 0 {
						childHash = line[i+4:]
					}
				}
				if childHash != "hash:"+h {
					return "differ:fresh process " + hx.Clean(childHash) + " vs hash:" + h
				}
				return "same:" + h + ":fresh"
			}
		}
	}
	return "same:" + h
}
