package main

// Stream `text` (property C17): textual and byte encodings of numbers.  Operations
//   text ts|rts|tb|rtb <mode> <Type> <raw>      toString / fromString(toString) / toBigEndianBytes / round trip
//   text fs <mode> <Type> <hex of the string>   T.fromString
//   text fb <mode> <Type> <hex of the bytes>    T.fromBigEndianBytes
// mode d = Go functions directly (Value.String, interpreter.StringValueParsers, NumberValue.ToBigEndianBytes,
// interpreter.BigEndianBytesConverters with the length check of NativeFromBigEndianBytesFunction),
// si / sv = Cadence script in the interpreter / VM.
// Results: s:<hex> | b:<hex> | nil | ok:<raw> | err-<class>:<kind> | panic.

import (
	"fmt"
	"math/big"
	"strings"

	"github.com/onflow/cadence"
	"github.com/onflow/cadence/interpreter"

	"verif/harness/internal/cdc"
	"verif/harness/internal/hx"
	"verif/harness/internal/numv"
)

func init() {
	hx.Register(&hx.Stream{Name: "text", Gen: genText, Exec: execText, Parallel: true})
}

// boundary-biased raw values of a type
func textValues(t numv.Info, r *hx.Rng, random int) []*big.Int {
	var out []*big.Int
	add := func(x *big.Int) { out = append(out, x) }
	f := numv.Pow10(t.Scale)
	for _, b := range []*big.Int{t.Min(), t.Max(), bi(0)} {
		if b == nil {
			continue
		}
		for _, d := range []*big.Int{bi(0), bi(1), bi(-1), f, new(big.Int).Neg(f), bi(10), bi(-10)} {
			add(new(big.Int).Add(b, d))
		}
	}
	for _, k := range []uint{7, 8, 15, 16, 31, 32, 63, 64, 127, 128, 255, 256, 300} {
		p := new(big.Int).Lsh(bi(1), k)
		for _, d := range []int64{-1, 0, 1} {
			add(new(big.Int).Add(p, bi(d)))
			add(new(big.Int).Neg(new(big.Int).Add(p, bi(d))))
		}
	}
	if t.Fixed {
		for _, s := range []string{"5", "-5", "15", "-15", "100000001", "-100000001", "10", "-10", "-1", "1"} {
			x, _ := new(big.Int).SetString(s, 10)
			add(new(big.Int).Quo(new(big.Int).Mul(x, f), bi(10)))
			add(x)
		}
	}
	for i := 0; i < random; i++ {
		add(convRandom(t, r))
	}
	seen := map[string]bool{}
	var res []*big.Int
	for _, x := range out {
		if !t.InRange(x) || seen[x.String()] {
			continue
		}
		seen[x.String()] = true
		res = append(res, x)
	}
	return res
}

// strings: literals of the grammar and perturbations
func textStrings(t numv.Info, r *hx.Rng, n int) []string {
	var out []string
	base := []string{"", "0", "1", "-0", "+0", "-1", "+1", "00", "007", "-007", "+007", "1_000", "1 ", " 1", "1\n", "\t1",
		"0x10", "1e3", "+", "-", "--1", "+-1", "-+1", "++1", "1-", "1+", ".", "1.", ".1", "0.1", "-0.1", "+0.1", "1.0", "-1.0", "+1.0",
		"1.2.3", "1..2", "1.+5", "1.-5", "-.5", "+.5", "1._5", "1_0.5", "0.0", "-0.0", "+0.0", "00.00", "1.000000000", "1.00000000",
		"0.1234567890123456789012345", "0.123456789012345678901234", "0.000000000000000000000001", "1,5", "１", "1.５", "a", "1a", "NaN", "inf"}
	out = append(out, base...)
	vals := textValues(t, r, 4)
	for _, x := range vals {
		out = append(out, numv.Literal(t.Name, x))
	}
	// just outside the bounds, and short fractions at the bounds' integer parts
	f := numv.Pow10(t.Scale)
	for _, b := range []*big.Int{t.Min(), t.Max()} {
		if b == nil {
			continue
		}
		for _, d := range []int64{1, -1, 2, -2} {
			x := new(big.Int).Add(b, bi(d))
			out = append(out, litAny(t, x))
		}
		out = append(out, litAny(t, new(big.Int).Add(b, f)), litAny(t, new(big.Int).Sub(b, f)))
		if t.Fixed {
			ip := new(big.Int).Quo(b, f).String()
			for _, fr := range []string{"0", "1", "5", "6", "9", "09", "10", "54", "55", "99", "547758", "5477581", "09551615", "0955162", "1", "30371588410572", "3037158841058"} {
				out = append(out, ip+"."+fr)
				if b.Sign() == 0 {
					out = append(out, "-"+ip+"."+fr)
				}
			}
		}
	}
	for i := 0; i < n; i++ {
		var s string
		if len(vals) > 0 && r.Chance(70) {
			s = numv.Literal(t.Name, vals[r.Intn(len(vals))])
		} else {
			s = litAny(t, convRandomWide(r))
		}
		out = append(out, textPerturb(s, r))
	}
	return out
}

func convRandomWide(r *hx.Rng) *big.Int {
	n := 1 + r.Intn(270)
	x := new(big.Int).SetBytes(r.Bytes((n + 7) / 8))
	if r.Bool() {
		x.Neg(x)
	}
	return x
}

// literal of any integer as if it were a raw value of t (possibly out of range)
func litAny(t numv.Info, raw *big.Int) string {
	if !t.Fixed {
		return raw.String()
	}
	neg := raw.Sign() < 0
	abs := new(big.Int).Abs(raw)
	q, rm := new(big.Int).QuoRem(abs, numv.Pow10(t.Scale), new(big.Int))
	fr := rm.String()
	fr = strings.Repeat("0", t.Scale-len(fr)) + fr
	s := q.String() + "." + fr
	if neg {
		s = "-" + s
	}
	return s
}

func textPerturb(s string, r *hx.Rng) string {
	switch r.Intn(14) {
	case 0:
		return "+" + s
	case 1:
		return "-" + s
	case 2: // leading zeros after the sign
		if strings.HasPrefix(s, "-") || strings.HasPrefix(s, "+") {
			return s[:1] + strings.Repeat("0", 1+r.Intn(3)) + s[1:]
		}
		return strings.Repeat("0", 1+r.Intn(3)) + s
	case 3: // underscore
		if len(s) > 1 {
			i := 1 + r.Intn(len(s)-1)
			return s[:i] + "_" + s[i:]
		}
	case 4:
		return s + []string{" ", "\n", "\t", "0", "9", ".", ".0", "e1", "_"}[r.Intn(9)]
	case 5:
		return []string{" ", "\n", "\t", "0x", "_"}[r.Intn(5)] + s
	case 6: // drop trailing zeros / digits of the fraction
		if i := strings.IndexByte(s, '.'); i >= 0 && len(s) > i+2 {
			return s[:i+2+r.Intn(len(s)-i-2)]
		}
	case 7: // excess fractional digits
		if strings.Contains(s, ".") {
			return s + strings.Repeat([]string{"0", "1", "9"}[r.Intn(3)], 1+r.Intn(3))
		}
		return s + ".0"
	case 8: // remove the dot
		return strings.Replace(s, ".", "", 1)
	case 9: // change one character
		if len(s) > 0 {
			i := r.Intn(len(s))
			return s[:i] + string([]byte{"0123456789+-. _a"[r.Intn(16)]}) + s[i+1:]
		}
	case 10: // drop one character
		if len(s) > 0 {
			i := r.Intn(len(s))
			return s[:i] + s[i+1:]
		}
	}
	return s
}

func genText(c *hx.Ctx) {
	// Fork: hx.NewRng(seed) of consecutive seeds yields the same SplitMix64 sequence shifted by one draw,
	// and the generators re-synchronise after a few draws; the forked generator starts from a mixed state.
	r := c.Rng.Fork()
	random := 6
	nstr := 40
	if c.Thorough() {
		random, nstr = 60, 400
	}
	type opT struct{ what, ty, arg string }
	var direct, sample []opT
	for _, tn := range numv.Types {
		t := numv.Of(tn)
		for _, x := range textValues(t, r, random) {
			for _, w := range []string{"ts", "rts", "tb", "rtb"} {
				direct = append(direct, opT{w, tn, x.String()})
			}
		}
		for _, s := range textStrings(t, r, nstr) {
			direct = append(direct, opT{"fs", tn, hx.Hex([]byte(s))})
		}
		// byte arrays of every length 0..size+1 (unbounded: 0..34), patterns
		maxLen := t.ByteSize() + 1
		if t.ByteSize() == 0 {
			maxLen = 34
		}
		for l := 0; l <= maxLen; l++ {
			pats := [][]byte{make([]byte, l), bytesOf(l, 0xff), bytesOf(l, 0x80), bytesOf(l, 0x7f), r.Bytes(l)}
			if l > 0 {
				p := make([]byte, l)
				p[0] = 0x80
				pats = append(pats, p)
				p2 := bytesOf(l, 0xff)
				p2[0] = 0x7f
				pats = append(pats, p2)
				p3 := make([]byte, l)
				p3[l-1] = 1
				pats = append(pats, p3)
			}
			for i, p := range pats {
				o := opT{"fb", tn, hx.Hex(p)}
				direct = append(direct, o)
				if i < 2 || i == 4 {
					sample = append(sample, o) // every length through the scripts as well
				}
			}
		}
	}
	for _, o := range direct {
		c.Emit("text", o.what, "d", o.ty, o.arg)
	}
	for i, o := range sample {
		c.Emit("text", o.what, []string{"si", "sv"}[i%2], o.ty, o.arg)
	}
	for i := 0; i < c.N && len(direct) > 0; i++ {
		o := direct[r.Intn(len(direct))]
		c.Emit("text", o.what, []string{"si", "sv"}[i%2], o.ty, o.arg)
	}
}

func bytesOf(n int, b byte) []byte {
	p := make([]byte, n)
	for i := range p {
		p[i] = b
	}
	return p
}

func textOpt(ty string, v interpreter.Value) string {
	switch o := v.(type) {
	case interpreter.NilValue:
		return "nil"
	case *interpreter.SomeValue:
		tn, raw := numv.Raw(o.InnerValue())
		if tn != ty {
			return "ok-wrongtype:" + tn
		}
		return "ok:" + raw.String()
	}
	return "ok-notoptional"
}

func execText(op []string) (res string) {
	what, mode, ty, arg := op[1], op[2], op[3], op[4]
	t := numv.Of(ty)
	var raw *big.Int
	var data []byte
	switch what {
	case "ts", "rts", "tb", "rtb":
		var ok bool
		raw, ok = new(big.Int).SetString(arg, 10)
		if !ok || !t.InRange(raw) {
			return "bad-op"
		}
	default:
		data = hx.UnHex(arg)
	}
	if mode == "d" {
		defer func() {
			if r := recover(); r != nil {
				res = "panic"
				if e, ok := r.(error); ok {
					cl, kind := cdc.Classify(e)
					if cl == "user" {
						res = "err-user:" + kind
					}
				}
			}
		}()
		switch what {
		case "ts":
			return "s:" + hx.Hex([]byte(numv.Make(ty, raw).String()))
		case "rts":
			s := numv.Make(ty, raw).String()
			return textOpt(ty, interpreter.StringValueParsers[ty].Parser(nil, s))
		case "fs":
			return textOpt(ty, interpreter.StringValueParsers[ty].Parser(nil, string(data)))
		case "tb":
			return "b:" + hx.Hex(numv.Make(ty, raw).(interpreter.NumberValue).ToBigEndianBytes())
		case "rtb", "fb":
			b := data
			if what == "rtb" {
				b = numv.Make(ty, raw).(interpreter.NumberValue).ToBigEndianBytes()
			}
			cv := interpreter.BigEndianBytesConverters[ty]
			// the length check of interpreter.NativeFromBigEndianBytesFunction
			if cv.ByteLength != 0 && uint(len(b)) > cv.ByteLength {
				return "nil"
			}
			v := cv.Converter(nil, append([]byte{}, b...))
			tn, r := numv.Raw(v)
			if tn != ty {
				return "ok-wrongtype:" + tn
			}
			return "ok:" + r.String()
		}
		return "bad-op"
	}
	// scripts
	var code string
	var args [][]byte
	lit := ""
	if raw != nil {
		lit = numv.Literal(ty, raw)
	}
	switch what {
	case "ts":
		code = fmt.Sprintf("access(all) fun main(): String { let x: %s = %s; return x.toString() }", ty, lit)
	case "rts":
		code = fmt.Sprintf("access(all) fun main(): %s? { let x: %s = %s; return %s.fromString(x.toString()) }", ty, ty, lit, ty)
	case "tb":
		code = fmt.Sprintf("access(all) fun main(): [UInt8] { let x: %s = %s; return x.toBigEndianBytes() }", ty, lit)
	case "rtb":
		code = fmt.Sprintf("access(all) fun main(): %s? { let x: %s = %s; return %s.fromBigEndianBytes(x.toBigEndianBytes()) }", ty, ty, lit, ty)
	case "fs":
		code = fmt.Sprintf("access(all) fun main(s: String): %s? { return %s.fromString(s) }", ty, ty)
		str, err := cadence.NewString(string(data))
		if err != nil {
			return "bad-op"
		}
		args = [][]byte{cdc.JSONArg(str)}
	case "fb":
		code = fmt.Sprintf("access(all) fun main(b: [UInt8]): %s? { return %s.fromBigEndianBytes(b) }", ty, ty)
		vals := make([]cadence.Value, len(data))
		for i, b := range data {
			vals[i] = cadence.UInt8(b)
		}
		args = [][]byte{cdc.JSONArg(cadence.NewArray(vals).WithType(cadence.NewVariableSizedArrayType(cadence.UInt8Type)))}
	}
	out := cdc.NewEnv().Script(code, args, mode == "sv")
	if out.Class != "none" {
		return "err-" + out.Class + ":" + out.Kind
	}
	switch what {
	case "ts":
		s, ok := out.Value.(cadence.String)
		if !ok {
			return "ok-wrongtype"
		}
		return "s:" + hx.Hex([]byte(string(s)))
	case "tb":
		return "b:" + hx.Hex(cdcBytes2(out.Value))
	default:
		o, ok := out.Value.(cadence.Optional)
		if !ok {
			return "ok-notoptional"
		}
		if o.Value == nil {
			return "nil"
		}
		if o.Value.Type() == nil || o.Value.Type().ID() != ty {
			return "ok-wrongtype"
		}
		x, ok := numv.ParseLiteral(ty, o.Value.String())
		if !ok {
			return "ok-unparsable:" + o.Value.String()
		}
		return "ok:" + x.String()
	}
}

func cdcBytes2(v cadence.Value) []byte {
	arr, ok := v.(cadence.Array)
	if !ok {
		return nil
	}
	b := make([]byte, len(arr.Values))
	for i, x := range arr.Values {
		b[i] = byte(x.(cadence.UInt8))
	}
	return b
}
