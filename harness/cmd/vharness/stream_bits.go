package main

// Stream `bits` (property C14): & | ^ << >> of the 20 integer value types, called directly on
// interpreter values and, for a sample, through Cadence scripts in both engines.  Uses the helpers of
// stream_num.go (numTypeTable, numExec, numBoundary): list stream_num.go in PROP["harness_files"].
//
// Line:  bits <Type> <Method> <a> <b|*> [interp|vm]  =>  ok:<n> | err:<kind> | panic   (comma list for `*`)
// Exhaustive for Int8 / UInt8 / Word8: every operand pair for & | ^ and every shift amount of the type
// (for Int8 that includes every negative one) — one line per (type, method, a), `*` = all b ascending.
// Wider types: boundary-biased operand pairs; shift amounts 0..n+1, 2^63±1, 2^64±1, max T, random.
// Int / UInt shift amounts are kept ≤ 4096 or ≥ 2^64 (a shift by 2^63 bits is a memory-exhaustion
// question, not an arithmetic one: metering, C30/C32).

import (
	"fmt"
	"math/big"

	"verif/harness/internal/hx"
)

func init() {
	hx.Register(&hx.Stream{Name: "bits", Gen: genBits, Exec: numExec, Parallel: true})
}

var bitsOps = []string{"BitwiseAnd", "BitwiseOr", "BitwiseXor"}
var bitsShifts = []string{"BitwiseLeftShift", "BitwiseRightShift"}

// shift amounts of interest for type t (only those that are values of t)
func bitsShiftAmounts(r *hx.Rng, t numType) []*big.Int {
	var out []*big.Int
	add := func(x *big.Int) {
		if !t.inRange(x) {
			return
		}
		if t.bits == 0 && x.Sign() > 0 && x.BitLen() > 13 && x.BitLen() <= 64 { // Int / UInt: see header
			return
		}
		out = append(out, x)
	}
	n := t.bits
	if n == 0 {
		n = 300
	}
	for k := 0; k <= n+1; k++ {
		add(big.NewInt(int64(k)))
	}
	pow := func(k uint) *big.Int { return new(big.Int).Lsh(big.NewInt(1), k) }
	for _, p := range []uint{63, 64} {
		for d := int64(-1); d <= 1; d++ {
			add(new(big.Int).Add(pow(p), big.NewInt(d)))
		}
	}
	if h := t.hi(); h != nil {
		add(h)
		add(new(big.Int).Sub(h, big.NewInt(1)))
	} else {
		add(pow(200))
	}
	if l := t.lo(); l != nil && l.Sign() < 0 {
		add(l)
	}
	add(big.NewInt(-1))
	add(big.NewInt(-int64(r.Intn(100)) - 2))
	return out
}

func genBits(c *hx.Ctx) {
	r := c.Rng
	// 1. exhaustive 8-bit
	for _, tn := range []string{"Int8", "UInt8", "Word8"} {
		t, _ := numTypeByName(tn)
		lo, hi := int(t.lo().Int64()), int(t.hi().Int64())
		for a := lo; a <= hi; a++ {
			for _, op := range bitsOps {
				c.Emit("bits", tn, op, fmt.Sprint(a), "*")
			}
			for _, op := range bitsShifts {
				c.Emit("bits", tn, op, fmt.Sprint(a), "*")
			}
		}
	}
	// 2. wider types: c.N operand pairs per type for & | ^, and c.N (a, shift) pairs
	for _, t := range numTypeTable {
		if t.bits == 8 {
			continue
		}
		amounts := bitsShiftAmounts(r, t)
		for i := 0; i < c.N; i++ {
			a, b := numBoundary(r, t), numBoundary(r, t)
			for _, op := range bitsOps {
				c.Emit("bits", t.name, op, a.String(), b.String())
			}
		}
		// every listed amount once with a boundary operand of each sign, then random pairs
		for _, k := range amounts {
			a := numBoundary(r, t)
			for _, op := range bitsShifts {
				c.Emit("bits", t.name, op, a.String(), k.String())
			}
		}
		for i := 0; i < c.N; i++ {
			a := numBoundary(r, t)
			var k *big.Int
			if r.Chance(75) {
				k = amounts[r.Intn(len(amounts))]
			} else {
				k = numBoundary(r, t)
				if t.bits == 0 && k.Sign() > 0 && k.BitLen() > 13 && k.BitLen() <= 64 {
					k = big.NewInt(int64(r.Intn(4096)))
				}
			}
			for _, op := range bitsShifts {
				c.Emit("bits", t.name, op, a.String(), k.String())
			}
		}
	}
	// 3. whole-pipeline sample: scripts in both engines
	nScripts := c.N / 2
	if nScripts > 400 {
		nScripts = 400
	}
	for i := 0; i < nScripts; i++ {
		t := numTypeTable[r.Intn(len(numTypeTable))]
		a := numBoundary(r, t)
		eng := []string{"interp", "vm"}[i%2]
		if r.Bool() {
			c.Emit("bits", t.name, bitsOps[r.Intn(3)], a.String(), numBoundary(r, t).String(), eng)
		} else {
			am := bitsShiftAmounts(r, t)
			c.Emit("bits", t.name, bitsShifts[r.Intn(2)], a.String(), am[r.Intn(len(am))].String(), eng)
		}
	}
}
