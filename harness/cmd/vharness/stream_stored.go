package main

// Stream `stored` (property C44): the storage codec of interpreter/encode.go + decode.go.
//
// ops (values and types travel as S-expressions, see storedRender* below):
//   stored val <sexpr>            build the storable, Encode, DecodeStorable, re-Encode
//   stored type <sexpr>           StaticTypeToBytes, StaticTypeFromBytes, re-encode
//   stored dec <hex>              DecodeStorable of arbitrary bytes, re-Encode
//   stored dectype <hex>          StaticTypeFromBytes of arbitrary bytes, re-encode
//   stored golden <hex> <sexpr>   bytes written by the pinned tree and what they meant: decode, re-encode
//   stored goldentype <hex> <sexpr>
// observation: ok:<bytes>:<decoded>:<same|re-encoded bytes>:<bytes consumed>  (val, type)
//              ok:<decoded>:<same|re-encoded bytes>:<bytes consumed>          (dec, dectype, golden*)
//              encerr | decerr:<bytes> | err | reencerr:…

import (
	"bytes"
	"encoding/hex"
	"fmt"
	"math/big"
	"strconv"
	"strings"

	"github.com/onflow/atree"
	fix "github.com/onflow/fixed-point"

	"github.com/onflow/cadence/common"
	"github.com/onflow/cadence/interpreter"
	"github.com/onflow/cadence/sema"
	"github.com/onflow/cadence/values"

	"verif/harness/internal/hx"
)

func init() {
	hx.Register(&hx.Stream{Name: "stored", Gen: genStored, Exec: execStored, Parallel: true})
}

// ---------------------------------------------------------------- S-expressions

type sxNode struct {
	Atom string
	List []*sxNode
	IsL  bool
}

func sxParse(s string) (*sxNode, error) {
	pos := 0
	var parse func() (*sxNode, error)
	skip := func() {
		for pos < len(s) && s[pos] == ' ' {
			pos++
		}
	}
	parse = func() (*sxNode, error) {
		skip()
		if pos >= len(s) {
			return nil, fmt.Errorf("unexpected end")
		}
		if s[pos] == '(' {
			pos++
			n := &sxNode{IsL: true}
			for {
				skip()
				if pos >= len(s) {
					return nil, fmt.Errorf("unclosed list")
				}
				if s[pos] == ')' {
					pos++
					return n, nil
				}
				c, err := parse()
				if err != nil {
					return nil, err
				}
				n.List = append(n.List, c)
			}
		}
		if s[pos] == ')' {
			return nil, fmt.Errorf("unexpected )")
		}
		st := pos
		for pos < len(s) && s[pos] != ' ' && s[pos] != '(' && s[pos] != ')' {
			pos++
		}
		return &sxNode{Atom: s[st:pos]}, nil
	}
	n, err := parse()
	if err != nil {
		return nil, err
	}
	skip()
	if pos != len(s) {
		return nil, fmt.Errorf("trailing input")
	}
	return n, nil
}

func (n *sxNode) head() string {
	if n.IsL && len(n.List) > 0 && !n.List[0].IsL {
		return n.List[0].Atom
	}
	return ""
}

// byte strings: 'abc for [A-Za-z0-9_.]+, otherwise x<hex>
func storedStr(s string) string {
	plain := len(s) > 0
	for i := 0; i < len(s); i++ {
		c := s[i]
		if !(c == '_' || c == '.' || (c >= '0' && c <= '9') || (c >= 'a' && c <= 'z') || (c >= 'A' && c <= 'Z')) {
			plain = false
			break
		}
	}
	if plain {
		return "'" + s
	}
	return "x" + hex.EncodeToString([]byte(s))
}

func sxStr(n *sxNode) string {
	if n.IsL || n.Atom == "" {
		panic("bad string atom")
	}
	if n.Atom[0] == '\'' {
		return n.Atom[1:]
	}
	if n.Atom[0] == 'x' {
		b, err := hex.DecodeString(n.Atom[1:])
		if err != nil {
			panic("bad hex string atom")
		}
		return string(b)
	}
	panic("bad string atom " + n.Atom)
}

func sxBig(n *sxNode) *big.Int {
	v, ok := new(big.Int).SetString(n.Atom, 10)
	if n.IsL || !ok {
		panic("bad number atom")
	}
	return v
}

func sxU64(n *sxNode) uint64 {
	v := sxBig(n)
	if !v.IsUint64() {
		panic("number atom out of uint64 range")
	}
	return v.Uint64()
}

// ---------------------------------------------------------------- building Go values from S-expressions

func storedAddr(n uint64) interpreter.AddressValue {
	var a common.Address
	for i := 7; i >= 0; i-- {
		a[i] = byte(n)
		n >>= 8
	}
	return interpreter.AddressValue(a)
}

func addrNum(a common.Address) uint64 {
	var n uint64
	for _, b := range a {
		n = n<<8 | uint64(b)
	}
	return n
}

func storedBuildLoc(n *sxNode) common.Location {
	if !n.IsL {
		if n.Atom == "noloc" {
			return nil
		}
		panic("bad location")
	}
	switch n.head() {
	case "addressloc":
		return common.AddressLocation{Address: common.Address(storedAddr(sxU64(n.List[1]))), Name: sxStr(n.List[2])}
	case "stringloc":
		return common.StringLocation(sxStr(n.List[1]))
	case "idloc":
		return common.IdentifierLocation(sxStr(n.List[1]))
	case "txloc":
		var l common.TransactionLocation
		copy(l[:], sxStr(n.List[1]))
		return l
	case "scriptloc":
		var l common.ScriptLocation
		copy(l[:], sxStr(n.List[1]))
		return l
	}
	panic("bad location")
}

func storedBuildAuth(n *sxNode) interpreter.Authorization {
	if !n.IsL {
		switch n.Atom {
		case "unauthorized":
			return interpreter.UnauthorizedAccess
		case "inaccessible":
			return interpreter.InaccessibleAccess
		}
		panic("bad authorization")
	}
	switch n.head() {
	case "entmap":
		return interpreter.NewEntitlementMapAuthorization(nil, common.TypeID(sxStr(n.List[1])))
	case "entset":
		kind := sxU64(n.List[1])
		var ids []common.TypeID
		for _, e := range n.List[2:] {
			ids = append(ids, common.TypeID(sxStr(e)))
		}
		return interpreter.NewEntitlementSetAuthorization(nil, func() []common.TypeID { return ids }, len(ids), sema.EntitlementSetKind(kind))
	}
	panic("bad authorization")
}

func storedBuildIfaces(ns []*sxNode) []*interpreter.InterfaceStaticType {
	var out []*interpreter.InterfaceStaticType
	for _, e := range ns {
		out = append(out, interpreter.NewInterfaceStaticTypeComputeTypeID(nil, storedBuildLoc(e.List[0]), sxStr(e.List[1])))
	}
	return out
}

func storedBuildType(n *sxNode) interpreter.StaticType {
	if !n.IsL {
		if n.Atom == "capabilitynil" {
			return interpreter.NewCapabilityStaticType(nil, nil)
		}
		panic("bad type " + n.Atom)
	}
	switch n.head() {
	case "prim":
		return interpreter.PrimitiveStaticType(sxU64(n.List[1]))
	case "opt":
		return &interpreter.OptionalStaticType{Type: storedBuildType(n.List[1])}
	case "composite":
		return interpreter.NewCompositeStaticTypeComputeTypeID(nil, storedBuildLoc(n.List[1]), sxStr(n.List[2]))
	case "interface":
		return interpreter.NewInterfaceStaticTypeComputeTypeID(nil, storedBuildLoc(n.List[1]), sxStr(n.List[2]))
	case "varsized":
		return &interpreter.VariableSizedStaticType{Type: storedBuildType(n.List[1])}
	case "constsized":
		sz := sxBig(n.List[1])
		if !sz.IsInt64() {
			panic("size out of int64 range")
		}
		return &interpreter.ConstantSizedStaticType{Size: sz.Int64(), Type: storedBuildType(n.List[2])}
	case "dict":
		return &interpreter.DictionaryStaticType{KeyType: storedBuildType(n.List[1]), ValueType: storedBuildType(n.List[2])}
	case "ref":
		t := interpreter.NewReferenceStaticType(nil, storedBuildAuth(n.List[1]), storedBuildType(n.List[2]))
		switch n.List[3].Atom {
		case "nolegacy":
		case "legacytrue":
			t.HasLegacyIsAuthorized, t.LegacyIsAuthorized = true, true
		case "legacyfalse":
			t.HasLegacyIsAuthorized = true
		default:
			panic("bad legacy flag")
		}
		return t
	case "intersection":
		return interpreter.NewIntersectionStaticType(nil, storedBuildIfaces(n.List[1:]))
	case "intersectionlegacy":
		t := interpreter.NewIntersectionStaticType(nil, storedBuildIfaces(n.List[2:]))
		t.LegacyType = storedBuildType(n.List[1])
		return t
	case "capability":
		return interpreter.NewCapabilityStaticType(nil, storedBuildType(n.List[1]))
	case "range":
		return interpreter.InclusiveRangeStaticType{ElementType: storedBuildType(n.List[1])}
	}
	panic("bad type")
}

func storedBuildOptType(n *sxNode) interpreter.StaticType {
	if !n.IsL && n.Atom == "none" {
		return nil
	}
	return storedBuildType(n)
}

func storedBuildCap(n *sxNode) interpreter.CapabilityValue {
	switch n.head() {
	case "cap":
		return interpreter.NewUnmeteredCapabilityValue(interpreter.UInt64Value(sxU64(n.List[2])), storedAddr(sxU64(n.List[1])), storedBuildType(n.List[3]))
	case "pathcap":
		return interpreter.NewUnmeteredPathCapabilityValue( //nolint:staticcheck
			storedBuildOptType(n.List[4]), storedAddr(sxU64(n.List[1])),
			interpreter.PathValue{Domain: common.PathDomain(sxU64(n.List[2])), Identifier: sxStr(n.List[3])})
	}
	panic("bad capability")
}

func storedBuildNum(kind string, v *big.Int) atree.Storable {
	c := new(big.Int).Set(v)
	switch kind {
	case "int":
		return interpreter.NewUnmeteredIntValueFromBigInt(c)
	case "int8":
		return interpreter.Int8Value(v.Int64())
	case "int16":
		return interpreter.Int16Value(v.Int64())
	case "int32":
		return interpreter.Int32Value(v.Int64())
	case "int64":
		return interpreter.Int64Value(v.Int64())
	case "int128":
		return interpreter.NewUnmeteredInt128ValueFromBigInt(c)
	case "int256":
		return interpreter.NewUnmeteredInt256ValueFromBigInt(c)
	case "uint":
		return interpreter.NewUnmeteredUIntValueFromBigInt(c)
	case "uint8":
		return interpreter.UInt8Value(v.Uint64())
	case "uint16":
		return interpreter.UInt16Value(v.Uint64())
	case "uint32":
		return interpreter.UInt32Value(v.Uint64())
	case "uint64":
		return interpreter.UInt64Value(v.Uint64())
	case "uint128":
		return interpreter.NewUnmeteredUInt128ValueFromBigInt(c)
	case "uint256":
		return interpreter.NewUnmeteredUInt256ValueFromBigInt(c)
	case "word8":
		return interpreter.Word8Value(v.Uint64())
	case "word16":
		return interpreter.Word16Value(v.Uint64())
	case "word32":
		return interpreter.Word32Value(v.Uint64())
	case "word64":
		return interpreter.Word64Value(v.Uint64())
	case "word128":
		return interpreter.NewUnmeteredWord128ValueFromBigInt(c)
	case "word256":
		return interpreter.NewUnmeteredWord256ValueFromBigInt(c)
	case "fix64":
		return interpreter.Fix64Value(v.Int64())
	case "ufix64":
		return interpreter.NewUnmeteredUFix64Value(v.Uint64())
	}
	panic("bad number kind " + kind)
}

func storedBuild(n *sxNode) atree.Storable {
	if !n.IsL {
		switch n.Atom {
		case "nil":
			return interpreter.NilStorable
		case "void":
			return interpreter.VoidStorable
		case "accountlink":
			return interpreter.AccountLinkValue{} //nolint:staticcheck
		}
		panic("bad value atom " + n.Atom)
	}
	switch n.head() {
	case "bool":
		return values.BoolValue(n.List[1].Atom == "true")
	case "rawtext":
		return interpreter.StringAtreeValue(sxStr(n.List[1]))
	case "rawuint":
		return interpreter.Uint64AtreeValue(sxU64(n.List[1]))
	case "string":
		return interpreter.NewUnmeteredStringValue(sxStr(n.List[1]))
	case "char":
		return interpreter.NewUnmeteredCharacterValue(sxStr(n.List[1]))
	case "some":
		levels := sxU64(n.List[1])
		var s atree.Storable = storedBuild(n.List[2])
		for i := uint64(0); i < levels; i++ {
			s = interpreter.SomeStorable{Storable: s}
		}
		return s
	case "address":
		return storedAddr(sxU64(n.List[1]))
	case "num":
		return storedBuildNum(n.List[1].Atom, sxBig(n.List[2]))
	case "fix128":
		return interpreter.NewUnmeteredFix128Value(fix.NewFix128(sxU64(n.List[1]), sxU64(n.List[2])))
	case "ufix128":
		return interpreter.NewUnmeteredUFix128Value(fix.NewUFix128(sxU64(n.List[1]), sxU64(n.List[2])))
	case "path":
		return interpreter.PathValue{Domain: common.PathDomain(sxU64(n.List[1])), Identifier: sxStr(n.List[2])}
	case "cap", "pathcap":
		return storedBuildCap(n).(atree.Storable)
	case "published":
		return interpreter.NewPublishedValue(nil, storedAddr(sxU64(n.List[1])), storedBuildCap(n.List[2]))
	case "type":
		return interpreter.NewUnmeteredTypeValue(storedBuildOptType(n.List[1]))
	case "storagecc":
		ref, ok := storedBuildType(n.List[1]).(*interpreter.ReferenceStaticType)
		if !ok {
			panic("controller borrow type must be a reference type")
		}
		return interpreter.NewUnmeteredStorageCapabilityControllerValue(ref, interpreter.UInt64Value(sxU64(n.List[2])),
			interpreter.PathValue{Domain: common.PathDomain(sxU64(n.List[3])), Identifier: sxStr(n.List[4])})
	case "accountcc":
		ref, ok := storedBuildType(n.List[1]).(*interpreter.ReferenceStaticType)
		if !ok {
			panic("controller borrow type must be a reference type")
		}
		return interpreter.NewUnmeteredAccountCapabilityControllerValue(ref, interpreter.UInt64Value(sxU64(n.List[2])))
	case "pathlink":
		return interpreter.PathLinkValue{ //nolint:staticcheck
			TargetPath: interpreter.PathValue{Domain: common.PathDomain(sxU64(n.List[1])), Identifier: sxStr(n.List[2])},
			Type:       storedBuildType(n.List[3])}
	}
	panic("bad value " + n.head())
}

// ---------------------------------------------------------------- rendering Go values

func storedRenderLoc(l common.Location) string {
	switch l := l.(type) {
	case nil:
		return "noloc"
	case common.AddressLocation:
		return fmt.Sprintf("(addressloc %d %s)", addrNum(l.Address), storedStr(l.Name))
	case common.StringLocation:
		return "(stringloc " + storedStr(string(l)) + ")"
	case common.IdentifierLocation:
		return "(idloc " + storedStr(string(l)) + ")"
	case common.TransactionLocation:
		return "(txloc " + storedStr(string(l[:])) + ")"
	case common.ScriptLocation:
		return "(scriptloc " + storedStr(string(l[:])) + ")"
	}
	return fmt.Sprintf("(unknownloc %T)", l)
}

func storedRenderAuth(a interpreter.Authorization) string {
	switch a := a.(type) {
	case interpreter.Unauthorized:
		return "unauthorized"
	case interpreter.Inaccessible:
		return "inaccessible"
	case interpreter.EntitlementMapAuthorization:
		return "(entmap " + storedStr(string(a.TypeID)) + ")"
	case interpreter.EntitlementSetAuthorization:
		var sb strings.Builder
		fmt.Fprintf(&sb, "(entset %d", uint8(a.SetKind))
		a.Entitlements.Foreach(func(id common.TypeID, _ struct{}) {
			sb.WriteString(" " + storedStr(string(id)))
		})
		sb.WriteString(")")
		return sb.String()
	}
	return fmt.Sprintf("(unknownauth %T)", a)
}

func storedRenderIfaces(ts []*interpreter.InterfaceStaticType) string {
	var sb strings.Builder
	for _, t := range ts {
		sb.WriteString(" (" + storedRenderLoc(t.Location) + " " + storedStr(t.QualifiedIdentifier) + ")")
	}
	return sb.String()
}

func storedRenderType(t interpreter.StaticType) string {
	switch t := t.(type) {
	case interpreter.PrimitiveStaticType:
		return fmt.Sprintf("(prim %d)", uint64(t))
	case *interpreter.OptionalStaticType:
		return "(opt " + storedRenderType(t.Type) + ")"
	case *interpreter.CompositeStaticType:
		return "(composite " + storedRenderLoc(t.Location) + " " + storedStr(t.QualifiedIdentifier) + ")"
	case *interpreter.InterfaceStaticType:
		return "(interface " + storedRenderLoc(t.Location) + " " + storedStr(t.QualifiedIdentifier) + ")"
	case *interpreter.VariableSizedStaticType:
		return "(varsized " + storedRenderType(t.Type) + ")"
	case *interpreter.ConstantSizedStaticType:
		return fmt.Sprintf("(constsized %d %s)", t.Size, storedRenderType(t.Type))
	case *interpreter.DictionaryStaticType:
		return "(dict " + storedRenderType(t.KeyType) + " " + storedRenderType(t.ValueType) + ")"
	case *interpreter.ReferenceStaticType:
		legacy := "nolegacy"
		if t.HasLegacyIsAuthorized {
			legacy = "legacyfalse"
			if t.LegacyIsAuthorized {
				legacy = "legacytrue"
			}
		}
		return "(ref " + storedRenderAuth(t.Authorization) + " " + storedRenderType(t.ReferencedType) + " " + legacy + ")"
	case *interpreter.IntersectionStaticType:
		if t.LegacyType != nil {
			return "(intersectionlegacy " + storedRenderType(t.LegacyType) + storedRenderIfaces(t.Types) + ")"
		}
		return "(intersection" + storedRenderIfaces(t.Types) + ")"
	case *interpreter.CapabilityStaticType:
		if t.BorrowType == nil {
			return "capabilitynil"
		}
		return "(capability " + storedRenderType(t.BorrowType) + ")"
	case interpreter.InclusiveRangeStaticType:
		return "(range " + storedRenderType(t.ElementType) + ")"
	}
	return fmt.Sprintf("(unknowntype %T)", t)
}

func storedRenderOptType(t interpreter.StaticType) string {
	if t == nil {
		return "none"
	}
	return storedRenderType(t)
}

func storedRenderPathFields(p interpreter.PathValue) string {
	return fmt.Sprintf("%d %s", uint8(p.Domain), storedStr(p.Identifier))
}

func storedRenderCap(v interpreter.CapabilityValue) string {
	switch v := v.(type) {
	case *interpreter.IDCapabilityValue:
		return fmt.Sprintf("(cap %d %d %s)", addrNum(common.Address(v.Address())), uint64(v.ID), storedRenderOptType(v.BorrowType))
	case *interpreter.PathCapabilityValue: //nolint:staticcheck
		return fmt.Sprintf("(pathcap %d %s %s)", addrNum(common.Address(v.Address())), storedRenderPathFields(v.Path), storedRenderOptType(v.BorrowType))
	}
	return fmt.Sprintf("(unknowncap %T)", v)
}

func storedRender(s atree.Storable) string {
	num := func(kind string, v fmt.Stringer) string { return "(num " + kind + " " + v.String() + ")" }
	switch v := s.(type) {
	case values.BoolValue:
		if v {
			return "(bool true)"
		}
		return "(bool false)"
	case interpreter.NilValue:
		return "nil"
	case interpreter.StringAtreeValue:
		return "(rawtext " + storedStr(string(v)) + ")"
	case interpreter.Uint64AtreeValue:
		return fmt.Sprintf("(rawuint %d)", uint64(v))
	case interpreter.VoidValue:
		return "void"
	case *interpreter.StringValue:
		return "(string " + storedStr(v.Str) + ")"
	case interpreter.CharacterValue:
		return "(char " + storedStr(v.Str) + ")"
	case interpreter.SomeStorable:
		levels := 1
		inner := v.Storable
		for {
			nx, ok := inner.(interpreter.SomeStorable)
			if !ok {
				break
			}
			levels++
			inner = nx.Storable
		}
		return fmt.Sprintf("(some %d %s)", levels, storedRender(inner))
	case interpreter.AddressValue:
		return fmt.Sprintf("(address %d)", addrNum(common.Address(v)))
	case interpreter.IntValue:
		return num("int", v.BigInt)
	case interpreter.Int8Value:
		return fmt.Sprintf("(num int8 %d)", int8(v))
	case interpreter.Int16Value:
		return fmt.Sprintf("(num int16 %d)", int16(v))
	case interpreter.Int32Value:
		return fmt.Sprintf("(num int32 %d)", int32(v))
	case interpreter.Int64Value:
		return fmt.Sprintf("(num int64 %d)", int64(v))
	case interpreter.Int128Value:
		return num("int128", v.BigInt)
	case interpreter.Int256Value:
		return num("int256", v.BigInt)
	case interpreter.UIntValue:
		return num("uint", v.BigInt)
	case interpreter.UInt8Value:
		return fmt.Sprintf("(num uint8 %d)", uint8(v))
	case interpreter.UInt16Value:
		return fmt.Sprintf("(num uint16 %d)", uint16(v))
	case interpreter.UInt32Value:
		return fmt.Sprintf("(num uint32 %d)", uint32(v))
	case interpreter.UInt64Value:
		return fmt.Sprintf("(num uint64 %d)", uint64(v))
	case interpreter.UInt128Value:
		return num("uint128", v.BigInt)
	case interpreter.UInt256Value:
		return num("uint256", v.BigInt)
	case interpreter.Word8Value:
		return fmt.Sprintf("(num word8 %d)", uint8(v))
	case interpreter.Word16Value:
		return fmt.Sprintf("(num word16 %d)", uint16(v))
	case interpreter.Word32Value:
		return fmt.Sprintf("(num word32 %d)", uint32(v))
	case interpreter.Word64Value:
		return fmt.Sprintf("(num word64 %d)", uint64(v))
	case interpreter.Word128Value:
		return num("word128", v.BigInt)
	case interpreter.Word256Value:
		return num("word256", v.BigInt)
	case interpreter.Fix64Value:
		return fmt.Sprintf("(num fix64 %d)", int64(v))
	case interpreter.UFix64Value:
		return fmt.Sprintf("(num ufix64 %d)", v.UFix64Value)
	case interpreter.Fix128Value:
		return fmt.Sprintf("(fix128 %d %d)", uint64(v.Hi), uint64(v.Lo))
	case interpreter.UFix128Value:
		return fmt.Sprintf("(ufix128 %d %d)", uint64(v.Hi), uint64(v.Lo))
	case interpreter.PathValue:
		return "(path " + storedRenderPathFields(v) + ")"
	case *interpreter.IDCapabilityValue:
		return storedRenderCap(v)
	case *interpreter.PathCapabilityValue: //nolint:staticcheck
		return storedRenderCap(v)
	case *interpreter.PublishedValue:
		return fmt.Sprintf("(published %d %s)", addrNum(common.Address(v.Recipient)), storedRenderCap(v.Value))
	case interpreter.TypeValue:
		return "(type " + storedRenderOptType(v.Type) + ")"
	case *interpreter.StorageCapabilityControllerValue:
		return fmt.Sprintf("(storagecc %s %d %s)", storedRenderType(v.BorrowType), uint64(v.CapabilityID), storedRenderPathFields(v.TargetPath))
	case *interpreter.AccountCapabilityControllerValue:
		return fmt.Sprintf("(accountcc %s %d)", storedRenderType(v.BorrowType), uint64(v.CapabilityID))
	case interpreter.PathLinkValue: //nolint:staticcheck
		return fmt.Sprintf("(pathlink %s %s)", storedRenderPathFields(v.TargetPath), storedRenderType(v.Type))
	case interpreter.AccountLinkValue: //nolint:staticcheck
		return "accountlink"
	}
	return fmt.Sprintf("(unknownstorable %T)", s)
}

// ---------------------------------------------------------------- the codec under test

func storedEncode(s atree.Storable) ([]byte, error) {
	var buf bytes.Buffer
	enc := atree.NewEncoder(&buf, interpreter.CBOREncMode)
	if err := s.Encode(enc); err != nil {
		return nil, err
	}
	if err := enc.CBOR.Flush(); err != nil {
		return nil, err
	}
	return buf.Bytes(), nil
}

func storedDecode(b []byte) (atree.Storable, int, error) {
	dec := interpreter.CBORDecMode.NewByteStreamDecoder(b)
	s, err := interpreter.DecodeStorable(dec, atree.SlabID{}, nil, nil)
	if err != nil {
		return nil, 0, err
	}
	return s, dec.NumBytesDecoded(), nil
}

func storedDecodeType(b []byte) (interpreter.StaticType, int, error) {
	dec := interpreter.CBORDecMode.NewByteStreamDecoder(b)
	t, err := interpreter.NewTypeDecoder(dec, nil).DecodeStaticType()
	if err != nil {
		return nil, 0, err
	}
	return t, dec.NumBytesDecoded(), nil
}

func storedSame(orig, re []byte) string {
	if bytes.Equal(orig, re) {
		return "same"
	}
	return hx.Hex(re)
}

// decodeSomeWithNestedLevels builds `levels` nested SomeStorables one by one: time and memory are linear in
// a number read from the input (up to 2^64).  Bytes announcing more than 2^20 levels are not handed to
// the decoder (the harness would hang / run out of memory); the driver counts them as skipped.
func storedHugeSomeLevels(b []byte) bool {
	tag := byte(values.CBORTagSomeValueWithNestedLevels)
	for i := 0; i+4 < len(b); i++ {
		if b[i] == 0xd8 && b[i+1] == tag && b[i+2]&0xe0 == 0x80 {
			j := i + 3
			if b[i+2]&0x1f >= 24 { // array head with an argument byte (non-canonical but accepted)
				j++
			}
			if j >= len(b) {
				continue
			}
			var v uint64
			switch b[j] {
			case 0x1a:
				if j+4 < len(b) {
					v = uint64(b[j+1])<<24 | uint64(b[j+2])<<16 | uint64(b[j+3])<<8 | uint64(b[j+4])
				}
			case 0x1b:
				if j+8 < len(b) {
					for k := 1; k <= 8; k++ {
						v = v<<8 | uint64(b[j+k])
					}
				}
			}
			if v > 1<<20 {
				return true
			}
		}
	}
	return false
}

// decode b as a storable; render; re-encode
func storedDecodeObs(b []byte) string {
	if storedHugeSomeLevels(b) {
		return "skipped-huge-some-levels"
	}
	s, n, err := storedDecode(b)
	if err != nil {
		return "err"
	}
	r := storedRender(s)
	re, err := storedEncode(s)
	if err != nil {
		return "ok:" + r + ":reencerr:" + strconv.Itoa(n)
	}
	return "ok:" + r + ":" + storedSame(b[:n], re) + ":" + strconv.Itoa(n)
}

func storedDecodeTypeObs(b []byte) string {
	t, n, err := storedDecodeType(b)
	if err != nil {
		return "err"
	}
	// also through the public one-shot function
	t2, err2 := interpreter.StaticTypeFromBytes(b)
	if err2 != nil || storedRenderType(t2) != storedRenderType(t) {
		return "inconsistent-StaticTypeFromBytes"
	}
	r := storedRenderType(t)
	re, err := interpreter.StaticTypeToBytes(t)
	if err != nil {
		return "ok:" + r + ":reencerr:" + strconv.Itoa(n)
	}
	return "ok:" + r + ":" + storedSame(b[:n], re) + ":" + strconv.Itoa(n)
}

// build a Go value from its S-expression; ok=false when the Go constructors refuse it
func storedTryBuild(n *sxNode) (s atree.Storable, ok bool) {
	defer func() {
		if r := recover(); r != nil {
			s, ok = nil, false
		}
	}()
	return storedBuild(n), true
}

func storedTryBuildType(n *sxNode) (t interpreter.StaticType, ok bool) {
	defer func() {
		if r := recover(); r != nil {
			t, ok = nil, false
		}
	}()
	return storedBuildType(n), true
}

func execStored(op []string) string {
	if len(op) < 3 {
		return "bad-op"
	}
	switch op[1] {
	case "val":
		n, err := sxParse(op[2])
		if err != nil {
			return "bad-op"
		}
		s, ok := storedTryBuild(n)
		if !ok {
			return "unbuildable"
		}
		b, err := storedEncode(s)
		if err != nil {
			return "encerr"
		}
		obs := storedDecodeObs(b)
		if obs == "err" {
			return "decerr:" + hx.Hex(b)
		}
		return "ok:" + hx.Hex(b) + ":" + strings.TrimPrefix(obs, "ok:")
	case "type":
		n, err := sxParse(op[2])
		if err != nil {
			return "bad-op"
		}
		t, ok := storedTryBuildType(n)
		if !ok {
			return "unbuildable"
		}
		b, err := interpreter.StaticTypeToBytes(t)
		if err != nil {
			return "encerr"
		}
		obs := storedDecodeTypeObs(b)
		if obs == "err" {
			return "decerr:" + hx.Hex(b)
		}
		return "ok:" + hx.Hex(b) + ":" + strings.TrimPrefix(obs, "ok:")
	case "dec", "golden":
		return storedDecodeObs(hx.UnHex(op[2]))
	case "dectype", "goldentype":
		return storedDecodeTypeObs(hx.UnHex(op[2]))
	}
	return "bad-op"
}

// ---------------------------------------------------------------- generators

type storedGen struct{ r *hx.Rng }

var storedIdents = []string{"a", "foo", "Bar", "x_1", "flowToken", "Vault", "A.B", "Foo.Bar.Baz", "E", "M", "Entitlement1"}

func (g storedGen) str() string {
	r := g.r
	switch r.Intn(12) {
	case 0:
		return ""
	case 1, 2, 3, 4:
		return r.Pick(storedIdents)
	case 5:
		return "hello world"
	case 6: // non-ASCII, already NFC
		return r.Pick([]string{"é", "日本語", "naïve café", "Ω≈ç√", "😀", "👍🏽", "ß", "한국어"})
	case 7: // length around the CBOR head boundaries
		n := []int{22, 23, 24, 25, 255, 256, 257}[r.Intn(7)]
		return strings.Repeat("a", n)
	case 8:
		return "with \"quotes\" and \\ and \t"
	case 9:
		if r.Chance(10) {
			return strings.Repeat("b", 65535+r.Intn(3))
		}
		return "x"
	default:
		b := make([]byte, 1+r.Intn(6))
		for i := range b {
			b[i] = byte(0x20 + r.Intn(0x5f))
		}
		return string(b)
	}
}

// qualified identifier of a composite / interface type (never empty: an empty type ID cannot be built)
func (g storedGen) qid() string {
	if g.r.Chance(85) {
		return g.r.Pick(storedIdents)
	}
	s := g.str()
	if s == "" {
		return "Q"
	}
	return s
}

func (g storedGen) u64() uint64 {
	r := g.r
	switch r.Intn(8) {
	case 0:
		return uint64(r.Intn(3))
	case 1:
		return []uint64{23, 24, 255, 256, 65535, 65536, 1<<32 - 1, 1 << 32, 1<<63 - 1, 1 << 63, 1<<64 - 1}[r.Intn(11)]
	case 2:
		return uint64(r.Intn(300))
	default:
		return r.U64() >> uint(r.Intn(64))
	}
}

func (g storedGen) addr() uint64 {
	if g.r.Chance(20) {
		return []uint64{0, 1, 0xff, 0x100, 1 << 56, 1<<64 - 1, 0x0102030405060708}[g.r.Intn(7)]
	}
	return g.u64()
}

func (g storedGen) hash32() string { return string(g.r.Bytes(32)) }

func (g storedGen) loc() string {
	switch g.r.Intn(7) {
	case 0:
		return "noloc"
	case 1, 2:
		return fmt.Sprintf("(addressloc %d %s)", g.addr(), storedStr(g.str()))
	case 3:
		return "(stringloc " + storedStr(g.str()) + ")"
	case 4:
		return "(idloc " + storedStr(g.str()) + ")"
	case 5:
		return "(txloc " + storedStr(g.hash32()) + ")"
	default:
		return "(scriptloc " + storedStr(g.hash32()) + ")"
	}
}

func (g storedGen) auth() string {
	switch g.r.Intn(5) {
	case 0, 1:
		return "unauthorized"
	case 2:
		return "inaccessible"
	case 3:
		return "(entmap " + storedStr("A.0000000000000001.C."+g.r.Pick(storedIdents)) + ")"
	default:
		n := g.r.Intn(4)
		seen := map[string]bool{}
		var sb strings.Builder
		fmt.Fprintf(&sb, "(entset %d", g.r.Intn(2))
		for i := 0; i < n; i++ {
			s := "A.0000000000000001.C." + g.r.Pick(storedIdents)
			if seen[s] {
				continue
			}
			seen[s] = true
			sb.WriteString(" " + storedStr(s))
		}
		sb.WriteString(")")
		return sb.String()
	}
}

var storedPrimCodes []uint64

func (g storedGen) prim() string {
	if len(storedPrimCodes) == 0 {
		for ty := interpreter.PrimitiveStaticTypeUnknown; ty < interpreter.PrimitiveStaticType_Count; ty++ {
			if ty == interpreter.PrimitiveStaticTypeCapability { //nolint:staticcheck
				continue // deprecated: decodes to a Capability static type without borrow type
			}
			storedPrimCodes = append(storedPrimCodes, uint64(ty))
		}
	}
	if g.r.Chance(5) {
		return fmt.Sprintf("(prim %d)", g.u64())
	}
	return fmt.Sprintf("(prim %d)", storedPrimCodes[g.r.Intn(len(storedPrimCodes))])
}

func (g storedGen) ifaces() string {
	var sb strings.Builder
	n := g.r.Intn(4)
	for i := 0; i < n; i++ {
		sb.WriteString(" (" + g.loc() + " " + storedStr(g.r.Pick(storedIdents)) + ")")
	}
	return sb.String()
}

func (g storedGen) typ(depth int) string {
	r := g.r
	if depth <= 0 {
		switch r.Intn(4) {
		case 0:
			return "(composite " + g.loc() + " " + storedStr(g.qid()) + ")"
		case 1:
			return "(interface " + g.loc() + " " + storedStr(g.qid()) + ")"
		default:
			return g.prim()
		}
	}
	switch r.Intn(14) {
	case 0:
		return g.prim()
	case 1:
		return "(opt " + g.typ(depth-1) + ")"
	case 2:
		return "(composite " + g.loc() + " " + storedStr(g.qid()) + ")"
	case 3:
		return "(interface " + g.loc() + " " + storedStr(g.qid()) + ")"
	case 4:
		return "(varsized " + g.typ(depth-1) + ")"
	case 5:
		return fmt.Sprintf("(constsized %d %s)", g.u64()>>1, g.typ(depth-1))
	case 6:
		return "(dict " + g.typ(depth-1) + " " + g.typ(depth-1) + ")"
	case 7, 8:
		return g.ref(depth)
	case 9:
		return "(intersection" + g.ifaces() + ")"
	case 10:
		return "(intersectionlegacy " + g.typ(depth-1) + g.ifaces() + ")"
	case 11:
		return "(capability " + g.typ(depth-1) + ")"
	case 12:
		return "capabilitynil"
	default:
		return "(range " + g.typ(depth-1) + ")"
	}
}

func (g storedGen) ref(depth int) string {
	return "(ref " + g.auth() + " " + g.typ(depth-1) + " nolegacy)"
}

func (g storedGen) path() string {
	return fmt.Sprintf("%d %s", g.r.Intn(5), storedStr(g.str()))
}

func (g storedGen) capv() string {
	if g.r.Chance(80) {
		return fmt.Sprintf("(cap %d %d %s)", g.addr(), g.u64(), g.typ(2))
	}
	bt := "none"
	if g.r.Bool() {
		bt = g.typ(2)
	}
	return fmt.Sprintf("(pathcap %d %s %s)", g.addr(), g.path(), bt)
}

var storedNumKinds = []struct {
	name   string
	signed bool
	bits   int // 0 = unbounded
}{
	{"int", true, 0}, {"int8", true, 8}, {"int16", true, 16}, {"int32", true, 32}, {"int64", true, 64}, {"int128", true, 128}, {"int256", true, 256},
	{"uint", false, 0}, {"uint8", false, 8}, {"uint16", false, 16}, {"uint32", false, 32}, {"uint64", false, 64}, {"uint128", false, 128}, {"uint256", false, 256},
	{"word8", false, 8}, {"word16", false, 16}, {"word32", false, 32}, {"word64", false, 64}, {"word128", false, 128}, {"word256", false, 256},
	{"fix64", true, 64}, {"ufix64", false, 64},
}

func storedNumBounds(signed bool, bits int) (lo, hi *big.Int) {
	one := big.NewInt(1)
	if bits == 0 {
		hi = new(big.Int).Lsh(one, 300)
		if signed {
			return new(big.Int).Neg(hi), hi
		}
		return big.NewInt(0), hi
	}
	if signed {
		hi = new(big.Int).Sub(new(big.Int).Lsh(one, uint(bits-1)), one)
		lo = new(big.Int).Neg(new(big.Int).Lsh(one, uint(bits-1)))
		return
	}
	return big.NewInt(0), new(big.Int).Sub(new(big.Int).Lsh(one, uint(bits)), one)
}

// boundary values of a numeric kind (all inside its range)
func storedNumBoundary(signed bool, bits int) []*big.Int {
	lo, hi := storedNumBounds(signed, bits)
	cand := []*big.Int{lo, hi, new(big.Int).Add(lo, big.NewInt(1)), new(big.Int).Sub(hi, big.NewInt(1))}
	for _, k := range []int64{0, 1, 23, 24, 25, 255, 256, 65535, 65536, 1<<32 - 1, 1 << 32} {
		cand = append(cand, big.NewInt(k), big.NewInt(-k), big.NewInt(-k-1))
	}
	for _, sh := range []uint{63, 64, 127, 128, 255} {
		p := new(big.Int).Lsh(big.NewInt(1), sh)
		cand = append(cand, p, new(big.Int).Sub(p, big.NewInt(1)), new(big.Int).Neg(p), new(big.Int).Sub(new(big.Int).Neg(p), big.NewInt(1)))
	}
	var out []*big.Int
	for _, c := range cand {
		if c.Cmp(lo) >= 0 && c.Cmp(hi) <= 0 {
			out = append(out, c)
		}
	}
	return out
}

func (g storedGen) num() string {
	k := storedNumKinds[g.r.Intn(len(storedNumKinds))]
	if g.r.Chance(40) {
		b := storedNumBoundary(k.signed, k.bits)
		return "(num " + k.name + " " + b[g.r.Intn(len(b))].String() + ")"
	}
	lo, hi := storedNumBounds(k.signed, k.bits)
	span := new(big.Int).Sub(hi, lo)
	v := new(big.Int).SetBytes(g.r.Bytes(1 + g.r.Intn(40)))
	v.Mod(v, new(big.Int).Add(span, big.NewInt(1)))
	v.Add(v, lo)
	if g.r.Bool() { // small magnitudes are the common case
		v.Rsh(v, uint(g.r.Intn(v.BitLen()+1)))
		if v.Cmp(lo) < 0 || v.Cmp(hi) > 0 {
			v.Set(lo)
		}
	}
	return "(num " + k.name + " " + v.String() + ")"
}

func (g storedGen) val(depth int) string {
	r := g.r
	switch r.Intn(22) {
	case 0:
		return "(bool " + r.Pick([]string{"true", "false"}) + ")"
	case 1:
		return "nil"
	case 2:
		return "(rawtext " + storedStr(g.str()) + ")"
	case 3:
		return fmt.Sprintf("(rawuint %d)", g.u64())
	case 4:
		return "void"
	case 5, 6:
		return "(string " + storedStr(g.str()) + ")"
	case 7:
		return "(char " + storedStr(r.Pick([]string{"a", "Z", "0", " ", "\n", "\r\n", "é", "日", "😀", "👍🏽", "🇩🇪"})) + ")"
	case 8, 9:
		if depth <= 0 {
			return g.num()
		}
		levels := 1
		if r.Chance(50) {
			levels = 2 + r.Intn(4)
		}
		inner := g.val(0)
		for strings.HasPrefix(inner, "(some ") {
			inner = g.val(0)
		}
		return fmt.Sprintf("(some %d %s)", levels, inner)
	case 10:
		return fmt.Sprintf("(address %d)", g.addr())
	case 11, 12, 13:
		return g.num()
	case 14:
		if r.Bool() {
			return fmt.Sprintf("(fix128 %d %d)", g.u64(), g.u64())
		}
		return fmt.Sprintf("(ufix128 %d %d)", g.u64(), g.u64())
	case 15:
		return "(path " + g.path() + ")"
	case 16:
		return g.capv()
	case 17:
		return fmt.Sprintf("(published %d %s)", g.addr(), g.capv())
	case 18:
		if r.Chance(10) {
			return "(type none)"
		}
		return "(type " + g.typ(3) + ")"
	case 19:
		return fmt.Sprintf("(storagecc %s %d %s)", g.ref(2), g.u64(), g.path())
	case 20:
		return fmt.Sprintf("(accountcc %s %d)", g.ref(2), g.u64())
	default:
		if r.Chance(30) {
			return "accountlink"
		}
		return fmt.Sprintf("(pathlink %s %s)", g.path(), g.typ(2))
	}
}

// byte-level mutations of a valid encoding
func (g storedGen) mutate(b []byte) []byte {
	r := g.r
	b = append([]byte{}, b...)
	if len(b) == 0 {
		return b
	}
	switch r.Intn(9) {
	case 0:
		b = b[:r.Intn(len(b))]
	case 1:
		b = append(b, r.Bytes(1+r.Intn(3))...)
	case 2:
		b[r.Intn(len(b))] ^= byte(1 << r.Intn(8))
	case 3: // another tag number
		for i := 0; i+1 < len(b); i++ {
			if b[i] == 0xd8 && r.Chance(60) {
				b[i+1] = byte(128 + r.Intn(128))
				break
			}
		}
	case 4: // another array length
		for i := 2; i < len(b); i++ {
			if b[i]&0xe0 == 0x80 && r.Chance(60) {
				b[i] = 0x80 | byte(r.Intn(6))
				break
			}
		}
	case 5: // replace the content after the first tag by a random small item
		if len(b) > 2 && b[0] == 0xd8 {
			items := [][]byte{{0x00}, {0x18, 0xff}, {0x19, 0x01, 0x00}, {0x1b, 0xff, 0xff, 0xff, 0xff, 0xff, 0xff, 0xff, 0xff},
				{0x20}, {0x38, 0x7f}, {0x38, 0x80}, {0x3b, 0x7f, 0xff, 0xff, 0xff, 0xff, 0xff, 0xff, 0xff}, {0x3b, 0x80, 0, 0, 0, 0, 0, 0, 0},
				{0xf6}, {0xf4}, {0xf5}, {0x60}, {0x61, 0x61}, {0x40}, {0x41, 0x01}, {0x80}, {0x82, 0x00, 0x60},
				{0xc2, 0x40}, {0xc2, 0x42, 0x00, 0x01}, {0xc3, 0x40}, {0xc2, 0x51, 1, 0, 0, 0, 0, 0, 0, 0, 0, 0, 0, 0, 0, 0, 0, 0, 0},
				{0xc3, 0x50, 0x80, 0, 0, 0, 0, 0, 0, 0, 0, 0, 0, 0, 0, 0, 0, 0}, {0x62, 0xc3, 0x28}, {0x61, 0xff}}
			b = append(b[:2:2], items[r.Intn(len(items))]...)
		}
	case 6: // byte inside: set to a boundary value
		b[r.Intn(len(b))] = []byte{0x00, 0x17, 0x18, 0x7f, 0x80, 0xf6, 0xff}[r.Intn(7)]
	case 7: // swap two bytes
		i, j := r.Intn(len(b)), r.Intn(len(b))
		b[i], b[j] = b[j], b[i]
	case 8: // drop one byte
		i := r.Intn(len(b))
		b = append(b[:i], b[i+1:]...)
	}
	return b
}

func genStored(c *hx.Ctx) {
	// hx seeds are consecutive SplitMix64 states (seed s+1 = seed s shifted by one draw): fork through the
	// output function so that different seeds give unrelated streams
	c.Rng = c.Rng.Fork()
	g := storedGen{c.Rng}
	// exhaustive parts: every numeric kind at every boundary value; every primitive type code
	for _, k := range storedNumKinds {
		for _, v := range storedNumBoundary(k.signed, k.bits) {
			c.Emit("stored", "val", "(num "+k.name+" "+v.String()+")")
		}
	}
	g.prim()
	for _, code := range storedPrimCodes {
		c.Emit("stored", "type", fmt.Sprintf("(prim %d)", code))
	}
	c.Emit("stored", "type", fmt.Sprintf("(prim %d)", uint64(interpreter.PrimitiveStaticTypeCapability))) //nolint:staticcheck
	for levels := 1; levels <= 4; levels++ {
		c.Emit("stored", "val", fmt.Sprintf("(some %d nil)", levels))
	}
	for i := 0; i < c.N; i++ {
		switch x := c.Rng.Intn(10); {
		case x < 5:
			c.Emit("stored", "val", g.val(2))
		case x < 7:
			c.Emit("stored", "type", g.typ(3))
		case x < 9:
			n, err := sxParse(g.val(2))
			if err != nil {
				continue
			}
			b, err := storedEncode(storedBuild(n))
			if err != nil {
				continue
			}
			c.Emit("stored", "dec", hx.Hex(g.mutate(b)))
		default:
			n, err := sxParse(g.typ(3))
			if err != nil {
				continue
			}
			b, err := interpreter.StaticTypeToBytes(storedBuildType(n))
			if err != nil {
				continue
			}
			c.Emit("stored", "dectype", hx.Hex(g.mutate(b)))
		}
	}
}
