package main

// Stream `copysem` (property C05): see internal/lang2/gen_copy.go; Exec and line format in stream_lang2.go.

import (
	"strconv"
	"strings"

	"verif/harness/internal/hx"
	"verif/harness/internal/lang2"
)

func init() {
	hx.Register(&hx.Stream{Name: "copysem", Parallel: true, Exec: execLang2, Gen: func(c *hx.Ctx) {
		for i := 0; i < c.N; i++ {
			p := lang2.GenerateCopy(c.Rng.Fork())
			c.Emit("copysem", "g"+strconv.Itoa(i), "untouched="+p.Untouched, "forms="+strings.Join(p.Forms, ","), l2Src(p.Src))
		}
	}})
}
