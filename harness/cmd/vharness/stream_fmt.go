package main

// Stream `fmt` (property C39): the formatter.
//
//   fmt  pass  strip|rejoin|collapse:<max>  <hex>     one byte-level post-pass of formatter.Format
//                                                      (through the `verif` hooks) => ok:<hex>
//   fmt  prog  <options>  <source>                     formatter.Format with the given options, judged by
//                                                      the direct oracle (Go alone):
//        reject                      the input does not parse (not an input of the property)
//        fmt-error                   Format returned an error (allowed by the property)
//        ok                          the output parses to the same AST modulo positions (imports as a
//                                    multiset when sorting is on), contains every input comment exactly
//                                    once verbatim and is a fixed point of Format
//        ast-diff | out-reject       the output parses differently / not at all
//        comment <hex of the first input comment that is not in the output exactly once> <keep>
//        not-idempotent              Format(output) != output
// Options: w<width>,i<count><s|t>,sort<0|1>,semi<0|1>,keep<n>.

import (
	"encoding/json"
	"sort"
	"strconv"
	"strings"

	"github.com/onflow/cadence/ast"
	"github.com/onflow/cadence/formatter"
	"github.com/onflow/cadence/parser"
	"github.com/onflow/cadence/parser/lexer"

	"verif/harness/internal/hx"
)

func init() {
	hx.Register(&hx.Stream{Name: "fmt", Gen: genFmt, Exec: execFmt, Parallel: true})
}

func c39Options(s string) (formatter.Options, bool) {
	o := formatter.Default()
	for _, p := range strings.Split(s, ",") {
		switch {
		case strings.HasPrefix(p, "w"):
			n, err := strconv.Atoi(p[1:])
			if err != nil {
				return o, false
			}
			o.LineWidth = n
		case strings.HasPrefix(p, "i"):
			if len(p) < 3 {
				return o, false
			}
			n, err := strconv.Atoi(p[1 : len(p)-1])
			if err != nil {
				return o, false
			}
			o.IndentCount = n
			if p[len(p)-1] == 't' {
				o.IndentCharacter = "\t"
			} else {
				o.IndentCharacter = " "
			}
		case strings.HasPrefix(p, "sort"):
			o.SortImports = p == "sort1"
		case strings.HasPrefix(p, "semi"):
			o.StripSemicolons = p == "semi1"
		case strings.HasPrefix(p, "keep"):
			n, err := strconv.Atoi(p[4:])
			if err != nil {
				return o, false
			}
			o.KeepBlankLines = n
		}
	}
	return o, true
}

// c39Comments: the texts of the comments of a source, in order (line comments; block comments from
// the outermost `/*` to its matching `*/`).
func c39Comments(code []byte) ([]string, bool) {
	ts, err := lexer.Lex(code, nil)
	if err != nil {
		return nil, false
	}
	defer ts.Reclaim()
	var out []string
	depth := 0
	start := 0
	for {
		t := ts.Next()
		if t.Type == lexer.TokenEOF {
			break
		}
		switch t.Type {
		case lexer.TokenError:
			return nil, false
		case lexer.TokenLineComment:
			if depth == 0 {
				out = append(out, string(code[t.StartPos.Offset:t.EndPos.Offset+1]))
			}
		case lexer.TokenBlockCommentStart:
			if depth == 0 {
				start = t.StartPos.Offset
			}
			depth++
		case lexer.TokenBlockCommentEnd:
			depth--
			if depth == 0 {
				out = append(out, string(code[start:t.EndPos.Offset+1]))
			}
		}
	}
	return out, depth == 0
}

// c39ProgramJSON: position-free JSON of a program; with sortImports the import declarations are
// compared as a sorted multiset, ahead of the other declarations.
func c39ProgramJSON(p *ast.Program, sortImports bool) (string, error) {
	var imports, rest []string
	for _, d := range p.Declarations() {
		j, err := c38CanonJSON(d)
		if err != nil {
			return "", err
		}
		if _, ok := d.(*ast.ImportDeclaration); ok && sortImports {
			imports = append(imports, j)
		} else {
			rest = append(rest, j)
		}
	}
	sort.Strings(imports)
	b, err := json.Marshal([][]string{imports, rest})
	return string(b), err
}

func execFmt(op []string) string {
	if len(op) < 4 {
		return "bad-op"
	}
	switch op[1] {
	case "pass":
		in := hx.UnHex(op[3])
		switch {
		case op[2] == "strip":
			return "ok:" + hx.Hex(formatter.VerifStripTrailingLineWhitespace(append([]byte{}, in...)))
		case op[2] == "rejoin":
			return "ok:" + hx.Hex(formatter.VerifRejoinStringInterpolations(append([]byte{}, in...)))
		case strings.HasPrefix(op[2], "collapse:"):
			n, err := strconv.Atoi(op[2][len("collapse:"):])
			if err != nil {
				return "bad-op"
			}
			return "ok:" + hx.Hex(formatter.VerifCollapseBlankLines(append([]byte{}, in...), n))
		}
		return "bad-op"
	case "prog":
		opts, ok := c39Options(op[2])
		if !ok {
			return "bad-op"
		}
		src := []byte(c38Decode(op[3]))
		p1, err := parser.ParseProgram(nil, src, parser.Config{})
		if err != nil || p1 == nil {
			return "reject"
		}
		inComments, ok := c39Comments(src)
		if !ok {
			return "reject"
		}
		out, err := formatter.Format(append([]byte{}, src...), opts)
		if err != nil {
			return "fmt-error"
		}
		p2, err := parser.ParseProgram(nil, out, parser.Config{})
		if err != nil || p2 == nil {
			return "out-reject"
		}
		j1, e1 := c39ProgramJSON(p1, opts.SortImports)
		j2, e2 := c39ProgramJSON(p2, opts.SortImports)
		if e1 != nil || e2 != nil || j1 != j2 {
			return "ast-diff"
		}
		outComments, ok := c39Comments(out)
		if !ok {
			return "out-reject"
		}
		count := map[string]int{}
		for _, c := range outComments {
			count[c]++
		}
		incount := map[string]int{}
		for _, c := range inComments {
			incount[c]++
		}
		for _, c := range inComments {
			if count[c] != incount[c] {
				return "comment " + hx.Hex([]byte(c)) + " " + strconv.Itoa(opts.KeepBlankLines)
			}
		}
		if len(outComments) != len(inComments) {
			return "comment - " + strconv.Itoa(opts.KeepBlankLines)
		}
		out2, err := formatter.Format(append([]byte{}, out...), opts)
		if err != nil || string(out2) != string(out) {
			return "not-idempotent"
		}
		return "ok"
	}
	return "bad-op"
}

// ---------- generator ----------

var c39PassPieces = []string{"a", " ", "  ", "\t", "\n", "\n\n", "\n\n\n", "\"", "\\(", "(", ")", "\\\"", ".", "x = 1", "// c ", "/* a", "b */", "\\", "\n  ", " \n", "\t\n", "foo(", "\\(a\n  + b)", "\"s\""}

func c39PassInput(r *hx.Rng) []byte {
	var sb strings.Builder
	for i := 0; i < r.Intn(10); i++ {
		sb.WriteString(r.Pick(c39PassPieces))
	}
	return []byte(sb.String())
}

// c39Decorate inserts comments, blank lines and semicolons into a generated program at white-space
// positions (so that the token sequence is unchanged).
func c39Decorate(r *hx.Rng, src string, exotic bool) string {
	ts, err := lexer.Lex([]byte(src), nil)
	if err != nil {
		return src
	}
	defer ts.Reclaim()
	var sb strings.Builder
	id := 0
	depthParen := 0
	for {
		t := ts.Next()
		if t.Type == lexer.TokenEOF {
			break
		}
		txt := src[t.StartPos.Offset : t.EndPos.Offset+1]
		switch t.Type {
		case lexer.TokenParenOpen, lexer.TokenBracketOpen:
			depthParen++
		case lexer.TokenParenClose, lexer.TokenBracketClose:
			depthParen--
		}
		if t.Type != lexer.TokenSpace {
			sb.WriteString(txt)
			continue
		}
		hasNL := strings.Contains(txt, "\n")
		if r.Chance(12) {
			id++
			n := strconv.Itoa(id)
			if hasNL {
				switch k := r.Intn(8); {
				case k < 3:
					txt = " // c" + n + txt
				case k < 5:
					txt = txt + "/// d" + n + txt
				case k == 5:
					txt = txt + "/* b" + n + " */" + txt
				case k == 6 && exotic:
					txt = txt + "/* a" + n + "\n\n\n\n b */" + txt
				case k == 7 && exotic:
					txt = " // t" + n + "   " + txt
				default:
					txt = txt + "// c" + n + txt
				}
			} else {
				txt = " /* i" + n + " */ "
			}
		}
		if hasNL && depthParen == 0 && r.Chance(8) {
			txt = strings.Repeat("\n", 1+r.Intn(4)) + txt
		}
		sb.WriteString(txt)
	}
	return sb.String()
}

func c39RandOptions(r *hx.Rng) string {
	return "w" + strconv.Itoa([]int{100, 80, 40, 20, 120}[r.Intn(5)]) +
		",i" + strconv.Itoa([]int{4, 2, 1, 8}[r.Intn(4)]) + r.Pick([]string{"s", "s", "t"}) +
		",sort" + strconv.Itoa(r.Intn(2)) + ",semi" + strconv.Itoa(r.Intn(2)) + ",keep" + strconv.Itoa([]int{1, 1, 0, 2, 3}[r.Intn(5)])
}

func genFmt(c *hx.Ctx) {
	r := c.Rng
	for i := 0; i < c.N; i++ {
		switch k := r.Intn(10); {
		case k < 4:
			pass := []string{"strip", "rejoin", "collapse:0", "collapse:1", "collapse:2"}[r.Intn(5)]
			c.Emit("fmt", "pass", pass, hx.Hex(c39PassInput(r)))
		default:
			src := c39Decorate(r, c38Program(r, false), k == 9)
			opts := "w100,i4s,sort1,semi1,keep1"
			if r.Chance(50) {
				opts = c39RandOptions(r)
			}
			c.Emit("fmt", "prog", opts, c38Encode(src))
		}
	}
}
