package main

// Stream `json` (property C41): JSON-Cadence encoding and decoding of generated values.
//
//	json rt   <value sx>   => ok:<same|diff>:<hex of json.Encode output>:<sx of json.Decode of it>
//	                          | encerr | decerr:<hex json> | panic
//	                          (same/diff: does the decoded value re-encode to the same bytes)
//	json dec  <json text>  => ok:<sx of decoded value> | err | panic        (structure-level mutations, corpus)
//	json mutb <hex bytes>  => ok | err | panic | hang                       (byte-level mutations)

import (
	"bytes"
	gojson "encoding/json"
	"sort"
	"strconv"
	"strings"
	"time"

	jsoncdc "github.com/onflow/cadence/encoding/json"

	"verif/harness/internal/cval"
	"verif/harness/internal/hx"
)

func init() {
	hx.Register(&hx.Stream{Name: "json", Gen: genJSON, Exec: execJSON, Parallel: true, Timeout: 20 * time.Second})
}

func jsonProfile(c *hx.Ctx) cval.Profile {
	p := cval.Full
	p.Attachments = false // JSON-CDC cannot decode attachments (known finding json-attachment-not-decodable; see corpus)
	return p
}

// ---- structure-level mutation of a JSON document ----

type jmut struct{ r *hx.Rng }

var jsonKeys = []string{"type", "value", "kind", "key", "name", "fields", "initializers", "id", "typeID", "staticType", "address",
	"borrowType", "domain", "identifier", "authorization", "entitlements", "size", "types", "label", "parameters", "typeParameters",
	"return", "typeBound", "purity", "functionType", "element", "start", "end", "step", "path", "authorized", "restrictions", "targetPath"}
var jsonTypeNames = []string{"Void", "Optional", "Bool", "Character", "String", "Address", "Int", "Int8", "Int16", "Int32", "Int64", "Int128",
	"Int256", "UInt", "UInt8", "UInt16", "UInt32", "UInt64", "UInt128", "UInt256", "Word8", "Word16", "Word32", "Word64", "Word128", "Word256",
	"Fix64", "UFix64", "Fix128", "UFix128", "Array", "Dictionary", "Struct", "Resource", "Attachment", "Event", "Contract", "Path", "Type",
	"Capability", "Enum", "Function", "InclusiveRange", "Nope", ""}
var jsonKindNames = []string{"Optional", "VariableSizedArray", "ConstantSizedArray", "Dictionary", "InclusiveRange", "Struct", "Resource", "Event",
	"Contract", "StructInterface", "ResourceInterface", "ContractInterface", "Function", "Reference", "Intersection", "Capability", "Enum",
	"Attachment", "Restriction", "Int", "AnyStruct", "Never", "Bytes", "Capability", "Nope", "Unauthorized", "EntitlementMapAuthorization",
	"EntitlementConjunctionSet", "EntitlementDisjunctionSet", "Entitlement"}
var numberStrings = []string{"0", "1", "-1", "+1", "-0", "00", "01", "127", "128", "-128", "-129", "255", "256", "32767", "32768", "-32769", "65535",
	"65536", "2147483647", "2147483648", "-2147483649", "4294967295", "4294967296", "9223372036854775807", "9223372036854775808",
	"-9223372036854775808", "-9223372036854775809", "18446744073709551615", "18446744073709551616",
	"170141183460469231731687303715884105727", "170141183460469231731687303715884105728", "-170141183460469231731687303715884105729",
	"340282366920938463463374607431768211455", "340282366920938463463374607431768211456",
	"57896044618658097711785492504343953926634992332820282019728792003956564819967",
	"57896044618658097711785492504343953926634992332820282019728792003956564819968",
	"115792089237316195423570985008687907853269984665640564039457584007913129639935",
	"115792089237316195423570985008687907853269984665640564039457584007913129639936",
	"", " 1", "1 ", "1_0", "1e3", "0x10", "1.0", "--1", "+-1", "+", "-", "a", "１",
	"1.00000000", "-1.00000000", "0.5", "1.", ".5", "1.000000000", "92233720368.54775807", "92233720368.54775808", "-92233720368.54775808",
	"-92233720368.54775809", "184467440737.09551615", "184467440737.09551616", "-0.00000001", "+1.5", "1.-5", "1.+5", "1.2.3", "0x", "0x1", "0x01",
	"0x0102030405060708", "0x010203040506070809", "0X01", "0xzz", "0xAB", "x"}

// all nodes of a decoded JSON document, as (parent setter, value)
type jslot struct {
	get func() any
	set func(any)
	del func() // nil when not deletable
}

func jsonSlots(root *any) []jslot {
	var out []jslot
	var walk func(get func() any, set func(any), del func())
	walk = func(get func() any, set func(any), del func()) {
		out = append(out, jslot{get, set, del})
		switch v := get().(type) {
		case map[string]any:
			keys := make([]string, 0, len(v))
			for k := range v {
				keys = append(keys, k)
			}
			sort.Strings(keys)
			for _, k := range keys {
				k := k
				walk(func() any { return v[k] }, func(x any) { v[k] = x }, func() { delete(v, k) })
			}
		case []any:
			for i := range v {
				i := i
				walk(func() any { return v[i] }, func(x any) { v[i] = x }, nil)
			}
		}
	}
	walk(func() any { return *root }, func(x any) { *root = x }, nil)
	return out
}

func (m jmut) scalar() any {
	r := m.r
	switch r.Intn(8) {
	case 0:
		return nil
	case 1:
		return r.Bool()
	case 2:
		return gojson.Number(strconv.Itoa(r.Intn(5)))
	case 3:
		return numberStrings[r.Intn(len(numberStrings))]
	case 4:
		return jsonTypeNames[r.Intn(len(jsonTypeNames))]
	case 5:
		return []any{}
	case 6:
		return map[string]any{}
	}
	return jsonKindNames[r.Intn(len(jsonKindNames))]
}

func (m jmut) mutate(doc any) any {
	r := m.r
	slots := jsonSlots(&doc)
	s := slots[r.Intn(len(slots))]
	switch r.Intn(9) {
	case 0: // delete a member
		if s.del != nil {
			s.del()
			return doc
		}
		fallthrough
	case 1: // replace by a scalar / empty container
		s.set(m.scalar())
	case 2: // add a member to an object
		if o, ok := s.get().(map[string]any); ok {
			o[jsonKeys[r.Intn(len(jsonKeys))]] = m.scalar()
		} else {
			s.set(m.scalar())
		}
	case 3: // change a "type" / "kind" string
		if o, ok := s.get().(map[string]any); ok {
			if _, has := o["type"]; has && r.Bool() {
				o["type"] = jsonTypeNames[r.Intn(len(jsonTypeNames))]
			} else if _, has := o["kind"]; has {
				o["kind"] = jsonKindNames[r.Intn(len(jsonKindNames))]
			} else {
				o["type"] = jsonTypeNames[r.Intn(len(jsonTypeNames))]
			}
		} else {
			s.set(m.scalar())
		}
	case 4: // replace a string by a boundary number string / odd string
		if _, ok := s.get().(string); ok {
			s.set(numberStrings[r.Intn(len(numberStrings))])
		} else {
			s.set(m.scalar())
		}
	case 5: // copy another subtree here
		o := slots[r.Intn(len(slots))]
		b, _ := gojson.Marshal(o.get())
		var cp any
		d := gojson.NewDecoder(bytes.NewReader(b))
		d.UseNumber()
		_ = d.Decode(&cp)
		s.set(cp)
	case 6: // drop / duplicate an array element
		if a, ok := s.get().([]any); ok && len(a) > 0 {
			i := r.Intn(len(a))
			if r.Bool() {
				s.set(append(append([]any{}, a[:i]...), a[i+1:]...))
			} else {
				s.set(append(append([]any{}, a...), a[i]))
			}
		} else {
			s.set(m.scalar())
		}
	case 7: // rename a key
		if o, ok := s.get().(map[string]any); ok && len(o) > 0 {
			keys := make([]string, 0, len(o))
			for k := range o {
				keys = append(keys, k)
			}
			sort.Strings(keys)
			k := keys[r.Intn(len(keys))]
			v := o[k]
			delete(o, k)
			o[jsonKeys[r.Intn(len(jsonKeys))]] = v
		} else {
			s.set(m.scalar())
		}
	case 8: // wrap in a value object
		s.set(map[string]any{"type": jsonTypeNames[r.Intn(len(jsonTypeNames))], "value": s.get()})
	}
	return doc
}

func mutateJSONText(r *hx.Rng, text []byte) (string, bool) {
	var doc any
	d := gojson.NewDecoder(bytes.NewReader(text))
	d.UseNumber()
	if err := d.Decode(&doc); err != nil {
		return "", false
	}
	m := jmut{r}
	for i, n := 0, 1+r.Intn(2); i < n; i++ {
		doc = m.mutate(doc)
	}
	var buf bytes.Buffer
	e := gojson.NewEncoder(&buf)
	e.SetEscapeHTML(false)
	if err := e.Encode(doc); err != nil {
		return "", false
	}
	return strings.TrimRight(buf.String(), "\n"), true
}

func mutateBytes(r *hx.Rng, b []byte) []byte {
	b = append([]byte{}, b...)
	for i, n := 0, 1+r.Intn(3); i < n; i++ {
		switch r.Intn(6) {
		case 0:
			if len(b) > 0 {
				b = b[:r.Intn(len(b))]
			}
		case 1:
			if len(b) > 0 {
				b[r.Intn(len(b))] ^= byte(1 << r.Intn(8))
			}
		case 2:
			if len(b) > 0 {
				b[r.Intn(len(b))] = r.Byte()
			}
		case 3:
			i := r.Intn(len(b) + 1)
			b = append(b[:i:i], append(r.Bytes(1+r.Intn(3)), b[i:]...)...)
		case 4:
			if len(b) > 1 {
				i := r.Intn(len(b) - 1)
				j := i + 1 + r.Intn(len(b)-i-1)
				b = append(b[:i:i], b[j:]...)
			}
		case 5:
			if len(b) > 1 {
				i := r.Intn(len(b) - 1)
				j := i + 1 + r.Intn(len(b)-i-1)
				b = append(b[:j:j], append(append([]byte{}, b[i:j]...), b[j:]...)...)
			}
		}
	}
	return b
}

func encodeGuard(f func() ([]byte, error)) (b []byte, err error, panicked bool) {
	defer func() {
		if r := recover(); r != nil {
			panicked = true
		}
	}()
	b, err = f()
	return
}

func genJSON(c *hx.Ctx) {
	r := decorrelate(c)
	g := cval.NewGen(r, jsonProfile(c))
	// boundary probes: every scalar type name with every boundary / odd number string
	for _, ty := range jsonTypeNames {
		switch ty {
		case "Array", "Dictionary", "Struct", "Resource", "Attachment", "Event", "Contract", "Path", "Type", "Capability",
			"Enum", "Function", "InclusiveRange", "Optional", "Void":
			continue
		}
		for _, s := range numberStrings {
			b, _ := gojson.Marshal(map[string]any{"type": ty, "value": s})
			c.Emit("json", "dec", string(b))
		}
	}
	for i := 0; i < c.N; i++ {
		v := g.Top()
		sx := cval.ValueSx(v)
		if len(sx) > 60000 {
			continue
		}
		c.Emit("json", "rt", sx)
		if r.Chance(60) {
			enc, err, p := encodeGuard(func() ([]byte, error) { return jsoncdc.Encode(v) })
			if err != nil || p {
				continue
			}
			for k, n := 0, 1+r.Intn(3); k < n; k++ {
				if t, ok := mutateJSONText(r, enc); ok && len(t) < 60000 {
					c.Emit("json", "dec", t)
				}
			}
			if r.Chance(50) {
				c.Emit("json", "mutb", hx.Hex(mutateBytes(r, enc)))
			}
		}
	}
}

func execJSON(op []string) (res string) {
	defer func() {
		if r := recover(); r != nil {
			res = "panic"
		}
	}()
	switch op[1] {
	case "rt":
		v, err := cval.ParseValue(op[2])
		if err != nil {
			return "bad-op"
		}
		enc, err := jsoncdc.Encode(v)
		if err != nil {
			return "encerr"
		}
		dec, err := jsoncdc.Decode(nil, enc)
		if err != nil {
			return "decerr:" + hx.Hex(enc)
		}
		same := "diff"
		if re, err := jsoncdc.Encode(dec); err == nil && bytes.Equal(re, enc) {
			same = "same"
		}
		return "ok:" + same + ":" + hx.Hex(enc) + ":" + cval.ValueSx(dec)
	case "dec":
		dec, err := jsoncdc.Decode(nil, []byte(op[2]))
		if err != nil {
			return "err"
		}
		return "ok:" + cval.ValueSx(dec)
	case "mutb":
		_, err := jsoncdc.Decode(nil, hx.UnHex(op[2]))
		if err != nil {
			return "err"
		}
		return "ok"
	}
	return "bad-op"
}

// decorrelate derives the stream's generator from the seed through a non-linear mix: hx.NewRng is
// affine in the seed, so the streams of consecutive seeds are the same sequence shifted by one draw.
func decorrelate(c *hx.Ctx) *hx.Rng {
	z := (c.Seed + 1) * 0xBF58476D1CE4E5B9
	z ^= z >> 27
	z *= 0x94D049BB133111EB
	z ^= z >> 31
	return hx.NewRng(z)
}
