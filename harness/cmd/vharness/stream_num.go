package main

// Stream `num` (properties C11, C12; reusable for C13/C14): the arithmetic methods of the integer
// value types, called directly on interpreter values (`interpreter.NewUnmeteredInt8Value(a).Plus(ctx, b)`)
// and, for a sample, through Cadence scripts in both engines (operator dispatch, value construction).
//
// Line:  num <Type> <Method> <a> <b|-> [interp|vm]  =>  ok:<n> | err:<kind> | panic
// Exhaustive for Int8 / UInt8 / Word8 (all operand pairs x Plus Minus Mul Div Mod, all Negate; one line
// per (type, method, a) with b = `*`: the observation lists the results for every b in ascending order),
// boundary-biased pairs for the wider types.
//
// Helpers numTypeTable / numExec / numBoundary are written for reuse by later streams (saturating,
// bitwise, shifts): list this file in PROP["harness_files"].

import (
	"fmt"
	"math/big"
	"strings"
	"sync"

	"github.com/onflow/cadence/common"
	"github.com/onflow/cadence/interpreter"
	"github.com/onflow/cadence/values"

	"verif/harness/internal/cdc"
	"verif/harness/internal/hx"
)

func init() {
	hx.Register(&hx.Stream{Name: "num", Gen: genNum, Exec: numExec, Parallel: true})
}

type numType struct {
	name   string
	family string // int | uint | word
	bits   int    // 0 = unbounded
	mk     func(x *big.Int) interpreter.NumberValue
}

func (t numType) lo() *big.Int {
	if t.family != "int" {
		return big.NewInt(0)
	}
	if t.bits == 0 {
		return nil
	}
	return new(big.Int).Neg(new(big.Int).Lsh(big.NewInt(1), uint(t.bits-1)))
}
func (t numType) hi() *big.Int {
	if t.bits == 0 {
		return nil
	}
	if t.family == "int" {
		return new(big.Int).Sub(new(big.Int).Lsh(big.NewInt(1), uint(t.bits-1)), big.NewInt(1))
	}
	return new(big.Int).Sub(new(big.Int).Lsh(big.NewInt(1), uint(t.bits)), big.NewInt(1))
}
func (t numType) inRange(x *big.Int) bool {
	if l := t.lo(); l != nil && x.Cmp(l) < 0 {
		return false
	}
	if h := t.hi(); h != nil && x.Cmp(h) > 0 {
		return false
	}
	return true
}

var numTypeTable = []numType{
	{"Int8", "int", 8, func(x *big.Int) interpreter.NumberValue { return interpreter.NewUnmeteredInt8Value(int8(x.Int64())) }},
	{"Int16", "int", 16, func(x *big.Int) interpreter.NumberValue { return interpreter.NewUnmeteredInt16Value(int16(x.Int64())) }},
	{"Int32", "int", 32, func(x *big.Int) interpreter.NumberValue { return interpreter.NewUnmeteredInt32Value(int32(x.Int64())) }},
	{"Int64", "int", 64, func(x *big.Int) interpreter.NumberValue { return interpreter.NewUnmeteredInt64Value(x.Int64()) }},
	{"Int128", "int", 128, func(x *big.Int) interpreter.NumberValue { return interpreter.NewUnmeteredInt128ValueFromBigInt(x) }},
	{"Int256", "int", 256, func(x *big.Int) interpreter.NumberValue { return interpreter.NewUnmeteredInt256ValueFromBigInt(x) }},
	{"Int", "int", 0, func(x *big.Int) interpreter.NumberValue { return interpreter.NewUnmeteredIntValueFromBigInt(x) }},
	{"UInt8", "uint", 8, func(x *big.Int) interpreter.NumberValue { return interpreter.NewUnmeteredUInt8Value(uint8(x.Uint64())) }},
	{"UInt16", "uint", 16, func(x *big.Int) interpreter.NumberValue { return interpreter.NewUnmeteredUInt16Value(uint16(x.Uint64())) }},
	{"UInt32", "uint", 32, func(x *big.Int) interpreter.NumberValue { return interpreter.NewUnmeteredUInt32Value(uint32(x.Uint64())) }},
	{"UInt64", "uint", 64, func(x *big.Int) interpreter.NumberValue { return interpreter.NewUnmeteredUInt64Value(x.Uint64()) }},
	{"UInt128", "uint", 128, func(x *big.Int) interpreter.NumberValue { return interpreter.NewUnmeteredUInt128ValueFromBigInt(x) }},
	{"UInt256", "uint", 256, func(x *big.Int) interpreter.NumberValue { return interpreter.NewUnmeteredUInt256ValueFromBigInt(x) }},
	{"UInt", "uint", 0, func(x *big.Int) interpreter.NumberValue { return interpreter.NewUnmeteredUIntValueFromBigInt(x) }},
	{"Word8", "word", 8, func(x *big.Int) interpreter.NumberValue { return interpreter.NewUnmeteredWord8Value(uint8(x.Uint64())) }},
	{"Word16", "word", 16, func(x *big.Int) interpreter.NumberValue { return interpreter.NewUnmeteredWord16Value(uint16(x.Uint64())) }},
	{"Word32", "word", 32, func(x *big.Int) interpreter.NumberValue { return interpreter.NewUnmeteredWord32Value(uint32(x.Uint64())) }},
	{"Word64", "word", 64, func(x *big.Int) interpreter.NumberValue { return interpreter.NewUnmeteredWord64Value(x.Uint64()) }},
	{"Word128", "word", 128, func(x *big.Int) interpreter.NumberValue { return interpreter.NewUnmeteredWord128ValueFromBigInt(x) }},
	{"Word256", "word", 256, func(x *big.Int) interpreter.NumberValue { return interpreter.NewUnmeteredWord256ValueFromBigInt(x) }},
}

func numTypeByName(n string) (numType, bool) {
	for _, t := range numTypeTable {
		if t.name == n {
			return t, true
		}
	}
	return numType{}, false
}

var numArithOps = []string{"Plus", "Minus", "Mul", "Div", "Mod"}

// Cadence surface syntax of a method (scripts)
var numOpSyntax = map[string]string{"Plus": "a + b", "Minus": "a - b", "Mul": "a * b", "Div": "a / b", "Mod": "a % b", "Negate": "-a",
	"SaturatingPlus": "a.saturatingAdd(b)", "SaturatingMinus": "a.saturatingSubtract(b)",
	"SaturatingMul": "a.saturatingMultiply(b)", "SaturatingDiv": "a.saturatingDivide(b)",
	"BitwiseOr": "a | b", "BitwiseXor": "a ^ b", "BitwiseAnd": "a & b", "BitwiseLeftShift": "a << b", "BitwiseRightShift": "a >> b"}

// boundary-biased value of a type
func numBoundary(r *hx.Rng, t numType) *big.Int {
	bits := t.bits
	if bits == 0 {
		bits = []int{8, 63, 64, 65, 128, 200, 256, 300}[r.Intn(8)]
	}
	var x *big.Int
	pow := func(k int) *big.Int { return new(big.Int).Lsh(big.NewInt(1), uint(k)) }
	switch r.Intn(10) {
	case 0:
		x = big.NewInt(int64(r.Intn(5)) - 2)
	case 1: // near the upper bound
		h := t.hi()
		if h == nil {
			h = pow(bits)
		}
		x = new(big.Int).Sub(h, big.NewInt(int64(r.Intn(4))))
	case 2: // near the lower bound
		l := t.lo()
		if l == nil {
			l = new(big.Int).Neg(pow(bits))
		}
		x = new(big.Int).Add(l, big.NewInt(int64(r.Intn(4))))
	case 3, 4: // ±2^k + d
		k := r.Intn(bits + 1)
		x = new(big.Int).Add(pow(k), big.NewInt(int64(r.Intn(5))-2))
		if r.Bool() {
			x.Neg(x)
		}
	case 5: // around the square root of the bound (products straddling the limit)
		k := bits / 2
		x = new(big.Int).Add(pow(k), big.NewInt(int64(r.Intn(9))-4))
		if r.Chance(30) {
			x = new(big.Int).Sqrt(pow(bits - 1))
			x.Add(x, big.NewInt(int64(r.Intn(5))-2))
		}
		if r.Bool() {
			x.Neg(x)
		}
	case 6: // small
		x = big.NewInt(int64(r.Intn(41)) - 20)
	default: // random of random bit length
		n := 1 + r.Intn(bits)
		x = new(big.Int).SetBytes(r.Bytes((n + 7) / 8))
		x.Rsh(x, uint((8-n%8)%8))
		if r.Bool() {
			x.Neg(x)
		}
	}
	// force into range: reflect / clamp
	if !t.inRange(x) {
		if t.family != "int" && x.Sign() < 0 {
			x.Neg(x)
		}
		if h := t.hi(); h != nil && x.Cmp(h) > 0 {
			x.Mod(x, new(big.Int).Add(h, big.NewInt(1)))
		}
		if l := t.lo(); l != nil && x.Cmp(l) < 0 {
			x.Set(l)
		}
	}
	return x
}

// a partner for `a` that puts `a op b` near a bound (quotients of the bounds, differences to the bounds)
func numPartner(r *hx.Rng, t numType, a *big.Int) *big.Int {
	h, l := t.hi(), t.lo()
	if h == nil {
		h = new(big.Int).Lsh(big.NewInt(1), 128)
	}
	if l == nil {
		l = new(big.Int).Neg(h)
	}
	var x *big.Int
	d := big.NewInt(int64(r.Intn(5)) - 2)
	switch r.Intn(6) {
	case 0:
		x = new(big.Int).Sub(h, a) // a + x = hi
	case 1:
		x = new(big.Int).Sub(l, a) // a + x = lo
	case 2:
		x = new(big.Int).Sub(a, h) // a - x = hi
	case 3:
		x = new(big.Int).Sub(a, l) // a - x = lo
	case 4:
		if a.Sign() == 0 {
			return numBoundary(r, t)
		}
		x = new(big.Int).Quo(h, a) // a * x ~ hi
	default:
		if a.Sign() == 0 {
			return numBoundary(r, t)
		}
		x = new(big.Int).Quo(l, a) // a * x ~ lo
	}
	x.Add(x, d)
	if !t.inRange(x) {
		return numBoundary(r, t)
	}
	return x
}

func genNum(c *hx.Ctx) {
	r := c.Rng
	// 1. exhaustive 8-bit
	for _, tn := range []string{"Int8", "UInt8", "Word8"} {
		t, _ := numTypeByName(tn)
		lo, hi := int(t.lo().Int64()), int(t.hi().Int64())
		for a := lo; a <= hi; a++ {
			if tn == "Int8" {
				c.Emit("num", tn, "Negate", fmt.Sprint(a), "-")
			}
			// one line per (type, method, a): `*` stands for every b of the type in ascending order,
			// the observation is the comma-joined list of the 256 results
			for _, op := range numArithOps {
				c.Emit("num", tn, op, fmt.Sprint(a), "*")
			}
		}
	}
	// 2. boundary-biased pairs for every type; c.N pairs per type, all five operators on each pair
	for _, t := range numTypeTable {
		for i := 0; i < c.N; i++ {
			a := numBoundary(r, t)
			var b *big.Int
			if r.Chance(45) {
				b = numPartner(r, t, a)
			} else {
				b = numBoundary(r, t)
			}
			if r.Chance(8) {
				b = big.NewInt(0)
			}
			for _, op := range numArithOps {
				c.Emit("num", t.name, op, a.String(), b.String())
			}
			if t.family == "int" && r.Chance(30) {
				c.Emit("num", t.name, "Negate", a.String(), "-")
			}
		}
	}
	// 3. whole-pipeline sample: the same operations as Cadence scripts, both engines
	nScripts := c.N / 10
	if nScripts > 400 {
		nScripts = 400
	}
	for i := 0; i < nScripts; i++ {
		t := numTypeTable[r.Intn(len(numTypeTable))]
		a := numBoundary(r, t)
		b := numPartner(r, t, a)
		if r.Chance(10) {
			b = big.NewInt(0)
		}
		op := numArithOps[r.Intn(len(numArithOps))]
		eng := []string{"interp", "vm"}[i%2]
		if t.family == "int" && r.Chance(10) {
			c.Emit("num", t.name, "Negate", a.String(), "-", eng)
		} else {
			c.Emit("num", t.name, op, a.String(), b.String(), eng)
		}
	}
}

var numCtxPool = sync.Pool{New: func() any {
	inter, err := interpreter.NewInterpreter(nil, common.ScriptLocation{}, &interpreter.Config{
		Storage: interpreter.NewInMemoryStorage(nil, nil),
	})
	if err != nil {
		panic(err)
	}
	return inter
}}

func numErrKind(r any) string {
	switch r.(type) {
	case *interpreter.OverflowError, interpreter.OverflowError, values.OverflowError, *values.OverflowError:
		return "err:overflow"
	case *interpreter.UnderflowError, interpreter.UnderflowError, values.UnderflowError, *values.UnderflowError:
		return "err:underflow"
	case *interpreter.DivisionByZeroError, interpreter.DivisionByZeroError, values.DivisionByZeroError, *values.DivisionByZeroError:
		return "err:divzero"
	case *interpreter.NegativeShiftError, interpreter.NegativeShiftError, values.NegativeShiftError, *values.NegativeShiftError:
		return "err:negshift"
	case *interpreter.InvalidOperandsError, interpreter.InvalidOperandsError:
		return "err:invalidoperands"
	}
	// errors.NewUnreachableError() is an UnexpectedError whose only distinguishing mark is its text
	if e, ok := r.(error); ok && strings.Contains(fmt.Sprintf("%T", r), "UnexpectedError") && strings.Contains(e.Error(), "unreachable") {
		return "err:unreachable"
	}
	return "panic"
}

// numCall invokes method `op` of the real value type
func numCall(ctx *interpreter.Interpreter, op string, a, b interpreter.NumberValue) (res interpreter.Value, ok bool) {
	switch op {
	case "Negate":
		return a.Negate(ctx), true
	case "Plus":
		return a.Plus(ctx, b), true
	case "Minus":
		return a.Minus(ctx, b), true
	case "Mul":
		return a.Mul(ctx, b), true
	case "Div":
		return a.Div(ctx, b), true
	case "Mod":
		return a.Mod(ctx, b), true
	case "SaturatingPlus":
		return a.SaturatingPlus(ctx, b), true
	case "SaturatingMinus":
		return a.SaturatingMinus(ctx, b), true
	case "SaturatingMul":
		return a.SaturatingMul(ctx, b), true
	case "SaturatingDiv":
		return a.SaturatingDiv(ctx, b), true
	}
	ai, ok1 := a.(interpreter.IntegerValue)
	bi, ok2 := b.(interpreter.IntegerValue)
	if !ok1 || !ok2 {
		return nil, false
	}
	switch op {
	case "BitwiseOr":
		return ai.BitwiseOr(ctx, bi), true
	case "BitwiseXor":
		return ai.BitwiseXor(ctx, bi), true
	case "BitwiseAnd":
		return ai.BitwiseAnd(ctx, bi), true
	case "BitwiseLeftShift":
		return ai.BitwiseLeftShift(ctx, bi), true
	case "BitwiseRightShift":
		return ai.BitwiseRightShift(ctx, bi), true
	}
	return nil, false
}

func numExec(op []string) (out string) {
	if len(op) < 5 {
		return "bad-op"
	}
	t, ok := numTypeByName(op[1])
	if !ok {
		return "bad-op"
	}
	if op[4] == "*" && t.bits == 8 && len(op) == 5 {
		lo, hi := t.lo().Int64(), t.hi().Int64()
		parts := make([]string, 0, 256)
		for b := lo; b <= hi; b++ {
			parts = append(parts, numExec([]string{op[0], op[1], op[2], op[3], fmt.Sprint(b)}))
		}
		return strings.Join(parts, ",")
	}
	a, okA := new(big.Int).SetString(op[3], 10)
	b := big.NewInt(0)
	okB := true
	if op[4] != "-" {
		b, okB = new(big.Int).SetString(op[4], 10)
	}
	if !okA || !okB || !t.inRange(a) || !t.inRange(b) {
		return "bad-op"
	}
	if len(op) >= 6 {
		return numScript(t, op[2], a, b, op[4] == "-", op[5] == "vm")
	}
	ctx := numCtxPool.Get().(*interpreter.Interpreter)
	defer numCtxPool.Put(ctx)
	defer func() {
		if r := recover(); r != nil {
			out = numErrKind(r)
		}
	}()
	res, ok := numCall(ctx, op[2], t.mk(a), t.mk(b))
	if !ok {
		return "bad-op"
	}
	if res == nil {
		return "nil"
	}
	return "ok:" + res.String()
}

func numScript(t numType, op string, a, b *big.Int, unary bool, vm bool) string {
	expr, ok := numOpSyntax[op]
	if !ok {
		return "bad-op"
	}
	src := fmt.Sprintf("access(all) fun main(a: %s, b: %s): %s { return %s }", t.name, t.name, t.name, expr)
	arg := func(x *big.Int) []byte {
		return []byte(fmt.Sprintf(`{"type":"%s","value":"%s"}`, t.name, x.String()))
	}
	env := cdc.NewEnv()
	o := env.Script(src, [][]byte{arg(a), arg(b)}, vm)
	switch o.Class {
	case "none":
		return "ok:" + o.Value.String()
	case "user":
		switch {
		case strings.Contains(o.Kind, "Overflow"):
			return "err:overflow"
		case strings.Contains(o.Kind, "Underflow"):
			return "err:underflow"
		case strings.Contains(o.Kind, "DivisionByZero"):
			return "err:divzero"
		case strings.Contains(o.Kind, "NegativeShift"):
			return "err:negshift"
		}
		return "err:user-" + o.Kind
	}
	return "err-" + o.Class
}
