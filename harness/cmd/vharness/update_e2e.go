package main

// Full-path lines of stream `update` (property C27):
//
//	update e2e <engine> <old S-expr> <new S-expr> <old source> <new source> <store tx> <checks>
//	   =>  accepted n=<k> | accepted bad=<id>:<what>,... | rejected:<kinds> | notchecked:<kind> | setup:<stage>:<kind>
//
// Exec deploys <old source> as contract C of account 0x1 on a fresh ledger (real runtime, engine
// interp|vm), runs <store tx> (stores values of the old version's types under /storage/...), runs the
// checks against the old code, updates the contract through `contracts.update` with <new source>, and
// runs the checks again against the new code.
//
// <checks> = check (" @@ " check)*      check = ID "::" MODE "::" PRE "::" POST
//
//	MODE s  (stable): the statements PRE are run before the update, POST after it (as the body of a script
//	        whose first statement binds `a` to the authorised account 0x1); the update is bad for this
//	        check when POST fails at run time or logs something else than PRE did;
//	MODE p  (post only): POST must run and log nothing but `true`.
//
// A check whose PRE fails, or whose POST does not type-check under the new code, says nothing about stored
// data (`setup:…`, or the check is dropped and counted in n= as `u`).
//
// `bad=` is the direct oracle of the property: the update was accepted, and afterwards a stored value
// fails to load / lacks a field the new version declares / has a field of another type / an enum value
// denotes another case / a value is no longer an instance of an interface it conformed to.

import (
	"errors"
	"fmt"
	"os"
	"sort"
	"strings"

	"github.com/onflow/cadence/common"
	"github.com/onflow/cadence/runtime"
	"github.com/onflow/cadence/stdlib"

	"verif/harness/internal/acct"
	"verif/harness/internal/cdc"
	"verif/harness/internal/hx"
)

// ---------------------------------------------------------------------------------------------
// execution

type eCheck struct {
	ID, Mode, Pre, Post string
}

func eParseChecks(s string) []eCheck {
	var out []eCheck
	if s == "" || s == "-" {
		return out
	}
	for _, part := range strings.Split(s, " @@ ") {
		f := strings.Split(part, "::")
		if len(f) != 4 {
			return nil
		}
		out = append(out, eCheck{f[0], f[1], f[2], f[3]})
	}
	return out
}

const eScriptHead = "import C from 0x1\naccess(all) fun main() { let a = getAuthAccount<auth(Storage) &Account>(0x1)\n"

func eScript(bodies ...string) string {
	var b strings.Builder
	b.WriteString(eScriptHead)
	for _, body := range bodies {
		b.WriteString(body)
		b.WriteString("\n")
	}
	b.WriteString("}")
	return b.String()
}

// result of running one check body: logs joined, or an error label
type eRun struct {
	logs string
	err  string // "" | "static:<kind>" | "<class>:<kind>"
}

func eRunOne(env *acct.Env, body string, useVM bool) eRun {
	out := env.Script(eScript(body), useVM)
	if out.Class != "none" {
		if eIsStatic(out) {
			return eRun{err: "static:" + out.Kind}
		}
		return eRun{err: out.Class + ":" + out.Kind}
	}
	return eRun{logs: strings.Join(out.Logs, ";")}
}

func eIsStatic(out *cdc.Outcome) bool {
	if out.Err == nil {
		return false
	}
	var pce *runtime.ParsingCheckingError
	return errors.As(out.Err, &pce)
}

func debugOut() *os.File { return os.Stderr }

// all bodies in one script, separated by marker logs; falls back to one script per body when the
// combined script fails
func eRunAll(env *acct.Env, bodies []string, useVM bool) []eRun {
	res := make([]eRun, len(bodies))
	if len(bodies) == 0 {
		return res
	}
	var parts []string
	for i, b := range bodies {
		parts = append(parts, fmt.Sprintf("log(\"#%d\")\nif true {\n%s\n}", i, b))
	}
	out := env.Script(eScript(parts...), useVM)
	if out.Class == "none" {
		cur := -1
		var acc [][]string = make([][]string, len(bodies))
		for _, l := range out.Logs {
			if strings.HasPrefix(l, "\"#") {
				var k int
				if _, err := fmt.Sscanf(l, "\"#%d\"", &k); err == nil && k == cur+1 {
					cur = k
					continue
				}
			}
			if cur >= 0 {
				acc[cur] = append(acc[cur], l)
			}
		}
		for i := range bodies {
			res[i] = eRun{logs: strings.Join(acc[i], ";")}
		}
		return res
	}
	for i, b := range bodies {
		res[i] = eRunOne(env, b, useVM)
	}
	return res
}

func execUpdateE2E(op []string) string {
	if len(op) != 9 {
		return "bad-op"
	}
	useVM := op[2] == "vm"
	oldSrc, newSrc, storeTx := op[5], op[6], op[7]
	checks := eParseChecks(op[8])
	if checks == nil && op[8] != "-" {
		return "bad-op"
	}
	if uSX(oldSrc, true) != op[3] || uSX(newSrc, false) != op[4] {
		return "sx-mismatch"
	}
	env := acct.NewEnv()
	env.Signers = []common.Address{common.MustBytesToAddress([]byte{1})}
	dep := env.Tx(fmt.Sprintf(`transaction { prepare(a: auth(Contracts) &Account) { a.contracts.add(name: "C", code: "%x".decodeHex()) } }`, oldSrc), useVM)
	if dep.Class != "none" {
		return "setup:deploy:" + dep.Kind
	}
	if storeTx != "-" {
		st := env.Tx(storeTx, useVM)
		if st.Class != "none" {
			if debugUpdate() {
				fmt.Fprintln(debugOut(), "store failed:", st.Err)
			}
			return "setup:store:" + st.Kind
		}
	}
	pres := make([]string, len(checks))
	posts := make([]string, len(checks))
	for i, c := range checks {
		pres[i], posts[i] = c.Pre, c.Post
		if c.Mode == "p" {
			pres[i] = ""
		}
	}
	pre := eRunAll(env, pres, useVM)
	for i, c := range checks {
		if pre[i].err != "" {
			if debugUpdate() {
				fmt.Fprintln(debugOut(), "pre failed:", c.ID, pre[i].err)
			}
			return "setup:pre-" + c.ID + ":" + pre[i].err
		}
	}
	up := env.Tx(fmt.Sprintf(`transaction { prepare(a: auth(Contracts) &Account) { a.contracts.update(name: "C", code: "%x".decodeHex()) } }`, newSrc), useVM)
	if up.Class != "none" {
		var cue *stdlib.ContractUpdateError
		if errors.As(up.Err, &cue) {
			return "rejected:" + strings.TrimPrefix(uErrKinds(cue), "err:")
		}
		return "notchecked:" + up.Kind
	}
	post := eRunAll(env, posts, useVM)
	var bad []string
	unusable := 0
	for i, c := range checks {
		switch {
		case strings.HasPrefix(post[i].err, "static:"):
			unusable++
		case post[i].err != "":
			bad = append(bad, c.ID+":posterr:"+post[i].err)
		case c.Mode == "s" && post[i].logs != pre[i].logs:
			bad = append(bad, c.ID+":changed")
		case c.Mode == "p":
			for _, l := range strings.Split(post[i].logs, ";") {
				if l != "true" {
					bad = append(bad, c.ID+":false")
					break
				}
			}
		}
	}
	if len(bad) > 0 {
		sort.Strings(bad)
		if debugUpdate() {
			for i, c := range checks {
				fmt.Fprintf(debugOut(), "check %s pre[%s %s] post[%s %s]\n", c.ID, pre[i].logs, pre[i].err, post[i].logs, post[i].err)
			}
		}
		return "accepted bad=" + strings.Join(bad, ",")
	}
	return fmt.Sprintf("accepted n=%d u=%d", len(checks)-unusable, unusable)
}

// ---------------------------------------------------------------------------------------------
// generator

type eScenario struct {
	Old, New, Store string
	Checks          []eCheck
}

func eStoreTx(stmts ...string) string {
	return "import C from 0x1 transaction { prepare(a: auth(Storage) &Account) { " + strings.Join(stmts, "; ") + " } }"
}

func eOneLine(s string) string {
	return strings.Join(strings.Fields(s), " ")
}

func (sc eScenario) emit(c *hx.Ctx, engine string) {
	var cs []string
	for _, k := range sc.Checks {
		cs = append(cs, k.ID+"::"+k.Mode+"::"+eOneLine(k.Pre)+"::"+eOneLine(k.Post))
	}
	checks := "-"
	if len(cs) > 0 {
		checks = strings.Join(cs, " @@ ")
	}
	o, n := eOneLine(sc.Old), eOneLine(sc.New)
	c.Emit("update", "e2e", engine, uSX(o, true), uSX(n, false), o, n, eOneLine(sc.Store), checks)
}

// hand-written histories: one per rule of the property, and the candidates of DESIGN/notes
var eFixed = []eScenario{
	{ // interface J drops its conformance to I; S: J sits in a stored [{C.I}]
		Old: `access(all) contract C {
			access(all) struct interface I { access(all) fun n0(): Int }
			access(all) struct interface J: I { }
			access(all) struct S: J { access(all) let x: Int; init(x: Int) { self.x = x } access(all) fun n0(): Int { return self.x } }
		}`,
		New: `access(all) contract C {
			access(all) struct interface I { access(all) fun n0(): Int }
			access(all) struct interface J { }
			access(all) struct S: J { access(all) let x: Int; init(x: Int) { self.x = x } access(all) fun n0(): Int { return self.x } }
		}`,
		Store: eStoreTx(`let xs: [{C.I}] = [C.S(x: 5)]`, `a.storage.save(xs, to: /storage/v0)`),
		Checks: []eCheck{
			{"load", "s", `let xs = a.storage.copy<[{C.I}]>(from: /storage/v0)!; log(xs.length)`, `let xs = a.storage.copy<[{C.I}]>(from: /storage/v0)!; log(xs.length)`},
			{"inst", "p", ``, `let xs = a.storage.copy<[{C.I}]>(from: /storage/v0)!; log(xs[0].isInstance(Type<{C.I}>()))`},
			{"elem", "s", `let xs = a.storage.copy<[{C.I}]>(from: /storage/v0)!; let e: {C.I} = xs[0]; log(e.n0())`, `let xs = a.storage.copy<[{C.I}]>(from: /storage/v0)!; let e: {C.I} = xs[0]; log(e.n0())`},
			{"borrow", "s", `let r = a.storage.borrow<&[{C.I}]>(from: /storage/v0)!; log(r[0].n0())`, `let r = a.storage.borrow<&[{C.I}]>(from: /storage/v0)!; log(r[0].n0())`},
			{"cast", "s", `let v = a.storage.copy<AnyStruct>(from: /storage/v0)!; let xs = v as! [{C.I}]; log(xs.length)`, `let v = a.storage.copy<AnyStruct>(from: /storage/v0)!; let xs = v as! [{C.I}]; log(xs.length)`},
			{"castelem", "s", `let v = a.storage.copy<[AnyStruct]>(from: /storage/v0)!; let e = v[0] as! {C.I}; log(e.n0())`, `let v = a.storage.copy<[AnyStruct]>(from: /storage/v0)!; let e = v[0] as! {C.I}; log(e.n0())`},
		},
	},
}

func genUpdateE2E(c *hx.Ctx) {
	for _, sc := range eFixed {
		sc.emit(c, "interp")
		sc.emit(c, "vm")
	}
}
