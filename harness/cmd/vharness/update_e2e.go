package main

// Full-path lines of stream `update` (property C27):
//
//	update e2e <engine> <old S-expr> <new S-expr> <old source> <new source> <store tx> <checks>
//	   =>  accepted n=<k> | accepted bad=<id>:<what>,... | rejected:<kinds> | notchecked:<kind> | setup:<stage>:<kind>
//
// Exec deploys <old source> as contract C of account 0x1 on a fresh ledger (real runtime, engine
// interp|vm), runs <store tx> (stores values of the old version's types under /storage/...), runs the
// checks against the old code, updates the contract through `contracts.update` with <new source>, and
// runs the checks again against the new code.
//
// <checks> = check (" @@ " check)*      check = ID "::" MODE "::" PRE "::" POST
//
//	MODE s  (stable): the statements PRE are run before the update, POST after it (as the body of a script
//	        whose first statement binds `a` to the authorised account 0x1); the update is bad for this
//	        check when POST fails at run time or logs something else than PRE did;
//	MODE p  (post only): POST must run and log nothing but `true`.
//
// A check whose PRE fails, or whose POST does not type-check under the new code, says nothing about stored
// data (`setup:…`, or the check is dropped and counted in n= as `u`).
//
// `bad=` is the direct oracle of the property: the update was accepted, and afterwards a stored value
// fails to load / lacks a field the new version declares / has a field of another type / an enum value
// denotes another case / a value is no longer an instance of an interface it conformed to.

import (
	"errors"
	"fmt"
	"os"
	"sort"
	"strings"

	"github.com/onflow/cadence/common"
	"github.com/onflow/cadence/runtime"
	"github.com/onflow/cadence/stdlib"

	"verif/harness/internal/acct"
	"verif/harness/internal/cdc"
	"verif/harness/internal/hx"
)

// ---------------------------------------------------------------------------------------------
// execution

type eCheck struct {
	ID, Mode, Pre, Post string
}

func eParseChecks(s string) []eCheck {
	var out []eCheck
	if s == "" || s == "-" {
		return out
	}
	for _, part := range strings.Split(s, " @@ ") {
		f := strings.Split(part, "::")
		if len(f) != 4 {
			return nil
		}
		out = append(out, eCheck{f[0], f[1], f[2], f[3]})
	}
	return out
}

const eScriptHead = "import C from 0x1\naccess(all) fun main() { let a = getAuthAccount<auth(Storage) &Account>(0x1)\n"

func eScript(bodies ...string) string {
	var b strings.Builder
	b.WriteString(eScriptHead)
	for _, body := range bodies {
		b.WriteString(body)
		b.WriteString("\n")
	}
	b.WriteString("}")
	return b.String()
}

// result of running one check body: logs joined, or an error label
type eRun struct {
	logs string
	err  string // "" | "static:<kind>" | "<class>:<kind>"
}

func eRunOne(env *acct.Env, body string, useVM bool) eRun {
	out := env.Script(eScript(body), useVM)
	if out.Class != "none" {
		if debugUpdate() {
			fmt.Fprintln(debugOut(), "check script failed:", body, "\n", out.Err)
		}
		if eIsStatic(out) {
			return eRun{err: "static:" + out.Kind}
		}
		return eRun{err: out.Class + ":" + out.Kind}
	}
	return eRun{logs: strings.Join(out.Logs, ";")}
}

func eIsStatic(out *cdc.Outcome) bool {
	if out.Err == nil {
		return false
	}
	var pce *runtime.ParsingCheckingError
	return errors.As(out.Err, &pce)
}

func debugOut() *os.File { return os.Stderr }

// all bodies in one script, separated by marker logs; falls back to one script per body when the
// combined script fails
func eRunAll(env *acct.Env, bodies []string, useVM bool) []eRun {
	res := make([]eRun, len(bodies))
	if len(bodies) == 0 {
		return res
	}
	var parts []string
	for i, b := range bodies {
		parts = append(parts, fmt.Sprintf("log(\"#%d\")\nif true {\n%s\n}", i, b))
	}
	out := env.Script(eScript(parts...), useVM)
	if out.Class == "none" {
		cur := -1
		var acc [][]string = make([][]string, len(bodies))
		for _, l := range out.Logs {
			if strings.HasPrefix(l, "\"#") {
				var k int
				if _, err := fmt.Sscanf(l, "\"#%d\"", &k); err == nil && k == cur+1 {
					cur = k
					continue
				}
			}
			if cur >= 0 {
				acc[cur] = append(acc[cur], l)
			}
		}
		for i := range bodies {
			res[i] = eRun{logs: strings.Join(acc[i], ";")}
		}
		return res
	}
	for i, b := range bodies {
		res[i] = eRunOne(env, b, useVM)
	}
	return res
}

func execUpdateE2E(op []string) string {
	if len(op) != 9 {
		return "bad-op"
	}
	useVM := op[2] == "vm"
	oldSrc, newSrc, storeTx := op[5], op[6], op[7]
	checks := eParseChecks(op[8])
	if checks == nil && op[8] != "-" {
		return "bad-op"
	}
	if uSX(oldSrc, true) != op[3] || uSX(newSrc, false) != op[4] {
		return "sx-mismatch"
	}
	env := acct.NewEnv()
	env.Signers = []common.Address{common.MustBytesToAddress([]byte{1})}
	dep := env.Tx(fmt.Sprintf(`transaction { prepare(a: auth(Contracts) &Account) { a.contracts.add(name: "C", code: "%x".decodeHex()) } }`, oldSrc), useVM)
	if dep.Class != "none" {
		if debugUpdate() {
			fmt.Fprintln(debugOut(), "deploy failed:", dep.Err)
		}
		return "setup:deploy:" + dep.Kind
	}
	if storeTx != "-" {
		st := env.Tx(storeTx, useVM)
		if st.Class != "none" {
			if debugUpdate() {
				fmt.Fprintln(debugOut(), "store failed:", st.Err)
			}
			return "setup:store:" + st.Kind
		}
	}
	pres := make([]string, len(checks))
	posts := make([]string, len(checks))
	for i, c := range checks {
		pres[i], posts[i] = c.Pre, c.Post
		if c.Mode == "p" {
			pres[i] = ""
		}
	}
	pre := eRunAll(env, pres, useVM)
	for i, c := range checks {
		if pre[i].err != "" {
			if debugUpdate() {
				fmt.Fprintln(debugOut(), "pre failed:", c.ID, pre[i].err)
			}
			return "setup:pre-" + c.ID + ":" + pre[i].err
		}
	}
	up := env.Tx(fmt.Sprintf(`transaction { prepare(a: auth(Contracts) &Account) { a.contracts.update(name: "C", code: "%x".decodeHex()) } }`, newSrc), useVM)
	if up.Class != "none" {
		var cue *stdlib.ContractUpdateError
		if errors.As(up.Err, &cue) {
			return "rejected:" + strings.TrimPrefix(uErrKinds(cue), "err:")
		}
		if debugUpdate() {
			fmt.Fprintln(debugOut(), "update failed:", up.Err)
		}
		return "notchecked:" + up.Kind
	}
	post := eRunAll(env, posts, useVM)
	var bad []string
	unusable := 0
	for i, c := range checks {
		switch {
		case strings.HasPrefix(post[i].err, "static:"):
			unusable++
		case post[i].err != "":
			bad = append(bad, c.ID+":posterr:"+post[i].err)
		case c.Mode == "s" && post[i].logs != pre[i].logs:
			bad = append(bad, c.ID+":changed")
		case c.Mode == "p":
			for _, l := range strings.Split(post[i].logs, ";") {
				if l != "true" {
					bad = append(bad, c.ID+":false")
					break
				}
			}
		}
	}
	if len(bad) > 0 {
		sort.Strings(bad)
		if debugUpdate() {
			for i, c := range checks {
				fmt.Fprintf(debugOut(), "check %s pre[%s %s] post[%s %s]\n", c.ID, pre[i].logs, pre[i].err, post[i].logs, post[i].err)
			}
		}
		return "accepted bad=" + strings.Join(bad, ",")
	}
	return fmt.Sprintf("accepted n=%d u=%d", len(checks)-unusable, unusable)
}

// ---------------------------------------------------------------------------------------------
// generator

type eScenario struct {
	Old, New, Store string
	Checks          []eCheck
}

func eStoreTx(stmts ...string) string {
	return "import C from 0x1 transaction { prepare(a: auth(Storage) &Account) { " + strings.Join(stmts, "; ") + " } }"
}

func eOneLine(s string) string {
	return strings.Join(strings.Fields(s), " ")
}

func (sc eScenario) emit(c *hx.Ctx, engine string) {
	var cs []string
	for _, k := range sc.Checks {
		cs = append(cs, k.ID+"::"+k.Mode+"::"+eOneLine(k.Pre)+"::"+eOneLine(k.Post))
	}
	checks := "-"
	if len(cs) > 0 {
		checks = strings.Join(cs, " @@ ")
	}
	o, n := eOneLine(sc.Old), eOneLine(sc.New)
	c.Emit("update", "e2e", engine, uSX(o, true), uSX(n, false), o, n, eOneLine(sc.Store), checks)
}

// hand-written histories: one per rule of the property, and the candidates of DESIGN/notes
var eFixed = []eScenario{
	{ // interface J drops its conformance to I; S: J sits in a stored [{C.I}]
		Old: `access(all) contract C {
			access(all) struct interface I { access(all) fun n0(): Int }
			access(all) struct interface J: I { }
			access(all) struct S: J { access(all) let x: Int; init(x: Int) { self.x = x } access(all) fun n0(): Int { return self.x } }
		}`,
		New: `access(all) contract C {
			access(all) struct interface I { access(all) fun n0(): Int }
			access(all) struct interface J { }
			access(all) struct S: J { access(all) let x: Int; init(x: Int) { self.x = x } access(all) fun n0(): Int { return self.x } }
		}`,
		Store: eStoreTx(`let xs: [{C.I}] = [C.S(x: 5)]`, `a.storage.save(xs, to: /storage/v0)`),
		Checks: []eCheck{
			{"load", "s", `let xs = a.storage.copy<[{C.I}]>(from: /storage/v0)!; log(xs.length)`, `let xs = a.storage.copy<[{C.I}]>(from: /storage/v0)!; log(xs.length)`},
			{"inst", "p", ``, `let xs = a.storage.copy<[{C.I}]>(from: /storage/v0)!; log(xs[0].isInstance(Type<{C.I}>()))`},
			{"elem", "s", `let xs = a.storage.copy<[{C.I}]>(from: /storage/v0)!; let e: {C.I} = xs[0]; log(e.n0())`, `let xs = a.storage.copy<[{C.I}]>(from: /storage/v0)!; let e: {C.I} = xs[0]; log(e.n0())`},
			{"borrow", "s", `let r = a.storage.borrow<&[{C.I}]>(from: /storage/v0)!; log(r[0].n0())`, `let r = a.storage.borrow<&[{C.I}]>(from: /storage/v0)!; log(r[0].n0())`},
			{"cast", "s", `let v = a.storage.copy<AnyStruct>(from: /storage/v0)!; let xs = v as! [{C.I}]; log(xs.length)`, `let v = a.storage.copy<AnyStruct>(from: /storage/v0)!; let xs = v as! [{C.I}]; log(xs.length)`},
			{"castelem", "s", `let v = a.storage.copy<[AnyStruct]>(from: /storage/v0)!; let e = v[0] as! {C.I}; log(e.n0())`, `let v = a.storage.copy<[AnyStruct]>(from: /storage/v0)!; let e = v[0] as! {C.I}; log(e.n0())`},
		},
	},
}

func genUpdateE2E(c *hx.Ctx) {
	for _, sc := range eFixed {
		sc.emit(c, "interp")
		sc.emit(c, "vm")
	}
	n := c.N / 25
	if n < 20 {
		n = 20
	}
	for i := 0; i < n; i++ {
		g := &eGen{r: c.Rng}
		sc := g.scenario()
		if c.Rng.Bool() {
			sc.emit(c, "interp")
		} else {
			sc.emit(c, "vm")
		}
	}
}

// ---------------------------------------------------------------------------------------------
// generated histories.  The contract C declares struct interfaces I0.. (I_k may conform to earlier ones),
// enums E0.., structs S0.. (fields over Int/String/Bool, earlier structs, enums, {I}, optionals, arrays,
// dictionaries; conformances), a resource R0 (fields), contract fields.  Values of every struct / enum /
// resource and of container and interface types over them are stored; the new version is the old one
// after 1-3 mutations (allowed and forbidden ones).

type eTy struct {
	K    string // Int String Bool struct enum inter opt arr dict
	Name string
	Elem *eTy
}

func (t *eTy) src() string {
	switch t.K {
	case "struct", "enum":
		return "C." + t.Name
	case "inter":
		return "{C." + t.Name + "}"
	case "opt":
		return t.Elem.src() + "?"
	case "arr":
		return "[" + t.Elem.src() + "]"
	case "dict":
		return "{String: " + t.Elem.src() + "}"
	}
	return t.K
}

type eField struct {
	Name string
	Ty   *eTy
}

type eDecl struct {
	Kind    string // struct | resource | enum | iface
	Name    string
	Confs   []string
	Fields  []eField
	Cases   []string
	Removed bool // dropped from the new version
}

type eProg struct {
	Decls   []*eDecl
	CFields []eField // contract fields
	Pragmas []string
}

func (p *eProg) clone() *eProg {
	q := &eProg{CFields: append([]eField{}, p.CFields...), Pragmas: append([]string{}, p.Pragmas...)}
	for _, d := range p.Decls {
		e := *d
		e.Confs = append([]string{}, d.Confs...)
		e.Fields = append([]eField{}, d.Fields...)
		e.Cases = append([]string{}, d.Cases...)
		q.Decls = append(q.Decls, &e)
	}
	return q
}

func (p *eProg) find(name string) *eDecl {
	for _, d := range p.Decls {
		if d.Name == name && !d.Removed {
			return d
		}
	}
	return nil
}

func (p *eProg) ifaces() []*eDecl {
	var out []*eDecl
	for _, d := range p.Decls {
		if d.Kind == "iface" && !d.Removed {
			out = append(out, d)
		}
	}
	return out
}

// all interfaces the declaration conforms to (transitively), in the given program
func (p *eProg) effective(d *eDecl) []string {
	seen := map[string]bool{}
	var out []string
	var walk func(cs []string)
	walk = func(cs []string) {
		for _, c := range cs {
			if seen[c] {
				continue
			}
			seen[c] = true
			out = append(out, c)
			if j := p.find(c); j != nil {
				walk(j.Confs)
			}
		}
	}
	walk(d.Confs)
	sort.Strings(out)
	return out
}

type eGen struct {
	r   *hx.Rng
	old *eProg
	cnt int
}

// value expressions (script context) with the structure needed to walk them afterwards
type eVal struct {
	Ty     *eTy   // static type the expression was built for
	Expr   string // Cadence expression
	Struct string // for composite values: the struct's name
	Fields []*eVal
	Case   string // enum case
	Elem   *eVal  // optional / array / dictionary element (nil for `nil`)
}

func (g *eGen) value(t *eTy, depth int) *eVal {
	r := g.r
	switch t.K {
	case "Int":
		return &eVal{Ty: t, Expr: fmt.Sprint(r.Intn(100))}
	case "String":
		return &eVal{Ty: t, Expr: `"` + r.Pick([]string{"a", "bc", ""}) + `"`}
	case "Bool":
		return &eVal{Ty: t, Expr: r.Pick([]string{"true", "false"})}
	case "enum":
		d := g.old.find(t.Name)
		c := r.Pick(d.Cases)
		return &eVal{Ty: t, Expr: "C." + t.Name + "." + c, Case: c}
	case "struct":
		d := g.old.find(t.Name)
		v := &eVal{Ty: t, Struct: t.Name}
		var args []string
		for _, f := range d.Fields {
			fv := g.value(f.Ty, depth-1)
			v.Fields = append(v.Fields, fv)
			args = append(args, f.Name+": "+fv.Expr)
		}
		v.Expr = "C." + t.Name + "(" + strings.Join(args, ", ") + ")"
		return v
	case "inter":
		var cands []*eDecl
		for _, d := range g.old.Decls {
			if d.Kind == "struct" {
				for _, i := range g.old.effective(d) {
					if i == t.Name {
						cands = append(cands, d)
					}
				}
			}
		}
		// the earliest conforming struct was declared before any field of type {I} (termination)
		d := cands[0]
		if depth > 0 {
			d = cands[r.Intn(len(cands))]
		}
		v := g.value(&eTy{K: "struct", Name: d.Name}, depth-1)
		return &eVal{Ty: t, Expr: v.Expr, Struct: v.Struct, Fields: v.Fields}
	case "opt":
		if r.Chance(25) {
			return &eVal{Ty: t, Expr: "nil"}
		}
		e := g.value(t.Elem, depth-1)
		return &eVal{Ty: t, Expr: e.Expr, Elem: e}
	case "arr":
		e := g.value(t.Elem, depth-1)
		return &eVal{Ty: t, Expr: "[" + e.Expr + "]", Elem: e}
	case "dict":
		e := g.value(t.Elem, depth-1)
		return &eVal{Ty: t, Expr: `{"k": ` + e.Expr + "}", Elem: e}
	}
	panic("eGen.value: " + t.K)
}

// a type over the declarations made so far (structs[:upto])
func (g *eGen) ty(depth int, structs, enums, inters []string) *eTy {
	r := g.r
	base := func() *eTy {
		switch r.Intn(7) {
		case 0:
			if len(structs) > 0 {
				return &eTy{K: "struct", Name: r.Pick(structs)}
			}
		case 1:
			if len(enums) > 0 {
				return &eTy{K: "enum", Name: r.Pick(enums)}
			}
		case 2:
			if len(inters) > 0 {
				return &eTy{K: "inter", Name: r.Pick(inters)}
			}
		case 3:
			return &eTy{K: "String"}
		case 4:
			return &eTy{K: "Bool"}
		}
		return &eTy{K: "Int"}
	}
	if depth <= 0 || r.Chance(55) {
		return base()
	}
	k := r.Pick([]string{"opt", "arr", "dict"})
	e := g.ty(depth-1, structs, enums, inters)
	if e.K == "opt" && k != "arr" { // no optional of optional, no optional dictionary values
		e = e.Elem
	}
	return &eTy{K: k, Elem: e}
}

func (g *eGen) program() *eProg {
	r := g.r
	p := &eProg{}
	g.old = p
	ni := 1 + r.Intn(3)
	var inames []string
	for i := 0; i < ni; i++ {
		d := &eDecl{Kind: "iface", Name: fmt.Sprintf("I%d", i)}
		for j := 0; j < i; j++ {
			if r.Chance(50) {
				d.Confs = append(d.Confs, fmt.Sprintf("I%d", j))
			}
		}
		p.Decls = append(p.Decls, d)
		inames = append(inames, d.Name)
	}
	var enames []string
	for i, n := 0, 1+r.Intn(2); i < n; i++ {
		d := &eDecl{Kind: "enum", Name: fmt.Sprintf("E%d", i)}
		for k, m := 0, 1+r.Intn(4); k < m; k++ {
			d.Cases = append(d.Cases, fmt.Sprintf("c%d", k))
		}
		p.Decls = append(p.Decls, d)
		enames = append(enames, d.Name)
	}
	var snames, usable []string // usable: interfaces some struct conforms to
	for i, n := 0, 2+r.Intn(3); i < n; i++ {
		d := &eDecl{Kind: "struct", Name: fmt.Sprintf("S%d", i)}
		for _, in := range inames {
			if r.Chance(40) {
				d.Confs = append(d.Confs, in)
			}
		}
		for k, m := 0, r.Intn(4); k < m; k++ {
			d.Fields = append(d.Fields, eField{fmt.Sprintf("f%d", k), g.ty(2, snames, enames, usable)})
		}
		p.Decls = append(p.Decls, d)
		snames = append(snames, d.Name)
		for _, e := range p.effective(d) {
			found := false
			for _, u := range usable {
				found = found || u == e
			}
			if !found {
				usable = append(usable, e)
			}
		}
	}
	rd := &eDecl{Kind: "resource", Name: "R0"}
	for k, m := 0, 1+r.Intn(3); k < m; k++ {
		rd.Fields = append(rd.Fields, eField{fmt.Sprintf("f%d", k), g.ty(2, snames, enames, usable)})
	}
	p.Decls = append(p.Decls, rd)
	for k, m := 0, r.Intn(3); k < m; k++ {
		p.CFields = append(p.CFields, eField{fmt.Sprintf("cf%d", k), g.ty(2, snames, enames, usable)})
	}
	return p
}

func eInTy(t *eTy) string { return t.src() } // inside the contract `C.S` is valid too

// render; vals = initial values of the contract fields (old version only; the new version is never initialised)
func (p *eProg) render(ifaceCount int, cvals map[string]string, qualify func() bool) string {
	var b strings.Builder
	b.WriteString("access(all) contract C { ")
	for _, pr := range p.Pragmas {
		b.WriteString(pr + " ")
	}
	// conformances are resolved before the contract's own name is declared: `C.I0` does not check there
	q := func(n string) string { return n }
	tsrc := func(t *eTy) string {
		s := t.src()
		if !qualify() {
			s = strings.ReplaceAll(s, "C.", "")
		}
		return s
	}
	for _, f := range p.CFields {
		b.WriteString("access(all) var " + f.Name + ": " + tsrc(f.Ty) + " ")
	}
	b.WriteString("init() { ")
	for _, f := range p.CFields {
		v, ok := cvals[f.Name]
		if !ok { // the new version is never initialised
			v = "(fun (): " + tsrc(f.Ty) + " { panic(\"never\") })()"
		}
		b.WriteString("self." + f.Name + " = " + v + "; ")
	}
	b.WriteString("} ")
	for _, d := range p.Decls {
		if d.Removed {
			continue
		}
		confs := ""
		if len(d.Confs) > 0 {
			var cs []string
			for _, c := range d.Confs {
				cs = append(cs, q(c))
			}
			confs = ": " + strings.Join(cs, ", ")
		}
		switch d.Kind {
		case "iface":
			b.WriteString("access(all) struct interface " + d.Name + confs + " { access(all) fun n" + d.Name + "(): Int } ")
		case "enum":
			b.WriteString("access(all) enum " + d.Name + ": UInt8 { ")
			for _, c := range d.Cases {
				b.WriteString("access(all) case " + c + " ")
			}
			b.WriteString("} ")
		case "struct", "resource":
			b.WriteString("access(all) " + d.Kind + " " + d.Name + confs + " { ")
			var params, assigns []string
			for _, f := range d.Fields {
				b.WriteString("access(all) var " + f.Name + ": " + tsrc(f.Ty) + " ")
				params = append(params, f.Name+": "+tsrc(f.Ty))
				assigns = append(assigns, "self."+f.Name+" = "+f.Name)
			}
			b.WriteString("init(" + strings.Join(params, ", ") + ") { " + strings.Join(assigns, "; ") + " } ")
			// implements the function of every interface there is (whether conformed to or not)
			for i := 0; i < ifaceCount; i++ {
				fmt.Fprintf(&b, "access(all) fun nI%d(): Int { return %d } ", i, i+1)
			}
			b.WriteString("} ")
			if d.Kind == "resource" {
				var args []string
				for _, f := range d.Fields {
					args = append(args, f.Name+": "+f.Name)
				}
				b.WriteString("access(all) fun mk" + d.Name + "(" + strings.Join(params, ", ") + "): @" + d.Name +
					" { return <- create " + d.Name + "(" + strings.Join(args, ", ") + ") } ")
			}
		}
	}
	b.WriteString("}")
	return b.String()
}

func eTyUses(t *eTy, name string) bool {
	for ; t != nil; t = t.Elem {
		if t.Name == name {
			return true
		}
	}
	return false
}

// one mutation of the new version; keeps the program checkable where that is easy
func (g *eGen) mutate(p *eProg) string {
	r := g.r
	pick := func(kinds ...string) *eDecl {
		var c []*eDecl
		for _, d := range p.Decls {
			for _, k := range kinds {
				if d.Kind == k && !d.Removed {
					c = append(c, d)
				}
			}
		}
		if len(c) == 0 {
			return nil
		}
		return c[r.Intn(len(c))]
	}
	g.cnt++
	switch r.Intn(20) {
	case 0, 1: // field removed (allowed)
		if d := pick("struct", "resource"); d != nil && len(d.Fields) > 0 {
			i := r.Intn(len(d.Fields))
			d.Fields = append(d.Fields[:i:i], d.Fields[i+1:]...)
			return "field-remove"
		}
	case 2: // field added (forbidden)
		if d := pick("struct", "resource"); d != nil {
			d.Fields = append(d.Fields, eField{fmt.Sprintf("g%d", g.cnt), &eTy{K: r.Pick([]string{"Int", "String"})}})
			return "field-add"
		}
	case 3: // field retyped (forbidden)
		if d := pick("struct", "resource"); d != nil && len(d.Fields) > 0 {
			i := r.Intn(len(d.Fields))
			t := d.Fields[i].Ty
			switch r.Intn(3) {
			case 0:
				d.Fields[i].Ty = &eTy{K: "opt", Elem: t}
			case 1:
				if t.K == "Int" {
					d.Fields[i].Ty = &eTy{K: "String"}
				} else {
					d.Fields[i].Ty = &eTy{K: "Int"}
				}
			default:
				d.Fields[i].Ty = &eTy{K: "arr", Elem: t}
			}
			return "field-retype"
		}
	case 4: // fields reordered (allowed)
		if d := pick("struct", "resource"); d != nil && len(d.Fields) > 1 {
			i, j := r.Intn(len(d.Fields)), r.Intn(len(d.Fields))
			d.Fields[i], d.Fields[j] = d.Fields[j], d.Fields[i]
			return "field-reorder"
		}
	case 5: // field removed and re-added under the same name with another type (forbidden)
		if d := pick("struct", "resource"); d != nil && len(d.Fields) > 0 {
			i := r.Intn(len(d.Fields))
			d.Fields[i].Ty = &eTy{K: "dict", Elem: d.Fields[i].Ty}
			return "field-retype-dict"
		}
	case 6, 7: // conformance removed from a struct (forbidden)
		if d := pick("struct"); d != nil && len(d.Confs) > 0 {
			i := r.Intn(len(d.Confs))
			d.Confs = append(d.Confs[:i:i], d.Confs[i+1:]...)
			return "conf-remove"
		}
	case 8, 9: // conformance removed from an interface (forbidden since 5d4d335)
		if d := pick("iface"); d != nil && len(d.Confs) > 0 {
			i := r.Intn(len(d.Confs))
			d.Confs = append(d.Confs[:i:i], d.Confs[i+1:]...)
			return "iface-conf-remove"
		}
	case 10: // conformance added (allowed)
		if d := pick("struct"); d != nil {
			if is := p.ifaces(); len(is) > 0 {
				c := is[r.Intn(len(is))].Name
				for _, x := range d.Confs {
					if x == c {
						return "none"
					}
				}
				d.Confs = append([]string{c}, d.Confs...)
				return "conf-add"
			}
		}
	case 11: // conformances reordered (allowed)
		if d := pick("struct", "iface"); d != nil && len(d.Confs) > 1 {
			d.Confs[0], d.Confs[len(d.Confs)-1] = d.Confs[len(d.Confs)-1], d.Confs[0]
			return "conf-reorder"
		}
	case 12: // case appended (allowed)
		if d := pick("enum"); d != nil {
			d.Cases = append(d.Cases, fmt.Sprintf("k%d", g.cnt))
			return "case-append"
		}
	case 13: // case inserted / removed / swapped (forbidden)
		if d := pick("enum"); d != nil {
			switch r.Intn(3) {
			case 0:
				d.Cases = append([]string{fmt.Sprintf("k%d", g.cnt)}, d.Cases...)
				return "case-insert"
			case 1:
				if len(d.Cases) > 1 {
					i := r.Intn(len(d.Cases))
					d.Cases = append(d.Cases[:i:i], d.Cases[i+1:]...)
					return "case-remove"
				}
			default:
				if len(d.Cases) > 1 {
					d.Cases[0], d.Cases[len(d.Cases)-1] = d.Cases[len(d.Cases)-1], d.Cases[0]
					return "case-swap"
				}
			}
		}
	case 14, 15: // declaration removed, with or without pragma; only when nothing else mentions it
		if d := pick("struct", "enum", "iface"); d != nil {
			for _, o := range p.Decls {
				if o == d || o.Removed {
					continue
				}
				for _, f := range o.Fields {
					if eTyUses(f.Ty, d.Name) {
						return "none"
					}
				}
				for _, c := range o.Confs {
					if c == d.Name {
						return "none"
					}
				}
			}
			for _, f := range p.CFields {
				if eTyUses(f.Ty, d.Name) {
					return "none"
				}
			}
			d.Removed = true
			if r.Chance(60) {
				p.Pragmas = append(p.Pragmas, "#removedType("+d.Name+")")
				return "decl-remove-pragma"
			}
			return "decl-remove"
		}
	case 16: // declaration added (allowed)
		p.Decls = append(p.Decls, &eDecl{Kind: "struct", Name: fmt.Sprintf("N%d", g.cnt), Fields: []eField{{"a", &eTy{K: "Int"}}}})
		return "decl-add"
	case 17: // declarations reordered (allowed)
		if len(p.Decls) > 1 {
			i, j := r.Intn(len(p.Decls)), r.Intn(len(p.Decls))
			p.Decls[i], p.Decls[j] = p.Decls[j], p.Decls[i]
			return "decl-reorder"
		}
	case 18: // contract field removed (allowed) / added (forbidden)
		if len(p.CFields) > 0 && r.Bool() {
			p.CFields = p.CFields[1:]
			return "cfield-remove"
		}
		p.CFields = append(p.CFields, eField{fmt.Sprintf("cg%d", g.cnt), &eTy{K: "Int"}})
		return "cfield-add"
	case 19: // struct becomes resource or the reverse (forbidden; usually ill-typed)
		if d := pick("struct"); d != nil && len(d.Confs) == 0 {
			d.Kind = "resource"
			return "kind-change"
		}
	}
	return "none"
}

// every composite / enum type occurring in the value is still declared by the new version (a type
// removed with a #removedType pragma is given up on purpose: such values need not stay usable)
func eValLive(v *eVal, newP *eProg) bool {
	if v == nil {
		return true
	}
	if v.Struct != "" && newP.find(v.Struct) == nil {
		return false
	}
	if v.Case != "" && newP.find(v.Ty.Name) == nil {
		return false
	}
	for _, f := range v.Fields {
		if !eValLive(f, newP) {
			return false
		}
	}
	return eValLive(v.Elem, newP)
}

type eSlot struct {
	Path string
	Ty   *eTy
	Val  *eVal
	Res  bool
}

// checks for the value `expr` (static type known to be `v.Ty`) against the new version
func (g *eGen) walk(id string, expr string, v *eVal, newP *eProg, out *[]eCheck, pre string) {
	add := func(suffix, mode, body string) {
		*out = append(*out, eCheck{id + suffix, mode, pre + body, pre + body})
	}
	switch v.Ty.K {
	case "opt":
		if v.Elem == nil {
			add("nil", "s", "log("+expr+" == nil)")
			return
		}
		g.walk(id+"o", expr+"!", v.Elem, newP, out, pre)
		return
	case "arr":
		g.walk(id+"a", expr+"[0]", v.Elem, newP, out, pre)
		return
	case "dict":
		g.walk(id+"d", expr+`["k"]!`, v.Elem, newP, out, pre)
		return
	case "enum":
		od, nd := g.old.find(v.Ty.Name), newP.find(v.Ty.Name)
		if nd == nil {
			return
		}
		body := func(d *eDecl) string {
			var b strings.Builder
			b.WriteString("let e = " + expr + "; log(e.rawValue); ")
			for _, c := range d.Cases {
				b.WriteString("if e == C." + d.Name + "." + c + " { log(\"" + c + "\") }; ")
			}
			return b.String()
		}
		*out = append(*out, eCheck{id + "enum", "s", pre + body(od), pre + body(nd)})
		return
	case "inter", "struct":
		od, nd := g.old.find(v.Struct), newP.find(v.Struct)
		if nd == nil {
			return // type removed: the value is not required to stay usable
		}
		sexpr := expr
		if v.Ty.K == "inter" {
			sexpr = "(" + expr + " as! C." + v.Struct + ")"
			add("isinst", "p", "log("+expr+".isInstance(Type<"+v.Ty.src()+">()))")
			add("icall", "s", "let w: "+v.Ty.src()+" = "+expr+"; log(w.n"+v.Ty.Name+"())")
		}
		// every interface the old version conformed to (transitively)
		for _, i := range g.old.effective(od) {
			if newP.find(i) == nil {
				continue
			}
			add("is"+i, "p", "log("+sexpr+".isInstance(Type<{C."+i+"}>()))")
			add("as"+i, "s", "let w = "+sexpr+" as! {C."+i+"}; log(w.n"+i+"())")
		}
		// every field the new version declares
		for _, nf := range nd.Fields {
			var ov *eVal
			for k, of := range od.Fields {
				if of.Name == nf.Name {
					ov = v.Fields[k]
				}
			}
			add("f"+nf.Name+"type", "p", "log("+sexpr+"."+nf.Name+".isInstance(Type<"+nf.Ty.src()+">()))")
			if ov != nil {
				// walk with the static type the old version declared; after an accepted update the new
				// declaration denotes the same type
				g.walk(id+nf.Name, sexpr+"."+nf.Name, ov, newP, out, pre)
			}
		}
		add("str", "s", "log("+sexpr+".getType().identifier)")
		return
	}
	add("v", "s", "log("+expr+")")
}

func (g *eGen) scenario() eScenario {
	r := g.r
	oldP := g.program()
	newP := oldP.clone()
	k := 1 + r.Intn(3)
	for j := 0; j < k; j++ {
		g.mutate(newP)
	}
	// contract field values
	cvals := map[string]string{}
	var cvs []*eVal
	for _, f := range oldP.CFields {
		v := g.value(f.Ty, 3)
		cvals[f.Name] = v.Expr
		cvs = append(cvs, v)
	}
	ni := len(oldP.ifaces())
	oldSrc := oldP.render(ni, cvals, func() bool { return r.Chance(30) })
	newSrc := newP.render(ni, nil, func() bool { return r.Chance(30) })

	// slots
	var slots []eSlot
	var snames, enames []string
	usable := map[string]bool{}
	for _, d := range oldP.Decls {
		switch d.Kind {
		case "struct":
			snames = append(snames, d.Name)
			for _, i := range oldP.effective(d) {
				usable[i] = true
			}
		case "enum":
			enames = append(enames, d.Name)
		}
	}
	var inames []string
	for i := range usable {
		inames = append(inames, i)
	}
	sort.Strings(inames)
	addSlot := func(t *eTy) {
		if t.K == "opt" {
			t = &eTy{K: "arr", Elem: t}
		}
		slots = append(slots, eSlot{Path: fmt.Sprintf("/storage/v%d", len(slots)), Ty: t, Val: g.value(t, 3)})
	}
	for _, s := range snames {
		addSlot(&eTy{K: "struct", Name: s})
	}
	for _, e := range enames {
		addSlot(&eTy{K: "enum", Name: e})
	}
	for _, i := range inames {
		addSlot(&eTy{K: "arr", Elem: &eTy{K: "inter", Name: i}})
	}
	for j := 0; j < 2; j++ {
		addSlot(g.ty(3, snames, enames, inames))
	}
	var stmts []string
	var checks []eCheck
	for i, sl := range slots {
		stmts = append(stmts, fmt.Sprintf("let x%d: %s = %s", i, sl.Ty.src(), sl.Val.Expr), fmt.Sprintf("a.storage.save(x%d, to: %s)", i, sl.Path))
		id := fmt.Sprintf("v%d", i)
		live := true
		for t := sl.Ty; t != nil; t = t.Elem {
			if t.Name != "" && newP.find(t.Name) == nil {
				live = false
			}
		}
		if !live || !eValLive(sl.Val, newP) {
			continue
		}
		pre := fmt.Sprintf("let x = a.storage.copy<%s>(from: %s)!; ", sl.Ty.src(), sl.Path)
		checks = append(checks, eCheck{id + "load", "s", pre + "log(x.getType().identifier)", pre + "log(x.getType().identifier)"})
		anyb := fmt.Sprintf("let y = a.storage.copy<AnyStruct>(from: %s)!; log(y.getType().identifier)", sl.Path)
		checks = append(checks, eCheck{id + "any", "s", anyb, anyb})
		g.walk(id, "x", sl.Val, newP, &checks, pre)
	}
	// the resource
	rd := oldP.find("R0")
	{
		var args []string
		rv := &eVal{Ty: &eTy{K: "struct", Name: "R0"}, Struct: "R0"}
		for _, f := range rd.Fields {
			fv := g.value(f.Ty, 3)
			rv.Fields = append(rv.Fields, fv)
			args = append(args, f.Name+": "+fv.Expr)
		}
		stmts = append(stmts, "a.storage.save(<- C.mkR0("+strings.Join(args, ", ")+"), to: /storage/r0)")
		if nd := newP.find("R0"); nd != nil && nd.Kind == "resource" && eValLive(rv, newP) {
			pre := "let x = a.storage.borrow<&C.R0>(from: /storage/r0)!; "
			checks = append(checks, eCheck{"r0load", "s", pre + "log(x.getType().identifier)", pre + "log(x.getType().identifier)"})
			for _, nf := range nd.Fields {
				for k, of := range rd.Fields {
					if of.Name == nf.Name {
						// fields read through a reference: containers and structs come out as references,
						// so only primitives and enums are walked
						if of.Ty.K == "Int" || of.Ty.K == "String" || of.Ty.K == "Bool" || of.Ty.K == "enum" {
							g.walk("r0"+nf.Name, "x."+nf.Name, rv.Fields[k], newP, &checks, pre)
						}
					}
				}
				body := pre + "log(x." + nf.Name + ".getType() != Type<Never>())"
				checks = append(checks, eCheck{"r0" + nf.Name + "has", "p", body, body})
			}
		}
	}
	// contract fields (read through the contract reference: composite and container fields come out as
	// references, so only primitives and enums are walked; the others are only accessed)
	cLive := true
	for _, v := range cvs {
		cLive = cLive && eValLive(v, newP)
	}
	for _, f := range newP.CFields {
		if !cLive {
			break
		}
		for k, of := range oldP.CFields {
			if of.Name == f.Name && (of.Ty.K == "Int" || of.Ty.K == "String" || of.Ty.K == "Bool" || of.Ty.K == "enum") {
				g.walk("c"+f.Name, "C."+f.Name, cvs[k], newP, &checks, "")
			}
		}
		body := "log(C." + f.Name + ".getType() != Type<Never>())"
		checks = append(checks, eCheck{"c" + f.Name + "has", "p", body, body})
	}
	return eScenario{Old: oldSrc, New: newSrc, Store: eStoreTx(stmts...), Checks: checks}
}
