package main

import "verif/harness/internal/hx"

func genUpdateE2E(c *hx.Ctx) {}

func execUpdateE2E(op []string) string { return "bad-op" }
