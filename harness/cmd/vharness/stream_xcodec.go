package main

// Stream `xcodec` (property C43): every generated value is encoded with JSON-Cadence and with CCF and
// decoded by both Go decoders.
//
//	xcodec json <value sx> => ok:<sx of json.Decode(json.Encode v)> | encerr | decerr | panic
//	xcodec ccf  <value sx> => ok:<sx of Erase(ccf.Decode(ccf.Encode v))> | encerr | decerr | panic
//	xcodec cmp  <value sx> => agree:<same|jsonnone|ccfnone|none>:<type ID> | differ:<what> | jsonerr | ccferr | panic
//	                          (harness-side comparer: Erase + dictionaries as sets + Type().ID() where both are defined)

import (
	"time"

	"github.com/onflow/cadence"
	"github.com/onflow/cadence/encoding/ccf"
	jsoncdc "github.com/onflow/cadence/encoding/json"

	"verif/harness/internal/cval"
	"verif/harness/internal/hx"
)

func init() {
	hx.Register(&hx.Stream{Name: "xcodec", Gen: genXcodec, Exec: execXcodec, Parallel: true, Timeout: 20 * time.Second})
}

func genXcodec(c *hx.Ctx) {
	r := decorrelate(c)
	p := cval.Full
	p.Attachments = false // JSON-Cadence cannot decode them (C41 known finding)
	p.Functions = false   // CCF cannot decode them (C42 known finding)
	g := cval.NewGen(r, p)
	for i := 0; i < c.N; i++ {
		sx := cval.ValueSx(g.Top())
		if len(sx) > 40000 {
			continue
		}
		c.Emit("xcodec", "cmp", sx)
		c.Emit("xcodec", "json", sx)
		c.Emit("xcodec", "ccf", sx)
	}
}

func viaJSON(v cadence.Value) (cadence.Value, string) {
	b, err := jsoncdc.Encode(v)
	if err != nil {
		return nil, "encerr"
	}
	d, err := jsoncdc.Decode(nil, b)
	if err != nil {
		return nil, "decerr"
	}
	return d, ""
}

func viaCCF(v cadence.Value) (cadence.Value, string) {
	b, err := ccf.Encode(v)
	if err != nil {
		return nil, "encerr"
	}
	d, err := ccf.Decode(nil, b)
	if err != nil {
		return nil, "decerr"
	}
	return d, ""
}

func execXcodec(op []string) (res string) {
	defer func() {
		if r := recover(); r != nil {
			res = "panic"
		}
	}()
	v, err := cval.ParseValue(op[2])
	if err != nil {
		return "bad-op"
	}
	switch op[1] {
	case "json":
		d, e := viaJSON(v)
		if e != "" {
			return e
		}
		return "ok:" + cval.ValueSx(d)
	case "ccf":
		d, e := viaCCF(v)
		if e != "" {
			return e
		}
		return "ok:" + cval.ValueSx(cval.Erase(d))
	case "cmp":
		dj, e := viaJSON(v)
		if e != "" {
			return "jsonerr"
		}
		dc, e := viaCCF(v)
		if e != "" {
			return "ccferr"
		}
		a := cval.ValueSxCapByID(cval.SortDictionaries(dj))
		b := cval.ValueSxCapByID(cval.SortDictionaries(cval.Erase(dc)))
		if a != b {
			return "differ:values"
		}
		idJ, idC := cval.TypeIDOf(dj), cval.TypeIDOf(dc)
		if idJ != "?" && idC != "?" && idJ != idC {
			return "differ:type-ids:" + idJ + ":" + idC
		}
		switch {
		case idJ == "?" && idC == "?":
			return "agree:none:"
		case idJ == "?":
			return "agree:jsonnone:" + idC
		case idC == "?":
			return "agree:ccfnone:" + idJ
		}
		return "agree:same:" + idJ
	}
	return "bad-op"
}
