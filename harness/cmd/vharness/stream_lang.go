package main

// Shared by stream_evalorder.go and stream_vmeq.go (list this file in PROP["harness_files"]).
// Streams `evalorder` (property C52) and `vmeq` (property C34): generated μCadence programs, each run
// on the real runtime three ways — interpreter, VM, VM + peephole — from fresh identical ledgers.
//
// op line:   <stream> \t <label> \t once=<ids> \t max=<n> \t forms=<f,...> \t <source>
// go result: <sx> @@ <obs interp> @@ <obs vm> @@ <obs vmopt>
//   sx  = S-expression of the *checked program the runtime parsed* (internal/sx), or `oof:<reason>`
//         when a node lies outside the model's fragment, or `reject:<kind>` when parse/check failed
//   obs = <outcome>|<log;log;…>   (internal/lang.Observation)

import (
	"strconv"
	"strings"

	"verif/harness/internal/hx"
	"verif/harness/internal/lang"
	"verif/harness/internal/sx"
)

func genLang(c *hx.Ctx, stream, profile string) {
	for i := 0; i < c.N; i++ {
		var p *lang.Prog
		if profile == "values" && i%2 == 1 {
			p = lang.GenerateL0(c.Rng.Fork()) // layer L0: also compiled and run by the model compiler + VM
		} else {
			p = lang.Generate(c.Rng.Fork(), profile)
		}
		ids := make([]string, len(p.Once))
		for j, id := range p.Once {
			ids[j] = strconv.Itoa(id)
		}
		c.Emit(stream, "g"+strconv.Itoa(i), "once="+strings.Join(ids, ","), "max="+strconv.Itoa(p.MaxID),
			"forms="+strings.Join(p.Forms, ","), strings.ReplaceAll(p.Src, "\n", "\\n"))
	}
}

func execLang(op []string) string {
	src := strings.ReplaceAll(op[len(op)-1], "\\n", "\n")
	var sxs string
	prog, err := lang.Check(src)
	if err != nil {
		sxs = "reject:" + firstKind(err)
	} else if s, err := sx.Program(prog); err != nil {
		sxs = "oof:" + strings.TrimPrefix(err.Error(), "out-of-fragment:")
	} else {
		sxs = s
	}
	parts := []string{sxs}
	for _, m := range []lang.Mode{lang.Interp, lang.VM, lang.VMPeephole} {
		parts = append(parts, lang.Observation(lang.Run(src, m)))
	}
	return strings.Join(parts, " @@ ")
}

func firstKind(err error) string {
	s := err.Error()
	if len(s) > 160 {
		s = s[:160]
	}
	return strings.ReplaceAll(s, " ", "_")
}
