package main

// Shared by stream_evalorder.go and stream_vmeq.go (list this file in PROP["harness_files"]).
// Streams `evalorder` (property C52) and `vmeq` (property C34): generated μCadence programs, each run
// on the real runtime three ways — interpreter, VM, VM + peephole — from fresh identical ledgers.
//
// op line:   <stream> \t <label> \t once=<ids> \t max=<n> \t forms=<f,...> [\t depth=<limit>] \t <source>
//            depth=<limit>: the three runs use runtime.Config.StackDepthLimit = limit
// go result: <sx> @@ <obs interp> @@ <obs vm> @@ <obs vmopt> [@@ shapes=<s,...>]
//   shapes (only with depth=): `arg-nested-call`, `native-call` (sx.DepthShapes on the real AST): the shapes
//         of the known finding call-depth-counts-argument-nesting
//   sx  = S-expression of the *checked program the runtime parsed* (internal/sx), or `oof:<reason>`
//         when a node lies outside the model's fragment (`oof:<reason>#unboxed-cond` when the program
//         contains a conditional expression as the left operand of `??` or the target of `?.`, the shape
//         of the known finding conditional-result-not-boxed), or `reject:<kind>` when parse/check failed
//   obs = <outcome>|<log;log;…>   (internal/lang.Observation), or `hang|` when the engine did not come back

import (
	"strconv"
	"strings"
	"time"

	"verif/harness/internal/hx"
	"verif/harness/internal/lang"
	"verif/harness/internal/sx"
)

func genLang(c *hx.Ctx, stream, profile string) {
	for i := 0; i < c.N; i++ {
		var p *lang.Prog
		r := c.Rng.Fork()
		switch {
		case profile == "values" && i%2 == 1:
			// layer L0: unwrapped programs are also compiled and run by the model compiler + VM;
			// a third has its body in a closure / inner function (the only code the peephole pass reaches)
			p = lang.GenerateL0Wrapped(r, lang.PickWrap(r.Fork(), 34))
		case profile == "values" && i%6 == 0:
			p = lang.GenerateIter(r) // iteration + mutation of containers, nested over the same container
		case profile == "values" && i%12 == 4:
			p = lang.GenerateDepth(r) // recursion near a small configured stack-depth limit
		case profile == "values" && i%6 == 2:
			p = lang.GenerateClosurePeephole(r) // declined / rewritten peephole windows in front of jumps, in closures
		case profile == "values":
			p = lang.GenerateWrapped(r, profile, lang.PickWrap(r.Fork(), 50))
		default:
			p = lang.GenerateWrapped(r, profile, lang.PickWrap(r.Fork(), 25))
		}
		ids := make([]string, len(p.Once))
		for j, id := range p.Once {
			ids[j] = strconv.Itoa(id)
		}
		fields := []string{stream, "g" + strconv.Itoa(i), "once=" + strings.Join(ids, ","), "max=" + strconv.Itoa(p.MaxID),
			"forms=" + strings.Join(p.Forms, ",")}
		if p.Depth > 0 {
			fields = append(fields, "depth="+strconv.Itoa(p.Depth))
		}
		c.Emit(append(fields, strings.ReplaceAll(p.Src, "\n", "\\n"))...)
	}
}

func execLang(op []string) string {
	src := strings.ReplaceAll(op[len(op)-1], "\\n", "\n")
	var sxs string
	var depth uint64
	for _, f := range op[:len(op)-1] {
		if strings.HasPrefix(f, "depth=") {
			depth, _ = strconv.ParseUint(f[len("depth="):], 10, 32)
		}
	}
	shapes := ""
	prog, err := lang.Check(src)
	if err != nil {
		sxs = "reject:" + firstKind(err)
	} else if s, err := sx.Program(prog); err != nil {
		sxs = "oof:" + strings.TrimPrefix(err.Error(), "out-of-fragment:")
		if sx.HasUnboxedCond(prog) {
			sxs += "#unboxed-cond" // shape of the known finding conditional-result-not-boxed (see Drv/Lang.lean)
		}
	} else {
		sxs = s
	}
	if err == nil && depth > 0 {
		shapes = strings.Join(sx.DepthShapes(prog), ",")
	}
	parts := []string{sxs}
	for _, m := range []lang.Mode{lang.Interp, lang.VM, lang.VMPeephole} {
		parts = append(parts, runBounded(src, m, depth))
	}
	if depth > 0 {
		parts = append(parts, "shapes="+shapes)
	}
	return strings.Join(parts, " @@ ")
}

// runBounded: every run has the computation limit of lang.Run; an engine that still does not come back
// (a compiled loop that never reaches a metered instruction) is reported as `hang|` for that engine
// alone, so that the comparison of the three observations names it.
func runBounded(src string, m lang.Mode, depthLimit uint64) string {
	done := make(chan string, 1)
	go func() {
		defer func() {
			if r := recover(); r != nil {
				done <- "crash:escaped-panic|"
			}
		}()
		done <- lang.Observation(lang.RunDepth(src, m, depthLimit))
	}()
	select {
	case o := <-done:
		return o
	case <-time.After(langEngineTimeout):
		return "hang|"
	}
}

const langEngineTimeout = 15 * time.Second

func firstKind(err error) string {
	s := err.Error()
	if len(s) > 160 {
		s = s[:160]
	}
	return strings.ReplaceAll(s, " ", "_")
}
