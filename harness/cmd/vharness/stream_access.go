package main

// Stream `access` (property C50): member reads / calls / assignments from every kind of site, checked
// by the real checker in its production mode (AccessCheckModeStrict, no MemberAccountAccessHandler).
//
// Universe: contract C deployed at 0x1 with contract-level members, a struct S and a resource R with
// members of every access kind (self, contract, account, all, E1, E1|E2, E1,E2; fields var/let and
// functions).  Sites: inside C, S, R (the program is C itself with a `site` function inserted),
// contract D at 0x1 (same account), a struct nested in D, contract F at 0x2 (other account), a script,
// a transaction — each importing C through an import handler, the way /repo/sema's tests do.
//
// op line:   access \t read|write \t <modifier> \t <container C|S|R> \t <field-var|field-let|fun> \t <site> \t <via>
//            access \t winit \t <let|var> \t <first|second|method>
// go result: `ok` or the sorted multiset of checker error kinds of the site's program.
// The enumeration is exhaustive (every combination), so --n is ignored.

import (
	"errors"
	"fmt"
	"sort"
	"strconv"
	"strings"

	"github.com/onflow/cadence/ast"
	"github.com/onflow/cadence/common"
	"github.com/onflow/cadence/parser"
	"github.com/onflow/cadence/sema"

	"verif/harness/internal/hx"
)

func init() {
	hx.Register(&hx.Stream{Name: "access", Gen: genAccess, Exec: execAccess, Parallel: true})
}

var accMods = []string{"self", "contract", "account", "all", "E1", "E1|E2", "E1,E2"}
var accSites = []string{"inC", "inS", "inR", "D1", "DT1", "F2", "script", "tx"}
var accVias = []string{"owned", "ref", "ref:E1", "ref:E2", "ref:E1,E2", "ref:E1|E2"}

func accModName(m string) string {
	r := strings.NewReplacer("|", "or", ",", "and")
	return r.Replace(m)
}

func genAccess(c *hx.Ctx) {
	for _, kind := range []string{"read", "write"} {
		for _, m := range accMods {
			for _, cont := range []string{"C", "S", "R"} {
				if strings.HasPrefix(m, "E") && cont == "C" {
					continue // entitlement access is only allowed on struct / resource members
				}
				for _, mk := range []string{"field-var", "field-let", "fun"} {
					if kind == "write" && mk == "fun" {
						continue
					}
					for _, site := range accSites {
						for _, via := range accVias {
							if cont == "C" && via != "owned" {
								continue
							}
							c.Emit("access", kind, m, cont, mk, site, via)
						}
					}
				}
			}
		}
	}
	for _, lv := range []string{"let", "var"} {
		for _, w := range []string{"first", "second", "method"} {
			c.Emit("access", "winit", lv, w)
		}
	}
}

func accMemberName(cont, mod, mk string) string {
	p := strings.ToLower(cont)
	k := map[string]string{"field-var": "V", "field-let": "L", "fun": "F"}[mk]
	return p + k + accModName(mod)
}

// accContract builds contract C; `sites` maps a container (C, S, R) to extra member source, and
// `extraInit` to extra initializer statements of S.
func accContract(sites map[string]string, sFields string, sInit string) string {
	var sb strings.Builder
	members := func(cont string, inits *[]string) string {
		var b strings.Builder
		for _, m := range accMods {
			if strings.HasPrefix(m, "E") && cont == "C" {
				continue
			}
			acc := "access(" + strings.ReplaceAll(strings.ReplaceAll(m, "|", " | "), ",", ", ") + ")"
			v, l, f := accMemberName(cont, m, "field-var"), accMemberName(cont, m, "field-let"), accMemberName(cont, m, "fun")
			b.WriteString("    " + acc + " var " + v + ": Int\n")
			b.WriteString("    " + acc + " let " + l + ": Int\n")
			b.WriteString("    " + acc + " fun " + f + "(): Int { return 1 }\n")
			*inits = append(*inits, "self."+v+" = 0", "self."+l+" = 0")
		}
		return b.String()
	}
	sb.WriteString("access(all) contract C {\n  access(all) entitlement E1\n  access(all) entitlement E2\n")
	var ci, si, ri []string
	sb.WriteString(members("C", &ci))
	sb.WriteString("  access(all) struct S {\n" + members("S", &si) + sFields +
		"    init() { " + strings.Join(si, "; ") + sInit + " }\n" + sites["S"] + "  }\n")
	sb.WriteString("  access(all) resource R {\n" + members("R", &ri) +
		"    init() { " + strings.Join(ri, "; ") + " }\n" + sites["R"] + "  }\n")
	sb.WriteString("  access(all) fun mkS(): S { return S() }\n  access(all) fun mkR(): @R { return <- create R() }\n")
	sb.WriteString("  init() { " + strings.Join(ci, "; ") + " }\n" + sites["C"] + "}\n")
	return sb.String()
}

// accBody builds the statements of the site function.
func accBody(kind, mod, cont, mk, via string) string {
	name := accMemberName(cont, mod, mk)
	use := func(target string) string {
		switch {
		case kind == "write":
			return target + "." + name + " = 1"
		case mk == "fun":
			return "let v = " + target + "." + name + "()"
		default:
			return "let v = " + target + "." + name
		}
	}
	auth := ""
	if strings.HasPrefix(via, "ref:") {
		ents := strings.TrimPrefix(via, "ref:")
		sep := ", "
		if strings.Contains(ents, "|") {
			sep = " | "
		}
		parts := strings.FieldsFunc(ents, func(r rune) bool { return r == ',' || r == '|' })
		for i := range parts {
			parts[i] = "C." + parts[i]
		}
		auth = "auth(" + strings.Join(parts, sep) + ") "
	}
	switch cont {
	case "C":
		return use("C")
	case "S":
		if via == "owned" {
			return "var s = C.mkS(); " + use("s")
		}
		return "var s = C.mkS(); let r = &s as " + auth + "&C.S; " + use("r")
	default:
		if via == "owned" {
			return "let x <- C.mkR(); " + use("x") + "; destroy x"
		}
		return "let x <- C.mkR(); let r = &x as " + auth + "&C.R; " + use("r") + "; destroy x"
	}
}

var accAddr1 = common.MustBytesToAddress([]byte{0x1})
var accAddr2 = common.MustBytesToAddress([]byte{0x2})

func accCheck(src string, loc common.Location, imported *sema.Checker) (*sema.Checker, string) {
	program, err := parser.ParseProgram(nil, []byte(src), parser.Config{})
	if err != nil {
		return nil, "parse-error"
	}
	checker, err := sema.NewChecker(program, loc, nil, &sema.Config{
		AccessCheckMode: sema.AccessCheckModeStrict,
		ImportHandler: func(_ *sema.Checker, _ common.Location, _ ast.Range) (sema.Import, error) {
			if imported == nil {
				return nil, errors.New("no import")
			}
			return sema.ElaborationImport{Elaboration: imported.Elaboration}, nil
		},
	})
	if err != nil {
		return nil, "checker-construction-error"
	}
	err = checker.Check()
	if err == nil {
		return checker, "ok"
	}
	var ce *sema.CheckerError
	if !errors.As(err, &ce) {
		return checker, "err-other"
	}
	counts := map[string]int{}
	for _, e := range ce.Errors {
		counts[strings.TrimPrefix(fmt.Sprintf("%T", e), "*sema.")]++
	}
	var ks []string
	for k, n := range counts {
		ks = append(ks, k+"*"+strconv.Itoa(n))
	}
	sort.Strings(ks)
	return checker, strings.Join(ks, ";")
}

var accLocC = common.AddressLocation{Address: accAddr1, Name: "C"}

func execAccess(op []string) string {
	if op[1] == "winit" {
		field := "    access(all) " + op[2] + " x: Int\n"
		var init, site string
		switch op[3] {
		case "first":
			init = "; self.x = 1"
		case "second":
			init = "; self.x = 1; self.x = 2"
		default:
			init = "; self.x = 1"
			site = "    access(all) fun site() { self.x = 2 }\n"
		}
		_, res := accCheck(accContract(map[string]string{"S": site}, field, init), accLocC, nil)
		return res
	}
	kind, mod, cont, mk, site, via := op[1], op[2], op[3], op[4], op[5], op[6]
	body := accBody(kind, mod, cont, mk, via)
	fn := "    access(all) fun site() { " + body + " }\n"
	switch site {
	case "inC", "inS", "inR":
		_, res := accCheck(accContract(map[string]string{site[2:]: fn}, "", ""), accLocC, nil)
		return res
	}
	cChecker, res := accCheck(accContract(map[string]string{}, "", ""), accLocC, nil)
	if res != "ok" {
		return "contract-C-rejected:" + res
	}
	var src string
	var loc common.Location
	switch site {
	case "D1":
		src = "import C from 0x1\naccess(all) contract D {\n" + fn + "}\n"
		loc = common.AddressLocation{Address: accAddr1, Name: "D"}
	case "DT1":
		src = "import C from 0x1\naccess(all) contract D {\n  access(all) struct T {\n" + fn + "  }\n}\n"
		loc = common.AddressLocation{Address: accAddr1, Name: "D"}
	case "F2":
		src = "import C from 0x1\naccess(all) contract F {\n" + fn + "}\n"
		loc = common.AddressLocation{Address: accAddr2, Name: "F"}
	case "script":
		src = "import C from 0x1\naccess(all) fun main() { " + body + " }\n"
		loc = common.ScriptLocation{0x7}
	default:
		src = "import C from 0x1\ntransaction {\n  execute { " + body + " }\n}\n"
		loc = common.TransactionLocation{0x9}
	}
	_, res = accCheck(src, loc, cChecker)
	return res
}
