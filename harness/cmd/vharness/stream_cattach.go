package main

// Stream `attach` (property C39): the comment attachment of formatter/trivia.
//
//   attach  prog  <source>     parse, trivia.Scan, trivia.Group, then attachLevel on the declarations with the
//                              footer rule (verif hook VerifAttachLevel = Attach without the hoist post-passes)
//        reject                the input does not parse
//        ok:<forest> SEP <groups> SEP <assignments>
//            forest       (f (n id start sline endRaw tend tline child...) ...)   the elements as attachLevel sees
//                         them: StartPosition, EndPosition, trueEndPosition, getChildren
//            groups       (gs (g idx start stop sline eline) ...)
//            assignments  idx:K:node ...   the CommentMap, one entry per (group, slot): K = H header, L leading,
//                         S same-line, T trailing, F footer; node = element id (0 for H / F); sorted by idx

import (
	"fmt"
	"sort"
	"strings"

	"github.com/onflow/cadence/ast"
	"github.com/onflow/cadence/formatter/trivia"
	"github.com/onflow/cadence/parser"

	"verif/harness/internal/hx"
)

func init() {
	hx.Register(&hx.Stream{Name: "cattach", Gen: genCAttach, Exec: execCAttach, Parallel: true})
}

const c39AttachSep = " \x1f "

func execCAttach(op []string) string {
	if len(op) < 3 {
		return "bad-op"
	}
	src := []byte(c38Decode(op[2]))
	program, err := parser.ParseProgram(nil, src, parser.Config{})
	if err != nil || program == nil {
		return "reject"
	}
	groups := trivia.Group(trivia.Scan(src), src)
	cm := trivia.VerifAttachLevel(program, groups, src)

	ids := map[ast.Element]int{}
	var elems []ast.Element
	var ser func(n ast.Element, depth int) string
	ser = func(n ast.Element, depth int) string {
		id, seen := ids[n]
		if !seen {
			id = len(elems) + 1
			ids[n] = id
			elems = append(elems, n)
		}
		start := n.StartPosition()
		endRaw := n.EndPosition(nil)
		tend := trivia.VerifTrueEndPosition(endRaw, src)
		var sb strings.Builder
		fmt.Fprintf(&sb, "(n %d %d %d %d %d %d", id, start.Offset, start.Line, endRaw.Offset, tend.Offset, tend.Line)
		if depth < 80 {
			for _, c := range trivia.VerifChildren(n) {
				sb.WriteString(" ")
				sb.WriteString(ser(c, depth+1))
			}
		}
		sb.WriteString(")")
		return sb.String()
	}
	var fs []string
	for _, d := range program.Declarations() {
		fs = append(fs, ser(d, 0))
	}
	forest := "(f " + strings.Join(fs, " ") + ")"

	gidx := map[*trivia.CommentGroup]int{}
	var gsb []string
	for i, g := range groups {
		gidx[g] = i
		gsb = append(gsb, fmt.Sprintf("(g %d %d %d %d %d)", i, g.StartPos().Offset, g.EndPos().Offset, g.StartPos().Line, g.EndPos().Line))
	}
	gs := "(gs " + strings.Join(gsb, " ") + ")"

	type asg struct {
		idx int
		s   string
	}
	var as []asg
	add := func(g *trivia.CommentGroup, k string, node int) {
		i, ok := gidx[g]
		if !ok {
			i = -1
		}
		as = append(as, asg{i, fmt.Sprintf("%d:%s:%d", i, k, node)})
	}
	for _, g := range cm.HeaderComments {
		add(g, "H", 0)
	}
	for _, g := range cm.FooterComments {
		add(g, "F", 0)
	}
	nodeID := func(e ast.Element) int {
		if id, ok := ids[e]; ok {
			return id
		}
		return -1
	}
	for e, v := range cm.Leading {
		for _, g := range v {
			add(g, "L", nodeID(e))
		}
	}
	for e, v := range cm.Trailing {
		for _, g := range v {
			add(g, "T", nodeID(e))
		}
	}
	for e, g := range cm.SameLine {
		add(g, "S", nodeID(e))
	}
	sort.Slice(as, func(i, j int) bool {
		if as[i].idx != as[j].idx {
			return as[i].idx < as[j].idx
		}
		return as[i].s < as[j].s
	})
	var ss []string
	for _, a := range as {
		ss = append(ss, a.s)
	}
	out := strings.Join(ss, " ")
	if out == "" {
		out = "-"
	}
	return "ok:" + forest + c39AttachSep + gs + c39AttachSep + out
}

func genCAttach(c *hx.Ctx) {
	r := c.Rng
	for i := 0; i < c.N; i++ {
		src := c39Decorate(r, c38Program(r, false), r.Chance(10))
		// comments before the first and after the last declaration (header / leading / trailing / footer rules)
		switch r.Intn(8) {
		case 0:
			src = "// h0\n\n" + src
		case 1:
			src = "// h0\n" + src
		case 2:
			src = "/* h0 */\n// h1\n\n// h2\n" + src
		case 3:
			src = "// h0\n\n/// h1\n" + src
		}
		switch r.Intn(8) {
		case 0:
			src = src + "\n\n// f0\n"
		case 1:
			src = src + "// f0\n// f1\n\n// f2\n"
		case 2:
			src = src + " /* f0 */\n"
		}
		c.Emit("cattach", "prog", c38Encode(src))
	}
}
