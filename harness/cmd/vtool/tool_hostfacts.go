package main

// gen-hostfacts (C28, FX): the shape of every method of runtime.ExternalInterface (does it call the
// inner interface, is that call inside errors.WrapPanic, is the error wrapped with
// WrappedExternalError and returned), the method sets of runtime.Interface and runtime.Metrics, the
// inventory of all recover() sites in non-test code, and the `defer Recover(...)` sites of the
// executors.  Output: lean/Verif/Gen/HostFacts.lean.

import (
	"fmt"
	"go/ast"
	"go/parser"
	"go/token"
	"io/fs"
	"path/filepath"
	"sort"
	"strings"

	"verif/harness/internal/goload"
	"verif/harness/internal/tx"
)

func init() {
	tx.Register(&tx.Tool{Name: "gen-hostfacts", Help: "C28: ExternalInterface method shapes, recover() inventory", Run: runHostFacts})
}

type hostMethod struct {
	name                                                    string
	hasErr, callsInner, insideWrapPanic, wrapsErr, returnsErr bool
}

func selName(e ast.Expr) string {
	switch x := e.(type) {
	case *ast.SelectorExpr:
		return selName(x.X) + "." + x.Sel.Name
	case *ast.Ident:
		return x.Name
	}
	return "?"
}

func analyseHostMethod(fd *ast.FuncDecl) hostMethod {
	m := hostMethod{name: fd.Name.Name}
	if fd.Type.Results != nil {
		for _, r := range fd.Type.Results.List {
			if id, ok := r.Type.(*ast.Ident); ok && id.Name == "error" {
				m.hasErr = true
			}
		}
	}
	// inner call and whether it sits inside the function literal passed to errors.WrapPanic
	var walk func(n ast.Node, inWrap bool)
	walk = func(n ast.Node, inWrap bool) {
		ast.Inspect(n, func(c ast.Node) bool {
			call, ok := c.(*ast.CallExpr)
			if !ok {
				return true
			}
			fn := selName(call.Fun)
			if fn == "errors.WrapPanic" && len(call.Args) == 1 {
				if lit, ok := call.Args[0].(*ast.FuncLit); ok {
					walk(lit.Body, true)
					return false
				}
			}
			if fn == "e.Interface."+m.name || fn == "metrics."+m.name {
				m.callsInner = true
				if inWrap {
					m.insideWrapPanic = true
				}
			}
			return true
		})
	}
	walk(fd.Body, false)
	// `if err != nil { err = interpreter.WrappedExternalError(err) }`
	for _, s := range fd.Body.List {
		ifs, ok := s.(*ast.IfStmt)
		if !ok {
			continue
		}
		be, ok := ifs.Cond.(*ast.BinaryExpr)
		if !ok || selName(be.X) != "err" || selName(be.Y) != "nil" || be.Op != token.NEQ {
			continue
		}
		for _, bs := range ifs.Body.List {
			as, ok := bs.(*ast.AssignStmt)
			if !ok || len(as.Lhs) != 1 || len(as.Rhs) != 1 || selName(as.Lhs[0]) != "err" {
				continue
			}
			if call, ok := as.Rhs[0].(*ast.CallExpr); ok && selName(call.Fun) == "interpreter.WrappedExternalError" &&
				len(call.Args) == 1 && selName(call.Args[0]) == "err" {
				m.wrapsErr = true
			}
		}
	}
	// the error result is what the inner call assigned: named result `err` and a final bare return
	// (or `return …, err`)
	named := false
	if fd.Type.Results != nil {
		for _, r := range fd.Type.Results.List {
			for _, n := range r.Names {
				if n.Name == "err" {
					named = true
				}
			}
		}
	}
	if n := len(fd.Body.List); n > 0 {
		if ret, ok := fd.Body.List[n-1].(*ast.ReturnStmt); ok {
			if len(ret.Results) == 0 && named {
				m.returnsErr = true
			} else if k := len(ret.Results); k > 0 && selName(ret.Results[k-1]) == "err" {
				m.returnsErr = true
			}
		}
	}
	// no other return statement may drop the error
	ast.Inspect(fd.Body, func(c ast.Node) bool {
		if _, ok := c.(*ast.FuncLit); ok {
			return false
		}
		if ret, ok := c.(*ast.ReturnStmt); ok && m.hasErr {
			if len(ret.Results) > 0 && selName(ret.Results[len(ret.Results)-1]) != "err" {
				m.returnsErr = false
			}
		}
		return true
	})
	return m
}

func runHostFacts(args []string) error {
	repo := tx.Repo()
	fset := token.NewFileSet()
	var methods []hostMethod
	var ifaceMethods []string
	type site struct{ file, fn string }
	var recovers, topRecovers []site

	err := filepath.WalkDir(repo, func(path string, d fs.DirEntry, err error) error {
		if err != nil {
			return err
		}
		rel, _ := filepath.Rel(repo, path)
		rel = filepath.ToSlash(rel)
		if d.IsDir() {
			if strings.HasPrefix(d.Name(), ".") && rel != "." || d.Name() == "vendor" || d.Name() == "testdata" || d.Name() == "node_modules" {
				return filepath.SkipDir
			}
			return nil
		}
		if !strings.HasSuffix(rel, ".go") || goload.IsTestFile(rel) {
			return nil
		}
		// other modules nested in the repository (tools, …) are excluded by IsTestFile's prefixes
		f, perr := parser.ParseFile(fset, path, nil, parser.SkipObjectResolution)
		if perr != nil {
			return fmt.Errorf("%s: %v", rel, perr)
		}
		for _, decl := range f.Decls {
			switch x := decl.(type) {
			case *ast.GenDecl:
				if rel != "runtime/interface.go" {
					continue
				}
				for _, sp := range x.Specs {
					ts, ok := sp.(*ast.TypeSpec)
					if !ok || (ts.Name.Name != "Interface" && ts.Name.Name != "Metrics") {
						continue
					}
					if it, ok := ts.Type.(*ast.InterfaceType); ok {
						for _, m := range it.Methods.List {
							for _, n := range m.Names {
								ifaceMethods = append(ifaceMethods, n.Name)
							}
						}
					}
				}
			case *ast.FuncDecl:
				if x.Body == nil {
					continue
				}
				fn := goload.FuncName(x)
				if strings.HasPrefix(rel, "runtime/") && strings.HasPrefix(fn, "ExternalInterface.") {
					methods = append(methods, analyseHostMethod(x))
				}
				ast.Inspect(x.Body, func(n ast.Node) bool {
					switch c := n.(type) {
					case *ast.CallExpr:
						if id, ok := c.Fun.(*ast.Ident); ok && id.Name == "recover" && len(c.Args) == 0 {
							recovers = append(recovers, site{rel, fn})
						}
					case *ast.DeferStmt:
						if n := selName(c.Call.Fun); (n == "Recover" || n == "runtime.Recover") && strings.HasPrefix(rel, "runtime/") {
							topRecovers = append(topRecovers, site{rel, fn})
						}
					}
					return true
				})
			}
		}
		return nil
	})
	if err != nil {
		return err
	}
	sort.Slice(methods, func(i, j int) bool { return methods[i].name < methods[j].name })
	sort.Strings(ifaceMethods)
	less := func(s []site) func(i, j int) bool {
		return func(i, j int) bool {
			if s[i].file != s[j].file {
				return s[i].file < s[j].file
			}
			return s[i].fn < s[j].fn
		}
	}
	sort.Slice(recovers, less(recovers))
	sort.Slice(topRecovers, less(topRecovers))

	var sb strings.Builder
	sb.WriteString("/- GENERATED by `vtool gen-hostfacts` from the checkout under verification. Do not edit. -/\n")
	sb.WriteString("namespace Verif.Gen.HostFacts\n\n")
	sb.WriteString("structure Method where\n  name : String\n  hasErr : Bool\n  callsInner : Bool\n  insideWrapPanic : Bool\n  wrapsErr : Bool\n  returnsErr : Bool\n  deriving DecidableEq, Repr\n\n")
	sb.WriteString("/-- methods of runtime.ExternalInterface -/\ndef methods : List Method := [\n")
	for i, m := range methods {
		sep := ","
		if i == len(methods)-1 {
			sep = ""
		}
		fmt.Fprintf(&sb, "  ⟨%s, %v, %v, %v, %v, %v⟩%s\n", goload.LeanString(m.name), m.hasErr, m.callsInner, m.insideWrapPanic, m.wrapsErr, m.returnsErr, sep)
	}
	sb.WriteString("]\n\n/-- method names of runtime.Interface and runtime.Metrics -/\ndef interfaceMethods : List String := [\n")
	for i, n := range ifaceMethods {
		sep := ","
		if i == len(ifaceMethods)-1 {
			sep = ""
		}
		fmt.Fprintf(&sb, "  %s%s\n", goload.LeanString(n), sep)
	}
	writeSites := func(name, doc string, ss []site) {
		fmt.Fprintf(&sb, "]\n\n/-- %s -/\ndef %s : List (String × String) := [\n", doc, name)
		for i, s := range ss {
			sep := ","
			if i == len(ss)-1 {
				sep = ""
			}
			fmt.Fprintf(&sb, "  (%s, %s)%s\n", goload.LeanString(s.file), goload.LeanString(s.fn), sep)
		}
	}
	writeSites("recoverSites", "every recover() in non-test code: file, enclosing function", recovers)
	writeSites("topRecoverSites", "every `defer Recover(...)` in package runtime", topRecovers)
	sb.WriteString("]\n\nend Verif.Gen.HostFacts\n")
	return tx.WriteGen("HostFacts", sb.String())
}
