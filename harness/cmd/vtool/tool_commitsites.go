package main

// gen-commitsites (C24, FX): every call site, in non-test code of runtime / stdlib / interpreter /
// bbq/vm, of the functions through which cached storage reaches the ledger or a contract update is
// recorded: commitStorage, CommitStorage, Storage.Commit / commit / NondeterministicCommit,
// CommitStorageTemporarily, PersistentSlabStorage.FastCommit / NondeterministicFastCommit / Commit,
// Ledger/Interface.SetValue (the register write), recordContractUpdate / RecordContractUpdate /
// RecordContractRemoval, Interface.UpdateAccountContractCode / RemoveAccountContractCode.
// For each: callee, file, enclosing function, and whether the statement immediately before the call's
// statement (same block) is `if err != nil { return … }` (the call only runs after success).
// Output: lean/Verif/Gen/CommitSites.lean.

import (
	"fmt"
	"go/ast"
	"go/types"
	"sort"
	"strings"

	"verif/harness/internal/goload"
	"verif/harness/internal/tx"
)

func init() {
	tx.Register(&tx.Tool{Name: "gen-commitsites", Help: "C24: commit / SetValue / contract-update call sites", Run: runCommitSites})
}

var commitSiteNames = map[string]bool{
	"commitStorage": true, "CommitStorage": true, "Commit": true, "commit": true, "NondeterministicCommit": true,
	"CommitStorageTemporarily": true, "FastCommit": true, "NondeterministicFastCommit": true,
	"SetValue": true, "recordContractUpdate": true, "RecordContractUpdate": true, "RecordContractRemoval": true,
	"UpdateAccountContractCode": true, "RemoveAccountContractCode": true,
	"writeSlabIndexToRegister": true, "writeAccountStorageSlabIndex": true, "commitContractUpdates": true,
}

type commitSite struct {
	callee, file, fn string
	afterErrCheck    bool
}

// isErrReturn: `if err != nil { return ... }` (possibly with other statements before the return)
func isErrReturn(s ast.Stmt) bool {
	ifs, ok := s.(*ast.IfStmt)
	if !ok || ifs.Else != nil {
		return false
	}
	be, ok := ifs.Cond.(*ast.BinaryExpr)
	if !ok || be.Op.String() != "!=" {
		return false
	}
	x, ok1 := be.X.(*ast.Ident)
	y, ok2 := be.Y.(*ast.Ident)
	if !ok1 || !ok2 || y.Name != "nil" || !strings.Contains(strings.ToLower(x.Name), "err") {
		return false
	}
	if len(ifs.Body.List) == 0 {
		return false
	}
	_, isRet := ifs.Body.List[len(ifs.Body.List)-1].(*ast.ReturnStmt)
	return isRet
}

func isByteSlice(t types.Type) bool {
	s, ok := t.Underlying().(*types.Slice)
	if !ok {
		return false
	}
	b, ok := s.Elem().Underlying().(*types.Basic)
	return ok && b.Kind() == types.Byte
}

func runCommitSites(args []string) error {
	repo := tx.Repo()
	pkgs, err := goload.Load(repo, "./runtime", "./stdlib", "./interpreter", "./bbq/vm")
	if err != nil {
		return err
	}
	var sites []commitSite
	for _, p := range pkgs {
		for _, file := range p.Syntax {
			rel := goload.Rel(repo, p.Fset, file.Pos())
			if goload.IsTestFile(rel) {
				continue
			}
			for _, d := range file.Decls {
				fd, ok := d.(*ast.FuncDecl)
				if !ok || fd.Body == nil {
					continue
				}
				fn := goload.FuncName(fd)
				// walk blocks, remembering the previous statement
				var walkBlock func(list []ast.Stmt)
				visitStmt := func(s ast.Stmt, prev ast.Stmt) {
					ast.Inspect(s, func(n ast.Node) bool {
						switch x := n.(type) {
						case *ast.BlockStmt:
							if x != nil {
								walkBlock(x.List)
							}
							return false
						case *ast.CaseClause:
							walkBlock(x.Body)
							return false
						case *ast.CommClause:
							walkBlock(x.Body)
							return false
						case *ast.FuncLit:
							walkBlock(x.Body.List)
							return false
						case *ast.CallExpr:
							var id *ast.Ident
							switch f := x.Fun.(type) {
							case *ast.SelectorExpr:
								id = f.Sel
							case *ast.Ident:
								id = f
							}
							if id == nil || !commitSiteNames[id.Name] {
								return true
							}
							obj, _ := p.TypesInfo.Uses[id].(*types.Func)
							if obj == nil {
								return true
							}
							sig := obj.Type().(*types.Signature)
							pkgPath := ""
							if obj.Pkg() != nil {
								pkgPath = obj.Pkg().Path()
							}
							recv := ""
							if sig.Recv() != nil {
								t := sig.Recv().Type()
								if pt, ok := t.(*types.Pointer); ok {
									t = pt.Elem()
								}
								if nt, ok := t.(*types.Named); ok {
									recv = nt.Obj().Name()
								} else if sel, ok := x.Fun.(*ast.SelectorExpr); ok {
									// interface method: name the static type of the receiver expression
									if tv := p.TypesInfo.TypeOf(sel.X); tv != nil {
										tt := tv
										if pt, ok := tt.(*types.Pointer); ok {
											tt = pt.Elem()
										}
										if nt, ok := tt.(*types.Named); ok {
											recv = nt.Obj().Name()
										}
									}
								}
							}
							keep := false
							switch id.Name {
							case "SetValue":
								// the register write: (owner, key, value []byte) error
								ps := sig.Params()
								keep = ps.Len() == 3 && isByteSlice(ps.At(0).Type()) && isByteSlice(ps.At(1).Type()) && isByteSlice(ps.At(2).Type())
							case "Commit", "commit", "FastCommit", "NondeterministicFastCommit", "NondeterministicCommit":
								keep = strings.HasSuffix(pkgPath, "cadence/runtime") || strings.HasSuffix(pkgPath, "onflow/atree")
							default:
								keep = strings.Contains(pkgPath, "onflow/cadence")
							}
							if !keep {
								return true
							}
							callee := id.Name
							if recv != "" {
								callee = recv + "." + id.Name
							}
							short := pkgPath[strings.LastIndex(pkgPath, "/")+1:]
							sites = append(sites, commitSite{callee: short + ":" + callee, file: rel, fn: fn,
								afterErrCheck: prev != nil && isErrReturn(prev)})
						}
						return true
					})
				}
				walkBlock = func(list []ast.Stmt) {
					var prev ast.Stmt
					for _, s := range list {
						visitStmt(s, prev)
						prev = s
					}
				}
				walkBlock(fd.Body.List)
			}
		}
	}
	sort.Slice(sites, func(i, j int) bool {
		a, b := sites[i], sites[j]
		if a.callee != b.callee {
			return a.callee < b.callee
		}
		if a.file != b.file {
			return a.file < b.file
		}
		return a.fn < b.fn
	})
	var sb strings.Builder
	sb.WriteString("/- GENERATED by `vtool gen-commitsites` from the checkout under verification. Do not edit. -/\n")
	sb.WriteString("namespace Verif.Gen.CommitSites\n\n")
	sb.WriteString("structure Site where\n  callee : String\n  file : String\n  fn : String\n  afterErrCheck : Bool\n  deriving DecidableEq, Repr\n\n")
	sb.WriteString("def sites : List Site := [\n")
	for i, s := range sites {
		sep := ","
		if i == len(sites)-1 {
			sep = ""
		}
		fmt.Fprintf(&sb, "  ⟨%s, %s, %s, %v⟩%s\n", goload.LeanString(s.callee), goload.LeanString(s.file), goload.LeanString(s.fn), s.afterErrCheck, sep)
	}
	sb.WriteString("]\n\nend Verif.Gen.CommitSites\n")
	return tx.WriteGen("CommitSites", sb.String())
}
