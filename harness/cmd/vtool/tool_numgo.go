package main

// gen-numgo: the numeric translator (TR) of DESIGN.md §5.  Parses the numeric value files of
// <repo>/interpreter and <repo>/values with go/parser and translates the arithmetic methods of
// every integer value type into Lean definitions over `Int` (lean/Verif/Gen/NumGo.lean), one `def`
// per Go method, `Except NumErr Int`-valued.  Package-level *big.Int constants of `sema` are taken
// from the running code (this binary is linked against the checkout under test) and written to
// lean/Verif/Gen/NumConsts.lean.  The translation is a symbolic execution of the method body over a
// small Go subset (tool_numgo_eval.go / tool_numgo_exec.go); a method using anything else gets an
// `-- UNTRANSLATED` comment and no definition.

import (
	"fmt"
	"go/ast"
	"go/parser"
	"go/token"
	"math/big"
	"os"
	"path/filepath"
	"sort"
	"strings"

	"github.com/onflow/cadence/sema"

	"verif/harness/internal/tx"
)

func init() {
	tx.Register(&tx.Tool{Name: "gen-numgo", Help: "translate the numeric value methods to Lean (Gen/NumGo.lean, Gen/NumConsts.lean)", Run: runNumGo})
}

type numTr struct {
	fset          *token.FileSet
	types         map[string]*ast.TypeSpec // pkg.Name
	funcs         map[string]*ast.FuncDecl // pkg.Name
	methods       map[string]*ast.FuncDecl // pkg.Type.Name
	pkgs          map[string]bool
	translatePkgs map[string]bool
	cells         int
	depth         int
	constCells    map[string]int
	usedConsts    map[string]*big.Int
	baseStore     map[int]string
	baseImmut     map[int]string
	pkgDecls      map[string]ast.Expr // package-level const / var initialisers
	pkgCache      map[string]val
}

// package-level *big.Int values, read from the running code
var semaBig = map[string]*big.Int{
	"Int8TypeMinInt": sema.Int8TypeMinInt, "Int8TypeMaxInt": sema.Int8TypeMaxInt,
	"Int16TypeMinInt": sema.Int16TypeMinInt, "Int16TypeMaxInt": sema.Int16TypeMaxInt,
	"Int32TypeMinInt": sema.Int32TypeMinInt, "Int32TypeMaxInt": sema.Int32TypeMaxInt,
	"Int64TypeMinInt": sema.Int64TypeMinInt, "Int64TypeMaxInt": sema.Int64TypeMaxInt,
	"Int128TypeMinIntBig": sema.Int128TypeMinIntBig, "Int128TypeMaxIntBig": sema.Int128TypeMaxIntBig,
	"Int256TypeMinIntBig": sema.Int256TypeMinIntBig, "Int256TypeMaxIntBig": sema.Int256TypeMaxIntBig,
	"UIntTypeMin":     sema.UIntTypeMin,
	"UInt8TypeMinInt": sema.UInt8TypeMinInt, "UInt8TypeMaxInt": sema.UInt8TypeMaxInt,
	"UInt16TypeMinInt": sema.UInt16TypeMinInt, "UInt16TypeMaxInt": sema.UInt16TypeMaxInt,
	"UInt32TypeMinInt": sema.UInt32TypeMinInt, "UInt32TypeMaxInt": sema.UInt32TypeMaxInt,
	"UInt64TypeMinInt": sema.UInt64TypeMinInt, "UInt64TypeMaxInt": sema.UInt64TypeMaxInt,
	"UInt128TypeMinIntBig": sema.UInt128TypeMinIntBig, "UInt128TypeMaxIntBig": sema.UInt128TypeMaxIntBig,
	"UInt256TypeMinIntBig": sema.UInt256TypeMinIntBig, "UInt256TypeMaxIntBig": sema.UInt256TypeMaxIntBig,
	"Word8TypeMinInt": sema.Word8TypeMinInt, "Word8TypeMaxInt": sema.Word8TypeMaxInt,
	"Word16TypeMinInt": sema.Word16TypeMinInt, "Word16TypeMaxInt": sema.Word16TypeMaxInt,
	"Word32TypeMinInt": sema.Word32TypeMinInt, "Word32TypeMaxInt": sema.Word32TypeMaxInt,
	"Word64TypeMinInt": sema.Word64TypeMinInt, "Word64TypeMaxInt": sema.Word64TypeMaxInt,
	"Word128TypeMaxIntPlusOneBig": sema.Word128TypeMaxIntPlusOneBig,
	"Word128TypeMinIntBig":        sema.Word128TypeMinIntBig, "Word128TypeMaxIntBig": sema.Word128TypeMaxIntBig,
	"Word256TypeMaxIntPlusOneBig": sema.Word256TypeMaxIntPlusOneBig,
	"Word256TypeMinIntBig":        sema.Word256TypeMinIntBig, "Word256TypeMaxIntBig": sema.Word256TypeMaxIntBig,
	"Fix64FactorBig":     sema.Fix64FactorBig,
	"Fix64TypeMinIntBig": sema.Fix64TypeMinIntBig, "Fix64TypeMaxIntBig": sema.Fix64TypeMaxIntBig,
	"Fix64TypeMinFractionalBig": sema.Fix64TypeMinFractionalBig, "Fix64TypeMaxFractionalBig": sema.Fix64TypeMaxFractionalBig,
	"UFix64TypeMinIntBig": sema.UFix64TypeMinIntBig, "UFix64TypeMaxIntBig": sema.UFix64TypeMaxIntBig,
	"UFix64TypeMinFractionalBig": sema.UFix64TypeMinFractionalBig, "UFix64TypeMaxFractionalBig": sema.UFix64TypeMaxFractionalBig,
}

func (t *numTr) isPkgName(n string) bool { return t.pkgs[n] }

// value of a package-level name: only *big.Int constants of sema are known
func (t *numTr) pkgValue(pkg, name string, n ast.Node) (val, bool) {
	if pkg == "sema" {
		if b, ok := semaBig[name]; ok {
			key := "sema_" + name
			c, ok := t.constCells[key]
			if !ok {
				c = t.newCell()
				t.constCells[key] = c
				t.baseStore[c] = key
				t.baseImmut[c] = "package-level constant sema." + name
			}
			t.usedConsts[key] = b
			return vBig{c}, true
		}
	}
	if ex, ok := t.pkgDecls[pkg+"."+name]; ok {
		if v, ok := t.pkgCache[pkg+"."+name]; ok {
			return v, true
		}
		// evaluate the initialiser in an empty environment; it must be a plain value
		var res val
		st := &state{vars: map[string]val{}, store: map[int]string{}, immut: map[int]string{}, facts: map[string]bool{}}
		t.eval(ex, st, &frame{pkg: pkg}, func(v val, s2 *state) term {
			if b, ok := v.(vBig); ok && b.cell >= 0 { // a package-level *big.Int: constant cell
				c := t.newCell()
				t.baseStore[c] = s2.store[b.cell]
				t.baseImmut[c] = "package-level variable " + pkg + "." + name
				v = vBig{c}
			}
			res = v
			return tLeaf{""}
		})
		if res == nil {
			t.fail(n, "package-level %s.%s has no plain value", pkg, name)
		}
		t.pkgCache[pkg+"."+name] = res
		return res, true
	}
	return nil, false
}

var numMethods = []string{"Negate", "Plus", "Minus", "Mul", "Div", "Mod",
	"SaturatingPlus", "SaturatingMinus", "SaturatingMul", "SaturatingDiv",
	"BitwiseOr", "BitwiseXor", "BitwiseAnd", "BitwiseLeftShift", "BitwiseRightShift"}

func numTypes() []string {
	var out []string
	for _, fam := range []string{"Int", "UInt", "Word"} {
		for _, w := range []string{"8", "16", "32", "64", "128", "256"} {
			out = append(out, fam+w)
		}
	}
	return append(out, "Int", "UInt")
}

func runNumGo(args []string) error {
	repo := tx.Repo()
	t := &numTr{fset: token.NewFileSet(), types: map[string]*ast.TypeSpec{}, funcs: map[string]*ast.FuncDecl{},
		methods: map[string]*ast.FuncDecl{}, pkgs: map[string]bool{"math": true, "big": true, "bits": true, "common": true,
			"errors": true, "sema": true, "values": true, "ast": true, "interpreter": true, "fix": true, "fixedpoint": true},
		translatePkgs: map[string]bool{}, constCells: map[string]int{}, usedConsts: map[string]*big.Int{},
		baseStore: map[int]string{}, baseImmut: map[int]string{}, pkgDecls: map[string]ast.Expr{}, pkgCache: map[string]val{}}
	t.pkgs["unsafe"] = true
	var files []string
	for _, ty := range numTypes() {
		files = append(files, filepath.Join("interpreter", "value_"+strings.ToLower(ty)+".go"))
	}
	files = append(files, "values/value_int.go", "values/safe_math.go", "common/metering.go")
	for _, rel := range files {
		path := filepath.Join(repo, rel)
		f, err := parser.ParseFile(t.fset, path, nil, parser.SkipObjectResolution)
		if err != nil {
			return fmt.Errorf("parse %s: %w", rel, err)
		}
		pkg := f.Name.Name
		for _, d := range f.Decls {
			switch x := d.(type) {
			case *ast.GenDecl:
				for _, sp := range x.Specs {
					if ts, ok := sp.(*ast.TypeSpec); ok {
						t.types[pkg+"."+ts.Name.Name] = ts
					}
					if vs, ok := sp.(*ast.ValueSpec); ok && len(vs.Values) == len(vs.Names) {
						for i, id := range vs.Names {
							t.pkgDecls[pkg+"."+id.Name] = vs.Values[i]
						}
					}
				}
			case *ast.FuncDecl:
				if x.Recv == nil {
					t.funcs[pkg+"."+x.Name.Name] = x
				} else {
					rt := x.Recv.List[0].Type
					if st, ok := rt.(*ast.StarExpr); ok {
						rt = st.X
					}
					if id, ok := rt.(*ast.Ident); ok {
						t.methods[pkg+"."+id.Name+"."+x.Name.Name] = x
					}
				}
			}
		}
	}

	var out strings.Builder
	nOK, nFail := 0, 0
	var failures []string
	var binNames, unNames []string
	for _, ty := range numTypes() {
		tn := "interpreter." + ty + "Value"
		if _, ok := t.types[tn]; !ok {
			return fmt.Errorf("type %s not found in %s", tn, repo)
		}
		fmt.Fprintf(&out, "/-! ### %sValue  (interpreter/value_%s.go) -/\n\n", ty, strings.ToLower(ty))
		for _, m := range numMethods {
			fd, ok := t.methods[tn+"."+m]
			if !ok {
				fmt.Fprintf(&out, "-- UNTRANSLATED %sValue.%s: method not found\n\n", ty, m)
				nFail++
				failures = append(failures, ty+"Value."+m+": method not found")
				continue
			}
			def, err := t.translateMethod(ty+"Value", tn, fd)
			if err != nil {
				fmt.Fprintf(&out, "-- UNTRANSLATED %sValue.%s: %s\n\n", ty, m, err.Error())
				nFail++
				failures = append(failures, ty+"Value."+m+": "+err.Error())
				continue
			}
			out.WriteString(def)
			out.WriteString("\n\n")
			nOK++
			if strings.Contains(def, "(v o : Int)") {
				binNames = append(binNames, ty+"Value."+m)
			} else {
				unNames = append(unNames, ty+"Value."+m)
			}
		}
	}

	// big-int memory metering (common/metering.go): Amount in bytes as a function of the operands
	out.WriteString("/-! ### big-int memory metering  (common/metering.go): metered amount in bytes -/\n\n")
	var meterNames []string
	for _, fn := range meteringFuncs {
		fd, ok := t.funcs["common."+fn]
		if !ok {
			fmt.Fprintf(&out, "-- UNTRANSLATED Metering.%s: function not found\n\n", fn)
			nFail++
			failures = append(failures, "Metering."+fn+": function not found")
			continue
		}
		def, err := t.translateMetering(fd)
		if err != nil {
			fmt.Fprintf(&out, "-- UNTRANSLATED Metering.%s: %s\n\n", fn, err.Error())
			nFail++
			failures = append(failures, "Metering."+fn+": "+err.Error())
			continue
		}
		out.WriteString(def)
		out.WriteString("\n\n")
		nOK++
		meterNames = append(meterNames, fn)
	}

	// constants
	var cs strings.Builder
	cs.WriteString("/- GENERATED by `vtool gen-numgo` from the running code of the checkout under test (package sema).\n   Do not edit. -/\nnamespace Verif.Gen.NumConsts\n\n")
	names := make([]string, 0, len(semaBig))
	for n := range semaBig {
		names = append(names, n)
	}
	sort.Strings(names)
	for _, n := range names {
		fmt.Fprintf(&cs, "abbrev sema_%s : Int := %s\n", n, semaBig[n].String())
	}
	cs.WriteString("\nend Verif.Gen.NumConsts\n")
	if err := tx.WriteGen("NumConsts", cs.String()); err != nil {
		return err
	}

	var hd strings.Builder
	hd.WriteString("/- GENERATED by `vtool gen-numgo` from interpreter/value_*.go and values/value_int.go of the checkout\n")
	hd.WriteString("   under test.  Do not edit.  One definition per Go method; operands and results are the integer\n")
	hd.WriteString("   contents of the values; `wrapS`/`wrapU` make Go's fixed-width arithmetic explicit. -/\n")
	hd.WriteString("import Verif.Model.Num.Basic\nimport Verif.Gen.NumConsts\n")
	hd.WriteString("set_option linter.unusedVariables false\n")
	hd.WriteString("namespace Verif.Gen.NumGo\nopen Verif.Model.Num Verif.Gen.NumConsts\n\n")
	fmt.Fprintf(&hd, "-- translated: %d methods; untranslated: %d\n\n", nOK, nFail)
	hd.WriteString(out.String())
	hd.WriteString("/-- dispatch tables for the `num` driver: every translated method by name -/\n")
	hd.WriteString("def binTable : List (String × (Int → Int → Except NumErr Int)) := [\n")
	for i, n := range binNames {
		sep := ","
		if i == len(binNames)-1 {
			sep = ""
		}
		fmt.Fprintf(&hd, "  (%q, %s)%s\n", n, n, sep)
	}
	hd.WriteString("]\n\ndef unTable : List (String × (Int → Except NumErr Int)) := [\n")
	for i, n := range unNames {
		sep := ","
		if i == len(unNames)-1 {
			sep = ""
		}
		fmt.Fprintf(&hd, "  (%q, %s)%s\n", n, n, sep)
	}
	hd.WriteString("]\n\ndef meterTable : List (String × (Int → Int → Except NumErr Int)) := [\n")
	for i, n := range meterNames {
		sep := ","
		if i == len(meterNames)-1 {
			sep = ""
		}
		fmt.Fprintf(&hd, "  (%q, Metering.%s)%s\n", n, n, sep)
	}
	hd.WriteString("]\n\nend Verif.Gen.NumGo\n")
	if err := tx.WriteGen("NumGo", hd.String()); err != nil {
		return err
	}
	fmt.Fprintf(os.Stderr, "gen-numgo: %d methods translated, %d untranslated\n", nOK, nFail)
	for _, f := range failures {
		fmt.Fprintln(os.Stderr, "  UNTRANSLATED", f)
	}
	return nil
}

func (t *numTr) translateMethod(leanType, tn string, fd *ast.FuncDecl) (def string, err error) {
	defer func() {
		if r := recover(); r != nil {
			if te, ok := r.(trErr); ok {
				err = fmt.Errorf("%s", te.msg)
				return
			}
			panic(r)
		}
	}()
	t.depth = 0
	st := &state{vars: map[string]val{}, store: map[int]string{}, immut: map[int]string{}, facts: map[string]bool{}}
	// constant cells are shared between methods
	loadBase := func() {
		st = st.clone()
		for c, e := range t.baseStore {
			st.store[c] = e
		}
		im := map[int]string{}
		for c, w := range st.immut {
			im[c] = w
		}
		for c, w := range t.baseImmut {
			im[c] = w
		}
		st.immut = im
	}
	// pre-register every sema constant so that the cells exist before execution starts
	for n := range semaBig {
		t.pkgValue("sema", n, nil)
	}
	t.usedConsts = map[string]*big.Int{}
	loadBase()
	recvT := t.namedType("interpreter", strings.TrimPrefix(tn, "interpreter."))
	var recv val
	recv, st = t.symbolic(recvT, "v", st)
	if len(fd.Recv.List[0].Names) > 0 {
		st = st.setVar(fd.Recv.List[0].Names[0].Name, recv)
	}
	binary := false
	pi := 0
	for _, f := range fd.Type.Params.List {
		isOperand := false
		if id, ok := f.Type.(*ast.Ident); ok && (id.Name == "NumberValue" || id.Name == "IntegerValue") {
			isOperand = true
		}
		for _, n := range f.Names {
			if isOperand {
				if binary {
					t.fail(f, "more than one operand parameter")
				}
				binary = true
				var o val
				o, st = t.symbolic(recvT, "o", st)
				st = st.setVar(n.Name, o)
			} else {
				st = st.setVar(n.Name, vOpaque{"param " + n.Name})
			}
			pi++
		}
		if len(f.Names) == 0 {
			if isOperand {
				binary = true
			}
			pi++
		}
	}
	fr := &frame{pkg: "interpreter", ret: func(v val, st *state) term {
		switch r := v.(type) {
		case vInt:
			return tLeaf{".ok " + r.e}
		case vStruct:
			if f, ok := t.field(r, "BigInt"); ok {
				if b, ok := f.(vBig); ok {
					if b.cell < 0 {
						return tLeaf{".error .goPanic"}
					}
					return tLeaf{".ok " + st.store[b.cell]}
				}
			}
			// a struct wrapping one native integer (interpreter.UFix64Value{values.UFix64Value}); num2 builder
			if f, ok := t.field(r, "UFix64Value"); ok {
				if vi, ok := f.(vInt); ok {
					return tLeaf{".ok " + vi.e}
				}
			}
		}
		if _, ok := v.(vNil); ok {
			return tLeaf{".error .nilValue"} // a nil NumberValue is returned
		}
		t.fail(fd, "method returns %T, not a numeric value", v)
		return nil
	}}
	if fd.Type.Results != nil {
		for _, r := range fd.Type.Results.List {
			fr.results = append(fr.results, t.resolveType("interpreter", r.Type))
		}
	}
	body := t.execBody(fd.Body, st, fr, false)
	params := "(v : Int)"
	if binary {
		params = "(v o : Int)"
	}
	pos := t.fset.Position(fd.Pos())
	return fmt.Sprintf("/-- %s -/\ndef %s.%s %s : Except NumErr Int :=\n%s", shortPath(pos.Filename), leanType, fd.Name.Name, params, render(body, "  ")), nil
}

var meteringFuncs = []string{"NewPlusBigIntMemoryUsage", "NewMinusBigIntMemoryUsage", "NewMulBigIntMemoryUsage",
	"NewModBigIntMemoryUsage", "NewDivBigIntMemoryUsage", "NewBitwiseOrBigIntMemoryUsage", "NewBitwiseXorBigIntMemoryUsage",
	"NewBitwiseAndBigIntMemoryUsage", "NewBitwiseLeftShiftBigIntMemoryUsage", "NewBitwiseRightShiftBigIntMemoryUsage",
	"NewNegateBigIntMemoryUsage"}

// a metering function of common/metering.go: (a, b *big.Int) -> MemoryUsage; the definition returns
// the Amount (bytes).  Unary functions get an unused second operand so that all have one shape.
func (t *numTr) translateMetering(fd *ast.FuncDecl) (def string, err error) {
	defer func() {
		if r := recover(); r != nil {
			if te, ok := r.(trErr); ok {
				err = fmt.Errorf("%s", te.msg)
				return
			}
			panic(r)
		}
	}()
	t.depth = 0
	t.translatePkgs["common"] = true
	defer func() { t.translatePkgs["common"] = false }()
	// force the package-level values used by these functions before the base store is copied
	for _, n := range []string{"BigIntWordSize", "bigIntWordSizeAsBig", "invalidLeftShift"} {
		t.pkgValue("common", n, fd)
	}
	st := &state{vars: map[string]val{}, store: map[int]string{}, immut: map[int]string{}, facts: map[string]bool{}}
	for c, e := range t.baseStore {
		st.store[c] = e
	}
	for c, w := range t.baseImmut {
		st.immut[c] = w
	}
	names := []string{"a", "b"}
	i := 0
	for _, f := range fd.Type.Params.List {
		pt := t.resolveType("common", f.Type)
		if pt.kind != "big" {
			t.fail(f, "metering function with a non-*big.Int parameter")
		}
		for _, n := range f.Names {
			if i >= 2 {
				t.fail(f, "metering function with more than two operands")
			}
			var v val
			v, st = t.symbolic(pt, names[i], st)
			st = st.setVar(n.Name, v)
			i++
		}
	}
	fr := &frame{pkg: "common", ret: func(v val, st *state) term {
		if s, ok := v.(vStruct); ok {
			if am, ok := s.fields["Amount"].(vInt); ok {
				return tLeaf{".ok " + am.e}
			}
		}
		t.fail(fd, "metering function returns %T, not a MemoryUsage", v)
		return nil
	}}
	for _, r := range fd.Type.Results.List {
		fr.results = append(fr.results, t.resolveType("common", r.Type))
	}
	body := t.execBody(fd.Body, st, fr, false)
	return fmt.Sprintf("/-- common/metering.go -/\ndef Metering.%s (a b : Int) : Except NumErr Int :=\n%s", fd.Name.Name, render(body, "  ")), nil
}
