package main

// gen-sharedstate (C36, FX): inventory of the shared mutable state of the non-test code and its guards.
//
//   vars  : every package-level variable that is written outside package initialisation — an assignment,
//           ++/--, delete(), or a mutating method call (Store, Swap, CompareAndSwap, LoadOrStore, Do,
//           Lock, Put, Get on a sync type) whose root operand is the variable, inside a function body
//           other than `init` — with the guard kind of its type (once / atomic / syncmap / mutex / pool /
//           none) and the writing functions;
//   cells : every struct field whose type is a synchronisation primitive (the memo cells of shared
//           type / AST / value objects), with its guard kind;
//   pools : every sync.Pool variable with the functions that Get and Put, and the reset call
//           (a method or builtin named clear / Clear / Reset) found in those functions.
//
// Output: lean/Verif/Gen/SharedState.lean.

import (
	"fmt"
	"go/ast"
	"go/token"
	"go/types"
	"sort"
	"strings"

	"verif/harness/internal/goload"
	"verif/harness/internal/tx"
)

func init() {
	tx.Register(&tx.Tool{Name: "gen-sharedstate", Help: "C36: package-level mutable variables, memo cells, pools and their guards", Run: runSharedState})
}

// rootIdent returns the identifier at the root of an lvalue / receiver expression.
func rootIdent(e ast.Expr) *ast.Ident {
	for {
		switch x := e.(type) {
		case *ast.Ident:
			return x
		case *ast.SelectorExpr:
			// pkg.Var: the selector's Sel is the variable
			if id, ok := x.X.(*ast.Ident); ok {
				_ = id
			}
			e = x.X
		case *ast.IndexExpr:
			e = x.X
		case *ast.StarExpr:
			e = x.X
		case *ast.ParenExpr:
			e = x.X
		case *ast.SliceExpr:
			e = x.X
		case *ast.UnaryExpr:
			e = x.X
		default:
			return nil
		}
	}
}

func runSharedState(args []string) error {
	w, err := loadMeterWorld()
	if err != nil {
		return err
	}
	type pkgVar struct {
		obj     *types.Var
		file    string
		name    string
		guard   string
		writers map[string]bool
		wfuncs  map[*types.Func]bool
		inOnce  int // writes lexically inside a closure passed to (sync.Once).Do
		writes  int
	}
	vars := map[types.Object]*pkgVar{}
	type cellT struct{ file, owner, guard string }
	var cells []cellT
	type poolT struct {
		file, name string
		gets, puts map[string]bool
		resets     map[string]bool
	}
	pools := map[types.Object]*poolT{}
	// declarations
	for _, p := range w.pkgs {
		for _, f := range p.Syntax {
			rel := goload.Rel(w.repo, p.Fset, f.Pos())
			if goload.IsTestFile(rel) || strings.HasPrefix(rel, "old_parser/") {
				continue
			}
			for _, d := range f.Decls {
				gd, ok := d.(*ast.GenDecl)
				if !ok {
					continue
				}
				for _, sp := range gd.Specs {
					switch s := sp.(type) {
					case *ast.ValueSpec:
						if gd.Tok != token.VAR {
							continue
						}
						for _, nm := range s.Names {
							o, ok := p.TypesInfo.Defs[nm].(*types.Var)
							if !ok || nm.Name == "_" {
								continue
							}
							g := containedGuard(o.Type(), 1)
							if g == "" {
								g = "none"
							}
							vars[o] = &pkgVar{o, rel, p.Types.Name() + "." + nm.Name, g, map[string]bool{}, map[*types.Func]bool{}, 0, 0}
							if guardKind(o.Type()) == "pool" {
								pools[o] = &poolT{rel, p.Types.Name() + "." + nm.Name, map[string]bool{}, map[string]bool{}, map[string]bool{}}
							}
						}
					case *ast.TypeSpec:
						st, ok := s.Type.(*ast.StructType)
						if !ok {
							continue
						}
						for _, fld := range st.Fields.List {
							for _, nm := range fld.Names {
								o, ok := p.TypesInfo.Defs[nm].(*types.Var)
								if !ok {
									continue
								}
								t := o.Type()
								if pt, isPtr := t.(*types.Pointer); isPtr {
									t = pt.Elem()
								}
								if g := guardKind(t); g != "" {
									cells = append(cells, cellT{rel, p.Types.Name() + "." + s.Name.Name + "." + nm.Name, g})
								}
							}
						}
					}
				}
			}
		}
	}
	// writes
	mutators := map[string]bool{"Store": true, "Swap": true, "CompareAndSwap": true, "LoadOrStore": true, "Do": true,
		"Lock": true, "RLock": true, "Put": true, "Get": true, "Add": true, "Delete": true, "LoadAndDelete": true}
	for fn, fd := range w.funcDecl {
		p := w.funcPkg[fn]
		rel := goload.Rel(w.repo, p.Fset, fd.Pos())
		if strings.HasPrefix(rel, "old_parser/") {
			continue
		}
		if fd.Recv == nil && fd.Name.Name == "init" {
			continue
		}
		fname := funcDisplay(fn)
		onceDepth := 0
		note := func(e ast.Expr) *pkgVar {
			id := rootIdent(e)
			if id == nil {
				return nil
			}
			o := p.TypesInfo.Uses[id]
			if o == nil {
				// pkg.Var selector: root ident is the package name; look at the selector
				return nil
			}
			if pv, ok := vars[o]; ok {
				pv.writers[fname] = true
				pv.wfuncs[fn] = true
				pv.writes++
				if onceDepth > 0 {
					pv.inOnce++
				}
				return pv
			}
			return nil
		}
		resetSeen := ""
		var poolsTouched []*poolT
		var visit func(n ast.Node) bool
		visit = func(n ast.Node) bool {
			switch x := n.(type) {
			case *ast.CallExpr:
				if sel, ok := x.Fun.(*ast.SelectorExpr); ok && sel.Sel.Name == "Do" && len(x.Args) == 1 {
					if lit, isLit := x.Args[0].(*ast.FuncLit); isLit {
						if tv, ok := p.TypesInfo.Types[sel.X]; ok && guardKind(tv.Type) == "once" {
							note(sel.X)
							onceDepth++
							ast.Inspect(lit.Body, visit)
							onceDepth--
							return false
						}
					}
				}
			}
			switch x := n.(type) {
			case *ast.AssignStmt:
				if x.Tok == token.DEFINE {
					return true
				}
				for _, l := range x.Lhs {
					note(l)
				}
			case *ast.IncDecStmt:
				note(x.X)
			case *ast.CallExpr:
				if id, ok := x.Fun.(*ast.Ident); ok && (id.Name == "delete" || id.Name == "clear") && len(x.Args) > 0 {
					if _, isBuiltin := p.TypesInfo.Uses[id].(*types.Builtin); isBuiltin {
						note(x.Args[0])
						if id.Name == "clear" {
							resetSeen = "clear()"
						}
					}
				}
				if sel, ok := x.Fun.(*ast.SelectorExpr); ok {
					switch sel.Sel.Name {
					case "clear", "Clear", "Reset":
						resetSeen = sel.Sel.Name + "()"
					}
					if mutators[sel.Sel.Name] {
						// only for receivers whose type is (or contains) a sync primitive
						if tv, ok := p.TypesInfo.Types[sel.X]; ok {
							t := tv.Type
							if pt, isPtr := t.(*types.Pointer); isPtr {
								t = pt.Elem()
							}
							if guardKind(t) != "" {
								if pv := note(sel.X); pv != nil {
									if pl, isPool := pools[pv.obj]; isPool {
										if sel.Sel.Name == "Get" {
											pl.gets[fname] = true
										} else if sel.Sel.Name == "Put" {
											pl.puts[fname] = true
										}
										poolsTouched = append(poolsTouched, pl)
									}
								}
							}
						}
					}
				}
			}
			return true
		}
		ast.Inspect(fd.Body, visit)
		if resetSeen != "" {
			for _, pl := range poolsTouched {
				pl.resets[fname+":"+resetSeen] = true
			}
		}
	}
	keys := func(m map[string]bool) []string {
		var out []string
		for k := range m {
			out = append(out, k)
		}
		sort.Strings(out)
		return out
	}
	// init-only functions: unexported, every call site inside init(), a package-level initialiser, or an init-only function
	callers := map[*types.Func][]*types.Func{} // callee -> calling functions (nil entry = package-level initialiser / init)
	for fn, fd := range w.funcDecl {
		p := w.funcPkg[fn]
		isInit := fd.Recv == nil && fd.Name.Name == "init"
		ast.Inspect(fd.Body, func(n ast.Node) bool {
			if call, ok := n.(*ast.CallExpr); ok {
				if cal := calleeOf(p.TypesInfo, call); cal != nil {
					if isInit {
						callers[cal] = append(callers[cal], nil)
					} else {
						callers[cal] = append(callers[cal], fn)
					}
				}
			}
			// a function used as a value (not called) may be called from anywhere
			return true
		})
	}
	for _, p := range w.pkgs {
		for _, f := range p.Syntax {
			if goload.IsTestFile(goload.Rel(w.repo, p.Fset, f.Pos())) {
				continue
			}
			for _, d := range f.Decls {
				if gd, ok := d.(*ast.GenDecl); ok && gd.Tok == token.VAR {
					ast.Inspect(gd, func(n ast.Node) bool {
						if call, ok := n.(*ast.CallExpr); ok {
							if cal := calleeOf(p.TypesInfo, call); cal != nil {
								callers[cal] = append(callers[cal], nil)
							}
						}
						return true
					})
				}
			}
		}
	}
	// loose: every in-repo call site is at initialisation time; strict: additionally no exported function on the way
	type io struct{ loose, strict bool }
	initOnly := map[*types.Func]io{}
	var isInitOnly func(fn *types.Func, depth int) io
	isInitOnly = func(fn *types.Func, depth int) io {
		if v, ok := initOnly[fn]; ok {
			return v
		}
		if depth > 8 || len(callers[fn]) == 0 {
			initOnly[fn] = io{false, false}
			return initOnly[fn]
		}
		res := io{true, !fn.Exported()}
		initOnly[fn] = res // optimistic for recursion
		for _, c := range callers[fn] {
			if c != nil {
				r := isInitOnly(c, depth+1)
				res.loose = res.loose && r.loose
				res.strict = res.strict && r.strict
			}
		}
		res.strict = res.strict && res.loose
		initOnly[fn] = res
		return res
	}
	phaseOf := func(v *pkgVar) string {
		if v.guard != "none" {
			return "guarded"
		}
		if v.writes > 0 && v.inOnce == v.writes {
			return "once-closure"
		}
		loose, strict, nocallers := true, true, false
		for fn := range v.wfuncs {
			r := isInitOnly(fn, 0)
			loose = loose && r.loose
			strict = strict && r.strict
			if len(callers[fn]) == 0 {
				nocallers = true
			}
		}
		switch {
		case strict:
			return "init-only"
		case loose:
			return "init-only-in-repo"
		case nocallers:
			return "exported-writer-no-callers"
		}
		return "runtime"
	}
	var vlist []*pkgVar
	for _, v := range vars {
		if len(v.writers) > 0 {
			vlist = append(vlist, v)
		}
	}
	sort.Slice(vlist, func(i, j int) bool {
		if vlist[i].file != vlist[j].file {
			return vlist[i].file < vlist[j].file
		}
		return vlist[i].name < vlist[j].name
	})
	sort.Slice(cells, func(i, j int) bool {
		if cells[i].file != cells[j].file {
			return cells[i].file < cells[j].file
		}
		return cells[i].owner < cells[j].owner
	})
	var plist []*poolT
	for _, pl := range pools {
		plist = append(plist, pl)
	}
	sort.Slice(plist, func(i, j int) bool { return plist[i].file+plist[i].name < plist[j].file+plist[j].name })

	var sb strings.Builder
	sb.WriteString("/- GENERATED by `vtool gen-sharedstate` from the checkout under verification. Do not edit. -/\n")
	sb.WriteString("namespace Verif.Gen.SharedState\n\n")
	sb.WriteString("/-- a package-level variable written inside a function body other than `init`.  phase: guarded (its type is a sync primitive) |\nonce-closure (every write is inside a closure passed to sync.Once.Do) | init-only (every writer is unexported and only called,\ntransitively, from init() / package-level initialisers) | init-only-in-repo (same, but an exported function is on the\nway, so code outside the repository could call it later) | exported-writer-no-callers | runtime -/\n")
	sb.WriteString("structure Var where\n  file : String\n  name : String\n  guard : String\n  phase : String\n  writers : List String\n  deriving DecidableEq, Repr\n\n")
	sb.WriteString("/-- a struct field whose type is a synchronisation primitive -/\n")
	sb.WriteString("structure Cell where\n  file : String\n  owner : String\n  guard : String\n  deriving DecidableEq, Repr\n\n")
	sb.WriteString("/-- a sync.Pool variable: functions that Get / Put, and `<function>:<reset call>` found in them -/\n")
	sb.WriteString("structure Pool where\n  file : String\n  name : String\n  gets : List String\n  puts : List String\n  resets : List String\n  deriving DecidableEq, Repr\n\n")
	sb.WriteString("def vars : List Var := [\n")
	for i, v := range vlist {
		sep := ","
		if i == len(vlist)-1 {
			sep = ""
		}
		fmt.Fprintf(&sb, "  ⟨%s, %s, %s, %s, %s⟩%s\n", goload.LeanString(v.file), goload.LeanString(v.name), goload.LeanString(v.guard), goload.LeanString(phaseOf(v)), leanStrList(keys(v.writers)), sep)
	}
	sb.WriteString("]\n\ndef cells : List Cell := [\n")
	for i, c := range cells {
		sep := ","
		if i == len(cells)-1 {
			sep = ""
		}
		fmt.Fprintf(&sb, "  ⟨%s, %s, %s⟩%s\n", goload.LeanString(c.file), goload.LeanString(c.owner), goload.LeanString(c.guard), sep)
	}
	sb.WriteString("]\n\ndef pools : List Pool := [\n")
	for i, pl := range plist {
		sep := ","
		if i == len(plist)-1 {
			sep = ""
		}
		fmt.Fprintf(&sb, "  ⟨%s, %s, %s, %s, %s⟩%s\n", goload.LeanString(pl.file), goload.LeanString(pl.name), leanStrList(keys(pl.gets)), leanStrList(keys(pl.puts)), leanStrList(keys(pl.resets)), sep)
	}
	sb.WriteString("]\n\nend Verif.Gen.SharedState\n")
	return tx.WriteGen("SharedState", sb.String())
}
