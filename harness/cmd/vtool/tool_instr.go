package main

// gen-instr (property C35): regenerates lean/Verif/Gen/Instr.lean from
//   * bbq/opcode/instructions.yml  (instruction names, operand names and operand types),
//   * bbq/opcode/instructions.go   (go/ast: the emit* calls of every `Encode` method, the decode*
//     calls of every `Decode<Name>` function, the cases of `DecodeInstruction`),
//   * the running opcode package   (value of every opcode constant, OpcodeMax).
// The operand kinds of the table are those of the emit* calls, i.e. of the code that runs; the YAML
// types and the decode* calls are emitted next to them and a Lean theorem checks they agree.

import (
	"fmt"
	"go/ast"
	"go/parser"
	"go/token"
	"os"
	"path/filepath"
	"strings"
	"unicode"
	"unicode/utf8"

	"github.com/onflow/cadence/bbq/opcode"
	"gopkg.in/yaml.v3"

	"verif/harness/internal/tx"
)

func init() {
	tx.Register(&tx.Tool{Name: "gen-instr", Help: "instruction table from bbq/opcode", Run: runGenInstr})
}

type ymlOperand struct {
	Name string `yaml:"name"`
	Type string `yaml:"type"`
}
type ymlInstr struct {
	Name     string       `yaml:"name"`
	Operands []ymlOperand `yaml:"operands"`
}

func firstUpper(s string) string {
	if s == "" {
		return ""
	}
	r, n := utf8.DecodeRuneInString(s)
	return string(unicode.ToUpper(r)) + s[n:]
}

var kindOfEmit = map[string]string{
	"emitBool": ".bool", "emitUint16": ".u16", "emitUint16Array": ".u16s",
	"emitPathDomain": ".pathDomain", "emitCompositeKind": ".compositeKind", "emitUpvalueArray": ".upvalues",
}

func runGenInstr(args []string) error {
	dir := filepath.Join(tx.Repo(), "bbq", "opcode")
	raw, err := os.ReadFile(filepath.Join(dir, "instructions.yml"))
	if err != nil {
		return err
	}
	var instrs []ymlInstr
	if err := yaml.Unmarshal(raw, &instrs); err != nil {
		return fmt.Errorf("instructions.yml: %w", err)
	}

	// opcode constants of the running code, by stringer name
	opByName := map[string]int{}
	for i := 0; i < int(opcode.OpcodeMax); i++ {
		name := opcode.Opcode(i).String()
		if strings.HasPrefix(name, "Opcode(") {
			continue
		}
		opByName[name] = i
	}

	fset := token.NewFileSet()
	f, err := parser.ParseFile(fset, filepath.Join(dir, "instructions.go"), nil, 0)
	if err != nil {
		return err
	}
	type call struct{ fn, field string }
	encodeCalls := map[string][]call{} // Go name -> emit calls after emitOpcode
	encodeOpcodeFirst := map[string]bool{}
	decodeCalls := map[string][]call{}
	opcodeOf := map[string]string{}   // Go name -> constant returned by Opcode()
	dispatch := map[string]string{}   // opcode constant -> "DecodeX" or "InstructionX{}"
	recvName := func(fd *ast.FuncDecl) string {
		if fd.Recv == nil || len(fd.Recv.List) != 1 {
			return ""
		}
		if id, ok := fd.Recv.List[0].Type.(*ast.Ident); ok {
			return strings.TrimPrefix(id.Name, "Instruction")
		}
		return ""
	}
	for _, d := range f.Decls {
		fd, ok := d.(*ast.FuncDecl)
		if !ok || fd.Body == nil {
			continue
		}
		switch {
		case fd.Name.Name == "Encode" && recvName(fd) != "":
			name := recvName(fd)
			for i, st := range fd.Body.List {
				es, ok := st.(*ast.ExprStmt)
				if !ok {
					return fmt.Errorf("%s.Encode: unexpected statement", name)
				}
				ce, ok := es.X.(*ast.CallExpr)
				if !ok {
					return fmt.Errorf("%s.Encode: unexpected expression", name)
				}
				fn, ok := ce.Fun.(*ast.Ident)
				if !ok || len(ce.Args) != 2 {
					return fmt.Errorf("%s.Encode: unexpected call", name)
				}
				if fn.Name == "emitOpcode" {
					if i != 0 {
						return fmt.Errorf("%s.Encode: emitOpcode is not the first statement", name)
					}
					encodeOpcodeFirst[name] = true
					continue
				}
				sel, ok := ce.Args[1].(*ast.SelectorExpr)
				if !ok {
					return fmt.Errorf("%s.Encode: argument of %s is not a field", name, fn.Name)
				}
				encodeCalls[name] = append(encodeCalls[name], call{fn.Name, sel.Sel.Name})
			}
			if _, ok := encodeCalls[name]; !ok {
				encodeCalls[name] = nil
			}
		case fd.Name.Name == "Opcode" && recvName(fd) != "":
			if len(fd.Body.List) == 1 {
				if rs, ok := fd.Body.List[0].(*ast.ReturnStmt); ok && len(rs.Results) == 1 {
					if id, ok := rs.Results[0].(*ast.Ident); ok {
						opcodeOf[recvName(fd)] = id.Name
					}
				}
			}
		case fd.Recv == nil && strings.HasPrefix(fd.Name.Name, "Decode") && fd.Name.Name != "DecodeInstruction":
			name := strings.TrimPrefix(fd.Name.Name, "Decode")
			for _, st := range fd.Body.List {
				switch s := st.(type) {
				case *ast.AssignStmt:
					if len(s.Lhs) != 1 || len(s.Rhs) != 1 {
						return fmt.Errorf("Decode%s: unexpected assignment", name)
					}
					sel, ok1 := s.Lhs[0].(*ast.SelectorExpr)
					ce, ok2 := s.Rhs[0].(*ast.CallExpr)
					if !ok1 || !ok2 {
						return fmt.Errorf("Decode%s: unexpected assignment shape", name)
					}
					fn, ok := ce.Fun.(*ast.Ident)
					if !ok {
						return fmt.Errorf("Decode%s: unexpected callee", name)
					}
					decodeCalls[name] = append(decodeCalls[name], call{fn.Name, sel.Sel.Name})
				case *ast.ReturnStmt:
				default:
					return fmt.Errorf("Decode%s: unexpected statement", name)
				}
			}
		case fd.Recv == nil && fd.Name.Name == "DecodeInstruction":
			var sw *ast.SwitchStmt
			for _, st := range fd.Body.List {
				if s, ok := st.(*ast.SwitchStmt); ok {
					sw = s
				}
			}
			if sw == nil {
				return fmt.Errorf("DecodeInstruction: no switch")
			}
			for _, cc := range sw.Body.List {
				clause := cc.(*ast.CaseClause)
				if clause.List == nil {
					continue // default: panic
				}
				if len(clause.Body) != 1 {
					return fmt.Errorf("DecodeInstruction: case with %d statements", len(clause.Body))
				}
				rs, ok := clause.Body[0].(*ast.ReturnStmt)
				if !ok || len(rs.Results) != 1 {
					return fmt.Errorf("DecodeInstruction: case does not return")
				}
				var target string
				switch r := rs.Results[0].(type) {
				case *ast.CallExpr:
					target = r.Fun.(*ast.Ident).Name
				case *ast.CompositeLit:
					target = r.Type.(*ast.Ident).Name + "{}"
				default:
					return fmt.Errorf("DecodeInstruction: unexpected result expression")
				}
				for _, e := range clause.List {
					dispatch[e.(*ast.Ident).Name] = target
				}
			}
		}
	}

	var sb strings.Builder
	sb.WriteString("/- GENERATED by `vtool gen-instr` from bbq/opcode/instructions.yml, instructions.go and the\n   running opcode constants — do not edit. -/\n")
	sb.WriteString("import Verif.Model.Codec.InstrTypes\nnamespace Verif.Gen.Instr\nopen Verif.Model.Instr\n\n")
	fmt.Fprintf(&sb, "def opcodeMax : Nat := %d\n\n", int(opcode.OpcodeMax))
	sb.WriteString("def specs : List InstrSpec := [\n")
	var decLines, dispLines []string
	for idx, ins := range instrs {
		goName := firstUpper(ins.Name)
		op, ok := opByName[goName]
		if !ok {
			return fmt.Errorf("instruction %q: no opcode constant %s in the running code", ins.Name, goName)
		}
		calls, ok := encodeCalls[goName]
		if !ok {
			return fmt.Errorf("instruction %q: no Encode method on Instruction%s", ins.Name, goName)
		}
		if !encodeOpcodeFirst[goName] {
			return fmt.Errorf("instruction %q: Encode does not start with emitOpcode", ins.Name)
		}
		if opcodeOf[goName] != goName {
			return fmt.Errorf("instruction %q: Opcode() returns %q", ins.Name, opcodeOf[goName])
		}
		if len(calls) != len(ins.Operands) {
			return fmt.Errorf("instruction %q: %d operands in YAML, %d emit calls in Encode", ins.Name, len(ins.Operands), len(calls))
		}
		var ops []string
		for i, o := range ins.Operands {
			c := calls[i]
			kind, ok := kindOfEmit[c.fn]
			if !ok {
				return fmt.Errorf("instruction %q: unknown emit function %s (extend the codec model)", ins.Name, c.fn)
			}
			if c.field != firstUpper(o.Name) {
				return fmt.Errorf("instruction %q: operand %d is %q in YAML but Encode emits field %s", ins.Name, i, o.Name, c.field)
			}
			ops = append(ops, fmt.Sprintf("⟨%q, %q, %s⟩", o.Name, o.Type, kind))
		}
		sep := ","
		if idx == len(instrs)-1 {
			sep = ""
		}
		fmt.Fprintf(&sb, "  ⟨%q, %d, [%s]⟩%s\n", goName, op, strings.Join(ops, ", "), sep)
		var dcs []string
		for _, c := range decodeCalls[goName] {
			dcs = append(dcs, fmt.Sprintf("(%q, %q)", c.fn, c.field))
		}
		decLines = append(decLines, fmt.Sprintf("  (%q, [%s])", goName, strings.Join(dcs, ", ")))
		dispLines = append(dispLines, fmt.Sprintf("  (%q, %q)", goName, dispatch[goName]))
	}
	sb.WriteString("]\n\n")
	if len(dispatch) != len(instrs) {
		return fmt.Errorf("DecodeInstruction has %d cases, instructions.yml %d instructions", len(dispatch), len(instrs))
	}
	sb.WriteString("/-- per instruction: the (decode function, field) assignments of `Decode<Name>` in instructions.go -/\n")
	sb.WriteString("def goDecode : List (String × List (String × String)) := [\n" + strings.Join(decLines, ",\n") + "\n]\n\n")
	sb.WriteString("/-- per instruction: what its case of `DecodeInstruction` returns -/\n")
	sb.WriteString("def goDispatch : List (String × String) := [\n" + strings.Join(dispLines, ",\n") + "\n]\n\n")
	sb.WriteString("end Verif.Gen.Instr\n")
	return tx.WriteGen("Instr", sb.String())
}
