package main

// NumGo subset, part 2: calls (inlining, big.Int vocabulary, byte-level helper ports) and statements.

import (
	"fmt"
	"go/ast"
	"go/constant"
	"go/token"
	"strings"
)

// ---- calls

func (t *numTr) call(x *ast.CallExpr, st *state, fr *frame, k kont) term {
	// conversions and builtins
	switch f := x.Fun.(type) {
	case *ast.Ident:
		if _, isVar := st.vars[f.Name]; !isVar {
			switch f.Name {
			case "new":
				ty := t.resolveType(fr.pkg, x.Args[0])
				if ty.kind != "bigval" {
					t.fail(x, "new of a type other than big.Int")
				}
				c := t.newCell()
				st = st.clone()
				st.store[c] = "0"
				return k(vBig{c}, st)
			case "panic":
				return t.eval(x.Args[0], st, fr, func(v val, st *state) term {
					if e, ok := v.(vErr); ok {
						return t.raise(fr, e, st)
					}
					t.fail(x, "panic with a value that is not a known error (%T)", v)
					return nil
				})
			case "recover":
				if !fr.deferred {
					t.fail(x, "recover outside a deferred function")
				}
				if fr.recovered == nil {
					return k(vNil{}, st)
				}
				return k(fr.recovered, st)
			case "len":
				return t.eval(x.Args[0], st, fr, func(v val, st *state) term {
					if b, ok := v.(vBits); ok {
						return k(vInt{e: "(Go.wordLen " + b.of + ")", k: ikind{true, 64}}, st)
					}
					t.fail(x, "len of %T", v)
					return nil
				})
			case "max", "min":
				return t.evalList(x.Args, st, fr, func(vs []val, st *state) term {
					if len(vs) != 2 {
						t.fail(x, "%s with %d arguments", f.Name, len(vs))
					}
					a, ok1 := vs[0].(vInt)
					b, ok2 := vs[1].(vInt)
					if !ok1 || !ok2 || a.k != b.k {
						t.fail(x, "%s on %T and %T", f.Name, vs[0], vs[1])
					}
					return k(vInt{e: "(" + f.Name + " " + a.e + " " + b.e + ")", k: a.k}, st)
				})
			case "make", "append":
				t.fail(x, "unsupported builtin %s", f.Name)
			}
			if ty := t.resolveType(fr.pkg, f); ty.kind == "int" {
				return t.conversion(x, ty, st, fr, k)
			}
			if fd, ok := t.funcs[fr.pkg+"."+f.Name]; ok {
				return t.inline(x, fd, fr.pkg, nil, "", x.Args, st, fr, k)
			}
			t.fail(x, "call of unknown function %s", f.Name)
		}
		// local closure
		return t.eval(f, st, fr, func(fv val, st *state) term {
			cl, ok := fv.(vClosure)
			if !ok {
				t.fail(x, "call of a non-function value %T", fv)
			}
			return t.evalList(x.Args, st, fr, func(args []val, st *state) term {
				return t.callClosure(x, cl, args, st, fr, k)
			})
		})
	case *ast.SelectorExpr:
		if p, ok := f.X.(*ast.Ident); ok {
			if _, isVar := st.vars[p.Name]; !isVar && t.isPkgName(p.Name) {
				return t.pkgCall(x, p.Name, f.Sel.Name, st, fr, k)
			}
		}
		// method call
		return t.eval(f.X, st, fr, func(recv val, st *state) term {
			return t.methodCall(x, recv, f.Sel.Name, st, fr, k)
		})
	case *ast.FuncLit:
		return t.evalList(x.Args, st, fr, func(args []val, st *state) term {
			return t.callClosure(x, vClosure{lit: f, st: st, pkg: fr.pkg}, args, st, fr, k)
		})
	}
	t.fail(x, "unsupported call form %T", x.Fun)
	return nil
}

func (t *numTr) conversion(x *ast.CallExpr, ty typ, st *state, fr *frame, k kont) term {
	if len(x.Args) != 1 {
		t.fail(x, "conversion with %d arguments", len(x.Args))
	}
	return t.eval(x.Args[0], st, fr, func(v val, st *state) term {
		switch a := v.(type) {
		case vConst:
			return k(t.convConst(x, a.c, ty.ik, ty.named), st)
		case vInt:
			if a.k == ty.ik {
				return k(vInt{e: a.e, k: ty.ik, named: ty.named}, st) // same representation: no-op
			}
			return k(vInt{e: ty.ik.wrap(a.e), k: ty.ik, named: ty.named}, st)
		}
		t.fail(x, "conversion of %T to an integer type", v)
		return nil
	})
}

func (t *numTr) pkgCall(x *ast.CallExpr, pkg, name string, st *state, fr *frame, k kont) term {
	full := pkg + "." + name
	if meteringCalls[full] {
		return k(vVoid{}, st)
	}
	if pkg == "common" {
		if fd, ok := t.funcs[full]; ok && t.translatePkgs["common"] {
			return t.inline(x, fd, pkg, nil, "", x.Args, st, fr, k)
		}
		// memory / computation usage descriptors: consumed only by metering calls
		if strings.HasSuffix(name, "MemoryUsage") || strings.HasSuffix(name, "Operation") || strings.HasSuffix(name, "Usage") {
			return k(vOpaque{full}, st)
		}
	}
	switch full {
	case "unsafe.Sizeof":
		// size of a word-sized type on the 64-bit platform the harness runs on
		if c, ok := x.Args[0].(*ast.CallExpr); ok {
			switch t.errTypeString(fr.pkg, c.Fun) {
			case "big.Word", fr.pkg + ".uintptr", fr.pkg + ".uint", fr.pkg + ".int", fr.pkg + ".int64", fr.pkg + ".uint64":
				return k(vConst{constant.MakeInt64(8)}, st)
			}
		}
		t.fail(x, "unsafe.Sizeof of an unknown type")
	case "errors.NewDefaultUserError":
		return k(vErr{kind: "userError", gotype: "errors.DefaultUserError"}, st)
	case "errors.NewUnreachableError":
		return k(vErr{kind: "unreachable", gotype: "errors.UnreachableError"}, st)
	case "big.NewInt":
		return t.eval(x.Args[0], st, fr, func(v val, st *state) term {
			var e string
			switch a := v.(type) {
			case vConst:
				e = t.convConst(x, a.c, ikind{true, 64}, "").e
			case vInt:
				if a.k != (ikind{true, 64}) {
					t.fail(x, "big.NewInt of a non-int64 value")
				}
				e = a.e
			default:
				t.fail(x, "big.NewInt of %T", v)
			}
			c := t.newCell()
			st = st.clone()
			st.store[c] = e
			return k(vBig{c}, st)
		})
	}
	if ty := t.namedType(pkg, name); ty.kind == "int" {
		return t.conversion(x, ty, st, fr, k)
	}
	if fd, ok := t.funcs[full]; ok {
		return t.inline(x, fd, pkg, nil, "", x.Args, st, fr, k)
	}
	t.fail(x, "call of %s is outside the NumGo subset", full)
	return nil
}

// helper ports: name -> handler
func (t *numTr) helperPort(x *ast.CallExpr, name string, args []val, st *state, k kont) (term, bool) {
	intArg := func(v val) string {
		switch a := v.(type) {
		case vConst:
			return t.convConst(x, a.c, ikind{true, 64}, "").e
		case vInt:
			return a.e
		}
		t.fail(x, "integer argument expected in %s", name)
		return ""
	}
	mutate := func(dst val, e string) term {
		b, ok := dst.(vBig)
		if !ok || b.cell < 0 {
			t.fail(x, "%s: destination is not a *big.Int", name)
		}
		if why, im := st.immut[b.cell]; im {
			t.fail(x, "%s mutates %s", name, why)
		}
		st = st.clone()
		st.store[b.cell] = e
		return k(b, st)
	}
	switch name {
	case "toTwosComplement":
		return mutate(args[0], fmt.Sprintf("(Go.toTwosComplement %s %s)", t.bigExpr(x, args[1], st), intArg(args[2]))), true
	case "truncate":
		return mutate(args[0], fmt.Sprintf("(Go.truncateWords %s %s)", t.bigExpr(x, args[0], st), intArg(args[1]))), true
	}
	return nil, false
}

// byte-level helpers that are mapped to hand-written ports (Verif.Model.Num.Basic) instead of being translated;
// every other helper (e.g. fromTwosComplement) is inlined from its source
var helperPorts = map[string]bool{"interpreter.toTwosComplement": true, "interpreter.truncate": true}

func (t *numTr) inline(x *ast.CallExpr, fd *ast.FuncDecl, pkg string, recv val, recvName string, argExprs []ast.Expr, st *state, fr *frame, k kont) term {
	if t.depth > 60 {
		t.fail(x, "inlining depth exceeded (recursion?) at %s", fd.Name.Name)
	}
	if fd.Body == nil {
		t.fail(x, "function %s has no body", fd.Name.Name)
	}
	// parameters of interface / opaque types are not evaluated when the argument is a metering descriptor
	return t.evalList(argExprs, st, fr, func(args []val, st *state) term {
		if recv == nil && helperPorts[pkg+"."+fd.Name.Name] {
			if r, ok := t.helperPort(x, fd.Name.Name, args, st, k); ok {
				return r
			}
		}
		vars := map[string]val{}
		if recv != nil && recvName != "" && recvName != "_" {
			vars[recvName] = recv
		}
		i := 0
		for _, f := range fd.Type.Params.List {
			pt := t.resolveType(pkg, f.Type)
			names := f.Names
			if len(names) == 0 {
				i++
				continue
			}
			for _, n := range names {
				if i >= len(args) {
					t.fail(x, "too few arguments in call of %s", fd.Name.Name)
				}
				a := args[i]
				if c, ok := a.(vConst); ok && pt.kind == "int" {
					a = t.convConst(x, c.c, pt.ik, pt.named)
				}
				if n.Name != "_" {
					vars[n.Name] = a
				}
				i++
			}
		}
		inner := &state{vars: vars, store: st.store, immut: st.immut, facts: st.facts}
		var results []typ
		if fd.Type.Results != nil {
			for _, r := range fd.Type.Results.List {
				n := len(r.Names)
				if n == 0 {
					n = 1
				}
				for j := 0; j < n; j++ {
					results = append(results, t.resolveType(pkg, r.Type))
				}
			}
		}
		outerVars := st.vars
		nf := &frame{pkg: pkg, results: results, ret: func(v val, s2 *state) term {
			back := &state{vars: outerVars, store: s2.store, immut: s2.immut, facts: s2.facts}
			return k(v, back)
		}}
		nf.onPanic = fr.onPanic
		t.depth++
		defer func() { t.depth-- }()
		return t.execBody(fd.Body, inner, nf, len(results) == 0)
	})
}

func (t *numTr) callClosure(x ast.Node, cl vClosure, args []val, st *state, caller *frame, k kont) term {
	vars := map[string]val{}
	for n, v := range cl.st.vars {
		vars[n] = v
	}
	i := 0
	for _, f := range cl.lit.Type.Params.List {
		for _, n := range f.Names {
			vars[n.Name] = args[i]
			i++
		}
	}
	var results []typ
	if cl.lit.Type.Results != nil {
		for _, r := range cl.lit.Type.Results.List {
			results = append(results, t.resolveType(cl.pkg, r.Type))
		}
	}
	captured := map[string]bool{}
	for n := range cl.st.vars {
		captured[n] = true
	}
	inner := &state{vars: vars, store: st.store, immut: st.immut, facts: st.facts}
	outerVars := st.vars
	nf := &frame{pkg: cl.pkg, results: results, locals: map[string]bool{}, ret: func(v val, s2 *state) term {
		return k(v, &state{vars: outerVars, store: s2.store, immut: s2.immut, facts: s2.facts})
	}}
	nf.captured = captured
	if caller != nil {
		nf.onPanic = caller.onPanic
	}
	t.depth++
	defer func() { t.depth-- }()
	return t.execBody(cl.lit.Body, inner, nf, len(results) == 0)
}

func (t *numTr) methodCall(x *ast.CallExpr, recv val, name string, st *state, fr *frame, k kont) term {
	switch r := recv.(type) {
	case vBig:
		return t.evalList(x.Args, st, fr, func(args []val, st *state) term {
			return t.bigMethod(x, r, name, args, st, fr, k)
		})
	case vInt, vStruct:
		tn := nameOf(recv)
		if tn == "" {
			t.fail(x, "method %s on an unnamed type", name)
		}
		if fd, ok := t.methods[tn+"."+name]; ok {
			pkg := strings.SplitN(tn, ".", 2)[0]
			rn := ""
			if len(fd.Recv.List[0].Names) > 0 {
				rn = fd.Recv.List[0].Names[0].Name
			}
			// the meaning of `StaticType(context)` etc. is irrelevant; only numeric methods are inlined
			return t.inline(x, fd, pkg, recv, rn, x.Args, st, fr, k)
		}
		// promoted method of an embedded struct
		if s, ok := recv.(vStruct); ok {
			for _, fv := range s.fields {
				if in, ok := fv.(vStruct); ok {
					if _, ok := t.methods[in.typ+"."+name]; ok {
						return t.methodCall(x, in, name, st, fr, k)
					}
				}
			}
		}
		t.fail(x, "unknown method %s.%s", tn, name)
	case vOpaque:
		return k(vOpaque{name}, st)
	}
	t.fail(x, "method call %s on %T", name, recv)
	return nil
}

// the *big.Int method vocabulary; z.Op(x, y) sets z and returns z
func (t *numTr) bigMethod(x *ast.CallExpr, z vBig, name string, args []val, st *state, fr *frame, k kont) term {
	if z.cell < 0 {
		return t.raise(fr, goRuntimePanic, st) // nil receiver
	}
	arg := func(i int) string { return t.bigExpr(x, args[i], st) }
	native := func(i int, kinds ...ikind) string {
		switch a := args[i].(type) {
		case vConst:
			return t.convConst(x, a.c, kinds[0], "").e
		case vInt:
			for _, kd := range kinds {
				if a.k == kd {
					return a.e
				}
			}
			t.fail(x, "argument of %s has the wrong integer kind", name)
		}
		t.fail(x, "integer argument expected in %s", name)
		return ""
	}
	set := func(e string) term {
		if why, im := st.immut[z.cell]; im {
			t.fail(x, "big.Int.%s mutates %s", name, why)
		}
		s2 := st.clone()
		s2.store[z.cell] = e
		return k(z, s2)
	}
	u64, i64 := ikind{false, 64}, ikind{true, 64}
	self := st.store[z.cell]
	switch name {
	case "Add":
		return set("(" + arg(0) + " + " + arg(1) + ")")
	case "Sub":
		return set("(" + arg(0) + " - " + arg(1) + ")")
	case "Mul":
		return set("(" + arg(0) + " * " + arg(1) + ")")
	case "Quo", "Rem", "Div", "Mod":
		fn := map[string]string{"Quo": "Int.tdiv", "Rem": "Int.tmod", "Div": "Int.ediv", "Mod": "Int.emod"}[name]
		a, b := arg(0), arg(1)
		return t.guard(st, "("+b+" = 0)", func(s *state) term { return t.raise(fr, goRuntimePanic, s) }, func(s *state) term {
			st = s
			return set("(" + fn + " " + a + " " + b + ")")
		})
	case "Neg":
		return set("(-" + arg(0) + ")")
	case "Abs":
		return set("((" + arg(0) + ").natAbs : Int)")
	case "Set":
		return set(arg(0))
	case "SetInt64":
		return set(native(0, i64))
	case "SetUint64":
		return set(native(0, u64))
	case "Lsh":
		return set("(Go.bigLsh " + arg(0) + " " + native(1, u64) + ")")
	case "Rsh":
		return set("(Go.bigRsh " + arg(0) + " " + native(1, u64) + ")")
	case "And":
		return set("(Go.land " + arg(0) + " " + arg(1) + ")")
	case "Or":
		return set("(Go.lor " + arg(0) + " " + arg(1) + ")")
	case "Xor":
		return set("(Go.xor " + arg(0) + " " + arg(1) + ")")
	case "AndNot":
		return set("(Go.land " + arg(0) + " (-" + arg(1) + " - 1))")
	case "Not":
		return set("(-" + arg(0) + " - 1)")
	case "Bits":
		return k(vBits{self}, st)
	case "Bit":
		return k(vInt{e: "(Go.bit " + self + " " + native(0, i64) + ")", k: u64}, st)
	case "Cmp":
		o := arg(0)
		return k(vInt{e: "(Go.cmp " + self + " " + o + ")", k: i64, cmp: &[2]string{self, o}}, st)
	case "Sign":
		return k(vInt{e: "(Go.sign " + self + ")", k: i64, cmp: &[2]string{self, "0"}}, st)
	case "IsUint64":
		return k(vBool{"(Go.isUint64 " + self + ")"}, st)
	case "IsInt64":
		return k(vBool{"(Go.isInt64 " + self + ")"}, st)
	case "Uint64":
		return k(vInt{e: "(Go.uint64 " + self + ")", k: u64}, st)
	case "Int64":
		return k(vInt{e: "(Go.int64 " + self + ")", k: i64}, st)
	case "BitLen":
		return k(vInt{e: "(Go.bitLen " + self + ")", k: i64}, st)
	}
	t.fail(x, "big.Int method %s is outside the NumGo subset", name)
	return nil
}

// ---- statements

func (t *numTr) execBody(b *ast.BlockStmt, st *state, fr *frame, void bool) term {
	return t.exec(b.List, st, fr, func(st *state) term {
		if void {
			return fr.ret(vVoid{}, st)
		}
		t.fail(b, "control reaches the end of a function with results")
		return nil
	})
}

func (t *numTr) execBlock(b *ast.BlockStmt, st *state, fr *frame, next func(*state) term) term {
	outer := st.vars
	return t.exec(b.List, st, fr, func(s2 *state) term {
		// leave the scope: names declared inside disappear, shadowed names are restored
		vars := map[string]val{}
		for n, v := range outer {
			if t.declaredIn(b, n) {
				vars[n] = v
			} else if nv, ok := s2.vars[n]; ok {
				vars[n] = nv
			}
		}
		return next(&state{vars: vars, store: s2.store, immut: s2.immut, facts: s2.facts})
	})
}

// is `name` declared (:= or var) directly in block b?
func (t *numTr) declaredIn(b *ast.BlockStmt, name string) bool {
	for _, s := range b.List {
		switch x := s.(type) {
		case *ast.AssignStmt:
			if x.Tok == token.DEFINE {
				for _, l := range x.Lhs {
					if id, ok := l.(*ast.Ident); ok && id.Name == name {
						return true
					}
				}
			}
		case *ast.DeclStmt:
			if gd, ok := x.Decl.(*ast.GenDecl); ok {
				for _, sp := range gd.Specs {
					if vs, ok := sp.(*ast.ValueSpec); ok {
						for _, id := range vs.Names {
							if id.Name == name {
								return true
							}
						}
					}
				}
			}
		}
	}
	return false
}

func (t *numTr) exec(stmts []ast.Stmt, st *state, fr *frame, next func(*state) term) term {
	if len(stmts) == 0 {
		return next(st)
	}
	rest := func(st *state) term { return t.exec(stmts[1:], st, fr, next) }
	switch s := stmts[0].(type) {
	case *ast.EmptyStmt:
		return rest(st)
	case *ast.BlockStmt:
		return t.execBlock(s, st, fr, rest)
	case *ast.ExprStmt:
		return t.eval(s.X, st, fr, func(_ val, st *state) term { return rest(st) })
	case *ast.DeclStmt:
		gd, ok := s.Decl.(*ast.GenDecl)
		if !ok || gd.Tok != token.VAR {
			t.fail(s, "unsupported declaration")
		}
		for _, sp := range gd.Specs {
			vs := sp.(*ast.ValueSpec)
			if len(vs.Values) != 0 || vs.Type == nil {
				t.fail(s, "unsupported var declaration form")
			}
			ty := t.resolveType(fr.pkg, vs.Type)
			for _, id := range vs.Names {
				st = st.setVar(id.Name, t.zero(ty))
			}
		}
		return rest(st)
	case *ast.AssignStmt:
		return t.assign(s, st, fr, rest)
	case *ast.IfStmt:
		run := func(st *state) term {
			return t.eval(s.Cond, st, fr, func(c val, st *state) term {
				cb, ok := c.(vBool)
				if !ok {
					t.fail(s.Cond, "non-boolean condition")
				}
				thenB := func(st *state) term { return t.execBlock(s.Body, st, fr, rest) }
				elseB := func(st *state) term {
					switch e := s.Else.(type) {
					case nil:
						return rest(st)
					case *ast.BlockStmt:
						return t.execBlock(e, st, fr, rest)
					case *ast.IfStmt:
						return t.exec([]ast.Stmt{e}, st, fr, rest)
					}
					t.fail(s, "unsupported else form")
					return nil
				}
				switch cb.e {
				case "True":
					return thenB(st)
				case "False":
					return elseB(st)
				}
				if truth, ok := st.facts[cb.e]; ok {
					if truth {
						return thenB(st)
					}
					return elseB(st)
				}
				return mkIf(cb.e, thenB(st.withFact(cb.e, true)), elseB(st.withFact(cb.e, false)))
			})
		}
		if s.Init != nil {
			inner := *s
			inner.Init = nil
			return t.execBlock(&ast.BlockStmt{Lbrace: s.Pos(), List: []ast.Stmt{s.Init, &inner}}, st, fr, rest)
		}
		return run(st)
	case *ast.TypeSwitchStmt:
		// `switch err.(type) { case nil: … case values.OverflowError: … default: … }` over an error
		// value: on every path of the symbolic execution the error is nil or a known error value, so
		// the clause is selected statically (added for handleFix64Error; num2 builder)
		if s.Init != nil {
			t.fail(s, "type switch with an init statement")
		}
		es, ok := s.Assign.(*ast.ExprStmt)
		if !ok {
			t.fail(s, "type switch binding a variable")
		}
		ta, ok := es.X.(*ast.TypeAssertExpr)
		if !ok || ta.Type != nil {
			t.fail(s, "unsupported type switch subject")
		}
		return t.eval(ta.X, st, fr, func(v val, st *state) term {
			var chosen, deflt *ast.CaseClause
			for _, c := range s.Body.List {
				cc := c.(*ast.CaseClause)
				if cc.List == nil {
					deflt = cc
					continue
				}
				for _, e := range cc.List {
					if id, ok := e.(*ast.Ident); ok && id.Name == "nil" {
						if _, isNil := v.(vNil); isNil && chosen == nil {
							chosen = cc
						}
						continue
					}
					if ev, isErr := v.(vErr); isErr && chosen == nil && t.errTypeString(fr.pkg, e) == ev.gotype {
						chosen = cc
					}
				}
			}
			switch v.(type) {
			case vNil, vErr:
			default:
				t.fail(s, "type switch over a value that is not a known error")
			}
			if chosen == nil {
				chosen = deflt
			}
			if chosen == nil {
				return rest(st)
			}
			return t.execBlock(&ast.BlockStmt{Lbrace: chosen.Pos(), List: chosen.Body}, st, fr, rest)
		})
	case *ast.ReturnStmt:
		if len(s.Results) == 0 {
			return fr.ret(vVoid{}, st)
		}
		return t.evalList(s.Results, st, fr, func(vs []val, st *state) term {
			if len(vs) == 1 {
				if tup, ok := vs[0].(vTuple); ok { // return f() with a multi-value f
					vs = tup.vs
				}
			}
			for i := range vs {
				if c, ok := vs[i].(vConst); ok && i < len(fr.results) && fr.results[i].kind == "int" {
					vs[i] = t.convConst(s, c.c, fr.results[i].ik, fr.results[i].named)
				}
				if vi, ok := vs[i].(vInt); ok && i < len(fr.results) && fr.results[i].kind == "int" {
					if vi.k != fr.results[i].ik {
						t.fail(s, "returned integer kind differs from the declared result type (Go compile error)")
					}
					vi.named = fr.results[i].named
					vi.cmp = nil
					vs[i] = vi
				}
			}
			if len(vs) == 1 {
				return fr.ret(vs[0], st)
			}
			return fr.ret(vTuple{vs}, st)
		})
	case *ast.DeferStmt:
		// `defer func() { ... }()`: the deferred body runs on every exit of this frame — on a normal
		// return (recover() = nil) and on a panic (recover() = the panic value; when the body
		// completes without panicking again the function returns the zero values of its results)
		lit, ok := s.Call.Fun.(*ast.FuncLit)
		if !ok || len(s.Call.Args) != 0 {
			t.fail(s, "defer of anything but a parameterless function literal")
		}
		if fr.captured != nil || fr.deferred {
			t.fail(s, "defer inside a closure")
		}
		prevPanic, prevRet := fr.onPanic, fr.ret
		deferVars := st.vars
		pkg := fr.pkg
		results := fr.results
		runDeferred := func(rec val, st *state, after func(*state) term) term {
			df := &frame{pkg: pkg, deferred: true, recovered: rec, onPanic: prevPanic, locals: map[string]bool{},
				captured: map[string]bool{},
				ret: func(_ val, s2 *state) term { return after(s2) }}
			for n := range deferVars {
				df.captured[n] = true
			}
			inner := &state{vars: deferVars, store: st.store, immut: st.immut, facts: st.facts}
			return t.execBody(lit.Body, inner, df, true)
		}
		fr.onPanic = func(e vErr, st *state) term {
			return runDeferred(e, st, func(s2 *state) term {
				zs := make([]val, len(results))
				for i, r := range results {
					zs[i] = t.zero(r)
				}
				switch len(zs) {
				case 0:
					return prevRet(vVoid{}, s2)
				case 1:
					return prevRet(zs[0], s2)
				}
				return prevRet(vTuple{zs}, s2)
			})
		}
		fr.ret = func(v val, st *state) term {
			return runDeferred(nil, st, func(s2 *state) term { return prevRet(v, s2) })
		}
		return rest(st)
	}
	t.fail(stmts[0], "unsupported statement %T", stmts[0])
	return nil
}

func (t *numTr) assign(s *ast.AssignStmt, st *state, fr *frame, rest func(*state) term) term {
	if s.Tok != token.DEFINE && s.Tok != token.ASSIGN {
		// x op= y
		if len(s.Lhs) != 1 {
			t.fail(s, "unsupported assignment")
		}
		opTok := map[token.Token]token.Token{token.ADD_ASSIGN: token.ADD, token.SUB_ASSIGN: token.SUB, token.MUL_ASSIGN: token.MUL,
			token.QUO_ASSIGN: token.QUO, token.REM_ASSIGN: token.REM, token.SHL_ASSIGN: token.SHL, token.SHR_ASSIGN: token.SHR,
			token.AND_ASSIGN: token.AND, token.OR_ASSIGN: token.OR, token.XOR_ASSIGN: token.XOR}[s.Tok]
		bin := &ast.BinaryExpr{X: s.Lhs[0], Op: opTok, Y: s.Rhs[0], OpPos: s.TokPos}
		return t.assign(&ast.AssignStmt{Lhs: s.Lhs, Tok: token.ASSIGN, TokPos: s.TokPos, Rhs: []ast.Expr{bin}}, st, fr, rest)
	}
	bind := func(vs []val, st *state) term {
		if len(vs) == 1 && len(s.Lhs) > 1 {
			tup, ok := vs[0].(vTuple)
			if !ok || len(tup.vs) != len(s.Lhs) {
				t.fail(s, "assignment count mismatch")
			}
			vs = tup.vs
		}
		if len(vs) != len(s.Lhs) {
			t.fail(s, "assignment count mismatch")
		}
		for i, l := range s.Lhs {
			id, ok := l.(*ast.Ident)
			if !ok {
				t.fail(l, "assignment to a non-variable")
			}
			if id.Name == "_" {
				continue
			}
			v := vs[i]
			if tup, ok := v.(vTuple); ok && len(s.Lhs) == 1 {
				_ = tup
				t.fail(s, "multi-value in single-value context")
			}
			if c, ok := v.(vConst); ok {
				if old, ok := st.vars[id.Name].(vInt); ok && s.Tok == token.ASSIGN {
					v = t.convConst(s, c.c, old.k, old.named)
				} else {
					v = t.convConst(s, c.c, ikind{true, 64}, "") // untyped constant defaults to int
				}
			}
			if s.Tok == token.ASSIGN {
				if _, ok := st.vars[id.Name]; !ok {
					t.fail(s, "assignment to undeclared variable %s", id.Name)
				}
				if fr.captured[id.Name] && !fr.locals[id.Name] {
					t.fail(s, "closure assigns to captured variable %s", id.Name)
				}
			} else if fr.locals != nil {
				fr.locals[id.Name] = true
			}
			st = st.setVar(id.Name, v)
		}
		return rest(st)
	}
	return t.evalList(s.Rhs, st, fr, bind)
}
