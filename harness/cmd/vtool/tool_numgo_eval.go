package main

// Symbolic evaluator for the NumGo subset (see tool_numgo.go).  A Go method body is executed on
// symbolic operands; the result is a decision tree (`term`) whose leaves are `.ok <Int expr>` or
// `.error <kind>`.  Everything is continuation-passing at translation time: an `if` duplicates the
// rest of the computation into both branches, closures and same-package functions / methods are
// inlined by executing their bodies.  Anything outside the subset panics with a trErr (caught per
// method => UNTRANSLATED).

import (
	"fmt"
	"go/ast"
	"go/constant"
	"go/token"
	"math/big"
	"regexp"
	"sort"
	"strings"
)

type trErr struct{ msg string }

func (t *numTr) fail(n ast.Node, format string, a ...any) {
	pos := ""
	if n != nil && t.fset != nil {
		p := t.fset.Position(n.Pos())
		pos = fmt.Sprintf("%s:%d: ", shortPath(p.Filename), p.Line)
	}
	panic(trErr{pos + fmt.Sprintf(format, a...)})
}

func shortPath(p string) string {
	parts := strings.Split(p, "/")
	if len(parts) > 2 {
		parts = parts[len(parts)-2:]
	}
	return strings.Join(parts, "/")
}

// ---- output terms

type term interface{}
type tIf struct {
	cond      string
	then, els term
}
type tLeaf struct{ s string }

func termEq(a, b term) bool {
	switch x := a.(type) {
	case tLeaf:
		y, ok := b.(tLeaf)
		return ok && x.s == y.s
	case tIf:
		y, ok := b.(tIf)
		return ok && x.cond == y.cond && termEq(x.then, y.then) && termEq(x.els, y.els)
	}
	return false
}

func mkIf(c string, a, b term) term {
	if c == "True" {
		return a
	}
	if c == "False" {
		return b
	}
	if termEq(a, b) {
		return a
	}
	return tIf{c, a, b}
}

func render(t term, ind string) string {
	switch x := t.(type) {
	case tLeaf:
		return ind + x.s
	case tIf:
		return ind + "if " + x.cond + " then\n" + render(x.then, ind+"  ") + "\n" + ind + "else\n" + render(x.els, ind+"  ")
	}
	return ind + "?"
}

// ---- values

type ikind struct {
	signed bool
	bits   int
}

func (k ikind) wrap(e string) string {
	if k.signed {
		return fmt.Sprintf("(wrapS %d %s)", k.bits, e)
	}
	return fmt.Sprintf("(wrapU %d %s)", k.bits, e)
}
func (k ikind) min() *big.Int {
	if !k.signed {
		return big.NewInt(0)
	}
	return new(big.Int).Neg(new(big.Int).Lsh(big.NewInt(1), uint(k.bits-1)))
}
func (k ikind) max() *big.Int {
	if !k.signed {
		return new(big.Int).Sub(new(big.Int).Lsh(big.NewInt(1), uint(k.bits)), big.NewInt(1))
	}
	return new(big.Int).Sub(new(big.Int).Lsh(big.NewInt(1), uint(k.bits-1)), big.NewInt(1))
}

type val interface{}
type vInt struct {
	e     string
	k     ikind
	named string      // "" or pkg.Type of a named integer type (for method lookup)
	cmp   *[2]string  // e denotes Go.cmp a b (value in {-1,0,1})
}
type vConst struct{ c constant.Value } // untyped numeric constant
type vBool struct{ e string }          // Lean Prop; "True" / "False" when known
type vBig struct{ cell int }           // *big.Int; cell < 0 = nil
type vStruct struct {
	typ    string // pkg.Type
	fields map[string]val
}
type vClosure struct {
	lit *ast.FuncLit
	st  *state
	pkg string
}
type vErr struct {
	kind   string
	gotype string // e.g. *interpreter.OverflowError, values.OverflowError
}
type vNil struct{}
type vTuple struct{ vs []val }
type vOpaque struct{ what string }
type vVoid struct{}
type vBits struct{ of string } // x.Bits(): the word slice of |x| (only its length is used)

// ---- state (persistent: every update clones)

type state struct {
	vars  map[string]val
	store map[int]string // cell -> Lean Int expression
	immut map[int]string // cells that must not be mutated (operands, package-level constants)
	facts map[string]bool
}

func (s *state) clone() *state {
	n := &state{vars: map[string]val{}, store: map[int]string{}, immut: s.immut, facts: map[string]bool{}}
	for k, v := range s.vars {
		n.vars[k] = v
	}
	for k, v := range s.store {
		n.store[k] = v
	}
	for k, v := range s.facts {
		n.facts[k] = v
	}
	return n
}
func (s *state) setVar(name string, v val) *state {
	n := s.clone()
	n.vars[name] = v
	return n
}
func (s *state) withFact(c string, truth bool) *state {
	n := s.clone()
	n.facts[c] = truth
	// a simple disequality also settles the corresponding equality (and vice versa)
	if !strings.ContainsAny(c, "∧∨¬") {
		if strings.Count(c, " ≠ ") == 1 {
			n.facts[strings.Replace(c, " ≠ ", " = ", 1)] = !truth
		} else if strings.Count(c, " = ") == 1 {
			n.facts[strings.Replace(c, " = ", " ≠ ", 1)] = !truth
		}
	}
	return n
}

type kont func(v val, st *state) term

type frame struct {
	pkg     string
	ret     kont
	results []typ // declared result types (for conversion of untyped constants)
	locals  map[string]bool
	captured map[string]bool // closure frames: names visible at closure creation
	onPanic  func(e vErr, st *state) term // where a panic raised in this frame goes (nil = top level)
	recovered val                         // deferred function frames: the value recover() returns
	deferred  bool
}

// raise a panic with error value e in frame fr
func (t *numTr) raise(fr *frame, e vErr, st *state) term {
	if fr != nil && fr.onPanic != nil {
		return fr.onPanic(e, st)
	}
	return tLeaf{".error ." + e.kind}
}

var goRuntimePanic = vErr{kind: "goPanic", gotype: "runtime.Error"}


// ---- types

type typ struct {
	kind  string // int | big | struct | iface | func | error | bool | other
	ik    ikind
	named string // pkg.Name for named int / struct
}

var basicInts = map[string]ikind{
	"int8": {true, 8}, "int16": {true, 16}, "int32": {true, 32}, "int64": {true, 64}, "int": {true, 64},
	"uint8": {false, 8}, "uint16": {false, 16}, "uint32": {false, 32}, "uint64": {false, 64}, "uint": {false, 64},
	"byte": {false, 8},
}

func (t *numTr) resolveType(pkg string, e ast.Expr) typ {
	switch x := e.(type) {
	case *ast.Ident:
		if k, ok := basicInts[x.Name]; ok {
			return typ{kind: "int", ik: k}
		}
		if x.Name == "bool" {
			return typ{kind: "bool"}
		}
		if x.Name == "error" {
			return typ{kind: "error"}
		}
		return t.namedType(pkg, x.Name)
	case *ast.SelectorExpr:
		if p, ok := x.X.(*ast.Ident); ok {
			if p.Name == "big" && x.Sel.Name == "Int" {
				return typ{kind: "bigval"}
			}
			return t.namedType(p.Name, x.Sel.Name)
		}
	case *ast.StarExpr:
		in := t.resolveType(pkg, x.X)
		if in.kind == "bigval" {
			return typ{kind: "big"}
		}
		return typ{kind: "other"}
	case *ast.FuncType:
		return typ{kind: "func"}
	case *ast.InterfaceType:
		return typ{kind: "iface"}
	}
	return typ{kind: "other"}
}

func (t *numTr) namedType(pkg, name string) typ {
	if ts, ok := t.types[pkg+"."+name]; ok {
		switch u := ts.Type.(type) {
		case *ast.Ident:
			if k, ok := basicInts[u.Name]; ok {
				return typ{kind: "int", ik: k, named: pkg + "." + name}
			}
		case *ast.StructType:
			return typ{kind: "struct", named: pkg + "." + name}
		case *ast.InterfaceType:
			return typ{kind: "iface"}
		}
	}
	return typ{kind: "iface"} // unknown named types are only ever used for opaque arguments
}

// zero / symbolic value of a type; leaf names the Lean variable standing for the integer content
func (t *numTr) symbolic(ty typ, leaf string, st *state) (val, *state) {
	switch ty.kind {
	case "int":
		return vInt{e: leaf, k: ty.ik, named: ty.named}, st
	case "big":
		c := t.newCell()
		st = st.clone()
		st.store[c] = leaf
		im := map[int]string{}
		for k, v := range st.immut {
			im[k] = v
		}
		im[c] = "operand " + leaf
		st.immut = im
		return vBig{c}, st
	case "struct":
		ts := t.types[ty.named]
		pkg := strings.SplitN(ty.named, ".", 2)[0]
		fs := map[string]val{}
		for _, f := range ts.Type.(*ast.StructType).Fields.List {
			ft := t.resolveType(pkg, f.Type)
			names := fieldNames(f)
			for _, n := range names {
				var v val
				v, st = t.symbolic(ft, leaf, st)
				fs[n] = v
			}
		}
		return vStruct{typ: ty.named, fields: fs}, st
	}
	return vOpaque{"param"}, st
}

func fieldNames(f *ast.Field) []string {
	if len(f.Names) == 0 {
		switch x := f.Type.(type) {
		case *ast.Ident:
			return []string{x.Name}
		case *ast.SelectorExpr:
			return []string{x.Sel.Name}
		case *ast.StarExpr:
			if s, ok := x.X.(*ast.SelectorExpr); ok {
				return []string{s.Sel.Name}
			}
			if s, ok := x.X.(*ast.Ident); ok {
				return []string{s.Name}
			}
		}
		return []string{"_embedded"}
	}
	var out []string
	for _, n := range f.Names {
		out = append(out, n.Name)
	}
	return out
}

func (t *numTr) zero(ty typ) val {
	switch ty.kind {
	case "int":
		return vInt{e: "0", k: ty.ik, named: ty.named}
	case "big":
		return vBig{-1}
	case "bool":
		return vBool{"False"}
	case "struct":
		ts := t.types[ty.named]
		pkg := strings.SplitN(ty.named, ".", 2)[0]
		fs := map[string]val{}
		for _, f := range ts.Type.(*ast.StructType).Fields.List {
			ft := t.resolveType(pkg, f.Type)
			for _, n := range fieldNames(f) {
				fs[n] = t.zero(ft)
			}
		}
		return vStruct{typ: ty.named, fields: fs}
	}
	return vNil{}
}

func (t *numTr) newCell() int { t.cells++; return t.cells }

// ---- constants

func intLit(b *big.Int) string {
	if b.Sign() < 0 {
		return "(" + b.String() + ")"
	}
	return b.String()
}

func constBig(c constant.Value) (*big.Int, bool) {
	c = constant.ToInt(c)
	if c.Kind() != constant.Int {
		return nil, false
	}
	b, ok := new(big.Int).SetString(c.ExactString(), 10)
	return b, ok
}

func (t *numTr) convConst(n ast.Node, c constant.Value, k ikind, named string) vInt {
	b, ok := constBig(c)
	if !ok {
		t.fail(n, "non-integer constant %s used as integer", c.String())
	}
	if b.Cmp(k.min()) < 0 || b.Cmp(k.max()) > 0 {
		t.fail(n, "constant %s overflows its %d-bit type (Go compile error)", b.String(), k.bits)
	}
	return vInt{e: intLit(b), k: k, named: named}
}

var errKinds = map[string]string{
	"OverflowError": "overflow", "UnderflowError": "underflow", "DivisionByZeroError": "divZero",
	"NegativeShiftError": "negativeShift", "InvalidOperandsError": "invalidOperands",
}

var mathConsts = func() map[string]constant.Value {
	m := map[string]constant.Value{}
	for _, b := range []int{8, 16, 32, 64} {
		one := constant.MakeInt64(1)
		m[fmt.Sprintf("math.MaxInt%d", b)] = constant.BinaryOp(constant.Shift(one, token.SHL, uint(b-1)), token.SUB, one)
		m[fmt.Sprintf("math.MinInt%d", b)] = constant.UnaryOp(token.SUB, constant.Shift(one, token.SHL, uint(b-1)), 0)
		m[fmt.Sprintf("math.MaxUint%d", b)] = constant.BinaryOp(constant.Shift(one, token.SHL, uint(b)), token.SUB, one)
	}
	m["math.MaxInt"] = m["math.MaxInt64"]
	m["math.MinInt"] = m["math.MinInt64"]
	m["math.MaxUint"] = m["math.MaxUint64"]
	m["bits.UintSize"] = constant.MakeInt64(64)
	return m
}()

// calls with no effect on values (metering / computation accounting): arguments are not evaluated
var meteringCalls = map[string]bool{
	"common.UseMemory": true, "common.UseComputation": true,
}

// ---- expressions

func (t *numTr) evalList(es []ast.Expr, st *state, fr *frame, k func([]val, *state) term) term {
	var rec func(i int, acc []val, st *state) term
	rec = func(i int, acc []val, st *state) term {
		if i == len(es) {
			return k(acc, st)
		}
		return t.eval(es[i], st, fr, func(v val, st *state) term {
			return rec(i+1, append(append([]val{}, acc...), v), st)
		})
	}
	return rec(0, nil, st)
}

func (t *numTr) bigExpr(n ast.Node, v val, st *state) string {
	b, ok := v.(vBig)
	if !ok {
		t.fail(n, "expected *big.Int, got %T", v)
	}
	if b.cell < 0 {
		t.fail(n, "nil *big.Int dereference")
	}
	return st.store[b.cell]
}

func (t *numTr) eval(e ast.Expr, st *state, fr *frame, k kont) term {
	switch x := e.(type) {
	case *ast.ParenExpr:
		return t.eval(x.X, st, fr, k)
	case *ast.BasicLit:
		if x.Kind == token.INT || x.Kind == token.FLOAT || x.Kind == token.CHAR {
			return k(vConst{constant.MakeFromLiteral(x.Value, x.Kind, 0)}, st)
		}
		return k(vOpaque{"literal"}, st)
	case *ast.Ident:
		switch x.Name {
		case "nil":
			return k(vNil{}, st)
		case "true":
			return k(vBool{"True"}, st)
		case "false":
			return k(vBool{"False"}, st)
		}
		if v, ok := st.vars[x.Name]; ok {
			return k(v, st)
		}
		if v, ok := t.pkgValue(fr.pkg, x.Name, x); ok {
			return k(v, st)
		}
		t.fail(x, "unknown identifier %s", x.Name)
	case *ast.FuncLit:
		return k(vClosure{lit: x, st: st, pkg: fr.pkg}, st)
	case *ast.SelectorExpr:
		if p, ok := x.X.(*ast.Ident); ok {
			if _, isVar := st.vars[p.Name]; !isVar && t.isPkgName(p.Name) {
				if c, ok := mathConsts[p.Name+"."+x.Sel.Name]; ok {
					return k(vConst{c}, st)
				}
				if v, ok := t.pkgValue(p.Name, x.Sel.Name, x); ok {
					return k(v, st)
				}
				t.fail(x, "unknown package-level name %s.%s", p.Name, x.Sel.Name)
			}
		}
		return t.eval(x.X, st, fr, func(v val, st *state) term {
			f, ok := t.field(v, x.Sel.Name)
			if !ok {
				t.fail(x, "no field %s in %T", x.Sel.Name, v)
			}
			return k(f, st)
		})
	case *ast.UnaryExpr:
		if x.Op == token.AND {
			if cl, ok := x.X.(*ast.CompositeLit); ok {
				return t.eval(cl, st, fr, func(v val, st *state) term {
					if ev, ok := v.(vErr); ok {
						ev.gotype = "*" + ev.gotype
						return k(ev, st)
					}
					return k(v, st)
				})
			}
			t.fail(x, "unsupported address-of")
		}
		return t.eval(x.X, st, fr, func(v val, st *state) term {
			return k(t.unary(x, x.Op, v), st)
		})
	case *ast.BinaryExpr:
		if x.Op == token.LAND || x.Op == token.LOR {
			return t.eval(x.X, st, fr, func(a val, st *state) term {
				ab, ok := a.(vBool)
				if !ok {
					t.fail(x, "non-boolean operand of %s", x.Op)
				}
				// short circuit on known values
				if x.Op == token.LAND && ab.e == "False" {
					return k(vBool{"False"}, st)
				}
				if x.Op == token.LOR && ab.e == "True" {
					return k(vBool{"True"}, st)
				}
				// Go evaluates the right operand only when needed.  If its evaluation is pure (no
				// guard, no side effect) the result is the plain conjunction / disjunction; otherwise
				// the short circuit becomes an explicit branch.
				var pure val
				sentinel := tLeaf{"\x00probe"}
				probe := t.eval(x.Y, st, fr, func(b val, st2 *state) term {
					if sameStore(st, st2) {
						pure = b
					}
					return sentinel
				})
				if pl, ok := probe.(tLeaf); ok && pl == sentinel && pure != nil {
					bb, ok := pure.(vBool)
					if !ok {
						t.fail(x, "non-boolean operand of %s", x.Op)
					}
					return k(boolOp(x.Op, ab, bb), st)
				}
				evalY := func(st *state) term {
					return t.eval(x.Y, st, fr, func(b val, st2 *state) term {
						if _, ok := b.(vBool); !ok {
							t.fail(x, "non-boolean operand of %s", x.Op)
						}
						return k(b, st2)
					})
				}
				if x.Op == token.LAND {
					return mkIf(ab.e, evalY(st.withFact(ab.e, true)), k(vBool{"False"}, st.withFact(ab.e, false)))
				}
				return mkIf(ab.e, k(vBool{"True"}, st.withFact(ab.e, true)), evalY(st.withFact(ab.e, false)))
			})
		}
		return t.eval(x.X, st, fr, func(a val, st *state) term {
			return t.eval(x.Y, st, fr, func(b val, st *state) term {
				return t.binary(x, x.Op, a, b, st, fr, k)
			})
		})
	case *ast.CompositeLit:
		return t.composite(x, st, fr, k)
	case *ast.TypeAssertExpr:
		return t.eval(x.X, st, fr, func(v val, st *state) term {
			if _, ok := v.(vNil); ok {
				return k(vTuple{[]val{vNil{}, vBool{"False"}}}, st)
			}
			if ev, ok := v.(vErr); ok {
				if ev.gotype == t.errTypeString(fr.pkg, x.Type) {
					return k(vTuple{[]val{v, vBool{"True"}}}, st)
				}
				return k(vTuple{[]val{vNil{}, vBool{"False"}}}, st)
			}
			want := t.resolveType(fr.pkg, x.Type)
			if nameOf(v) != "" && nameOf(v) == want.named {
				return k(vTuple{[]val{v, vBool{"True"}}}, st)
			}
			t.fail(x, "type assertion to %v on a value of type %q (only same-type operands are in the model's domain)", want.named, nameOf(v))
			return nil
		})
	case *ast.CallExpr:
		return t.call(x, st, fr, k)
	}
	t.fail(e, "unsupported expression %T", e)
	return nil
}

func sameStore(a, b *state) bool {
	if len(a.store) != len(b.store) {
		return false
	}
	for k, v := range a.store {
		if b.store[k] != v {
			return false
		}
	}
	return true
}

func nameOf(v val) string {
	switch x := v.(type) {
	case vInt:
		return x.named
	case vStruct:
		return x.typ
	}
	return ""
}

func (t *numTr) field(v val, name string) (val, bool) {
	s, ok := v.(vStruct)
	if !ok {
		return nil, false
	}
	if f, ok := s.fields[name]; ok {
		return f, true
	}
	// promoted through embedded structs
	keys := make([]string, 0, len(s.fields))
	for k := range s.fields {
		keys = append(keys, k)
	}
	sort.Strings(keys)
	for _, k := range keys {
		if in, ok := s.fields[k].(vStruct); ok {
			if f, ok := t.field(in, name); ok {
				return f, true
			}
		}
	}
	return nil, false
}

func boolOp(op token.Token, a, b vBool) vBool {
	if op == token.LAND {
		switch {
		case a.e == "False" || b.e == "False":
			return vBool{"False"}
		case a.e == "True":
			return b
		case b.e == "True":
			return a
		}
		return vBool{"(" + a.e + " ∧ " + b.e + ")"}
	}
	switch {
	case a.e == "True" || b.e == "True":
		return vBool{"True"}
	case a.e == "False":
		return b
	case b.e == "False":
		return a
	}
	return vBool{"(" + a.e + " ∨ " + b.e + ")"}
}

func (t *numTr) unary(n ast.Node, op token.Token, v val) val {
	switch x := v.(type) {
	case vConst:
		switch op {
		case token.SUB, token.ADD:
			return vConst{constant.UnaryOp(op, x.c, 0)}
		case token.XOR:
			return vConst{constant.UnaryOp(token.XOR, constant.ToInt(x.c), 0)}
		}
	case vBool:
		if op == token.NOT {
			switch x.e {
			case "True":
				return vBool{"False"}
			case "False":
				return vBool{"True"}
			}
			return vBool{"(¬" + x.e + ")"}
		}
	case vInt:
		switch op {
		case token.ADD:
			return x
		case token.SUB:
			return vInt{e: x.k.wrap("(-" + x.e + ")"), k: x.k, named: x.named}
		case token.XOR: // bitwise complement: -x-1, reduced into the type
			return vInt{e: x.k.wrap("(-" + x.e + " - 1)"), k: x.k, named: x.named}
		}
	}
	t.fail(n, "unsupported unary %s on %T", op, v)
	return nil
}

var cmpOps = map[token.Token]string{token.EQL: "=", token.NEQ: "≠", token.LSS: "<", token.LEQ: "≤", token.GTR: ">", token.GEQ: "≥"}

// compare the three-valued result of Go.cmp a b with an integer constant
func cmpWithConst(a, b string, op token.Token, c int64) (string, bool) {
	holds := func(s int64) bool {
		switch op {
		case token.EQL:
			return s == c
		case token.NEQ:
			return s != c
		case token.LSS:
			return s < c
		case token.LEQ:
			return s <= c
		case token.GTR:
			return s > c
		case token.GEQ:
			return s >= c
		}
		return false
	}
	lt, eq, gt := holds(-1), holds(0), holds(1)
	switch {
	case lt && eq && gt:
		return "True", true
	case !lt && !eq && !gt:
		return "False", true
	case lt && !eq && !gt:
		return "(" + a + " < " + b + ")", true
	case !lt && eq && !gt:
		return "(" + a + " = " + b + ")", true
	case !lt && !eq && gt:
		return "(" + a + " > " + b + ")", true
	case lt && eq && !gt:
		return "(" + a + " ≤ " + b + ")", true
	case !lt && eq && gt:
		return "(" + a + " ≥ " + b + ")", true
	case lt && !eq && gt:
		return "(" + a + " ≠ " + b + ")", true
	}
	return "", false
}

func (t *numTr) binary(n ast.Node, op token.Token, a, b val, st *state, fr *frame, k kont) term {
	// error / nil comparisons
	if op == token.EQL || op == token.NEQ {
		isNilA, isNilB := isNil(a), isNil(b)
		if isNilA || isNilB {
			other := a
			if isNilA {
				other = b
			}
			var known, nonNil bool
			switch o := other.(type) {
			case vErr:
				known, nonNil = true, true
			case vNil:
				known, nonNil = true, false
			case vBig:
				known, nonNil = true, o.cell >= 0
			}
			if !known {
				t.fail(n, "comparison of %T with nil", other)
			}
			res := nonNil == (op == token.NEQ)
			if res {
				return k(vBool{"True"}, st)
			}
			return k(vBool{"False"}, st)
		}
	}
	ca, aConst := a.(vConst)
	cb, bConst := b.(vConst)
	if aConst && bConst {
		if _, ok := cmpOps[op]; ok {
			if constant.Compare(ca.c, op, cb.c) {
				return k(vBool{"True"}, st)
			}
			return k(vBool{"False"}, st)
		}
		if op == token.SHL || op == token.SHR {
			s, _ := constant.Uint64Val(constant.ToInt(cb.c))
			return k(vConst{constant.Shift(constant.ToInt(ca.c), op, uint(s))}, st)
		}
		if op == token.QUO {
			if _, ok := constBig(ca.c); ok {
				if _, ok := constBig(cb.c); ok {
					return k(vConst{constant.BinaryOp(constant.ToInt(ca.c), token.QUO_ASSIGN, constant.ToInt(cb.c))}, st)
				}
			}
		}
		return k(vConst{constant.BinaryOp(ca.c, op, cb.c)}, st)
	}
	isShift := op == token.SHL || op == token.SHR
	var x, y vInt
	switch {
	case aConst:
		yi, ok := b.(vInt)
		if !ok {
			t.fail(n, "binary %s on constant and %T", op, b)
		}
		y = yi
		if isShift {
			x = t.convConst(n, ca.c, ikind{true, 64}, "") // untyped constant shifted by a variable: int
		} else {
			if yi.cmp != nil {
				if c, ok := constBig(ca.c); ok && c.IsInt64() {
					if s, ok := cmpWithConst(yi.cmp[0], yi.cmp[1], flipCmp(op), c.Int64()); ok && cmpOps[op] != "" {
						return k(vBool{s}, st)
					}
				}
			}
			x = t.convConst(n, ca.c, yi.k, yi.named)
		}
	case bConst:
		xi, ok := a.(vInt)
		if !ok {
			t.fail(n, "binary %s on %T and constant", op, a)
		}
		x = xi
		if isShift {
			c, ok := constBig(cb.c)
			if !ok || c.Sign() < 0 {
				t.fail(n, "invalid constant shift count")
			}
			y = vInt{e: intLit(c), k: ikind{false, 64}}
		} else {
			if xi.cmp != nil && cmpOps[op] != "" {
				if c, ok := constBig(cb.c); ok && c.IsInt64() {
					if s, ok := cmpWithConst(xi.cmp[0], xi.cmp[1], op, c.Int64()); ok {
						return k(vBool{s}, st)
					}
				}
			}
			y = t.convConst(n, cb.c, xi.k, xi.named)
		}
	default:
		xi, ok1 := a.(vInt)
		yi, ok2 := b.(vInt)
		if !ok1 || !ok2 {
			t.fail(n, "binary %s on %T and %T", op, a, b)
		}
		x, y = xi, yi
		if !isShift && (x.k != y.k) {
			t.fail(n, "mismatched integer kinds in binary %s (Go compile error)", op)
		}
	}
	if s, ok := cmpOps[op]; ok {
		return k(vBool{"(" + x.e + " " + s + " " + y.e + ")"}, st)
	}
	res := func(e string) term { return k(vInt{e: e, k: x.k, named: x.named}, st) }
	switch op {
	case token.ADD:
		return res(x.k.wrap("(" + x.e + " + " + y.e + ")"))
	case token.SUB:
		return res(x.k.wrap("(" + x.e + " - " + y.e + ")"))
	case token.MUL:
		return res(x.k.wrap("(" + x.e + " * " + y.e + ")"))
	case token.QUO, token.REM:
		fn := "Int.tdiv"
		if op == token.REM {
			fn = "Int.tmod"
		}
		e := "(" + fn + " " + x.e + " " + y.e + ")"
		if x.k.signed && op == token.QUO {
			e = x.k.wrap(e) // MinInt / -1 wraps in Go
		}
		return t.guard(st, "("+y.e+" = 0)", func(st *state) term { return t.raise(fr, goRuntimePanic, st) }, func(st *state) term {
			return k(vInt{e: e, k: x.k, named: x.named}, st)
		})
	case token.AND:
		return res("(Go.land " + x.e + " " + y.e + ")")
	case token.OR:
		return res("(Go.lor " + x.e + " " + y.e + ")")
	case token.XOR:
		return res("(Go.xor " + x.e + " " + y.e + ")")
	case token.AND_NOT:
		return res("(Go.land " + x.e + " (-" + y.e + " - 1))")
	case token.SHL, token.SHR:
		body := func(st *state) term {
			if op == token.SHL {
				return k(vInt{e: x.k.wrap(fmt.Sprintf("(Go.shl %d %s %s)", x.k.bits, x.e, y.e)), k: x.k, named: x.named}, st)
			}
			return k(vInt{e: fmt.Sprintf("(Go.shr %d %s %s)", x.k.bits, x.e, y.e), k: x.k, named: x.named}, st)
		}
		if y.k.signed {
			return t.guard(st, "("+y.e+" < 0)", func(st *state) term { return t.raise(fr, goRuntimePanic, st) }, body)
		}
		return body(st)
	}
	t.fail(n, "unsupported binary operator %s", op)
	return nil
}

func flipCmp(op token.Token) token.Token {
	switch op {
	case token.LSS:
		return token.GTR
	case token.GTR:
		return token.LSS
	case token.LEQ:
		return token.GEQ
	case token.GEQ:
		return token.LEQ
	}
	return op
}

func isNil(v val) bool { _, ok := v.(vNil); return ok }

// guard emits `if cond then bad else rest`, unless the truth of cond is already known on this path
var litEqZero = regexp.MustCompile(`^\((\(?-?\d+\)?) = 0\)$`)

func (t *numTr) guard(st *state, cond string, bad func(*state) term, rest func(*state) term) term {
	if m := litEqZero.FindStringSubmatch(cond); m != nil { // literal divisor
		if strings.Trim(m[1], "()-0") == "" {
			return bad(st)
		}
		return rest(st)
	}
	if truth, ok := st.facts[cond]; ok {
		if truth {
			return bad(st)
		}
		return rest(st)
	}
	return mkIf(cond, bad(st.withFact(cond, true)), rest(st.withFact(cond, false)))
}

func (t *numTr) composite(x *ast.CompositeLit, st *state, fr *frame, k kont) term {
	var name string
	switch ty := x.Type.(type) {
	case *ast.Ident:
		name = ty.Name
	case *ast.SelectorExpr:
		name = ty.Sel.Name
	default:
		t.fail(x, "unsupported composite literal type")
	}
	if kind, ok := errKinds[name]; ok {
		// fields of error values (operation, types, location) are not about values
		return k(vErr{kind: kind, gotype: t.errTypeString(fr.pkg, x.Type)}, st)
	}
	if strings.HasSuffix(name, "Error") {
		t.fail(x, "unknown error type %s", name)
	}
	ty := t.resolveType(fr.pkg, x.Type)
	if ty.kind != "struct" {
		if name == "ComputationUsage" || name == "MemoryUsage" {
			return k(vOpaque{name}, st)
		}
		t.fail(x, "composite literal of non-struct type %s", name)
	}
	z := t.zero(ty).(vStruct)
	var keys []string
	var exprs []ast.Expr
	for _, el := range x.Elts {
		kv, ok := el.(*ast.KeyValueExpr)
		if !ok {
			t.fail(el, "positional composite literal")
		}
		key := kv.Key.(*ast.Ident).Name
		if fv, ok := z.fields[key]; ok {
			if _, isNil := fv.(vNil); isNil { // field of a non-numeric type (kind tags, types, …): not about values
				continue
			}
		}
		keys = append(keys, key)
		exprs = append(exprs, kv.Value)
	}
	return t.evalList(exprs, st, fr, func(vs []val, st *state) term {
		fs := map[string]val{}
		for n, v := range z.fields {
			fs[n] = v
		}
		for i, n := range keys {
			if _, ok := fs[n]; !ok {
				t.fail(x, "unknown field %s", n)
			}
			fs[n] = vs[i]
		}
		return k(vStruct{typ: z.typ, fields: fs}, st)
	})
}

// the Go type of an error value as written at a composite literal / type assertion
func (t *numTr) errTypeString(pkg string, e ast.Expr) string {
	switch x := e.(type) {
	case *ast.StarExpr:
		return "*" + t.errTypeString(pkg, x.X)
	case *ast.Ident:
		return pkg + "." + x.Name
	case *ast.SelectorExpr:
		if p, ok := x.X.(*ast.Ident); ok {
			return p.Name + "." + x.Sel.Name
		}
	}
	return "?"
}
