package main

// gen-storedtags (property C44): fact extraction for the storage codec.
// Emits lean/Verif/Gen/StoredTags.lean with
//   * the CBOR tag numbers (const block of type CBORTag in values/encode.go),
//   * the primitive static type codes (const block of interpreter/primitivestatictype.go),
//   * every `encoded…Length` / array-count constant of the encoders,
//   * for every Encode function of the storage codec the ordered list of things it writes
//     (raw head bytes with the tag constant's name, then one entry per encoded field),
//   * `def tag_<Name> : Nat` / `def prim_<Name> : Nat` for every tag / primitive code, which the Lean
//     model of the codec (Model/Codec/Stored.lean) uses as its tag table.

import (
	"fmt"
	"go/ast"
	"go/constant"
	"go/parser"
	"go/token"
	"go/types"
	"path"
	"path/filepath"
	"sort"
	"strings"

	"verif/harness/internal/tx"
)

func init() {
	tx.Register(&tx.Tool{Name: "gen-storedtags", Help: "CBOR tags, field orders and primitive type codes of the storage codec", Run: runStoredTags})
}

type stFakeImporter struct{}

func (stFakeImporter) Import(p string) (*types.Package, error) {
	pkg := types.NewPackage(p, path.Base(p))
	pkg.MarkComplete()
	return pkg, nil
}

type stConst struct {
	Name string
	Val  uint64
	Pos  token.Pos
}

// constants of one file, evaluated by go/types (errors about other files' identifiers are ignored:
// the constants of interest depend only on iota and on constants of the same file)
func stFileConsts(file string) (*ast.File, *token.FileSet, []stConst, map[string]string, error) {
	fset := token.NewFileSet()
	f, err := parser.ParseFile(fset, file, nil, parser.ParseComments)
	if err != nil {
		return nil, nil, nil, nil, err
	}
	info := &types.Info{Defs: map[*ast.Ident]types.Object{}}
	conf := types.Config{Importer: stFakeImporter{}, Error: func(error) {}}
	_, _ = conf.Check(f.Name.Name, fset, []*ast.File{f}, info)
	var out []stConst
	typeOf := map[string]string{}
	for id, obj := range info.Defs {
		c, ok := obj.(*types.Const)
		if !ok || id.Name == "_" || c.Val() == nil || c.Val().Kind() != constant.Int {
			continue
		}
		if c.Parent() != c.Pkg().Scope() { // package-level constants only
			continue
		}
		v, exact := constant.Uint64Val(c.Val())
		if !exact {
			continue
		}
		out = append(out, stConst{id.Name, v, id.Pos()})
		typeOf[id.Name] = types.TypeString(c.Type(), func(*types.Package) string { return "" })
	}
	sort.Slice(out, func(i, j int) bool { return out[i].Pos < out[j].Pos })
	return f, fset, out, typeOf, nil
}

func stStrip(e ast.Expr) ast.Expr {
	for {
		switch x := e.(type) {
		case *ast.ParenExpr:
			e = x.X
		case *ast.CallExpr:
			// conversion-like call with one argument: uint(x), uint64(x), string(x), byte(x), int8(x) ...
			if id, ok := x.Fun.(*ast.Ident); ok && len(x.Args) == 1 {
				switch id.Name {
				case "uint", "uint8", "uint16", "uint32", "uint64", "int", "int8", "int16", "int32", "int64", "string", "byte", "bool":
					e = x.Args[0]
					continue
				}
			}
			return e
		default:
			return e
		}
	}
}

var stSelf string // name of the receiver variable of the function being described

// describe an encoded operand independently of the receiver's variable name
func stOperand(e ast.Expr) string {
	e = stStrip(e)
	switch x := e.(type) {
	case *ast.Ident:
		if x.Name == stSelf {
			return "$self"
		}
		return "$" + x.Name
	case *ast.SelectorExpr:
		if _, ok := x.X.(*ast.Ident); ok {
			return x.Sel.Name
		}
		return stOperand(x.X) + "." + x.Sel.Name
	case *ast.CallExpr:
		if s, ok := x.Fun.(*ast.SelectorExpr); ok {
			if _, ok := s.X.(*ast.Ident); ok {
				return s.Sel.Name + "()"
			}
			return stOperand(s.X) + "." + s.Sel.Name + "()"
		}
		return types.ExprString(x)
	case *ast.SliceExpr:
		return stOperand(x.X) + "[:]"
	default:
		return types.ExprString(e)
	}
}

func stRawBytes(e ast.Expr, vars map[string]*ast.CompositeLit) string {
	if id, ok := e.(*ast.Ident); ok {
		if cl, ok := vars[id.Name]; ok {
			return stRawBytes(cl, vars)
		}
		return "$" + id.Name
	}
	cl, ok := e.(*ast.CompositeLit)
	if !ok {
		return types.ExprString(e)
	}
	var parts []string
	for _, el := range cl.Elts {
		el = stStrip(el)
		switch x := el.(type) {
		case *ast.BasicLit:
			parts = append(parts, strings.ToLower(x.Value))
		case *ast.SelectorExpr:
			parts = append(parts, x.Sel.Name)
		case *ast.Ident:
			parts = append(parts, x.Name)
		default:
			parts = append(parts, types.ExprString(el))
		}
	}
	return "raw[" + strings.Join(parts, " ") + "]"
}

func stShape(fd *ast.FuncDecl, vars map[string]*ast.CompositeLit) []string {
	var ev []string
	stSelf = ""
	if fd.Recv != nil && len(fd.Recv.List) > 0 && len(fd.Recv.List[0].Names) > 0 {
		stSelf = fd.Recv.List[0].Names[0].Name
	}
	ast.Inspect(fd.Body, func(n ast.Node) bool {
		switch x := n.(type) {
		case *ast.CaseClause:
			var ts []string
			for _, t := range x.List {
				ts = append(ts, types.ExprString(t))
			}
			if len(ts) == 0 {
				ts = []string{"default"}
			}
			ev = append(ev, "case "+strings.Join(ts, ","))
		case *ast.CallExpr:
			switch fn := x.Fun.(type) {
			case *ast.SelectorExpr:
				name := fn.Sel.Name
				switch {
				case name == "EncodeRawBytes" && len(x.Args) == 1:
					ev = append(ev, stRawBytes(x.Args[0], vars))
				case name == "Encode" && len(x.Args) == 1:
					ev = append(ev, "Encode("+stOperand(fn.X)+")")
				case name == "encode" || name == "encodeMultipleNestedLevels":
					ev = append(ev, name+"()")
				case strings.HasPrefix(name, "Encode"):
					arg := ""
					if len(x.Args) > 0 {
						arg = stOperand(x.Args[0])
					}
					ev = append(ev, name+"("+arg+")")
				}
			case *ast.Ident:
				if fn.Name == "EncodeLocation" && len(x.Args) == 2 {
					ev = append(ev, "EncodeLocation("+stOperand(x.Args[1])+")")
				}
			}
		}
		return true
	})
	return ev
}

func stRecv(fd *ast.FuncDecl) string {
	if fd.Recv == nil || len(fd.Recv.List) == 0 {
		return ""
	}
	t := fd.Recv.List[0].Type
	if s, ok := t.(*ast.StarExpr); ok {
		t = s.X
	}
	return types.ExprString(t)
}

func stLeanName(s string) string {
	var sb strings.Builder
	for _, r := range s {
		if r == '_' || (r >= '0' && r <= '9') || (r >= 'a' && r <= 'z') || (r >= 'A' && r <= 'Z') {
			sb.WriteRune(r)
		} else {
			sb.WriteRune('_')
		}
	}
	return sb.String()
}

func runStoredTags(args []string) error {
	repo := tx.Repo()

	// 1. CBOR tags
	_, _, vconsts, vtypes, err := stFileConsts(filepath.Join(repo, "values", "encode.go"))
	if err != nil {
		return err
	}
	var tags []stConst
	for _, c := range vconsts {
		if vtypes[c.Name] == "CBORTag" {
			tags = append(tags, c)
		}
	}
	if len(tags) < 40 {
		return fmt.Errorf("only %d CBORTag constants found in values/encode.go", len(tags))
	}

	// 2. primitive static types
	_, _, pconsts, ptypes, err := stFileConsts(filepath.Join(repo, "interpreter", "primitivestatictype.go"))
	if err != nil {
		return err
	}
	var prims []stConst
	for _, c := range pconsts {
		if ptypes[c.Name] == "PrimitiveStaticType" {
			prims = append(prims, c)
		}
	}
	if len(prims) < 100 {
		return fmt.Errorf("only %d PrimitiveStaticType constants found", len(prims))
	}

	// 3. + 4. encoder constants and shapes
	encFiles := []string{
		"values/value_bool.go", "values/value_int.go", "values/value_ufix64.go",
		"interpreter/encode.go", "interpreter/value_link.go", "interpreter/value_pathcapability.go",
	}
	var lengths []stConst
	type shape struct {
		Key string
		Ev  []string
	}
	var shapes []shape
	for _, rel := range encFiles {
		f, _, consts, _, err := stFileConsts(filepath.Join(repo, filepath.FromSlash(rel)))
		if err != nil {
			return err
		}
		for _, c := range consts {
			if strings.HasPrefix(c.Name, "encoded") || strings.HasPrefix(c.Name, "someStorable") {
				lengths = append(lengths, c)
			}
		}
		vars := map[string]*ast.CompositeLit{}
		for _, d := range f.Decls {
			if gd, ok := d.(*ast.GenDecl); ok && gd.Tok == token.VAR {
				for _, s := range gd.Specs {
					vs := s.(*ast.ValueSpec)
					for i, n := range vs.Names {
						if i < len(vs.Values) {
							if cl, ok := vs.Values[i].(*ast.CompositeLit); ok {
								vars[n.Name] = cl
							}
						}
					}
				}
			}
		}
		for _, d := range f.Decls {
			fd, ok := d.(*ast.FuncDecl)
			if !ok || fd.Body == nil {
				continue
			}
			n := fd.Name.Name
			if n != "Encode" && n != "encode" && n != "encodeMultipleNestedLevels" && n != "EncodeLocation" {
				continue
			}
			key := n
			if r := stRecv(fd); r != "" {
				key = r + "." + n
			}
			ev := stShape(fd, vars)
			if len(ev) == 0 {
				continue
			}
			shapes = append(shapes, shape{key, ev})
		}
	}
	sort.Slice(lengths, func(i, j int) bool { return lengths[i].Name < lengths[j].Name })
	sort.Slice(shapes, func(i, j int) bool { return shapes[i].Key < shapes[j].Key })
	if len(shapes) < 50 {
		return fmt.Errorf("only %d Encode functions found", len(shapes))
	}

	var sb strings.Builder
	sb.WriteString("/- GENERATED by `vtool gen-storedtags` from values/encode.go, interpreter/primitivestatictype.go,\n   interpreter/encode.go, value_link.go, value_pathcapability.go, values/value_{bool,int,ufix64}.go — do not edit. -/\n")
	sb.WriteString("namespace Verif.Gen.StoredTags\n\n")
	pairs := func(name, doc string, cs []stConst) {
		fmt.Fprintf(&sb, "/-- %s -/\ndef %s : List (String × Nat) := [\n", doc, name)
		for i, c := range cs {
			sep := ","
			if i == len(cs)-1 {
				sep = ""
			}
			fmt.Fprintf(&sb, "  (%q, %d)%s\n", c.Name, c.Val, sep)
		}
		sb.WriteString("]\n\n")
	}
	pairs("cborTags", "CBOR tag numbers, in declaration order", tags)
	pairs("primitiveTypes", "primitive static type codes, in declaration order", prims)
	pairs("encodedLengths", "array lengths / counts of the encoded forms, sorted by name", lengths)
	sb.WriteString("/-- (Encode function, what it writes in order) sorted by function -/\ndef encodeShapes : List (String × List String) := [\n")
	for i, s := range shapes {
		q := make([]string, len(s.Ev))
		for j, e := range s.Ev {
			q[j] = fmt.Sprintf("%q", e)
		}
		sep := ","
		if i == len(shapes)-1 {
			sep = ""
		}
		fmt.Fprintf(&sb, "  (%q, [%s])%s\n", s.Key, strings.Join(q, ", "), sep)
	}
	sb.WriteString("]\n\n")
	for _, c := range tags {
		fmt.Fprintf(&sb, "def tag_%s : Nat := %d\n", stLeanName(strings.TrimPrefix(c.Name, "CBORTag")), c.Val)
	}
	sb.WriteString("\n")
	for _, c := range prims {
		fmt.Fprintf(&sb, "def prim_%s : Nat := %d\n", stLeanName(strings.TrimPrefix(c.Name, "PrimitiveStaticType")), c.Val)
	}
	sb.WriteString("\n")
	for _, c := range lengths {
		fmt.Fprintf(&sb, "def len_%s : Nat := %d\n", stLeanName(c.Name), c.Val)
	}
	sb.WriteString("\nend Verif.Gen.StoredTags\n")
	return tx.WriteGen("StoredTags", sb.String())
}
