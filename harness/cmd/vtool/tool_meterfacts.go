package main

// gen-meterfacts (C30, FX): the metering calls on the loop back-edges, statements and function
// invocations of both engines, read with go/types from the checkout under verification.
//
//	usages <site>       the computation usages charged by common.UseComputation calls reachable in the site
//	                    (lexically and through statically resolved callees, depth 3), in source order:
//	   interp.while     the `for` statement inside Interpreter.VisitWhileStatement
//	   interp.for       Interpreter.visitForStatementBody (run once per element by VisitForStatement's closure)
//	   interp.statement the range loop of Interpreter.visitStatements
//	   interp.invoke    Interpreter.reportFunctionInvocation
//	   vm.loop / vm.statement / vm.invoke      opLoop / opStatement / invokeFunction
//	callers <fn>        the functions that call <fn> (reportLoopIteration, reportFunctionInvocation,
//	                    visitForStatementBody, opLoop, opStatement)
//	order <fn>          compiler: the order of the code-generation calls in VisitWhileStatement /
//	                    VisitForStatement (test jump, InstructionLoop, body, back-edge `emitContinue`)
//	limit               the statements of newStackDepthLimiter / vmStackDepthLimit: how each engine derives
//	                    its limit from runtime.Config.StackDepthLimit
//	depth               the call-depth checks: stackDepthLimiter.OnFunctionInvocation and VM.pushCallFrame
//
// Output: lean/Verif/Gen/MeterFacts.lean.

import (
	"fmt"
	"go/ast"
	"go/types"
	"sort"
	"strings"

	"golang.org/x/tools/go/packages"

	"verif/harness/internal/goload"
	"verif/harness/internal/tx"
)

func init() {
	tx.Register(&tx.Tool{Name: "gen-meterfacts", Help: "C30: metering calls on loop back-edges, statements, invocations; depth checks", Run: runMeterFacts})
}

func (w *meterWorld) findFunc(display string) (*types.Func, *ast.FuncDecl, *packages.Package) {
	for fn, fd := range w.funcDecl {
		if funcDisplay(fn) == display {
			return fn, fd, w.funcPkg[fn]
		}
	}
	return nil, nil, nil
}

// usagesIn lists the second arguments of common.UseComputation calls reachable from node.
func (w *meterWorld) usagesIn(p *packages.Package, node ast.Node, depth int, seen map[*types.Func]bool, out *[]string) {
	ast.Inspect(node, func(n ast.Node) bool {
		call, ok := n.(*ast.CallExpr)
		if !ok {
			return true
		}
		fn := calleeOf(p.TypesInfo, call)
		if fn == nil {
			return true
		}
		if fn.Pkg() != nil && fn.Pkg().Path() == "github.com/onflow/cadence/common" && fn.Name() == "UseComputation" && len(call.Args) == 2 {
			*out = append(*out, usageName(call.Args[1]))
			return true
		}
		if depth > 0 && !seen[fn] {
			if fd, ok := w.funcDecl[fn]; ok {
				seen[fn] = true
				w.usagesIn(w.funcPkg[fn], fd.Body, depth-1, seen, out)
			}
		}
		return true
	})
}

func usageName(e ast.Expr) string {
	switch x := e.(type) {
	case *ast.SelectorExpr:
		return x.Sel.Name
	case *ast.Ident:
		return x.Name
	case *ast.CompositeLit:
		for _, el := range x.Elts {
			if kv, ok := el.(*ast.KeyValueExpr); ok {
				if k, ok := kv.Key.(*ast.Ident); ok && k.Name == "Kind" {
					return "Kind:" + types.ExprString(kv.Value)
				}
			}
		}
	}
	return types.ExprString(e)
}

func runMeterFacts(args []string) error {
	w, err := loadMeterWorld()
	if err != nil {
		return err
	}
	type fact struct {
		key  string
		vals []string
	}
	var facts []fact
	missing := func(what string) error { return fmt.Errorf("gen-meterfacts: %s not found", what) }

	firstLoop := func(fd *ast.FuncDecl) ast.Node {
		var loop ast.Node
		ast.Inspect(fd.Body, func(n ast.Node) bool {
			if loop != nil {
				return false
			}
			switch n.(type) {
			case *ast.ForStmt, *ast.RangeStmt:
				loop = n
				return false
			}
			return true
		})
		return loop
	}
	usages := func(key, display string, loopOnly bool, depth int) error {
		_, fd, p := w.findFunc(display)
		if fd == nil {
			return missing(display)
		}
		var node ast.Node = fd.Body
		if loopOnly {
			node = firstLoop(fd)
			if node == nil {
				facts = append(facts, fact{"usages " + key, []string{"<no loop statement>"}})
				return nil
			}
		}
		var out []string
		w.usagesIn(p, node, depth, map[*types.Func]bool{}, &out)
		facts = append(facts, fact{"usages " + key, out})
		return nil
	}
	for _, u := range []struct {
		key, fn  string
		loopOnly bool
		depth    int
	}{
		{"interp.while", "interpreter.Interpreter.VisitWhileStatement", true, 1},
		{"interp.for", "interpreter.Interpreter.visitForStatementBody", false, 1},
		{"interp.statement", "interpreter.Interpreter.visitStatements", true, 1},
		{"interp.invoke", "interpreter.Interpreter.reportFunctionInvocation", false, 0},
		{"interp.loopIteration", "interpreter.Interpreter.reportLoopIteration", false, 0},
		{"vm.loop", "vm.opLoop", false, 0},
		{"vm.statement", "vm.opStatement", false, 0},
		{"vm.invoke", "vm.invokeFunction", false, 0},
	} {
		if err := usages(u.key, u.fn, u.loopOnly, u.depth); err != nil {
			return err
		}
	}
	// callers
	for _, target := range []string{"interpreter.Interpreter.reportLoopIteration", "interpreter.Interpreter.reportFunctionInvocation",
		"interpreter.Interpreter.visitForStatementBody", "vm.opLoop", "vm.opStatement", "vm.invokeFunction"} {
		tfn, _, _ := w.findFunc(target)
		if tfn == nil {
			return missing(target)
		}
		set := map[string]bool{}
		for fn, fd := range w.funcDecl {
			p := w.funcPkg[fn]
			ast.Inspect(fd.Body, func(n ast.Node) bool {
				if call, ok := n.(*ast.CallExpr); ok && calleeOf(p.TypesInfo, call) == tfn {
					set[funcDisplay(fn)] = true
				}
				return true
			})
		}
		var cs []string
		for c := range set {
			cs = append(cs, c)
		}
		sort.Strings(cs)
		facts = append(facts, fact{"callers " + target, cs})
	}
	// compiler: order of code generation calls
	for _, name := range []string{"compiler.Compiler.VisitWhileStatement", "compiler.Compiler.VisitForStatement"} {
		_, fd, _ := w.findFunc(name)
		if fd == nil {
			return missing(name)
		}
		var order []string
		for _, st := range fd.Body.List {
			ast.Inspect(st, func(n ast.Node) bool {
				if _, isLit := n.(*ast.FuncLit); isLit {
					return false // deferred / callback bodies run elsewhere
				}
				call, ok := n.(*ast.CallExpr)
				if !ok {
					return true
				}
				sel, ok := call.Fun.(*ast.SelectorExpr)
				if !ok {
					return true
				}
				switch sel.Sel.Name {
				case "emitUndefinedJumpIfFalse", "compileBlock", "emitContinue", "patchJump", "pushControlFlow":
					order = append(order, sel.Sel.Name)
				case "emit":
					if len(call.Args) == 1 {
						if cl, ok := call.Args[0].(*ast.CompositeLit); ok {
							t := types.ExprString(cl.Type)
							if t == "opcode.InstructionLoop" || t == "opcode.InstructionIteratorHasNext" || t == "opcode.InstructionIteratorNext" {
								order = append(order, "emit:"+strings.TrimPrefix(t, "opcode."))
							}
						}
					}
				}
				return true
			})
		}
		facts = append(facts, fact{"order " + name, order})
	}
	// VM dispatch: the case clause of InstructionLoop / InstructionStatement / InstructionInvoke* calls
	for fn, fd := range w.funcDecl {
		if fn.Pkg() == nil || fn.Pkg().Name() != "vm" {
			continue
		}
		ast.Inspect(fd.Body, func(n ast.Node) bool {
			cc, ok := n.(*ast.CaseClause)
			if !ok {
				return true
			}
			for _, e := range cc.List {
				t := types.ExprString(e)
				if t == "opcode.InstructionLoop" || t == "opcode.InstructionStatement" {
					var called []string
					for _, st := range cc.Body {
						ast.Inspect(st, func(n ast.Node) bool {
							if call, ok := n.(*ast.CallExpr); ok {
								if id, ok := call.Fun.(*ast.Ident); ok {
									called = append(called, id.Name)
								}
							}
							return true
						})
					}
					facts = append(facts, fact{"dispatch " + funcDisplay(fn) + " " + strings.TrimPrefix(t, "opcode."), called})
				}
			}
			return true
		})
	}
	// depth checks: the comparison and the error raised
	for _, name := range []string{"runtime.stackDepthLimiter.OnFunctionInvocation", "vm.VM.pushCallFrame"} {
		_, fd, p := w.findFunc(name)
		if fd == nil {
			return missing(name)
		}
		var vals []string
		ast.Inspect(fd.Body, func(n ast.Node) bool {
			ifs, ok := n.(*ast.IfStmt)
			if !ok {
				return true
			}
			cond := types.ExprString(ifs.Cond)
			if !strings.Contains(strings.ToLower(cond), "limit") {
				return true
			}
			vals = append(vals, "if "+cond)
			return true
		})
		ast.Inspect(fd.Body, func(n ast.Node) bool {
			if cl, ok := n.(*ast.CompositeLit); ok {
				t := types.ExprString(cl.Type)
				if strings.HasSuffix(t, "Error") {
					vals = append(vals, "raises "+t)
				}
			}
			return true
		})
		_ = p
		facts = append(facts, fact{"depth " + name, vals})
	}
	// the VM environment's configured limit
	if _, fd, _ := w.findFunc("runtime.vmEnvironment.newVMConfig"); fd != nil {
		var vals []string
		ast.Inspect(fd.Body, func(n ast.Node) bool {
			if as, ok := n.(*ast.AssignStmt); ok && len(as.Lhs) == 1 && strings.HasSuffix(types.ExprString(as.Lhs[0]), ".StackDepthLimit") {
				vals = append(vals, types.ExprString(as.Rhs[0]))
			}
			return true
		})
		facts = append(facts, fact{"depth runtime.vmEnvironment.newVMConfig StackDepthLimit", vals})
	}
	// how each engine derives its limit from runtime.Config.StackDepthLimit: the statements of
	// newStackDepthLimiter (interpreter environment) and vmStackDepthLimit (VM environment), flattened
	for _, name := range []string{"runtime.newStackDepthLimiter", "runtime.vmStackDepthLimit"} {
		_, fd, _ := w.findFunc(name)
		if fd == nil {
			return missing(name)
		}
		var vals []string
		var walk func(stmts []ast.Stmt)
		walk = func(stmts []ast.Stmt) {
			for _, st := range stmts {
				switch st := st.(type) {
				case *ast.IfStmt:
					vals = append(vals, "if "+types.ExprString(st.Cond))
					walk(st.Body.List)
					if st.Else != nil {
						vals = append(vals, "else")
						if b, ok := st.Else.(*ast.BlockStmt); ok {
							walk(b.List)
						} else {
							walk([]ast.Stmt{st.Else})
						}
					}
					vals = append(vals, "end")
				case *ast.AssignStmt:
					var l, r []string
					for _, e := range st.Lhs {
						l = append(l, types.ExprString(e))
					}
					for _, e := range st.Rhs {
						r = append(r, types.ExprString(e))
					}
					vals = append(vals, strings.Join(l, ", ")+" "+st.Tok.String()+" "+strings.Join(r, ", "))
				case *ast.IncDecStmt:
					vals = append(vals, types.ExprString(st.X)+st.Tok.String())
				case *ast.ReturnStmt:
					var r []string
					for _, e := range st.Results {
						if cl, ok := e.(*ast.UnaryExpr); ok {
							if lit, ok := cl.X.(*ast.CompositeLit); ok {
								var kv []string
								for _, el := range lit.Elts {
									if pair, ok := el.(*ast.KeyValueExpr); ok {
										kv = append(kv, types.ExprString(pair.Key)+": "+types.ExprString(pair.Value))
									} else {
										kv = append(kv, types.ExprString(el))
									}
								}
								r = append(r, cl.Op.String()+types.ExprString(lit.Type)+"{"+strings.Join(kv, ", ")+"}")
								continue
							}
						}
						r = append(r, types.ExprString(e))
					}
					vals = append(vals, "return "+strings.Join(r, ", "))
				default:
					vals = append(vals, fmt.Sprintf("stmt %T", st))
				}
			}
		}
		walk(fd.Body.List)
		facts = append(facts, fact{"limit " + name, vals})
	}
	sort.SliceStable(facts, func(i, j int) bool { return facts[i].key < facts[j].key })
	var sb strings.Builder
	sb.WriteString("/- GENERATED by `vtool gen-meterfacts` from the checkout under verification. Do not edit. -/\n")
	sb.WriteString("namespace Verif.Gen.MeterFacts\n\n")
	sb.WriteString("/-- (fact key, values) — see cmd/vtool/tool_meterfacts.go for the meaning of each key -/\n")
	sb.WriteString("def facts : List (String × List String) := [\n")
	for i, f := range facts {
		sep := ","
		if i == len(facts)-1 {
			sep = ""
		}
		fmt.Fprintf(&sb, "  (%s, %s)%s\n", goload.LeanString(f.key), leanStrList(f.vals), sep)
	}
	sb.WriteString("]\n\nend Verif.Gen.MeterFacts\n")
	return tx.WriteGen("MeterFacts", sb.String())
}
