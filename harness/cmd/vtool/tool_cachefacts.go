package main

// gen-cachefacts (C31, FX): every process-wide cache / memo cell of the non-test code and whether
// metering is reachable inside its fill path.
//
// A *cell* is (a) a package-level variable whose type is, or is a struct that contains by value, a
// sync.Map / sync.Once / atomic.Pointer / atomic.Value / sync.Mutex / sync.RWMutex, or (b) a struct
// field of one of these types in a named struct type (one memo cell per instance; the instances of
// sema's built-in types are package-level singletons, so these are process-wide too).  sync.Pool
// variables are recycled objects, not caches; they are inventoried by gen-sharedstate (C36).
//
// The *fill path* of a cell is every function (or function literal's enclosing function) that calls
// Store / CompareAndSwap / Swap / LoadOrStore / Do / Lock on the cell, plus, transitively (depth
// <= 6), every statically resolved callee with a body in the loaded packages.  Inside it, a *metering
// hit* is
//   - a call of common.UseMemory / common.UseComputation or of a method MeterMemory / MeterComputation,
//   - a call argument whose static type implements common.MemoryGauge or common.ComputationGauge and
//     that is not the literal nil,
// except when the gauge expression is a parameter of an enclosing function literal (the closure is
// stored and later invoked with the gauge of the execution that uses it — not part of the fill).
// Calls through interfaces and function values are not followed (limitation, stated in the level note).
// Output: lean/Verif/Gen/CacheFacts.lean.

import (
	"fmt"
	"go/ast"
	"go/types"
	"os"
	"sort"
	"strings"

	"golang.org/x/tools/go/packages"

	"verif/harness/internal/goload"
	"verif/harness/internal/tx"
)

func init() {
	tx.Register(&tx.Tool{Name: "gen-cachefacts", Help: "C31: caches / memo cells and metering reachable in their fill paths", Run: runCacheFacts})
}

var meterPackages = []string{".", "./runtime", "./interpreter", "./sema", "./stdlib/...", "./bbq/...", "./encoding/...",
	"./common/...", "./values", "./activations", "./ast", "./parser/...", "./errors", "./format", "./fixedpoint"}

// guardKind classifies a type as a synchronisation primitive.
func guardKind(t types.Type) string {
	n, ok := t.(*types.Named)
	if !ok {
		return ""
	}
	obj := n.Obj()
	if obj == nil || obj.Pkg() == nil {
		return ""
	}
	switch obj.Pkg().Path() + "." + obj.Name() {
	case "sync.Once":
		return "once"
	case "sync.Map":
		return "syncmap"
	case "sync.Mutex", "sync.RWMutex":
		return "mutex"
	case "sync.Pool":
		return "pool"
	case "sync/atomic.Pointer", "sync/atomic.Value", "sync/atomic.Bool", "sync/atomic.Int32", "sync/atomic.Int64",
		"sync/atomic.Uint32", "sync/atomic.Uint64":
		return "atomic"
	}
	return ""
}

// containedGuard: the guard kind of t itself or of a by-value field (depth 2) of a struct t.
func containedGuard(t types.Type, depth int) string {
	if g := guardKind(t); g != "" {
		return g
	}
	if depth == 0 {
		return ""
	}
	if p, ok := t.(*types.Pointer); ok && depth == 2 {
		t = p.Elem() // `var x = &T{...}` / `new(T)` at package level is still one shared object
	}
	st, ok := t.Underlying().(*types.Struct)
	if !ok {
		return ""
	}
	var kinds []string
	for i := 0; i < st.NumFields(); i++ {
		if g := containedGuard(st.Field(i).Type(), depth-1); g != "" {
			kinds = append(kinds, g)
		}
	}
	sort.Strings(kinds)
	kinds = uniq(kinds)
	return strings.Join(kinds, "+")
}

func uniq(xs []string) []string {
	var out []string
	for i, x := range xs {
		if i == 0 || x != xs[i-1] {
			out = append(out, x)
		}
	}
	return out
}

// meterWorld indexes the loaded packages.
type meterWorld struct {
	repo      string
	pkgs      []*packages.Package
	funcDecl  map[*types.Func]*ast.FuncDecl
	funcPkg   map[*types.Func]*packages.Package
	memIface  *types.Interface
	compIface *types.Interface
}

func loadMeterWorld() (*meterWorld, error) {
	repo := tx.Repo()
	pkgs, err := goload.Load(repo, meterPackages...)
	if err != nil {
		return nil, err
	}
	w := &meterWorld{repo: repo, pkgs: pkgs, funcDecl: map[*types.Func]*ast.FuncDecl{}, funcPkg: map[*types.Func]*packages.Package{}}
	for _, p := range pkgs {
		for _, f := range p.Syntax {
			if goload.IsTestFile(goload.Rel(repo, p.Fset, f.Pos())) {
				continue
			}
			for _, d := range f.Decls {
				if fd, ok := d.(*ast.FuncDecl); ok && fd.Body != nil {
					if fn, ok := p.TypesInfo.Defs[fd.Name].(*types.Func); ok {
						w.funcDecl[fn] = fd
						w.funcPkg[fn] = p
					}
				}
			}
		}
		if p.PkgPath == "github.com/onflow/cadence/common" {
			if o := p.Types.Scope().Lookup("MemoryGauge"); o != nil {
				w.memIface, _ = o.Type().Underlying().(*types.Interface)
			}
			if o := p.Types.Scope().Lookup("ComputationGauge"); o != nil {
				w.compIface, _ = o.Type().Underlying().(*types.Interface)
			}
		}
	}
	if w.memIface == nil || w.compIface == nil {
		return nil, fmt.Errorf("common.MemoryGauge / common.ComputationGauge not found")
	}
	return w, nil
}

func (w *meterWorld) isGauge(t types.Type) bool {
	if t == nil {
		return false
	}
	if b, ok := t.(*types.Basic); ok && b.Kind() == types.UntypedNil {
		return false
	}
	return types.Implements(t, w.memIface) || types.Implements(t, w.compIface) ||
		(func() bool {
			if _, isPtr := t.(*types.Pointer); !isPtr {
				if _, isIface := t.Underlying().(*types.Interface); !isIface {
					pt := types.NewPointer(t)
					return types.Implements(pt, w.memIface) || types.Implements(pt, w.compIface)
				}
			}
			return false
		})()
}

// calleeOf resolves the statically known callee of a call.
func calleeOf(info *types.Info, call *ast.CallExpr) *types.Func {
	var id *ast.Ident
	switch f := ast.Unparen(call.Fun).(type) {
	case *ast.Ident:
		id = f
	case *ast.SelectorExpr:
		id = f.Sel
	case *ast.IndexExpr:
		switch g := f.X.(type) {
		case *ast.Ident:
			id = g
		case *ast.SelectorExpr:
			id = g.Sel
		}
	}
	if id == nil {
		return nil
	}
	fn, _ := info.Uses[id].(*types.Func)
	if fn != nil {
		if o := fn.Origin(); o != nil {
			fn = o
		}
	}
	return fn
}

func funcDisplay(fn *types.Func) string {
	sig, _ := fn.Type().(*types.Signature)
	name := fn.Name()
	if sig != nil && sig.Recv() != nil {
		t := sig.Recv().Type()
		if p, ok := t.(*types.Pointer); ok {
			t = p.Elem()
		}
		if n, ok := t.(*types.Named); ok {
			name = n.Obj().Name() + "." + name
		}
	}
	if fn.Pkg() != nil {
		return fn.Pkg().Name() + "." + name
	}
	return name
}

// meterHits returns the metering hits reachable from the body `body` of a function in package p.
func (w *meterWorld) meterHits(p *packages.Package, params *ast.FieldList, body ast.Node, depth int, seen map[*types.Func]bool, out map[string]bool) {
	// parameters of enclosing function literals are late-bound; so are the parameters of a followed
	// callee (whether a live gauge is passed for them was judged at the call site)
	late := map[types.Object]bool{}
	if params != nil {
		for _, f := range params.List {
			for _, nm := range f.Names {
				if o := p.TypesInfo.Defs[nm]; o != nil {
					late[o] = true
				}
			}
		}
	}
	var walk func(n ast.Node)
	walk = func(n ast.Node) {
		ast.Inspect(n, func(n ast.Node) bool {
			switch x := n.(type) {
			case *ast.FuncLit:
				var added []types.Object
				for _, f := range x.Type.Params.List {
					for _, nm := range f.Names {
						if o := p.TypesInfo.Defs[nm]; o != nil && !late[o] {
							late[o] = true
							added = append(added, o)
						}
					}
				}
				walk(x.Body)
				for _, o := range added {
					delete(late, o)
				}
				return false
			case *ast.CallExpr:
				fn := calleeOf(p.TypesInfo, x)
				isLate := func(e ast.Expr) bool {
					id, ok := ast.Unparen(e).(*ast.Ident)
					return ok && late[p.TypesInfo.Uses[id]]
				}
				if fn != nil {
					full := ""
					if fn.Pkg() != nil {
						full = fn.Pkg().Path() + "." + fn.Name()
					}
					switch {
					case full == "github.com/onflow/cadence/common.UseMemory" || full == "github.com/onflow/cadence/common.UseComputation":
						if len(x.Args) > 0 && !isLate(x.Args[0]) {
							if tv, ok := p.TypesInfo.Types[x.Args[0]]; !ok || !tv.IsNil() {
								out["meter-call:"+fn.Name()] = true
							}
						}
					case fn.Name() == "MeterMemory" || fn.Name() == "MeterComputation":
						if sel, ok := ast.Unparen(x.Fun).(*ast.SelectorExpr); !ok || !isLate(sel.X) {
							out["meter-call:"+fn.Name()] = true
							if os.Getenv("VERIF_DEBUG") != "" {
								fmt.Fprintln(os.Stderr, "meter-call at", p.Fset.Position(x.Pos()))
							}
						}
					}
				}
				for _, a := range x.Args {
					tv, ok := p.TypesInfo.Types[a]
					if !ok || tv.IsNil() || !w.isGauge(tv.Type) || isLate(a) {
						continue
					}
					callee := types.ExprString(x.Fun)
					if fn != nil {
						callee = funcDisplay(fn)
					}
					out["gauge-arg:"+callee+"("+types.ExprString(a)+")"] = true
				}
				if fn != nil && depth > 0 && !seen[fn] {
					if fd, ok := w.funcDecl[fn]; ok {
						seen[fn] = true
						w.meterHits(w.funcPkg[fn], fd.Type.Params, fd.Body, depth-1, seen, out)
					}
				}
			}
			return true
		})
	}
	walk(body)
}

type cacheSite struct {
	file, owner, guard string
	fills              []string
	hits               []string
}

func runCacheFacts(args []string) error {
	w, err := loadMeterWorld()
	if err != nil {
		return err
	}
	// 1. cells: objects (package-level vars and struct fields) with a guard
	type cell struct {
		obj   types.Object
		file  string
		owner string
		guard string
	}
	cells := map[types.Object]*cell{}
	for _, p := range w.pkgs {
		for _, f := range p.Syntax {
			rel := goload.Rel(w.repo, p.Fset, f.Pos())
			if goload.IsTestFile(rel) || strings.HasPrefix(rel, "old_parser/") {
				continue
			}
			for _, d := range f.Decls {
				gd, ok := d.(*ast.GenDecl)
				if !ok {
					continue
				}
				for _, sp := range gd.Specs {
					switch s := sp.(type) {
					case *ast.ValueSpec:
						for _, nm := range s.Names {
							o, ok := p.TypesInfo.Defs[nm].(*types.Var)
							if !ok || nm.Name == "_" {
								continue
							}
							g := guardKind(o.Type())
							if g == "" || g == "pool" {
								continue
							}
							cells[o] = &cell{o, rel, p.Types.Name() + "." + nm.Name, g}
						}
					case *ast.TypeSpec:
						st, ok := s.Type.(*ast.StructType)
						if !ok {
							continue
						}
						for _, fld := range st.Fields.List {
							for _, nm := range fld.Names {
								o, ok := p.TypesInfo.Defs[nm].(*types.Var)
								if !ok {
									continue
								}
								t := o.Type()
								if pt, isPtr := t.(*types.Pointer); isPtr {
									t = pt.Elem()
								}
								g := guardKind(t)
								if g == "" || g == "pool" {
									continue
								}
								cells[o] = &cell{o, rel, p.Types.Name() + "." + s.Name.Name + "." + nm.Name, g}
							}
						}
					}
				}
			}
		}
	}
	// 2. fill functions: functions calling a write method on a cell
	writeMethods := map[string]bool{"Store": true, "CompareAndSwap": true, "Swap": true, "LoadOrStore": true, "Do": true, "Lock": true}
	fills := map[types.Object]map[*types.Func]bool{}
	for fn, fd := range w.funcDecl {
		p := w.funcPkg[fn]
		ast.Inspect(fd.Body, func(n ast.Node) bool {
			call, ok := n.(*ast.CallExpr)
			if !ok {
				return true
			}
			sel, ok := call.Fun.(*ast.SelectorExpr)
			if !ok || !writeMethods[sel.Sel.Name] {
				return true
			}
			// receiver expression: ident or selector chain whose last element is a cell
			var target types.Object
			switch r := ast.Unparen(sel.X).(type) {
			case *ast.Ident:
				target = p.TypesInfo.Uses[r]
			case *ast.SelectorExpr:
				target = p.TypesInfo.Uses[r.Sel]
				if _, isCell := cells[target]; !isCell {
					// e.g. cachedSmallIntegerValues-like struct var: c.m where c is the receiver of a method
					// of the cell's struct type — handled because the field itself is a cell.
				}
			}
			if target == nil {
				return true
			}
			if _, ok := cells[target]; !ok {
				return true
			}
			if fills[target] == nil {
				fills[target] = map[*types.Func]bool{}
			}
			fills[target][fn] = true
			return true
		})
	}
	// 3. metering hits per cell
	var sites []cacheSite
	for o, c := range cells {
		s := cacheSite{file: c.file, owner: c.owner, guard: c.guard}
		hits := map[string]bool{}
		for fn := range fills[o] {
			s.fills = append(s.fills, funcDisplay(fn))
			seen := map[*types.Func]bool{fn: true}
			w.meterHits(w.funcPkg[fn], nil, w.funcDecl[fn].Body, 6, seen, hits)
		}
		sort.Strings(s.fills)
		for h := range hits {
			s.hits = append(s.hits, h)
		}
		sort.Strings(s.hits)
		sites = append(sites, s)
	}
	sort.Slice(sites, func(i, j int) bool {
		if sites[i].file != sites[j].file {
			return sites[i].file < sites[j].file
		}
		return sites[i].owner < sites[j].owner
	})
	var sb strings.Builder
	sb.WriteString("/- GENERATED by `vtool gen-cachefacts` from the checkout under verification. Do not edit. -/\n")
	sb.WriteString("namespace Verif.Gen.CacheFacts\n\n")
	sb.WriteString("/-- one cache / memo cell: declaring file, owner (pkg.Var or pkg.Type.field), guard kind, the functions that\nwrite it (fill path roots) and the metering hits reachable inside the fill path -/\n")
	sb.WriteString("structure Site where\n  file : String\n  owner : String\n  guard : String\n  fills : List String\n  hits : List String\n  deriving DecidableEq, Repr\n\n")
	sb.WriteString("def sites : List Site := [\n")
	for i, s := range sites {
		sep := ","
		if i == len(sites)-1 {
			sep = ""
		}
		fmt.Fprintf(&sb, "  ⟨%s, %s, %s, %s, %s⟩%s\n", goload.LeanString(s.file), goload.LeanString(s.owner), goload.LeanString(s.guard),
			leanStrList(s.fills), leanStrList(s.hits), sep)
	}
	sb.WriteString("]\n\nend Verif.Gen.CacheFacts\n")
	return tx.WriteGen("CacheFacts", sb.String())
}

func leanStrList(xs []string) string {
	q := make([]string, len(xs))
	for i, x := range xs {
		q[i] = goload.LeanString(x)
	}
	return "[" + strings.Join(q, ", ") + "]"
}
