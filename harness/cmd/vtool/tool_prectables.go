package main

// gen-prectables (FX, property C38): the printer's precedence table and the parser's binding powers,
// read from /repo's current sources with go/ast:
//   * ast/precedence.go        the expressionPrecedence constants in iota order (rank = position)
//   * ast/expression.go        BinaryExpression.precedence(): operation -> precedence constant;
//                              IsLeftAssociative(): the operations excluded from left associativity;
//                              the precedence() of the other expression kinds (constant results, and the
//                              conditional results `if <cond> { return X }` in source order)
//   * ast/operation.go         Operation.Symbol(): operation -> symbol
//   * parser/expression.go     the exprLeftBindingPower* constants (gap * (iota + 2)); every
//                              defineExpr(binaryExpr{...}) / unaryExpr / prefixExpr / postfixExpr literal;
//                              setExprLeftBindingPower(token, power) calls; the constants used by the
//                              `<` and `>` meta left denotations
// Output: lean/Verif/Gen/PrecTables.lean (plain data).  The obligations are `decide` theorems in
// Verif/Properties/C38.lean.

import (
	"fmt"
	"go/ast"
	"go/parser"
	"go/token"
	"path/filepath"
	"sort"
	"strings"

	"verif/harness/internal/tx"
)

func init() {
	tx.Register(&tx.Tool{Name: "gen-prectables", Help: "AST precedence table vs parser binding powers", Run: runPrecTables})
}

// canonical order of the binary operator symbols (the Lean model's BinOp constructors, in order)
var ptBinSymbols = []string{"||", "&&", "==", "!=", "<", "<=", ">", ">=", "??", "|", "^", "&", "<<", ">>", "+", "-", "*", "/", "%"}

// canonical order of the prefix operators (the Lean model's UnOp constructors): symbol
var ptUnSymbols = []string{"-", "!", "<-", "*"}

func ptConstNames(f *ast.File, prefix string) []string {
	var out []string
	for _, d := range f.Decls {
		gd, ok := d.(*ast.GenDecl)
		if !ok || gd.Tok != token.CONST {
			continue
		}
		for _, sp := range gd.Specs {
			for _, n := range sp.(*ast.ValueSpec).Names {
				if strings.HasPrefix(n.Name, prefix) {
					out = append(out, n.Name)
				}
			}
		}
	}
	return out
}

func ptMethod(f *ast.File, recv, name string) *ast.FuncDecl {
	for _, d := range f.Decls {
		fd, ok := d.(*ast.FuncDecl)
		if !ok || fd.Recv == nil || fd.Name.Name != name || len(fd.Recv.List) != 1 {
			continue
		}
		t := fd.Recv.List[0].Type
		if st, ok := t.(*ast.StarExpr); ok {
			t = st.X
		}
		if id, ok := t.(*ast.Ident); ok && id.Name == recv {
			return fd
		}
	}
	return nil
}

func ptIdent(e ast.Expr) string {
	switch x := e.(type) {
	case *ast.Ident:
		return x.Name
	case *ast.SelectorExpr:
		return x.Sel.Name
	}
	return "?"
}

// switch <x> { case A, B: return C ... } -> map A->C
func ptSwitchReturns(fd *ast.FuncDecl) map[string]string {
	out := map[string]string{}
	ast.Inspect(fd.Body, func(n ast.Node) bool {
		cc, ok := n.(*ast.CaseClause)
		if !ok {
			return true
		}
		for _, st := range cc.Body {
			if rs, ok := st.(*ast.ReturnStmt); ok && len(rs.Results) == 1 {
				val := ""
				switch r := rs.Results[0].(type) {
				case *ast.BasicLit:
					val = strings.Trim(r.Value, "\"`")
				default:
					val = ptIdent(r)
				}
				for _, c := range cc.List {
					out[ptIdent(c)] = val
				}
			}
		}
		return true
	})
	return out
}

func ptQ(s string) string {
	return "\"" + strings.ReplaceAll(strings.ReplaceAll(s, "\\", "\\\\"), "\"", "\\\"") + "\""
}

func ptIndex(xs []string, x string) int {
	for i, y := range xs {
		if y == x {
			return i
		}
	}
	return -1
}

func runPrecTables(args []string) error {
	repo := tx.Repo()
	fset := token.NewFileSet()
	parse := func(rel string) (*ast.File, error) {
		return parser.ParseFile(fset, filepath.Join(repo, rel), nil, 0)
	}
	precF, err := parse("ast/precedence.go")
	if err != nil {
		return err
	}
	exprF, err := parse("ast/expression.go")
	if err != nil {
		return err
	}
	attF, err := parse("ast/attachment.go")
	if err != nil {
		return err
	}
	opF, err := parse("ast/operation.go")
	if err != nil {
		return err
	}
	parF, err := parse("parser/expression.go")
	if err != nil {
		return err
	}

	astPrec := ptConstNames(precF, "expressionPrecedence")
	typePrec := ptConstNames(precF, "TypePrecedence")
	powers := ptConstNames(parF, "exprLeftBindingPower")

	symFD := ptMethod(opF, "Operation", "Symbol")
	if symFD == nil {
		return fmt.Errorf("Operation.Symbol not found")
	}
	opSymbol := ptSwitchReturns(symFD)
	symOp := map[string]string{}
	for op, s := range opSymbol {
		if s != "" {
			symOp[s] = op
		}
	}

	binFD := ptMethod(exprF, "BinaryExpression", "precedence")
	if binFD == nil {
		return fmt.Errorf("BinaryExpression.precedence not found")
	}
	binPrec := ptSwitchReturns(binFD)

	// IsLeftAssociative: return e.Operation != OperationX (&& ...)
	nonLeft := map[string]bool{}
	if fd := ptMethod(exprF, "BinaryExpression", "IsLeftAssociative"); fd != nil {
		ast.Inspect(fd.Body, func(n ast.Node) bool {
			if be, ok := n.(*ast.BinaryExpr); ok && be.Op == token.NEQ {
				nonLeft[ptIdent(be.Y)] = true
			}
			return true
		})
	} else {
		return fmt.Errorf("BinaryExpression.IsLeftAssociative not found")
	}

	// precedence() of the other expression kinds: list of results in source order
	type kindPrec struct {
		kind    string
		results []string
	}
	var kinds []kindPrec
	for _, f := range []*ast.File{exprF, attF} {
		for _, d := range f.Decls {
			fd, ok := d.(*ast.FuncDecl)
			if !ok || fd.Recv == nil || fd.Name.Name != "precedence" {
				continue
			}
			t := fd.Recv.List[0].Type
			if st, ok := t.(*ast.StarExpr); ok {
				t = st.X
			}
			kind := ptIdent(t)
			if kind == "BinaryExpression" {
				continue
			}
			var res []string
			ast.Inspect(fd.Body, func(n ast.Node) bool {
				if rs, ok := n.(*ast.ReturnStmt); ok && len(rs.Results) == 1 {
					res = append(res, strings.TrimPrefix(ptIdent(rs.Results[0]), "expressionPrecedence"))
				}
				return true
			})
			kinds = append(kinds, kindPrec{kind, res})
		}
	}
	sort.Slice(kinds, func(i, j int) bool { return kinds[i].kind < kinds[j].kind })

	// parser: composite literals binaryExpr{...}, unaryExpr{...}, prefixExpr{...}, postfixExpr{...}
	type def struct {
		kind, tok, power, op string
		right                bool
	}
	var defs []def
	ast.Inspect(parF, func(n ast.Node) bool {
		cl, ok := n.(*ast.CompositeLit)
		if !ok {
			return true
		}
		id, ok := cl.Type.(*ast.Ident)
		if !ok {
			return true
		}
		switch id.Name {
		case "binaryExpr", "unaryExpr", "prefixExpr", "postfixExpr":
		default:
			return true
		}
		d := def{kind: id.Name}
		literal := true
		for _, el := range cl.Elts {
			kv, ok := el.(*ast.KeyValueExpr)
			if !ok {
				continue
			}
			switch ptIdent(kv.Key) {
			case "tokenType":
				d.tok = ptIdent(kv.Value)
				if _, isSel := kv.Value.(*ast.SelectorExpr); !isSel {
					literal = false // e.g. `tokenType: def.tokenType` inside defineExpr itself
				}
			case "leftBindingPower", "bindingPower":
				d.power = strings.TrimPrefix(ptIdent(kv.Value), "exprLeftBindingPower")
			case "operation":
				d.op = ptIdent(kv.Value)
			case "rightAssociative":
				d.right = ptIdent(kv.Value) == "true"
			}
		}
		if literal && d.tok != "" {
			defs = append(defs, d)
		}
		return true
	})
	// setExprLeftBindingPower(lexer.TokenX, exprLeftBindingPowerY) and the identifier version
	type lb struct{ tok, power string }
	var lbs []lb
	ast.Inspect(parF, func(n ast.Node) bool {
		ce, ok := n.(*ast.CallExpr)
		if !ok || len(ce.Args) != 2 {
			return true
		}
		fn := ptIdent(ce.Fun)
		if fn != "setExprLeftBindingPower" && fn != "setExprIdentifierLeftBindingPower" {
			return true
		}
		if _, isSel := ce.Args[0].(*ast.SelectorExpr); !isSel && fn == "setExprLeftBindingPower" {
			// `setExprLeftBindingPower(tokenType, ...)` inside loops/helpers: resolved below for the cast tokens
			if ptIdent(ce.Args[0]) == "tokenType" && strings.HasPrefix(ptIdent(ce.Args[1]), "exprLeftBindingPower") {
				p := strings.TrimPrefix(ptIdent(ce.Args[1]), "exprLeftBindingPower")
				if p == "Casting" {
					lbs = append(lbs, lb{"TokenAsExclamationMark", p}, lb{"TokenAsQuestionMark", p})
				}
			}
			return true
		}
		p := ptIdent(ce.Args[1])
		if !strings.HasPrefix(p, "exprLeftBindingPower") {
			return true
		}
		lbs = append(lbs, lb{ptIdent(ce.Args[0]), strings.TrimPrefix(p, "exprLeftBindingPower")})
		return true
	})
	// constants of the `<` / `>` meta left denotations
	lessPower, lessInvPower := "?", "?"
	ast.Inspect(parF, func(n ast.Node) bool {
		vs, ok := n.(*ast.ValueSpec)
		if !ok || len(vs.Names) != 1 || len(vs.Values) != 1 {
			return true
		}
		switch vs.Names[0].Name {
		case "binaryExpressionLeftBindingPower":
			lessPower = strings.TrimPrefix(ptIdent(vs.Values[0]), "exprLeftBindingPower")
		case "invocationExpressionLeftBindingPower":
			lessInvPower = strings.TrimPrefix(ptIdent(vs.Values[0]), "exprLeftBindingPower")
		}
		return true
	})
	// `>`: which power constants does defineGreaterThanOrBitwiseRightShiftExpression mention
	gtPowers := map[string]bool{}
	for _, d := range parF.Decls {
		if fd, ok := d.(*ast.FuncDecl); ok && fd.Name.Name == "defineGreaterThanOrBitwiseRightShiftExpression" {
			ast.Inspect(fd.Body, func(n ast.Node) bool {
				if id, ok := n.(*ast.Ident); ok && strings.HasPrefix(id.Name, "exprLeftBindingPower") {
					gtPowers[strings.TrimPrefix(id.Name, "exprLeftBindingPower")] = true
				}
				return true
			})
		}
	}

	tokenSym := map[string]string{
		"TokenVerticalBarVerticalBar": "||", "TokenAmpersandAmpersand": "&&", "TokenLessEqual": "<=", "TokenGreaterEqual": ">=",
		"TokenEqualEqual": "==", "TokenNotEqual": "!=", "TokenDoubleQuestionMark": "??", "TokenVerticalBar": "|", "TokenCaret": "^",
		"TokenAmpersand": "&", "TokenLessLess": "<<", "TokenPlus": "+", "TokenMinus": "-", "TokenStar": "*", "TokenSlash": "/",
		"TokenPercent": "%", "TokenExclamationMark": "!", "TokenLeftArrow": "<-", "TokenLess": "<", "TokenGreater": ">",
	}
	powerOf := func(name string) int { // 10 * (iota + 2)
		i := ptIndex(powers, "exprLeftBindingPower"+name)
		if i < 0 {
			return 0
		}
		return 10 * (i + 2)
	}
	precOf := func(name string) int { return ptIndex(astPrec, name) }

	var sb strings.Builder
	sb.WriteString("/- GENERATED by `vtool gen-prectables` from ast/precedence.go, ast/expression.go, ast/operation.go,\n   parser/expression.go of the checkout under verification.  Do not edit. -/\nnamespace Verif.Gen.PrecTables\n\n")
	sb.WriteString("/-- the expressionPrecedence constants in iota order -/\ndef astPrecedences : List String := [")
	for i, n := range astPrec {
		if i > 0 {
			sb.WriteString(", ")
		}
		sb.WriteString(ptQ(strings.TrimPrefix(n, "expressionPrecedence")))
	}
	sb.WriteString("]\n\n/-- the TypePrecedence constants in iota order -/\ndef typePrecedences : List String := [")
	for i, n := range typePrec {
		if i > 0 {
			sb.WriteString(", ")
		}
		sb.WriteString(ptQ(strings.TrimPrefix(n, "TypePrecedence")))
	}
	sb.WriteString("]\n\n/-- the parser's exprLeftBindingPower constants in iota order (value = 10 * (index + 2)) -/\ndef parserPowers : List String := [")
	for i, n := range powers {
		if i > 0 {
			sb.WriteString(", ")
		}
		sb.WriteString(ptQ(strings.TrimPrefix(n, "exprLeftBindingPower")))
	}
	sb.WriteString("]\n\n")

	// binary table in canonical symbol order
	sb.WriteString("/-- per binary operator, in the model's BinOp order:\n    (symbol, AST precedence rank, AST left-associative, parser left binding power, parser right-associative) -/\n")
	sb.WriteString("def binTable : List (String × Nat × Bool × Nat × Bool) := [\n")
	for i, sym := range ptBinSymbols {
		op := symOp[sym]
		ap := precOf(binPrec[op])
		leftAssoc := !nonLeft[op]
		bp, right := 0, false
		found := false
		for _, d := range defs {
			if d.kind == "binaryExpr" && d.op == op {
				bp, right, found = powerOf(d.power), d.right, true
				if tokenSym[d.tok] != sym {
					return fmt.Errorf("binaryExpr for %s uses token %s", op, d.tok)
				}
			}
		}
		if !found {
			switch sym {
			case "<":
				bp = powerOf(lessPower)
			case ">":
				if gtPowers["Comparison"] {
					bp = powerOf("Comparison")
				}
			case ">>":
				if gtPowers["BitwiseShift"] {
					bp = powerOf("BitwiseShift")
				}
			}
		}
		if ap < 0 || bp == 0 {
			return fmt.Errorf("operator %s (%s): AST precedence %d, parser power %d", sym, op, ap, bp)
		}
		sep := ","
		if i == len(ptBinSymbols)-1 {
			sep = ""
		}
		fmt.Fprintf(&sb, "  (%s, %d, %v, %d, %v)%s\n", ptQ(sym), ap, leftAssoc, bp, right, sep)
	}
	sb.WriteString("]\n\n")

	// prefix operators
	unaryKind := func(kind string) []string {
		for _, k := range kinds {
			if k.kind == kind {
				return k.results
			}
		}
		return nil
	}
	unRes := unaryKind("UnaryExpression")
	sb.WriteString("/-- per prefix operator of UnaryExpression, in the model's UnOp order:\n    (symbol, AST precedence rank, parser binding power of the operand) -/\n")
	sb.WriteString("def unTable : List (String × Nat × Nat) := [\n")
	for i, sym := range ptUnSymbols {
		bp := 0
		for _, d := range defs {
			if (d.kind == "unaryExpr" || d.kind == "prefixExpr") && tokenSym[d.tok] == sym {
				bp = powerOf(d.power)
			}
		}
		// UnaryExpression.precedence(): `if e.Operation == OperationMove { return X }; return Y`
		ap := -1
		if len(unRes) == 1 {
			ap = precOf("expressionPrecedence" + unRes[0])
		} else if len(unRes) == 2 {
			if sym == "<-" {
				ap = precOf("expressionPrecedence" + unRes[0])
			} else {
				ap = precOf("expressionPrecedence" + unRes[1])
			}
		}
		if ap < 0 || bp == 0 {
			return fmt.Errorf("prefix operator %s: AST precedence %d (%v), parser power %d", sym, ap, unRes, bp)
		}
		sep := ","
		if i == len(ptUnSymbols)-1 {
			sep = ""
		}
		fmt.Fprintf(&sb, "  (%s, %d, %d)%s\n", ptQ(sym), ap, bp, sep)
	}
	sb.WriteString("]\n\n")

	// other expression kinds
	sb.WriteString("/-- precedence() of the other expression kinds: the returned constants in source order (more than\n    one: conditional results, e.g. negative literals, the move operator) -/\ndef kindPrecedences : List (String × List String) := [\n")
	for i, k := range kinds {
		qs := make([]string, len(k.results))
		for j, r := range k.results {
			qs[j] = ptQ(r)
		}
		sep := ","
		if i == len(kinds)-1 {
			sep = ""
		}
		fmt.Fprintf(&sb, "  (%s, [%s])%s\n", ptQ(k.kind), strings.Join(qs, ", "), sep)
	}
	sb.WriteString("]\n\n")

	// other parser binding powers
	sort.Slice(lbs, func(i, j int) bool { return lbs[i].tok < lbs[j].tok })
	sb.WriteString("/-- left binding powers set with setExprLeftBindingPower / setExprIdentifierLeftBindingPower, the postfix\n    and prefix definitions, and the powers used by the `<` meta left denotation -/\ndef otherPowers : List (String × Nat) := [\n")
	var rows []string
	for _, l := range lbs {
		rows = append(rows, fmt.Sprintf("  (%s, %d)", ptQ(l.tok), powerOf(l.power)))
	}
	for _, d := range defs {
		if d.kind == "postfixExpr" {
			rows = append(rows, fmt.Sprintf("  (%s, %d)", ptQ("postfix:"+d.tok), powerOf(d.power)))
		}
		if d.kind == "prefixExpr" && tokenSym[d.tok] == "&" {
			rows = append(rows, fmt.Sprintf("  (%s, %d)", ptQ("prefix:"+d.tok), powerOf(d.power)))
		}
	}
	rows = append(rows, fmt.Sprintf("  (%s, %d)", ptQ("less:binary"), powerOf(lessPower)))
	rows = append(rows, fmt.Sprintf("  (%s, %d)", ptQ("less:invocation"), powerOf(lessInvPower)))
	sb.WriteString(strings.Join(rows, ",\n"))
	sb.WriteString("\n]\n\nend Verif.Gen.PrecTables\n")
	return tx.WriteGen("PrecTables", sb.String())
}
