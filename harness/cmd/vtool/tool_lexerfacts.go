package main

// gen-lexerfacts (FX, property C37 / shared with C36): facts about the pooled lexer object and the
// constants the Lean port depends on, read from /repo's current sources with go/ast:
//   * the fields of `type lexer struct` (parser/lexer/lexer.go),
//   * the fields assigned in `func (l *lexer) clear()` with the assigned expression,
//   * the fields assigned in `func Lex(...)` after `l.clear()`,
//   * the names of the TokenType constants in iota order (parser/lexer/tokentype.go),
//   * tokenLimit, expressionDepthLimit, typeDepthLimit (evaluated with go/constant),
//   * the depth guards of the parser: for each limit, whether a comparison `p.<counter> == <limit>`
//     followed by a return of the corresponding ...DepthLimitReachedError exists.
// Output: lean/Verif/Gen/LexerFacts.lean (plain data; the obligations are `decide` theorems in
// Verif/Properties/C37.lean).

import (
	"fmt"
	"go/ast"
	"go/constant"
	"go/parser"
	"go/printer"
	"go/token"
	"path/filepath"
	"strings"

	"verif/harness/internal/tx"
)

func init() {
	tx.Register(&tx.Tool{Name: "gen-lexerfacts", Help: "lexer struct fields vs clear(), token type numbering, limits", Run: runLexerFacts})
}

func lfExpr(fset *token.FileSet, e ast.Expr) string {
	var sb strings.Builder
	_ = printer.Fprint(&sb, fset, e)
	return strings.Join(strings.Fields(sb.String()), " ")
}

func lfQuote(s string) string {
	s = strings.ReplaceAll(s, "\\", "\\\\")
	s = strings.ReplaceAll(s, "\"", "\\\"")
	return "\"" + s + "\""
}

// assignments `l.<field> = expr` directly in the body of fn (receiver/variable name recv)
func lfAssignments(fset *token.FileSet, body *ast.BlockStmt, recv string) [][2]string {
	var out [][2]string
	for _, st := range body.List {
		as, ok := st.(*ast.AssignStmt)
		if !ok {
			continue
		}
		for i, lhs := range as.Lhs {
			sel, ok := lhs.(*ast.SelectorExpr)
			if !ok {
				continue
			}
			id, ok := sel.X.(*ast.Ident)
			if !ok || id.Name != recv {
				continue
			}
			rhs := "?"
			if i < len(as.Rhs) {
				rhs = lfExpr(fset, as.Rhs[i])
			}
			out = append(out, [2]string{sel.Sel.Name, rhs})
		}
	}
	return out
}

func lfConstInt(f *ast.File, name string) (string, bool) {
	for _, d := range f.Decls {
		gd, ok := d.(*ast.GenDecl)
		if !ok || gd.Tok != token.CONST {
			continue
		}
		for _, sp := range gd.Specs {
			vs := sp.(*ast.ValueSpec)
			for i, n := range vs.Names {
				if n.Name != name || i >= len(vs.Values) {
					continue
				}
				v := lfEval(vs.Values[i])
				if v == nil {
					return "", false
				}
				return v.ExactString(), true
			}
		}
	}
	return "", false
}

func lfEval(e ast.Expr) constant.Value {
	switch x := e.(type) {
	case *ast.BasicLit:
		return constant.MakeFromLiteral(x.Value, x.Kind, 0)
	case *ast.ParenExpr:
		return lfEval(x.X)
	case *ast.BinaryExpr:
		a, b := lfEval(x.X), lfEval(x.Y)
		if a == nil || b == nil {
			return nil
		}
		if x.Op == token.SHL || x.Op == token.SHR {
			s, ok := constant.Uint64Val(b)
			if !ok {
				return nil
			}
			return constant.Shift(a, x.Op, uint(s))
		}
		return constant.BinaryOp(a, x.Op, b)
	}
	return nil
}

// does the file contain `if p.<counter> == <limit> { return ..., <errType>{...} }` ?
func lfDepthGuard(f *ast.File, counter, limit, errType string) bool {
	found := false
	ast.Inspect(f, func(n ast.Node) bool {
		is, ok := n.(*ast.IfStmt)
		if !ok {
			return true
		}
		be, ok := is.Cond.(*ast.BinaryExpr)
		if !ok || (be.Op != token.EQL && be.Op != token.GEQ) {
			return true
		}
		sel, ok := be.X.(*ast.SelectorExpr)
		lim, ok2 := be.Y.(*ast.Ident)
		if !ok || !ok2 || sel.Sel.Name != counter || lim.Name != limit {
			return true
		}
		ast.Inspect(is.Body, func(m ast.Node) bool {
			if rs, ok := m.(*ast.ReturnStmt); ok {
				for _, r := range rs.Results {
					if cl, ok := r.(*ast.CompositeLit); ok {
						if id, ok := cl.Type.(*ast.Ident); ok && id.Name == errType {
							found = true
						}
					}
				}
			}
			return true
		})
		return true
	})
	return found
}

// is `p.<counter>++` followed by a deferred / later `p.<counter>--` present in the function containing the guard?
func lfCounterBalanced(f *ast.File, counter string) bool {
	inc, dec := 0, 0
	ast.Inspect(f, func(n ast.Node) bool {
		if s, ok := n.(*ast.IncDecStmt); ok {
			if sel, ok := s.X.(*ast.SelectorExpr); ok && sel.Sel.Name == counter {
				if s.Tok == token.INC {
					inc++
				} else {
					dec++
				}
			}
		}
		return true
	})
	return inc >= 1 && inc == dec
}

func runLexerFacts(args []string) error {
	fset := token.NewFileSet()
	parse := func(rel string) (*ast.File, error) {
		return parser.ParseFile(fset, filepath.Join(tx.Repo(), rel), nil, 0)
	}
	lexerGo, err := parse("parser/lexer/lexer.go")
	if err != nil {
		return err
	}
	tokGo, err := parse("parser/lexer/tokentype.go")
	if err != nil {
		return err
	}
	parserGo, err := parse("parser/parser.go")
	if err != nil {
		return err
	}
	exprGo, err := parse("parser/expression.go")
	if err != nil {
		return err
	}
	typeGo, err := parse("parser/type.go")
	if err != nil {
		return err
	}

	var fields []string
	var clearAs, lexAs [][2]string
	clearFound := false
	for _, d := range lexerGo.Decls {
		switch x := d.(type) {
		case *ast.GenDecl:
			for _, sp := range x.Specs {
				ts, ok := sp.(*ast.TypeSpec)
				if !ok || ts.Name.Name != "lexer" {
					continue
				}
				st, ok := ts.Type.(*ast.StructType)
				if !ok {
					return fmt.Errorf("lexer is not a struct")
				}
				for _, f := range st.Fields.List {
					if len(f.Names) == 0 {
						fields = append(fields, "embedded:"+lfExpr(fset, f.Type))
					}
					for _, n := range f.Names {
						fields = append(fields, n.Name)
					}
				}
			}
		case *ast.FuncDecl:
			if x.Name.Name == "clear" && x.Recv != nil && len(x.Recv.List) == 1 && len(x.Recv.List[0].Names) == 1 {
				clearFound = true
				clearAs = lfAssignments(fset, x.Body, x.Recv.List[0].Names[0].Name)
			}
			if x.Name.Name == "Lex" && x.Recv == nil {
				lexAs = lfAssignments(fset, x.Body, "l")
			}
		}
	}
	if len(fields) == 0 || !clearFound {
		return fmt.Errorf("lexer struct or clear() not found in parser/lexer/lexer.go")
	}

	// TokenType constants in iota order: the const block whose first spec has type TokenType and value iota
	var tokNames []string
	for _, d := range tokGo.Decls {
		gd, ok := d.(*ast.GenDecl)
		if !ok || gd.Tok != token.CONST || len(gd.Specs) == 0 {
			continue
		}
		first := gd.Specs[0].(*ast.ValueSpec)
		if id, ok := first.Type.(*ast.Ident); !ok || id.Name != "TokenType" {
			continue
		}
		if len(first.Values) != 1 || lfExpr(fset, first.Values[0]) != "iota" {
			return fmt.Errorf("TokenType const block does not start with iota")
		}
		for i, sp := range gd.Specs {
			vs := sp.(*ast.ValueSpec)
			if i > 0 && (len(vs.Values) != 0 || vs.Type != nil) {
				return fmt.Errorf("TokenType const %v has an explicit value", vs.Names)
			}
			for _, n := range vs.Names {
				tokNames = append(tokNames, n.Name)
			}
		}
	}
	if len(tokNames) == 0 {
		return fmt.Errorf("TokenType const block not found")
	}

	tokenLimit, ok1 := lfConstInt(lexerGo, "tokenLimit")
	exprLimit, ok2 := lfConstInt(parserGo, "expressionDepthLimit")
	typeLimit, ok3 := lfConstInt(parserGo, "typeDepthLimit")
	if !ok1 || !ok2 || !ok3 {
		return fmt.Errorf("a limit constant could not be evaluated")
	}

	pairs := func(xs [][2]string) string {
		parts := make([]string, len(xs))
		for i, x := range xs {
			parts[i] = "(" + lfQuote(x[0]) + ", " + lfQuote(x[1]) + ")"
		}
		return "[" + strings.Join(parts, ",\n   ") + "]"
	}
	strs := func(xs []string) string {
		parts := make([]string, len(xs))
		for i, x := range xs {
			parts[i] = lfQuote(x)
		}
		return "[" + strings.Join(parts, ", ") + "]"
	}
	b := func(x bool) string {
		if x {
			return "true"
		}
		return "false"
	}

	var sb strings.Builder
	sb.WriteString("/-! GENERATED by `vtool gen-lexerfacts` from parser/lexer/lexer.go, tokentype.go, parser/parser.go,\n")
	sb.WriteString("parser/expression.go, parser/type.go of the checkout being verified.  Do not edit. -/\n")
	sb.WriteString("namespace Verif.Gen.LexerFacts\n\n")
	sb.WriteString("/-- fields of `type lexer struct`, in declaration order -/\n")
	sb.WriteString("def lexerFields : List String :=\n  " + strs(fields) + "\n\n")
	sb.WriteString("/-- `l.<field> = <expr>` statements of `func (l *lexer) clear()` -/\n")
	sb.WriteString("def clearAssignments : List (String × String) :=\n  " + pairs(clearAs) + "\n\n")
	sb.WriteString("/-- `l.<field> = <expr>` statements of `func Lex` -/\n")
	sb.WriteString("def lexAssignments : List (String × String) :=\n  " + pairs(lexAs) + "\n\n")
	sb.WriteString("/-- TokenType constants in iota order -/\n")
	sb.WriteString("def tokenTypeNames : List String :=\n  " + strs(tokNames) + "\n\n")
	sb.WriteString("def tokenLimit : Nat := " + tokenLimit + "\n")
	sb.WriteString("def expressionDepthLimit : Nat := " + exprLimit + "\n")
	sb.WriteString("def typeDepthLimit : Nat := " + typeLimit + "\n\n")
	sb.WriteString("/-- `if p.expressionDepth == expressionDepthLimit { return nil, ExpressionDepthLimitReachedError{...} }` exists in parser/expression.go -/\n")
	sb.WriteString("def expressionDepthGuardPresent : Bool := " + b(lfDepthGuard(exprGo, "expressionDepth", "expressionDepthLimit", "ExpressionDepthLimitReachedError")) + "\n")
	sb.WriteString("/-- `if p.typeDepth == typeDepthLimit { return nil, TypeDepthLimitReachedError{...} }` exists in parser/type.go -/\n")
	sb.WriteString("def typeDepthGuardPresent : Bool := " + b(lfDepthGuard(typeGo, "typeDepth", "typeDepthLimit", "TypeDepthLimitReachedError")) + "\n")
	sb.WriteString("/-- every `p.expressionDepth++` has a matching `p.expressionDepth--` (same count) in parser/expression.go -/\n")
	sb.WriteString("def expressionDepthBalanced : Bool := " + b(lfCounterBalanced(exprGo, "expressionDepth")) + "\n")
	sb.WriteString("def typeDepthBalanced : Bool := " + b(lfCounterBalanced(typeGo, "typeDepth")) + "\n\n")
	sb.WriteString("end Verif.Gen.LexerFacts\n")
	return tx.WriteGen("LexerFacts", sb.String())
}
