// vtool: translators and fact extractors (see internal/tx).
package main

import "verif/harness/internal/tx"

func main() { tx.Main() }
