package main

import (
	"fmt"
	"os"
	"strings"

	"verif/harness/internal/cdc"
)

// usage: zz_l2probe file ; file = sections separated by a line "----"; a section starting with "//script" is a script
func main() {
	b, _ := os.ReadFile(os.Args[1])
	secs := strings.Split(string(b), "\n----\n")
	for _, vm := range []bool{false, true} {
		fmt.Println("== vm", vm)
		e := cdc.NewEnv()
		for i, s := range secs {
			var o *cdc.Outcome
			if strings.Contains(s, "transaction") {
				o = e.Tx(s, nil, vm)
			} else {
				o = e.Script(s, nil, vm)
			}
			msg := cdc.ErrString(o.Err)
			if len(msg) > 600 {
				msg = msg[:600]
			}
			fmt.Printf("[%d] class=%s kind=%s value=%v logs=%v events=%d\n    %s\n", i, o.Class, o.Kind, o.Value, o.Logs, len(o.Events), strings.ReplaceAll(msg, "\n", "\n    "))
		}
	}
}
