module verif/harness

go 1.25

require (
	github.com/onflow/atree v0.16.1
	github.com/onflow/cadence v0.0.0
	github.com/onflow/fixed-point v0.1.1
	go.opentelemetry.io/otel v1.38.0
	golang.org/x/tools v0.39.0
)

require (
	github.com/SaveTheRbtz/mph v0.1.1-0.20240117162131-4166ec7869bc // indirect
	github.com/bits-and-blooms/bitset v1.24.4 // indirect
	github.com/davecgh/go-spew v1.1.1 // indirect
	github.com/fxamacker/cbor/v2 v2.9.2-0.20260331174317-a78e92ec038e // indirect
	github.com/fxamacker/circlehash v0.3.0 // indirect
	github.com/google/pprof v0.0.0-20250630185457-6e76a2b096b5 // indirect
	github.com/k0kubun/pp/v3 v3.5.0 // indirect
	github.com/klauspost/cpuid/v2 v2.2.0 // indirect
	github.com/kr/pretty v0.3.1 // indirect
	github.com/kr/text v0.2.0 // indirect
	github.com/logrusorgru/aurora/v4 v4.0.0 // indirect
	github.com/mattn/go-colorable v0.1.14 // indirect
	github.com/mattn/go-isatty v0.0.20 // indirect
	github.com/pmezard/go-difflib v1.0.0 // indirect
	github.com/rivo/uniseg v0.4.7 // indirect
	github.com/rogpeppe/go-internal v1.9.0 // indirect
	github.com/stretchr/testify v1.11.1 // indirect
	github.com/texttheater/golang-levenshtein/levenshtein v0.0.0-20200805054039-cae8b0eaed6c // indirect
	github.com/turbolent/prettier v0.0.0-20220320183459-661cc755135d // indirect
	github.com/x448/float16 v0.8.4 // indirect
	github.com/zeebo/blake3 v0.2.4 // indirect
	golang.org/x/exp v0.0.0-20240103183307-be819d1f06fc // indirect
	golang.org/x/mod v0.30.0 // indirect
	golang.org/x/sync v0.18.0 // indirect
	golang.org/x/sys v0.38.0 // indirect
	golang.org/x/text v0.31.0 // indirect
	golang.org/x/xerrors v0.0.0-20240903120638-7835f813f4da // indirect
	gopkg.in/yaml.v3 v3.0.1 // indirect
)

replace github.com/onflow/cadence => /repo
