#!/bin/bash
# usage: tools/seeded.sh <seeded-id> [tier]    (seeded/<id>/patch.diff, meta.json with "property")
# Applies the seeded change to a scratch worktree of /repo, runs the property's check against it
# (VERIF_REPO), prints the verdict and removes the worktree.
set -u
id=$1; tier=${2:-quick}
dir=/verif/seeded/$id
prop=$(python3 -c "import json;print(json.load(open('$dir/meta.json'))['property'])")
wt=/tmp/seeded_wt_$id
git -C /repo worktree remove --force $wt 2>/dev/null
git -C /repo worktree add -q --detach $wt HEAD || exit 2
( cd $wt && git apply $dir/patch.diff ) || { echo "patch does not apply"; git -C /repo worktree remove --force $wt; exit 2; }
cd /verif && VERIF_REPO=$wt ./check $prop --tier $tier; rc=$?
echo "seeded=$id property=$prop tier=$tier exit=$rc"
git -C /repo worktree remove --force $wt
rm -rf /verif/.build/alt-tmp_seeded_wt_${id//-/_}
exit $rc
