import json,sys
pid=sys.argv[1]; extra=" ".join(sys.argv[2:])
for l in open('/verif/properties.jsonl'):
    p=json.loads(l)
    if p['id']==pid:
        print(f"Read /tmp/tools/MUTATOR.md and follow it exactly. Your scratch worktree: /tmp/mut_{pid} (a clean checkout of onflow/cadence). Output directory: /tmp/mut_{pid}_out/.\n\nThe property to break (title, statement, quantifier):\n\n\"{p['title']}. {p['statement']} — Over: {p['quantifier']['text']}\"\n\nRelevant code: {', '.join(p['anchors']['files'])}. {extra}")
