#!/bin/bash
# usage: sweep.sh <seed> <logfile>
cd /verif
for p in $(python3 -c "import json;print(' '.join(c['property_id'] for c in json.load(open('MANIFEST.json'))['checks']))"); do
  VERIF_SEED=$1 timeout 1800 ./check $p --tier quick 2>&1 | grep -E "^\[C|^VIOLATION|^KNOWN" | cut -c1-200 >> $2
done
echo DONE >> $2
