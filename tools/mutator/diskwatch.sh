#!/bin/bash
# trims the Go build cache when the disk fills up (many agents run full test suites)
while true; do
  use=$(df --output=pcent / | tail -1 | tr -dc '0-9')
  if [ "$use" -gt 75 ]; then
    find /root/.cache/go-build -type f -mmin +90 -delete 2>/dev/null
  fi
  if [ "$use" -gt 88 ]; then
    find /root/.cache/go-build -type f -mmin +30 -delete 2>/dev/null
  fi
  sleep 300
done
