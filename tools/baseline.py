#!/usr/bin/env python3
"""Run the repository's own test suite (guard off) in a checkout and compare with /root/.vp/BASELINE.json.
usage: tools/baseline.py [repo-dir]   -> exit 0 when every stable_pass test passes."""
import json, os, subprocess, sys
repo = sys.argv[1] if len(sys.argv) > 1 else "/repo"
base = json.load(open("/root/.vp/BASELINE.json"))
env = dict(os.environ, GOFLAGS="-mod=mod", GOPROXY="off")
p = subprocess.run(["go", "test", "-json", "-vet=off", "-count=1", "-timeout", "25m", "./..."], cwd=repo, env=env,
                   stdout=subprocess.PIPE, stderr=subprocess.PIPE, text=True)
res = {}
for line in p.stdout.splitlines():
    try:
        e = json.loads(line)
    except ValueError:
        continue
    if e.get("Test") and e.get("Action") in ("pass", "fail", "skip"):
        res[e["Package"] + "::" + e["Test"]] = e["Action"]
failed = sorted(k for k, v in res.items() if v == "fail")
missing = [t for t in base["stable_pass"] if res.get(t) != "pass"]
print(f"ran {len(res)} tests: {sum(v=='pass' for v in res.values())} passed, {len(failed)} failed; "
      f"stable_pass not passing: {len(missing)}")
for t in (failed + [m for m in missing if m not in failed])[:40]:
    print("  ", t, res.get(t, "not-run"))
if p.returncode != 0 and not failed:
    print(p.stderr[-3000:])
sys.exit(1 if missing else 0)
