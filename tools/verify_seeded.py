#!/usr/bin/env python3
"""Confirm a seeded change and run our check against it.
usage: tools/verify_seeded.py <seeded-id> [--no-baseline] [--tier quick]
seeded/<id>/meta.json: {"property": "Cxx", "demo": [{"file": ..., "dest": "pkg/dir/", "run": "go test ..."}], ...}
Steps (scratch worktree of /repo HEAD): demo passes on the clean tree; patch applies; go build ./...; demo fails
with the patch; the repository's baseline suite still passes; then ./check <property> with VERIF_REPO=<worktree>.
Writes the outcome into meta.json under "confirmed" and "check"."""
import json, os, shutil, subprocess, sys, time
sid = sys.argv[1]
no_base = "--no-baseline" in sys.argv
tier = sys.argv[sys.argv.index("--tier") + 1] if "--tier" in sys.argv else "quick"
d = f"/verif/seeded/{sid}"
meta = json.load(open(f"{d}/meta.json"))
wt = f"/tmp/seeded_wt_{sid}"
env = dict(os.environ, GOFLAGS="-mod=mod", GOPROXY="off")
def sh(cmd, cwd=wt, timeout=3000, e=env):
    p = subprocess.run(cmd, shell=True, cwd=cwd, env=e, stdout=subprocess.PIPE, stderr=subprocess.STDOUT, text=True, timeout=timeout)
    return p.returncode, p.stdout
subprocess.run(f"git -C /repo worktree remove --force {wt}", shell=True, stderr=subprocess.DEVNULL)
assert sh(f"git -C /repo worktree add -q --detach {wt} HEAD", cwd="/")[0] == 0
res = {"repo_head": sh("git rev-parse --short HEAD")[1].strip(), "at": time.strftime("%Y-%m-%dT%H:%M:%SZ", time.gmtime())}
try:
    for dm in meta["demo"]:
        os.makedirs(os.path.join(wt, dm["dest"]), exist_ok=True)
        shutil.copy(f"{d}/{dm['file']}", os.path.join(wt, dm["dest"], dm["file"]))
    res["demo_clean_pass"] = all(sh("timeout 900 " + dm["run"])[0] == 0 for dm in meta["demo"])
    rc, out = sh(f"git apply {d}/patch.diff")
    res["patch_applies"] = rc == 0
    if rc != 0:
        print(out)
    res["builds"] = sh("go build ./...")[0] == 0
    outs = [sh("timeout 900 " + dm["run"]) for dm in meta["demo"]]
    res["demo_patched_fails"] = any(rc != 0 for rc, _ in outs)
    for dm in meta["demo"]:
        os.remove(os.path.join(wt, dm["dest"], dm["file"]))
    if not no_base:
        rc, out = sh(f"python3 /verif/tools/baseline.py {wt}")
        res["baseline_passes"] = rc == 0
        res["baseline_summary"] = out.strip().splitlines()[0] if out.strip() else ""
    e2 = dict(env, VERIF_REPO=wt)
    rc, out = sh(f"./check {meta['property']} --tier {tier}", cwd="/verif", e=e2, timeout=7200)
    lines = [l for l in out.splitlines() if l.startswith("VIOLATION") or l.startswith("[") or l.startswith("KNOWN")]
    replay = ""
    for l in lines:
        if l.startswith("VIOLATION") and "replay=" in l:
            path = l.split("replay=")[1].split()[0]
            try:
                replay = open(path).read()[:1500]
            except OSError:
                pass
            break
    meta["check"] = {"tier": tier, "exit": rc, "detected": rc == 1, "lines": [l[:400] for l in lines][:6], "replay_excerpt": replay}
    meta["confirmed"] = res
finally:
    subprocess.run(f"git -C /repo worktree remove --force {wt}", shell=True)
    shutil.rmtree("/verif/.build/alt-tmp_seeded_wt_" + sid.replace("-", "_"), ignore_errors=True)
json.dump(meta, open(f"{d}/meta.json", "w"), indent=1)
print(sid, json.dumps(res), "detected=" + str(meta["check"]["detected"]), meta["check"]["lines"][:2])
