#!/bin/bash
# runs tools/verify_seeded.py for every seeded/<id> whose meta.json has no "check" yet; one at a time
cd /verif
while true; do
  next=""
  for d in seeded/*/; do id=$(basename $d); if ! grep -q '"check"' $d/meta.json 2>/dev/null; then next=$id; break; fi; done
  [ -z "$next" ] && { sleep 60; continue; }
  python3 tools/verify_seeded.py $next 2>&1 | tail -1 >> /tmp/seeded_queue.log
  grep -q '"check"' seeded/$next/meta.json || echo "{\"id\":\"$next\",\"error\":\"verify failed\"}" >> /tmp/seeded_queue.log
  grep -q '"check"' seeded/$next/meta.json || python3 - $next <<'PY'
import json,sys
p=f"/verif/seeded/{sys.argv[1]}/meta.json"; m=json.load(open(p)); m["check"]={"error":"verification script failed","detected":False}; json.dump(m,open(p,"w"),indent=1)
PY
done
