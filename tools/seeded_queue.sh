#!/bin/bash
# worker: runs tools/verify_seeded.py for every seeded/<id> whose meta.json has no "check" yet
# (an id is claimed by creating /tmp/seeded_locks/<id>)
cd /verif
mkdir -p /tmp/seeded_locks
while true; do
  next=""
  for d in seeded/*/; do
    id=$(basename $d)
    if ! grep -q '"check"' $d/meta.json 2>/dev/null && mkdir /tmp/seeded_locks/$id 2>/dev/null; then next=$id; break; fi
  done
  if [ -z "$next" ]; then sleep 60; continue; fi
  python3 tools/verify_seeded.py $next 2>&1 | tail -1 >> /tmp/seeded_queue.log
  if ! grep -q '"check"' seeded/$next/meta.json; then
    python3 - $next <<'PY'
import json,sys
p=f"/verif/seeded/{sys.argv[1]}/meta.json"; m=json.load(open(p)); m["check"]={"error":"verification script failed","detected":False}; json.dump(m,open(p,"w"),indent=1)
PY
  fi
done
