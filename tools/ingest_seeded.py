#!/usr/bin/env python3
"""usage: tools/ingest_seeded.py Cxx   -- copies /tmp/mut_Cxx_out/{1,2} into /verif/seeded/Cxx-{1,2}/ with a meta.json,
removes the mutator's worktree and output directory."""
import glob, json, os, re, shutil, subprocess, sys
pid = sys.argv[1]
for n in ("1", "2", "3"):
    src = f"/tmp/mut_{pid}_out/{n}"
    if not os.path.isdir(src) or not os.path.exists(f"{src}/patch.diff"):
        continue
    sid = f"{pid}-{n}"
    dst = f"/verif/seeded/{sid}"
    os.makedirs(dst, exist_ok=True)
    for f in os.listdir(src):
        if os.path.isfile(f"{src}/{f}") and os.path.getsize(f"{src}/{f}") < 2_000_000:
            shutil.copy(f"{src}/{f}", dst)
    demos = []
    for f in sorted(glob.glob(f"{dst}/*_test.go")):
        txt = open(f).read()
        if re.search(r"//go:build.*verif", txt):
            continue
        head = txt[:3000]
        base = os.path.basename(f)
        m = re.search(r"([A-Za-z0-9_./-]+/)" + re.escape(base), head) or re.search(r"(?:at|in|into|under)\s+`?([A-Za-z0-9_/]+/)`?", head)
        dest = None
        if m:
            dest = m.group(1).lstrip("./")
        else:
            m2 = re.search(r"go test[^\n]*?\./([A-Za-z0-9_/]+)", head)
            if m2:
                dest = m2.group(1).rstrip("/") + "/"
        if not dest:
            pk = re.search(r"^package (\w+)", txt, re.M).group(1).replace("_test", "")
            dest = {"runtime": "runtime/", "interpreter": "interpreter/", "sema": "sema/", "parser": "parser/", "stdlib": "stdlib/"}.get(pk, pk + "/")
        dest = dest.replace("<worktree>/", "")
        tests = re.findall(r"^func (Test\w+)\(", txt, re.M)
        pat = "|".join(sorted(set(tests))) or "TestSeeded"
        demos.append({"file": base, "dest": dest, "run": f"go test -count=1 -run '^({pat})$' ./{dest}"})
    json.dump({"id": sid, "property": pid, "demo": demos, "needs_to_manifest": "see notes.md",
               "source": "fresh sub-agent given only the property text and a scratch worktree"},
              open(f"{dst}/meta.json", "w"), indent=1)
    print(sid, demos)
subprocess.run(f"git -C /repo worktree remove --force /tmp/mut_{pid}", shell=True)
shutil.rmtree(f"/tmp/mut_{pid}_out", ignore_errors=True)
