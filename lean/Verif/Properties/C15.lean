/-
C15 — Fixed-point arithmetic is exact at the type's scale (64-bit types).

For Fix64 (interpreter/value_fix64.go) and UFix64 (values/value_ufix64.go behind
interpreter/value_ufix64.go) and `+ − * /`: the *generated* definition `Verif.Gen.NumFix.<T>Value.<Op>`
(regenerated on every run by `vtool gen-numfix`, the translator of C11 run over these files) equals
`Verif.Spec.FixArith.specFix` on all operands of the type: the exact rational result truncated toward
zero to a multiple of 10^-8, overflow / underflow exactly when that result is out of range, division by
zero for a zero divisor — never a wrapped value, never a Go run-time panic.  Values are represented by
their raw scaled integers.

NOT PROVED (stream `fix` only): `%` —
  C15_fix64_mod  : ∀ a b in range, Fix64Value.Mod a b = specFixMod .fix64 a b
  C15_ufix64_mod : ∀ a b in range, UFix64Value.Mod a b = specFixMod .ufix64 a b
(the generated definition goes through the checked Div, a truncation, the checked Mul and the checked
Minus; the statement needs `tdiv (tdiv (a·s) b) s = tdiv a b` and the absence of intermediate overflow).
Fix128 / UFix128 and multiplyDivide delegate to the external library onflow/fixed-point: no model here;
the stream compares them with the same specification at scale 10^24.
-/
import Verif.Proofs.FixArith
set_option linter.unusedVariables false
namespace Verif.Properties.C15
open Verif.Model.Num Verif.Spec.Arith Verif.Spec.FixArith Verif.Gen.NumFix Verif.Proofs.Arith Verif.Proofs.FixArith

/-! ### Fix64 -/

theorem C15_fix64_add (a b : Int) (ha : inRange (.int 64) a) (hb : inRange (.int 64) b) :
    Fix64Value.Plus a b = specFix .fix64 .add a b := by
  unfold Fix64Value.Plus; fix_arith

theorem C15_fix64_sub (a b : Int) (ha : inRange (.int 64) a) (hb : inRange (.int 64) b) :
    Fix64Value.Minus a b = specFix .fix64 .sub a b := by
  unfold Fix64Value.Minus; fix_arith

theorem C15_fix64_mul (a b : Int) (ha : inRange (.int 64) a) (hb : inRange (.int 64) b) :
    Fix64Value.Mul a b = specFix .fix64 .mul a b := by
  unfold Fix64Value.Mul
  fix_unfold
  generalize Int.tdiv (a * b) 100000000 = q
  (repeat' split) <;> first | rfl | omega | (rw [int64_of q (by omega) (by omega)])

theorem C15_fix64_div (a b : Int) (ha : inRange (.int 64) a) (hb : inRange (.int 64) b) :
    Fix64Value.Div a b = specFix .fix64 .div a b := by
  unfold Fix64Value.Div
  fix_unfold
  generalize Int.tdiv (a * 100000000) b = q
  (repeat' split) <;> first | rfl | omega | (rw [int64_of q (by omega) (by omega)])

theorem C15_fix64_neg (a : Int) (ha : inRange (.int 64) a) :
    Fix64Value.Negate a = specNeg (.int 64) a := by
  unfold Fix64Value.Negate; num_arith

/-! ### UFix64 -/

theorem C15_ufix64_add (a b : Int) (ha : inRange (.uint 64) a) (hb : inRange (.uint 64) b) :
    UFix64Value.Plus a b = specFix .ufix64 .add a b := by
  unfold UFix64Value.Plus; fix_arith

theorem C15_ufix64_sub (a b : Int) (ha : inRange (.uint 64) a) (hb : inRange (.uint 64) b) :
    UFix64Value.Minus a b = specFix .ufix64 .sub a b := by
  unfold UFix64Value.Minus; fix_arith

theorem C15_ufix64_mul (a b : Int) (ha : inRange (.uint 64) a) (hb : inRange (.uint 64) b) :
    UFix64Value.Mul a b = specFix .ufix64 .mul a b := by
  unfold UFix64Value.Mul
  have hq : 0 ≤ Int.tdiv (a * b) 100000000 := Int.tdiv_nonneg (Int.mul_nonneg ha.1 hb.1) (by decide)
  fix_unfold
  generalize Int.tdiv (a * b) 100000000 = q at *
  simp only [isUint64_iff]
  (repeat' split) <;> first | rfl | omega | (rw [uint64_of q (by omega) (by omega)])

theorem C15_ufix64_div (a b : Int) (ha : inRange (.uint 64) a) (hb : inRange (.uint 64) b) :
    UFix64Value.Div a b = specFix .ufix64 .div a b := by
  unfold UFix64Value.Div
  have hq : 0 ≤ Int.tdiv (a * 100000000) b := Int.tdiv_nonneg (Int.mul_nonneg ha.1 (by decide)) hb.1
  fix_unfold
  generalize Int.tdiv (a * 100000000) b = q at *
  simp only [isUint64_iff]
  (repeat' split) <;> first | rfl | omega | (rw [uint64_of q (by omega) (by omega)])

/-! ### The spec: `exactRaw` really is truncation toward zero of the exact rational -/

/-- the raw product `q = tdiv (a·b) s` is the multiple of `1/s` nearest to `ab/s²` in the direction of
    zero: `q·s` lies between 0 and `a·b`, less than `s` away from it -/
theorem C15_mul_is_truncation (s a b : Int) (hs : 0 < s) :
    let q := exactRaw s .mul a b
    (0 ≤ a * b → q * s ≤ a * b ∧ a * b < q * s + s) ∧ (a * b ≤ 0 → a * b ≤ q * s ∧ q * s - s < a * b) := by
  intro q
  have e := Int.mul_tdiv_add_tmod (a * b) s
  have f := tmod_facts (a * b) s
  have l1 := Int.tmod_lt_of_pos (a * b) hs
  have l2 := Int.lt_tmod_of_pos (a * b) hs
  have c : q * s = s * Int.tdiv (a * b) s := Int.mul_comm _ _
  constructor <;> intro h <;> constructor <;> omega

/-- likewise the quotient `q = tdiv (a·s) b` for a positive divisor: `q·b` is within `b` of `a·s` -/
theorem C15_div_is_truncation (s a b : Int) (hb : 0 < b) :
    let q := exactRaw s .div a b
    (0 ≤ a * s → q * b ≤ a * s ∧ a * s < q * b + b) ∧ (a * s ≤ 0 → a * s ≤ q * b ∧ q * b - b < a * s) := by
  intro q
  have e := Int.mul_tdiv_add_tmod (a * s) b
  have f := tmod_facts (a * s) b
  have l1 := Int.tmod_lt_of_pos (a * s) hb
  have l2 := Int.lt_tmod_of_pos (a * s) hb
  have c : q * b = b * Int.tdiv (a * s) b := Int.mul_comm _ _
  constructor <;> intro h <;> constructor <;> omega

/-- the specification fails only with overflow, underflow or division by zero, the latter exactly for a
    zero divisor -/
theorem C15_spec_errors (T : FTy) (op : Op) (a b : Int) (e : NumErr) (h : specFix T op a b = .error e) :
    (e = .divZero ∧ b = 0 ∧ op.divides = true) ∨ ((e = .overflow ∨ e = .underflow) ∧ ¬ inRange T.raw (exactRaw T.scale op a b)) := by
  unfold specFix at h
  split at h
  · rename_i hc; cases h; exact Or.inl ⟨rfl, hc.2, hc.1⟩
  · right
    cases T <;> simp only [classify, inRange] at * <;> (repeat' split at h) <;> cases h <;>
      first | exact ⟨Or.inl rfl, by omega⟩ | exact ⟨Or.inr rfl, by omega⟩

/-! ### Non-vacuity -/

example : Fix64Value.Mul 150000000 150000000 = .ok 225000000 ∧ Fix64Value.Mul 1 1 = .ok 0 ∧ Fix64Value.Mul (-1) 99999999 = .ok 0 := by decide
example : Fix64Value.Div 100000000 300000000 = .ok 33333333 ∧ Fix64Value.Div (-100000000) 300000000 = .ok (-33333333) := by decide
example : Fix64Value.Mul 9223372036854775807 200000000 = .error .overflow ∧ Fix64Value.Mul (-9223372036854775808) 200000000 = .error .underflow := by decide
example : Fix64Value.Div (-9223372036854775808) (-100000000) = .error .overflow ∧ Fix64Value.Div 5 0 = .error .divZero := by decide
example : UFix64Value.Minus 1 2 = .error .underflow ∧ UFix64Value.Div 18446744073709551615 1 = .error .overflow := by decide
example : inRange (.uint 64) 18446744073709551615 ∧ UFix64Value.Mul 18446744073709551615 100000000 = .ok 18446744073709551615 := by decide

end Verif.Properties.C15
