/-
C15 — Fixed-point arithmetic is exact at the type's scale (64-bit types).

For Fix64 (interpreter/value_fix64.go) and UFix64 (values/value_ufix64.go behind
interpreter/value_ufix64.go) and `+ − * /`: the *generated* definition `Verif.Gen.NumFix.<T>Value.<Op>`
(regenerated on every run by `vtool gen-numfix`, the translator of C11 run over these files) equals
`Verif.Spec.FixArith.specFix` on all operands of the type: the exact rational result truncated toward
zero to a multiple of 10^-8, overflow / underflow exactly when that result is out of range, division by
zero for a zero divisor — never a wrapped value, never a Go run-time panic.  Values are represented by
their raw scaled integers.

NOT PROVED (stream `fix` only): `%` —
  C15_fix64_mod  : ∀ a b in range, Fix64Value.Mod a b = specFixMod .fix64 a b
  C15_ufix64_mod : ∀ a b in range, UFix64Value.Mod a b = specFixMod .ufix64 a b
(the generated definition goes through the checked Div, a truncation, the checked Mul and the checked
Minus; the statement needs `tdiv (tdiv (a·s) b) s = tdiv a b` and the absence of intermediate overflow).
Fix128 / UFix128 and multiplyDivide (all four types) delegate to the external library onflow/fixed-point: no
model here; the stream compares them with the same specification at scale 10^24, multiplyDivide with
`specMulDiv` (exact `a·b/c` rounded by the requested rule) — the `C15_roundDiv_*` / `C15_mulDiv_spec`
theorems below are about that specification only.
-/
import Verif.Proofs.FixArith
set_option linter.unusedVariables false
namespace Verif.Properties.C15
open Verif.Model.Num Verif.Spec.Arith Verif.Spec.FixArith Verif.Gen.NumFix Verif.Proofs.Arith Verif.Proofs.FixArith

/-! ### Fix64 -/

theorem C15_fix64_add (a b : Int) (ha : inRange (.int 64) a) (hb : inRange (.int 64) b) :
    Fix64Value.Plus a b = specFix .fix64 .add a b := by
  unfold Fix64Value.Plus; fix_arith

theorem C15_fix64_sub (a b : Int) (ha : inRange (.int 64) a) (hb : inRange (.int 64) b) :
    Fix64Value.Minus a b = specFix .fix64 .sub a b := by
  unfold Fix64Value.Minus; fix_arith

theorem C15_fix64_mul (a b : Int) (ha : inRange (.int 64) a) (hb : inRange (.int 64) b) :
    Fix64Value.Mul a b = specFix .fix64 .mul a b := by
  unfold Fix64Value.Mul
  fix_unfold
  generalize Int.tdiv (a * b) 100000000 = q
  (repeat' split) <;> first | rfl | omega | (rw [int64_of q (by omega) (by omega)])

theorem C15_fix64_div (a b : Int) (ha : inRange (.int 64) a) (hb : inRange (.int 64) b) :
    Fix64Value.Div a b = specFix .fix64 .div a b := by
  unfold Fix64Value.Div
  fix_unfold
  generalize Int.tdiv (a * 100000000) b = q
  (repeat' split) <;> first | rfl | omega | (rw [int64_of q (by omega) (by omega)])

theorem C15_fix64_neg (a : Int) (ha : inRange (.int 64) a) :
    Fix64Value.Negate a = specNeg (.int 64) a := by
  unfold Fix64Value.Negate; num_arith

/-! ### UFix64 -/

theorem C15_ufix64_add (a b : Int) (ha : inRange (.uint 64) a) (hb : inRange (.uint 64) b) :
    UFix64Value.Plus a b = specFix .ufix64 .add a b := by
  unfold UFix64Value.Plus; fix_arith

theorem C15_ufix64_sub (a b : Int) (ha : inRange (.uint 64) a) (hb : inRange (.uint 64) b) :
    UFix64Value.Minus a b = specFix .ufix64 .sub a b := by
  unfold UFix64Value.Minus; fix_arith

theorem C15_ufix64_mul (a b : Int) (ha : inRange (.uint 64) a) (hb : inRange (.uint 64) b) :
    UFix64Value.Mul a b = specFix .ufix64 .mul a b := by
  unfold UFix64Value.Mul
  have hq : 0 ≤ Int.tdiv (a * b) 100000000 := Int.tdiv_nonneg (Int.mul_nonneg ha.1 hb.1) (by decide)
  fix_unfold
  generalize Int.tdiv (a * b) 100000000 = q at *
  simp only [isUint64_iff]
  (repeat' split) <;> first | rfl | omega | (rw [uint64_of q (by omega) (by omega)])

theorem C15_ufix64_div (a b : Int) (ha : inRange (.uint 64) a) (hb : inRange (.uint 64) b) :
    UFix64Value.Div a b = specFix .ufix64 .div a b := by
  unfold UFix64Value.Div
  have hq : 0 ≤ Int.tdiv (a * 100000000) b := Int.tdiv_nonneg (Int.mul_nonneg ha.1 (by decide)) hb.1
  fix_unfold
  generalize Int.tdiv (a * 100000000) b = q at *
  simp only [isUint64_iff]
  (repeat' split) <;> first | rfl | omega | (rw [uint64_of q (by omega) (by omega)])

/-! ### The spec: `exactRaw` really is truncation toward zero of the exact rational -/

/-- the raw product `q = tdiv (a·b) s` is the multiple of `1/s` nearest to `ab/s²` in the direction of
    zero: `q·s` lies between 0 and `a·b`, less than `s` away from it -/
theorem C15_mul_is_truncation (s a b : Int) (hs : 0 < s) :
    let q := exactRaw s .mul a b
    (0 ≤ a * b → q * s ≤ a * b ∧ a * b < q * s + s) ∧ (a * b ≤ 0 → a * b ≤ q * s ∧ q * s - s < a * b) := by
  intro q
  have e := Int.mul_tdiv_add_tmod (a * b) s
  have f := tmod_facts (a * b) s
  have l1 := Int.tmod_lt_of_pos (a * b) hs
  have l2 := Int.lt_tmod_of_pos (a * b) hs
  have c : q * s = s * Int.tdiv (a * b) s := Int.mul_comm _ _
  constructor <;> intro h <;> constructor <;> omega

/-- likewise the quotient `q = tdiv (a·s) b` for a positive divisor: `q·b` is within `b` of `a·s` -/
theorem C15_div_is_truncation (s a b : Int) (hb : 0 < b) :
    let q := exactRaw s .div a b
    (0 ≤ a * s → q * b ≤ a * s ∧ a * s < q * b + b) ∧ (a * s ≤ 0 → a * s ≤ q * b ∧ q * b - b < a * s) := by
  intro q
  have e := Int.mul_tdiv_add_tmod (a * s) b
  have f := tmod_facts (a * s) b
  have l1 := Int.tmod_lt_of_pos (a * s) hb
  have l2 := Int.lt_tmod_of_pos (a * s) hb
  have c : q * b = b * Int.tdiv (a * s) b := Int.mul_comm _ _
  constructor <;> intro h <;> constructor <;> omega

/-- the specification fails only with overflow, underflow or division by zero, the latter exactly for a
    zero divisor -/
theorem C15_spec_errors (T : FTy) (op : Op) (a b : Int) (e : NumErr) (h : specFix T op a b = .error e) :
    (e = .divZero ∧ b = 0 ∧ op.divides = true) ∨ ((e = .overflow ∨ e = .underflow) ∧ ¬ inRange T.raw (exactRaw T.scale op a b)) := by
  unfold specFix at h
  split at h
  · rename_i hc; cases h; exact Or.inl ⟨rfl, hc.2, hc.1⟩
  · right
    cases T <;> simp only [classify, inRange] at * <;> (repeat' split at h) <;> cases h <;>
      first | exact ⟨Or.inl rfl, by omega⟩ | exact ⟨Or.inr rfl, by omega⟩

/-! ### `multiplyDivide`: the specification's rounding (`specMulDiv` / `roundDiv`)

The computation itself is the external library's (`FMD`), compared with `specMulDiv` by the `fix` stream;
these theorems are about the specification: each rule is what its name says. -/

/-- `multiplyDivide`: when the divisor divides the numerator every rounding rule returns the exact quotient -/
theorem C15_roundDiv_exact (r : Rounding) (n d : Int) (hd : d ≠ 0) (h : Int.tmod n d = 0) :
    roundDiv r n d * d = n := by
  have ⟨e, _, _, _, c⟩ := roundDiv_cases r n d hd
  rcases c with c | c | c
  · rw [c]; omega
  · exact absurd h c.1
  · exact absurd h c.1

/-- every rule returns the truncated quotient or its neighbour away from zero: strictly less than one unit
    from the exact value `n/d` -/
theorem C15_roundDiv_within_unit (r : Rounding) (n d : Int) (hd : d ≠ 0) :
    (roundDiv r n d * d - n).natAbs < d.natAbs := by
  have ⟨e, l, s1, s2, c⟩ := roundDiv_cases r n d hd
  rcases c with c | ⟨hr, sg, c⟩ | ⟨hr, sg, c⟩ <;> rw [c]
  · omega
  · rw [Int.add_mul]; omega
  · rw [Int.sub_mul]; omega

/-- `towardZero`: magnitude at most that of the exact value, same sign -/
theorem C15_roundDiv_towardZero (n d : Int) (hd : d ≠ 0) :
    (roundDiv .towardZero n d * d).natAbs ≤ n.natAbs ∧ (0 ≤ n → 0 ≤ roundDiv .towardZero n d * d) ∧
    (n ≤ 0 → roundDiv .towardZero n d * d ≤ 0) := by
  have ⟨e, l, s1, s2, _⟩ := roundDiv_cases .towardZero n d hd
  have c : roundDiv .towardZero n d = Int.tdiv n d := by
    simp only [roundDiv]; split <;> rfl
  have f := tmod_facts n d
  rw [c]; omega

/-- `awayFromZero`: magnitude at least that of the exact value, same sign -/
theorem C15_roundDiv_awayFromZero (n d : Int) (hd : d ≠ 0) :
    n.natAbs ≤ (roundDiv .awayFromZero n d * d).natAbs ∧ (0 ≤ n → 0 ≤ roundDiv .awayFromZero n d * d) ∧
    (n ≤ 0 → roundDiv .awayFromZero n d * d ≤ 0) := by
  have ⟨e, l, s1, s2, c⟩ := roundDiv_cases .awayFromZero n d hd
  by_cases hr : Int.tmod n d = 0
  · have := C15_roundDiv_exact .awayFromZero n d hd hr; omega
  · have c0 : roundDiv .awayFromZero n d ≠ Int.tdiv n d := by
      simp only [roundDiv]; rw [if_neg hr]
      have : Int.sign n * Int.sign d ≠ 0 := by
        have hn : n ≠ 0 := by intro h0; apply hr; rw [h0]; exact Int.zero_tmod d
        exact Int.mul_ne_zero (by simpa [Int.sign_eq_zero_iff_zero] using hn) (by simpa [Int.sign_eq_zero_iff_zero] using hd)
      omega
    rcases c with c | ⟨_, sg, c⟩ | ⟨_, sg, c⟩
    · exact absurd c c0
    · rw [c, Int.add_mul]; omega
    · rw [c, Int.sub_mul]; omega

/-- the two `nearest` rules: at most half a unit from the exact value -/
theorem C15_roundDiv_nearest (r : Rounding) (hr : r = .nearestHalfAway ∨ r = .nearestHalfEven) (n d : Int) (hd : d ≠ 0) :
    2 * (roundDiv r n d * d - n).natAbs ≤ d.natAbs := by
  have ⟨e, l, s1, s2, _⟩ := roundDiv_cases r n d hd
  by_cases h0 : Int.tmod n d = 0
  · have := C15_roundDiv_exact r n d hd h0; omega
  · have am := away_mul n d hd h0
    simp only [roundDiv]; rw [if_neg h0]
    rcases hr with hr | hr <;> subst hr <;> simp only <;> (repeat' split) <;>
      omega   -- case split on `am`

/-- on an exact tie (`2·|rem| = |d|`): half-away goes away from zero, half-even to the even neighbour -/
theorem C15_roundDiv_ties (n d : Int) (hd : d ≠ 0) (ht : 2 * (Int.tmod n d).natAbs = d.natAbs) :
    n.natAbs ≤ (roundDiv .nearestHalfAway n d * d).natAbs ∧ roundDiv .nearestHalfEven n d % 2 = 0 := by
  have ⟨e, l, s1, s2, _⟩ := roundDiv_cases .nearestHalfAway n d hd
  have h0 : Int.tmod n d ≠ 0 := by intro h; rw [h] at ht; simp at ht; omega
  have am := away_mul n d hd h0
  constructor
  · simp only [roundDiv]; rw [if_neg h0, if_pos (by omega)]
    rcases am with ⟨a1, a2, _⟩ | ⟨a1, a2, _⟩ <;> rw [a2] <;> omega
  · simp only [roundDiv]; rw [if_neg h0, if_neg (by omega), if_neg (by omega)]
    split
    · assumption
    · rcases am with ⟨_, _, a3⟩ | ⟨_, _, a3⟩ <;> rcases a3 with a3 | a3 <;> rw [a3] <;> omega

/-- the specification of `multiplyDivide`: a result is a value of the type, less than one unit from the exact
    `a·b/c` and equal to it when that is representable at the scale; it fails with division by zero exactly
    for a zero divisor -/
theorem C15_mulDiv_spec (T : FTy) (r : Rounding) (a b c : Int) :
    (specMulDiv T r a b c = .error .divZero ↔ c = 0) ∧
    (∀ v, specMulDiv T r a b c = .ok v →
      c ≠ 0 ∧ inRange T.raw v ∧ (v * c - a * b).natAbs < c.natAbs ∧ (Int.tmod (a * b) c = 0 → v * c = a * b)) := by
  unfold specMulDiv
  by_cases hc : c = 0
  · simp [hc]
  · rw [if_neg hc]
    have w := C15_roundDiv_within_unit r (a * b) c hc
    have x := C15_roundDiv_exact r (a * b) c hc
    constructor
    · constructor
      · intro h; exfalso
        cases T <;> simp only [classify] at h <;> (repeat' split at h) <;> cases h
      · intro h; exact absurd h hc
    · intro v h
      have hv : v = roundDiv r (a * b) c ∧ inRange T.raw v := by
        cases T <;> simp only [classify, inRange] at * <;> (repeat' split at h) <;> cases h <;>
          exact ⟨rfl, by omega⟩
      obtain ⟨hv1, hv2⟩ := hv
      subst hv1
      exact ⟨hc, hv2, w, x⟩

/-! ### Known finding: the external library's 128-bit division (`fixlib-div128-quotient-word-assumed-all-ones`)

There is no model of `onflow/fixed-point`, so the witnesses are stated on the specification side: what the
property requires for these inputs, and that they have the defect's input shape; the answers of the real
code (stream `fix`, corpus `known-fixlib-div128.txt`, direct calls and scripts in both engines) are recorded
beside them.  The 64-bit types divide with `math/bits.Div64` and are not affected (theorems above). -/

/-- `425150218303.720500949735645943097918 / 51491298.867851349257578002779613` (UFix128): the quotient truncated
    to 10^-24 ends in …134; Go returns …135 — not a truncation, the result is above the exact quotient -/
theorem C15_div128_witness :
    specFix .ufix128 .div 425150218303720500949735645943097918 51491298867851349257578002779613
      = .ok 8256739054006725028805083134 ∧
    div128SuspectLow (425150218303720500949735645943097918 * 1000000000000000000000000) 51491298867851349257578002779613 = true := by
  decide

/-- `multiplyDivide` with the second quotient word `2^64 − 2`: the specification has a value for each of the two
    triples; Go returns 216800769254943718020007656257857578 for the first and panics inside the library
    (an internal error in a script) for the second -/
theorem C15_mulDiv128_witness :
    specMulDiv .ufix128 .towardZero 16594690948024720233190508554001674 2374808617828556677249996877 115813274223307087035308
      = .ok 340282366920938463444927863358058646552 ∧
    div128SuspectHigh (16594690948024720233190508554001674 * 2374808617828556677249996877) 115813274223307087035308 = true ∧
    specMulDiv .ufix128 .towardZero 39618721341428393984427811873 2108956849906300576999746314714 245543648099013626111
      = .ok 340282366920938463444927863352782557116 ∧
    div128SuspectHigh (39618721341428393984427811873 * 2108956849906300576999746314714) 245543648099013626111 = true := by
  decide

/-! ### Non-vacuity -/

example : Fix64Value.Mul 150000000 150000000 = .ok 225000000 ∧ Fix64Value.Mul 1 1 = .ok 0 ∧ Fix64Value.Mul (-1) 99999999 = .ok 0 := by decide
example : Fix64Value.Div 100000000 300000000 = .ok 33333333 ∧ Fix64Value.Div (-100000000) 300000000 = .ok (-33333333) := by decide
example : Fix64Value.Mul 9223372036854775807 200000000 = .error .overflow ∧ Fix64Value.Mul (-9223372036854775808) 200000000 = .error .underflow := by decide
example : Fix64Value.Div (-9223372036854775808) (-100000000) = .error .overflow ∧ Fix64Value.Div 5 0 = .error .divZero := by decide
example : UFix64Value.Minus 1 2 = .error .underflow ∧ UFix64Value.Div 18446744073709551615 1 = .error .overflow := by decide
example : inRange (.uint 64) 18446744073709551615 ∧ UFix64Value.Mul 18446744073709551615 100000000 = .ok 18446744073709551615 := by decide

-- multiplyDivide: 2.5 and 3.5 under the four rules; negative; the divisor 1.0 of a 128-bit type keeps the rule
example : roundDiv .towardZero 5 2 = 2 ∧ roundDiv .awayFromZero 5 2 = 3 ∧ roundDiv .nearestHalfAway 5 2 = 3 ∧
    roundDiv .nearestHalfEven 5 2 = 2 ∧ roundDiv .nearestHalfEven 7 2 = 4 ∧ roundDiv .nearestHalfAway (-5) 2 = -3 ∧
    roundDiv .nearestHalfEven (-5) 2 = -2 ∧ roundDiv .awayFromZero 1 (-3) = -1 ∧ roundDiv .nearestHalfAway 1 3 = 0 := by decide
example : specMulDiv .ufix128 .awayFromZero 1500000000000000000000000 1 1000000000000000000000000 = .ok 2 ∧
    specMulDiv .ufix128 .towardZero 1500000000000000000000000 1 1000000000000000000000000 = .ok 1 ∧
    specMulDiv .fix64 .awayFromZero 9223372036854775807 3 2 = .error .overflow ∧
    specMulDiv .fix64 .nearestHalfAway (-9223372036854775808) 100000001 100000000 = .error .underflow ∧
    specMulDiv .ufix64 .nearestHalfEven 0 0 0 = .error .divZero := by decide

end Verif.Properties.C15
