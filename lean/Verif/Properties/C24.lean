/-
C24 — Failed transactions and all scripts write no ledger registers.

Model: Verif.Model.Exec — the executor protocol as a trace acceptor over host-visible events, as the
code exists (including stdlib/account.go's temporary commits), plus a generative executor model
parameterised by facts extracted from the source (Verif.Gen.CommitSites, pinned in
Verif.Spec.CommitSites).  Lemmas: Verif.Proofs.Exec.

The property at full strength ("for every accepted trace: a script has no write; a failed execution
has no write; every write follows the last program activity") is FALSE of the code: a temporary
commit (`CommitStorageTemporarily`, called before `storage.used`, `storage.capacity` and account
creation) writes registers in the middle of a run, in scripts and in transactions that fail later
(`script_write_witness`, `failed_write_witness`, `write_before_end_witness`; known finding
`write-via-temp-commit`).  The `_partial` theorems prove the property for all executions without a
temporary commit (`st.flushed = false`).

`commit_complete` (the ledger after a successful transaction's writes equals the in-memory state a later
transaction reads) is stated and proved on the executor with a register map, `Verif.Model.ExecStore`
(lemmas: Verif.Proofs.ExecStore); the `exec` stream checks it on the real runtime through the state
probes of the generated histories (class `stale-read-after-commit`).
-/
import Verif.Proofs.Exec
import Verif.Proofs.ExecStore
import Verif.Spec.CommitSites
namespace Verif.Properties.C24
open Verif.Model.Exec Verif.Proofs.Exec Verif.Model.ExecStore Verif.Proofs.ExecStore

/-- FX: the call sites of commitStorage / Storage.Commit / CommitStorageTemporarily / FastCommit /
    Ledger.SetValue / Record­ContractUpdate … extracted from the current source are exactly the pinned ones. -/
theorem commitsites_ok : Verif.Gen.CommitSites.sites = Verif.Spec.CommitSites.pinned := by decide

/-- FX: the source justifies the executor model's configuration — no commit site in
    runtime/script_executor.go, and every commit entry in the transaction / contract-function executors
    directly follows the `if err != nil { return err }` of the run call. -/
theorem cfg_from_source :
    Verif.Spec.CommitSites.cfgOf Verif.Gen.CommitSites.sites = { scriptCommits := false, commitOnFailure := false } := by
  decide

/-- FX: the only callers of a temporary commit are the three documented ones, and the host's register
    write is reached only through the slab-index writer and the `ExternalInterface` wrapper. -/
theorem temp_commit_callers :
    Verif.Spec.CommitSites.tempCommitCallers Verif.Gen.CommitSites.sites =
      ["NewAccount", "newStorageCapacityGetFunction", "newStorageUsedGetFunction"] ∧
    Verif.Spec.CommitSites.registerWriters Verif.Gen.CommitSites.sites =
      ["writeSlabIndexToRegister", "ExternalInterface.SetValue"] := by decide

/-- A script that the protocol accepts, without a temporary commit, issues no register write. -/
theorem script_no_write_partial (tr : List Ev) (st : St) (h : accept .script tr = .ok st)
    (hf : st.flushed = false) : hasWrite tr = false := by
  unfold accept at h
  split at h
  · rename_i st1 hr
    split at h
    · rename_i hd
      cases h
      have := (run_phase .script tr {} st (.inr rfl) hr hf).2
      cases hw : hasWrite tr with
      | false => rfl
      | true => exact absurd rfl ((this hw).2 hd)
    · cases h
  · cases h

/-- An execution (script, transaction or contract call) that fails — before or during the run —
    and is accepted without a temporary commit issues no register write. -/
theorem failed_no_write_partial (kind : Kind) (tr : List Ev) (st : St) (h : accept kind tr = .ok st)
    (hf : st.flushed = false) (he : endsErr tr = true) : hasWrite tr = false := by
  unfold accept at h
  split at h
  · rename_i st1 hr
    split at h
    · cases h
      have := (run_phase kind tr {} st (.inr rfl) hr hf).2
      cases hw : hasWrite tr with
      | false => rfl
      | true => have := (this hw).1; simp [he] at this
    · cases h
  · cases h

/-- In an accepted execution without a temporary commit every register write comes after the last
    program activity (step, event, log, slab allocation). -/
theorem writes_after_run_partial (kind : Kind) (tr : List Ev) (st : St) (h : accept kind tr = .ok st)
    (hf : st.flushed = false) : writesAfterRun tr = true := by
  unfold accept at h
  split at h
  · rename_i st1 hr
    split at h
    · cases h
      exact (run_phase kind tr {} st (.inr rfl) hr hf).1
    · cases h
  · cases h

/-- The generative executor model, configured the way the extracted call-site table justifies
    (`cfg_from_source`), only produces traces the protocol accepts, without a temporary commit — for every
    kind of execution and every program behaviour (any run-phase activity, success or failure, any deltas).
    Together with the `_partial` theorems: the modelled executors satisfy the three clauses. -/
theorem exec_accepted (kind : Kind) (b : Behaviour) :
    accept kind (exec (Verif.Spec.CommitSites.cfgOf Verif.Gen.CommitSites.sites) kind b) = .ok ⟨.done, false⟩ := by
  rw [cfg_from_source]
  exact exec_accepted_aux kind b

/-! ### `commit_complete`: the executor with a register map (`Verif.Model.ExecStore`)

An execution works on a fresh in-memory storage (read cache + dirty entries over the ledger); a successful
transaction's commit writes every dirty register once; a failed execution and a script write nothing. -/

/-- **commit_complete.**  For every ledger and every program: the ledger after the writes of a successful
    transaction's commit equals the in-memory state the program had when it ended (its view through dirty
    entries, read cache and ledger), at every register. -/
theorem commit_complete {K V : Type} [DecidableEq K] (L : Ledger K V) (s : Step K V) (hc : s.commits = true) :
    (execStep L s).1 = (runOps L {} s.prog).1.view L := by
  obtain ⟨_, _, h3⟩ := runOps_ideal L s.prog {} (cacheOk_empty L)
  unfold execStep
  rcases hr : runOps L {} s.prog with ⟨m, rs⟩
  rw [hr] at h3
  simp only [hc, if_true]
  funext k
  rw [applyWrites_commitWrites, view_of_cacheOk L m h3]

/-- **Later transactions read what earlier ones wrote** — for every ledger and every history of
    successful transactions, failed transactions and scripts: executing each step on a fresh storage over the
    ledger (commit on success only) yields, step for step, the values that the same programs read of ONE
    in-memory state which successful transactions update in place and which failed transactions and scripts
    leave untouched; and the same final state.  (A read that differs is the stream's class
    `stale-read-after-commit`.) -/
theorem commit_complete_history {K V : Type} [DecidableEq K] (L : Ledger K V) (ss : List (Step K V)) :
    execHistory L ss = idealHistory L ss :=
  execHistory_eq_idealHistory ss L

/-- A failed execution and a script leave every register as it was. -/
theorem no_commit_ledger_unchanged {K V : Type} [DecidableEq K] (L : Ledger K V) (s : Step K V)
    (hc : s.commits = false) : (execStep L s).1 = L := by
  unfold execStep
  rcases runOps L {} s.prog with ⟨m, rs⟩
  simp [hc]

/-- The commit writes every dirty register exactly once (so the order of its writes does not matter for
    the resulting ledger; the canonical order is C33's `model_commit_canonical`). -/
theorem commit_writes_each_register_once {K V : Type} [DecidableEq K] (L : Ledger K V) (prog : List (Op K V)) :
    ((commitWrites (runOps L {} prog).1.deltas).map (·.1)).Nodup :=
  commitWrites_nodup _

/-- The register-map executor is an instance of the executor model of the `_partial` theorems: the
    host-visible trace of a step (reads that reach the ledger, program activity, the commit's writes) is
    the trace `exec` produces for the behaviour `behaviourOf`, hence accepted by the protocol without a
    temporary commit — for every ledger, program, kind and result. -/
theorem store_exec_accepted {V : Type} (kind : Kind) (L : Ledger (Nat × Bool × Nat) V)
    (s : Step (Nat × Bool × Nat) V) (ok : Bool) :
    accept kind (exec (Verif.Spec.CommitSites.cfgOf Verif.Gen.CommitSites.sites) kind (behaviourOf L s ok)) =
      .ok ⟨.done, false⟩ :=
  exec_accepted kind (behaviourOf L s ok)

/-- Why the fresh storage per execution matters (the shape of a stale read): an execution that reuses the
    read cache of an earlier one, across another transaction's commit, reads the old value — here register 0
    after `set 0 := 5` was committed: the stale cache yields `none`, the ledger (and the reference semantics)
    `some 5`. -/
theorem stale_cache_witness :
    let L0 : Ledger Nat Nat := fun _ => none
    let m1 := (runOps L0 {} [Op.get 0]).1                          -- execution 1 read register 0 (absent)
    let L1 := (execStep L0 ⟨true, [Op.set 0 (some 5)]⟩).1           -- execution 2 committed 0 := 5
    (runOps L1 m1 [Op.get 0]).2 = [none] ∧                          -- execution 3 on the stale cache
    (runOps L1 {} [Op.get 0]).2 = [some 5] ∧ (idealOps L1 [Op.get 0]).2 = [some 5] := by decide

/-- Why the fact matters: an executor that commits although the run failed (the planned mutation)
    produces a trace the protocol rejects. -/
theorem commit_on_failure_rejected :
    accept .tx (exec ⟨false, true⟩ .tx ⟨1, true, [.step], false, [], [1], [(1, 1)]⟩) = .error .errAfterWrite := by decide

/-! Witnesses: the acceptor of the code *as it exists* accepts executions that violate the property
(taken from real runs of `a.storage.used` after `a.storage.save(...)`). -/

/-- a script that writes: `getAuthAccount(0x1).storage.save(5, …); return a.storage.used` -/
def scriptTrace : List Ev :=
  [.host, .host, .pp, .step, .read, .read, .step, .write 1 true 1, .flushQuery, .host, .endOk]

/-- a transaction that saves, asks `storage.used`, then panics -/
def failedTrace : List Ev :=
  [.host, .host, .host, .pp, .step, .read, .read, .alloc, .step, .write 1 true 1, .write 1 true 4,
   .flushQuery, .step, .host, .endErr]

theorem script_write_witness :
    accept .script scriptTrace = .ok ⟨.done, true⟩ ∧ hasWrite scriptTrace = true := by decide

theorem failed_write_witness :
    accept .tx failedTrace = .ok ⟨.done, true⟩ ∧ endsErr failedTrace = true ∧ hasWrite failedTrace = true := by decide

theorem write_before_end_witness :
    accept .tx failedTrace = .ok ⟨.done, true⟩ ∧ writesAfterRun failedTrace = false := by decide

/-- The driver's oracle for the known finding is exact on accepted traces in one direction: a trace
    accepted with `flushed` contains a temporary commit… (checked on the witnesses) -/
example : hasTempCommit scriptTrace = true ∧ hasTempCommit failedTrace = true := by decide

/-! Non-vacuity of `commit_complete_history`: save 7 to register 1 (ok), a failed transaction that sets it
to 9, a script that sets it to 3, then a transaction reading it: it reads 7 three times over. -/
example : (execHistory (fun (_ : Nat) => (none : Option Nat))
    [⟨true, [.get 1, .set 1 (some 7), .get 1]⟩, ⟨false, [.set 1 (some 9), .get 1]⟩, ⟨false, [.set 1 (some 3)]⟩,
     ⟨true, [.get 1]⟩]).2 = [[none, some 7], [some 9], [], [some 7]] := by decide

/-! The driver's `stale-read-after-commit` oracle (`Probe`) on small histories: a transaction logs digest
`d1` for channel `01` at its end and commits; the next step must read `d1` at its start — `d0` is stale;
a failed step's end-of-run state is not the committed one; a committing step that wrote the channel's
owner without logging the channel makes it unknown (no comparison). -/
example :
    let t1 : StepObs := ⟨true, [("01", "d0")], [("01", "d1")], ["01"]⟩
    let p1 := Probe.next (fun ch => [ch]) [] t1
    staleChannels p1 ⟨false, [("01", "d1")], [], []⟩ = [] ∧
    staleChannels p1 ⟨true, [("01", "d0")], [], []⟩ = ["01"] ∧
    staleChannels (Probe.next (fun ch => [ch]) p1 ⟨false, [("01", "d1")], [("01", "d2")], []⟩)
      ⟨true, [("01", "d1")], [], []⟩ = [] ∧
    staleChannels (Probe.next (fun ch => [ch]) p1 ⟨true, [], [], ["01"]⟩) ⟨true, [("01", "zz")], [], []⟩ = [] := by
  decide

/-! Non-vacuity: ordinary accepted executions (from real runs). -/
example : accept .tx [.host, .host, .pp, .step, .read, .read, .alloc, .alloc, .step, .log, .host,
    .write 1 false 0, .write 1 true 1, .write 1 true 2, .endOk] = .ok ⟨.done, false⟩ := by decide
example : accept .tx [.host, .pp, .step, .read, .alloc, .step, .host, .endErr] = .ok ⟨.done, false⟩ := by decide
example : accept .script [.host, .pp, .step, .read, .step, .host, .endOk] = .ok ⟨.done, false⟩ := by decide
/-- the protocol rejects a commit in a failed transaction, a commit in a script, a step after a write -/
example : accept .tx [.host, .pp, .step, .write 1 false 0, .endErr] = .error .errAfterWrite := by decide
example : accept .script [.host, .pp, .step, .write 1 false 0, .endOk] = .error .writeInScript := by decide
example : accept .tx [.host, .pp, .step, .write 1 false 0, .step, .endOk] = .error .progAfterWrite := by decide

end Verif.Properties.C24
