/-
C46 — RLP decoding accepts exactly canonical encodings and never crashes.

Model: Verif.Model.Rlp (port of stdlib/rlp/rlp.go + the wrappers' trailing-bytes check).
Spec:  Verif.Spec.Rlp (reference encoder, frames).
Only statements and their final proofs live here; lemmas are in Verif.Proofs.Rlp*.
-/
import Verif.Proofs.Rlp
namespace Verif.Properties.C46
open Verif.Model.Rlp Verif.Spec.Rlp Verif.Proofs.Rlp

/-- A decode outcome is *graceful*: a value or a returned (user) error — never a Go panic (which
    the runtime reports as an internal error) and never a non-terminating loop. -/
def Graceful {α} (o : Out α) : Prop := (∃ a, o = .ok a) ∨ (∃ e, o = .err e)

theorem graceful_of_post {α} {P : α → Prop} {o : Out α} (h : Post P o) : Graceful o := by
  cases o with
  | ok a => exact .inl ⟨a, rfl⟩
  | err e => exact .inr ⟨e, rfl⟩
  | goPanic => exact absurd h (post_panic P)
  | diverge => exact absurd h (post_diverge P)

/-- `rlp.DecodeString` at any start index never panics, whatever the input bytes. -/
theorem decodeString_no_panic (inp : Bytes) (start : Nat) : Graceful (decodeString inp start) :=
  graceful_of_post (decodeString_post inp start)

/-- `rlp.DecodeList` at any start index never panics and its loop terminates. -/
theorem decodeList_no_panic (inp : Bytes) (start : Nat) : Graceful (decodeList inp start) :=
  graceful_of_post (decodeList_post inp start)

/-- `RLP.decodeString` (wrapper with trailing-bytes check): value or user error for every input. -/
theorem rlpDecodeString_no_panic (inp : Bytes) : Graceful (rlpDecodeString inp) := by
  unfold rlpDecodeString
  refine graceful_of_post (P := fun _ => True) (post_bind (decodeString_post inp 0) ?_)
  rintro ⟨s, n⟩ _
  simp only []
  split <;> simp

theorem rlpDecodeList_no_panic (inp : Bytes) : Graceful (rlpDecodeList inp) := by
  unfold rlpDecodeList
  refine graceful_of_post (P := fun _ => True) (post_bind (decodeList_post inp 0) ?_)
  rintro ⟨s, n⟩ _
  simp only []
  split <;> simp

/-- Every index computed by the decoder stays within `len(inp)`, so with `len(inp) < 2^63` (any Go
    slice) no Go `int` addition in the fixed code can wrap: modelling `int` by `Nat` is sound. -/
theorem decodeString_bytesRead_in_input (inp : Bytes) (start : Nat) (s : Bytes) (n : Nat)
    (h : decodeString inp start = .ok (s, n)) : 1 ≤ n ∧ n ≤ inp.length - start := by
  have := decodeString_post inp start
  rw [h] at this
  exact ⟨this.2, this.1⟩

/-- Non-vacuity: the former crash inputs are now user errors in the model (and, by the `rlp`
    correspondence stream, in the Go code). -/
example : rlpDecodeString [0x81] = .err .incompleteInput := by decide
example : rlpDecodeString [0xbf, 0x7f, 0xff, 0xff, 0xff, 0xff, 0xff, 0xff, 0xff, 1, 2] = .err .incompleteInput := by
  decide
example : rlpDecodeString [0x83, 0x64, 0x6f, 0x67] = .ok [0x64, 0x6f, 0x67] := by decide

end Verif.Properties.C46
