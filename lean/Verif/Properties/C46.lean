/-
C46 — RLP decoding accepts exactly canonical encodings and never crashes.

Model: Verif.Model.Rlp (port of stdlib/rlp/rlp.go + the wrappers' trailing-bytes check).
Spec:  Verif.Spec.Rlp (reference encoder, frames).
Only statements and their final proofs live here; lemmas are in Verif.Proofs.Rlp*.
-/
import Verif.Proofs.Rlp
import Verif.Proofs.RlpExact
namespace Verif.Properties.C46
open Verif.Model.Rlp Verif.Spec.Rlp Verif.Proofs.Rlp Verif.Proofs.RlpExact

/-- A decode outcome is *graceful*: a value or a returned (user) error — never a Go panic (which
    the runtime reports as an internal error) and never a non-terminating loop. -/
def Graceful {α} (o : Out α) : Prop := (∃ a, o = .ok a) ∨ (∃ e, o = .err e)

theorem graceful_of_post {α} {P : α → Prop} {o : Out α} (h : Post P o) : Graceful o := by
  cases o with
  | ok a => exact .inl ⟨a, rfl⟩
  | err e => exact .inr ⟨e, rfl⟩
  | goPanic => exact absurd h (post_panic P)
  | diverge => exact absurd h (post_diverge P)

/-- `rlp.DecodeString` at any start index never panics, whatever the input bytes. -/
theorem decodeString_no_panic (inp : Bytes) (start : Nat) : Graceful (decodeString inp start) :=
  graceful_of_post (decodeString_post inp start)

/-- `rlp.DecodeList` at any start index never panics and its loop terminates. -/
theorem decodeList_no_panic (inp : Bytes) (start : Nat) : Graceful (decodeList inp start) :=
  graceful_of_post (decodeList_post inp start)

/-- `RLP.decodeString` (wrapper with trailing-bytes check): value or user error for every input. -/
theorem rlpDecodeString_no_panic (inp : Bytes) : Graceful (rlpDecodeString inp) := by
  unfold rlpDecodeString
  refine graceful_of_post (P := fun _ => True) (post_bind (decodeString_post inp 0) ?_)
  rintro ⟨s, n⟩ _
  simp only []
  split <;> simp

theorem rlpDecodeList_no_panic (inp : Bytes) : Graceful (rlpDecodeList inp) := by
  unfold rlpDecodeList
  refine graceful_of_post (P := fun _ => True) (post_bind (decodeList_post inp 0) ?_)
  rintro ⟨s, n⟩ _
  simp only []
  split <;> simp

/-- Every index computed by the decoder stays within `len(inp)`, so with `len(inp) < 2^63` (any Go
    slice) no Go `int` addition in the fixed code can wrap: modelling `int` by `Nat` is sound. -/
theorem decodeString_bytesRead_in_input (inp : Bytes) (start : Nat) (s : Bytes) (n : Nat)
    (h : decodeString inp start = .ok (s, n)) : 1 ≤ n ∧ n ≤ inp.length - start := by
  have := decodeString_post inp start
  rw [h] at this
  exact ⟨this.2, this.1⟩

/-- Non-vacuity: the former crash inputs are now user errors in the model (and, by the `rlp`
    correspondence stream, in the Go code). -/
example : rlpDecodeString [0x81] = .err .incompleteInput := by decide
example : rlpDecodeString [0xbf, 0x7f, 0xff, 0xff, 0xff, 0xff, 0xff, 0xff, 0xff, 1, 2] = .err .incompleteInput := by
  decide
example : rlpDecodeString [0x83, 0x64, 0x6f, 0x67] = .ok [0x64, 0x6f, 0x67] := by decide

/-! ## Exactness: the wrappers accept exactly the canonical encodings -/

/-- Every canonical string encoding (payload up to `MaxLongLengthAllowed` bytes) is accepted and
    decodes to its payload. -/
theorem string_accepts_canonical (s : Bytes) (hs : s.length ≤ maxLongLength) :
    rlpDecodeString (encodeString s) = .ok s :=
  rlpDecodeString_encodeString s hs

example : rlpDecodeString (encodeString [0x64, 0x6f, 0x67]) = .ok [0x64, 0x6f, 0x67] :=
  string_accepts_canonical _ (by decide)
/-- long form (56 bytes, header `b8 38`) through the theorem -/
example : rlpDecodeString (encodeString (List.replicate 56 0x61)) = .ok (List.replicate 56 0x61) :=
  string_accepts_canonical _ (by decide)
example : encodeString [0x64, 0x6f, 0x67] = [0x83, 0x64, 0x6f, 0x67] := by decide
example : (encodeString (List.replicate 56 0x61)).take 3 = [0xb8, 56, 0x61] := by
  simp [encodeString, header, beBytes]

/-- Nothing else is accepted: an accepted input *is* the canonical encoding of the returned payload
    (so leading zeros in the length, long form for short payloads, `0x81 b` for `b < 0x80`, trailing
    bytes, list headers … are all rejected). -/
theorem string_rejects_rest (inp s : Bytes) (h : rlpDecodeString inp = .ok s) : inp = encodeString s :=
  (rlpDecodeString_inv inp s h).1

/-- … and the accepted payload is within the supported size. -/
theorem string_accepted_size (inp s : Bytes) (h : rlpDecodeString inp = .ok s) : s.length ≤ maxLongLength :=
  (rlpDecodeString_inv inp s h).2

example : rlpDecodeString [0x83, 0x64, 0x6f, 0x67] = .ok [0x64, 0x6f, 0x67] ∧
    [0x83, 0x64, 0x6f, 0x67] = encodeString [0x64, 0x6f, 0x67] := by decide

/-- A non-canonical input is a returned (user) error: not a value, not a panic, not a hang. -/
theorem string_noncanonical_is_user_error (inp : Bytes) (h : ∀ s, inp ≠ encodeString s) :
    ∃ e, rlpDecodeString inp = .err e := by
  rcases rlpDecodeString_no_panic inp with ⟨s, hs⟩ | he
  · exact absurd (string_rejects_rest inp s hs) (h s)
  · exact he

/-- `81 05` (single byte below 0x80 with a header), `b8 01 61` (long form for a short payload) and
    `b9 00 38 …` (leading zero in the length) are user errors. -/
example : rlpDecodeString [0x81, 0x05] = .err .nonCanonical := by decide
example : rlpDecodeString [0xb8, 0x01, 0x61] = .err .nonCanonical := by decide
example : rlpDecodeString (0xb9 :: 0x00 :: 0x38 :: List.replicate 56 0x61) = .err .nonCanonical := by decide
example : rlpDecodeString [0x83, 0x64, 0x6f, 0x67, 0x00] = .err .trailingBytes := by decide

/-- `DecodeList` is shallow (it returns the encoded items), so the list statements are over *frames*:
    every canonical encoding of a sequence of frames is accepted and yields exactly those frames. -/
theorem list_accepts_canonical (items : List Bytes) (hfr : ∀ f ∈ items, IsFrame f)
    (hlen : items.flatten.length ≤ maxLongLength) :
    rlpDecodeList (encodeList items) = .ok items :=
  rlpDecodeList_encodeList items hfr hlen

/-- the frames `83 64 6f 67` ("dog"), `05` and `c0` (empty list), and their list `c6 83 64 6f 67 05 c0` -/
example : IsFrame [0x83, 0x64, 0x6f, 0x67] := .inr ⟨[0x64, 0x6f, 0x67], by decide, .inl (by decide)⟩
example : IsFrame [0x05] := .inl ⟨5, rfl, by decide⟩
example : IsFrame [0xc0] := .inr ⟨[], by decide, .inr (by decide)⟩
example : encodeList [[0x83, 0x64, 0x6f, 0x67], [0x05], [0xc0]] = [0xc6, 0x83, 0x64, 0x6f, 0x67, 0x05, 0xc0] := by
  decide
example : rlpDecodeList (encodeList [[0x83, 0x64, 0x6f, 0x67], [0x05], [0xc0]]) =
    .ok [[0x83, 0x64, 0x6f, 0x67], [0x05], [0xc0]] :=
  list_accepts_canonical _
    (by
      intro f hf
      simp only [List.mem_cons, List.mem_nil_iff, or_false] at hf
      rcases hf with rfl | rfl | rfl
      · exact .inr ⟨[0x64, 0x6f, 0x67], by decide, .inl (by decide)⟩
      · exact .inl ⟨5, rfl, by decide⟩
      · exact .inr ⟨[], by decide, .inr (by decide)⟩)
    (by decide)
/-- long form: twenty frames `82 61 62` (60 payload bytes, list header `f8 3c`) through the theorem -/
example : rlpDecodeList (encodeList (List.replicate 20 [0x82, 0x61, 0x62])) =
    .ok (List.replicate 20 [0x82, 0x61, 0x62]) :=
  list_accepts_canonical _
    (by
      intro f hf
      rw [List.eq_of_mem_replicate hf]
      exact .inr ⟨[0x61, 0x62], by decide, .inl (by decide)⟩)
    (by decide)

/-- Nothing else is accepted: an accepted input is the canonical list encoding of the returned items,
    and every returned item is a frame. -/
theorem list_rejects_rest (inp : Bytes) (items : List Bytes) (h : rlpDecodeList inp = .ok items) :
    inp = encodeList items ∧ ∀ f ∈ items, IsFrame f :=
  ⟨(rlpDecodeList_inv inp items h).1, (rlpDecodeList_inv inp items h).2.1⟩

theorem list_accepted_size (inp : Bytes) (items : List Bytes) (h : rlpDecodeList inp = .ok items) :
    items.flatten.length ≤ maxLongLength :=
  (rlpDecodeList_inv inp items h).2.2

example : rlpDecodeList [0xc4, 0x83, 0x64, 0x6f, 0x67] = .ok [[0x83, 0x64, 0x6f, 0x67]] ∧
    [0xc4, 0x83, 0x64, 0x6f, 0x67] = encodeList [[0x83, 0x64, 0x6f, 0x67]] := by decide

/-- An input that is not the canonical encoding of a sequence of frames is a returned (user) error. -/
theorem list_noncanonical_is_user_error (inp : Bytes)
    (h : ∀ items, (∀ f ∈ items, IsFrame f) → inp ≠ encodeList items) :
    ∃ e, rlpDecodeList inp = .err e := by
  rcases rlpDecodeList_no_panic inp with ⟨items, hs⟩ | he
  · exact absurd (list_rejects_rest inp items hs).1 (h items (list_rejects_rest inp items hs).2)
  · exact he

/-- item overruns the list payload, long form for a short payload, truncated item, trailing byte -/
example : rlpDecodeList [0xc3, 0x83, 0x64, 0x6f, 0x67] = .err .listSizeMismatch := by decide
example : rlpDecodeList [0xf8, 0x01, 0x05] = .err .nonCanonical := by decide
example : rlpDecodeList [0xc4, 0x84, 0x64, 0x6f, 0x67] = .err .incompleteInput := by decide
example : rlpDecodeList [0xc1, 0x05, 0x00] = .err .trailingBytes := by decide

/-! ## The executable oracles used by the `rlp` driver decide exactly the declarative spec -/

/-- `specDecodeString` (search over header lengths + reference encoder) returns `s` exactly when the
    input is the canonical encoding of `s` (of supported size). -/
theorem specDecodeString_iff (inp s : Bytes) :
    specDecodeString inp = some s ↔ (inp = encodeString s ∧ s.length ≤ maxLongLength) :=
  Verif.Proofs.RlpExact.specDecodeString_iff inp s

example : specDecodeString [0x83, 0x64, 0x6f, 0x67] = some [0x64, 0x6f, 0x67] := by decide
example : specDecodeString [0x81, 0x05] = none := by decide
example : specDecodeString (encodeString (List.replicate 56 0x61)) = some (List.replicate 56 0x61) :=
  (specDecodeString_iff _ _).mpr ⟨rfl, by decide⟩

/-- `isFrameB` decides `IsFrame`. -/
theorem isFrameB_iff (f : Bytes) : isFrameB f = true ↔ IsFrame f :=
  Verif.Proofs.RlpExact.isFrameB_iff f

example : isFrameB [0x83, 0x64, 0x6f, 0x67] = true ∧ isFrameB [0x83, 0x64, 0x6f] = false := by decide

/-- `specDecodeList` (header search + backtracking frame splitter) returns `items` exactly when the
    input is the canonical encoding of that sequence of frames (of supported total size); in
    particular the split of a payload into frames is unique. -/
theorem specDecodeList_iff (inp : Bytes) (items : List Bytes) :
    specDecodeList inp = some items ↔
      (inp = encodeList items ∧ (∀ f ∈ items, IsFrame f) ∧ items.flatten.length ≤ maxLongLength) :=
  Verif.Proofs.RlpExact.specDecodeList_iff inp items

example : specDecodeList [0xc6, 0x83, 0x64, 0x6f, 0x67, 0x05, 0xc0] =
    some [[0x83, 0x64, 0x6f, 0x67], [0x05], [0xc0]] := by decide
example : specDecodeList [0xc3, 0x83, 0x64, 0x6f, 0x67] = none := by decide

/-- Consequently the wrappers of the model and the oracles coincide on every input: a value exactly
    where the oracle has one (the same value), a user error everywhere else. -/
theorem rlpDecodeString_eq_spec (inp : Bytes) :
    (∀ s, rlpDecodeString inp = .ok s ↔ specDecodeString inp = some s) ∧
    (specDecodeString inp = none → ∃ e, rlpDecodeString inp = .err e) := by
  have key : ∀ s, rlpDecodeString inp = .ok s ↔ specDecodeString inp = some s := by
    intro s
    rw [specDecodeString_iff]
    constructor
    · intro h; exact ⟨string_rejects_rest inp s h, string_accepted_size inp s h⟩
    · rintro ⟨rfl, hs⟩; exact string_accepts_canonical s hs
  refine ⟨key, fun hnone => ?_⟩
  rcases rlpDecodeString_no_panic inp with ⟨s, hs⟩ | he
  · rw [(key s).mp hs] at hnone; cases hnone
  · exact he

theorem rlpDecodeList_eq_spec (inp : Bytes) :
    (∀ items, rlpDecodeList inp = .ok items ↔ specDecodeList inp = some items) ∧
    (specDecodeList inp = none → ∃ e, rlpDecodeList inp = .err e) := by
  have key : ∀ items, rlpDecodeList inp = .ok items ↔ specDecodeList inp = some items := by
    intro items
    rw [specDecodeList_iff]
    constructor
    · intro h
      exact ⟨(list_rejects_rest inp items h).1, (list_rejects_rest inp items h).2, list_accepted_size inp items h⟩
    · rintro ⟨rfl, hfr, hlen⟩; exact list_accepts_canonical items hfr hlen
  refine ⟨key, fun hnone => ?_⟩
  rcases rlpDecodeList_no_panic inp with ⟨s, hs⟩ | he
  · rw [(key s).mp hs] at hnone; cases hnone
  · exact he

example : rlpDecodeList [0xc4, 0x83, 0x64, 0x6f, 0x67] = .ok [[0x83, 0x64, 0x6f, 0x67]] ∧
    specDecodeList [0xc4, 0x83, 0x64, 0x6f, 0x67] = some [[0x83, 0x64, 0x6f, 0x67]] := by decide
example : specDecodeString [0xb8, 0x01, 0x61] = none ∧ rlpDecodeString [0xb8, 0x01, 0x61] = .err .nonCanonical := by
  decide

/-! ## Deep version: recursive decoding of nested items with the model's wrappers

`decodeItem fuel inp` (Verif.Proofs.RlpExact) applies `rlpDecodeString`, else `rlpDecodeList` and then
itself to every returned frame; `encode : Item → Bytes` is the reference encoder of the spec. -/

/-- Every canonical encoding of a nested item that fits a Go slice decodes back to the item
    (fuel = input length suffices: every nested frame is shorter than its enclosing input). -/
theorem deep_roundtrip (it : Item) (fuel : Nat) (hfuel : (encode it).length ≤ fuel)
    (hmax : (encode it).length ≤ maxLongLength) : decodeItem fuel (encode it) = some it :=
  decodeItem_roundtrip fuel it hfuel hmax

/-- `[ "dog", 5, [] ]` -/
example : encode (.list [.str [0x64, 0x6f, 0x67], .str [5], .list []]) =
    [0xc6, 0x83, 0x64, 0x6f, 0x67, 0x05, 0xc0] := by decide
example : decodeItem 7 (encode (.list [.str [0x64, 0x6f, 0x67], .str [5], .list []])) =
    some (.list [.str [0x64, 0x6f, 0x67], .str [5], .list []]) :=
  deep_roundtrip _ 7 (by decide) (by decide)
set_option maxRecDepth 8000 in
example : decodeItem 7 [0xc6, 0x83, 0x64, 0x6f, 0x67, 0x05, 0xc0] =
    some (.list [.str [0x64, 0x6f, 0x67], .str [5], .list []]) := by rfl

/-- Whatever the recursive decoder accepts is the canonical encoding of the item it returns — at
    every nesting level (no fuel or size hypothesis). -/
theorem deep_exact (fuel : Nat) (inp : Bytes) (it : Item) (h : decodeItem fuel inp = some it) :
    inp = encode it :=
  decodeItem_exact fuel inp it h

/-- a nested non-canonical item (`81 05` inside a list) is rejected by the deep decoder although the
    shallow `rlpDecodeList` returns it as a frame -/
example : rlpDecodeList [0xc2, 0x81, 0x05] = .ok [[0x81, 0x05]] := by decide
set_option maxRecDepth 8000 in
example : decodeItem 3 [0xc2, 0x81, 0x05] = none := by rfl

end Verif.Properties.C46
