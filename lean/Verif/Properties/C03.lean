import Verif.Proofs.Lin.Doom
import Verif.Proofs.Lin.Enum
import Verif.Proofs.Lin.EnumComplete
/-!
# C03 — The checker rejects every resource-linearity violation

Model: `Verif.Model.Lin.Linearity` — a port of the checker's resource tracking (`linCheck`), tied to
`/repo/sema` by the stream `lin` (the multiset of error kinds of the real checker equals the port's
on the real parser's AST).  Judge: `Verif.Spec.Paths` — path semantics, `AllLinear f` = every path of
`f` is linear.

Full-strength statements (the property):
  sound    : names unique → linCheck f = [] → AllLinear f
  complete : names unique → no unreachable statement → AllLinear f → linCheck f = []
Both are FALSE for the code as it is: `unsound_witness_loop_then_halt`,
`unsound_witness_break_in_returning_branch` and the four `incomplete_witness_*` theorems below are
counterexamples in the port, replayed on the Go checker by the stream (corpus/lin/findings.txt;
known findings of C03).

Proved (soundness, by induction on statements with the abstraction invariant
`Verif.Proofs.Lin.Inv`: along every path prefix that falls through to the current program point,
no recorded invalidation ⇒ valid, definite invalidation ⇒ gone, potential ⇒ either; exactly the
variables in scope are present; `DefinitelyExited` ⇒ no path falls through):
* `sound_branching_partial` — all loop-free functions (`if`/`else`, optional binding, return, panic);
  the merge cases rest on `merge_pointwise` and on `mergeResourceInfos` seen from the branch a path
  takes (`Proofs/Lin/Merge.lean`).
* `sound_loops_partial` — functions with loops but without `break`/`continue`, under the decidable
  syntactic hypothesis `noHaltAfterInvalidatingLoop` (no `panic` textually after a loop whose body
  invalidates a variable it does not declare); via `sound_loops_clean_partial` (semantic hypothesis
  `loopsClean`) and the "doom" argument of `Proofs/Lin/Doom.lean`: a potential invalidation left by
  a loop is never overwritten and makes every later `return` / scope end report a loss unless a
  halt intervenes.
Missing for the full fragment: `break`/`continue` inside loops (the statement is false there, see
`unsound_witness_break_in_returning_branch`; a proof needs an invariant for the jumping paths
and a hypothesis excluding a jump in a returning branch); `paths_unroll2_complete` (the judge's
"all paths linear" verdict for loops relies on unrolling ≤ 2; with unique names it holds because
per variable the effect of an iteration is monotone valid → gone, not proved here); completeness.
-/
namespace Verif.Properties.C03
open Verif.Model.Lin Verif.Spec.Paths

/-- **Soundness, loop-free fragment.**  If the port of the checker reports nothing for a function
    without loops (declarations, moves, destroy, uses, swap, `if`/`else`, optional binding, return,
    panic, unreachable-statement handling), every path of the function is linear.  Missing for the
    full statement: loops (see `sound_loops_partial`). -/
theorem sound_branching_partial (f : Fn) (hfrag : f.body.hasLoop = false)
    (hnames : (f.params.map (·.1) ++ f.body.declNames).Nodup) (h : linCheck f = []) : AllLinear f :=
  Verif.Proofs.Lin.sound_fn_branching f hfrag hnames h

/-- non-vacuity: an accepted function with an optional binding, an `if`/`else` whose branches both
    invalidate, a branch that invalidates and returns, and a halting else branch -/
example : ∃ f : Fn, f.body.hasLoop = false ∧ (f.params.map (·.1) ++ f.body.declNames).Nodup ∧ linCheck f = [] ∧
    f.body.hasIflet = true :=
  ⟨{ params := [("p", 1), ("q", 2)],
     body := .ofList [
       .iflet "y" 10 "p" 15 (.ofList [.atom (.use "y"), .atom (.destroy "y" 30)]) .nop,
       .atom (.letR "r" 40 .create),
       .ite (.ofList [.atom (.destroy "r" 50), .atom (.destroy "q" 55), .atom .ret]) .nop,
       .ite (.ofList [.atom (.eat "r" 60)]) (.ofList [.atom (.destroy "r" 70)]),
       .ite (.ofList [.atom (.destroy "q" 80)]) (.ofList [.atom .panic])] },
   by decide, by decide, by decide, by decide⟩

/-- **Soundness, straight-line fragment** (a corollary of `sound_branching_partial`). -/
theorem sound_straightline_partial (f : Fn) (hfrag : f.body.hasBranch = false)
    (hnames : (f.params.map (·.1) ++ f.body.declNames).Nodup) (h : linCheck f = []) : AllLinear f :=
  sound_branching_partial f (Verif.Proofs.Lin.hasLoop_of_noBranch _ hfrag) hnames h

/-- non-vacuity: an accepted function with a parameter, a move, a use and an early return -/
example : ∃ f : Fn, f.body.hasBranch = false ∧ (f.params.map (·.1) ++ f.body.declNames).Nodup ∧ linCheck f = [] ∧
    f.body ≠ .nop :=
  ⟨{ params := [("p", 1)],
     body := .ofList [.atom (.letR "r" 10 (.move "p" 15)), .atom (.use "r"), .atom (.destroy "r" 30), .atom .ret] },
   by decide, by decide, by decide, by decide⟩

/-- **Soundness with loops (semantic hypothesis).**  For functions without `break`/`continue`: if
    the port reports nothing and no loop body that can fall through leaves an invalidation of a
    resource declared outside the body (`loopsClean`, computed from the checker's own states),
    every path is linear.  The hypothesis cannot be dropped: `unsound_witness_loop_then_halt`. -/
theorem sound_loops_clean_partial (f : Fn) (hjump : f.body.hasJump = false) (hclean : loopsClean f = true)
    (hnames : (f.params.map (·.1) ++ f.body.declNames).Nodup) (h : linCheck f = []) : AllLinear f :=
  Verif.Proofs.Lin.sound_fn f (Or.inr hjump) hclean hnames h

/-- non-vacuity: loops that use an outer resource, own a resource, and invalidate an outer
    resource before returning -/
example : ∃ f : Fn, f.body.hasJump = false ∧ loopsClean f = true ∧
    (f.params.map (·.1) ++ f.body.declNames).Nodup ∧ linCheck f = [] ∧ f.body.hasLoop = true :=
  ⟨{ params := [("p", 1)],
     body := .ofList [
       .while (.ofList [.atom (.use "p"), .atom (.letR "x" 20 .create), .atom (.destroy "x" 30)]),
       .while (.ofList [.atom (.destroy "p" 50), .atom .ret]),
       .atom (.destroy "p" 70)] },
   by decide, by decide, by decide, by decide, by decide⟩

/-- **Soundness with loops.**  For functions without `break`/`continue`: if the port reports
    nothing and no `panic` textually follows (in the same or an enclosing statement list) a loop
    whose body invalidates a variable it does not declare, every path is linear.  The hypothesis
    is syntactic and decidable; it excludes exactly the shape of `unsound_witness_loop_then_halt`
    (see the `example`s below).  Missing for the full statement: `break`/`continue` inside loops
    (where the statement is false as well: `unsound_witness_break_in_returning_branch`). -/
theorem sound_loops_partial (f : Fn) (hjump : f.body.hasJump = false)
    (hnohalt : noHaltAfterInvalidatingLoop f = true)
    (hnames : (f.params.map (·.1) ++ f.body.declNames).Nodup) (h : linCheck f = []) : AllLinear f :=
  sound_loops_clean_partial f hjump
    (Verif.Proofs.Lin.loopsClean_of_accept f hjump hnohalt hnames h) hnames h

/-- non-vacuity: a loop using an outer resource and owning one, a halting branch, then a loop
    that invalidates the outer resource and returns -/
example : ∃ f : Fn, f.body.hasJump = false ∧ noHaltAfterInvalidatingLoop f = true ∧
    (f.params.map (·.1) ++ f.body.declNames).Nodup ∧ linCheck f = [] ∧
    f.body.hasInvalidatingLoop = true ∧ f.body.hasHalt = true :=
  ⟨{ params := [("p", 1)],
     body := .ofList [
       .while (.ofList [.atom (.use "p"), .atom (.letR "x" 20 .create), .atom (.destroy "x" 30)]),
       .ite (.ofList [.atom .panic]) .nop,
       .while (.ofList [.atom (.destroy "p" 50), .atom .ret]),
       .atom (.destroy "p" 70)] },
   by decide, by decide, by decide, by decide, by decide, by decide⟩

/-- the merge of `Resources.MergeBranches`, pointwise: the invalidation of `x` after the branches is
    the outer one if there is one, else `mergeResourceInfos` of the branches' (all states, all
    variables; the lemma the conditional case of soundness rests on) -/
theorem merge_pointwise (s : St) (ti : Invs) (tri : RI) (e : Option (Invs × RI)) (x : Var) :
    Invs.get (s.merged (mergeInvs s.inv ti tri e)).inv x =
      (match Invs.get s.inv x with
       | some k => some k
       | none => mergeInfos (Invs.get ti x) tri (e.map fun p => (Invs.get p.1 x, p.2))) :=
  Verif.Proofs.Lin.merged_get s ti tri e x

/-- errors are only ever added: a statement checked from a state with an error ends with an error -/
theorem errors_accumulate (t : Stmt) (s : St) : ∃ l, (check s t).errs = l ++ s.errs :=
  Verif.Proofs.Lin.check_errs t s

/-- **The judge's enumeration is sound.**  Every path the executable judge enumerates (loops
    unrolled at most `k` times) is a path of the semantics, for every function. -/
theorem judge_paths_are_paths (k : Nat) (f : Fn) : ∀ p ∈ fnPathsN k f, FnPath f p.1 p.2 :=
  Verif.Proofs.Lin.fnPathsN_sound k f

/-- so a "not linear" verdict of the judge is exact: the function has a non-linear path -/
theorem judge_nonlinear_exact (k : Nat) (f : Fn) (h : allLinearN k f = false) : ¬ AllLinear f := by
  intro hall
  have : ∃ p ∈ fnPathsN k f, linearB p.1 = false := by
    simp only [allLinearN] at h
    have := List.all_eq_false.1 h
    obtain ⟨p, hp, hb⟩ := this
    exact ⟨p, hp, by simpa using hb⟩
  obtain ⟨p, hp, hb⟩ := this
  have hl := hall p.1 p.2 (judge_paths_are_paths k f p hp)
  unfold Linear at hl
  unfold linearB at hb
  rw [hb] at hl
  exact absurd hl (by simp)

example : allLinearN 2 ⟨[("p", 1)], .ofList [.ite (.ofList [.atom (.destroy "p" 5)]) .nop]⟩ = false := by decide

/-- **The judge is exact for loop-free functions**, in both directions and for every unroll bound:
    the enumeration contains every path.  This is the loop-free part of `paths_unroll2_complete`
    (`allLinearN 2 f = true → AllLinear f` for all `f` with unique names); missing: loops, where two
    unrollings suffice because per variable an iteration maps valid ↦ valid | gone and gone ↦ gone. -/
theorem judge_exact_loopfree_partial (k : Nat) (f : Fn) (h : f.body.hasLoop = false) :
    allLinearN k f = true ↔ AllLinear f := by
  constructor
  · intro hall π o hp
    obtain ⟨p, hpm, rfl⟩ := Verif.Proofs.Lin.fnPathsN_complete_noloop k f h hp
    have := List.all_eq_true.1 hall p hpm
    exact this
  · intro hall
    cases hb : allLinearN k f with
    | true => rfl
    | false => exact absurd hall (judge_nonlinear_exact k f hb)

example : ∃ f : Fn, f.body.hasLoop = false ∧ f.body.hasBranch = true ∧ allLinearN 2 f = true :=
  ⟨⟨[("p", 1)], .ofList [.ite (.ofList [.atom (.destroy "p" 5)]) (.ofList [.atom (.eat "p" 9)])]⟩,
   by decide, by decide, by decide⟩

/-! ## Findings -/

/-- `let r <- create R(); while c { destroy r }; panic("")` -/
def loopHaltFn : Fn :=
  { params := [], body := .ofList [.atom (.letR "r" 10 .create), .while (.ofList [.atom (.destroy "r" 40)]), .atom .panic] }

/-- **Finding (unsound)**: the checker accepts a function with a path (two loop iterations) that
    destroys `r` twice: the potential invalidation after the loop is only ever reported as a loss
    at the end of `r`'s scope, and a halt suppresses that report. -/
theorem unsound_witness_loop_then_halt : linCheck loopHaltFn = [] ∧ ¬ AllLinear loopHaltFn :=
  ⟨by decide, judge_nonlinear_exact 2 loopHaltFn (by decide)⟩

/-- `var r <- create R(); while c { if c { destroy r; if c { break }; return } }; destroy r` -/
def breakReturnFn : Fn :=
  { params := [], body := .ofList [.atom (.letR "r" 10 .create),
      .while (.ofList [.ite (.ofList [.atom (.destroy "r" 30), .ite (.ofList [.atom (.brk 40)]) .nop, .atom .ret]) .nop]),
      .atom (.destroy "r" 80)] }

/-- **Finding (unsound)**: the then branch "definitely returned" (its last statement is a
    `return`), so `mergeResourceInfos` drops its invalidation of `r` — but a path leaves the branch
    by `break` after destroying `r`, falls out of the loop, and destroys `r` again.  (The loop
    clears the definite-return flag when a jump occurred, the conditional merge inside the loop
    body does not.)  Found by the soundness proof: the invariant for `break` paths fails here. -/
theorem unsound_witness_break_in_returning_branch : linCheck breakReturnFn = [] ∧ ¬ AllLinear breakReturnFn :=
  ⟨by decide, judge_nonlinear_exact 2 breakReturnFn (by decide)⟩

/-- the hypothesis of `sound_loops_partial` excludes exactly this function -/
example : loopHaltFn.body.hasJump = false ∧ noHaltAfterInvalidatingLoop loopHaltFn = false ∧ loopsClean loopHaltFn = false := by
  decide

/-- `while c { let x <- create R(); if c { destroy x; break }; destroy x }` -/
def breakFn : Fn :=
  { params := [], body := .ofList [.while (.ofList [.atom (.letR "x" 10 .create),
      .ite (.ofList [.atom (.destroy "x" 30), .atom (.brk 40)]) .nop, .atom (.destroy "x" 60)])] }

/-- **Finding (incomplete)**: cleanup before `break`/`continue` in a branch: the branch does not
    "definitely return", so its invalidation is merged as potential. -/
theorem incomplete_witness_break : linCheck breakFn ≠ [] ∧ allLinearN 2 breakFn = true := by
  exact ⟨by decide, by decide⟩

/-- `let r <- create R(); if c { destroy r; panic("") }; destroy r` -/
def haltBranchFn : Fn :=
  { params := [], body := .ofList [.atom (.letR "r" 10 .create),
      .ite (.ofList [.atom (.destroy "r" 30), .atom .panic]) .nop, .atom (.destroy "r" 60)] }

/-- **Finding (incomplete)**: a branch that invalidates and then halts. -/
theorem incomplete_witness_halt : linCheck haltBranchFn ≠ [] ∧ allLinearN 2 haltBranchFn = true := by
  exact ⟨by decide, by decide⟩

/-- `fun f(p) { if c { if c { destroy p; return } else { destroy p; return } } else { destroy p } }` -/
def nestedReturnFn : Fn :=
  { params := [("p", 1)], body := .ofList [
      .ite (.ofList [.ite (.ofList [.atom (.destroy "p" 20), .atom .ret]) (.ofList [.atom (.destroy "p" 40), .atom .ret])])
           (.ofList [.atom (.destroy "p" 60)])] }

/-- **Finding (incomplete)**: both inner branches invalidate and return: the inner merge forgets the
    invalidation, the outer merge then sees "only the else branch invalidates" and, because the
    then branch returned (not halted), makes it potential. -/
theorem incomplete_witness_nested_return : linCheck nestedReturnFn ≠ [] ∧ allLinearN 2 nestedReturnFn = true := by
  exact ⟨by decide, by decide⟩

/-- `let r <- create R(); while c { if c { continue }; destroy r; return }; destroy r` -/
def jumpBeforeFn : Fn :=
  { params := [], body := .ofList [.atom (.letR "r" 10 .create),
      .while (.ofList [.ite (.ofList [.atom (.cont 30)]) .nop, .atom (.destroy "r" 50), .atom .ret]),
      .atom (.destroy "r" 80)] }

/-- **Finding (incomplete)**: a jump between the declaration and the invalidation makes the
    invalidation potential although the path through the jump never reaches it. -/
theorem incomplete_witness_jump_before_invalidation :
    linCheck jumpBeforeFn ≠ [] ∧ allLinearN 2 jumpBeforeFn = true := by
  exact ⟨by decide, by decide⟩

end Verif.Properties.C03
