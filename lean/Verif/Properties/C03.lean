import Verif.Proofs.Lin.Sound
import Verif.Proofs.Lin.Enum
/-!
# C03 — The checker rejects every resource-linearity violation

Model: `Verif.Model.Lin.Linearity` — a port of the checker's resource tracking (`linCheck`), tied to
`/repo/sema` by the stream `lin` (the multiset of error kinds of the real checker equals the port's
on the real parser's AST).  Judge: `Verif.Spec.Paths` — path semantics, `AllLinear f` = every path of
`f` is linear.

Full-strength statements (the property):
  sound    : names unique → linCheck f = [] → AllLinear f
  complete : names unique → no unreachable statement → AllLinear f → linCheck f = []
Both are FALSE for the code as it is: `unsound_witness_loop_then_halt` and the four
`incomplete_witness_*` theorems below are counterexamples in the port, replayed on the Go checker
by the stream (corpus/lin/findings.txt; known findings of C03).

Proved: `sound_straightline_partial` — soundness for functions without conditionals and loops
(declarations, moves, destroy, uses, swap, return, panic, unreachable-statement handling), with the
abstraction invariant `Verif.Proofs.Lin.Inv` (no recorded invalidation ⇒ valid on the path,
definite invalidation ⇒ gone, exactly the variables in scope are present).  Missing for the full
fragment: the merge cases (`if/else`, optional binding: needs the characterisation `merged_get` of
`Resources.MergeBranches`, proved in `Proofs/Lin/Check.lean`, carried through the induction) and
loops (false as stated, see the witness; true under "no `panic` after a loop").
-/
namespace Verif.Properties.C03
open Verif.Model.Lin Verif.Spec.Paths

/-- **Soundness, straight-line fragment.**  If the port of the checker reports nothing for a
    function without conditionals and loops, every path of the function is linear. -/
theorem sound_straightline_partial (f : Fn) (hfrag : f.body.hasBranch = false)
    (hnames : (f.params.map (·.1) ++ f.body.declNames).Nodup) (h : linCheck f = []) : AllLinear f :=
  Verif.Proofs.Lin.sound_fn_straight f hfrag hnames h

/-- non-vacuity: an accepted function with a parameter, a move, a use and an early return -/
example : ∃ f : Fn, f.body.hasBranch = false ∧ (f.params.map (·.1) ++ f.body.declNames).Nodup ∧ linCheck f = [] ∧
    f.body ≠ .nop :=
  ⟨{ params := [("p", 1)],
     body := .ofList [.atom (.letR "r" 10 (.move "p" 15)), .atom (.use "r"), .atom (.destroy "r" 30), .atom .ret] },
   by decide, by decide, by decide, by decide⟩

/-- the merge of `Resources.MergeBranches`, pointwise: the invalidation of `x` after the branches is
    the outer one if there is one, else `mergeResourceInfos` of the branches' (all states, all
    variables; the lemma the conditional case of soundness rests on) -/
theorem merge_pointwise (s : St) (ti : Invs) (tri : RI) (e : Option (Invs × RI)) (x : Var) :
    Invs.get (s.merged (mergeInvs s.inv ti tri e)).inv x =
      (match Invs.get s.inv x with
       | some k => some k
       | none => mergeInfos (Invs.get ti x) tri (e.map fun p => (Invs.get p.1 x, p.2))) :=
  Verif.Proofs.Lin.merged_get s ti tri e x

/-- errors are only ever added: a statement checked from a state with an error ends with an error -/
theorem errors_accumulate (t : Stmt) (s : St) : ∃ l, (check s t).errs = l ++ s.errs :=
  Verif.Proofs.Lin.check_errs t s

/-- **The judge's enumeration is sound.**  Every path the executable judge enumerates (loops
    unrolled at most `k` times) is a path of the semantics, for every function. -/
theorem judge_paths_are_paths (k : Nat) (f : Fn) : ∀ p ∈ fnPathsN k f, FnPath f p.1 p.2 :=
  Verif.Proofs.Lin.fnPathsN_sound k f

/-- so a "not linear" verdict of the judge is exact: the function has a non-linear path -/
theorem judge_nonlinear_exact (k : Nat) (f : Fn) (h : allLinearN k f = false) : ¬ AllLinear f := by
  intro hall
  have : ∃ p ∈ fnPathsN k f, linearB p.1 = false := by
    simp only [allLinearN] at h
    have := List.all_eq_false.1 h
    obtain ⟨p, hp, hb⟩ := this
    exact ⟨p, hp, by simpa using hb⟩
  obtain ⟨p, hp, hb⟩ := this
  have hl := hall p.1 p.2 (judge_paths_are_paths k f p hp)
  unfold Linear at hl
  unfold linearB at hb
  rw [hb] at hl
  exact absurd hl (by simp)

example : allLinearN 2 ⟨[("p", 1)], .ofList [.ite (.ofList [.atom (.destroy "p" 5)]) .nop]⟩ = false := by decide

/-! ## Findings -/

/-- `let r <- create R(); while c { destroy r }; panic("")` -/
def loopHaltFn : Fn :=
  { params := [], body := .ofList [.atom (.letR "r" 10 .create), .while (.ofList [.atom (.destroy "r" 40)]), .atom .panic] }

/-- **Finding (unsound)**: the checker accepts a function with a path (two loop iterations) that
    destroys `r` twice: the potential invalidation after the loop is only ever reported as a loss
    at the end of `r`'s scope, and a halt suppresses that report. -/
theorem unsound_witness_loop_then_halt : linCheck loopHaltFn = [] ∧ ¬ AllLinear loopHaltFn :=
  ⟨by decide, judge_nonlinear_exact 2 loopHaltFn (by decide)⟩

/-- `while c { let x <- create R(); if c { destroy x; break }; destroy x }` -/
def breakFn : Fn :=
  { params := [], body := .ofList [.while (.ofList [.atom (.letR "x" 10 .create),
      .ite (.ofList [.atom (.destroy "x" 30), .atom (.brk 40)]) .nop, .atom (.destroy "x" 60)])] }

/-- **Finding (incomplete)**: cleanup before `break`/`continue` in a branch: the branch does not
    "definitely return", so its invalidation is merged as potential. -/
theorem incomplete_witness_break : linCheck breakFn ≠ [] ∧ allLinearN 2 breakFn = true := by
  exact ⟨by decide, by decide⟩

/-- `let r <- create R(); if c { destroy r; panic("") }; destroy r` -/
def haltBranchFn : Fn :=
  { params := [], body := .ofList [.atom (.letR "r" 10 .create),
      .ite (.ofList [.atom (.destroy "r" 30), .atom .panic]) .nop, .atom (.destroy "r" 60)] }

/-- **Finding (incomplete)**: a branch that invalidates and then halts. -/
theorem incomplete_witness_halt : linCheck haltBranchFn ≠ [] ∧ allLinearN 2 haltBranchFn = true := by
  exact ⟨by decide, by decide⟩

/-- `fun f(p) { if c { if c { destroy p; return } else { destroy p; return } } else { destroy p } }` -/
def nestedReturnFn : Fn :=
  { params := [("p", 1)], body := .ofList [
      .ite (.ofList [.ite (.ofList [.atom (.destroy "p" 20), .atom .ret]) (.ofList [.atom (.destroy "p" 40), .atom .ret])])
           (.ofList [.atom (.destroy "p" 60)])] }

/-- **Finding (incomplete)**: both inner branches invalidate and return: the inner merge forgets the
    invalidation, the outer merge then sees "only the else branch invalidates" and, because the
    then branch returned (not halted), makes it potential. -/
theorem incomplete_witness_nested_return : linCheck nestedReturnFn ≠ [] ∧ allLinearN 2 nestedReturnFn = true := by
  exact ⟨by decide, by decide⟩

/-- `let r <- create R(); while c { if c { continue }; destroy r; return }; destroy r` -/
def jumpBeforeFn : Fn :=
  { params := [], body := .ofList [.atom (.letR "r" 10 .create),
      .while (.ofList [.ite (.ofList [.atom (.cont 30)]) .nop, .atom (.destroy "r" 50), .atom .ret]),
      .atom (.destroy "r" 80)] }

/-- **Finding (incomplete)**: a jump between the declaration and the invalidation makes the
    invalidation potential although the path through the jump never reaches it. -/
theorem incomplete_witness_jump_before_invalidation :
    linCheck jumpBeforeFn ≠ [] ∧ allLinearN 2 jumpBeforeFn = true := by
  exact ⟨by decide, by decide⟩

end Verif.Properties.C03
