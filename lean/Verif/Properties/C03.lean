import Verif.Model.Lin.Linearity
import Verif.Spec.Paths
/-!
# C03 — The checker rejects every resource-linearity violation
-/
namespace Verif.Properties.C03
open Verif.Model.Lin Verif.Spec.Paths

/-- `let r <- create R(); while c { destroy r }; panic("")` -/
def loopHaltFn : Fn :=
  { params := [], body := .ofList [.atom (.letR "r" 10 .create), .while (.ofList [.atom (.destroy "r" 40)]), .atom .panic] }

/-- **Finding (unsound)**: the port of the checker accepts a function with a path (two loop
    iterations) that destroys `r` twice. -/
theorem unsound_witness_loop_then_halt :
    linCheck loopHaltFn = [] ∧ ∃ p ∈ fnPathsN 2 loopHaltFn, ¬ Linear p.1 := by
  refine ⟨by decide, ?_⟩
  exact ⟨([.create "r", .destroy "r", .scopeEnd [], .destroy "r", .scopeEnd []], .halt), by decide, by decide⟩

end Verif.Properties.C03
