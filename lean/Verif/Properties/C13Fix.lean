/-
C13, fixed-point part — the saturating members of Fix64 (add, subtract, multiply, divide) and UFix64
(add, subtract, multiply; sema declares no saturatingDivide): the *generated* definitions
`Verif.Gen.NumFix.<T>Value.Saturating<Op>` equal `Verif.Spec.FixArith.specFixSat`: the exact result
(truncated toward zero to the scale, as for the plain operator) clamped to the type's range; the only
error is division by zero.  Fix128 / UFix128 delegate to onflow/fixed-point: stream `fix` only.
-/
import Verif.Proofs.FixArith
set_option linter.unusedVariables false
namespace Verif.Properties.C13Fix
open Verif.Model.Num Verif.Spec.Arith Verif.Spec.FixArith Verif.Gen.NumFix Verif.Proofs.Arith Verif.Proofs.FixArith

theorem C13_fix64_satadd (a b : Int) (ha : inRange (.int 64) a) (hb : inRange (.int 64) b) :
    Fix64Value.SaturatingPlus a b = specFixSat .fix64 .add a b := by
  unfold Fix64Value.SaturatingPlus; fix_arith

theorem C13_fix64_satsub (a b : Int) (ha : inRange (.int 64) a) (hb : inRange (.int 64) b) :
    Fix64Value.SaturatingMinus a b = specFixSat .fix64 .sub a b := by
  unfold Fix64Value.SaturatingMinus; fix_arith

theorem C13_fix64_satmul (a b : Int) (ha : inRange (.int 64) a) (hb : inRange (.int 64) b) :
    Fix64Value.SaturatingMul a b = specFixSat .fix64 .mul a b := by
  unfold Fix64Value.SaturatingMul
  fix_unfold
  generalize Int.tdiv (a * b) 100000000 = q
  (repeat' split) <;> first | rfl | omega | (rw [int64_of q (by omega) (by omega)])

theorem C13_fix64_satdiv (a b : Int) (ha : inRange (.int 64) a) (hb : inRange (.int 64) b) :
    Fix64Value.SaturatingDiv a b = specFixSat .fix64 .div a b := by
  unfold Fix64Value.SaturatingDiv
  fix_unfold
  generalize Int.tdiv (a * 100000000) b = q
  (repeat' split) <;> first | rfl | omega | (rw [int64_of q (by omega) (by omega)])

theorem C13_ufix64_satadd (a b : Int) (ha : inRange (.uint 64) a) (hb : inRange (.uint 64) b) :
    UFix64Value.SaturatingPlus a b = specFixSat .ufix64 .add a b := by
  unfold UFix64Value.SaturatingPlus; fix_arith

theorem C13_ufix64_satsub (a b : Int) (ha : inRange (.uint 64) a) (hb : inRange (.uint 64) b) :
    UFix64Value.SaturatingMinus a b = specFixSat .ufix64 .sub a b := by
  unfold UFix64Value.SaturatingMinus; fix_arith

theorem C13_ufix64_satmul (a b : Int) (ha : inRange (.uint 64) a) (hb : inRange (.uint 64) b) :
    UFix64Value.SaturatingMul a b = specFixSat .ufix64 .mul a b := by
  unfold UFix64Value.SaturatingMul
  have hq : 0 ≤ Int.tdiv (a * b) 100000000 := Int.tdiv_nonneg (Int.mul_nonneg ha.1 hb.1) (by decide)
  fix_unfold
  generalize Int.tdiv (a * b) 100000000 = q at *
  simp only [isUint64_iff]
  (repeat' split) <;> first | rfl | omega | (rw [uint64_of q (by omega) (by omega)])

example : Fix64Value.SaturatingMul 9223372036854775807 200000000 = .ok 9223372036854775807 ∧
    Fix64Value.SaturatingDiv (-9223372036854775808) (-100000000) = .ok 9223372036854775807 ∧
    UFix64Value.SaturatingMinus 1 2 = .ok 0 := by decide

end Verif.Properties.C13Fix
