import Verif.Proofs.Lang2Heap
import Verif.Model.Lang2.Eval
/-!
# C05 — Non-resource values have copy semantics

Theorems about the μCadence L2 object heap (`Verif.Model.Lang2`, tied to /repo's interpreter and VM by
the stream `copysem`).  Values of struct / array / dictionary kind are pointers into a heap of cells;
`transfer` (what the evaluator performs at every declaration, assignment, argument, return, field write,
container insert, storage save / load / copy) of a non-resource value is the deep copy `copyVal`.

All statements are for **every** heap, value, fuel and mutation history (no bound).  `Reach h v id`
is the reachable identity set of a value, `dumpVal m h v` the full structural observation of `v` (what
the stream's dump functions log), `Mutated P h h2` any sequence of cell writes / allocations confined to
the identities in `P`.
-/
namespace Verif.Properties.C05
open Verif.Model.Lang2

/-- **fresh copy**: after the transfer of a non-resource value the reachable identity sets of the
source and of the result are disjoint (in the heap after the transfer). -/
theorem fresh_copy (n : Nat) (h h' : Heap) (v v' : Val)
    (hwf : WF h) (hv : ∀ j ∈ v.ptrs, j < h.length)
    (hc : copyVal n h v = some (h', v')) :
    ∀ id, Reach h' v id → ¬ Reach h' v' id := by
  intro id hsrc hres
  have spec := copyVal_spec n h v h' v' hc
  obtain ⟨e, rfl⟩ := spec.ext
  -- the old region is still closed in the extended heap
  have hcl_old : Closed (· < h.length) (h ++ e) := by
    intro i c hi hget
    rw [List.getElem?_append_left hi] at hget
    exact hwf i c hi hget
  have hcl_new : Closed (fun i => h.length ≤ i) (h ++ e) := by
    intro i c hi hget j hj
    exact (spec.closed i c hi hget j hj).1
  have h1 := reach_in_closed hcl_old hv id hsrc
  have h2 := reach_in_closed hcl_new (fun j hj => (spec.fresh j hj).1) id hres
  omega

/-- the evaluator's `transfer` of a non-resource value *is* that deep copy -/
theorem transfer_is_copy (s : State) (v v' : Val) (hnr : isResVal s.heap v = false)
    (hok : (transfer v s).out = .ok v') :
    copyVal (heapFuel s) s.heap v = some ((transfer v s).st.heap, v') := by
  unfold transfer at hok ⊢
  cases v with
  | invalid => simp at hok
  | _ =>
    all_goals
      simp only [hnr, Bool.false_eq_true, if_false] at hok ⊢
      split at hok
      · next h' w heq => simp at hok; subst hok; simp [heq]
      · simp at hok

/-- **independence, copy mutated**: after the copy, *any* history of writes and allocations confined to
identities at or above the old heap size — in particular every write through the copy, through a part
of it, or through a reference to either, since every identity reachable from the copy stays in that
region (second conjunct) — leaves every observation of the original unchanged. -/
theorem independent (n : Nat) (h h' h2 : Heap) (v v' : Val)
    (hwf : WF h) (hv : ∀ j ∈ v.ptrs, j < h.length)
    (hc : copyVal n h v = some (h', v'))
    (hm : Mutated (fun id => h.length ≤ id) h' h2) :
    (∀ m, dumpVal m h2 v = dumpVal m h v) ∧ (∀ id, Reach h2 v' id → h.length ≤ id) := by
  have spec := copyVal_spec n h v h' v' hc
  obtain ⟨e, rfl⟩ := spec.ext
  refine ⟨fun m => ?_, ?_⟩
  · symm
    apply dumpVal_frame (S := (· < h.length)) hwf _ m v hv
    intro i hi
    rw [agreeOn_append h e i hi]
    exact hm.agree i (by simpa using hi)
  · have hcl : Closed (fun i => h.length ≤ i) (h ++ e) := by
      intro i c hi hget j hj
      exact (spec.closed i c hi hget j hj).1
    exact reach_in_closed (hm.closed hcl) (fun j hj => (spec.fresh j hj).1)

/-- **independence, original mutated**: any history of writes outside the copied region (the original's
cells, cells allocated later) leaves every observation of the copy unchanged. -/
theorem independent_rev (n : Nat) (h h' h2 : Heap) (v v' : Val)
    (hc : copyVal n h v = some (h', v'))
    (hm : Mutated (fun id => id < h.length ∨ h'.length ≤ id) h' h2) :
    ∀ m, dumpVal m h2 v' = dumpVal m h' v' := by
  intro m
  have spec := copyVal_spec n h v h' v' hc
  symm
  apply dumpVal_frame (S := fun i => h.length ≤ i ∧ i < h'.length) _ _ m v' spec.fresh
  · intro i c hi hget j hj
    exact spec.closed i c hi.1 hget j hj
  · intro i hi
    exact hm.agree i (by omega)

/-- **storage**: `copy<T>(from:)` hands out a transfer (hence, for a non-resource value, a fresh deep
copy by `transfer_is_copy`) of the stored value, and leaves the stored value in place; `save` stores a
transfer of its argument.  So `fresh_copy` / `independent` apply across save / copy / load. -/
theorem storage_copy (p : Program) (n : Nat) (ty : Ty) (path : String) (s : State) (sv : Val)
    (hs : (s.storage.find? (·.1 == path)).map (·.2) = some sv)
    (hty : conforms s.heap sv (unRefTy ty) = true) :
    eval p (n + 1) (.sto .copy ty path) s =
      (transfer sv >>= fun v' => (pure (Val.some v') : M Val)) s := by
  simp only [eval, bind, M.bind, storageGet, hs, M.get, hty, Bool.not_true, Bool.false_eq_true, if_false]
  simp [pure, M.pure]

theorem storage_save (p : Program) (n : Nat) (path : String) (x : String) (s : State) (v : Val)
    (hx : (getVar x s).out = .ok v)
    (hs : (s.storage.find? (·.1 == path)).map (·.2) = none) :
    ∃ v', (eval p (n + 2) (.save path (.var x)) s).out = .ok .void →
      (transfer v s).out = .ok v' ∧
      ((eval p (n + 2) (.save path (.var x)) s).st.storage.find? (·.1 == path)).map (·.2) = some v' := by
  have hst : (getVar x s).st = s := by unfold getVar; split <;> rfl
  cases ht : (transfer v s).out with
  | ok v' =>
    refine ⟨v', fun _ => ⟨rfl, ?_⟩⟩
    have hnone : ∀ l : List (String × Val), List.find? (fun _ => false) l = none := by
      intro l; induction l <;> simp_all [List.find?]
    simp only [eval, bind, M.bind, hx, hst, storageGet, hs, ht, storagePut, M.modify]
    simp [pure, M.pure, List.find?_append, hnone]
  | userErr k => refine ⟨.void, fun hok => ?_⟩; simp [eval, bind, M.bind, hx, hst, storageGet, hs, ht] at hok
  | internalErr k => refine ⟨.void, fun hok => ?_⟩; simp [eval, bind, M.bind, hx, hst, storageGet, hs, ht] at hok
  | outOfFuel => refine ⟨.void, fun hok => ?_⟩; simp [eval, bind, M.bind, hx, hst, storageGet, hs, ht] at hok

/-! ### non-vacuity: a concrete nested value, its copy, a mutation of the copy -/

/-- heap: cell 0 = array [1,2], cell 1 = struct P(v: 7, xs: ptr 0) -/
def h0 : Heap :=
  [⟨.arr [.int .int 1, .int .int 2], .arr (.int .int), false, 0, true⟩,
   ⟨.comp "P" [("v", .int .int 7), ("xs", .ptr 0)], .nom "P", false, 0, true⟩]

example : WF h0 := by
  intro id c hid hget j hj
  have : id = 0 ∨ id = 1 := by simp [h0] at hid; omega
  rcases this with rfl | rfl <;> simp [h0] at hget <;> subst hget <;> simp [Obj.ptrs, Obj.vals, Val.ptrs] at hj
  subst hj; simp [h0]

example : ∃ h', copyVal 10 h0 (.ptr 1) = some (h', .ptr 3) ∧ h'.length = 4 := by
  refine ⟨_, rfl, rfl⟩

example : dumpVal 10 h0 (.ptr 1) = "P(v: 7, xs: [1, 2])" := by decide

end Verif.Properties.C05
