/-
C06 — Entitlement authorization algebra is sound and upcasts never escalate.

Model: Verif.Model.Auth (port of sema/access.go: PermitsAccess, Equal, IntersectAccess, Image).
Spec:  Verif.Spec.Auth (holder sets, `⟦a⟧ = den a`, `sat req H`).
All theorems are for an arbitrary entitlement type `ε` with decidable equality (no bound on the
universe or on set sizes).  Only statements and final proofs live here; lemmas are in
Verif.Proofs.Auth.
-/
import Verif.Proofs.Auth
namespace Verif.Properties.C06
open Verif.Model.Auth Verif.Spec.Auth Verif.Proofs.Auth

variable {ε : Type} [DecidableEq ε]

/-- **Permission check = set semantics.**  For authorizations a reference type can carry
    (unauthorized, non-empty conjunction, non-empty disjunction), `req.PermitsAccess(held)` holds
    exactly when every holder set a holder of `held` may possess satisfies `req`
    (conjunction: every listed entitlement; disjunction: at least one). -/
theorem permits_exact (req held : Access ε) (hr : IsAuth req) (hh : IsAuth held) :
    permits req held = true ↔ ∀ H : List ε, den held H → sat req H = true :=
  permits_iff req held hr hh

/-- `PermitsAccess` is a preorder on authorizations (this is what reference subtyping,
    `auth(a) &T <: auth(b) &T ⇔ b.PermitsAccess(a)`, needs in C08). -/
theorem permits_refl (a : Access ε) (ha : IsAuth a) : permits a a = true :=
  (permits_iff a a ha ha).mpr (fun H h => (den_iff_sat a H).mp h)

theorem permits_trans (a b c : Access ε) (ha : IsAuth a) (hb : IsAuth b) (hc : IsAuth c)
    (hab : permits a b = true) (hbc : permits b c = true) : permits a c = true :=
  (permits_iff a c ha hc).mpr (fun H h =>
    (permits_iff a b ha hb).mp hab H ((den_iff_sat b H).mpr ((permits_iff b c hb hc).mp hbc H h)))

/-- `Equal` implies the same denotation (never identifies authorizations that differ in meaning). -/
theorem equal_sound (a b : Access ε) (ha : IsAuth a) (hb : IsAuth b) (h : equal a b = true) :
    ∀ H : List ε, den a H ↔ den b H :=
  equal_den a b ha hb h

/-- **Nested-access narrowing.**  `IntersectAccess a b` is again an authorization, and every holder
    of `a` and every holder of `b` satisfies it: it never grants more than either source. -/
theorem intersect_sound (a b : Access ε) (ha : IsAuth a) (hb : IsAuth b) :
    IsAuth (intersect a b) ∧ ∀ H : List ε, den a H ∨ den b H → den (intersect a b) H :=
  ⟨intersect_isAuth a b ha hb, intersect_den a b ha hb⟩

/-- … hence anything `intersect a b` permits is permitted by both. -/
theorem intersect_permits (req a b : Access ε) (hr : IsAuth req) (ha : IsAuth a) (hb : IsAuth b)
    (h : permits req (intersect a b) = true) : permits req a = true ∧ permits req b = true := by
  have hi := intersect_isAuth a b ha hb
  have hs := (permits_iff req _ hr hi).mp h
  exact ⟨(permits_iff req a hr ha).mpr (fun H hH => hs H (intersect_den a b ha hb H (.inl hH))),
         (permits_iff req b hr hb).mpr (fun H hH => hs H (intersect_den a b ha hb H (.inr hH)))⟩

/-- When either side is not an entitlement set (unauthorized, any primitive access, a mapping
    access) the intersection is unauthorized. -/
theorem intersect_non_set (a b : Access ε) (h : (∀ k es, a ≠ .set k es) ∨ (∀ k es, b ≠ .set k es)) :
    intersect a b = unauthorized :=
  intersect_non_set' a b h

/-- **Mapping image is sound.**  Whatever `M.Image(a)` grants is satisfied by the mapped entitlements
    `M(H)` of *every* holder set `H` of `a` (with or without `Identity`; include chains are flattened
    into `relations` by the checker before `Image` runs). -/
theorem image_sound (m : Mapping ε) (a r : Access ε) (ha : IsAuth a) (h : image m a = some r) :
    IsAuth r ∧ ∀ H : List ε, den a H → den r (applyMap m H) :=
  ⟨image_isAuth m a r ha h, image_den m a r ha h⟩

/-- **Mapping image is monotone** along `PermitsAccess`: if a holder of `a` may be viewed as a holder
    of `b` (`b` permits `a`, i.e. `auth(a) &T <: auth(b) &T`), what the mapping grants through `b` is
    permitted to what it grants through `a` — going through the supertype never yields more. -/
theorem image_monotone (m : Mapping ε) (a b ra rb : Access ε) (ha : IsAuth a) (hb : IsAuth b)
    (hab : permits b a = true) (h1 : image m a = some ra) (h2 : image m b = some rb) :
    permits rb ra = true :=
  image_mono m a b ra rb ha hb hab h1 h2

/-- **Upcasts never escalate** (as far as the reference-subtyping rule goes: `auth(a) &T <: auth(b) &U`
    requires `b.PermitsAccess(a)`; the `T <: U` part is C08).  For a holder of the original
    authorization `a`, going through the upcast authorization `b`:
    (1) every member readable through `b` is readable through `a`;
    (2) the authorization derived for a nested reference `auth(c) &V` through `b` is satisfied by
        every holder of `a` (and of `c`): nothing is gained;
    (3) the authorization derived through an entitlement mapping from `b` is satisfied by the mapped
        entitlements of every holder of `a`, and is permitted to the one derived from `a`. -/
theorem upcast_no_escalation (a b : Access ε) (ha : IsAuth a) (hb : IsAuth b) (hup : permits b a = true) :
    (∀ req, IsAuth req → permits req b = true → permits req a = true) ∧
    (∀ c, IsAuth c → ∀ H : List ε, den a H ∨ den c H → den (intersect b c) H) ∧
    (∀ m rb, image m b = some rb →
        (∀ H : List ε, den a H → den rb (applyMap m H)) ∧
        (∀ ra, image m a = some ra → permits rb ra = true)) := by
  have hden : ∀ H : List ε, den a H → den b H := fun H h =>
    (den_iff_sat b H).mpr ((permits_iff b a hb ha).mp hup H h)
  refine ⟨fun req hr h => permits_trans req b a hr hb ha h hup, ?_, ?_⟩
  · intro c hc H h
    exact intersect_den b c hb hc H (h.imp (hden H) id)
  · intro m rb hrb
    exact ⟨fun H h => image_den m b rb hb hrb H (hden H h),
           fun ra hra => image_mono m a b ra rb ha hb hup hra hrb⟩

/-- The defect repaired by `fix:` ecb3aaf, as a fact about the *old* rule: computing the image of a
    disjunction from the non-empty member images only (`d:{A,B}` through `{B ↦ C}` = `d:{C}`) is
    unsound — the holder set `{A}` belongs to `⟦A | B⟧` but its mapped set is empty.  The model of
    the repaired code answers `unauthorized`. -/
theorem image_disjunction_empty_member_witness :
    let m : Mapping Nat := { id := 0, relations := [(1, 2)], includesIdentity := false }
    den (.set .disj [0, 1]) [0] ∧ ¬ den (.set .disj (imageOutput m [0, 1])) (applyMap m [0]) ∧
    image m (.set .disj [0, 1]) = some unauthorized := by
  refine ⟨⟨0, by decide, by decide⟩, ?_, by decide⟩
  rw [den_iff_sat]
  decide

/-! Non-vacuity: the hypotheses are satisfiable by non-trivial cases, and the statements have teeth. -/
example : permits (.set .conj [1, 2]) (.set .conj [2, 3, 1] : Access Nat) = true := by decide
example : permits (.set .conj [1, 2]) (.set .conj [1] : Access Nat) = false := by decide
example : permits (.set .disj [1, 2]) (.set .conj [3, 2] : Access Nat) = true := by decide
example : permits (.set .conj [1]) (.set .disj [1, 2] : Access Nat) = false := by decide
example : intersect (.set .conj [1, 2, 3]) (.set .conj [3, 4, 1] : Access Nat) = .set .conj [1, 3] := by decide
example : intersect (.set .conj [1]) (.set .disj [1, 2] : Access Nat) = unauthorized := by decide
example : image { id := 0, relations := [(1, 5), (1, 6), (2, 7)], includesIdentity := true }
    (.set .conj [1, 2] : Access Nat) = some (.set .conj [5, 6, 1, 7, 2]) := by decide
example : image { id := 0, relations := [(1, 5), (1, 6)], includesIdentity := false }
    (.set .disj [1, 2] : Access Nat) = none := by decide
example : IsAuth (.set .disj [1, 2] : Access Nat) := by decide

end Verif.Properties.C06
