import Verif.Model.Caches
import Verif.Spec.SharedState
import Verif.Gen.LexerFacts
import Verif.Proofs.CachesConc
/-!
# C36 — Concurrent checking and execution behave like sequential runs

Model: `Verif.Model.Caches` part 2 — threads are sequences of atomic actions (`Load`, `Store`,
`LoadOrStore`, `once.Do`) on a shared memo cell, under *every* interleaving (a schedule is an arbitrary
list of thread indices); pools hand out arbitrary previously used objects.

What a theorem here cannot exhibit: a data race in the sense of the Go memory model (two unsynchronised
accesses, one a write).  The logic part — *given* that each access to a shared cell is one atomic
action, every interleaving yields the sequential result — is proved; that every shared location in
/repo is accessed through such a primitive is the fact obligation `sharedstate_inventory_ok`; the race
detector run of the `conc` stream is supporting exploration.
-/
namespace Verif.Properties.C36
open Verif.Model.Caches Verif.Proofs.CachesConc

/-- FX obligation: the inventory of package-level mutable variables, memo cells and pools equals the
pinned one; every variable is guarded or written only during initialisation; every memo cell is a sync
primitive; every pool resets its objects. -/
theorem sharedstate_inventory_ok : Verif.Spec.SharedState.inventoryOk = true := by decide

/-- **Safety, every interleaving.**  `n` threads read one memo cell, each through any of the three
protocols, with a pure initialiser (every thread computes the same `v` on a miss); the cell starts empty
or already filled.  After *any* schedule (any length, any order, unfair ones included): the cell is
empty or holds `v`, and every thread that has finished obtained `v` (and then the cell holds `v`). -/
theorem memo_safe {α : Type} (protos : List Protocol) (initOf : Nat → α) (v : α)
    (hpure : ∀ i, initOf i = v) (cell₀ : Option α) (h₀ : cell₀ = none ∨ cell₀ = some v)
    (schedule : List Nat) :
    let c := exec protos initOf (initial protos.length cell₀) schedule
    (c.cell = none ∨ c.cell = some v) ∧
    ∀ pc ∈ c.pcs, ∀ w, pc = PC.finished w → w = v ∧ c.cell = some v := by
  intro c
  have hinv : Inv v c := exec_inv protos initOf v hpure schedule _ (initial_inv protos.length v cell₀ h₀)
  refine ⟨hinv.1, ?_⟩
  intro pc hpc w hw
  rcases hinv.2 pc hpc with h | h | ⟨h, hc⟩
  · rw [h] at hw; cases hw
  · rw [h] at hw; cases hw
  · rw [h] at hw; cases hw; exact ⟨rfl, hc⟩

/-- **Completion.**  If every thread is scheduled at least twice (each protocol needs at most two atomic
actions), every thread has finished with `v` and the final state of the cell is `v`. -/
theorem memo_complete {α : Type} (protos : List Protocol) (initOf : Nat → α) (v : α)
    (hpure : ∀ i, initOf i = v) (cell₀ : Option α) (h₀ : cell₀ = none ∨ cell₀ = some v)
    (schedule : List Nat) (hfair : ∀ i, i < protos.length → 2 ≤ schedule.count i) :
    (exec protos initOf (initial protos.length cell₀) schedule).pcs = List.replicate protos.length (PC.finished v) ∧
    (0 < protos.length → (exec protos initOf (initial protos.length cell₀) schedule).cell = some v) := by
  have hsafe := memo_safe protos initOf v hpure cell₀ h₀ schedule
  simp only at hsafe
  have hlen : (exec protos initOf (initial protos.length cell₀) schedule).pcs.length = protos.length := by
    rw [exec_length]; simp [initial]
  have hall : ∀ pc ∈ (exec protos initOf (initial protos.length cell₀) schedule).pcs, pc = PC.finished v := by
    intro pc hpc
    obtain ⟨i, hi, hget⟩ := List.getElem_of_mem hpc
    have hi' : i < protos.length := by omega
    have hr := exec_rank protos initOf i schedule (initial protos.length cell₀) (by simp [initial])
    have h2 := hfair i hi'
    have hinit : rankAt (initial protos.length cell₀ : Config α) i ≤ 2 := by
      simp only [rankAt, initial]
      cases h : (List.replicate protos.length (PC.start : PC α))[i]? with
      | none => simp
      | some q =>
        have := List.mem_of_getElem? h
        simp [List.mem_replicate] at this
        simp [this.2, rank]
    have hzero : rankAt (exec protos initOf (initial protos.length cell₀) schedule) i = 0 := by omega
    have hsome : (exec protos initOf (initial protos.length cell₀) schedule).pcs[i]? = some pc := by
      rw [List.getElem?_eq_getElem hi, hget]
    simp only [rankAt, hsome] at hzero
    obtain ⟨w, hw⟩ := rank_zero_finished pc hzero
    have := (hsafe.2 pc hpc w hw).1
    rw [hw, this]
  refine ⟨?_, ?_⟩
  · rw [List.eq_replicate_iff]; exact ⟨hlen, hall⟩
  · intro hpos
    have hne : (exec protos initOf (initial protos.length cell₀) schedule).pcs ≠ [] := by
      intro h; rw [h] at hlen; simp at hlen; omega
    obtain ⟨pc, hpc⟩ := List.exists_mem_of_ne_nil _ hne
    exact (hsafe.2 pc hpc v (hall pc hpc)).2

/-- **Linearizability / equivalence with sequential runs.**  Any two complete schedules — in particular
an arbitrary interleaving and the sequential one `[0,0,1,1,…]` — end in the same configuration: same
value obtained by every thread, same final cell. -/
theorem memo_linearizable {α : Type} (protos : List Protocol) (initOf : Nat → α) (v : α)
    (hpure : ∀ i, initOf i = v) (cell₀ : Option α) (h₀ : cell₀ = none ∨ cell₀ = some v)
    (s₁ s₂ : List Nat) (hn : 0 < protos.length)
    (f₁ : ∀ i, i < protos.length → 2 ≤ s₁.count i) (f₂ : ∀ i, i < protos.length → 2 ≤ s₂.count i) :
    (exec protos initOf (initial protos.length cell₀) s₁).pcs = (exec protos initOf (initial protos.length cell₀) s₂).pcs ∧
    (exec protos initOf (initial protos.length cell₀) s₁).cell = (exec protos initOf (initial protos.length cell₀) s₂).cell := by
  have a := memo_complete protos initOf v hpure cell₀ h₀ s₁ f₁
  have b := memo_complete protos initOf v hpure cell₀ h₀ s₂ f₂
  exact ⟨by rw [a.1, b.1], by rw [a.2 hn, b.2 hn]⟩

/-- Purity is necessary for the load/store protocol: with an initialiser that differs per thread, the
interleaving `load₀ load₁ store₀ store₁` hands different values to the two threads (a sequential run
would give both the same value). -/
theorem impure_init_not_linearizable :
    (exec [Protocol.loadStore, Protocol.loadStore] (fun i => i) (initial 2 none) [0, 1, 0, 1]).pcs
      = [PC.finished 0, PC.finished 1] ∧
    (exec [Protocol.loadStore, Protocol.loadStore] (fun i => i) (initial 2 none) [0, 0, 1, 1]).pcs
      = [PC.finished 0, PC.finished 0] := by decide

/-- `once.Do` and `LoadOrStore` are linearizable even then: every thread obtains the first stored value. -/
theorem once_and_loadOrStore_agree_even_if_impure :
    (exec [Protocol.loadOrStore, Protocol.loadOrStore] (fun i => i) (initial 2 none) [0, 1, 0, 1]).pcs
      = [PC.finished 0, PC.finished 0] ∧
    (exec [Protocol.once, Protocol.once] (fun i => i) (initial 2 none) [1, 0]).pcs
      = [PC.finished 1, PC.finished 1] := by decide

/-- **Pool reset.**  Whatever object the pool hands out (any previous state `used`, same fields as a
fresh one), after `clear` and the per-use initialisation its observable state equals that of a fresh
object treated the same way — provided every field is assigned by one of the two. -/
theorem pool_reset (used fresh : Obj) (clearA useA : List (String × String))
    (hfields : used.map Prod.fst = fresh.map Prod.fst)
    (hcomplete : clearComplete (used.map Prod.fst) clearA useA = true) :
    assign used (clearA ++ useA) = assign fresh (clearA ++ useA) := by
  apply assign_eq (clearA ++ useA) used fresh hfields
  intro f hf
  simp only [clearComplete, unassigned, List.isEmpty_iff, List.filter_eq_nil_iff] at hcomplete
  have := hcomplete f hf
  cases h : (clearA ++ useA).any (fun a => a.1 == f) with
  | true => rfl
  | false => simp [h] at this

/-- FX obligation for the pooled lexer (facts of `gen-lexerfacts`, shared with C37): every field of
`type lexer struct` is assigned by `clear()` or by `Lex` right after it. -/
theorem lexer_clear_complete :
    clearComplete Verif.Gen.LexerFacts.lexerFields Verif.Gen.LexerFacts.clearAssignments
      Verif.Gen.LexerFacts.lexAssignments = true := by decide

/-- … hence a lexer taken from the pool is indistinguishable from a new one. -/
theorem pooled_lexer_eq_fresh (used fresh : Obj)
    (hu : used.map Prod.fst = Verif.Gen.LexerFacts.lexerFields)
    (hf : fresh.map Prod.fst = Verif.Gen.LexerFacts.lexerFields) :
    assign used (Verif.Gen.LexerFacts.clearAssignments ++ Verif.Gen.LexerFacts.lexAssignments) =
    assign fresh (Verif.Gen.LexerFacts.clearAssignments ++ Verif.Gen.LexerFacts.lexAssignments) :=
  pool_reset used fresh _ _ (by rw [hu, hf]) (by rw [hu]; exact lexer_clear_complete)

/-! Non-vacuity -/

/-- three threads with three different protocols, an unfair-looking but complete interleaving -/
example :
    (exec [Protocol.once, Protocol.loadStore, Protocol.loadOrStore] (fun _ => 7) (initial 3 none) [1, 2, 0, 2, 1, 0]).pcs
      = [PC.finished 7, PC.finished 7, PC.finished 7] := by decide

example : clearComplete ["a", "b"] [("a", "0")] [] = false := by decide

example : assign [("openBrackets", "3"), ("input", "old")] [("openBrackets", "0"), ("input", "new")] =
    assign [("openBrackets", "0"), ("input", "")] [("openBrackets", "0"), ("input", "new")] := by decide

end Verif.Properties.C36
