/-
C21 — InclusiveRange iteration and membership match the arithmetic sequence.

Model: Verif.Model.Range (port of interpreter/value_range.go and inclusive_range_iterator.go after the
`fix:` commit babad41: the iterator counts its elements up-front, `contains` uses unbounded
integers and no longer accepts an unreachable end).  Spec: Verif.Spec.Range (`seq start end step`).
Lemmas are in Verif.Proofs.Range.
-/
import Verif.Proofs.Range
namespace Verif.Properties.C21
open Verif.Model.Range Verif.Spec.Range Verif.Proofs.Range

/-- **Construction with a step** succeeds iff the step is non-zero and does not point away from the
    end (`start = end`: any non-zero step), and then keeps the three values. -/
theorem construct_iff (t : Ty) (s e st : Int) :
    (newRangeWithStep t s e st = .ok ⟨s, e, st⟩ ↔ st ≠ 0 ∧ ¬ ((s < e ∧ st < 0) ∨ (e < s ∧ 0 < st))) ∧
    (newRangeWithStep t s e st ≠ .ok ⟨s, e, st⟩ → newRangeWithStep t s e st = .error .construction) := by
  unfold newRangeWithStep movingAway
  by_cases h0 : st = 0
  · simp [h0]
  · by_cases hm : (s < e ∧ st < 0) ∨ (e < s ∧ 0 < st)
    · have : ((decide (s < e) && decide (st < 0)) || (decide (s > e) && decide (st > 0))) = true := by
        simp only [Bool.or_eq_true, Bool.and_eq_true, decide_eq_true_eq]; exact hm
      simp [h0, this, hm]
    · have : ((decide (s < e) && decide (st < 0)) || (decide (s > e) && decide (st > 0))) = false := by
        cases hb : ((decide (s < e) && decide (st < 0)) || (decide (s > e) && decide (st > 0)))
        · rfl
        · simp only [Bool.or_eq_true, Bool.and_eq_true, decide_eq_true_eq] at hb; exact absurd hb hm
      simp [h0, this, hm]

/-- a valid constructed range in the spec's sense -/
theorem construct_valid (t : Ty) (s e st : Int) (h : newRangeWithStep t s e st = .ok ⟨s, e, st⟩) (_hne : s ≠ e) :
    Valid s e st := by
  have := ((construct_iff t s e st).1.mp h)
  unfold Valid; omega

/-- **Default step**: `+1` when `start ≤ end`; `−1` for a signed type otherwise; an unsigned (or
    Word) type cannot count down. -/
theorem construct_default (t : Ty) (s e : Int) (hneg : t.kind = .signed → t.inRange (-1) = true) :
    (s ≤ e → newRange t s e = .ok ⟨s, e, 1⟩) ∧
    (e < s → t.kind = .signed → newRange t s e = .ok ⟨s, e, -1⟩) ∧
    (e < s → t.kind ≠ .signed → newRange t s e = .error .construction) := by
  refine ⟨fun h => ?_, fun h hk => ?_, fun h hk => ?_⟩
  · have : ¬ s > e := by omega
    simp [newRange, this]
  · have hr := hneg hk
    obtain ⟨kind, bits⟩ := t
    simp only at hk
    subst hk
    cases bits <;> simp [newRange, negate, h, Ty.inRange, Ty.minV, Ty.maxV] at hr ⊢
    rename_i b
    rw [if_neg (by omega), if_neg (by omega)]
  · obtain ⟨kind, bits⟩ := t
    cases kind <;> simp_all [newRange]

/-- **Iteration** of a valid range whose start and end are values of the element type yields
    exactly `seq start end step` and ends without error — also when end is the type's minimum or
    maximum, for checked and for wrapping (Word) element types. -/
theorem iterate (t : Ty) (s e st : Int) (hv : Valid s e st)
    (hs : t.inRange s = true) (he : t.inRange e = true) :
    Verif.Model.Range.iterate t ⟨s, e, st⟩ = .ok (seq s e st) := by
  unfold Verif.Model.Range.iterate
  rw [iterInit_valid s e st hv]
  simp only [seq]
  apply iterLoop_ok
  intro k hk
  rcases elem_between s e st k hv hk with ⟨h1, h2⟩ | ⟨h1, h2⟩
  · exact inRange_convex t s e _ hs he h1 h2
  · exact inRange_convex t e s _ he hs h1 h2

/-- membership in the spec sequence, spelled out -/
theorem mem_seq (s e st x : Int) : x ∈ seq s e st ↔ ∃ k : Nat, k ≤ count s e st ∧ x = s + (k : Int) * st := by
  simp only [seq, List.mem_map, List.mem_range]
  constructor
  · rintro ⟨k, hk, rfl⟩; exact ⟨k, by omega, rfl⟩
  · rintro ⟨k, hk, rfl⟩; exact ⟨k, by omega, rfl⟩

/-- **Membership.**  `contains x` is true exactly for the members of `seq start end step`
    (it is a total function: no arithmetic in the element type is involved). -/
theorem contains_iff (s e st x : Int) (hv : Valid s e st) :
    contains ⟨s, e, st⟩ x = true ↔ x ∈ seq s e st := by
  rw [mem_seq]
  have hm : 0 < st.natAbs := by rcases hv with h | h <;> omega
  have hst : st ≠ 0 := by rcases hv with h | h <;> omega
  -- Prop form of the Go function
  have hc : contains ⟨s, e, st⟩ x = true ↔
      (x = s ∨ ((x = e ∨ ((s < x) ∧ ¬ (e < x)) ∨ (¬ (s < x) ∧ (e < x))) ∧ st ∣ (x - s))) := by
    unfold contains betweenExclusive
    rw [Int.dvd_iff_tmod_eq_zero]
    by_cases h1 : s = x
    · subst h1; simp
    · have h1' : ¬ x = s := fun h => h1 h.symm
      by_cases h2 : e = x
      · subst h2; simp [h1, h1']
      · have h2' : ¬ x = e := fun h => h2 h.symm
        by_cases h3 : s < x <;> by_cases h4 : e < x <;> simp [h1, h1', h2, h2', h3, h4]
  rw [hc]
  -- the multiples of |step| up to |end − start|
  have hnat := multiples_nat (e - s).natAbs st.natAbs (x - s).natAbs hm
  constructor
  · rintro (rfl | ⟨hpos, hdvd⟩)
    · exact ⟨0, Nat.zero_le _, by simp⟩
    · have hd : st.natAbs ∣ (x - s).natAbs := Int.natAbs_dvd_natAbs.mpr hdvd
      rcases hv with ⟨h1, h2⟩ | ⟨h1, h2⟩
      · have hle : (x - s).natAbs ≤ (e - s).natAbs := by omega
        obtain ⟨k, hk, hy⟩ := hnat.mpr ⟨hle, hd⟩
        refine ⟨k, hk, ?_⟩
        clear hd hdvd hnat
        have hcast : ((k * st.natAbs : Nat) : Int) = (k : Int) * (st.natAbs : Int) := Int.natCast_mul _ _
        have : (st.natAbs : Int) = st := by omega
        rw [this] at hcast
        omega
      · have hle : (x - s).natAbs ≤ (e - s).natAbs := by omega
        obtain ⟨k, hk, hy⟩ := hnat.mpr ⟨hle, hd⟩
        refine ⟨k, hk, ?_⟩
        clear hd hdvd hnat
        have hcast : ((k * st.natAbs : Nat) : Int) = (k : Int) * (st.natAbs : Int) := Int.natCast_mul _ _
        have : (st.natAbs : Int) = -st := by omega
        rw [this, Int.mul_neg] at hcast
        omega
  · rintro ⟨k, hk, rfl⟩
    by_cases hxs : s + (k : Int) * st = s
    · exact .inl hxs
    · right
      have hb := elem_between s e st k hv hk
      refine ⟨?_, ?_⟩
      · rcases hv with ⟨h1, h2⟩ | ⟨h1, h2⟩ <;> omega
      · have : s + (k : Int) * st - s = (k : Int) * st := by omega
        rw [this]; exact Int.dvd_mul_left _ _

/-! The former failures are now members of the theorems' domain (non-vacuity). -/
/-- decidable view of an iteration result -/
def yields (r : Except Err (List Int)) (xs : List Int) : Bool :=
  match r with | .ok ys => ys == xs | .error _ => false
example : yields (Verif.Model.Range.iterate ⟨.unsigned, some 8⟩ ⟨250, 255, 1⟩) [250, 251, 252, 253, 254, 255] = true := by decide
example : yields (Verif.Model.Range.iterate ⟨.word, some 8⟩ ⟨250, 255, 2⟩) [250, 252, 254] = true := by decide
example : yields (Verif.Model.Range.iterate ⟨.signed, some 8⟩ ⟨127, -128, -100⟩) [127, 27, -73] = true := by decide
example : contains ⟨-128, 127, 1⟩ 100 = true := by decide
example : contains ⟨0, 10, 3⟩ 10 = false ∧ contains ⟨0, 10, 3⟩ 9 = true := by decide
example : Valid 250 255 1 ∧ seq 0 10 3 = [0, 3, 6, 9] := by unfold Valid; decide
example : newRange ⟨.unsigned, some 8⟩ 5 3 = .error .construction := by rfl

end Verif.Properties.C21
