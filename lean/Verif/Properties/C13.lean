/-
C13 — Saturating arithmetic clamps to the type's range.

For every integer type T and every saturating member that Cadence declares for it (sema's
SaturatingArithmeticSupport table: Int8..Int256 all four, UInt8..UInt256 add / subtract / multiply,
UInt subtract; Int and the Word types declare none — the `sat` stream checks that table against the
checker) the *generated* definition `Verif.Gen.NumGo.<T>Value.Saturating<Op>` (regenerated from
interpreter/value_*.go on every run) equals `Verif.Spec.Arith.specSaturating`: the exact result
(truncated division) clamped to [min T, max T]; the only error is division by zero — never
overflow / underflow, never a Go run-time panic.
Only statements and their final proofs live here; tactics and lemmas are in Verif.Proofs.ArithSat.
-/
import Verif.Proofs.ArithSat
set_option linter.unusedVariables false
namespace Verif.Properties.C13
open Verif.Model.Num Verif.Spec.Arith Verif.Gen.NumGo Verif.Proofs.Arith Verif.Proofs.ArithSat

/-! ### Int8 -/

theorem C13_Int8_satadd (a b : Int) (ha : inRange (.int 8) a) (hb : inRange (.int 8) b) :
    Int8Value.SaturatingPlus a b = specSaturating (.int 8) .add a b := by
  unfold Int8Value.SaturatingPlus; sat_arith

theorem C13_Int8_satsub (a b : Int) (ha : inRange (.int 8) a) (hb : inRange (.int 8) b) :
    Int8Value.SaturatingMinus a b = specSaturating (.int 8) .sub a b := by
  unfold Int8Value.SaturatingMinus; sat_arith

theorem C13_Int8_satmul (a b : Int) (ha : inRange (.int 8) a) (hb : inRange (.int 8) b) :
    Int8Value.SaturatingMul a b = specSaturating (.int 8) .mul a b := by
  unfold Int8Value.SaturatingMul; sat_mul a b (127) (-128)

theorem C13_Int8_satdiv (a b : Int) (ha : inRange (.int 8) a) (hb : inRange (.int 8) b) :
    Int8Value.SaturatingDiv a b = specSaturating (.int 8) .div a b := by
  unfold Int8Value.SaturatingDiv; sat_div a b

/-! ### Int16 -/

theorem C13_Int16_satadd (a b : Int) (ha : inRange (.int 16) a) (hb : inRange (.int 16) b) :
    Int16Value.SaturatingPlus a b = specSaturating (.int 16) .add a b := by
  unfold Int16Value.SaturatingPlus; sat_arith

theorem C13_Int16_satsub (a b : Int) (ha : inRange (.int 16) a) (hb : inRange (.int 16) b) :
    Int16Value.SaturatingMinus a b = specSaturating (.int 16) .sub a b := by
  unfold Int16Value.SaturatingMinus; sat_arith

theorem C13_Int16_satmul (a b : Int) (ha : inRange (.int 16) a) (hb : inRange (.int 16) b) :
    Int16Value.SaturatingMul a b = specSaturating (.int 16) .mul a b := by
  unfold Int16Value.SaturatingMul; sat_mul a b (32767) (-32768)

theorem C13_Int16_satdiv (a b : Int) (ha : inRange (.int 16) a) (hb : inRange (.int 16) b) :
    Int16Value.SaturatingDiv a b = specSaturating (.int 16) .div a b := by
  unfold Int16Value.SaturatingDiv; sat_div a b

/-! ### Int32 -/

theorem C13_Int32_satadd (a b : Int) (ha : inRange (.int 32) a) (hb : inRange (.int 32) b) :
    Int32Value.SaturatingPlus a b = specSaturating (.int 32) .add a b := by
  unfold Int32Value.SaturatingPlus; sat_arith

theorem C13_Int32_satsub (a b : Int) (ha : inRange (.int 32) a) (hb : inRange (.int 32) b) :
    Int32Value.SaturatingMinus a b = specSaturating (.int 32) .sub a b := by
  unfold Int32Value.SaturatingMinus; sat_arith

theorem C13_Int32_satmul (a b : Int) (ha : inRange (.int 32) a) (hb : inRange (.int 32) b) :
    Int32Value.SaturatingMul a b = specSaturating (.int 32) .mul a b := by
  unfold Int32Value.SaturatingMul; sat_mul a b (2147483647) (-2147483648)

theorem C13_Int32_satdiv (a b : Int) (ha : inRange (.int 32) a) (hb : inRange (.int 32) b) :
    Int32Value.SaturatingDiv a b = specSaturating (.int 32) .div a b := by
  unfold Int32Value.SaturatingDiv; sat_div a b

/-! ### Int64 -/

theorem C13_Int64_satadd (a b : Int) (ha : inRange (.int 64) a) (hb : inRange (.int 64) b) :
    Int64Value.SaturatingPlus a b = specSaturating (.int 64) .add a b := by
  unfold Int64Value.SaturatingPlus; sat_arith

theorem C13_Int64_satsub (a b : Int) (ha : inRange (.int 64) a) (hb : inRange (.int 64) b) :
    Int64Value.SaturatingMinus a b = specSaturating (.int 64) .sub a b := by
  unfold Int64Value.SaturatingMinus; sat_arith

theorem C13_Int64_satmul (a b : Int) (ha : inRange (.int 64) a) (hb : inRange (.int 64) b) :
    Int64Value.SaturatingMul a b = specSaturating (.int 64) .mul a b := by
  unfold Int64Value.SaturatingMul; sat_mul a b (9223372036854775807) (-9223372036854775808)

theorem C13_Int64_satdiv (a b : Int) (ha : inRange (.int 64) a) (hb : inRange (.int 64) b) :
    Int64Value.SaturatingDiv a b = specSaturating (.int 64) .div a b := by
  unfold Int64Value.SaturatingDiv; sat_div a b

/-! ### Int128 -/

theorem C13_Int128_satadd (a b : Int) (ha : inRange (.int 128) a) (hb : inRange (.int 128) b) :
    Int128Value.SaturatingPlus a b = specSaturating (.int 128) .add a b := by
  unfold Int128Value.SaturatingPlus; sat_arith

theorem C13_Int128_satsub (a b : Int) (ha : inRange (.int 128) a) (hb : inRange (.int 128) b) :
    Int128Value.SaturatingMinus a b = specSaturating (.int 128) .sub a b := by
  unfold Int128Value.SaturatingMinus; sat_arith

theorem C13_Int128_satmul (a b : Int) (ha : inRange (.int 128) a) (hb : inRange (.int 128) b) :
    Int128Value.SaturatingMul a b = specSaturating (.int 128) .mul a b := by
  unfold Int128Value.SaturatingMul; sat_mul a b (170141183460469231731687303715884105727) (-170141183460469231731687303715884105728)

theorem C13_Int128_satdiv (a b : Int) (ha : inRange (.int 128) a) (hb : inRange (.int 128) b) :
    Int128Value.SaturatingDiv a b = specSaturating (.int 128) .div a b := by
  unfold Int128Value.SaturatingDiv; sat_div a b

/-! ### Int256 -/

theorem C13_Int256_satadd (a b : Int) (ha : inRange (.int 256) a) (hb : inRange (.int 256) b) :
    Int256Value.SaturatingPlus a b = specSaturating (.int 256) .add a b := by
  unfold Int256Value.SaturatingPlus; sat_arith

theorem C13_Int256_satsub (a b : Int) (ha : inRange (.int 256) a) (hb : inRange (.int 256) b) :
    Int256Value.SaturatingMinus a b = specSaturating (.int 256) .sub a b := by
  unfold Int256Value.SaturatingMinus; sat_arith

theorem C13_Int256_satmul (a b : Int) (ha : inRange (.int 256) a) (hb : inRange (.int 256) b) :
    Int256Value.SaturatingMul a b = specSaturating (.int 256) .mul a b := by
  unfold Int256Value.SaturatingMul; sat_mul a b (57896044618658097711785492504343953926634992332820282019728792003956564819967) (-57896044618658097711785492504343953926634992332820282019728792003956564819968)

theorem C13_Int256_satdiv (a b : Int) (ha : inRange (.int 256) a) (hb : inRange (.int 256) b) :
    Int256Value.SaturatingDiv a b = specSaturating (.int 256) .div a b := by
  unfold Int256Value.SaturatingDiv; sat_div a b

/-! ### UInt8 (declares no saturatingDivide) -/

theorem C13_UInt8_satadd (a b : Int) (ha : inRange (.uint 8) a) (hb : inRange (.uint 8) b) :
    UInt8Value.SaturatingPlus a b = specSaturating (.uint 8) .add a b := by
  unfold UInt8Value.SaturatingPlus; sat_arith

theorem C13_UInt8_satsub (a b : Int) (ha : inRange (.uint 8) a) (hb : inRange (.uint 8) b) :
    UInt8Value.SaturatingMinus a b = specSaturating (.uint 8) .sub a b := by
  unfold UInt8Value.SaturatingMinus; sat_arith

theorem C13_UInt8_satmul (a b : Int) (ha : inRange (.uint 8) a) (hb : inRange (.uint 8) b) :
    UInt8Value.SaturatingMul a b = specSaturating (.uint 8) .mul a b := by
  unfold UInt8Value.SaturatingMul; sat_mul a b (255) (0)

/-! ### UInt16 (declares no saturatingDivide) -/

theorem C13_UInt16_satadd (a b : Int) (ha : inRange (.uint 16) a) (hb : inRange (.uint 16) b) :
    UInt16Value.SaturatingPlus a b = specSaturating (.uint 16) .add a b := by
  unfold UInt16Value.SaturatingPlus; sat_arith

theorem C13_UInt16_satsub (a b : Int) (ha : inRange (.uint 16) a) (hb : inRange (.uint 16) b) :
    UInt16Value.SaturatingMinus a b = specSaturating (.uint 16) .sub a b := by
  unfold UInt16Value.SaturatingMinus; sat_arith

theorem C13_UInt16_satmul (a b : Int) (ha : inRange (.uint 16) a) (hb : inRange (.uint 16) b) :
    UInt16Value.SaturatingMul a b = specSaturating (.uint 16) .mul a b := by
  unfold UInt16Value.SaturatingMul; sat_mul a b (65535) (0)

/-! ### UInt32 (declares no saturatingDivide) -/

theorem C13_UInt32_satadd (a b : Int) (ha : inRange (.uint 32) a) (hb : inRange (.uint 32) b) :
    UInt32Value.SaturatingPlus a b = specSaturating (.uint 32) .add a b := by
  unfold UInt32Value.SaturatingPlus; sat_arith

theorem C13_UInt32_satsub (a b : Int) (ha : inRange (.uint 32) a) (hb : inRange (.uint 32) b) :
    UInt32Value.SaturatingMinus a b = specSaturating (.uint 32) .sub a b := by
  unfold UInt32Value.SaturatingMinus; sat_arith

theorem C13_UInt32_satmul (a b : Int) (ha : inRange (.uint 32) a) (hb : inRange (.uint 32) b) :
    UInt32Value.SaturatingMul a b = specSaturating (.uint 32) .mul a b := by
  unfold UInt32Value.SaturatingMul; sat_mul a b (4294967295) (0)

/-! ### UInt64 (declares no saturatingDivide) -/

theorem C13_UInt64_satadd (a b : Int) (ha : inRange (.uint 64) a) (hb : inRange (.uint 64) b) :
    UInt64Value.SaturatingPlus a b = specSaturating (.uint 64) .add a b := by
  unfold UInt64Value.SaturatingPlus; sat_arith

theorem C13_UInt64_satsub (a b : Int) (ha : inRange (.uint 64) a) (hb : inRange (.uint 64) b) :
    UInt64Value.SaturatingMinus a b = specSaturating (.uint 64) .sub a b := by
  unfold UInt64Value.SaturatingMinus; sat_arith

theorem C13_UInt64_satmul (a b : Int) (ha : inRange (.uint 64) a) (hb : inRange (.uint 64) b) :
    UInt64Value.SaturatingMul a b = specSaturating (.uint 64) .mul a b := by
  unfold UInt64Value.SaturatingMul; sat_mul a b (18446744073709551615) (0)

/-! ### UInt128 (declares no saturatingDivide) -/

theorem C13_UInt128_satadd (a b : Int) (ha : inRange (.uint 128) a) (hb : inRange (.uint 128) b) :
    UInt128Value.SaturatingPlus a b = specSaturating (.uint 128) .add a b := by
  unfold UInt128Value.SaturatingPlus; sat_arith

theorem C13_UInt128_satsub (a b : Int) (ha : inRange (.uint 128) a) (hb : inRange (.uint 128) b) :
    UInt128Value.SaturatingMinus a b = specSaturating (.uint 128) .sub a b := by
  unfold UInt128Value.SaturatingMinus; sat_arith

theorem C13_UInt128_satmul (a b : Int) (ha : inRange (.uint 128) a) (hb : inRange (.uint 128) b) :
    UInt128Value.SaturatingMul a b = specSaturating (.uint 128) .mul a b := by
  unfold UInt128Value.SaturatingMul; sat_mul a b (340282366920938463463374607431768211455) (0)

/-! ### UInt256 (declares no saturatingDivide) -/

theorem C13_UInt256_satadd (a b : Int) (ha : inRange (.uint 256) a) (hb : inRange (.uint 256) b) :
    UInt256Value.SaturatingPlus a b = specSaturating (.uint 256) .add a b := by
  unfold UInt256Value.SaturatingPlus; sat_arith

theorem C13_UInt256_satsub (a b : Int) (ha : inRange (.uint 256) a) (hb : inRange (.uint 256) b) :
    UInt256Value.SaturatingMinus a b = specSaturating (.uint 256) .sub a b := by
  unfold UInt256Value.SaturatingMinus; sat_arith

theorem C13_UInt256_satmul (a b : Int) (ha : inRange (.uint 256) a) (hb : inRange (.uint 256) b) :
    UInt256Value.SaturatingMul a b = specSaturating (.uint 256) .mul a b := by
  unfold UInt256Value.SaturatingMul; sat_mul a b (115792089237316195423570985008687907853269984665640564039457584007913129639935) (0)

/-! ### UInt (declares saturatingSubtract only) -/

theorem C13_UInt_satsub (a b : Int) (ha : inRange .bigUInt a) (hb : inRange .bigUInt b) :
    UIntValue.SaturatingMinus a b = specSaturating .bigUInt .sub a b := by
  unfold UIntValue.SaturatingMinus; sat_arith

/-! ### The spec: only division by zero fails; the result is a value of the type; in-range results are exact -/

theorem C13_only_divZero (T : Ty) (op : Op) (a b : Int) (e : NumErr) (h : specSaturating T op a b = .error e) :
    e = .divZero ∧ b = 0 ∧ op.divides = true := by
  unfold specSaturating at h
  split at h
  · rename_i hc; cases h; exact ⟨rfl, hc.2, hc.1⟩
  · cases h

theorem C13_result_inRange (T : Ty) (hT : ∀ l h, T.lo = some l → T.hi = some h → l ≤ h) (op : Op) (a b r : Int)
    (h : specSaturating T op a b = .ok r) : inRange T r := by
  unfold specSaturating at h
  split at h
  · cases h
  · cases h; exact clamp_inRange T hT _

theorem C13_exact_when_representable (T : Ty) (op : Op) (a b : Int) (hz : ¬ (op.divides ∧ b = 0))
    (h : inRange T (exact op a b)) : specSaturating T op a b = .ok (exact op a b) := by
  unfold specSaturating
  rw [if_neg hz, clamp_of_inRange T _ h]

/-! ### The Go methods behind members that no type declares (unreachable from Cadence programs): a zero
    divisor yields a nil value, not the division-by-zero error (a deferred recover() swallows the panic) -/

theorem C13_unreachable_satdiv_nil_witness : UInt8Value.SaturatingDiv 1 0 = .error .nilValue ∧
    UInt256Value.SaturatingDiv 1 0 = .error .nilValue ∧ UIntValue.SaturatingDiv 1 0 = .error .nilValue ∧
    IntValue.SaturatingDiv 1 0 = .error .nilValue := by decide

/-! ### Non-vacuity -/

example : inRange (.int 8) 127 ∧ Int8Value.SaturatingPlus 127 1 = .ok 127 ∧ Int8Value.SaturatingMinus (-128) 1 = .ok (-128) := by decide
example : Int8Value.SaturatingDiv (-128) (-1) = .ok 127 ∧ Int8Value.SaturatingDiv 5 0 = .error .divZero := by decide
example : Int64Value.SaturatingMul (-9223372036854775808) (-1) = .ok 9223372036854775807 := by decide
example : UInt8Value.SaturatingMinus 3 4 = .ok 0 ∧ UInt8Value.SaturatingMul 16 16 = .ok 255 ∧ UIntValue.SaturatingMinus 3 4 = .ok 0 := by decide
example : Int256Value.SaturatingMul (2 ^ 255 - 1) 2 = .ok (2 ^ 255 - 1) ∧ specSaturating (.int 256) .mul (2 ^ 255 - 1) 2 = .ok (2 ^ 255 - 1) := by decide
example : ∀ l h, (Ty.int 8).lo = some l → (Ty.int 8).hi = some h → l ≤ h := by intro l h hl hh; cases hl; cases hh; decide

end Verif.Properties.C13
