/-
C20 — Arrays and dictionaries behave like their mathematical models.

Spec: Verif.Spec.Containers (arrays = lists, dictionaries = association lists with distinct keys, the
generic commit/abort machine); the machine of the `cont` stream is Verif.Model.Cont.  The theorems
are the spec's own laws (the oracle's sanity) and persistence in the machine; that the runtime (atree
arrays / ordered maps, in memory, in place in storage, reloaded in later transactions) behaves like the
spec is shown by refinement testing in the `cont` stream.  Level: proof (spec machine) + CC.
-/
import Verif.Proofs.ContMachine
namespace Verif.Properties.C20
open Verif.Spec.Containers Verif.Proofs.Containers

variable {α : Type}

/-- Index read, index write and `remove(at:)` fail with an index error exactly for `i < 0 ∨ i ≥ length`;
    `insert(at:)` exactly for `i < 0 ∨ i > length`; and a valid read returns the `i`-th element. -/
theorem index_error_iff (xs : List α) (i : Int) (x : α) :
    (readAt xs i = .error .index ↔ (i < 0 ∨ (xs.length : Int) ≤ i)) ∧
    (writeAt xs i x = .error .index ↔ (i < 0 ∨ (xs.length : Int) ≤ i)) ∧
    (removeAt xs i = .error .index ↔ (i < 0 ∨ (xs.length : Int) ≤ i)) ∧
    (insertAt xs i x = .error .index ↔ (i < 0 ∨ (xs.length : Int) < i)) ∧
    (0 ≤ i → i < xs.length → ∃ h : i.toNat < xs.length, readAt xs i = .ok xs[i.toNat]) :=
  ⟨readAt_err_iff xs i, writeAt_err_iff xs i x, removeAt_err_iff xs i, insertAt_err_iff xs i x, readAt_ok xs i⟩

/-- `removeFirst` / `removeLast` fail exactly on the empty array. -/
theorem removeFirstLast_error_iff (xs : List α) :
    (removeFirst xs = .error .index ↔ xs = []) ∧ (removeLast xs = .error .index ↔ xs = []) := by
  constructor
  · rw [removeFirst, removeAt_err_iff]; cases xs <;> simp <;> omega
  · rw [removeLast, removeAt_err_iff]; cases xs <;> simp <;> omega

/-- A valid index write changes exactly position `i`. -/
theorem write_read (xs : List α) (i : Int) (x : α) (h0 : 0 ≤ i) (h1 : i < xs.length) :
    ∃ ys, writeAt xs i x = .ok ys ∧ ys.length = xs.length ∧
      ∀ j : Nat, ys[j]? = if j = i.toNat then some x else xs[j]? := by
  refine ⟨xs.set i.toNat x, writeAt_ok xs i x h0 h1, by simp, fun j => ?_⟩
  rw [List.getElem?_set]
  by_cases h : i.toNat = j
  · have : j < xs.length := by omega
    simp [h, this]
  · have h' : ¬ j = i.toNat := fun e => h e.symm
    simp [h, h']

/-- `insert(at: i, x)` and `remove(at: i)` are mutually inverse. -/
theorem insert_remove_inverse (xs ys : List α) (i : Int) (x : α) :
    (insertAt xs i x = .ok ys → removeAt ys i = .ok (x, xs)) ∧
    (removeAt xs i = .ok (x, ys) → insertAt ys i x = .ok xs) :=
  ⟨insert_then_remove xs ys i x, remove_then_insert xs ys i x⟩

/-- `slice(from: a, upTo: b)` fails exactly when not `0 ≤ a ≤ b ≤ length`; otherwise it has length
    `b - a` and its `j`-th element is the `(a + j)`-th element of the array. -/
theorem slice_spec (xs : List α) (a b : Int) :
    (slice xs a b = .error .index ↔ (a < 0 ∨ b < a ∨ (xs.length : Int) < b)) ∧
    (∀ ys, slice xs a b = .ok ys →
      ys.length = (b - a).toNat ∧ ∀ j, j < ys.length → ys[j]? = xs[a.toNat + j]?) :=
  ⟨slice_err_iff xs a b, fun ys h => slice_elems xs ys a b h⟩

/-- `reverse` is an involution, keeps the length, and position `i` reads position `length - 1 - i`. -/
theorem reverse_involutive (xs : List α) :
    reverse (reverse xs) = xs ∧ (reverse xs).length = xs.length ∧
    ∀ i : Int, 0 ≤ i → i < xs.length → readAt (reverse xs) i = readAt xs ((xs.length : Int) - 1 - i) :=
  ⟨by simp [reverse], by simp [reverse], reverse_read xs⟩

/-- `filter` keeps exactly the elements satisfying the predicate, in order; `map` is pointwise;
    `concat` / `appendAll` / `append` are list append. -/
theorem filter_map_spec {β : Type} (p : α → Bool) (f : α → β) (xs ys : List α) (x : α) :
    (∀ y, y ∈ filter p xs ↔ y ∈ xs ∧ p y = true) ∧ (filter p xs).Sublist xs ∧
    (map f xs).length = xs.length ∧ (∀ i : Nat, (map f xs)[i]? = (xs[i]?).map f) ∧
    concat xs ys = xs ++ ys ∧ appendAll xs ys = xs ++ ys ∧ append xs x = xs ++ [x] :=
  ⟨mem_filter_iff p xs, List.filter_sublist, by simp [map], map_read f xs, rfl, rfl, rfl⟩

/-- `contains` is membership; `firstIndex` is the least index holding the element (nil iff absent). -/
theorem contains_firstIndex_spec [DecidableEq α] (xs : List α) (x : α) :
    (contains xs x = true ↔ x ∈ xs) ∧
    (firstIndex xs x = none ↔ x ∉ xs) ∧
    (∀ i, firstIndex xs x = some i → xs[i]? = some x ∧ ∀ j, j < i → xs[j]? ≠ some x) := by
  refine ⟨by simp [contains], by simp only [firstIndex, List.findIdx?_eq_none_iff, decide_eq_false_iff_not]; exact ⟨fun h hm => h x hm rfl, fun h y hy e => h (e ▸ hy)⟩, fun i h => ?_⟩
  have h' := List.findIdx?_eq_some_iff_getElem.1 (by simpa [firstIndex] using h)
  obtain ⟨hlt, hx, hmin⟩ := h'
  refine ⟨by simpa [List.getElem?_eq_getElem hlt] using hx, fun j hj hcon => ?_⟩
  have hjl : j < xs.length := by omega
  have := hmin j hj
  rw [List.getElem?_eq_getElem hjl] at hcon
  simp at hcon this
  exact this hcon

/-- `toConstantSized<[T; n]>` succeeds exactly when the length is `n` and does not change the
    elements; `toVariableSized` is the identity on elements. -/
theorem sized_conversions (xs : List α) (n : Nat) :
    (toConstantSized xs n = some xs ↔ xs.length = n) ∧ (toConstantSized xs n = none ↔ xs.length ≠ n) ∧
    toVariableSized xs = xs := by
  unfold toConstantSized toVariableSized
  by_cases h : xs.length = n <;> simp [h]

section Dict
variable {κ ν : Type} [DecidableEq κ]

/-- `insert(key:)` / `d[k] = v` return the previous value, bind `k` to `v`, leave every other key
    alone and keep the keys distinct. -/
theorem dict_insert_get (d : Dict κ ν) (k : κ) (v : ν) (hw : DWF d) :
    (dInsert d k v).1 = dGet d k ∧ dGet (dInsert d k v).2 k = some v ∧
    (∀ k', k' ≠ k → dGet (dInsert d k v).2 k' = dGet d k') ∧ DWF (dInsert d k v).2 ∧
    dSet d k (some v) = (dInsert d k v).2 :=
  ⟨rfl, dGet_put_same d k v, fun k' h => dGet_put_other d k k' v h, dwf_put d k v hw, rfl⟩

/-- `remove(key:)` / `d[k] = nil` return the previous value, unbind `k`, leave every other key alone. -/
theorem dict_remove (d : Dict κ ν) (k : κ) (hw : DWF d) :
    (dRemove d k).1 = dGet d k ∧ dGet (dRemove d k).2 k = none ∧
    (∀ k', k' ≠ k → dGet (dRemove d k).2 k' = dGet d k') ∧ DWF (dRemove d k).2 ∧
    dSet d k none = (dRemove d k).2 :=
  ⟨rfl, dGet_erase_same d k, fun k' h => dGet_erase_other d k k' h, dwf_erase d k hw, rfl⟩

/-- `keys`, `values`, `containsKey`, `length` and index reads are consistent with each other. -/
theorem keys_values_consistent (d : Dict κ ν) (hw : DWF d) :
    (dKeys d).length = d.length ∧ (dValues d).length = d.length ∧ (dKeys d).Nodup ∧
    (∀ k, k ∈ dKeys d ↔ dHas d k = true) ∧
    (∀ k v, dGet d k = some v ↔ (k, v) ∈ (dKeys d).zip (dValues d)) ∧
    (∀ j, 1 ≤ j → dVisitCount d j ≤ d.length ∧ dVisitCount d j ≤ j) := by
  refine ⟨by simp [dKeys], by simp [dValues], hw, mem_dKeys_iff d, fun k v => ?_, fun j hj => ?_⟩
  · rw [zip_keys_values]
    exact ⟨mem_of_dGet d k v, dGet_of_mem d hw k v⟩
  · unfold dVisitCount; omega

end Dict

/-! ### mutation during iteration -/
section Iter
variable {σ μ : Type} (apply : σ → μ → Except Err σ) (size : σ → Nat)

/-- While an iteration over the container is active — however many, however nested — a program either
    fails with the mutation error (exactly when it attempts a mutation, whatever its arguments) or leaves
    the container as it is: nothing that runs inside an iteration can change the iterated container. -/
theorem iteration_guards (p : Prog μ) (n : Nat) (c : σ) :
    runProg apply size (n + 1) c p = if p.attempts (size c) then .error .mutation else .ok c :=
  runProg_guarded apply size p n c

/-- A mutation attempted anywhere inside the body of an iteration step that is reached fails with the
    mutation error — also after a nested iteration over the same container has ended (the guard of the
    outer iteration is still in force), and inside a nested iteration. -/
theorem mutation_in_iteration_fails (j : Nat) (body : Prog μ) (n : Nat) (c : σ) (hj : j < size c)
    (hb : body.attempts (size c) = true) :
    runProg apply size n c (.iter j body) = .error .mutation ∧
    (∀ i m, runProg apply size n c (.iter j (.seq (.iter i .skip) (.mutate m))) = .error .mutation) ∧
    (∀ m, runProg apply size n c (.iter j (.iter 0 (.mutate m))) = .error .mutation) := by
  have h0 : 0 < size c := by omega
  refine ⟨?_, fun i m => ?_, fun m => ?_⟩
  · simp [runProg, hj, runProg_guarded, hb]
  · simp [runProg, hj]
  · simp [runProg, hj, h0]

/-- Once the iteration has ended (normally, or because the step with the body was never reached) the
    guard is gone: a mutation after it is the plain mutation; and with no iteration active at all a
    mutation is the plain mutation. -/
theorem guard_released_after_iteration (j : Nat) (body : Prog μ) (m : μ) (c : σ)
    (hb : body.attempts (size c) = false) :
    runProg apply size 0 c (.seq (.iter j body) (.mutate m)) = apply c m ∧
    runProg apply size 0 c (.mutate m) = apply c m := by
  constructor
  · by_cases hj : j < size c
    · simp [runProg, hj, runProg_guarded, hb]
    · simp [runProg, hj]
  · simp [runProg]

end Iter

/-! ### the machine of the `cont` stream -/
open Verif.Model.Cont Verif.Proofs.ContMachine

/-- The iteration operations of the `cont` machine (`for` / `map` / `forEachKey` over the container, a
    nested iteration over the same container, a mutation placed at step `j`, after the loop, or after a
    `break`): the mutation inside the loop fails with the mutation error exactly when step `j` is reached
    (`j < size`), for every kind of nesting and every mutation, whatever its index or key; otherwise nothing
    changes.  After the loop — also after a `break` — the mutation is the plain one. -/
theorem iter_op_spec (c : Cont) (outer nest j : Nat) (m : Op) (hm : (applyMut c m).isSome = true) :
    stepT c (.iter outer nest (.at j) m) =
      (if j < size c then .error .mutation else .ok (c, .steps (size c) (size c))) ∧
    stepT c (.iter outer nest .after m) = (applyMutT c m).map (fun c' => (c', .steps (size c) (size c'))) ∧
    stepT c (.iter outer nest (.breakAt j) m) =
      (applyMutT c m).map (fun c' => (c', .steps (min j (size c)) (size c'))) := by
  obtain ⟨r, hr⟩ := Option.isSome_iff_exists.1 hm
  have hs : ∀ w, stepT c (.iter outer nest w m) =
      (runProg applyMutT size 0 c (iterProg nest w m)).map fun c' => (c', .steps (iterSteps (size c) w) (size c')) := by
    intro w
    have : step c (.iter outer nest w m) = iterStep c nest w m := by cases c <;> rfl
    simp [stepT, this, iterStep, hr]
  have hin : ∀ k, (if nest = 1 ∨ nest = 2 then Prog.iter 0 Prog.skip else (Prog.skip : Prog Op)).attempts k = false := by
    intro k; split <;> simp [Prog.attempts]
  refine ⟨?_, ?_, ?_⟩
  · rw [hs]
    by_cases hj : j < size c
    · have h0 : 0 < size c := by omega
      by_cases h3 : nest = 3
      · simp [iterProg, h3, runProg, hj, h0, Except.map]
      · simp [iterProg, h3, runProg, hj, runProg_guarded, hin, Except.map]
    · by_cases h3 : nest = 3
      · simp [iterProg, h3, runProg, hj, Except.map, iterSteps]
      · simp [iterProg, h3, runProg, hj, Except.map, iterSteps]
  · rw [hs]
    have := (guard_released_after_iteration applyMutT size 0
      (if nest = 1 ∨ nest = 2 then Prog.iter 0 Prog.skip else Prog.skip) m c (hin _)).1
    simp only [iterProg, this, iterSteps]
  · rw [hs]
    have := (guard_released_after_iteration applyMutT size j
      (if nest = 1 ∨ nest = 2 then Prog.iter 0 Prog.skip else Prog.skip) m c (hin _)).1
    simp only [iterProg, this, iterSteps]

/-- Keys stay distinct along every operation, every transaction and every history (so
    `keys_values_consistent` applies to every dictionary reachable from the empty one). -/
theorem step_preserves_wf (c c' : Cont) (op : Op) (o : Obs) (hw : CWF c) (h : stepT c op = .ok (c', o)) : CWF c' :=
  step_wf c c' op o hw h

theorem reachable_dict_wf (h : List (List Op)) : CWF (runHist stepT (.dict []) h).1 :=
  runHist_wf _ h dwf_nil

/-- Persistence: a history all of whose transactions commit — the container being stored at the end of
    each and reloaded at the start of the next — produces exactly the observations and the final
    contents of the same operations applied in one go to an in-memory container; an aborted
    transaction leaves the stored container as it was; and a later transaction starts from what the
    earlier ones committed. -/
theorem persist (c : Cont) (h h2 : List (List Op)) (tx : List Op) :
    ((∀ o ∈ (runHist stepT c h).2, o.outcome = none) →
      execOps stepT c h.flatten = (.ok (runHist stepT c h).1, ((runHist stepT c h).2.map (·.logs)).flatten)) ∧
    ((runTx stepT c tx).2.outcome ≠ none → (runTx stepT c tx).1 = c) ∧
    runHist stepT c (h ++ h2) =
      ((runHist stepT (runHist stepT c h).1 h2).1, (runHist stepT c h).2 ++ (runHist stepT (runHist stepT c h).1 h2).2) := by
  refine ⟨runHist_all_commit stepT c h, fun hne => ?_, runHist_append stepT c h h2⟩
  unfold runTx at hne ⊢
  split
  · rename_i s' logs he; simp [he] at hne
  · rfl

/-! ### non-vacuity -/
example : insertAt [1, 2, 3] 1 (9 : Int) = .ok [1, 9, 2, 3] ∧ removeAt [1, 9, 2, 3] 1 = .ok ((9 : Int), [1, 2, 3]) :=
  ⟨rfl, rfl⟩
example : slice [1, 2, 3, (4 : Int)] 1 3 = .ok [2, 3] ∧ slice [1, 2, 3, (4 : Int)] 0 5 = .error .index ∧
    slice [1, 2, 3, (4 : Int)] 3 2 = .error .index := ⟨rfl, rfl, rfl⟩
example : readAt [1, 2, (3 : Int)] 3 = .error .index ∧ readAt [1, 2, (3 : Int)] (-1) = .error .index ∧
    readAt [1, 2, (3 : Int)] 2 = .ok 3 := ⟨rfl, rfl, rfl⟩
example : (dInsert (dInsert ([] : Dict Int Int) 1 10).2 1 11) = (some 10, [(1, 11)]) := by decide
example : (runHist stepT (.arr []) [[.append (.int 1), .append (.int 2)], [.read 5], [.removeFirst]]).1 = .arr [.int 2] := by
  decide

-- the seeded-change shape: a nested iteration over the same array ends, then the outer loop's body appends
example : (runHist stepT (.arr [.int 1, .int 2, .int 3]) [[.iter 0 1 (.at 2) (.append (.int 4))], [.length]]).2.map (·.outcome) =
    [some .mutation, none] := by decide
example : (runHist stepT (.arr [.int 1, .int 2, .int 3])
    [[.iter 0 1 (.at 3) (.append (.int 4)), .iter 1 2 .after (.append (.int 4)), .iter 0 0 (.breakAt 1) (.remove 9)]]).2.map
      (fun o => (o.outcome, o.logs)) = [(some .index, [.steps 3 3, .steps 3 4])] := by decide
example : (runHist stepT (.dict [(.int 1, .int 10)]) [[.iter 1 3 (.at 0) (.dRemove (.int 7))]]).2.map (·.outcome) =
    [some .mutation] := by decide

end Verif.Properties.C20
