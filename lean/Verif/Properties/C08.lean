/-
C08 — Subtyping is a consistent preorder across all implementations.

Model: Verif.Model.Types.{Ty,Rules,Subtype}: `isSub rules fuel a b` *interprets* the rule data of
tools/subtype-gen/rules.yaml (with the statement-sequence reading of `or` that the repository's code
generators implement).  `Verif.Gen.SubtypeRules.rules` is regenerated from rules.yaml on every run;
the theorems are about the pinned copy and `rules_unchanged` ties the two.
-/
import Verif.Model.Types.Subtype
import Verif.Model.Types.RulesPinned
import Verif.Gen.SubtypeRules
import Verif.Proofs.SubStruct
import Verif.Proofs.SubAgree2
import Verif.Proofs.SubTrans4
import Verif.Proofs.SubCoh
import Verif.Proofs.SubRuntime
namespace Verif.Properties.C08
open Verif.Model.Types Verif.Model.Auth

abbrev R : List Rule := RulesPinned.rules

/-- TR tie: the rules regenerated from the current rules.yaml are the pinned rules (data equality). -/
theorem rules_unchanged : Verif.Gen.SubtypeRules.rules = RulesPinned.rules := by decide

/-- Reflexivity, for every type and any positive fuel. -/
theorem refl (t : Ty) (fuel : Nat) : isSub R (fuel + 1) t t = true := by
  simp [isSub]

/-- `Never` is below every type. -/
theorem never_bot (t : Ty) (fuel : Nat) : isSub R (fuel + 2) never t = true := by
  simp [isSub, check]

/-- `Any` is above every type (the first rule, `super: AnyType, predicate: always`, decides). -/
theorem any_top (t : Ty) (fuel : Nat) : isSub R (fuel + 3) t any = true := by
  have hfind : R.find? (fun r => if r.complex then any.isKind r.super else any == .prim r.super)
      = some RulesPinned.rule0 := by decide
  simp only [isSub, check, hfind]
  by_cases h : t == never <;> simp [h, RulesPinned.rule0, evalPred]

/-- **Known finding: transitivity fails** when `Never` sits below a container constructor:
    `&[Never] <: &[AnyResource]` (covariance, `Never` bottom) and `&[AnyResource] <: &AnyResource`
    (`isResource`), but `&[Never]` is not resource-kinded, so not `&[Never] <: &AnyResource`. -/
theorem trans_witness :
    let a : Ty := .ref unauthorized (.varArr never)
    let b : Ty := .ref unauthorized (.varArr (.prim "AnyResource"))
    let c : Ty := .ref unauthorized (.prim "AnyResource")
    isSub R (fuelFor a b) a b = true ∧ isSub R (fuelFor b c) b c = true ∧ isSub R (fuelFor a c) a c = false := by
  decide

/-- **Known finding: the run-time relation differs from the checker's** on optionals of `Never`:
    `interpreter.IsSubTypeOfSemaType` unwraps the optional before asking, so `Never? <: AnyResource` at
    run time, while the checker's relation says no (`Never?` is not resource-kinded). -/
theorem runtime_optional_never_witness :
    isSubRuntime R 100 (.opt never) (.prim "AnyResource") = true ∧
    isSub R 100 (.opt never) (.prim "AnyResource") = false := by
  decide

/-- The run-time relation is the checker's relation whenever the sub type is not an optional. -/
theorem runtime_agrees_partial (a b : Ty) (fuel : Nat) (h : ∀ t, a ≠ .opt t) :
    isSubRuntime R (fuel + 3) a b = isSub R (fuel + 3) a b := by
  have hsema : isSubOfSema R (fuel + 3) a b = if b == any then true else isSub R (fuel + 3) a b := by
    cases a <;> first | rfl | exact absurd rfl (h _)
  unfold isSubRuntime
  rw [hsema]
  by_cases hb : b == any
  · have : b = any := by simpa using hb
    subst this
    simp [any_top]
  · by_cases hab : a == b
    · have : a = b := by simpa using hab
      subst this
      simp [refl]
    · simp [hb, hab]

/-- Transitivity, **partial**: the region where one of the bounds / equalities applies (kept from the
    first round; any positive fuel).  The general result is `trans_kindstable_partial` below; the other
    proved regions are `trans_simple_partial` (the whole simple-type lattice) and
    `trans_covariant_partial` (any stack of array / optional constructors over it). -/
theorem trans_partial (a b c : Ty) (fuel : Nat)
    (hreg : a = never ∨ c = any ∨ a = b ∨ b = c)
    (hab : isSub R (fuel + 3) a b = true) (hbc : isSub R (fuel + 3) b c = true) :
    isSub R (fuel + 3) a c = true := by
  rcases hreg with h | h | h | h
  · subst h; exact never_bot c (fuel + 1)
  · subst h; exact any_top a fuel
  · subst h; exact hbc
  · subst h; exact hab

/-- On the 49 simple types the interpreted rules are the structured relation `psub` (reachability in the
    parent hierarchy, `Never` bottom): kernel-checked over the whole 49 × 49 table. -/
theorem simple_agree (a b : String) (ha : a ∈ Struct.primNames) (hb : b ∈ Struct.primNames) :
    isSub R 120 (.prim a) (.prim b) = Struct.psub a b :=
  Verif.Proofs.SubStruct.prim_agree a b ha hb

/-- Transitivity on the whole simple-type lattice (all 49³ triples, `Never` and the tops included). -/
theorem trans_simple_partial (a b c : String)
    (ha : a ∈ Struct.primNames) (hb : b ∈ Struct.primNames) (hc : c ∈ Struct.primNames)
    (hab : isSub R 120 (.prim a) (.prim b) = true) (hbc : isSub R 120 (.prim b) (.prim c) = true) :
    isSub R 120 (.prim a) (.prim c) = true := by
  rw [simple_agree a b ha hb] at hab
  rw [simple_agree b c hb hc] at hbc
  rw [simple_agree a c ha hc]
  exact Verif.Proofs.SubStruct.psub_trans a b c ha hb hc hab hbc

/-- Transitivity under any stack of covariant container constructors (variable / constant sized
    arrays, optionals — any nesting, any depth) over the simple-type lattice; includes `Never`
    elements (`[Never] <: [Int8] <: [Integer]`). -/
theorem trans_covariant_partial (ctx : Verif.Proofs.SubStruct.Ctx) (a b c : String)
    (ha : a ∈ Struct.primNames) (hb : b ∈ Struct.primNames) (hc : c ∈ Struct.primNames)
    (hab : isSub R (120 + ctx.fuel) (ctx.fill (.prim a)) (ctx.fill (.prim b)) = true)
    (hbc : isSub R (120 + ctx.fuel) (ctx.fill (.prim b)) (ctx.fill (.prim c)) = true) :
    isSub R (120 + ctx.fuel) (ctx.fill (.prim a)) (ctx.fill (.prim c)) = true := by
  rw [Verif.Proofs.SubStruct.ctx_agree ctx a b ha hb] at hab
  rw [Verif.Proofs.SubStruct.ctx_agree ctx b c hb hc] at hbc
  rw [Verif.Proofs.SubStruct.ctx_agree ctx a c ha hc]
  exact Verif.Proofs.SubStruct.psub_trans a b c ha hb hc hab hbc

/-- The fuel of the interpreter is NOT monotone at small fuel: a `not` node that runs out of fuel answers
    `true`, so `Any <: AnyStruct` is accepted with fuel 5 and (correctly) refused from fuel 6 on.  The
    statements below are therefore made from the driver's bound `fuelFor a b` upwards. -/
theorem fuel_not_monotone_witness :
    isSub R 5 any (.prim "AnyStruct") = true ∧ isSub R 6 any (.prim "AnyStruct") = false ∧
    isSub R (fuelFor any (.prim "AnyStruct")) any (.prim "AnyStruct") = false := by decide

/-- **The interpreted rules are the structured relation**: for all well-formed types (every simple type
    one of the 49, parameter lists only inside function types) — optionals, arrays, dictionaries,
    references with authorizations, composites, interfaces, intersections, function types, capabilities,
    inclusive ranges, at any nesting — the rule interpreter over the pinned rules.yaml data, at any fuel
    from the driver's bound upwards, equals `Struct.sub` (one clause per constructor).  Per-rule unfolding
    lemmas: `Proofs/SubUnfold*.lean`; induction on the total size: `Proofs/SubAgree2.agree`. -/
theorem struct_agree (a b : Ty) (ha : a.wf = true) (hb : b.wf = true) (n : Nat) (hn : fuelFor a b ≤ n) :
    isSub R n a b = Struct.sub a b :=
  Verif.Proofs.SubUnfold.agree _ a b (Nat.le_refl _) ha hb n hn

/-- Fuel stability: from the driver's bound upwards the answer does not depend on the fuel (so more fuel
    never changes a verdict, in either direction).  The unrestricted monotonicity
    `isSub R n a b = true → isSub R (n+k) a b = true` for *every* n is false (`fuel_not_monotone_witness`). -/
theorem fuel_stable (a b : Ty) (ha : a.wf = true) (hb : b.wf = true) (n : Nat) (hn : fuelFor a b ≤ n) :
    isSub R n a b = subtypeWith R a b := by
  rw [subtypeWith, struct_agree a b ha hb n hn, struct_agree a b ha hb _ (Nat.le_refl _)]

/-- Fuel monotonicity above the bound, both directions. -/
theorem fuel_monotone_partial (a b : Ty) (ha : a.wf = true) (hb : b.wf = true) (n k : Nat) (hn : fuelFor a b ≤ n) :
    isSub R (n + k) a b = isSub R n a b := by
  rw [fuel_stable a b ha hb n hn, fuel_stable a b ha hb (n + k) (by omega)]

/-- **Transitivity of the structured relation** over the whole type algebra — simple types, optionals,
    arrays, dictionaries, references (via transitivity of `permits`, M-AUTH), composites / interfaces /
    intersections (conformance closure), function types (contravariant parameters, covariant return,
    purity), capabilities, inclusive ranges; same-shape chains and shape-changing chains into `T?`,
    `AnyStruct`, `AnyResource`, `AnyStructAttachment`, `AnyResourceAttachment`, `HashableStruct`, `Any`
    (monotonicity of resource-kindedness, attachment-ness and hashability along `<:`:
    `Proofs/SubTrans2.{res_mono, att_mono, hash_mono}`).
    Hypotheses: each type is `Good` (well-formed; `Any` at most as the whole type; nominal facts coherent with
    one set of declarations `D`; reference authorizations writable); the sub-most type is kind-stable in
    covariant position and the super-most type in contravariant position — exactly the complement of the
    known finding's region (`trans_witness`, `trans_witness_contravariant`). -/
theorem trans_struct_partial (D : List Iface) (hD : Coh D) (a b c : Ty)
    (ha : Good D a) (hb : Good D b) (hc : Good D c)
    (hsta : kindStable a = true) (hstc : stab false c = true)
    (hab : Struct.sub a b = true) (hbc : Struct.sub b c = true) : Struct.sub a c = true :=
  Verif.Proofs.SubTrans.trans_top D hD a b c ha hb hc hsta hstc hab hbc

/-- **Transitivity of the interpreted rules of rules.yaml** (`IsSubType`) outside the known finding's
    region, at any fuels from the driver's bounds upwards: `struct_agree` + `trans_struct_partial`.
    Named partial because the unrestricted statement is false (`trans_witness`): what is excluded is
    `Never` directly below an optional / array / dictionary constructor in a covariant position of the
    sub-most type or a contravariant position (function parameter) of the super-most type; `Any` nested
    inside a type (not denotable); function type parameters, legacy intersection types and `Storable`
    are outside the model. -/
theorem trans_kindstable_partial (D : List Iface) (hD : Coh D) (a b c : Ty)
    (ha : Good D a) (hb : Good D b) (hc : Good D c)
    (hsta : kindStable a = true) (hstc : stab false c = true)
    (n1 n2 n3 : Nat) (h1 : fuelFor a b ≤ n1) (h2 : fuelFor b c ≤ n2) (h3 : fuelFor a c ≤ n3)
    (hab : isSub R n1 a b = true) (hbc : isSub R n2 b c = true) : isSub R n3 a c = true := by
  rw [struct_agree a b ha.wf hb.wf n1 h1] at hab
  rw [struct_agree b c hb.wf hc.wf n2 h2] at hbc
  rw [struct_agree a c ha.wf hc.wf n3 h3]
  exact trans_struct_partial D hD a b c ha hb hc hsta hstc hab hbc

/-- The same with the *executable* hypothesis checks the `types` driver evaluates on every `trans`
    operation (declarations printed from the real checker's types: `cohB`; the three types: `goodB`;
    kind-stability): operations tagged `thm` by the driver are exactly those this theorem speaks about. -/
theorem trans_checked_partial (D : List Iface) (a b c : Ty)
    (hD : cohB D = true) (ha : goodB D a = true) (hb : goodB D b = true) (hc : goodB D c = true)
    (hsta : kindStable a = true) (hstc : stab false c = true)
    (hab : subtypeWith R a b = true) (hbc : subtypeWith R b c = true) : subtypeWith R a c = true :=
  trans_kindstable_partial D (Verif.Proofs.SubCoh.coh_of_cohB D hD) a b c
    (Verif.Proofs.SubCoh.good_of_b D a ha) (Verif.Proofs.SubCoh.good_of_b D b hb) (Verif.Proofs.SubCoh.good_of_b D c hc)
    hsta hstc _ _ _ (Nat.le_refl _) (Nat.le_refl _) (Nat.le_refl _) hab hbc

/-- **Run-time subtype tests agree with the checker's relation** (`interpreter.IsSubType`, which unwraps
    optionals before asking, against `sema.IsSubType`) for every well-formed super type, whenever the sub
    type is well-formed, kind-stable and does not mention `Any` — optionals included (this extends
    `runtime_agrees_partial`, which excludes optional sub types altogether).  Outside: the known finding
    `runtime_optional_never_witness` (`Never? <: AnyResource` at run time only). -/
theorem runtime_agrees_kindstable_partial (a b : Ty) (ha : a.wf = true) (hb : b.wf = true)
    (hna : a.noAny = true) (hst : kindStable a = true) (n : Nat) (hn : fuelFor a b ≤ n) :
    isSubRuntime R n a b = isSub R n a b :=
  Verif.Proofs.SubTrans.runtime_struct a b ha hb hna hst n hn

/-- **Known finding: type equality differs between the checker and the run-time representation** for
    intersection types with a redundant member: `sema.IntersectionType.Equal` compares effective
    intersection sets, `IntersectionStaticType.Equal` the listed members, so with `RJ: RI` the types `{RJ}`
    and `{RI, RJ}` are equal for the checker and different at run time.  The subtype relations are not
    affected: both directions hold in every implementation and in the model. -/
theorem equal_intersection_witness :
    let ri : Iface := { name := "RI", kind := .resource, confs := [] }
    let rj : Iface := { name := "RJ", kind := .resource, confs := ["RI"] }
    let a : Ty := .inter [rj]
    let b : Ty := .inter [ri, rj]
    semaEq a b = true ∧ (a == b) = false ∧ subtypeWith R a b = true ∧ subtypeWith R b a = true := by
  decide

/-- **Known finding, contravariant form**: the same failure with the container of `Never` in a function
    parameter of the *super-most* type: `fun(&AnyResource) <: fun(&[AnyResource]) <: fun(&[Never])` but not
    `fun(&AnyResource) <: fun(&[Never])`. -/
theorem trans_witness_contravariant :
    let f : Ty → Ty := fun p => .fn false (.consT (.ref unauthorized p) .nilT) (.prim "Void")
    let a := f (.prim "AnyResource")
    let b := f (.varArr (.prim "AnyResource"))
    let c := f (.varArr never)
    isSub R (fuelFor a b) a b = true ∧ isSub R (fuelFor b c) b c = true ∧ isSub R (fuelFor a c) a c = false ∧
    kindStable a = true ∧ stab false c = false := by
  decide

/-! Non-vacuity / teeth -/
section
/-- the declarations of a small universe: `RJ: RI`, `SJ: SI` -/
def exD : List Iface :=
  [{ name := "RI", kind := .resource, confs := [] }, { name := "RJ", kind := .resource, confs := ["RI"] },
   { name := "SI", kind := .struct, confs := [] }, { name := "SJ", kind := .struct, confs := ["SI"] }]
example : Coh exD := ⟨by decide, by decide, by decide⟩
/-- a shape-changing chain the theorem covers: `[R] <: [{RJ}] <: [RI]?`, then on to `AnyResource?` -/
def exA : Ty := .varArr (.comp "R" .resource ["RI", "RJ"] false)
def exB : Ty := .varArr (.inter [{ name := "RJ", kind := .resource, confs := ["RI"] }])
def exC : Ty := .opt (.varArr (.iface { name := "RI", kind := .resource, confs := [] }))
example : Good exD exA ∧ Good exD exB ∧ Good exD exC :=
  ⟨⟨by decide, by decide, by simp [exA, exD, nomOK], by simp [exA, authOK]⟩,
   ⟨by decide, by decide, by simp [exB, exD, nomOK], by simp [exB, authOK]⟩,
   ⟨by decide, by decide, by simp [exC, exD, nomOK], by simp [exC, authOK]⟩⟩
example : kindStable exA = true ∧ stab false exC = true := by decide
example : cohB exD = true ∧ goodB exD exA = true ∧ goodB exD exB = true ∧ goodB exD exC = true := by decide
example : isSub R (fuelFor exA exB) exA exB = true ∧ isSub R (fuelFor exB exC) exB exC = true := by decide
end
example : kindStable (.ref unauthorized (.varArr never)) = false := by decide
example : kindStable (.opt (.opt (.comp "R" .resource [] false))) = true ∧ kindStable (.opt never) = false := by decide
example : (Ty.fn true (.consT (.ref unauthorized (.prim "Integer")) .nilT) (.opt (.dict (.prim "String") (.prim "Int8")))).wf = true := by decide
example : (Ty.prim "Storable").wf = false ∧ (Ty.consT (.prim "Int") .nilT).wf = false := by decide

example : isSub R 120 (.prim "Int8") (.prim "SignedInteger") = true ∧ isSub R 120 (.prim "SignedInteger") (.prim "Number") = true := by decide
example : "Int8" ∈ Struct.primNames ∧ "Never" ∈ Struct.primNames := by decide
example : (Verif.Proofs.SubStruct.Ctx.opt (.varArr .hole)).fill (.prim "Int8") = .opt (.varArr (.prim "Int8")) := rfl
example : isSub R 200 (.prim "Int8") (.prim "Number") = true := by decide
example : isSub R 200 (.prim "Number") (.prim "Int8") = false := by decide
example : isSub R 200 (.ref (.set .conj ["E1", "E2"]) (.prim "Int")) (.ref (.set .conj ["E1"]) (.prim "Integer")) = true := by decide
example : isSub R 200 (.ref (.set .conj ["E1"]) (.prim "Int")) (.ref (.set .conj ["E1", "E2"]) (.prim "Int")) = false := by decide
example : isSub R 200 (.comp "S" .struct ["SI", "SJ"] false) (.inter [{ name := "SI", kind := .struct, confs := [] }]) = true := by decide

end Verif.Properties.C08
