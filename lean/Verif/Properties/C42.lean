/-
C42 — CCF round-trips, is canonical in deterministic mode, and never crashes.

Model: Verif.Model.Codec.Cbor (CBOR data items <-> bytes, the subset CCF uses) and
Verif.Model.Codec.Ccf (port of the encoder of encoding/ccf: collection and sorting of type
definitions, inline types, type values, values, the sorters), over Verif.Model.Codec.CValue.
Tie: FX table Verif.Gen.CcfTags (tag numbers and simple type ids from the running code) + stream `ccf`
(Go bytes = model bytes in default and deterministic mode on every generated value; Go decoders judged
against the spec: decoded value = value up to what CCF does not carry, permutations encode
identically, the strict decoder accepts sorted and rejects unsorted encodings, no escaping panic).
Only statements and their final proofs live here; lemmas are in Verif.Proofs.Codec.Sort.
-/
import Verif.Proofs.Codec.Sort
import Verif.Proofs.Codec.Canonical
import Verif.Proofs.Codec.Cbor
namespace Verif.Properties.C42
open Verif.Model.Codec Verif.Model.Codec.Ccf Verif.Proofs.Codec.Sort Verif.Proofs.Codec.Canonical

/-- FX obligation: the CBOR tag numbers of the running code (`ccf.CBORTag`, by stringer name) are the
pinned ones the model uses. -/
theorem tags_pinned : Verif.Gen.CcfTags.cborTags = pinnedTags := by decide

/-- FX obligation: simple type ids of the running encoder for the types the model relies on. -/
theorem simple_types_pinned :
    simpleTypeID "Bool" = some 0 ∧ simpleTypeID "String" = some 1 ∧ simpleTypeID "Address" = some 3 ∧
    simpleTypeID "Int" = some 4 ∧ simpleTypeID "UInt64" = some 15 ∧ simpleTypeID "Word64" = some 21 ∧
    simpleTypeID "AnyStruct" = some 39 ∧ simpleTypeID "Type" = some 41 ∧ simpleTypeID "Never" = some 42 ∧
    simpleTypeID "Bytes" = some 49 ∧ simpleTypeID "Void" = some 50 ∧ simpleTypeID "Function" = none ∧
    (Verif.Gen.CcfTags.simpleTypes.find? (fun e => e.1 == simpleTypeFunction)).map (·.2.1) = some "SimpleTypeFunction" := by
  decide

/-- CBOR item layer (full strength for the subset CCF uses): every well-formed data item (head arguments
below 2^64; simple values false / true / null) is read back from its shortest-form encoding, with any
trailing bytes left unread, and a complete message decodes to the item. -/
theorem cbor_roundtrip (i : Cbor) (hw : i.wf = true) :
    (∀ fuel rest, Cbor.need i ≤ fuel → Cbor.decodeItem fuel (Cbor.encode i ++ rest) = some (i, rest)) ∧
    Cbor.decode (Cbor.encode i) = some i :=
  ⟨fun fuel rest hf => Verif.Proofs.Codec.CborRt.decodeItem_encode i fuel rest hw hf,
   Verif.Proofs.Codec.CborRt.decode_encode i hw⟩

example : (Cbor.tag 130 (.arr [.tag 137 (.uint 4), .tag 3 (.bytes [1, 0]), .text "é", .nint 300, Cbor.null])).wf = true := by decide

/-- The sorters (`sort.Sort` with the comparators of sort.go, modelled by insertion sort): sorting a
permutation gives one result whenever the comparator is a total preorder that is antisymmetric on
the members (keys pairwise different).  Shared with C33. -/
theorem sort_unique {α} (le : α → α → Bool)
    (total : ∀ a b, le a b = true ∨ le b a = true)
    (trans : ∀ a b c, le a b = true → le b c = true → le a c = true)
    {l₁ l₂ : List α} (h : l₁.Perm l₂)
    (antisymm : ∀ a b, a ∈ l₁ → b ∈ l₁ → le a b = true → le b a = true → a = b) :
    sortBy le l₁ = sortBy le l₂ := sortBy_eq_of_perm le total trans h antisymm

example : sortBy lenFirstLe ["S.test.X", "A.0000000000000001.E", "S.a.X"] = sortBy lenFirstLe ["S.a.X", "S.test.X", "A.0000000000000001.E"] :=
  sort_unique _ lenFirstLe_total lenFirstLe_trans (by decide) (fun a b _ _ => lenFirstLe_antisymm a b)

/-- Canonical form, entitlement sets (full strength): in a mode that sorts entitlement types, the
encoding of an entitlement-set authorization does not depend on the order of the entitlements. -/
theorem canonical_entitlements (m : Mode) (hm : m.sortEntitlements = true) (isType : Bool)
    {ids₁ ids₂ : List String} (h : ids₁.Perm ids₂) :
    authItem m isType (.conj ids₁) = authItem m isType (.conj ids₂) ∧
    authItem m isType (.disj ids₁) = authItem m isType (.disj ids₂) := by
  have e := sortBy_eq_of_perm lenFirstLe lenFirstLe_total lenFirstLe_trans h (fun a b _ _ => lenFirstLe_antisymm a b)
  simp [authItem, hm, e]

example : authItem Mode.deterministic true (.conj ["S.test.X", "S.a.X"]) = authItem Mode.deterministic true (.conj ["S.a.X", "S.test.X"]) :=
  (canonical_entitlements _ rfl _ (by decide)).1

/-- Canonical form, dictionaries (full strength, every mode): two dictionary values of the same type
whose entries are permutations of each other, with pairwise different encoded keys, have the same
encoding (if one of them can be encoded, so can the other, to the same item). -/
theorem canonical_dictionary (m : Mode) (tids : List Collected) (t : CType) (kvs₁ kvs₂ : Pairs)
    (h : kvs₁.toList.Perm kvs₂.toList) (x : Cbor)
    (h1 : valueBody m tids (.dict t kvs₁) = .ok x)
    (distinct : ∀ ps, pairs m tids kvs₁ (dictKeyType t) (dictValType t) = .ok ps →
      ∀ a b, a ∈ ps → b ∈ ps → Cbor.encode a.1 = Cbor.encode b.1 → a = b) :
    valueBody m tids (.dict t kvs₂) = .ok x :=
  dict_canonical m tids t kvs₁ kvs₂ h x h1 distinct

/-- Canonical form, intersection types (full strength for inline types): in a mode that sorts
intersection types, two intersection types whose members are permutations of each other, with pairwise
different type IDs, have the same encoding. -/
theorem canonical_intersection (m : Mode) (hm : m.sortIntersections = true) (tids : List Collected)
    (ts₁ ts₂ : Types) (h : ts₁.toList.Perm ts₂.toList) (x : Cbor)
    (h1 : inlineType m tids (.inter ts₁) = .ok x) (distinct : (Types.ids ts₁).Nodup) :
    inlineType m tids (.inter ts₂) = .ok x :=
  inter_canonical m hm tids ts₁ ts₂ h x h1 distinct

/-
Full statement (DESIGN §6 C42 `canonical`): `encode Mode.deterministic v = encode Mode.deterministic v'`
whenever `v'` is `v` with dictionary entries, intersection members and entitlement sets permuted.
Proved per construct: entitlement sets, dictionary values, inline intersection types (above).  Missing:
the closure under contexts (a permuted member nested inside a larger value: congruence of the recursive
encoder, and the collection / numbering of type definitions is by sorted type ID and so order
independent), intersection types inside type values (the encoder threads its `visited` table through
the sorted members), and composite fields in deterministic mode.  The stream op `perm` checks the full
statement on the Go code against the model.
-/

/-- Canonical form, dictionaries: the encoder sorts the encoded key-value pairs by the bytes of the
encoded key; for pairwise different encoded keys every permutation of the entries gives the same
sorted sequence (in every mode: dictionaries are always sorted). -/
theorem canonical_dictionary_partial {ps₁ ps₂ : List (Cbor × Cbor)} (h : ps₁.Perm ps₂)
    (distinct : ∀ a b, a ∈ ps₁ → b ∈ ps₁ → Cbor.encode a.1 = Cbor.encode b.1 → a = b) :
    flattenPairs (sortPairs ps₁) = flattenPairs (sortPairs ps₂) := by
  unfold sortPairs
  rw [sortBy_eq_of_perm (fun (a b : Cbor × Cbor) => bytesLe (Cbor.encode a.1) (Cbor.encode b.1))
    (fun _ _ => bytesLe_total _ _) (fun _ _ _ => bytesLe_trans _ _ _) h
    (fun a b ha hb h1 h2 => distinct a b ha hb (bytesLe_antisymm _ _ h1 h2))]

/-- Canonical form, intersection types and composite fields: members keyed by type ID (fields by
name) are ordered length-first byte-wise; for pairwise different keys every permutation gives the same
order. -/
theorem canonical_keyed_partial {β} {l₁ l₂ : List (String × β)} (h : l₁.Perm l₂)
    (distinct : ∀ a b, a ∈ l₁ → b ∈ l₁ → a.1 = b.1 → a = b) :
    sortBy (fun a b => lenFirstLe a.1 b.1) l₁ = sortBy (fun a b => lenFirstLe a.1 b.1) l₂ :=
  sortBy_eq_of_perm (fun (a b : String × β) => lenFirstLe a.1 b.1)
    (fun _ _ => lenFirstLe_total _ _) (fun _ _ _ => lenFirstLe_trans _ _ _) h
    (fun a b ha hb h1 h2 => distinct a b ha hb (lenFirstLe_antisymm _ _ h1 h2))

example : sortBy (fun (a b : String × Nat) => lenFirstLe a.1 b.1) [("to", 1), ("a", 2)] =
    sortBy (fun (a b : String × Nat) => lenFirstLe a.1 b.1) [("a", 2), ("to", 1)] :=
  canonical_keyed_partial (by decide) (by
    intro a b ha hb h
    simp only [List.mem_cons, List.not_mem_nil, or_false] at ha hb
    rcases ha with rfl | rfl <;> rcases hb with rfl | rfl <;> simp_all)

/-- The order of the sorters is the one the decoder enforces: `lenFirstLe` is Go's
`stringsAreSortedBytewise` extended by equality, `bytesLe` is `bytes.Compare(a, b) <= 0`; a sorted
sequence is pairwise ordered, so each adjacent pair passes the decoder's check
(`strict_accepts_own` for the sorted lists themselves). -/
theorem sorted_output_is_ordered {α} (le : α → α → Bool)
    (total : ∀ a b, le a b = true ∨ le b a = true)
    (trans : ∀ a b c, le a b = true → le b c = true → le a c = true) (l : List α) :
    (sortBy le l).Pairwise (fun a b => le a b = true) := sortBy_pairwise le total trans l

/-
Not yet theorems (no Lean port of decode.go / decode_type.go / decode_typedef.go exists):
`roundtrip` (decode (encode v) = ok v up to what CCF does not carry), `strict_accepts_own`,
`strict_rejects_unsorted`, `decode_total`, `cbor_roundtrip`.  Each is checked on the Go code by the
stream `ccf` against the encoder model and the spec (ops `rt`, `strict`, `mutb`).
-/

end Verif.Properties.C42
