/-
C42 — CCF round-trips, is canonical in deterministic mode, and never crashes.

Model: Verif.Model.Codec.Cbor (CBOR data items <-> bytes, the subset CCF uses) and
Verif.Model.Codec.Ccf (port of the encoder of encoding/ccf: collection and sorting of type
definitions, inline types, type values, values, the sorters), over Verif.Model.Codec.CValue.
Decoder: Verif.Model.Codec.CcfDecode (port of decode.go / decode_type.go / decode_typedef.go on CBOR items).
Tie: FX table Verif.Gen.CcfTags (tag numbers and simple type ids from the running code) + stream `ccf`
(Go bytes = model bytes in default and deterministic mode on every generated value; Go decoders judged
against the spec: decoded value = value up to what CCF does not carry, permutations encode
identically, the strict decoder accepts sorted and rejects unsorted encodings, no escaping panic).
Only statements and their final proofs live here; lemmas are in Verif.Proofs.Codec.Sort.
-/
import Verif.Proofs.Codec.Sort
import Verif.Proofs.Codec.Canonical
import Verif.Proofs.Codec.Cbor
import Verif.Proofs.Codec.CcfRt
namespace Verif.Properties.C42
open Verif.Model.Codec Verif.Model.Codec.Ccf Verif.Proofs.Codec.Sort Verif.Proofs.Codec.Canonical
open Verif.Model.Codec.CcfDecode (DMode decodeMsgF decodeMsg)
open Verif.Model.Codec.CcfDecode.Rt (Fits canonV vdepth outOfOrder strOutOfOrder)

/-- FX obligation: the CBOR tag numbers of the running code (`ccf.CBORTag`, by stringer name) are the
pinned ones the model uses. -/
theorem tags_pinned : Verif.Gen.CcfTags.cborTags = pinnedTags := by decide

/-- FX obligation: simple type ids of the running encoder for the types the model relies on. -/
theorem simple_types_pinned :
    simpleTypeID "Bool" = some 0 ∧ simpleTypeID "String" = some 1 ∧ simpleTypeID "Address" = some 3 ∧
    simpleTypeID "Int" = some 4 ∧ simpleTypeID "UInt64" = some 15 ∧ simpleTypeID "Word64" = some 21 ∧
    simpleTypeID "AnyStruct" = some 39 ∧ simpleTypeID "Type" = some 41 ∧ simpleTypeID "Never" = some 42 ∧
    simpleTypeID "Bytes" = some 49 ∧ simpleTypeID "Void" = some 50 ∧ simpleTypeID "Function" = none ∧
    (Verif.Gen.CcfTags.simpleTypes.find? (fun e => e.1 == simpleTypeFunction)).map (·.2.1) = some "SimpleTypeFunction" := by
  decide

/-- CBOR item layer (full strength for the subset CCF uses): every well-formed data item (head arguments
below 2^64; simple values false / true / null) is read back from its shortest-form encoding, with any
trailing bytes left unread, and a complete message decodes to the item. -/
theorem cbor_roundtrip (i : Cbor) (hw : i.wf = true) :
    (∀ fuel rest, Cbor.need i ≤ fuel → Cbor.decodeItem fuel (Cbor.encode i ++ rest) = some (i, rest)) ∧
    Cbor.decode (Cbor.encode i) = some i :=
  ⟨fun fuel rest hf => Verif.Proofs.Codec.CborRt.decodeItem_encode i fuel rest hw hf,
   Verif.Proofs.Codec.CborRt.decode_encode i hw⟩

example : (Cbor.tag 130 (.arr [.tag 137 (.uint 4), .tag 3 (.bytes [1, 0]), .text "é", .nint 300, Cbor.null])).wf = true := by decide

/-- The sorters (`sort.Sort` with the comparators of sort.go, modelled by insertion sort): sorting a
permutation gives one result whenever the comparator is a total preorder that is antisymmetric on
the members (keys pairwise different).  Shared with C33. -/
theorem sort_unique {α} (le : α → α → Bool)
    (total : ∀ a b, le a b = true ∨ le b a = true)
    (trans : ∀ a b c, le a b = true → le b c = true → le a c = true)
    {l₁ l₂ : List α} (h : l₁.Perm l₂)
    (antisymm : ∀ a b, a ∈ l₁ → b ∈ l₁ → le a b = true → le b a = true → a = b) :
    sortBy le l₁ = sortBy le l₂ := sortBy_eq_of_perm le total trans h antisymm

example : sortBy lenFirstLe ["S.test.X", "A.0000000000000001.E", "S.a.X"] = sortBy lenFirstLe ["S.a.X", "S.test.X", "A.0000000000000001.E"] :=
  sort_unique _ lenFirstLe_total lenFirstLe_trans (by decide) (fun a b _ _ => lenFirstLe_antisymm a b)

/-- Canonical form, entitlement sets (full strength): in a mode that sorts entitlement types, the
encoding of an entitlement-set authorization does not depend on the order of the entitlements. -/
theorem canonical_entitlements (m : Mode) (hm : m.sortEntitlements = true) (isType : Bool)
    {ids₁ ids₂ : List String} (h : ids₁.Perm ids₂) :
    authItem m isType (.conj ids₁) = authItem m isType (.conj ids₂) ∧
    authItem m isType (.disj ids₁) = authItem m isType (.disj ids₂) := by
  have e := sortBy_eq_of_perm lenFirstLe lenFirstLe_total lenFirstLe_trans h (fun a b _ _ => lenFirstLe_antisymm a b)
  simp [authItem, hm, e]

example : authItem Mode.deterministic true (.conj ["S.test.X", "S.a.X"]) = authItem Mode.deterministic true (.conj ["S.a.X", "S.test.X"]) :=
  (canonical_entitlements _ rfl _ (by decide)).1

/-- Canonical form, dictionaries (full strength, every mode): two dictionary values of the same type
whose entries are permutations of each other, with pairwise different encoded keys, have the same
encoding (if one of them can be encoded, so can the other, to the same item). -/
theorem canonical_dictionary (m : Mode) (tids : List Collected) (t : CType) (kvs₁ kvs₂ : Pairs)
    (h : kvs₁.toList.Perm kvs₂.toList) (x : Cbor)
    (h1 : valueBody m tids (.dict t kvs₁) = .ok x)
    (distinct : ∀ ps, pairs m tids kvs₁ (dictKeyType t) (dictValType t) = .ok ps →
      ∀ a b, a ∈ ps → b ∈ ps → Cbor.encode a.1 = Cbor.encode b.1 → a = b) :
    valueBody m tids (.dict t kvs₂) = .ok x :=
  dict_canonical m tids t kvs₁ kvs₂ h x h1 distinct

/-- Canonical form, intersection types (full strength for inline types): in a mode that sorts
intersection types, two intersection types whose members are permutations of each other, with pairwise
different type IDs, have the same encoding. -/
theorem canonical_intersection (m : Mode) (hm : m.sortIntersections = true) (tids : List Collected)
    (ts₁ ts₂ : Types) (h : ts₁.toList.Perm ts₂.toList) (x : Cbor)
    (h1 : inlineType m tids (.inter ts₁) = .ok x) (distinct : (Types.ids ts₁).Nodup) :
    inlineType m tids (.inter ts₂) = .ok x :=
  inter_canonical m hm tids ts₁ ts₂ h x h1 distinct

/-
Full statement (DESIGN §6 C42 `canonical`): `encode Mode.deterministic v = encode Mode.deterministic v'`
whenever `v'` is `v` with dictionary entries, intersection members and entitlement sets permuted.
Proved per construct: entitlement sets, dictionary values, inline intersection types (above).  Missing:
the closure under contexts (a permuted member nested inside a larger value: congruence of the recursive
encoder, and the collection / numbering of type definitions is by sorted type ID and so order
independent), intersection types inside type values (the encoder threads its `visited` table through
the sorted members), and composite fields in deterministic mode.  The stream op `perm` checks the full
statement on the Go code against the model.
-/

/-- Canonical form, dictionaries: the encoder sorts the encoded key-value pairs by the bytes of the
encoded key; for pairwise different encoded keys every permutation of the entries gives the same
sorted sequence (in every mode: dictionaries are always sorted). -/
theorem canonical_dictionary_partial {ps₁ ps₂ : List (Cbor × Cbor)} (h : ps₁.Perm ps₂)
    (distinct : ∀ a b, a ∈ ps₁ → b ∈ ps₁ → Cbor.encode a.1 = Cbor.encode b.1 → a = b) :
    flattenPairs (sortPairs ps₁) = flattenPairs (sortPairs ps₂) := by
  unfold sortPairs
  rw [sortBy_eq_of_perm (fun (a b : Cbor × Cbor) => bytesLe (Cbor.encode a.1) (Cbor.encode b.1))
    (fun _ _ => bytesLe_total _ _) (fun _ _ _ => bytesLe_trans _ _ _) h
    (fun a b ha hb h1 h2 => distinct a b ha hb (bytesLe_antisymm _ _ h1 h2))]

/-- Canonical form, intersection types and composite fields: members keyed by type ID (fields by
name) are ordered length-first byte-wise; for pairwise different keys every permutation gives the same
order. -/
theorem canonical_keyed_partial {β} {l₁ l₂ : List (String × β)} (h : l₁.Perm l₂)
    (distinct : ∀ a b, a ∈ l₁ → b ∈ l₁ → a.1 = b.1 → a = b) :
    sortBy (fun a b => lenFirstLe a.1 b.1) l₁ = sortBy (fun a b => lenFirstLe a.1 b.1) l₂ :=
  sortBy_eq_of_perm (fun (a b : String × β) => lenFirstLe a.1 b.1)
    (fun _ _ => lenFirstLe_total _ _) (fun _ _ _ => lenFirstLe_trans _ _ _) h
    (fun a b ha hb h1 h2 => distinct a b ha hb (lenFirstLe_antisymm _ _ h1 h2))

example : sortBy (fun (a b : String × Nat) => lenFirstLe a.1 b.1) [("to", 1), ("a", 2)] =
    sortBy (fun (a b : String × Nat) => lenFirstLe a.1 b.1) [("a", 2), ("to", 1)] :=
  canonical_keyed_partial (by decide) (by
    intro a b ha hb h
    simp only [List.mem_cons, List.not_mem_nil, or_false] at ha hb
    rcases ha with rfl | rfl <;> rcases hb with rfl | rfl <;> simp_all)

/-- The order of the sorters is the one the decoder enforces: `lenFirstLe` is Go's
`stringsAreSortedBytewise` extended by equality, `bytesLe` is `bytes.Compare(a, b) <= 0`; a sorted
sequence is pairwise ordered, so each adjacent pair passes the decoder's check
(`strict_accepts_own` for the sorted lists themselves). -/
theorem sorted_output_is_ordered {α} (le : α → α → Bool)
    (total : ∀ a b, le a b = true ∨ le b a = true)
    (trans : ∀ a b c, le a b = true → le b c = true → le a c = true) (l : List α) :
    (sortBy le l).Pairwise (fun a b => le a b = true) := sortBy_pairwise le total trans l

/-- FX obligation: the simple type ids of the running code and the primitive types they stand for are in
bijection (the decoder's `typeBySimpleTypeID` is the inverse of the encoder's table). -/
theorem simple_types_bijective : Verif.Proofs.Codec.CcfRt.tableBijective = true :=
  Verif.Proofs.Codec.CcfRt.tableBijective_ok

/-
Full statements (DESIGN §6 C42), for every value `v` with complete type information:
  `roundtrip`: `decode dm (encode m v) = ok v'` with `v'` equal to `v` up to the order of dictionary entries
  (and up to what CCF does not carry: `eraseV`) and of equal type;
  `strict_accepts_own`: `decode DMode.strict (encode Mode.deterministic v)` succeeds;
  `strict_rejects_unsorted`: an encoding with dictionary entries / intersection members / entitlements /
  fields / type definitions out of order is rejected.
Proved below on the subset `Fits` (scalars of every integer kind, Fix64 / UFix64, strings, characters,
addresses, paths, capabilities, optionals, arrays, dictionaries, inclusive ranges, at static types built from
simple types with optionals, arrays, dictionaries, ranges, capabilities, references; the recorded known
findings are excluded by the predicate: no function values, and a value encoded as nil is the nil its
static type determines).  Missing: composite values and type definitions, type values, Fix128 / UFix128,
abstract static types (run-time type tags), intersections and entitlement sets with several members in types
of values; and the fuel of `decodeMsg` (`msgFuel`, the size of the item) is not proved sufficient: the
theorems are about `decodeMsgF` with any fuel above the nesting of the value.  The stream `ccf` compares
`ccf.Decode` with the port (MODELDIFF) and with the spec on every generated value of every kind.
-/

/-- Round trip on the subset `Fits` without composite types, for every encoder mode and every decoder
mode: the message decodes to the value with every dictionary's entries in the order of the encoded keys
(`canonV`), which has the same type. -/
theorem roundtrip_partial (m : Mode) (dm : DMode) (v : CValue) (hf : Fits v v.typeOf) (hc : collect v = []) :
    ∃ x, encodeItem m v = .ok x ∧
      (∀ fuel, vdepth v < fuel → decodeMsgF dm fuel x = .ok (canonV m [] v)) ∧
      (canonV m [] v).typeOf = v.typeOf := by
  obtain ⟨x, hx, hd⟩ := Verif.Model.Codec.CcfDecode.Rt.rt_msg m dm v hf hc
  exact ⟨x, hx, hd, Verif.Model.Codec.CcfDecode.Rt.canonV_typeOf m [] v⟩

example : Fits (.dict (.dict (.prim "String") (.opt (.prim "Int8")))
    (.cons (.str "b") (.some (.int "Int8" (-128))) (.cons (.str "a") .none .nil)))
    (.dict (.prim "String") (.opt (.prim "Int8"))) := by
  simp [Fits, Verif.Model.Codec.CcfDecode.Rt.FitsPs, dictKeyType, dictValType, Verif.Model.Codec.CcfDecode.Rt.encNil,
    Verif.Model.Codec.CcfDecode.nilOptional]
  decide

/-- "Equal up to the order of dictionary entries": the entries of the decoded dictionary are a
permutation of the (recursively canonical) entries. -/
theorem roundtrip_dictionary_is_permutation (m : Mode) (t : CType) (kvs : Pairs) :
    ∃ l : List (List UInt8 × (CValue × CValue)), canonV m [] (.dict t kvs) = .dict t (Pairs.ofList (l.map (·.2))) ∧
      l.Perm (Verif.Model.Codec.CcfDecode.Rt.keyedPs m [] (dictKeyType t) kvs) :=
  ⟨sortBy (fun a b => bytesLe a.1 b.1) (Verif.Model.Codec.CcfDecode.Rt.keyedPs m [] (dictKeyType t) kvs),
    by simp [canonV], sortBy_perm _ _⟩

/-- The bytes: a well-formed message item is read back from its bytes, so `decode` on the bytes is
`decodeMsg` on the item (with `cbor_roundtrip`). -/
theorem decode_bytes (dm : DMode) (x : Cbor) (hw : x.wf = true) :
    Verif.Model.Codec.CcfDecode.decode dm (Cbor.encode x) = decodeMsg dm x :=
  Verif.Model.Codec.CcfDecode.Rt.decode_bytes dm x hw

/-- The strict decoder accepts every deterministic-mode encoding, on the subset of `roundtrip_partial`. -/
theorem strict_accepts_own_partial (v : CValue) (hf : Fits v v.typeOf) (hc : collect v = []) :
    ∃ x, encodeItem Mode.deterministic v = .ok x ∧
      ∀ fuel, vdepth v < fuel → decodeMsgF DMode.strict fuel x = .ok (canonV Mode.deterministic [] v) := by
  obtain ⟨x, hx, hd, _⟩ := roundtrip_partial Mode.deterministic DMode.strict v hf hc
  exact ⟨x, hx, hd⟩

/-- Every decoder mode rejects a dictionary value in which some key's raw bytes are smaller than those
of the key before it (`bytes.Compare(previous, key) <= 0` is required), whatever the rest of the
encoding; equal adjacent keys are not out of order (see `duplicate_keys_accepted_witness`).  Stated for the
dictionary construct; not lifted through an arbitrary enclosing message. -/
theorem strict_rejects_unsorted_dictionary_partial (dm : DMode) (tbl : Verif.Model.Codec.CcfDecode.Table)
    (fuel : Nat) (kt vt : CType) (xs : List Cbor) (h : outOfOrder [] xs) (v : CValue) :
    Verif.Model.Codec.CcfDecode.decodeValue dm tbl fuel (.dict kt vt) (.arr xs) ≠ .ok v :=
  Verif.Model.Codec.CcfDecode.Rt.decodeDict_outOfOrder dm tbl fuel kt vt xs h v

example : outOfOrder [] [.text "b", .uint 0, .text "a", .uint 1] := by
  simp [outOfOrder, bytesLe]
  decide

/-- With the sort options enforced, the checks on intersection members, field names and entitlements
(`stringsAreSortedBytewise`: strictly increasing, length first) reject every sequence with a member that
is not strictly after the one before it.  Stated for the checks; not lifted through the type decoders. -/
theorem strict_rejects_unsorted_members_partial (ids : List String) (prev : String) (seen : List String)
    (h : strOutOfOrder prev ids) :
    Verif.Model.Codec.CcfDecode.checkMembers true ids prev seen = false ∧
    Verif.Model.Codec.CcfDecode.checkNames true ids prev seen = false ∧
    ∀ r, Verif.Model.Codec.CcfDecode.entitlements true (ids.map Cbor.text) prev seen ≠ .ok r :=
  ⟨Verif.Model.Codec.CcfDecode.Rt.checkMembers_outOfOrder ids prev seen h,
   Verif.Model.Codec.CcfDecode.Rt.checkNames_outOfOrder ids prev seen h,
   Verif.Model.Codec.CcfDecode.Rt.entitlements_outOfOrder ids prev seen h⟩

example : strOutOfOrder "" ["S.test.X", "S.a.X"] := by
  simp [strOutOfOrder, Verif.Model.Codec.CcfDecode.strSorted]
  decide

/-- Witness (the code as it is): a dictionary with the same key twice in a row is accepted by the strict
decoder — equal keys are not out of order for `bytes.Compare <= 0`; CCF leaves the rejection of
duplicate keys to the application ("Decoders are not always required to check for duplicate
dictionary keys"). -/
theorem duplicate_keys_accepted_witness :
    Verif.Model.Codec.CcfDecode.decodePairs DMode.strict [] 1 (.prim "UInt8") (.prim "UInt8") []
      [.uint 1, .uint 0, .uint 1, .uint 2] =
    .ok (.cons (.int "UInt8" 1) (.int "UInt8" 0) (.cons (.int "UInt8" 1) (.int "UInt8" 2) .nil)) := by
  have h : ∀ n : Nat, n < 256 → Verif.Model.Codec.CcfDecode.decodeValue DMode.strict [] 1 (.prim "UInt8") (.uint n) =
      .ok (.int "UInt8" (Int.ofNat n)) := by
    intro n hn
    rw [Verif.Model.Codec.CcfDecode.decodeValue]
    have : Int.ofNat n ≤ 255 := by simp only [Int.ofNat_eq_natCast]; omega
    simp [Verif.Model.Codec.CcfDecode.simpleValue, Verif.Model.Codec.CcfDecode.isBigKind,
      Verif.Model.Codec.CcfDecode.isInt64Kind, Verif.Model.Codec.CcfDecode.isUint64Kind,
      Verif.Model.Codec.CcfDecode.asUint, intKindOk, intRange, inRange, bind, Except.bind, pure, Except.pure]
    omega
  rw [Verif.Model.Codec.CcfDecode.decodePairs, Verif.Model.Codec.CcfDecode.decodePairs,
    Verif.Model.Codec.CcfDecode.decodePairs]
  have e1 := h 1 (by omega); have e0 := h 0 (by omega); have e2 := h 2 (by omega)
  simp [Verif.Model.Codec.CcfDecode.rawSorted, bytesLe, Cbor.encode, Cbor.head, e0, e1, e2, bind, Except.bind, pure,
    Except.pure]

/-- Decoding is total: the port of the decoder is a terminating function into value-or-error (no
partiality: every malformed head, tag, length or type is an error value; Go panics carrying an `error`
are recovered by `Decoder.Decode`). -/
theorem decode_total (dm : DMode) (bs : List UInt8) :
    (∃ v, Verif.Model.Codec.CcfDecode.decode dm bs = .ok v) ∨ (∃ e, Verif.Model.Codec.CcfDecode.decode dm bs = .error e) := by
  cases h : Verif.Model.Codec.CcfDecode.decode dm bs with
  | ok v => exact .inl ⟨v, rfl⟩
  | error e => exact .inr ⟨e, rfl⟩

end Verif.Properties.C42
