import Verif.Model.Caches
import Verif.Spec.CacheFacts
import Verif.Proofs.Caches
/-!
# C31 — Metering is deterministic and independent of execution history

Model: `Verif.Model.Caches` (part 1).  A program, as seen by the gauges and the process-wide caches,
is a tree of gauge calls and cache reads (`Prog`); `run` threads the cache state; a history is any
list of earlier programs.  Per-run determinism is by construction (`run` is a function); the content
is that the cache state — the only thing a history leaves behind in the process — cannot influence
the charge sequence when no cache fill path meters (`Unmetered`, established for /repo by
`cachefacts_ok`).
-/
namespace Verif.Properties.C31
open Verif.Model.Caches Verif.Proofs.Caches

/-- FX obligation: the extracted inventory of caches / memo cells equals the pinned classified one and
no cell that can outlive an execution has a metering call or a live gauge argument in its fill path. -/
theorem cachefacts_ok : Verif.Spec.CacheFacts.cachefactsOk = true := by decide

/-- Invariant: whatever ran before, every filled cell holds the pure initialiser's value. -/
theorem history_keeps_caches_consistent {κ α ρ : Type} [DecidableEq κ] (f : Fill κ α)
    (history : List (Prog κ α ρ)) : Consistent f (after f history Table.empty) :=
  after_consistent f history _ (consistent_empty f)

/-- **History independence.**  Under the side condition, for every program and every two histories of
earlier programs (any cache states reachable in a process), the emitted sequences of gauge calls are
equal, and so are the results. -/
theorem history_independent {κ α ρ : Type} [DecidableEq κ] (f : Fill κ α) (hu : Unmetered f)
    (p : Prog κ α ρ) (h₁ h₂ : List (Prog κ α ρ)) :
    (run f p (after f h₁ Table.empty)).charges = (run f p (after f h₂ Table.empty)).charges ∧
    (run f p (after f h₁ Table.empty)).result = (run f p (after f h₂ Table.empty)).result :=
  run_eq f hu p _ _ (history_keeps_caches_consistent f h₁) (history_keeps_caches_consistent f h₂)

/-- Fresh process versus reused process: the special case `h₁ = []`. -/
theorem fresh_eq_reused {κ α ρ : Type} [DecidableEq κ] (f : Fill κ α) (hu : Unmetered f)
    (p : Prog κ α ρ) (history : List (Prog κ α ρ)) :
    (run f p Table.empty).charges = (run f p (after f history Table.empty)).charges :=
  (history_independent f hu p [] history).1

/-- The statement for arbitrary cache states (not only reachable ones): any two *consistent* states. -/
theorem cache_state_irrelevant {κ α ρ : Type} [DecidableEq κ] (f : Fill κ α) (hu : Unmetered f)
    (p : Prog κ α ρ) (t₁ t₂ : Table κ α) (c₁ : Consistent f t₁) (c₂ : Consistent f t₂) :
    (run f p t₁).charges = (run f p t₂).charges :=
  (run_eq f hu p t₁ t₂ c₁ c₂).1

/-- The side condition is necessary: a cache whose fill path charges anything at some key makes the
charge sequence of a one-read program depend on whether that program ran before (this is the shape of
the seeded change "meter inside `smallIntegerValueCache.new`"). -/
theorem metered_fill_history_dependent {κ α : Type} [DecidableEq κ] (f : Fill κ α) (k : κ)
    (hm : f.fillCharges k ≠ []) :
    ∃ (p : Prog κ α Unit) (history : List (Prog κ α Unit)),
      (run f p Table.empty).charges ≠ (run f p (after f history Table.empty)).charges := by
  refine ⟨.read k (fun _ => .done ()), [.read k (fun _ => .done ())], ?_⟩
  simp [run, after, Table.read, Table.empty, Table.set, hm]

/-- **Partial form used while the finding below stands.**  Cells with a metered fill path may exist
(`bad`); every program that reads only the other cells is history independent. -/
theorem history_independent_partial {κ α ρ : Type} [DecidableEq κ] (f : Fill κ α) (bad : κ → Prop)
    (hu : ∀ k, ¬ bad k → f.fillCharges k = []) (p : Prog κ α ρ) (hp : ReadsOnly (fun k => ¬ bad k) p)
    (h₁ h₂ : List (Prog κ α ρ)) :
    (run f p (after f h₁ Table.empty)).charges = (run f p (after f h₂ Table.empty)).charges :=
  (run_eq_on f (fun k => ¬ bad k) hu p hp _ _ (history_keeps_caches_consistent f h₁)
    (history_keeps_caches_consistent f h₂)).1

/-- **Known finding `vm-shared-string-constant-length-memo`, exhibited by the model.**  In the VM a string
constant of a compiled program is one `*StringValue` shared by every execution that gets the program from
the host's program cache; its grapheme length is a memo cell (`length < 0` = empty) filled by
`StringValue.Length(gauge)`, which charges `GraphemesIteration` once per grapheme to the gauge of the
execution that fills it.  Key = the constant, value = its length `n`: the first execution is charged `n`
times, every later one nothing. -/
theorem shared_string_constant_witness (n : Nat) (hn : 0 < n) :
    let graphemes := Charge.comp 1010 1
    let f : Fill Unit Nat := { init := fun _ => n, fillCharges := fun _ => List.replicate n graphemes }
    let lengthOf : Prog Unit Nat Nat := .read () (fun len => .done len)
    (run f lengthOf Table.empty).charges = List.replicate n graphemes ∧
    (run f lengthOf (after f [lengthOf] Table.empty)).charges = [] ∧
    (run f lengthOf Table.empty).charges ≠ (run f lengthOf (after f [lengthOf] Table.empty)).charges ∧
    (run f lengthOf Table.empty).result = (run f lengthOf (after f [lengthOf] Table.empty)).result := by
  intro graphemes f lengthOf
  have h1 : (run f lengthOf Table.empty).charges = List.replicate n graphemes := by
    simp [run, Table.read, Table.empty, f, lengthOf]
  have h2 : (run f lengthOf (after f [lengthOf] Table.empty)).charges = [] := by
    simp [run, after, Table.read, Table.empty, Table.set, f, lengthOf]
  refine ⟨h1, h2, ?_, ?_⟩
  · rw [h1, h2]
    intro h
    have := congrArg List.length h
    simp at this
    omega
  · simp [run, after, Table.read, Table.empty, Table.set, f, lengthOf]

/-- The repository instance: cache keys are (site number in the extracted inventory, sub-key); a site
charges `cost` on a fill exactly when gen-cachefacts found a metering hit in a `cache`-class fill path. -/
def repoFill (init : Nat × Nat → Nat) (cost : Nat × Nat → List Charge) : Fill (Nat × Nat) Nat :=
  { init := init, fillCharges := fun k => if Verif.Spec.CacheFacts.metered k.1 then cost k else [] }

theorem metered_false_of_ok (h : Verif.Spec.CacheFacts.cachefactsOk = true) (i : Nat) :
    Verif.Spec.CacheFacts.metered i = false := by
  unfold Verif.Spec.CacheFacts.cachefactsOk at h
  simp only [Bool.and_eq_true, List.all_eq_true] at h
  unfold Verif.Spec.CacheFacts.metered
  cases hs : Verif.Gen.CacheFacts.sites[i]? with
  | none => rfl
  | some s =>
    cases hp : Verif.Spec.CacheFacts.pinned[i]? with
    | none => rfl
    | some p =>
      have hmem : (s, p) ∈ List.zip Verif.Gen.CacheFacts.sites Verif.Spec.CacheFacts.pinned := by
        rw [List.mem_iff_getElem?]
        exact ⟨i, by simp [List.getElem?_zip_eq_some, hs, hp]⟩
      have := h.2 (s, p) hmem
      simp only [Bool.or_eq_true, bne_iff_ne, ne_eq] at this
      cases this with
      | inl hne => simp [hne]
      | inr hemp => simp [hemp]

/-- History independence for every program over the cache sites of /repo as extracted on this run. -/
theorem history_independent_repo {ρ : Type} (init : Nat × Nat → Nat) (cost : Nat × Nat → List Charge)
    (p : Prog (Nat × Nat) Nat ρ) (h₁ h₂ : List (Prog (Nat × Nat) Nat ρ)) :
    (run (repoFill init cost) p (after (repoFill init cost) h₁ Table.empty)).charges =
    (run (repoFill init cost) p (after (repoFill init cost) h₂ Table.empty)).charges := by
  refine (history_independent (repoFill init cost) ?_ p h₁ h₂).1
  intro k
  simp [repoFill, metered_false_of_ok cachefacts_ok k.1]

/-- The small-integer cache as found (unmetered): reading any key in any history yields the pure
initialiser's value and charges nothing. -/
theorem smallint_read (t : Table (IntTy × Int) Int) (c : Consistent (smallIntFill false) t) (k : IntTy × Int) :
    (t.read (smallIntFill false) k).1 = smallIntInit k ∧ (t.read (smallIntFill false) k).2.2 = [] :=
  ⟨read_value _ t k c, read_charges _ t k (fun _ => rfl)⟩

/-- … and what the seeded change does: with a metered fill the first reader pays, later readers do not. -/
theorem smallint_metered_witness :
    (run (smallIntFill true) (.read (IntTy.int8, 1) (fun _ => .done ())) Table.empty).charges = [Charge.mem 0 1] ∧
    (run (smallIntFill true) (.read (IntTy.int8, 1) (fun _ => Prog.done ()))
      (after (smallIntFill true) [Prog.read (IntTy.int8, 1) (fun _ => Prog.done ())] Table.empty)).charges = [] := by
  constructor <;> simp [run, after, Table.read, Table.empty, Table.set, smallIntFill]

/-! Non-vacuity: the hypotheses are satisfiable by non-trivial cases. -/

/-- a program that reads two cache keys, charges depending on the values read, after a history that
filled one of them -/
example :
    let f : Fill Nat Nat := { init := fun k => k * 10, fillCharges := fun _ => [] }
    let p : Prog Nat Nat Nat := .read 1 (fun a => .charge (.mem 7 a) (.read 2 (fun b => .charge (.comp 1001 b) (.done (a + b)))))
    (run f p Table.empty).charges = [Charge.mem 7 10, Charge.comp 1001 20] ∧
    (run f p (after f [Prog.read 2 (fun _ => Prog.done 0)] Table.empty)).charges = [Charge.mem 7 10, Charge.comp 1001 20] := by
  decide

example : smallIntInit (IntTy.uint16, -1) = 65535 ∧ smallIntInit (IntTy.word128, -128) = 18446744073709551488 ∧
    smallIntInit (IntTy.int256, -128) = -128 := by decide

example : ∃ k, (smallIntFill true).fillCharges k ≠ [] := ⟨(IntTy.int, 0), by simp [smallIntFill]⟩

end Verif.Properties.C31
