/-
C33 — Execution outcomes are deterministic (partial: pattern + inventory).

Model: Verif.Model.Determinism (collect-then-sort), Verif.Model.Exec.writesCanonical (the commit order
the host sees).  Facts: Verif.Gen.MapRange (regenerated) against Verif.Spec.MapRange (pinned, classified).
Not modelled: the Go scheduler, atree's parallel FastCommit encoders, Go map iteration itself — the
`det` re-execution stream is supporting exploration for those.
-/
import Verif.Proofs.Determinism
import Verif.Spec.MapRange
import Verif.Model.Exec
namespace Verif.Properties.C33
open Verif.Model.Determinism Verif.Proofs.Determinism

/-- Collect-then-sort is independent of the enumeration order: for any two enumerations of the same
    finite map (permutations of each other, keys distinct) the emitted sequence is identical. -/
theorem sort_canonical {β : Type} (l1 l2 : List (Nat × β)) (hp : l1.Perm l2)
    (hk : (l1.map Prod.fst).Nodup) : emitSorted l1 = emitSorted l2 :=
  sort_canonical_aux l1 l2 hp hk

/-- The emitted sequence is sorted by key and contains exactly the map's entries. -/
theorem sort_sorted_perm {β : Type} (l : List (Nat × β)) :
    (emitSorted l).Pairwise (fun a b => a.1 ≤ b.1) ∧ (emitSorted l).Perm l := by
  refine ⟨?_, sortByKey_perm l⟩
  have := sortByKey_sorted l
  simpa [leKey, emitSorted] using this

/-- Without the sort the emitted sequence depends on the enumeration (the shape of the mutation
    "drop the sort in AccountStorage.commit"). -/
theorem unsorted_depends_on_enumeration :
    ∃ l1 l2 : List (Nat × Nat), l1.Perm l2 ∧ (l1.map Prod.fst).Nodup ∧ emitUnsorted l1 ≠ emitUnsorted l2 :=
  ⟨[(1, 10), (2, 20)], [(2, 20), (1, 10)], List.Perm.swap _ _ _, by decide, by decide⟩

/-- FX: the extracted inventory of map ranges equals the pinned, classified one; every site carries the
    `nolint:maprange` annotation (i.e. was reviewed under the repository's own linter policy). -/
theorem maprange_inventory_ok :
    Verif.Gen.MapRange.sites = Verif.Spec.MapRange.pinned.map (·.1) ∧
    Verif.Gen.MapRange.sites.all (·.nolint) = true := by decide

/-- The model executor's host-visible trace is a function of the program behaviour (trivially: it is a
    Lean function) and its commit block is in canonical order when the deltas are sorted. -/
theorem model_commit_canonical :
    Verif.Model.Exec.writesCanonical (Verif.Model.Exec.exec ⟨false, false⟩ .tx
      ⟨2, true, [.step, .read, .alloc], true, [.read], [1, 2], [(1, 1), (1, 4), (2, 1)]⟩) = true := by decide

/-! Non-vacuity -/
example : emitSorted [(2, "b"), (1, "a")] = emitSorted [(1, "a"), (2, "b")] :=
  sort_canonical _ _ (List.Perm.swap _ _ _) (by decide)

end Verif.Properties.C33
