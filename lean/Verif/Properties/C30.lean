import Verif.Model.Metered
import Verif.Spec.MeterFacts
import Verif.Proofs.Metered
/-!
# C30 — Every execution is bounded by the metering and depth limits

The part that is independent of the μCadence fragment: an abstract metered machine
(`Verif.Model.Metered`).  A step is *charged* (statement, loop back-edge, invocation, metered built-in;
cost ≥ 1) or *uncharged*, with at most `c` consecutive uncharged steps (`Disciplined`: a ranking bounded
by `c` that decreases on uncharged steps — straight-line code between charges).  That the two engines of
/repo follow this discipline on their loop / statement / invocation paths is the fact obligation
`meterfacts_ok`; the theorem then gives termination for *every* machine, program state and finite
limit, with an explicit bound.

Outside any theorem here: exhaustion of the Go stack by deeply recursive *Go* code (value
conversion, printing, equality over deep values) and built-ins that loop internally without metering;
these are reached by the `bounded` stream only (supporting exploration).
-/
namespace Verif.Properties.C30
open Verif.Model.Metered Verif.Proofs.Metered

/-- FX obligation: the metering calls on the loop back-edges, statements and invocation paths of the
interpreter, the compiler and the VM are the pinned ones, and every cycle is charged. -/
theorem meterfacts_ok : Verif.Spec.MeterFacts.meterfactsOk = true := by decide

/-- **Termination with a derived bound.**  For every disciplined machine (at most `c` consecutive
uncharged steps, charges ≥ 1), every start state and every finite limit `L`, the metered run stops
within `(c + 1) · (L + 1)` machine steps — normally, with a user error, or with the limit error. -/
theorem terminates {σ : Type} (step : σ → Step σ) (c : Nat) (μ : σ → Nat) (hd : Disciplined step c μ)
    (L : Nat) (s : σ) :
    ∃ o n, exec step ((c + 1) * (L + 1)) s L = some (o, n) ∧ n ≤ (c + 1) * (L + 1) := by
  have hb := hd.bounded s
  have hfuel : (c + 1) * L + μ s + 1 ≤ (c + 1) * (L + 1) := by rw [Nat.mul_succ]; omega
  obtain ⟨o, n, he, hn⟩ := exec_terminates step c μ hd ((c + 1) * (L + 1)) s L hfuel
  exact ⟨o, n, he, by omega⟩

/-- More fuel never changes the answer: the run's outcome is a function of machine, state and limit. -/
theorem outcome_is_one_of {σ : Type} (step : σ → Step σ) (c : Nat) (μ : σ → Nat) (hd : Disciplined step c μ)
    (L : Nat) (s : σ) :
    ∃ n, exec step ((c + 1) * (L + 1)) s L = some (.ok, n) ∨
         exec step ((c + 1) * (L + 1)) s L = some (.userError, n) ∨
         exec step ((c + 1) * (L + 1)) s L = some (.limitError, n) := by
  obtain ⟨o, n, he, _⟩ := terminates step c μ hd L s
  refine ⟨n, ?_⟩
  cases o <;> simp [he]

/-- The discipline is necessary: a machine with an *uncharged* cycle (the seeded change "drop the loop
charge": `while true {}` whose back-edge costs nothing) never stops, whatever the limit. -/
theorem uncharged_loop_never_stops (fuel L : Nat) :
    exec (fun (_ : Unit) => Step.uncharged ()) fuel () L = none := by
  induction fuel with
  | zero => rfl
  | succ n ih => simp [exec, ih]

/-- … while the same loop with the charge is stopped by the limit error after `L + 1` iterations. -/
theorem charged_loop_hits_limit (L : Nat) :
    ∃ n, exec (fun (_ : Unit) => Step.charged 1 ()) (L + 1) () L = some (.limitError, n) := by
  induction L with
  | zero => exact ⟨1, by simp [exec]⟩
  | succ L ih =>
    obtain ⟨n, hn⟩ := ih
    refine ⟨n + 1, ?_⟩
    have h1 : exec (fun (_ : Unit) => Step.charged 1 ()) (L + 1 + 1) () (L + 1) =
        (exec (fun (_ : Unit) => Step.charged 1 ()) (L + 1) () L).map (fun r => (r.1, r.2 + 1)) := by
      rw [exec]
      have : ¬ (1 > L + 1) := by omega
      simp only [this, if_false, Nat.add_sub_cancel]
    rw [h1, hn]; rfl

/-- **Call depth.**  The depth counter never exceeds the configured limit on any trace of calls and
returns that does not end in the call-depth error (so the host stack holds at most `limit` frames of
the evaluator's recursion per Cadence call). -/
theorem depth_never_exceeds_limit (limit : Nat) (es : List Ev) (d' : Nat)
    (h : depthRun (interpCall limit) es 0 = some d') : d' ≤ limit :=
  depthRun_le limit es 0 (Nat.zero_le _) d' h

/-- Recursion `n` deep succeeds iff `n ≤ limit`; deeper recursion yields the call-depth error. -/
theorem depth (limit n : Nat) :
    depthRun (interpCall limit) (List.replicate n Ev.call) 0 = if n ≤ limit then some n else none := by
  have := depthRun_calls limit n 0 (Nat.zero_le _)
  simpa using this

/-- Both engines' checks accept and reject the same calls (interpreter: `depth++; depth > limit`;
VM: `len(callstack) == limit` before the push), at every reachable depth. -/
theorem depth_checks_agree (limit d : Nat) (h : d ≤ limit) : interpCall limit d = vmCall limit d := by
  unfold interpCall vmCall
  by_cases hd : d = limit
  · subst hd; simp
  · have : ¬ (d + 1 > limit) := by omega
    simp [this, hd]

/-- **The engines agree on call depth** (after /repo 4e6bf8c + bc0b586): for every configured
`runtime.Config.StackDepthLimit` (0 = unset) and every `n`, recursion `n` deep below the entry point
succeeds in the interpreter (limiter from 0, limit `interpEffectiveLimit`) iff it succeeds in the VM (call
stack holding the entry frame, limit `vmEffectiveLimit` = the same + 1), namely iff `n` ≤ the effective
limit; otherwise both raise the call-depth error. -/
theorem depth_engines_agree (configured n : Nat) :
    (interpNested configured n).isSome = (vmNested configured n).isSome ∧
    ((interpNested configured n).isSome = true ↔ n ≤ interpEffectiveLimit configured) := by
  unfold interpNested vmNested vmEffectiveLimit
  have hi := depthRun_calls (interpEffectiveLimit configured) n 0 (Nat.zero_le _)
  have hv := depthRun_calls_vm (interpEffectiveLimit configured + 1) n 1 (by omega)
  rw [hi, hv]
  by_cases h : n ≤ interpEffectiveLimit configured
  · have h2 : 1 + n ≤ interpEffectiveLimit configured + 1 := by omega
    simp [h2, h]
  · have h2 : ¬ (1 + n ≤ interpEffectiveLimit configured + 1) := by omega
    simp [h2, h]

/-- **Sequential invocations do not accumulate depth.**  A loop of `k ≥ 1` invocations made one after the
other, `base` Cadence invocations below the entry point, behaves alike in both engines for every configured
limit and every `k`: it succeeds iff one more level fits (`base + 1 ≤` the effective limit) and then leaves
the depth where the loop started — however large `k` is (in particular `k` ≥ the limit). -/
theorem sequential_calls_do_not_accumulate (configured base k : Nat) (hk : 1 ≤ k) :
    (interpSeq configured base k seqCounted).isSome = (vmSeq configured base k seqCounted).isSome ∧
    ((interpSeq configured base k seqCounted).isSome = true ↔ base + 1 ≤ interpEffectiveLimit configured) ∧
    (base + 1 ≤ interpEffectiveLimit configured →
      interpSeq configured base k seqCounted = some base ∧ vmSeq configured base k seqCounted = some (base + 1)) := by
  unfold interpSeq vmSeq seqTrace vmEffectiveLimit
  rw [depthRun_append, depthRun_append,
    depthRun_calls (interpEffectiveLimit configured) base 0 (Nat.zero_le _),
    depthRun_calls_vm (interpEffectiveLimit configured + 1) base 1 (by omega)]
  have hk0 : ¬ (k = 0) := by omega
  by_cases h : base + 1 ≤ interpEffectiveLimit configured
  · have h1 : 0 + base ≤ interpEffectiveLimit configured := by omega
    have h2 : 1 + base ≤ interpEffectiveLimit configured + 1 := by omega
    have h3 : 0 + base + 1 ≤ interpEffectiveLimit configured := by omega
    have h4 : 1 + base + 1 ≤ interpEffectiveLimit configured + 1 := by omega
    simp only [h1, h2, if_true, Option.bind_some]
    rw [depthRun_seq_interp, depthRun_seq_vm _ _ h2]
    simp [h4, h]; omega
  · by_cases h1 : 0 + base ≤ interpEffectiveLimit configured
    · have h2 : 1 + base ≤ interpEffectiveLimit configured + 1 := by omega
      have h3 : ¬ (0 + base + 1 ≤ interpEffectiveLimit configured) := by omega
      have h4 : ¬ (1 + base + 1 ≤ interpEffectiveLimit configured + 1) := by omega
      simp only [h1, h2, if_true, Option.bind_some]
      rw [depthRun_seq_interp, depthRun_seq_vm _ _ h2]
      simp [h4, h, hk0]
    · have h2 : ¬ (1 + base ≤ interpEffectiveLimit configured + 1) := by omega
      have h1' : ¬ (base ≤ interpEffectiveLimit configured) := by omega
      simp [h1', h2, h]

/-- What an unbalanced limiter does (the shape of a lost `OnInvokedFunctionReturn`: each iteration counts
a call and no return): under limit 3 four *sequential* calls fail although the nesting never exceeds 1,
while the balanced trace succeeds for any number of calls. -/
theorem unbalanced_return_accumulates_witness :
    depthRun (interpCall 3) (List.replicate 4 [Ev.call, Ev.other]).flatten 0 = none ∧
    depthRun (interpCall 3) (List.replicate 4 seqCounted).flatten 0 = some 0 := by decide

/-- **Finding `vm-destroy-event-counts-call-frames`** (shape shown at limit 3): destroying a resource with a
`ResourceDestroyed` event `base` = limit − 1 invocations below the entry point succeeds in the interpreter
(nothing is invoked) and raises the call-depth error in the VM (two nested frames: `$ResourceDestroyed` and
the event constructor); one level higher both succeed. -/
theorem vm_destroy_event_frames_witness :
    interpSeq 3 2 1 destroyEvInterp = some 2 ∧ vmSeq 3 2 1 destroyEvVM = none ∧
    interpSeq 3 1 1 destroyEvInterp = some 1 ∧ vmSeq 3 1 1 destroyEvVM = some 2 := by decide

/-- … and outside that region (two more levels fit below the limit) the engines agree on destroy events:
both succeed, for every configured limit and any number of destroys. -/
theorem destroy_event_engines_agree_partial (configured base k : Nat)
    (h : base + 2 ≤ interpEffectiveLimit configured) :
    interpSeq configured base k destroyEvInterp = some base ∧
    vmSeq configured base k destroyEvVM = some (base + 1) := by
  unfold interpSeq vmSeq seqTrace vmEffectiveLimit
  rw [depthRun_append, depthRun_append,
    depthRun_calls (interpEffectiveLimit configured) base 0 (Nat.zero_le _),
    depthRun_calls_vm (interpEffectiveLimit configured + 1) base 1 (by omega)]
  have h1 : 0 + base ≤ interpEffectiveLimit configured := by omega
  have h2 : 1 + base ≤ interpEffectiveLimit configured + 1 := by omega
  simp only [h1, h2, if_true, Option.bind_some]
  constructor
  · have := depthRun_uncounted (interpCall (interpEffectiveLimit configured)) (0 + base) k
    simp only [seqUncounted] at this
    simp only [destroyEvInterp, this]; simp
  · rw [depthRun_destroyEv_vm _ _ (by omega)]; congr 1; omega

/-- **Why /repo bc0b586 is needed** (the former finding `vm-depth-limit-off-by-one`, shape shown at limit 3;
the Go constant is 2000): with the *same* limit in both engines, the VM's call stack already holds the
entry point's frame, so recursion exactly `limit` deep succeeds in the interpreter and fails in the VM. -/
theorem vm_same_limit_off_by_one_witness :
    depthRun (interpCall 3) (List.replicate 3 Ev.call) 0 = some 3 ∧
    depthRun (vmCall 3) (List.replicate 3 Ev.call) 1 = none ∧
    depthRun (vmCall (3 + 1)) (List.replicate 3 Ev.call) 1 = some 4 := by decide

/-- **Why /repo 4e6bf8c is needed** (the former finding `vm-ignores-configured-stack-depth-limit`): a VM
environment that applies the default whatever is configured lets recursion 60 deep succeed under
`runtime.Config.StackDepthLimit = 50`, where the interpreter (and the fixed VM) fail. -/
theorem vm_default_limit_ignores_configuration_witness :
    interpNested 50 60 = none ∧ (vmNestedOld 50 60).isSome = true ∧ vmNested 50 60 = none := by decide

/-! Non-vacuity: a concrete disciplined machine — `while true { }` as the VM runs it: the loop charge
(`true`: at `InstructionLoop`) alternates with an uncharged jump back (`false`). -/

def demoStep : Bool → Step Bool
  | true => .charged 1 false
  | false => .uncharged true

example : Disciplined demoStep 1 (fun s => if s then 0 else 1) where
  bounded := by intro s; cases s <;> simp
  uncharged_decreases := by intro s s' h; cases s <;> simp [demoStep] at h; subst h; simp
  charged_positive := by intro s cost s' h; cases s <;> simp [demoStep] at h; omega

/-- the endless loop under limit 5 stops with the limit error, within the derived bound `(1+1)·(5+1)` -/
example : exec demoStep ((1 + 1) * (5 + 1)) true 5 = some (.limitError, 11) := by decide

/-- 9 sequential calls two levels deep under limit 3 (three times the limit): fine in both engines -/
example : interpSeq 3 2 9 seqCounted = some 2 ∧ vmSeq 3 2 9 seqCounted = some 3 ∧
    interpSeq 3 3 9 seqCounted = none ∧ vmSeq 3 3 9 seqCounted = none := by decide

/-- the shape of "constructor calls are not counted": 50 nested initializers under limit 10 go through -/
example : depthRun (interpCall 10) (List.replicate 50 Ev.other) 0 = some 0 ∧ interpNested 10 50 = none := by decide

example : depthRun (interpCall 3) [.call, .call, .ret, .call, .call, .call] 0 = none ∧
    depthRun (interpCall 3) [.call, .call, .ret, .call, .call] 0 = some 3 := by decide

end Verif.Properties.C30
