import Verif.Proofs.Lang3.Conformance
import Verif.Proofs.Lang3.Conditions
import Verif.Proofs.Lang3.Desugar
/-!
# C10 — Function pre- and post-conditions are always enforced

Model: `Verif.Model.Lang3.Conformance` (port of `distinctConformances`), `Verif.Model.Lang3.Conditions`
(core calculus: functions `(Int, Int) → Int` of one composite with two `Int` fields, implementing a DAG
of interfaces with `pre`/`post` blocks (`emit` and test conditions, `before`, `result`), default
functions, overriding; the interpreter's wrapper composition and the VM's desugared form).
-/
namespace Verif.Properties.C10
open Verif.Model.Lang3 Verif.Model.Lang3.Cond Verif.Proofs.Lang3

/-- `distinctConformances` returns exactly the interfaces reachable through explicit conformances
(the reflexive-free transitive closure, started at the declaring type), each once, for every acyclic
interface graph (acyclic = some rank strictly decreases along every edge; `fuel` bounds the recursion
depth and must exceed the rank of the explicit conformances). -/
theorem conformance_closure (g : Nat → List Nat) (rank : Nat → Nat)
    (hacyc : ∀ i j, j ∈ g i → rank j < rank i) (cs : List Nat) (fuel : Nat)
    (hfuel : ∀ c ∈ cs, rank c < fuel) :
    (effectiveConformances g fuel cs).Nodup ∧
      ∀ x, x ∈ effectiveConformances g fuel cs ↔ Reach g cs x := by
  have h := dcWalk_good g rank hacyc fuel none cs ⟨[], []⟩ hfuel
  obtain ⟨new, h1, _, h3, h4, h5⟩ := h.ext
  have hsync := h.sync rfl
  have hseen : (dcWalk g fuel none cs ⟨[], []⟩).seen = new := by simpa using h1
  have heff : effectiveConformances g fuel cs = new := by
    unfold effectiveConformances distinctConformances
    rw [hsync, hseen]
  rw [heff]
  refine ⟨h3, fun x => ⟨h4 x, ?_⟩⟩
  intro hr
  induction hr with
  | base hc => rw [← hseen]; exact h.cover _ hc
  | step _ hy ih => rw [← hseen]; exact h5 _ ih _ hy

example : effectiveConformances (fun i => [[], [0], [0], [1, 2]].getD i []) 5 [3, 1] = [3, 1, 0, 2] := by decide

/-- The chain root recorded for an interface is the top-level explicit conformance through which the
walk first reached it (diamond `3: 1, 2`, `1: 0`, `2: 0`, composite `: 3, 1`). -/
example : distinctConformances (fun i => [[], [0], [0], [1, 2]].getD i []) 5 [3, 1]
    = [⟨3, 3⟩, ⟨1, 3⟩, ⟨0, 3⟩, ⟨2, 3⟩] := by decide

/-- **Enforced** (interpreter form).  A call of `name` on the composite returns normally only if, for
the composite's own condition layer and for every inherited one (`layersInScope`), every pre-condition
test evaluated to `true` in the entry state and every post-condition test evaluated to `true` in the
exit state, with the `before` variables bound to the values of their expressions in the entry state and
`result` bound to the returned value.  (`call` semantics of nested calls: the same `invoke`.) -/
theorem enforced (p : Program) (fuel : Nat) (name : String) (x y : Int) (s s' : St) (r : Int)
    (h : invoke p.interpFn fuel name x y s = (.ok r, s')) :
    ∀ L ∈ layersInScope p name, PreHeld L x y s ∧ PostHeld L x y s s' r := by
  cases fuel with
  | zero => simp [invoke, M.fail] at h
  | succ fuel =>
    unfold invoke at h
    cases hfv : p.interpFn name with
    | none => simp [hfv, M.fail] at h
    | some fv =>
      simp only [hfv] at h
      rw [← interpFn_layers p name fv hfv]
      exact fn_enforced _ x y fv s s' r h

/-- The inherited layers are those of *every* interface the composite implements: an interface
reachable from the composite's explicit conformances that declares conditions for `name` contributes
its (rewritten) conditions to `layersInScope`. -/
theorem inherited_complete (p : Program) (rank : Nat → Nat)
    (hacyc : ∀ i j, j ∈ p.graph i → rank j < rank i)
    (hfuel : ∀ c ∈ p.conforms, rank c < p.ifaces.length + 1)
    (name : String) (i : Nat) (hr : Reach p.graph p.conforms i) (f : IFun)
    (hf : p.ifun i name = some f) (hne : f.conds.isEmpty = false) :
    rewrite f.conds ∈ layersInScope p name := by
  have hc := (conformance_closure p.graph rank hacyc p.conforms _ hfuel).2 i |>.mpr hr
  unfold layersInScope Program.inherited
  apply List.mem_append_left
  rw [List.mem_filterMap]
  exact ⟨i, hc, by simp [hf, hne]⟩

/-- non-vacuity: a diamond (`I2: I0, I1`; `I1: I0`), the composite conforms to `I2` and overrides `f`;
the call `f(5, 1)` returns normally, and a run with a false inherited pre-condition fails. -/
def exProg (x0 : Int) : Program :=
  { ifaces := [
      ⟨[], [⟨"f", ⟨[.test (.lt (.lit 0) .x)], [.test (.eq .result (.add (.before .a) .x))]⟩, none⟩]⟩,
      ⟨[0], [⟨"f", ⟨[.emit (.lit 1)], []⟩, none⟩]⟩,
      ⟨[0, 1], []⟩],
    conforms := [2], a0 := 3, b0 := 0,
    funs := [⟨"f", ⟨[], [.emit .result]⟩, .seq (.setA (.add .a .x)) (.ret .a)⟩],
    main := [⟨"f", x0, 1⟩] }

example : (exProg 5).runInterp 8 = (.ok (), ⟨8, 0, [.emit 1, .emit 8, .log 8]⟩) := by rfl
example : ((exProg 0).runInterp 8).1 = .error (.condFailed false) := by rfl

/-- **Desugaring is equivalent to wrapping** (partial).  If in every condition layer the post-conditions
only use the before-variables declared by that layer (`LayerWf`, what `before` extraction produces) and
the before statements never fault (`LayerTotal`), and the two engines pick the same default implementation
(`DefaultsAgree`: the checker admits at most one), then the VM's desugared program — every inherited
condition inlined into one function: own before statements, inherited before statements (reverse
conformance order), inherited pre-conditions, own pre-conditions, body, own post-conditions, inherited
post-conditions (reverse) — has the same outcome, the same final state and the same ordered log / event
trace as the interpreter's wrapped functions, for every program of the calculus and every call depth.
Without `LayerTotal` the statement is false: `desugar_differs_witness`. -/
theorem desugar_equiv_partial (p : Program) (hl : LayersOk p) (hd : DefaultsAgree p) (fuel : Nat) :
    p.runVM fuel = p.runInterp fuel := by
  unfold Program.runVM Program.runInterp
  have h := invoke_equiv p hl hd fuel
  have : ∀ calls, runMain p.desugarFn fuel calls = runMain p.interpFn fuel calls := by
    intro calls
    induction calls with
    | nil => rfl
    | cons c cs ih => simp only [runMain, h, ih]
  rw [this]

/-- **`before` extraction** (port of `sema/before_extractor.go`): from source-level post-conditions (no
synthetic variables) it produces post-conditions that refer only to the before-variables it declares, so
the `LayerWf` half of `LayersOk` always holds for checked programs; the remaining hypothesis of
`desugar_equiv_partial` is that before statements cannot fault. -/
theorem before_extraction_wf (c : Conds) (h : ∀ d ∈ c.post, srcC d = true) : LayerWf (rewrite c) :=
  rewrite_wf c h

example : (rewrite ⟨[], [.test (.eq (.before (.add (.before .a) .x)) (.before .y))]⟩) =
    ⟨[.a, .add (.bvar 0) .x, .y], [], [.test (.eq (.bvar 1) (.bvar 2))]⟩ := by decide

/-- non-vacuity of `desugar_equiv_partial`: the diamond program `exProg` (its inherited post-condition uses
`before(self.a)`) satisfies the hypotheses — `programSafe` is a decidable sufficient condition for
`LayersOk` — and no interface of it declares a default implementation. -/
example : LayersOk (exProg 5) := programSafe_ok _ (by decide)
example : (exProg 5).runVM 8 = (exProg 5).runInterp 8 := by rfl
example : DefaultsAgree (exProg 5) := by
  apply defaultsAgree_of_le_one
  intro name
  have hc : (exProg 5).confs = [2, 0, 1] := by decide
  have : (exProg 5).defaults name = [] := by
    unfold Program.defaults
    rw [hc, List.filterMap_eq_nil_iff]
    intro i hi
    simp at hi
    rcases hi with rfl | rfl | rfl <;> simp [Program.ifun, exProg] <;> split <;> (try simp_all) <;> (rename_i h; rw [← h.2])
  simp [this]


/-- the VM form therefore enforces the same conditions (corollary of `enforced` and `desugar_equiv_partial`) -/
theorem enforced_vm_partial (p : Program) (hl : LayersOk p) (hd : DefaultsAgree p)
    (fuel : Nat) (name : String) (x y : Int) (s s' : St) (r : Int)
    (h : invoke p.desugarFn fuel name x y s = (.ok r, s')) :
    ∀ L ∈ layersInScope p name, PreHeld L x y s ∧ PostHeld L x y s s' r := by
  rw [invoke_equiv p hl hd fuel] at h
  exact enforced p fuel name x y s s' r h

/-- **Known finding** `vm-before-hoisted-over-pre`.  The VM's desugared function evaluates the `before`
statements of *all* inherited post-conditions ahead of the first pre-condition, the interpreter
evaluates each wrapper's `before` statements right ahead of that wrapper's pre-conditions.  When a
`before` expression faults and an earlier pre-condition is false the engines fail differently
(interpreter: pre-condition failed; VM: the fault), and `emit` conditions run before the failure differ.
Witness: `struct interface I0 { fun f(_ x: Int, _ y: Int): Int { pre { x > 0 } } }`,
`struct S: I0 { fun f(_ x: Int, _ y: Int): Int { post { before(10 / y) > 0 }; return x } }`, call `f(0, 0)`. -/
def hoistWitness : Program :=
  { ifaces := [⟨[], [⟨"f", ⟨[.test (.lt (.lit 0) .x)], []⟩, none⟩]⟩],
    conforms := [0], a0 := 0, b0 := 0,
    funs := [⟨"f", ⟨[], [.test (.lt (.lit 0) (.before (.div (.lit 10) .y)))]⟩, .ret .x⟩],
    main := [⟨"f", 0, 0⟩] }

theorem desugar_differs_witness :
    (hoistWitness.runInterp 8).1 = .error (.condFailed false) ∧
    (hoistWitness.runVM 8).1 = .error .divZero := by
  constructor <;> rfl

end Verif.Properties.C10
