import Verif.Model.Front.Lexer
import Verif.Model.Front.DepthGuard
import Verif.Spec.LineCol
import Verif.Gen.LexerFacts
import Verif.Spec.Tokens
import Verif.Proofs.Lexer
import Verif.Proofs.LexerTotal
import Verif.Proofs.LexerCover
import Verif.Proofs.LexerPos
/-!
# C37 — Lexing, parsing and checking are total and report in-range positions

Theorems about `Verif.Model.Front.Lexer` (line-by-line port of `parser/lexer/lexer.go` + `state.go`, tied to
`/repo` by the `lex` stream), the fact obligations over `Verif.Gen.LexerFacts` (regenerated from `/repo` on
every run), and the recursion guards of the parser as counters.  Parsing and checking themselves are not
modelled: for "all byte strings" they are covered by the direct-oracle stream `parsecheck` only (partial).
-/
namespace Verif.Properties.C37
open Verif.Model.Front Verif.Model.Front.Lexer Verif.Spec.LineCol
open Verif.Gen Verif.Spec.Tokens

/-! ## The lexer port: contiguity -/

/-- For every byte string (and every token limit): in emission order, every consuming token starts right
    after the previous consuming token's end (`next.start.offset = prev.end.offset + 1`), the first at offset
    0.  Error tokens (`TokenError`) mark a position and consume nothing.  This holds for whatever was
    emitted, also when the token limit stopped the lexer. -/
theorem tokens_contiguous (limit : Nat) (inp : Bytes) : Contiguous (lexWith limit inp).tokens :=
  Verif.Proofs.Lexer.lex_contiguous limit inp

/-- non-vacuity: a 6-token input with an error token in the middle (`1.` reports missing fractional digits) -/
example : ((lex #[120, 32, 49, 46, 32, 121]).tokens.map (fun t => (t.ty, t.startOff, t.endOff))) =
    [(9, 0, 0), (2, 1, 1), (0, 3, 3), (8, 2, 3), (2, 4, 4), (9, 5, 5)] := by decide

/-! ## The lexer port: positions -/

/-- `"日本\(x)"`: the `\(` token starts at byte offset 7, which is line 1 column 3; it is reported at column 4
    (and the string token before it, ending in the 3-byte rune `本` at column 2, gets end column 3). -/
theorem linecol_witness_multibyte :
    let inp : Bytes := #[34, 0xE6, 0x97, 0xA5, 0xE6, 0x9C, 0xAC, 92, 40, 120, 41, 34]
    (∃ t ∈ (lex inp).tokens, t.ty = T.stringTemplate ∧ t.startOff = 7 ∧ t.startPos = ⟨1, 4⟩) ∧ lineCol inp 7 = (1, 3) ∧
    (∃ t ∈ (lex inp).tokens, t.ty = T.string ∧ t.endOff = 6 ∧ t.endPos = ⟨1, 3⟩) ∧ lineCol inp 6 = (1, 2) := by
  decide

/-- `"\(x)\(y)"` (ASCII only): the empty string token between the two templates shifts the second `\(`
    (byte offset 5 = column 5) to column 6. -/
theorem linecol_witness_empty_token :
    let inp : Bytes := #[34, 92, 40, 120, 41, 92, 40, 121, 41, 34]
    (∃ t ∈ (lex inp).tokens, t.ty = T.string ∧ t.startOff = 5 ∧ t.endOff = 4) ∧
    (∃ t ∈ (lex inp).tokens, t.ty = T.stringTemplate ∧ t.startOff = 5 ∧ t.startPos = ⟨1, 6⟩) ∧ lineCol inp 5 = (1, 5) := by
  decide

/-- `linecol_exact_partial`: for every byte string, in emission order: every consuming token that is **good**
    (not empty, last byte ASCII — i.e. its last rune is one byte wide) and all of whose predecessors are good
    reports exact positions: `startPos = lineCol input startOffset` and `endPos = lineCol input endOffset`
    (`Spec.LineCol`: computed from scratch by decoding the input from offset 0), hence independent of anything
    lexed before.  Stated on the newest-first token list (`ExactRev`); the corollary below is the "all tokens
    good" form.
    Proof (`Verif.Proofs.LexerWalk`, `Lexer.emit_tok_exact`): the rune-boundary invariant — `startOffset`,
    `endOffset`, `prevEndOffset` always lie on the chain of rune boundaries of `utf8.DecodeRune` (`Walk`),
    through `next` / `backupOne` / the string-template rewind / the block-comment content split — so the loop of
    `endPos()` follows that chain; an ASCII last byte is a rune of its own, so the loop stops exactly at it.
    `_partial`: what the two recorded findings break is excluded by `good` (a token ending in a multi-byte
    rune, `linecol_witness_multibyte`; an empty string token, `linecol_witness_empty_token`), and the
    hypothesis covers *all* predecessors, not only those on the same line (the column error introduced by a
    bad token ends at the next newline; that reset is not proved).  Error tokens are not claimed. -/
theorem linecol_exact_partial (limit : Nat) (inp : Bytes) : ExactRev inp (lexWith limit inp).final.toks :=
  Verif.Proofs.LexerPos.lexWith_exact limit inp

/-- all tokens good ⟹ all consuming tokens exact -/
theorem linecol_exact_all_good_partial (limit : Nat) (inp : Bytes) (h : AllGood inp (lexWith limit inp).final.toks) :
    ∀ t ∈ (lexWith limit inp).tokens, isError t = false → Exact inp t := by
  intro t ht
  exact Verif.Proofs.LexerPos.exactRev_all inp _ (linecol_exact_partial limit inp) h t
    (by simpa [Result.tokens] using ht)

/-- non-vacuity: `x =⏎/*é */ y` — two lines, a 2-byte rune inside a token that ends in ASCII: all tokens are
    good, and (by the theorem) exact; the columns after `é` count runes, not bytes -/
example : AllGood #[120, 32, 61, 10, 47, 42, 0xC3, 0xA9, 32, 42, 47, 32, 121]
    (lex #[120, 32, 61, 10, 47, 42, 0xC3, 0xA9, 32, 42, 47, 32, 121]).final.toks := by decide
example : ((lex #[120, 32, 61, 10, 47, 42, 0xC3, 0xA9, 32, 42, 47, 32, 121]).tokens.map
    (fun t => (t.ty, t.startOff, t.startPos.line, t.startPos.column))) =
    [(9, 0, 1, 0), (2, 1, 1, 1), (38, 2, 1, 2), (2, 3, 1, 3), (42, 4, 2, 0), (44, 6, 2, 2), (43, 9, 2, 4), (2, 11, 2, 6),
     (9, 12, 2, 7)] := by decide
/-- the hypothesis fails exactly at the recorded finding: the string token ending in `本` is not good -/
example : ¬ AllGood #[34, 0xE6, 0x97, 0xA5, 0xE6, 0x9C, 0xAC, 92, 40, 120, 41, 34]
    (lex #[34, 0xE6, 0x97, 0xA5, 0xE6, 0x9C, 0xAC, 92, 40, 120, 41, 34]).final.toks := by decide

/-- an unterminated block comment ends the token stream without a token for its content: the tokens do not
    reach the end of the input although no error token was emitted -/
theorem coverage_witness_unterminated_comment :
    let r := lex #[47, 42, 32, 97]
    r.stop = .done (.blockComment 0) ∧ r.tokens.map (fun t => (t.ty, t.startOff, t.endOff)) = [(T.blockCommentStart, 0, 1)] := by
  decide

/-! ## The lexer port: totality (partial) -/

/-- Every predicate the source passes to `acceptWhile` is false on `EOF` (so `acceptWhile` stops at the end
    of the input; the port's `acceptWhileN` relies on it for its fuel bound). -/
theorem preds_false_on_EOF :
    isSpaceRune EOF = false ∧ isIdentifierRune EOF = false ∧ notLineEnd EOF = false ∧ isBinary EOF = false ∧
    isOctal EOF = false ∧ isHex EOF = false ∧ isDecimalDigitOrUnderscore EOF = false := by decide

/-- `lex_total`: for every byte string and every token limit, the loop of `run` — started with the fuel
    `2·len + 4` of `fuelFor` — never runs out of fuel, and the only panic that can unwind to `run`'s recover is
    the token limit: no "second backup", no slice expression out of range, no exhausted loop fuel of the port's
    inner loops (`acceptWhile`, `scanString`, `endPos`).
    Proof (`Verif.Proofs.LexerTotal`): the invariant "inside the input, nothing read ahead, every state function
    other than `rootState` entered after at least one rune" is preserved by each of the seven state functions
    (composition of the per-primitive `A` / `B` lemmas through every branch of `state.go`), and the measure
    `2·(len − endOffset) + (1 for rootState, 2 otherwise)` strictly decreases with every call: `rootState` and
    `blockCommentState` consume at least one rune or stop, the other state functions return to `rootState`
    without moving backwards. -/
theorem lex_total (limit : Nat) (inp : Bytes) :
    (lexWith limit inp).stop ≠ .outOfFuel ∧
    ((lexWith limit inp).final.err = none ∨ (lexWith limit inp).final.err = some .tokenLimit) :=
  Verif.Proofs.LexerTotal.lexWith_total limit inp

/-- non-vacuity: both outcomes occur — a normal stop in `rootState`, and the token limit -/
example : (lex #[120, 32, 49]).stop = .done .root ∧ (lex #[120, 32, 49]).final.err = none := by decide
example : (lexWith 2 #[120, 32, 49]).stop = .panicked ∧ (lexWith 2 #[120, 32, 49]).final.err = some .tokenLimit := by decide

/-- `tokens_cover_input_partial`: when the lexer stops in `rootState` (not inside a block comment) without a
    panic and no error token was emitted, the consuming tokens reach the last byte: the last one ends at
    `len − 1` (with `tokens_contiguous`: the consuming tokens tile `[0, len)`).
    `_partial`: the three hypotheses are needed — after an error token the lexer stops where it is, an
    unterminated block comment ends the stream without a token for its content
    (`coverage_witness_unterminated_comment`), and the token limit cuts the stream. -/
theorem tokens_cover_input_partial (limit : Nat) (inp : Bytes)
    (hstop : (lexWith limit inp).stop = .done .root) (herr : (lexWith limit inp).final.err = none)
    (hno : ∀ t ∈ (lexWith limit inp).tokens, isError t = false) :
    lastEnd (lexWith limit inp).final.toks = (inp.size : Int) - 1 :=
  Verif.Proofs.LexerCover.lexWith_cover limit inp hstop herr hno

/-- non-vacuity: `x + 1` -/
example : (lex #[120, 32, 43, 32, 49]).stop = .done .root ∧ (lex #[120, 32, 43, 32, 49]).final.err = none ∧
    (∀ t ∈ (lex #[120, 32, 43, 32, 49]).tokens, isError t = false) ∧
    lastEnd (lex #[120, 32, 43, 32, 49]).final.toks = 4 := by decide

/-- the building blocks of `lex_total`, per primitive: from any state that is inside the input
    (`startOffset ≤ endOffset ≤ len`, no error other than the token limit) the loops `acceptWhile f` (for every
    predicate of the source), `scanString`, and `emitType` / `emitError` (once a rune has been read) end in
    such a state again, with `endOffset` not smaller than before: their fuel (`len + 1 - endOffset`) is never
    exhausted, `backupOne` never panics, and no slice expression is out of range.  (`_partial`: a statement
    about the loops only; the composition is `lex_total`.) -/
theorem lex_loops_total_partial (l : L) (h : Verif.Proofs.Lexer.InBounds l) :
    let n := l.input.size
    let m := l.endOffset
    Verif.Proofs.Lexer.A n m (acceptWhile isSpaceRune l) ∧ Verif.Proofs.Lexer.A n m (acceptWhile isIdentifierRune l) ∧
    Verif.Proofs.Lexer.A n m (acceptWhile notLineEnd l) ∧ Verif.Proofs.Lexer.A n m (acceptWhile isBinary l) ∧
    Verif.Proofs.Lexer.A n m (acceptWhile isOctal l) ∧ Verif.Proofs.Lexer.A n m (acceptWhile isHex l) ∧
    Verif.Proofs.Lexer.A n m (acceptWhile isDecimalDigitOrUnderscore l) ∧ Verif.Proofs.Lexer.A n m (scanString l) ∧
    (1 ≤ l.endOffset → ∀ ty, Verif.Proofs.Lexer.A n m (emitType ty l)) ∧
    (1 ≤ l.endOffset → Verif.Proofs.Lexer.A n m (emitError l)) := by
  have hd := preds_false_on_EOF
  exact ⟨Verif.Proofs.Lexer.acceptWhile_A _ hd.1 l h, Verif.Proofs.Lexer.acceptWhile_A _ hd.2.1 l h,
    Verif.Proofs.Lexer.acceptWhile_A _ hd.2.2.1 l h, Verif.Proofs.Lexer.acceptWhile_A _ hd.2.2.2.1 l h,
    Verif.Proofs.Lexer.acceptWhile_A _ hd.2.2.2.2.1 l h, Verif.Proofs.Lexer.acceptWhile_A _ hd.2.2.2.2.2.1 l h,
    Verif.Proofs.Lexer.acceptWhile_A _ hd.2.2.2.2.2.2 l h, Verif.Proofs.Lexer.scanString_A l h,
    fun h1 ty => Verif.Proofs.Lexer.emitType_A ty l h h1, fun h1 => Verif.Proofs.Lexer.emitError_A l h h1⟩

/-- non-vacuity: the initial state of every input is in bounds -/
example (inp : Bytes) (limit : Nat) : Verif.Proofs.Lexer.InBounds (L.init inp limit) :=
  (Verif.Proofs.LexerTotal.inv_init inp limit).1

/-! ## FX: the pooled lexer object starts in the model's initial state -/

/-- fields that `clear()` deliberately does not reset: both are assigned by `Lex` right after `clear()` -/
def keptFields : List String := ["memoryGauge", "input"]

/-- Every field of the pooled `lexer` struct is reset by `clear()`, or is in the pinned list of fields that
    `Lex` assigns right after `clear()` (and `Lex` does assign them). -/
theorem lexer_clear_complete :
    (LexerFacts.lexerFields.all fun f =>
        (LexerFacts.clearAssignments.map (·.1)).contains f || keptFields.contains f) = true
    ∧ (keptFields.all fun f => (LexerFacts.lexAssignments.map (·.1)).contains f) = true := by decide

/-- The values `clear()` assigns are the ones of the model's initial state `L.init`
    (offsets 0, runes EOF, no backup, position line 1 column 0, no tokens, normal mode, no open brackets). -/
theorem lexer_clear_values_pinned :
    LexerFacts.clearAssignments =
      [("startOffset", "0"), ("endOffset", "0"), ("prevEndOffset", "0"), ("current", "EOF"), ("prev", "EOF"),
       ("canBackup", "false"), ("startPos", "position{line: 1}"), ("cursor", "0"), ("tokens", "l.tokens[:0]"),
       ("tokenCount", "0"), ("mode", "lexerModeNormal"), ("openBrackets", "0")] := by decide

/-- The token type numbers used by the port are the `iota` numbers of `tokentype.go`. -/
theorem token_numbering_pinned : LexerFacts.tokenTypeNames = Lexer.tokenTypeNames := by decide

/-- `tokenLimit` of the source is the value the port is run with. -/
theorem token_limit_pinned : LexerFacts.tokenLimit = Lexer.tokenLimit := by decide

/-! ## Parser recursion guards as counters -/

/-- Both guards exist in the source in the modelled shape (`if p.depth == limit { return error }`, increments
    and decrements balanced) and with the modelled limits. -/
theorem depth_guard_facts :
    LexerFacts.expressionDepthGuardPresent = true ∧ LexerFacts.typeDepthGuardPresent = true ∧
    LexerFacts.expressionDepthBalanced = true ∧ LexerFacts.typeDepthBalanced = true ∧
    LexerFacts.expressionDepthLimit = DepthGuard.expressionDepthLimit ∧
    LexerFacts.typeDepthLimit = DepthGuard.typeDepthLimit := by decide

/-- A guarded recursive descent asked to nest `n` levels from depth `d ≤ limit` never runs deeper than
    `limit` activations, and it reports the limit error exactly when the nesting does not fit. -/
theorem depth_guard (limit d n : Nat) (h : d ≤ limit) :
    (DepthGuard.descend limit d n).maxDepth ≤ limit ∧
    ((DepthGuard.descend limit d n).limitError = true ↔ limit < d + n) := by
  induction n generalizing d with
  | zero => simp [DepthGuard.descend]; omega
  | succ n ih =>
    unfold DepthGuard.descend
    by_cases hd : d = limit
    · simp [hd]
    · have := ih (d + 1) (by omega)
      simp [hd, this]; omega

example : (DepthGuard.descend 16 0 17).limitError = true ∧ (DepthGuard.descend 16 0 16).limitError = false := by decide

end Verif.Properties.C37
