import Verif.Model.Front.Lexer
import Verif.Model.Front.DepthGuard
import Verif.Spec.LineCol
import Verif.Gen.LexerFacts
import Verif.Spec.Tokens
import Verif.Proofs.Lexer
/-!
# C37 — Lexing, parsing and checking are total and report in-range positions

Theorems about `Verif.Model.Front.Lexer` (line-by-line port of `parser/lexer/lexer.go` + `state.go`, tied to
`/repo` by the `lex` stream), the fact obligations over `Verif.Gen.LexerFacts` (regenerated from `/repo` on
every run), and the recursion guards of the parser as counters.  Parsing and checking themselves are not
modelled: for "all byte strings" they are covered by the direct-oracle stream `parsecheck` only (partial).
-/
namespace Verif.Properties.C37
open Verif.Model.Front Verif.Model.Front.Lexer Verif.Spec.LineCol
open Verif.Gen Verif.Spec.Tokens

/-! ## The lexer port: contiguity -/

/-- For every byte string (and every token limit): in emission order, every consuming token starts right
    after the previous consuming token's end (`next.start.offset = prev.end.offset + 1`), the first at offset
    0.  Error tokens (`TokenError`) mark a position and consume nothing.  This holds for whatever was
    emitted, also when the token limit stopped the lexer. -/
theorem tokens_contiguous (limit : Nat) (inp : Bytes) : Contiguous (lexWith limit inp).tokens :=
  Verif.Proofs.Lexer.lex_contiguous limit inp

/-- non-vacuity: a 6-token input with an error token in the middle (`1.` reports missing fractional digits) -/
example : ((lex #[120, 32, 49, 46, 32, 121]).tokens.map (fun t => (t.ty, t.startOff, t.endOff))) =
    [(9, 0, 0), (2, 1, 1), (0, 3, 3), (8, 2, 3), (2, 4, 4), (9, 5, 5)] := by decide

/-! ## FX: the pooled lexer object starts in the model's initial state -/

/-- fields that `clear()` deliberately does not reset: both are assigned by `Lex` right after `clear()` -/
def keptFields : List String := ["memoryGauge", "input"]

/-- Every field of the pooled `lexer` struct is reset by `clear()`, or is in the pinned list of fields that
    `Lex` assigns right after `clear()` (and `Lex` does assign them). -/
theorem lexer_clear_complete :
    (LexerFacts.lexerFields.all fun f =>
        (LexerFacts.clearAssignments.map (·.1)).contains f || keptFields.contains f) = true
    ∧ (keptFields.all fun f => (LexerFacts.lexAssignments.map (·.1)).contains f) = true := by decide

/-- The values `clear()` assigns are the ones of the model's initial state `L.init`
    (offsets 0, runes EOF, no backup, position line 1 column 0, no tokens, normal mode, no open brackets). -/
theorem lexer_clear_values_pinned :
    LexerFacts.clearAssignments =
      [("startOffset", "0"), ("endOffset", "0"), ("prevEndOffset", "0"), ("current", "EOF"), ("prev", "EOF"),
       ("canBackup", "false"), ("startPos", "position{line: 1}"), ("cursor", "0"), ("tokens", "l.tokens[:0]"),
       ("tokenCount", "0"), ("mode", "lexerModeNormal"), ("openBrackets", "0")] := by decide

/-- The token type numbers used by the port are the `iota` numbers of `tokentype.go`. -/
theorem token_numbering_pinned : LexerFacts.tokenTypeNames = Lexer.tokenTypeNames := by decide

/-- `tokenLimit` of the source is the value the port is run with. -/
theorem token_limit_pinned : LexerFacts.tokenLimit = Lexer.tokenLimit := by decide

/-! ## Parser recursion guards as counters -/

/-- Both guards exist in the source in the modelled shape (`if p.depth == limit { return error }`, increments
    and decrements balanced) and with the modelled limits. -/
theorem depth_guard_facts :
    LexerFacts.expressionDepthGuardPresent = true ∧ LexerFacts.typeDepthGuardPresent = true ∧
    LexerFacts.expressionDepthBalanced = true ∧ LexerFacts.typeDepthBalanced = true ∧
    LexerFacts.expressionDepthLimit = DepthGuard.expressionDepthLimit ∧
    LexerFacts.typeDepthLimit = DepthGuard.typeDepthLimit := by decide

/-- A guarded recursive descent asked to nest `n` levels from depth `d ≤ limit` never runs deeper than
    `limit` activations, and it reports the limit error exactly when the nesting does not fit. -/
theorem depth_guard (limit d n : Nat) (h : d ≤ limit) :
    (DepthGuard.descend limit d n).maxDepth ≤ limit ∧
    ((DepthGuard.descend limit d n).limitError = true ↔ limit < d + n) := by
  induction n generalizing d with
  | zero => simp [DepthGuard.descend]; omega
  | succ n ih =>
    unfold DepthGuard.descend
    by_cases hd : d = limit
    · simp [hd]
    · have := ih (d + 1) (by omega)
      simp [hd, this]; omega

example : (DepthGuard.descend 16 0 17).limitError = true ∧ (DepthGuard.descend 16 0 16).limitError = false := by decide

end Verif.Properties.C37
