/-
C32 — Big-integer memory metering never under-reports.

For the arbitrary-precision types (Int, UInt — the only callers of the `common.New…BigIntMemoryUsage`
formulas) and every metered operation: the *generated* definition `Verif.Gen.NumGo.Metering.New<Op>…`
(regenerated from common/metering.go on every run; the amount in bytes, including Go's `int`
wrap-around and the `uint64(int)` conversion) is at least `8 · len(result.Bits())` of the exact result
(`neverUnder`).  Hypotheses `Go.wordLen x < 2^56`: the operands fit in memory (less than 2^59 bytes), so
that the formulas themselves do not overflow.

Two operations under-report on the unchanged tree (known findings, see known_findings.d/C32.json):
`>>` (the bit shift is divided by the word size in *bytes*, `b / 8`, instead of the word size in bits)
and `%` (`|a| − |b| + 5` words for a remainder of up to `|b|` words).  For these the witness theorems
show the failure in the generated definitions and the `_partial` theorems state the exact side
condition under which the formula is still sufficient.
Only statements and their final proofs live here; lemmas are in Verif.Proofs.BigMeter.
-/
import Verif.Proofs.BigMeter
set_option linter.unusedVariables false
set_option exponentiation.threshold 8000
namespace Verif.Properties.C32
open Verif.Model.Num Verif.Spec.BigMeter Verif.Gen.NumGo Verif.Proofs.BigMeter

theorem C32_plus (a b : Int) (ha : Go.wordLen a < 2 ^ 56) (hb : Go.wordLen b < 2 ^ 56) :
    neverUnder (Metering.NewPlusBigIntMemoryUsage a b) (a + b) := by
  unfold Metering.NewPlusBigIntMemoryUsage neverUnder resultBytes
  rw [words_eq]
  simp only [Int.reducePow] at ha hb
  have h := wordLen_add a b
  have hz : Go.wordLen a = 0 → Go.wordLen b = 0 → Go.wordLen (a + b) = 0 := by
    intro h1 h2; rw [wordLen_eq_zero a h1, wordLen_eq_zero b h2]; rfl
  have h0a := wordLen_nonneg a
  have h0b := wordLen_nonneg b
  have hm := max_min_facts (Go.wordLen a) (Go.wordLen b)
  generalize max (Go.wordLen a) (Go.wordLen b) = M at *
  split <;> refine ⟨_, rfl, ?_⟩ <;> meter_wraps <;> omega

theorem C32_minus (a b : Int) (ha : Go.wordLen a < 2 ^ 56) (hb : Go.wordLen b < 2 ^ 56) :
    neverUnder (Metering.NewMinusBigIntMemoryUsage a b) (a - b) := by
  unfold Metering.NewMinusBigIntMemoryUsage neverUnder resultBytes
  rw [words_eq]
  simp only [Int.reducePow] at ha hb
  have h := wordLen_sub a b
  have h0a := wordLen_nonneg a
  have h0b := wordLen_nonneg b
  have hm := max_min_facts (Go.wordLen a) (Go.wordLen b)
  generalize max (Go.wordLen a) (Go.wordLen b) = M at *
  refine ⟨_, rfl, ?_⟩; meter_wraps; omega

theorem C32_mul (a b : Int) (ha : Go.wordLen a < 2 ^ 56) (hb : Go.wordLen b < 2 ^ 56) :
    neverUnder (Metering.NewMulBigIntMemoryUsage a b) (a * b) := by
  unfold Metering.NewMulBigIntMemoryUsage neverUnder resultBytes
  rw [words_eq]
  simp only [Int.reducePow] at ha hb
  have h := wordLen_mul a b
  have h0a := wordLen_nonneg a
  have h0b := wordLen_nonneg b
  have hm := max_min_facts (Go.wordLen a) (Go.wordLen b)
  generalize min (Go.wordLen a) (Go.wordLen b) = N at *
  split <;> refine ⟨_, rfl, ?_⟩
  · meter_wraps; omega
  · have hm2 := max_min_facts (6 * N) (Go.wordLen a + Go.wordLen b)
    meter_wraps
    generalize max (6 * N) (Go.wordLen a + Go.wordLen b) = M2 at *
    omega

theorem C32_neg (a b : Int) (ha : Go.wordLen a < 2 ^ 56) :
    neverUnder (Metering.NewNegateBigIntMemoryUsage a b) (-a) := by
  unfold Metering.NewNegateBigIntMemoryUsage neverUnder resultBytes
  rw [words_eq, wordLen_neg]
  simp only [Int.reducePow] at ha
  have h0a := wordLen_nonneg a
  refine ⟨_, rfl, ?_⟩; meter_wraps; omega

theorem C32_or (a b : Int) (ha : Go.wordLen a < 2 ^ 56) (hb : Go.wordLen b < 2 ^ 56) :
    neverUnder (Metering.NewBitwiseOrBigIntMemoryUsage a b) (Go.lor a b) := by
  unfold Metering.NewBitwiseOrBigIntMemoryUsage neverUnder resultBytes
  rw [words_eq]
  simp only [Int.reducePow] at ha hb
  have h := (wordLen_bitop a b).2.1
  have h0a := wordLen_nonneg a
  have h0b := wordLen_nonneg b
  have hm := max_min_facts (Go.wordLen a) (Go.wordLen b)
  generalize max (Go.wordLen a) (Go.wordLen b) = M at *
  generalize min (Go.wordLen a) (Go.wordLen b) = N at *
  (repeat' split) <;> refine ⟨_, rfl, ?_⟩ <;> meter_wraps <;> omega

theorem C32_xor (a b : Int) (ha : Go.wordLen a < 2 ^ 56) (hb : Go.wordLen b < 2 ^ 56) :
    neverUnder (Metering.NewBitwiseXorBigIntMemoryUsage a b) (Go.xor a b) := by
  unfold Metering.NewBitwiseXorBigIntMemoryUsage neverUnder resultBytes
  rw [words_eq]
  simp only [Int.reducePow] at ha hb
  have h := (wordLen_bitop a b).2.2
  have h0a := wordLen_nonneg a
  have h0b := wordLen_nonneg b
  have hm := max_min_facts (Go.wordLen a) (Go.wordLen b)
  generalize max (Go.wordLen a) (Go.wordLen b) = M at *
  generalize min (Go.wordLen a) (Go.wordLen b) = N at *
  (repeat' split) <;> refine ⟨_, rfl, ?_⟩ <;> meter_wraps <;> omega

theorem C32_and (a b : Int) (ha : Go.wordLen a < 2 ^ 56) (hb : Go.wordLen b < 2 ^ 56) :
    neverUnder (Metering.NewBitwiseAndBigIntMemoryUsage a b) (Go.land a b) := by
  unfold Metering.NewBitwiseAndBigIntMemoryUsage neverUnder resultBytes
  rw [words_eq]
  simp only [Int.reducePow] at ha hb
  have h := (wordLen_bitop a b).1
  have h0a := wordLen_nonneg a
  have h0b := wordLen_nonneg b
  have hm := max_min_facts (Go.wordLen a) (Go.wordLen b)
  generalize max (Go.wordLen a) (Go.wordLen b) = M at *
  (repeat' split) <;> refine ⟨_, rfl, ?_⟩ <;> meter_wraps <;> omega

/-- `a << b` for a shift amount that fits in memory (`b < 2^59` bits) -/
theorem C32_shl (a b : Int) (ha : Go.wordLen a < 2 ^ 56) (hb0 : 0 ≤ b) (hb : b < 2 ^ 59) :
    neverUnder (Metering.NewBitwiseLeftShiftBigIntMemoryUsage a b) (a * (2 : Int) ^ b.toNat) := by
  unfold Metering.NewBitwiseLeftShiftBigIntMemoryUsage neverUnder resultBytes
  rw [words_eq]
  simp only [Int.reducePow] at ha hb
  have h := wordLen_shl a b.toNat
  have h0a := wordLen_nonneg a
  have hk : ((b.toNat / 64 : Nat) : Int) = b / 64 := by omega
  rw [hk] at h
  have hi : Go.isInt64 (Int.ediv b 8) := by
    unfold Go.isInt64; show -(2 ^ 63 : Int) ≤ b / 8 ∧ b / 8 < 2 ^ 63
    simp only [Int.reducePow]; omega
  have e64 : Go.int64 (Int.ediv b 8) = b / 8 := by
    show Go.int64 (b / 8) = b / 8
    unfold Go.int64
    have h1 : 0 ≤ b / 8 := by omega
    have h2 : ((b / 8).natAbs % 2 ^ 64 : Nat) = (b / 8).natAbs := Nat.mod_eq_of_lt (by omega)
    rw [if_neg (by omega), h2, wrapS64_id _ (by omega) (by omega)]; omega
  split
  · rename_i hz; subst hz; refine ⟨_, rfl, ?_⟩
    simp only [Int.toNat_zero, Int.pow_zero, Int.mul_one] at *
    meter_wraps; omega
  · rw [e64]; refine ⟨_, rfl, ?_⟩; meter_wraps; omega

/-! ### `>>`: known finding `bigint-shr-metering-divides-bit-shift-by-word-bytes` -/

/-- a 10-word number shifted right by 64 bits has 9 words (72 bytes); 48 bytes are metered -/
theorem C32_shr_witness : Metering.NewBitwiseRightShiftBigIntMemoryUsage ((2 ^ 639 : Nat) : Int) 64 = .ok 48 ∧
    resultBytes (((2 ^ 639 : Nat) : Int) / (2 : Int) ^ (64 : Int).toNat) = 72 ∧
    ¬ neverUnder (Metering.NewBitwiseRightShiftBigIntMemoryUsage ((2 ^ 639 : Nat) : Int) 64)
      (((2 ^ 639 : Nat) : Int) / (2 : Int) ^ (64 : Int).toNat) := by
  decide +kernel

/-- `Int(1) >> 1000`: the negative word count wraps to 2^64 − 960 (the operation then fails with a
    memory-limit error although its result is 0) -/
theorem C32_shr_wrap_witness : Metering.NewBitwiseRightShiftBigIntMemoryUsage 1 1000 = .ok (2 ^ 64 - 960) := by
  decide

/-- the formula is sufficient exactly when dividing by 8 instead of 64 loses at most the 4 spare
    words (`b / 8 ≤ b / 64 + 4`, i.e. `b < 40`), or for a negative operand (no subtraction at all) -/
theorem C32_shr_partial (a b : Int) (ha : Go.wordLen a < 2 ^ 56) (hb0 : 0 ≤ b) (hb : b < 2 ^ 59)
    (hside : a < 0 ∨ b / 8 ≤ b / 64 + 4) :
    neverUnder (Metering.NewBitwiseRightShiftBigIntMemoryUsage a b) (a / (2 : Int) ^ b.toNat) := by
  unfold Metering.NewBitwiseRightShiftBigIntMemoryUsage neverUnder resultBytes
  rw [words_eq]
  simp only [Int.reducePow] at ha hb
  have h := wordLen_shr a b.toNat
  have h0a := wordLen_nonneg a
  have h0r := wordLen_nonneg (a / (2 : Int) ^ b.toNat)
  have hi : Go.isInt64 (Int.ediv b 8) := by
    unfold Go.isInt64; show -(2 ^ 63 : Int) ≤ b / 8 ∧ b / 8 < 2 ^ 63
    simp only [Int.reducePow]; omega
  have e64 : Go.int64 (Int.ediv b 8) = b / 8 := by
    show Go.int64 (b / 8) = b / 8
    unfold Go.int64
    have h1 : 0 ≤ b / 8 := by omega
    have h2 : ((b / 8).natAbs % 2 ^ 64 : Nat) = (b / 8).natAbs := Nat.mod_eq_of_lt (by omega)
    rw [if_neg (by omega), h2, wrapS64_id _ (by omega) (by omega)]; omega
  by_cases hneg : a ≥ 0
  · rw [if_pos hneg]
    have hs := wordLen_shr_nonneg a b.toNat hneg
    have hk : ((b.toNat / 64 : Nat) : Int) = b / 64 := by omega
    rw [hk] at hs
    have hm := max_min_facts 0 (Go.wordLen a - b / 64)
    generalize max 0 (Go.wordLen a - b / 64) = M at *
    have hside' : b / 8 ≤ b / 64 + 4 := by omega
    split
    · refine ⟨_, rfl, ?_⟩; meter_wraps; omega
    · rw [e64]; refine ⟨_, rfl, ?_⟩
      by_cases hn : 0 ≤ Go.wordLen a - b / 8 + 4
      · meter_wraps; omega
      · have : wrapS 64 (wrapS 64 (Go.wordLen a - b / 8) + 4) = Go.wordLen a - b / 8 + 4 := by meter_wraps
        rw [this, wrapS64_id _ (by omega) (by omega), wrapU64_neg _ (by omega) (by omega)]; omega
  · rw [if_neg hneg]; refine ⟨_, rfl, ?_⟩; meter_wraps; omega

/-! ### `%`: known finding `bigint-mod-metering-subtracts-divisor-length` -/

/-- two 50-word numbers `a = 2b − 1`: the remainder `b − 1` has 50 words (400 bytes); 40 bytes are metered -/
theorem C32_mod_witness :
    Metering.NewModBigIntMemoryUsage ((2 ^ 3200 - 1 : Nat) : Int) ((2 ^ 3199 : Nat) : Int) = .ok 40 ∧
    resultBytes (Int.tmod ((2 ^ 3200 - 1 : Nat) : Int) ((2 ^ 3199 : Nat) : Int)) = 400 ∧
    ¬ neverUnder (Metering.NewModBigIntMemoryUsage ((2 ^ 3200 - 1 : Nat) : Int) ((2 ^ 3199 : Nat) : Int))
      (Int.tmod ((2 ^ 3200 - 1 : Nat) : Int) ((2 ^ 3199 : Nat) : Int)) := by
  decide +kernel

/-- the formula is sufficient in its first branch (`a < b` or a one-word divisor) and, in the second,
    exactly when `|a| − |b| + 5 ≥ min |a| |b|` words (or the difference is negative and wraps) -/
theorem C32_mod_partial (a b : Int) (ha : Go.wordLen a < 2 ^ 56) (hb : Go.wordLen b < 100) (hb0 : b ≠ 0)
    (hside : a < b ∨ Go.wordLen b = 1 ∨ 2 * Go.wordLen b ≤ Go.wordLen a + 5 ∨ Go.wordLen a - Go.wordLen b + 5 < 0) :
    neverUnder (Metering.NewModBigIntMemoryUsage a b) (Int.tmod a b) := by
  unfold Metering.NewModBigIntMemoryUsage neverUnder resultBytes
  rw [words_eq]
  simp only [Int.reducePow] at ha
  have h := wordLen_tmod a b hb0
  have h0a := wordLen_nonneg a
  have h0b := wordLen_nonneg b
  have h0r := wordLen_nonneg (Int.tmod a b)
  split
  · refine ⟨_, rfl, ?_⟩; meter_wraps; omega
  · refine ⟨_, rfl, ?_⟩
    by_cases hn : 0 ≤ Go.wordLen a - Go.wordLen b + 5
    · meter_wraps; omega
    · have : wrapS 64 (wrapS 64 (Go.wordLen a - Go.wordLen b) + 5) = Go.wordLen a - Go.wordLen b + 5 := by meter_wraps
      rw [this, wrapS64_id _ (by omega) (by omega), wrapU64_neg _ (by omega) (by omega)]; omega

/-! ### `/` shares the formula of `%`; the quotient of the first two branches fits.
    Full statement (not proved here): also for `|b| ≥ 100` words, where the amount is
    `3|b| + 4 + (8 + 9|b| + |a|/|b| + 12) · 2·bitLen b` words — non-linear in the operand lengths. -/

theorem C32_div_partial (a b : Int) (ha : Go.wordLen a < 2 ^ 56) (hb : Go.wordLen b < 100) (hb0 : b ≠ 0) :
    neverUnder (Metering.NewDivBigIntMemoryUsage a b) (Int.tdiv a b) := by
  unfold Metering.NewDivBigIntMemoryUsage neverUnder resultBytes
  rw [words_eq]
  simp only [Int.reducePow] at ha
  have h := wordLen_tdiv_sub a b hb0
  have h1 := wordLen_tdiv a b
  have h0a := wordLen_nonneg a
  have h0b := wordLen_nonneg b
  have h0r := wordLen_nonneg (Int.tdiv a b)
  have hm := max_min_facts 0 (Go.wordLen a - Go.wordLen b + 1)
  generalize max 0 (Go.wordLen a - Go.wordLen b + 1) = M at *
  split
  · refine ⟨_, rfl, ?_⟩; meter_wraps; omega
  · refine ⟨_, rfl, ?_⟩
    by_cases hn : 0 ≤ Go.wordLen a - Go.wordLen b + 5
    · meter_wraps; omega
    · have : wrapS 64 (wrapS 64 (Go.wordLen a - Go.wordLen b) + 5) = Go.wordLen a - Go.wordLen b + 5 := by meter_wraps
      rw [this, wrapS64_id _ (by omega) (by omega), wrapU64_neg _ (by omega) (by omega)]; omega

/-- the spec's `words` is `len(x.Bits())` of the model -/
theorem C32_words_eq_wordLen (x : Int) : (words x : Int) = Go.wordLen x := words_eq x

/-! ### Non-vacuity -/

example : Go.wordLen (2 ^ 64 - 1) = 1 ∧ neverUnder (Metering.NewPlusBigIntMemoryUsage (2 ^ 64 - 1) 1) (2 ^ 64) ∧
    resultBytes (2 ^ 64) = 16 := by decide
example : Metering.NewMulBigIntMemoryUsage ((2 ^ 6400 : Nat) : Int) ((2 ^ 6400 : Nat) : Int) = .ok ((3 * 101 + 6 * 101 + 8) * 8) := by decide +kernel
example : Metering.NewBitwiseLeftShiftBigIntMemoryUsage 1 1000 = .ok ((1 + 125 + 5) * 8) ∧ resultBytes (((2 ^ 1000 : Nat) : Int)) = 128 := by decide +kernel
example : (-5 : Int) < 0 ∨ (1000 : Int) / 8 ≤ 1000 / 64 + 4 := by decide
example : Metering.NewModBigIntMemoryUsage 7 3 = .ok 40 ∧ Go.wordLen 3 = 1 := by decide

end Verif.Properties.C32
