import Verif.Proofs.Conv
import Verif.Proofs.ConvRounding
/-!
C16 — Numeric conversions preserve value or fail.

Model: `Verif.Model.Convert.convert tgt src raw round` (hand port of the `Convert<T>` functions of
`/repo/interpreter` and of the narrowing routines of onflow/fixed-point), tied to the Go code by the
`conv` stream.  Spec: `Verif.Spec.Conv.specConvert` (exact rational value at the target's scale,
excess digits truncated toward zero or rounded by the rule, range check / reduction mod 2^n).
All statements quantify over every one of the 24 × 24 (source type, target type) pairs and every
source value of the source type.
-/
namespace Verif.Properties.C16
open Verif.Model.NumT Verif.Model.Convert Verif.Spec.Conv Verif.Proofs.Conv

/-- Integer targets other than Word: the result is the integer part of the source value (truncated
    toward zero) when that is in the target's range, `overflow` when it is above, `underflow` when below
    — exactly, including the error kind. -/
theorem int_target (src tgt : NumTy) (raw : Int) (h : src.inRange raw)
    (ht : tgt.kind = .sint ∨ tgt.kind = .uint) :
    convert tgt src raw none =
      (let v := Int.tdiv raw ((10 : Int) ^ src.scale)
       if tgt.aboveMax v then .error .overflow else if tgt.belowMin v then .error .underflow else .ok v)
    ∧ convert tgt src raw none = specConvert src tgt raw .towardZero := by
  have e := int_target_eq src tgt raw h ht
  refine ⟨?_, e⟩
  rw [e]
  have htf : tgt.fixed = false := by rcases ht with ht | ht <;> simp [NumTy.fixed, ht]
  have htw : tgt.isWord = false := by rcases ht with ht | ht <;> simp [NumTy.isWord, ht]
  simp [specConvert, scaled_int _ _ _ _ htf, htw, ipart]

example : convert .int8 .fix64 (-12850000000) none = .ok (-128) := by decide
example : convert .int8 .fix64 (-12900000000) none = .error .underflow := by decide
example : convert .uint8 .fix128 (-500000000000000000000000) none = .ok 0 := by decide
example : convert .int .fix128 (-1500000000000000000000000) none = .ok (-1) := by decide
example : convert .uint64 .int256 (2 ^ 64) none = .error .overflow := by decide

/-- Word targets: the integer part of the source value reduced modulo 2^n; never an error. -/
theorem word_target (src tgt : NumTy) (raw : Int) (h : src.inRange raw) (ht : tgt.kind = .word) :
    convert tgt src raw none = .ok (Int.tdiv raw ((10 : Int) ^ src.scale) % (2 : Int) ^ tgt.bits)
    ∧ convert tgt src raw none = specConvert src tgt raw .towardZero := by
  obtain ⟨h1, h2⟩ := word_target_eq src tgt raw h ht
  exact ⟨h1, h1.trans h2.symm⟩

example : convert .word8 .fix128 (-1500000000000000000000000) none = .ok 255 := by decide
example : convert .word128 .int256 (-(2 ^ 200) - 1) none = .ok (2 ^ 128 - 1) := by decide

/-- Fixed-point targets without a rounding rule: the source value at the target's scale with the
    excess digits truncated toward zero when that is in range, a range error (overflow / underflow)
    exactly when it is not.  (`sameOutcome` identifies the two range-error kinds, as the property does;
    see `fix_target_error_kind_witness`.) -/
theorem fix_target (src tgt : NumTy) (raw : Int) (h : src.inRange raw) (ht : tgt.fixed = true) :
    sameOutcome (convert tgt src raw none) (specConvert src tgt raw .towardZero) :=
  fix_target_norounding src tgt raw h ht

example : convert .fix64 .fix128 (-1999999999000000000000000) none = .ok (-199999999) := by decide
example : convert .fix64 .fix128 92233720368547758075000000000000000 none = .ok 9223372036854775807 := by decide
example : convert .ufix64 .fix128 (-1) none = .ok 0 := by decide
example : convert .ufix128 .fix64 (-1) none = .error .underflow := by decide

/-- the one place where the error *kind* is not the direction of the failure: a big integer below
    the int64 range converted to Fix64 reports `overflow` (`!v.IsInt64()` in `ConvertFix64`). -/
theorem fix_target_error_kind_witness :
    convert .fix64 .int256 (-(2 ^ 100)) none = .error .overflow
    ∧ specConvert .int256 .fix64 (-(2 ^ 100)) .towardZero = .error .underflow := by decide

/-- Fixed-point targets with a rounding rule (`Fix64(x, rounding: r)`, `UFix64(x, rounding: r)`), every
    source type and value, every rule.  Full statement: as `fix_target` with the rule `r`.  Proved
    outside the recorded finding's region: a non-zero source whose rounded value is 0 (there the code
    deliberately raises `underflow`, see `rounds_to_zero_witness`). -/
theorem fix_target_rounding_partial (src tgt : NumTy) (raw : Int) (r : Rounding) (h : src.inRange raw)
    (ht : tgt = .fix64 ∨ tgt = .ufix64) (hz : raw ≠ 0 → scaled src tgt raw r ≠ 0) :
    sameOutcome (convert tgt src raw (some r)) (specConvert src tgt raw r) :=
  fix_target_rounding_all src tgt raw r h ht hz

example : convert .fix64 .fix128 1000000005000000000000000 (some .nearestHalfEven) = .ok 100000000 := by decide
example : convert .fix64 .fix128 1000000015000000000000000 (some .nearestHalfEven) = .ok 100000002 := by decide
example : convert .fix64 .fix128 (-1000000005000000000000000) (some .nearestHalfAway) = .ok (-100000001) := by decide
example : convert .ufix64 .ufix128 184467440737095516150000000000000001 (some .awayFromZero) = .error .overflow := by decide
example : scaled .fix128 .fix64 1000000005000000000000000 .awayFromZero ≠ 0 := by decide

/-- the recorded finding `narrowing-rounds-to-zero-underflow`, proved of the model: the code fails where
    the property's reading ("rounded by the given rule") gives 0 -/
theorem rounds_to_zero_witness :
    convert .fix64 .fix128 1 (some .towardZero) = .error .underflow
    ∧ specConvert .fix128 .fix64 1 .towardZero = .ok 0
    ∧ convert .fix64 .fix128 1 none = .ok 0
    ∧ convert .ufix64 .fix128 (-1) (some .nearestHalfEven) = .error .underflow
    ∧ specConvert .fix128 .ufix64 (-1) .nearestHalfEven = .ok 0 := by decide

/-- the spec never asks for anything but a value or a range error -/
theorem spec_total (src tgt : NumTy) (raw : Int) (r : Rounding) :
    outcome (specConvert src tgt raw r) ≠ .crash := by
  unfold specConvert; simp only []; split_ifs <;> simp [outcome]

end Verif.Properties.C16
