import Verif.Proofs.Lang3.Attach
/-!
# C49 — Attachments follow their lifecycle rules

Model: `Verif.Model.Lang3.Attach` (core calculus: resource and struct bases, two attachment types each,
attach / remove / move / copy / array round trip / access / destroy on variables).
-/
namespace Verif.Properties.C49
open Verif.Model.Lang3.Attach Verif.Proofs.Lang3.Attach

/-- **At most one.**  In every state reachable by any statement sequence (including the state in which a
failing run stops), every composite — in a variable or stored in the array — carries at most one
attachment of each attachment type. -/
theorem at_most_one (ss : List Stmt) : Inv (run St.init ss).2 :=
  run_inv ss St.init ⟨fun p hp => by simp [St.init] at hp, fun c hc => by simp [St.init] at hc⟩

/-- `attach` fails exactly when the base already carries an attachment of that type. -/
theorem attach_fails_iff_present (s : St) (x' a x : Nat) (k : Int) (c : Comp) (hg : s.get x = some c) :
    step s (.attach x' a k x) = .error .duplicateAttachment ↔ c.hasAtt a = true := by
  simp only [step, hg]
  cases c.hasAtt a <;> simp

/-- **Attach moves the base.**  A successful `attach A(k) to <- x` of a resource base leaves `x` unbound
and binds the result to the same base value (same id and fields, same earlier attachments) extended by the
new attachment, whose initializer ran with `base` = that base (`self.k = k + base.n`). -/
theorem attach_moves_base (s s' : St) (x' a x : Nat) (k : Int) (c : Comp) (hne : x' ≠ x)
    (hg : s.get x = some c) (hres : c.isRes = true) (hs : step s (.attach x' a k x) = .ok s') :
    s'.get x = none ∧ s'.get x' = some { c with atts := c.atts ++ [(a, k + c.n)] } := by
  simp only [step, hg] at hs
  cases hh : c.hasAtt a with
  | true => simp [hh] at hs
  | false =>
    simp [hh, hres] at hs; subst hs
    refine ⟨by rw [get_bind_other _ _ _ _ hne.symm]; exact get_unbind_self s x, ?_⟩
    rw [get_bind_self]; simp [hres]

/-- a struct base is copied instead: the source variable keeps its value (without the new attachment) -/
theorem attach_copies_struct (s s' : St) (x' a x : Nat) (k : Int) (c : Comp) (hne : x' ≠ x)
    (hg : s.get x = some c) (hres : c.isRes = false) (hs : step s (.attach x' a k x) = .ok s') :
    s'.get x = some c ∧ s'.get x' = some { c with atts := c.atts ++ [(a, k + c.n)] } := by
  simp only [step, hg] at hs
  cases hh : c.hasAtt a with
  | true => simp [hh] at hs
  | false =>
    simp [hh, hres] at hs; subst hs
    refine ⟨by rw [get_bind_other _ _ _ _ hne.symm]; exact hg, ?_⟩
    rw [get_bind_self]; simp [hres]

/-- **Attachments travel** with their base through a move / copy: the target holds the identical value,
attachment table included. -/
theorem travels_move (s s' : St) (x' x : Nat) (c : Comp) (hg : s.get x = some c)
    (hs : step s (.move x' x) = .ok s') : s'.get x' = some c := by
  simp [step, hg] at hs; subst hs
  exact get_bind_self _ _ _

/-- … and through storing into and loading from the (empty) resource array. -/
theorem travels_array (s s1 s2 : St) (x x' : Nat) (c : Comp) (hg : s.get x = some c) (hst : s.stash = [])
    (h1 : step s (.push x) = .ok s1) (h2 : step s1 (.pop x') = .ok s2) : s2.get x' = some c := by
  simp [step, hg] at h1; subst h1
  simp [step, hst] at h2; subst h2
  exact get_bind_self _ _ _

/-- **Remove destroys.**  Removing a present attachment from a resource base emits exactly that
attachment's `ResourceDestroyed` payload (computed with `base` = the base) and leaves the base without an
attachment of that type; its other attachments are untouched. -/
theorem remove_destroys (s s' : St) (a x : Nat) (c : Comp) (k : Int) (hg : s.get x = some c)
    (hk : c.getAtt a = some k) (hres : c.isRes = true) (hs : step s (.remove a x) = .ok s') :
    s'.tr = s.tr ++ [attEvent (c.eraseAtt a) a k] ∧ s'.get x = some (c.eraseAtt a) ∧
      (c.eraseAtt a).hasAtt a = false ∧
      ∀ b, b ≠ a → (c.eraseAtt a).getAtt b = c.getAtt b := by
  simp [step, hg, hk, hres] at hs; subst hs
  refine ⟨by simp [St.emit, St.bind], by simp [St.emit]; exact get_bind_self _ _ _, ?_, ?_⟩
  · simp [Comp.eraseAtt, Comp.hasAtt]
  · intro b hb
    simp only [Comp.eraseAtt, Comp.getAtt]
    congr 1
    induction c.atts with
    | nil => rfl
    | cons p ps ih =>
      simp only [List.filter_cons]
      by_cases hp : p.1 = a
      · have hab : (a == b) = false := by simp; exact fun e => hb e.symm
        simp [hp, List.find?_cons, hab, ih]
      · simp only [bne_iff_ne, ne_eq, hp, not_false_eq_true, decide_true, if_true, List.find?_cons]
        cases (p.1 == b) <;> simp [ih]

/-- removing an absent attachment does nothing -/
theorem remove_absent (s : St) (a x : Nat) (c : Comp) (hg : s.get x = some c) (hk : c.getAtt a = none) :
    step s (.remove a x) = .ok s := by
  simp [step, hg, hk]

/-- **Destroying a base destroys all its attachments**: one `ResourceDestroyed` payload per attachment in
the table, each computed with `base` = the base being destroyed, then the base's own payload; the variable
is gone. -/
theorem destroy_base_destroys_all (s s' : St) (x : Nat) (c : Comp) (hg : s.get x = some c)
    (hs : step s (.destroy x) = .ok s') :
    s'.get x = none ∧
      s'.tr = s.tr ++ c.atts.map (fun p => attEvent c p.1 p.2) ++ [baseEvent c] := by
  simp [step, hg] at hs; subst hs
  exact ⟨get_unbind_self s x, by simp [St.unbind]⟩

/-- **`base` / `self` binding.**  A function of attachment `a` called through `x[a]` sees `self` = the entry
of `x`'s table and `base` = the value `x` holds *now* — whatever variable the base was moved from and
however its fields were updated since the attachment was created: after `x.setN(v)`, `x[a]!.sum()` is
`self.k + v`. -/
theorem base_self_binding (s s1 s2 : St) (x a : Nat) (c : Comp) (k v : Int) (hg : s.get x = some c)
    (hk : c.getAtt a = some k) (h1 : step s (.setN x v) = .ok s1) (h2 : step s1 (.sum x a) = .ok s2) :
    s2.tr = s.tr ++ [.log (toString (k + v))] := by
  simp [step, hg] at h1; subst h1
  simp [step, get_bind_self] at h2; subst h2
  have hk' : ({ c with n := v } : Comp).getAtt a = some k := hk
  simp [St.emit, St.bind, sumLog, hk']

/-- non-vacuity: attach A then B, move, update, access, remove A, destroy (B and the base are destroyed);
a second attach of A fails. -/
example : run St.init [.create 0 true 1 5, .attach 1 0 10 0, .attach 2 1 20 1, .move 3 2, .setN 3 7,
      .sum 3 0, .remove 0 3, .destroy 3] =
    (.ok (), ⟨[], [], [.log "22", .event "A.ResourceDestroyed" [("id", 1), ("k", 15), ("n", 7)],
      .event "B.ResourceDestroyed" [("id", 1), ("k", 25), ("n", 7)],
      .event "R.ResourceDestroyed" [("id", 1), ("n", 7)]]⟩) := by rfl

example : (run St.init [.create 0 true 1 5, .attach 1 0 10 0, .attach 2 0 20 1]).1
    = .error .duplicateAttachment := by rfl

end Verif.Properties.C49
