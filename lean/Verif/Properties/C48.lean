import Verif.Proofs.Lang3.Events
/-!
# C48 — Emitted events conform to their declared types

Model: `Verif.Model.Lang3.Events` (core calculus: `emit` statements and `emit` conditions, resources with a
`ResourceDestroyed` default event and nested resources).
-/
namespace Verif.Properties.C48
open Verif.Model.Lang3.Events Verif.Proofs.Lang3.Events

/-- **Event shape.**  Every payload handed to the host by any run of any program of the calculus
(complete or failing) is an instance of a declared event: it carries that event's type id, exactly its
declared fields in declaration order, and every value conforms dynamically to the declared field type
(`WellShaped`; the events of `emit` statements, `emit` conditions and resource destruction alike). -/
theorem event_shape (p : Program) (e : Event) (h : Obs.event e ∈ p.run.2.tr) : WellShaped p e :=
  pres_execAll p p.main ⟨[], []⟩ (by intro e he; simp at he) e h

/-- **Default destruction events.**  Destroying a resource `r` appends to the trace first everything the
destruction of its nested resource emits, then the `ResourceDestroyed` payloads inherited from the
interfaces `r` conforms to (`ifaceEventsOf`: one per effective conformance, in conformance order), then
`r`'s own `ResourceDestroyed` payload, whose fields are the declared parameters in order and whose values
are the default-argument expressions evaluated on `r` as it was before destruction, transferred to the
parameter types. -/
theorem destroy_defaults (p : Program) (r : Res) (s s' : St) (h : destroyRes p r s = (.ok (), s')) :
    ∃ sInner, (match r.inner with
        | some i => destroyRes p i s = (.ok (), sInner)
        | none => sInner = s) ∧
      ∃ ievs ev, ifaceEventsOf p r = .ok ievs ∧
        s'.tr = sInner.tr ++ ievs.map Obs.event ++ optEvents ev ∧
        ((∀ d, p.resources[r.ty]? = some d → d.destroyEvent = none → ev = none) ∧
         ∀ d ps, p.resources[r.ty]? = some d → d.destroyEvent = some ps →
          ∃ vals, ev = some ⟨resEventId r.ty, (ps.map (·.name)).zip vals⟩ ∧
            All2 (fun (v : Val) (dp : DParam) => ∃ u, evalDExp r dp.dflt = .ok u ∧ v = box dp.ty u) vals ps) := by
  have noneCase : ∀ (ev : Option Event), destroyEventOf p r = .ok ev →
      ∀ d, p.resources[r.ty]? = some d → d.destroyEvent = none → ev = none := by
    intro ev hev d hd hn
    unfold destroyEventOf at hev
    simp [hd, hn] at hev
    exact hev.symm
  have tail : ∀ (ievs : List Event) (ev : Option Event) (t : St),
      (emitList ievs >>= fun _ => emitOpt ev) t = (.ok (), s') →
      s'.tr = t.tr ++ ievs.map Obs.event ++ optEvents ev := by
    intro ievs ev t ht
    rw [bind_def, emitList_tr] at ht
    simp only [] at ht
    have := emitOpt_tr ev _ s' ht
    simpa using this
  cases r with
  | leaf ty fields =>
    unfold destroyRes at h
    split at h
    · simp at h
    · next ievs hiev =>
      split at h
      · simp at h
      · next ev hev =>
        exact ⟨s, rfl, ievs, ev, hiev, tail ievs ev s h, noneCase ev hev, destroyEventOf_spec p _ ev hev⟩
  | node ty fields inner =>
    unfold destroyRes at h
    split at h
    · simp at h
    · next ievs hiev =>
      split at h
      · simp at h
      · next ev hev =>
        rw [bind_def] at h
        split at h
        · next u s1 hin =>
          exact ⟨s1, hin, ievs, ev, hiev, tail ievs ev s1 h, noneCase ev hev, destroyEventOf_spec p _ ev hev⟩
        · simp at h

/-- the inherited payloads: for a resource declared `Rk: cs`, `ifaceEventsOf` walks the effective
conformances of `cs` (the port of `distinctConformances`, see C10 `conformance_closure`) in order. -/
theorem inherited_events_order (p : Program) (r : Res) (d : ResDecl) (hd : p.resources[r.ty]? = some d) :
    ifaceEventsOf p r =
      evalIfaceEvents p r (Verif.Model.Lang3.effectiveConformances p.graph (p.ifaces.length + 1) d.conforms) := by
  simp [ifaceEventsOf, hd]

/-- non-vacuity: a resource `R1` holding an `R0`; the defaults read `self.f0` (updated after creation)
and `self.inner.f0`; the inner resource `R0: I1` (`I1: I0`) emits its inherited events, then its own; the
inner resource's events come first. -/
def exProg : Program :=
  { events := [⟨"E0", [⟨"b", .opt (.int "Int")⟩, ⟨"a", .string⟩]⟩],
    resources := [
      ⟨[⟨"f0", .int "Int"⟩], none, some [⟨"x", .int "Int", .field 0⟩], [1]⟩,
      ⟨[⟨"f0", .string⟩], some 0, some [⟨"s", .opt .string, .field 0⟩, ⟨"i", .int "Int", .innerField 0⟩, ⟨"k", .bool, .lit (.bool true)⟩], []⟩],
    ifaces := [⟨[], some [⟨"z", .opt (.int "Int"), .field 0⟩]⟩, ⟨[0], some []⟩],
    funs := [],
    main := [
      .emit ⟨0, [.tr 1 (.lit (.int "Int" 5)), .tr 2 (.lit (.str "a"))]⟩,
      .create 0 (.node 1 [.lit (.str "u")] (.leaf 0 [.lit (.int "Int" 7)])),
      .setField 0 0 (.lit (.str "v")),
      .destroy 0] }

example : (exProg.run.2.tr.filterMap fun | .event e => some e | _ => none) =
    [⟨"E0", [("b", .some (.int "Int" 5)), ("a", .str "a")]⟩,
     ⟨"I1.ResourceDestroyed", []⟩, ⟨"I0.ResourceDestroyed", [("z", .some (.int "Int" 7))]⟩,
     ⟨"R0.ResourceDestroyed", [("x", .int "Int" 7)]⟩,
     ⟨"R1.ResourceDestroyed", [("s", .some (.str "v")), ("i", .int "Int" 7), ("k", .bool true)]⟩] := by
  rfl

end Verif.Properties.C48
