import Verif.Proofs.Update
/-!
# C27 — accepted contract updates keep existing stored data usable

Model: `Verif.Model.Update` (port of `stdlib/contract_update_validation.go` + `type-comparator.go`),
spec: `Verif.Spec.Update` (canonical type names, declaration environment, stored values and their
typing).  `validate an old new = []` is "the update is accepted".

Full-strength statement (DESIGN §6 C27), not yet proved in this generality:

  values_stay_typed : validate an old new = [] → hasType ⟨oldRoot, oldImports⟩ v t →
      pathsLive newRoot v → hasType ⟨newRoot, newImports⟩ v t

What is proved below is the part of it that concerns every pair of declarations the validator compares
(`_partial`: the induction over the path from the root to a nested declaration and over the value is
missing; the import maps of both versions are assumed to agree on every name).
-/
namespace Verif.Properties.C27
open Verif.Model.Update Verif.Spec.Update Verif.Proofs.Update

/-- The type comparator only identifies type ASTs that denote the same type: if `CheckEqual` reports no
error for the declared types of a field in the old and the new program, both denote the same semantic
type (local types up to qualification by the contract's own name, imported types by import location).
Partial: the two import maps are assumed to agree. -/
theorem comparator_sound_partial (c : Cmp) (R : String) (hroot : c.root = some R)
    (himp : ∀ x, lookupLast x c.expImports = lookupLast x c.foundImports)
    (t t' : TypeAst) (h : typeEq c t t' = none) :
    denote ⟨R, c.expImports⟩ t = denote ⟨R, c.foundImports⟩ t' :=
  typeEq_denote c R hroot himp t t' h

/-- For every pair (old declaration, new declaration) on which `checkDeclarationUpdatability` reports
nothing: same kind and name; every field the new declaration lists was listed by the old one with a
type of the same denotation; the old enum cases are a prefix of the new ones (raw values keep their
case); every conformance of an old composite has a counterpart of the same denotation. -/
theorem accepted_declaration_compatible_partial (c : Cmp) (R : String) (hroot : c.root = some R)
    (himp : ∀ x, lookupLast x c.expImports = lookupLast x c.foundImports)
    (old new : Decl) (h : checkDecl c old new = []) :
    NodeCompat ⟨R, c.expImports⟩ ⟨R, c.foundImports⟩ old new :=
  nodeCompat_of_ok c R hroot himp old new (checkDecl_nil c old new h)

/-- An accepted update has a root declaration on both sides and the two are compatible. -/
theorem accepted_root_compatible_partial (an : AccountNames) (old new : Program)
    (himp : ∀ x, lookupLast x (collectImports an old) = lookupLast x (collectImports an new))
    (h : validate an old new = []) :
    ∃ o n, old.root = some o ∧ new.root = some n ∧
      NodeCompat ⟨n.name, collectImports an old⟩ ⟨n.name, collectImports an new⟩ o n := by
  unfold validate at h
  split at h
  · simp at h
  · rename_i o ho
    split at h
    · simp at h
    · rename_i n hn
      exact ⟨o, n, ho, hn, accepted_declaration_compatible_partial _ n.name rfl himp o n h⟩

/-- Enum raw values keep their meaning across an accepted comparison: the case at every old index is
unchanged. -/
theorem enum_case_stable (c : Cmp) (old new : Decl) (h : checkDecl c old new = [])
    (i : Nat) (hi : i < old.cases.length) : new.cases[i]? = old.cases[i]? := by
  have hp := checkEnumCases_prefix _ _ (checkDecl_nil c old new h).cases
  obtain ⟨t, ht⟩ := hp
  rw [← ht, List.getElem?_append_left hi]

/-- A nested declaration that is not interface-kinded may only go missing when named by a
`#removedType` pragma of the new containing declaration; interfaces never. -/
theorem missing_declaration_needs_pragma (c : Cmp) (old new : Decl) (h : checkDecl c old new = [])
    (d : Decl) (hd : d ∈ (loops c old new).2.2.2.map (·.2)) :
    d.name ∈ removedNames new.pragmas ∧ d.kind.isInterface = false := by
  have hm := (checkDecl_nil c old new h).missing d hd
  unfold checkRemoval at hm
  split at hm
  · rename_i hc
    simpa using hc
  · simp at hm

/-! ### non-vacuity -/

private def sS : Decl := .mk .structure "S" [⟨"a", .nominal ⟨"Int", []⟩⟩, ⟨"b", .nominal ⟨"C", ["T"]⟩⟩] [⟨"I", []⟩] [] [] none [] [] []
private def sS' : Decl := .mk .structure "S" [⟨"b", .nominal ⟨"T", []⟩⟩] [⟨"C", ["I"]⟩, ⟨"J", []⟩] [] [] none [] [] []
private def eE : Decl := .mk .enum "E" [] [⟨"UInt8", []⟩] ["a", "b"] [] none [] [] []
private def eE' : Decl := .mk .enum "E" [] [⟨"UInt8", []⟩] ["a", "b", "c"] [] none [] [] []
private def cOld : Decl := .mk .contract "C" [] [] [] [] none [sS, eE] [] []
private def cNew : Decl := .mk .contract "C" [] [] [] [] none [eE', sS'] [] []
private def cBad : Decl := .mk .contract "C" [] [] [] [] none [.mk .enum "E" [] [⟨"UInt8", []⟩] ["b", "a"] [] none [] [] [], sS] [] []

example : validate [] ⟨[], some cOld⟩ ⟨[], some cNew⟩ = [] := by decide
example : validate [] ⟨[], some cOld⟩ ⟨[], some cBad⟩ = [.enumCaseMismatch, .enumCaseMismatch] := by decide
example : typeEq ⟨some "C", [], []⟩ (.nominal ⟨"C", ["T"]⟩) (.optional (.nominal ⟨"T", []⟩)) = some .type := by decide

end Verif.Properties.C27
