import Verif.Proofs.UpdatePaths
/-!
# C27 — accepted contract updates keep existing stored data usable

Model: `Verif.Model.Update` (port of `stdlib/contract_update_validation.go` + `type-comparator.go`),
spec: `Verif.Spec.Update` (canonical type names, declaration environment, stored values and their
typing).  `validate an old new = []` is "the update is accepted".

The main theorem is `values_stay_typed_partial`: if the validator accepts, every stored value (arbitrarily
nested composites, enums, interface-typed positions, optionals, arrays, dictionaries) that is well typed
under the old declarations and whose composite / enum types are still declared is well typed under the
new ones.  Full-strength statement (DESIGN §6 C27):

  values_stay_typed : validate an old new = [] → hasType ⟨oldRoot, oldImports⟩ v t →
      pathsLive newRoot v → hasType ⟨newRoot, newImports⟩ v t

`_partial` because of two hypotheses that the validator itself does not establish: the import maps of
both versions agree on every identifier (`himp`; the comparator only compares the locations of the
identifiers it meets), and the new program declares no two nested types with the same identifier at
one level (`NoDupNames`; the checker rejects such a program before the validator runs).
-/
namespace Verif.Properties.C27
open Verif.Model.Update Verif.Spec.Update Verif.Proofs.Update

/-- The type comparator only identifies type ASTs that denote the same type: if `CheckEqual` reports no
error for the declared types of a field in the old and the new program, both denote the same semantic
type (local types up to qualification by the contract's own name, imported types by import location).
Partial: the two import maps are assumed to agree. -/
theorem comparator_sound_partial (c : Cmp) (R : String) (hroot : c.root = some R)
    (himp : ∀ x, lookupLast x c.expImports = lookupLast x c.foundImports)
    (t t' : TypeAst) (h : typeEq c t t' = none) :
    denote ⟨R, c.expImports⟩ t = denote ⟨R, c.foundImports⟩ t' :=
  typeEq_denote c R hroot himp t t' h

/-- For every pair (old declaration, new declaration) on which `checkDeclarationUpdatability` reports
nothing: same kind and name; every field the new declaration lists was listed by the old one with a
type of the same denotation; the old enum cases are a prefix of the new ones (raw values keep their
case); every conformance of an old composite has a counterpart of the same denotation. -/
theorem accepted_declaration_compatible_partial (c : Cmp) (R : String) (hroot : c.root = some R)
    (himp : ∀ x, lookupLast x c.expImports = lookupLast x c.foundImports)
    (old new : Decl) (h : checkDecl c old new = []) :
    NodeCompat ⟨R, c.expImports⟩ ⟨R, c.foundImports⟩ old new :=
  nodeCompat_of_ok c R hroot himp old new (checkDecl_nil c old new h)

/-- An accepted update has a root declaration on both sides and the two are compatible. -/
theorem accepted_root_compatible_partial (an : AccountNames) (old new : Program)
    (himp : ∀ x, lookupLast x (collectImports an old) = lookupLast x (collectImports an new))
    (h : validate an old new = []) :
    ∃ o n, old.root = some o ∧ new.root = some n ∧
      NodeCompat ⟨n.name, collectImports an old⟩ ⟨n.name, collectImports an new⟩ o n := by
  unfold validate at h
  split at h
  · simp at h
  · rename_i o ho
    split at h
    · simp at h
    · rename_i n hn
      exact ⟨o, n, ho, hn, accepted_declaration_compatible_partial _ n.name rfl himp o n h⟩

/-- Enum raw values keep their meaning across an accepted comparison: the case at every old index is
unchanged. -/
theorem enum_case_stable (c : Cmp) (old new : Decl) (h : checkDecl c old new = [])
    (i : Nat) (hi : i < old.cases.length) : new.cases[i]? = old.cases[i]? := by
  have hp := checkEnumCases_prefix _ _ (checkDecl_nil c old new h).cases
  obtain ⟨t, ht⟩ := hp
  rw [← ht, List.getElem?_append_left hi]

/-- A nested declaration that is not interface-kinded may only go missing when named by a
`#removedType` pragma of the new containing declaration; interfaces never. -/
theorem missing_declaration_needs_pragma (c : Cmp) (old new : Decl) (h : checkDecl c old new = [])
    (d : Decl) (hd : d ∈ (loops c old new).2.2.2.map (·.2)) :
    d.name ∈ removedNames new.pragmas ∧ d.kind.isInterface = false := by
  have hm := (checkDecl_nil c old new h).missing d hd
  unfold checkRemoval at hm
  split at hm
  · rename_i hc
    simpa using hc
  · simp at hm

/-- Every pair of declarations reached by the same path of identifiers in the old and the new root is
compatible (induction over the path, through the three loops of `checkNestedDeclarations`). -/
theorem accepted_tree_compatible_partial (an : AccountNames) (old new : Program) (o n : Decl)
    (ho : old.root = some o) (hn : new.root = some n)
    (himp : ∀ x, lookupLast x (collectImports an old) = lookupLast x (collectImports an new))
    (hnd : NoDupNames n) (h : validate an old new = []) :
    PathCompat ⟨n.name, collectImports an old⟩ ⟨n.name, collectImports an new⟩ o n := by
  simp only [validate, ho, hn] at h
  exact pathCompat_of_ok _ n.name rfl himp o n h hnd

/-- An interface declared in the old contract is still declared after an accepted update (a
`#removedType` pragma does not excuse it). -/
theorem interface_never_removed (an : AccountNames) (old new : Program) (o n : Decl)
    (ho : old.root = some o) (hn : new.root = some n) (h : validate an old new = [])
    (x : String) (j : Decl) (hj : child o x = some j) (hk : j.kind.isInterface = true) :
    ∃ j', child n x = some j' := by
  simp only [validate, ho, hn] at h
  exact iface_live _ o n (checkDecl_nil _ o n h) x j hj hk

/-- A nested declaration (at any depth) disappears only when it, or a declaration containing it, is named
by a `#removedType` pragma of the new containing declaration: this is what the hypothesis `pathsLive` of
`values_stay_typed_partial` excludes, and nothing else. -/
theorem live_unless_removed (an : AccountNames) (old new : Program) (o n : Decl)
    (ho : old.root = some o) (hn : new.root = some n) (hnd : NoDupNames n) (h : validate an old new = [])
    (p : List String) (od : Decl) (hp : lookupPath o p = some od) (hnr : NotRemoved n p) :
    lookupPath n p ≠ none := by
  simp only [validate, ho, hn] at h
  obtain ⟨nd, hnd'⟩ := live_of_notRemoved _ p o n h hnd od hp hnr
  simp [hnd']

/-- **Stored values stay typed.**  If the update is accepted, a value well typed under the old version
— composites with the fields their declaration lists, enums with a raw value in range, values at
intersection types `{I, J}` by (transitive) conformance, optionals, arrays, dictionaries of them — whose
composite / enum types are still declared (`pathsLive`: not removed by a `#removedType` pragma) is well
typed, at the same type, under the new version: every field the new declaration lists is present with a
value of the declared type, the raw value is still in range, every interface conformed to (directly or
through interfaces) is still conformed to.  Partial: `himp`, `hnd` (see the header). -/
theorem values_stay_typed_partial (an : AccountNames) (old new : Program) (o n : Decl)
    (ho : old.root = some o) (hn : new.root = some n)
    (himp : ∀ x, lookupLast x (collectImports an old) = lookupLast x (collectImports an new))
    (hnd : NoDupNames n) (h : validate an old new = [])
    (v : Val) (t : CTy) (hv : hasType ⟨o, collectImports an old⟩ v t) (hl : pathsLive n v) :
    hasType ⟨n, collectImports an new⟩ v t := by
  have hpc := accepted_tree_compatible_partial an old new o n ho hn himp hnd h
  have hname : o.name = n.name := (hpc [] o n rfl rfl).name
  refine hasType_pres ⟨o, collectImports an old⟩ ⟨n, collectImports an new⟩ ?_ ?_ v t hv hl
  · simpa [Env.scope, hname] using hpc
  · intro x j hj hk
    exact interface_never_removed an old new o n ho hn h x j hj hk

/-- Enum values keep their meaning: after an accepted update the raw value of every case of a still
declared enum (at any path) denotes the same case. -/
theorem enum_meaning_stable_partial (an : AccountNames) (old new : Program) (o n : Decl)
    (ho : old.root = some o) (hn : new.root = some n)
    (himp : ∀ x, lookupLast x (collectImports an old) = lookupLast x (collectImports an new))
    (hnd : NoDupNames n) (h : validate an old new = [])
    (p : List String) (raw : Nat) (name : String)
    (hc : enumCase ⟨o, collectImports an old⟩ p raw = some name) (hlive : lookupPath n p ≠ none) :
    enumCase ⟨n, collectImports an new⟩ p raw = some name := by
  have hpc := accepted_tree_compatible_partial an old new o n ho hn himp hnd h
  unfold enumCase at hc ⊢
  simp only at hc ⊢
  cases hod : lookupPath o p with
  | none => simp [hod] at hc
  | some od =>
    cases hndl : lookupPath n p with
    | none => exact absurd hndl hlive
    | some nd =>
      simp only [hod] at hc
      obtain ⟨t, ht⟩ := (hpc p od nd hod hndl).cases
      have hlt : raw < od.cases.length := by
        rcases Nat.lt_or_ge raw od.cases.length with hlt | hge
        · exact hlt
        · rw [List.getElem?_eq_none hge] at hc; simp at hc
      simp only [← ht, List.getElem?_append_left hlt]
      exact hc

/-! ### non-vacuity -/

private def iI : Decl := .mk .structureInterface "I" [] [] [] [] none [] [] []
private def iJ : Decl := .mk .structureInterface "J" [] [⟨"I", []⟩] [] [] none [] [] []
private def iJ' : Decl := .mk .structureInterface "J" [] [] [] [] none [] [] []
private def sS : Decl := .mk .structure "S" [⟨"a", .nominal ⟨"Int", []⟩⟩, ⟨"b", .nominal ⟨"C", ["T"]⟩⟩] [⟨"J", []⟩] [] [] none [] [] []
private def sS' : Decl := .mk .structure "S" [⟨"b", .nominal ⟨"T", []⟩⟩] [⟨"C", ["J"]⟩, ⟨"K", []⟩] [] [] none [] [] []
private def eE : Decl := .mk .enum "E" [] [⟨"UInt8", []⟩] ["a", "b"] [] none [] [] []
private def eE' : Decl := .mk .enum "E" [] [⟨"UInt8", []⟩] ["a", "b", "c"] [] none [] [] []
private def tT : Decl := .mk .structure "T" [⟨"e", .nominal ⟨"E", []⟩⟩] [] [] [] none [] [] []
private def cOld : Decl := .mk .contract "C" [] [] [] [] none [sS, eE, tT] [] [iI, iJ]
private def cNew : Decl := .mk .contract "C" [] [] [] [] none [eE', tT, sS'] [] [iJ, iI]
private def cBad : Decl := .mk .contract "C" [] [] [] [] none [.mk .enum "E" [] [⟨"UInt8", []⟩] ["b", "a"] [] none [] [] [], sS, tT] [] [iI, iJ]
/-- the interface `J` drops its conformance to `I` (accepted before fix 5d4d335 of /repo) -/
private def cBadIface : Decl := .mk .contract "C" [] [] [] [] none [sS, eE, tT] [] [iI, iJ']

example : validate [] ⟨[], some cOld⟩ ⟨[], some cNew⟩ = [] := by decide
example : validate [] ⟨[], some cOld⟩ ⟨[], some cBad⟩ = [.enumCaseMismatch, .enumCaseMismatch] := by decide
example : validate [] ⟨[], some cOld⟩ ⟨[], some cBadIface⟩ = [.conformanceMismatch] := by decide
example : typeEq ⟨some "C", [], []⟩ (.nominal ⟨"C", ["T"]⟩) (.optional (.nominal ⟨"T", []⟩)) = some .type := by decide

/-- a stored `[{I}]` holding `S(a: …, b: T(e: E.b))`, where `S` conforms to `I` only through `J` -/
private def stored : Val := .arr [.comp ["S"] ["a", "b"] [.prim "Int", .comp ["T"] ["e"] [.enumv ["E"] 1]]]

example : hasType ⟨cOld, []⟩ stored (.varSized (.inter [.loc ["I"]])) := by
  simp only [stored, hasType, allTyped]
  refine Or.inl ⟨_, rfl, ⟨sS, by first | rfl | decide, by first | rfl | decide, ?_, Or.inr ⟨_, rfl, by first | rfl | decide, ?_⟩⟩, trivial⟩
  · intro f hf
    have : f = ⟨"a", .nominal ⟨"Int", []⟩⟩ ∨ f = ⟨"b", .nominal ⟨"C", ["T"]⟩⟩ := by simpa [sS, Decl.fields] using hf
    rcases this with rfl | rfl
    · exact Or.inl ⟨rfl, by simp only [hasType]; rfl⟩
    · refine Or.inr (Or.inl ⟨rfl, ?_⟩)
      simp only [hasType]
      refine ⟨tT, by first | rfl | decide, by first | rfl | decide, ?_, Or.inl (by first | rfl | decide)⟩
      intro g hg
      have : g = ⟨"e", .nominal ⟨"E", []⟩⟩ := by simpa [tT, Decl.fields] using hg
      subst this
      refine Or.inl ⟨rfl, ?_⟩
      simp only [hasType]
      exact ⟨eE, by first | rfl | decide, by first | rfl | decide, by first | rfl | decide, by first | rfl | decide⟩
  · intro i hi
    have : i = .loc ["I"] := by simpa using hi
    subst this
    exact .via ⟨"J", []⟩ "J" iJ (by first | rfl | decide) (by first | rfl | decide) (by first | rfl | decide) (by first | rfl | decide)
      (.direct ⟨"I", []⟩ (by first | rfl | decide) (by first | rfl | decide))

example : pathsLive cNew stored := by
  simp only [stored, pathsLive, allLive]
  exact ⟨⟨by decide, ⟨trivial, ⟨by decide, ⟨by decide, trivial⟩⟩, trivial⟩⟩, trivial⟩

example : NoDupNames cNew := by
  intro p d hp
  match p, hp with
  | [], hp => simp [lookupPath] at hp; subst hp; decide
  | [x], hp =>
    obtain ⟨c, hc, hp'⟩ := lookupPath_cons hp
    simp [lookupPath] at hp'; subst hp'
    have := (child_some hc).1
    simp [cNew, Decl.composites, Decl.attachments, Decl.interfaces] at this
    rcases this with rfl | rfl | rfl | rfl | rfl <;> decide
  | x :: y :: q, hp =>
    obtain ⟨c, hc, hp'⟩ := lookupPath_cons hp
    obtain ⟨c', hc', _⟩ := lookupPath_cons hp'
    have := (child_some hc).1
    simp [cNew, Decl.composites, Decl.attachments, Decl.interfaces] at this
    have h2 := (child_some hc').1
    rcases this with rfl | rfl | rfl | rfl | rfl <;> simp [eE', tT, sS', iJ, iI, Decl.composites, Decl.attachments, Decl.interfaces] at h2

example : enumCase ⟨cOld, []⟩ ["E"] 1 = some "b" := by decide
example : NotRemoved cNew ["S"] := ⟨by decide, fun _ _ => trivial⟩

end Verif.Properties.C27
