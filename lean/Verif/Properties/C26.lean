import Verif.Proofs.Contracts
/-!
# C26 — contract deployment, update and removal follow the lifecycle model

Theorems about the spec machine `Verif.Model.Contracts` (for every state / every history, no bound).
`add_remove_same_tx`: adding and removing a contract in one transaction commits with nothing deployed
(the behaviour of /repo since the `fix:` commit for the former known finding
`add-remove-same-tx-unreferenced-slabs`).
-/
namespace Verif.Properties.C26
open Verif.Model.Contracts Verif.Proofs.Contracts

/-- `add` fails for a name that already has code, whatever the source. -/
theorem add_existing_fails (F : Facts) (t : TxState) (a n s : Nat) (h : (t.store.find (a, n)).isSome) :
    step F t (.add a n s) = .abort .default := by
  simp [step, h]

/-- `add` also fails after a removal of the same name recorded in the same transaction. -/
theorem add_after_recorded_update_fails (F : Facts) (t : TxState) (a n s : Nat) (h : (a, n) ∈ t.recorded) :
    step F t (.add a n s) = .abort .default := by
  simp [step, h]

/-- `update` fails for a name without code, whatever the source. -/
theorem update_missing_fails (F : Facts) (t : TxState) (a n s : Nat) (h : t.store.find (a, n) = none) :
    step F t (.update a n s) = .abort .default := by
  simp [step, doUpdate, h]

/-- `update` succeeds exactly when the name has code, the source is valid, declares the name and the
validator accepts the pair; it then replaces the code and nothing else. -/
theorem update_iff (F : Facts) (t : TxState) (a n s : Nat) (t' : TxState) (o : Obs) :
    step F t (.update a n s) = .ok (t', o) ↔
      ∃ e, t.store.find (a, n) = some e ∧ F.valid s = true ∧ F.nameOk s = true ∧ F.compat e.code s = true ∧
        o = .done ∧ t' = { t with store := t.store.set (a, n) { e with code := s } } := by
  simp only [step, doUpdate]
  cases hf : t.store.find (a, n) with
  | none => simp
  | some e =>
    simp only [Option.some.injEq, exists_eq_left']
    by_cases hv : F.valid s = true
    · by_cases hn : F.nameOk s = true
      · by_cases hc : F.compat e.code s = true
        · simp only [hv, hn, hc, Bool.not_true, Bool.false_eq_true, if_false, true_and]
          constructor
          · intro h; injection h with h; injection h with h1 h2; exact ⟨h2.symm, h1.symm⟩
          · rintro ⟨rfl, rfl⟩; rfl
        · simp [hv, hn, hc]
      · simp [hv, hn]
    · simp [hv]

/-- `tryUpdate` never aborts the transaction. -/
theorem tryupdate_never_aborts (F : Facts) (t : TxState) (a n s : Nat) :
    ∃ t' b, step F t (.tryUpdate a n s) = .ok (t', .bool b) := by
  simp only [step]
  split
  · exact ⟨_, true, rfl⟩
  · exact ⟨_, false, rfl⟩

/-- A failed `tryUpdate` changes nothing (code, values, recorded updates). -/
theorem tryupdate_failure_noop (F : Facts) (t t' : TxState) (a n s : Nat)
    (h : step F t (.tryUpdate a n s) = .ok (t', .bool false)) : t' = t := by
  simp only [step] at h
  split at h
  · simp at h
  · simp at h; exact h.symm

/-- `tryUpdate` reports success exactly when `update` would have succeeded, with the same effect. -/
theorem tryupdate_success_is_update (F : Facts) (t t' : TxState) (a n s : Nat) :
    step F t (.tryUpdate a n s) = .ok (t', .bool true) ↔ step F t (.update a n s) = .ok (t', .done) := by
  simp only [step]
  split <;> simp

/-- `remove` is refused for a contract whose code declares enums … -/
theorem remove_enum_refused (F : Facts) (t : TxState) (a n : Nat) (e : Entry)
    (h : t.store.find (a, n) = some e) (he : F.hasEnum e.code = true) :
    step F t (.remove a n) = .abort .removal := by
  simp [step, h, he]

/-- … and an aborted transaction leaves the committed state as it was (so the code stays deployed). -/
theorem aborted_invisible (F : Facts) (s : Store) (tx : List Op) (h : (runTx F s tx).2.outcome ≠ none) :
    (runTx F s tx).1 = s :=
  runTx_abort F s tx h

/-- Visibility: running `h1 ++ h2` is running `h2` from the state `h1` committed; the observations of
`h2` depend on `h1` only through that state (every later transaction sees exactly the committed changes). -/
theorem visibility (F : Facts) (s : Store) (h1 h2 : List (List Op)) :
    runHist F s (h1 ++ h2) =
      ((runHist F (runHist F s h1).1 h2).1, (runHist F s h1).2 ++ (runHist F (runHist F s h1).1 h2).2) :=
  runHist_append F h1 h2 s

/-- An aborted transaction can be erased from any history without changing any later observation. -/
theorem abort_erasable (F : Facts) (s : Store) (h1 h2 : List (List Op)) (tx : List Op)
    (h : (runTx F (runHist F s h1).1 tx).2.outcome ≠ none) :
    (runHist F s (h1 ++ tx :: h2)).1 = (runHist F s (h1 ++ h2)).1 ∧
    (runHist F (runHist F s h1).1 (tx :: h2)).2.tail = (runHist F (runHist F s h1).1 h2).2 := by
  have ha := runTx_abort F _ tx h
  rw [runHist_append, runHist_append]
  simp only [runHist, ha, List.tail_cons, and_self]

/-- `names` lists exactly the names that have code in the account, each once, in every state reachable
from the empty state. -/
theorem names_exact (F : Facts) (hist : List (List Op)) (a : Nat) :
    let s := (runHist F [] hist).1
    (∀ n, n ∈ s.names a ↔ (s.find (a, n)).isSome) ∧ (s.names a).Nodup := by
  intro s
  have hn : NodupKeys s := runHist_nodup F hist [] (by simp [NodupKeys])
  refine ⟨fun n => ?_, nodup_names s a hn⟩
  rw [mem_names]
  constructor
  · rintro ⟨e, hm⟩
    simp [mem_find_of_nodup s hn _ _ hm]
  · intro h
    cases hf : s.find (a, n) with
    | none => simp [hf] at h
    | some e => exact ⟨e, find_some_mem s _ _ hf⟩

/-- `get` and `borrow` read the current view: `get` returns the deployed source, `borrow` a value only
when one is stored (never for a contract interface). -/
theorem get_borrow_semantics (F : Facts) (t : TxState) (a n : Nat) :
    step F t (.get a n) = .ok (t, .code ((t.store.find (a, n)).map (·.code))) ∧
    (t.store.find (a, n) = none → step F t (.borrow a n) = .ok (t, .value none)) := by
  refine ⟨rfl, fun h => ?_⟩
  simp [step, h]

/-! ### the defect of the code that exists, as the machine models it -/

private def F0 : Facts :=
  { valid := fun _ => true, nameOk := fun _ => true, hasEnum := fun _ => false, isIface := fun _ => false,
    initFails := fun _ => false, compat := fun _ _ => true }

/-- Adding a contract and removing it again in the same transaction succeeds and leaves nothing deployed
under that name, whatever else the account holds (before the fix of /repo the real transaction failed at
commit with the internal `UnreferencedRootSlabsError`: known finding
`add-remove-same-tx-unreferenced-slabs`, now fixed). -/
theorem add_remove_same_tx (F : Facts) (s : Store) (a n src : Nat) (hfree : s.find (a, n) = none)
    (hv : F.valid src = true) (hn : F.nameOk src = true) (hi : F.isIface src = true ∨ F.initFails src = false)
    (he : F.hasEnum src = false) :
    (runTx F s [.add a n src, .remove a n]).2 = ⟨[.done, .bool true], none⟩ ∧
    (runTx F s [.add a n src, .remove a n]).1.find (a, n) = none := by
  have hfind : ∀ e, (s.set (a, n) e).find (a, n) = some e := by
    intro e; simp [Store.set, Store.find]
  have hcond : (!F.isIface src && F.initFails src) = false := by
    rcases hi with hi | hi <;> simp [hi]
  have herase : ((s.set (a, n) ⟨src, !F.isIface src⟩).erase (a, n)).find (a, n) = none := by
    cases hf : ((s.set (a, n) ⟨src, !F.isIface src⟩).erase (a, n)).find (a, n) with
    | none => rfl
    | some e =>
      have hm := find_some_mem _ _ _ hf
      have := not_mem_keys_erase (s.set (a, n) ⟨src, !F.isIface src⟩) (a, n)
      exact absurd (List.mem_map.2 ⟨_, hm, rfl⟩) this
  simp [runTx, runOps, step, hfree, hv, hn, hcond, hfind, he, herase]

/-- A transaction aborts only at one of its operations: when every operation succeeds the transaction
commits (no failure is raised at commit). -/
theorem commit_never_aborts (F : Facts) :
    ∀ (ops : List Op) (t : TxState) (acc : List Obs),
      (∀ e, (runOps F t ops acc).2.outcome = some e →
        ∃ (pre : List Op) (op : Op) (post : List Op) (t' : TxState), ops = pre ++ op :: post ∧ step F t' op = .abort e)
  | [], t, acc, e, h => by simp [runOps] at h
  | op :: ops, t, acc, e, h => by
    simp only [runOps] at h
    split at h
    · rename_i t' o hs
      obtain ⟨pre, op', post, t'', heq, hst⟩ := commit_never_aborts F ops t' _ e h
      exact ⟨op :: pre, op', post, t'', by simp [heq], hst⟩
    · rename_i e' hs
      simp at h
      subst h
      exact ⟨[], op, ops, t, rfl, hs⟩

/-! ### non-vacuity -/

example : runTx F0 [] [.add 0 0 0, .remove 0 0] = ([], ⟨[.done, .bool true], none⟩) := by decide
example : (runHist F0 [] [[.add 0 0 0], [.get 0 0, .names 0]]).2 =
    [⟨[.done], none⟩, ⟨[.code (some 0), .names [0]], none⟩] := by decide
example : step { F0 with hasEnum := fun _ => true } ⟨[((0, 0), ⟨5, true⟩)], [], []⟩ (.remove 0 0) = .abort .removal := by
  rfl
example : ∃ t', step { F0 with compat := fun _ _ => false } ⟨[((0, 0), ⟨1, true⟩)], [], []⟩ (.tryUpdate 0 0 2) =
    .ok (t', .bool false) := ⟨_, rfl⟩

end Verif.Properties.C26
