import Verif.Proofs.Peephole
/-!
# C34 — The bytecode VM is observationally equivalent to the interpreter; peephole optimisation
does not change outcomes

Peephole part: theorems about `Verif.Model.Lang.VM.Peephole`, a line-by-line port of
`bbq/compiler/peephole_pass.go` (`OptimizeInstructions`, `patchJumps`) and `peephole_patterns.go`,
tied to /repo by the stream `peep` on the real compiler's instruction lists.
(The VM-simulation part is added below when present.)
-/
namespace Verif.Properties.C34
open Verif.Model.Lang.VM.Peephole Verif.Proofs.Peephole

/-- **peephole_jumps**: for every pattern table without jump opcodes and *every* instruction list on
which the pass does not panic, the input splits (order-preserving) into copied instructions and
rewritten windows such that no offset of a rewritten window — its start included — is a jump target,
every jump survives as a copied instruction, and every jump with target `t ≤ len(code)` is retargeted
to `image segs t`, the output offset of the unit that starts at `t` (the image of its original target). -/
theorem peephole_jumps (pats : List Pattern) (hnj : noJumpInPatterns pats = true)
    (code opt : List PInstr) (h : optimizeWith pats code = .ok opt) :
    ∃ segs : List Seg,
      srcOf segs = code ∧
      Legit pats (collectJumpTargets code) 0 segs ∧
      opt = segs.flatMap (Seg.outPatched (retarget (shiftsOf 0 segs))) ∧
      (∀ x ∈ code, isJump x = true → Seg.copy x ∈ segs) ∧
      (∀ x ∈ code, isJump x = true → x.target ≤ code.length →
        image segs x.target = some (retarget (shiftsOf 0 segs) x).target) :=
  Verif.Proofs.Peephole.peephole_jumps pats hnj code opt h

/-- the same for the real pattern table `AllPatterns` (the side condition is decided) -/
theorem peephole_jumps_real (code opt : List PInstr) (h : optimize code = .ok opt) :
    ∃ segs : List Seg,
      srcOf segs = code ∧
      Legit allPatterns (collectJumpTargets code) 0 segs ∧
      opt = segs.flatMap (Seg.outPatched (retarget (shiftsOf 0 segs))) ∧
      (∀ x ∈ code, isJump x = true → Seg.copy x ∈ segs) ∧
      (∀ x ∈ code, isJump x = true → x.target ≤ code.length →
        image segs x.target = some (retarget (shiftsOf 0 segs) x).target) :=
  Verif.Proofs.Peephole.peephole_jumps_real code opt h

/-- where a retargeted jump lands: the optimised code from the new target on is exactly the
translation of the original code from the old target on -/
theorem peephole_jumps_land (pats : List Pattern) (hnj : noJumpInPatterns pats = true)
    (code opt : List PInstr) (h : optimizeWith pats code = .ok opt) :
    ∃ segs : List Seg, srcOf segs = code ∧
      opt = segs.flatMap (Seg.outPatched (retarget (shiftsOf 0 segs))) ∧
      ∀ x ∈ code, isJump x = true → x.target ≤ code.length →
        ∃ a b, segs = a ++ b ∧ code.drop x.target = srcOf b ∧
          opt.drop (retarget (shiftsOf 0 segs) x).target =
            b.flatMap (Seg.outPatched (retarget (shiftsOf 0 segs))) :=
  Verif.Proofs.Peephole.peephole_jumps_land pats hnj code opt h

-- non-vacuity: a jump over two rewritten windows, a window at a jump target left alone
example : optimize exCode = .ok exOpt := by rfl

end Verif.Properties.C34
