import Verif.Proofs.Peephole
import Verif.Proofs.LangVM
import Verif.Proofs.LangVMErr
import Verif.Proofs.LangVM4
import Verif.Proofs.LangVM5
import Verif.Proofs.LangCallDepth
/-!
# C34 — The bytecode VM is observationally equivalent to the interpreter; peephole optimisation
does not change outcomes

Peephole part: theorems about `Verif.Model.Lang.VM.Peephole`, a line-by-line port of
`bbq/compiler/peephole_pass.go` (`OptimizeInstructions`, `patchJumps`) and `peephole_patterns.go`,
tied to /repo by the stream `peep` on the real compiler's instruction lists.
(The VM-simulation part is added below when present.)
-/
namespace Verif.Properties.C34
open Verif.Model.Lang.VM.Peephole Verif.Proofs.Peephole

/-- **peephole_jumps**: for every pattern table without jump opcodes and *every* instruction list on
which the pass does not panic, the input splits (order-preserving) into copied instructions and
rewritten windows such that no offset of a rewritten window — its start included — is a jump target,
every jump survives as a copied instruction, and every jump with target `t ≤ len(code)` is retargeted
to `image segs t`, the output offset of the unit that starts at `t` (the image of its original target). -/
theorem peephole_jumps (pats : List Pattern) (hnj : noJumpInPatterns pats = true)
    (code opt : List PInstr) (h : optimizeWith pats code = .ok opt) :
    ∃ segs : List Seg,
      srcOf segs = code ∧
      Legit pats (collectJumpTargets code) 0 segs ∧
      opt = segs.flatMap (Seg.outPatched (retarget (shiftsOf 0 segs))) ∧
      (∀ x ∈ code, isJump x = true → Seg.copy x ∈ segs) ∧
      (∀ x ∈ code, isJump x = true → x.target ≤ code.length →
        image segs x.target = some (retarget (shiftsOf 0 segs) x).target) :=
  Verif.Proofs.Peephole.peephole_jumps pats hnj code opt h

/-- the same for the real pattern table `AllPatterns` (the side condition is decided) -/
theorem peephole_jumps_real (code opt : List PInstr) (h : optimize code = .ok opt) :
    ∃ segs : List Seg,
      srcOf segs = code ∧
      Legit allPatterns (collectJumpTargets code) 0 segs ∧
      opt = segs.flatMap (Seg.outPatched (retarget (shiftsOf 0 segs))) ∧
      (∀ x ∈ code, isJump x = true → Seg.copy x ∈ segs) ∧
      (∀ x ∈ code, isJump x = true → x.target ≤ code.length →
        image segs x.target = some (retarget (shiftsOf 0 segs) x).target) :=
  Verif.Proofs.Peephole.peephole_jumps_real code opt h

/-- where a retargeted jump lands: the optimised code from the new target on is exactly the
translation of the original code from the old target on -/
theorem peephole_jumps_land (pats : List Pattern) (hnj : noJumpInPatterns pats = true)
    (code opt : List PInstr) (h : optimizeWith pats code = .ok opt) :
    ∃ segs : List Seg, srcOf segs = code ∧
      opt = segs.flatMap (Seg.outPatched (retarget (shiftsOf 0 segs))) ∧
      ∀ x ∈ code, isJump x = true → x.target ≤ code.length →
        ∃ a b, segs = a ++ b ∧ code.drop x.target = srcOf b ∧
          opt.drop (retarget (shiftsOf 0 segs) x).target =
            b.flatMap (Seg.outPatched (retarget (shiftsOf 0 segs))) :=
  Verif.Proofs.Peephole.peephole_jumps_land pats hnj code opt h

/-! ## VM simulation (model compiler `Verif.Model.Lang.VM.compileExpr`, machine `VM.step`)

Full statement (DESIGN §6 C34, not proved): for every program `p` of layers L0–L2,
`runVM (compile p) = run p` (value, error kind, trace), i.e. for all fuel `n` with
`run p n ≠ outOfFuel` there is `m` with `runVM (compile p) m = run p n`.

Proved, as a chain of `_partial` theorems (each states what it still lacks):
* `simulation_expr_partial` / `simulation_expr_err_partial`: call-free expressions of L0 — literals,
  variables, unary and strict binary operators (operand order!), `&&`, `||` (short-circuit jumps), the
  conditional operator, force-unwrap: same value, resp. same error class and kind, no log line.
* `simulation_stmt_partial` / `simulation_body_partial`: call-free statements — `let`/`var`, assignment
  to a variable, `if`/`else`, `while` with `break`/`continue`, `return`, expression statements: same
  control flow, same value, locals agree with the environment; whole activation on `runFrames`.
* `simulation_call_partial`: whole programs with invocations in statement position (built-in `log`,
  `assert`; user functions with at most one parameter; recursion): `runVM (compile p)` yields the same
  value and the same log trace as `run p`.
Missing: `??` (the model VM, like the real VM, returns a non-boxed non-nil left value while the
interpreter evaluates the right operand — known finding `conditional-result-not-boxed` — so the
statement needs the typing invariant "the left operand is nil or boxed"); invocations nested inside
expressions; error and out-of-fuel outcomes beyond call-free expressions; functions with several
parameters; assignment to fields / elements, swap; layers L1/L2.  These parts of the model compiler
and machine are exercised only by the stream `vmeq` (model VM vs real VM vs interpreter on every
generated L0 program). -/

open Verif.Model.Lang Verif.Model.Lang.VM in
/-- **simulation_expr_partial**: if the evaluator yields the value `v` for a call-free L0 expression
`e` in state `s`, then the code compiled for `e` under any scope that agrees with `s`, placed
anywhere (`pre ++ c ++ post`), runs on the machine from its first instruction to just behind its last
one, by steps that neither log nor fail, and leaves exactly `v` pushed on the operand stack. -/
theorem simulation_expr_partial (p : Program) (tbl : Table) (n : Nat) (e : Expr) (s : State) (v : Value)
    (hnc : noCall e = true) (h : (eval p n e s).out = .ok v)
    (sc : Scope) (c : List Instr) (hc : compileExpr sc e = some c)
    (locals : Locals) (hag : Agree sc s.env locals)
    (pre post : List Instr) (stk : List Value) :
    Reach tbl (pre ++ c ++ post) locals (pre.length, stk) (pre.length + c.length, v :: stk) ∧
    (eval p n e s).st = s ∧ (eval p n e s).tr = [] :=
  ⟨sim_expr_ok p tbl n e s v hnc h sc c hc locals hag _ pre post stk rfl, eval_noCall_pure p n e s hnc⟩

open Verif.Model.Lang Verif.Model.Lang.VM in
-- non-vacuity: `(7 - 2) < 4 && !false` is call-free, compiles, and evaluates to `false`
example : noCall (.and (.binary .lt (.binary .sub (.intLit .int 7) (.intLit .int 2)) (.intLit .int 4)) (.unary .not (.boolLit false))) = true ∧
    (compileExpr [] (.and (.binary .lt (.binary .sub (.intLit .int 7) (.intLit .int 2)) (.intLit .int 4)) (.unary .not (.boolLit false)))).isSome = true := by
  decide

open Verif.Model.Lang Verif.Model.Lang.VM in
/-- **simulation_expr_err_partial**: the *error case* for call-free L0 expressions.  If the evaluator
stops `e` in state `s` with a user error of kind `k` (resp. an internal error of kind `k`), then the
code compiled for `e` under a scope that strongly agrees with `s` (`AgreeS`: every scope name is bound
in the environment and its slot holds the same value), placed anywhere (`pre ++ c ++ post`), runs from
its first instruction by steps that neither log nor fail (`Reach`) to a configuration whose next
`VM.step` stops the machine with `Step.userErr k` (resp. `Step.internalErr k`): same error class, same
kind; the evaluator's trace is empty and its state unchanged, like the machine's (no log step, locals
fixed by `Reach`).  The evaluator's out-of-fuel outcome is neither case.
Missing for `C34_simulation`: `??`, invocations, statements (see `simulation_stmt_partial`), L1/L2. -/
theorem simulation_expr_err_partial (p : Program) (tbl : Table) (n : Nat) (e : Expr) (s : State)
    (hnc : noCall e = true)
    (sc : Scope) (c : List Instr) (hc : compileExpr sc e = some c)
    (locals : Locals) (hag : AgreeS sc s.env locals)
    (pre post : List Instr) (stk : List Value) :
    (∀ k, (eval p n e s).out = .userErr k →
      ∃ pc' stk', Reach tbl (pre ++ c ++ post) locals (pre.length, stk) (pc', stk') ∧
        VM.step tbl ⟨pre ++ c ++ post, pc', stk', locals⟩ = Step.userErr k) ∧
    (∀ k, (eval p n e s).out = .internalErr k →
      ∃ pc' stk', Reach tbl (pre ++ c ++ post) locals (pre.length, stk) (pc', stk') ∧
        VM.step tbl ⟨pre ++ c ++ post, pc', stk', locals⟩ = Step.internalErr k) ∧
    (eval p n e s).st = s ∧ (eval p n e s).tr = [] :=
  ⟨fun k hk => sim_expr_err p tbl n e s _ hnc (by rw [hk]; rfl) sc c hc locals hag _ pre post stk rfl,
   fun k hk => sim_expr_err p tbl n e s _ hnc (by rw [hk]; rfl) sc c hc locals hag _ pre post stk rfl,
   eval_noCall_pure p n e s hnc⟩

open Verif.Model.Lang Verif.Model.Lang.VM in
-- non-vacuity: `true && (10 / x < 3)` with `x = 0` in slot 0 is call-free, compiles, the scope agrees
-- strongly with the state, and the evaluator stops with the user error `divZero`
example : noCall (.and (.boolLit true) (.binary .lt (.binary .div (.intLit .int 10) (.var "x")) (.intLit .int 3))) = true ∧
    (compileExpr [("x", 0)] (.and (.boolLit true) (.binary .lt (.binary .div (.intLit .int 10) (.var "x")) (.intLit .int 3)))).isSome = true ∧
    AgreeS [("x", 0)] [("x", .int .int 0)] [(0, .int .int 0)] ∧
    (match (eval ⟨[], []⟩ 9 (.and (.boolLit true) (.binary .lt (.binary .div (.intLit .int 10) (.var "x")) (.intLit .int 3)))
        ⟨[("x", .int .int 0)]⟩).out with | .userErr .divZero => true | _ => false) = true := by
  refine ⟨by decide, by decide, ?_, by decide⟩
  intro x i h
  simp only [Scope.slot, List.find?, Option.map_eq_some_iff] at h
  obtain ⟨a, ha, hi⟩ := h
  split at ha
  · next hx =>
    cases ha; cases hi
    have : "x" = x := by simpa using hx
    subst this
    exact ⟨.int .int 0, rfl, rfl⟩
  · simp at ha

open Verif.Model.Lang Verif.Model.Lang.VM in
/-- **simulation_stmt_partial**: the value case for *call-free statements of L0* — `let`/`var`
declaration, assignment to a variable, `if`/`else`, `while` (with `break` and `continue`, nested loops),
`return`, expression statement (`noCallS`).  Let the evaluator run `st` in state `s` to the control flow
`flow`, final state `s'` and trace `tr`; let `c` be the code compiled under `cs` (scope + next free slot),
with the loop placeholders of `break`/`continue` resolved to the absolute positions `brk` (at or behind
the end of `c`) and `cont` (at or before its start) as the enclosing `while` does (`resolve`; equal to the
compiler's `patchLoop`, lemma `patchLoop_eq`), placed anywhere (`pre ++ … ++ post`); let the locals be
related to the environment position by position (`Rel`: same names in the same order, each slot holds
the variable's value, slots below `cs.next`).  Then the machine (`Exec`: big-step closure of `VM.step`
with the emitted log lines; adequate for `runFrames` by `Exec.run`), started at the first instruction
with any operand stack `stk`, emits exactly `tr` and
* `flow = normal`: arrives just behind the last instruction, stack `stk`, with locals related to `s'.env`
  under the compiler's new scope `cs'` (declarations extend it);
* `flow = brk` / `cont`: arrives at `brk` / `cont`, stack `stk`, locals related to `s'.env`;
* `flow = ret v`: the activation returns `v`.
Missing for `C34_simulation`: the error case for statements (proved for expressions:
`simulation_expr_err_partial`), invocations (so every trace here is in fact empty; statement-position
invocations are added by `simulation_call_partial`), `??`, assignment to fields / elements, swap, L1/L2. -/
theorem simulation_stmt_partial (p : Program) (tbl : Table) (n : Nat) (retTy : Ty) (st : Stmt)
    (s s' : State) (flow : Flow) (tr : List String)
    (h : exec p n retTy st s = ⟨.ok flow, s', tr⟩) (hnc : noCallS st = true)
    (cs cs' : CState) (c : List Instr) (hc : compileStmt retTy cs st = some (c, cs'))
    (locals : Locals) (hrel : Rel locals cs.next cs.sc s.env)
    (pre post : List Instr) (stk : List Value) (brk cont : Nat)
    (hb : pre.length + c.length ≤ brk) (hcn : cont ≤ pre.length) :
    let code := pre ++ resolve brk cont pre.length c ++ post
    (flow = .normal → ∃ l', Exec tbl ⟨code, pre.length, stk, locals⟩ tr (.at ⟨code, pre.length + c.length, stk, l'⟩) ∧
        Rel l' cs'.next cs'.sc s'.env) ∧
    (flow = .brk → ∃ l' ext, Exec tbl ⟨code, pre.length, stk, locals⟩ tr (.at ⟨code, brk, stk, l'⟩) ∧
        Rel l' cs'.next (ext ++ cs.sc) s'.env) ∧
    (flow = .cont → ∃ l' ext, Exec tbl ⟨code, pre.length, stk, locals⟩ tr (.at ⟨code, cont, stk, l'⟩) ∧
        Rel l' cs'.next (ext ++ cs.sc) s'.env) ∧
    (∀ v, flow = .ret v → Exec tbl ⟨code, pre.length, stk, locals⟩ tr (.ret v)) := by
  intro code
  have sim := (sim_all p tbl n).1 retTy st s flow s' tr h hnc cs c cs' hc locals hrel code pre post stk brk cont
    pre.length rfl rfl hb hcn
  refine ⟨?_, ?_, ?_, ?_⟩
  · intro hf; subst hf
    obtain ⟨l', e, ext, hr, hsc⟩ := sim
    exact ⟨l', e, by rw [hsc rfl]; exact hr⟩
  · intro hf; subst hf
    obtain ⟨l', e, ext, hr, _⟩ := sim
    exact ⟨l', ext, e, hr⟩
  · intro hf; subst hf
    obtain ⟨l', e, ext, hr, _⟩ := sim
    exact ⟨l', ext, e, hr⟩
  · intro v hf; subst hf; exact sim

open Verif.Model.Lang Verif.Model.Lang.VM in
-- non-vacuity: `while i < 3 { if i == 2 { break }; i = i + 1 }` with `i = 0` in slot 0 is call-free,
-- compiles, the locals are related to the environment, and the evaluator completes normally (two
-- iterations, then `break`)
example :
    let st : Stmt := .while (.binary .lt (.var "i") (.intLit .int 3))
      [.ite (.binary .eq (.var "i") (.intLit .int 2)) [.break_] none,
       .assign (.var "i") (.int .int) (.binary .add (.var "i") (.intLit .int 1))]
    noCallS st = true ∧ (compileStmt .void ⟨[("i", 0)], 1⟩ st).isSome = true ∧
    Rel [(0, .int .int 0)] 1 [("i", 0)] [("i", .int .int 0)] ∧
    (match (exec ⟨[], []⟩ 40 .void st ⟨[("i", .int .int 0)]⟩).out with | .ok .normal => true | _ => false) = true := by
  refine ⟨by decide, by decide, .cons (.nil 0) rfl (by omega), by decide⟩

open Verif.Model.Lang Verif.Model.Lang.VM in
/-- **simulation_body_partial**: a whole activation on the step-counting machine.  If the evaluator runs
a call-free function body (a block, `execBlock`) to `return v` — or to its end, then `v = void` — with
trace `tr`, then `runFrames` (the machine of `runVM`), started on the compiled body (no unresolved loop
placeholder, i.e. no `break`/`continue` outside a loop) with locals related to the initial environment
and no callers, returns the same value `v` with the same trace, for some amount of fuel.
Missing for `C34_simulation` (`runVM (compile p) = run p`): invocations (binding of arguments to
parameter slots, several activations, the trace of logging calls — see `simulation_call_partial`), the
error outcomes of statements, `??`, L1/L2. -/
theorem simulation_body_partial (p : Program) (tbl : Table) (n : Nat) (retTy : Ty) (ss : List Stmt)
    (s s' : State) (flow : Flow) (tr : List String) (v : Value)
    (h : execBlock p n retTy ss s = ⟨.ok flow, s', tr⟩) (hnc : noCallB ss = true)
    (hv : flow = .ret v ∨ (flow = .normal ∧ v = .void))
    (cs cs' : CState) (c : List Instr) (hc : compileBlock retTy cs ss = some (c, cs')) (hnm : noMarks c = true)
    (locals : Locals) (hrel : Rel locals cs.next cs.sc s.env) :
    ∃ m, runFrames tbl m ⟨c, 0, [], locals⟩ [] [] = ⟨.ok v, ⟨[]⟩, tr⟩ := by
  obtain ⟨m, hm⟩ := (sim_body p tbl n retTy ss s s' flow tr v h hnc hv cs cs' c hc hnm locals hrel).run [] [] 0
  exact ⟨m, by simpa [finish] using hm⟩

open Verif.Model.Lang Verif.Model.Lang.VM in
-- non-vacuity: the body `var i = 0; while true { i = i + 1; if i == 3 { return i } }` is call-free,
-- compiles to placeholder-free code, and the evaluator returns 3
example :
    let ss : List Stmt := [.decl false "i" (.int .int) (.intLit .int 0),
      .while (.boolLit true)
        [.assign (.var "i") (.int .int) (.binary .add (.var "i") (.intLit .int 1)),
         .ite (.binary .eq (.var "i") (.intLit .int 3)) [.ret (some (.var "i"))] none]]
    noCallB ss = true ∧
    (match compileBlock (.int .int) ⟨[], 0⟩ ss with | some (c, _) => noMarks c | none => false) = true ∧
    Rel [] 0 [] [] ∧
    (match (execBlock ⟨[], []⟩ 40 (.int .int) ss ⟨[]⟩).out with | .ok (.ret (.int _ 3)) => true | _ => false) = true := by
  refine ⟨by decide, by decide, .nil 0, by decide⟩

open Verif.Model.Lang Verif.Model.Lang.VM in
/-- **simulation_call_partial**: whole programs with invocations — the value case of
`runVM (compile p) = run p` on a fragment.  Let `p` compile to the table `tbl` and satisfy the decidable
side conditions `progOk`: no struct declarations; every function has at most one parameter, its
statements are those of `simulation_stmt_partial` where every declaration value, assigned value,
returned value, expression statement and `if`/`while` condition is call-free or *one invocation with
call-free arguments* (`simpleE`: the built-ins `log`, `assert`, `panic` and user functions, recursion
included), no `break`/`continue` outside a loop, and the compiled body has no unresolved loop
placeholder.  If the evaluator's `run p n` yields the value `v` with log trace `tr`, then the machine
`runVM tbl m`, for some fuel `m`, yields the same value `v` with the same trace `tr`: every call runs in
an activation of its own (`Invoke` binds the boxed argument to parameter slot 0, `Return`/`ReturnValue`
pops it), the log lines of all activations are concatenated in the same order.
Missing for `C34_simulation`: error and out-of-fuel outcomes of whole programs (error case proved only
for call-free expressions), invocations nested inside operands / arguments, `??`,
functions with two or more parameters (the model compiler lists parameter slots in reverse scope
order; relating them needs a non-positional base case of `Rel`), the converse direction, L1/L2. -/
theorem simulation_call_partial (p : Program) (tbl : Table) (hc : compile p = some tbl) (hok : progOk p = true)
    (n : Nat) (v : Value) (s1 : State) (tr : List String) (h : run p n = ⟨.ok v, s1, tr⟩) :
    ∃ m, runVM tbl m = ⟨.ok v, ⟨[]⟩, tr⟩ :=
  sim_program p tbl (compile_tableOk p tbl hc hok) n v s1 tr h

/-! ## Call-depth accounting (known finding `call-depth-counts-argument-nesting`)

`Verif.Model.Lang.CallDepth` abstracts a run to the forest of its invocations and models how each
engine counts depth against `runtime.Config.StackDepthLimit` (interpreter: every invocation expression,
from before its arguments are evaluated, native callees included; VM: call frames of compiled functions,
pushed after the arguments).  Full-strength statement (C34, "same error class"):
`∀ limit main, vmFails limit main = interpFails limit main` — false, see `call_depth_witness`. -/
section CallDepth
open Verif.Model.Lang.CallDepth Verif.Proofs.LangCallDepth

/-- **call_depth_witness**: the model exhibits the divergence.  For the run of `f(n)` with
`fun f(_ n: Int): Int { if n == 0 { return 0 }; return id(f(n - 1)) }` and every limit with
`n + 1 ≤ limit < 2 n + 1` the interpreter raises CallStackLimitExceededError and the VM does not
(limit 10: n = 5 … 9; stream `vmeq`, corpus `known-call-depth-counts-argument-nesting.txt`). -/
theorem call_depth_witness (n limit : Nat) (h1 : n + 1 ≤ limit) (h2 : limit < 2 * n + 1) :
    interpFails limit [nested n] = true ∧ vmFails limit [nested n] = false := by
  simp only [interpFails, vmFails, iDepthL, vDepthL, nested_i, nested_v, decide_eq_true_eq, decide_eq_false_iff_not]
  omega

example : interpFails 10 [nested 5] = true ∧ vmFails 10 [nested 5] = false := call_depth_witness 5 10 (by omega) (by omega)

/-- **call_depth_interp_first**: in every run the interpreter's count dominates the VM's, so the
divergence has one direction only: whenever the VM reaches the limit, the interpreter has reached it
(no later). -/
theorem call_depth_interp_first (limit : Nat) (main : List Call) (h : vmFails limit main = true) :
    interpFails limit main = true := by
  have := vL_le_iL main
  simp only [interpFails, vmFails, decide_eq_true_eq] at *
  omega

/-- **call_depth_agree_partial**: outside the defect's region — runs in which no callee is native and
no invocation happens inside an argument of another invocation — both engines reach the limit in
exactly the same runs.  Missing for the full statement: runs with argument-nested or native
invocations (there the statement is false, `call_depth_witness`). -/
theorem call_depth_agree_partial (limit : Nat) (main : List Call) (h : plainL main = true) :
    vmFails limit main = interpFails limit main := by
  simp only [interpFails, vmFails, plainL_eq main h]

-- non-vacuity: plain recursion `f(n - 1) + 1` nine deep is a plain run that stays below limit 10 in
-- both engines, ten deep exceeds it in both
example : plainL [chain 9] = true ∧ vmFails 10 [chain 9] = false ∧ interpFails 10 [chain 10] = true ∧
    vmFails 10 [chain 10] = true := by decide

end CallDepth

open Verif.Model.Lang Verif.Model.Lang.VM in
-- non-vacuity: `fun f(x: Int): Int { log(x); return x + 1 }`, `fun small(x: Int): Bool { return x < 2 }`,
-- `fun main(): Int { var i = 0; while small(i) { i = f(i) }; log(i); return i }` compiles, satisfies the
-- side conditions, and the evaluator returns 2 with the trace "0", "1", "2" (three activations log)
example : (compile exProg).isSome = true ∧ progOk exProg = true ∧
    (match (run exProg 40).out with | .ok (.int _ 2) => true | _ => false) = true ∧
    (run exProg 40).tr = ["0", "1", "2"] := by
  refine ⟨by decide, by decide, by decide, by decide⟩

-- non-vacuity: a jump over two rewritten windows, a window at a jump target left alone
example : optimize exCode = .ok exOpt := by rfl

end Verif.Properties.C34
