import Verif.Proofs.Peephole
import Verif.Proofs.LangVM
import Verif.Proofs.LangVMErr
/-!
# C34 — The bytecode VM is observationally equivalent to the interpreter; peephole optimisation
does not change outcomes

Peephole part: theorems about `Verif.Model.Lang.VM.Peephole`, a line-by-line port of
`bbq/compiler/peephole_pass.go` (`OptimizeInstructions`, `patchJumps`) and `peephole_patterns.go`,
tied to /repo by the stream `peep` on the real compiler's instruction lists.
(The VM-simulation part is added below when present.)
-/
namespace Verif.Properties.C34
open Verif.Model.Lang.VM.Peephole Verif.Proofs.Peephole

/-- **peephole_jumps**: for every pattern table without jump opcodes and *every* instruction list on
which the pass does not panic, the input splits (order-preserving) into copied instructions and
rewritten windows such that no offset of a rewritten window — its start included — is a jump target,
every jump survives as a copied instruction, and every jump with target `t ≤ len(code)` is retargeted
to `image segs t`, the output offset of the unit that starts at `t` (the image of its original target). -/
theorem peephole_jumps (pats : List Pattern) (hnj : noJumpInPatterns pats = true)
    (code opt : List PInstr) (h : optimizeWith pats code = .ok opt) :
    ∃ segs : List Seg,
      srcOf segs = code ∧
      Legit pats (collectJumpTargets code) 0 segs ∧
      opt = segs.flatMap (Seg.outPatched (retarget (shiftsOf 0 segs))) ∧
      (∀ x ∈ code, isJump x = true → Seg.copy x ∈ segs) ∧
      (∀ x ∈ code, isJump x = true → x.target ≤ code.length →
        image segs x.target = some (retarget (shiftsOf 0 segs) x).target) :=
  Verif.Proofs.Peephole.peephole_jumps pats hnj code opt h

/-- the same for the real pattern table `AllPatterns` (the side condition is decided) -/
theorem peephole_jumps_real (code opt : List PInstr) (h : optimize code = .ok opt) :
    ∃ segs : List Seg,
      srcOf segs = code ∧
      Legit allPatterns (collectJumpTargets code) 0 segs ∧
      opt = segs.flatMap (Seg.outPatched (retarget (shiftsOf 0 segs))) ∧
      (∀ x ∈ code, isJump x = true → Seg.copy x ∈ segs) ∧
      (∀ x ∈ code, isJump x = true → x.target ≤ code.length →
        image segs x.target = some (retarget (shiftsOf 0 segs) x).target) :=
  Verif.Proofs.Peephole.peephole_jumps_real code opt h

/-- where a retargeted jump lands: the optimised code from the new target on is exactly the
translation of the original code from the old target on -/
theorem peephole_jumps_land (pats : List Pattern) (hnj : noJumpInPatterns pats = true)
    (code opt : List PInstr) (h : optimizeWith pats code = .ok opt) :
    ∃ segs : List Seg, srcOf segs = code ∧
      opt = segs.flatMap (Seg.outPatched (retarget (shiftsOf 0 segs))) ∧
      ∀ x ∈ code, isJump x = true → x.target ≤ code.length →
        ∃ a b, segs = a ++ b ∧ code.drop x.target = srcOf b ∧
          opt.drop (retarget (shiftsOf 0 segs) x).target =
            b.flatMap (Seg.outPatched (retarget (shiftsOf 0 segs))) :=
  Verif.Proofs.Peephole.peephole_jumps_land pats hnj code opt h

/-! ## VM simulation (model compiler `Verif.Model.Lang.VM.compileExpr`, machine `VM.step`)

Full statement (DESIGN §6 C34, not proved): for every program `p` of layers L0–L2,
`runVM (compile p) = run p` (value, error kind, trace), i.e. for all fuel `n` with
`run p n ≠ outOfFuel` there is `m` with `runVM (compile p) m = run p n`.

Proved (`simulation_expr_partial`): the value case for call-free expressions of L0 — literals,
variables, unary and strict binary operators (operand order!), `&&`, `||` (short-circuit jumps),
the conditional operator, force-unwrap.  Missing: the error case (the machine stops with the same error
kind); `??` (the model VM, like the real VM, returns a non-boxed non-nil left value while the
interpreter evaluates the right operand — known finding `conditional-result-not-boxed` — so the
statement needs the typing invariant "the left operand is nil or boxed"); invocations (several
activations), statements (assignment, if, while with break/continue, return), and layers L1/L2.  These
parts of the model compiler and machine are exercised only by the stream `vmeq` (model VM vs real VM
vs interpreter on every generated L0 program). -/

open Verif.Model.Lang Verif.Model.Lang.VM in
/-- **simulation_expr_partial**: if the evaluator yields the value `v` for a call-free L0 expression
`e` in state `s`, then the code compiled for `e` under any scope that agrees with `s`, placed
anywhere (`pre ++ c ++ post`), runs on the machine from its first instruction to just behind its last
one, by steps that neither log nor fail, and leaves exactly `v` pushed on the operand stack. -/
theorem simulation_expr_partial (p : Program) (tbl : Table) (n : Nat) (e : Expr) (s : State) (v : Value)
    (hnc : noCall e = true) (h : (eval p n e s).out = .ok v)
    (sc : Scope) (c : List Instr) (hc : compileExpr sc e = some c)
    (locals : Locals) (hag : Agree sc s.env locals)
    (pre post : List Instr) (stk : List Value) :
    Reach tbl (pre ++ c ++ post) locals (pre.length, stk) (pre.length + c.length, v :: stk) ∧
    (eval p n e s).st = s ∧ (eval p n e s).tr = [] :=
  ⟨sim_expr_ok p tbl n e s v hnc h sc c hc locals hag _ pre post stk rfl, eval_noCall_pure p n e s hnc⟩

open Verif.Model.Lang Verif.Model.Lang.VM in
-- non-vacuity: `(7 - 2) < 4 && !false` is call-free, compiles, and evaluates to `false`
example : noCall (.and (.binary .lt (.binary .sub (.intLit .int 7) (.intLit .int 2)) (.intLit .int 4)) (.unary .not (.boolLit false))) = true ∧
    (compileExpr [] (.and (.binary .lt (.binary .sub (.intLit .int 7) (.intLit .int 2)) (.intLit .int 4)) (.unary .not (.boolLit false)))).isSome = true := by
  decide

open Verif.Model.Lang Verif.Model.Lang.VM in
/-- **simulation_expr_err_partial**: the *error case* for call-free L0 expressions.  If the evaluator
stops `e` in state `s` with a user error of kind `k` (resp. an internal error of kind `k`), then the
code compiled for `e` under a scope that strongly agrees with `s` (`AgreeS`: every scope name is bound
in the environment and its slot holds the same value), placed anywhere (`pre ++ c ++ post`), runs from
its first instruction by steps that neither log nor fail (`Reach`) to a configuration whose next
`VM.step` stops the machine with `Step.userErr k` (resp. `Step.internalErr k`): same error class, same
kind; the evaluator's trace is empty and its state unchanged, like the machine's (no log step, locals
fixed by `Reach`).  The evaluator's out-of-fuel outcome is neither case.
Missing for `C34_simulation`: `??`, invocations, statements (see `simulation_stmt_partial`), L1/L2. -/
theorem simulation_expr_err_partial (p : Program) (tbl : Table) (n : Nat) (e : Expr) (s : State)
    (hnc : noCall e = true)
    (sc : Scope) (c : List Instr) (hc : compileExpr sc e = some c)
    (locals : Locals) (hag : AgreeS sc s.env locals)
    (pre post : List Instr) (stk : List Value) :
    (∀ k, (eval p n e s).out = .userErr k →
      ∃ pc' stk', Reach tbl (pre ++ c ++ post) locals (pre.length, stk) (pc', stk') ∧
        VM.step tbl ⟨pre ++ c ++ post, pc', stk', locals⟩ = Step.userErr k) ∧
    (∀ k, (eval p n e s).out = .internalErr k →
      ∃ pc' stk', Reach tbl (pre ++ c ++ post) locals (pre.length, stk) (pc', stk') ∧
        VM.step tbl ⟨pre ++ c ++ post, pc', stk', locals⟩ = Step.internalErr k) ∧
    (eval p n e s).st = s ∧ (eval p n e s).tr = [] :=
  ⟨fun k hk => sim_expr_err p tbl n e s _ hnc (by rw [hk]; rfl) sc c hc locals hag _ pre post stk rfl,
   fun k hk => sim_expr_err p tbl n e s _ hnc (by rw [hk]; rfl) sc c hc locals hag _ pre post stk rfl,
   eval_noCall_pure p n e s hnc⟩

open Verif.Model.Lang Verif.Model.Lang.VM in
-- non-vacuity: `true && (10 / x < 3)` with `x = 0` in slot 0 is call-free, compiles, the scope agrees
-- strongly with the state, and the evaluator stops with the user error `divZero`
example : noCall (.and (.boolLit true) (.binary .lt (.binary .div (.intLit .int 10) (.var "x")) (.intLit .int 3))) = true ∧
    (compileExpr [("x", 0)] (.and (.boolLit true) (.binary .lt (.binary .div (.intLit .int 10) (.var "x")) (.intLit .int 3)))).isSome = true ∧
    AgreeS [("x", 0)] [("x", .int .int 0)] [(0, .int .int 0)] ∧
    (match (eval ⟨[], []⟩ 9 (.and (.boolLit true) (.binary .lt (.binary .div (.intLit .int 10) (.var "x")) (.intLit .int 3)))
        ⟨[("x", .int .int 0)]⟩).out with | .userErr .divZero => true | _ => false) = true := by
  refine ⟨by decide, by decide, ?_, by decide⟩
  intro x i h
  simp only [Scope.slot, List.find?, Option.map_eq_some_iff] at h
  obtain ⟨a, ha, hi⟩ := h
  split at ha
  · next hx =>
    cases ha; cases hi
    have : "x" = x := by simpa using hx
    subst this
    exact ⟨.int .int 0, rfl, rfl⟩
  · simp at ha

-- non-vacuity: a jump over two rewritten windows, a window at a jump target left alone
example : optimize exCode = .ok exOpt := by rfl

end Verif.Properties.C34
