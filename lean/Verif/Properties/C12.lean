/-
C12 — Word arithmetic wraps modulo 2^n.

For Word8..Word256 and + - * / % the *generated* definition `Verif.Gen.NumGo.Word<n>Value.<Op>` equals
`Verif.Spec.Arith.specWord n`: the exact result reduced modulo 2^n — never overflow / underflow, never
a Go run-time panic; division or remainder by zero is the division-by-zero error.
-/
import Verif.Proofs.ArithMul
namespace Verif.Properties.C12
open Verif.Model.Num Verif.Spec.Arith Verif.Gen.NumGo Verif.Proofs.Arith

/-! ### Word8 -/

theorem C12_Word8_add (a b : Int) (ha : inRange (.word 8) a) (hb : inRange (.word 8) b) :
    Word8Value.Plus a b = specWord 8 .add a b := by
  unfold Word8Value.Plus; num_arith

theorem C12_Word8_sub (a b : Int) (ha : inRange (.word 8) a) (hb : inRange (.word 8) b) :
    Word8Value.Minus a b = specWord 8 .sub a b := by
  unfold Word8Value.Minus; num_arith

theorem C12_Word8_mul (a b : Int) (ha : inRange (.word 8) a) (hb : inRange (.word 8) b) :
    Word8Value.Mul a b = specWord 8 .mul a b := by
  unfold Word8Value.Mul; num_mul a b (255) (0)

theorem C12_Word8_div (a b : Int) (ha : inRange (.word 8) a) (hb : inRange (.word 8) b) :
    Word8Value.Div a b = specWord 8 .div a b := by
  unfold Word8Value.Div; num_div a b

theorem C12_Word8_mod (a b : Int) (ha : inRange (.word 8) a) (hb : inRange (.word 8) b) :
    Word8Value.Mod a b = specWord 8 .mod a b := by
  unfold Word8Value.Mod; num_mod a b

/-! ### Word16 -/

theorem C12_Word16_add (a b : Int) (ha : inRange (.word 16) a) (hb : inRange (.word 16) b) :
    Word16Value.Plus a b = specWord 16 .add a b := by
  unfold Word16Value.Plus; num_arith

theorem C12_Word16_sub (a b : Int) (ha : inRange (.word 16) a) (hb : inRange (.word 16) b) :
    Word16Value.Minus a b = specWord 16 .sub a b := by
  unfold Word16Value.Minus; num_arith

theorem C12_Word16_mul (a b : Int) (ha : inRange (.word 16) a) (hb : inRange (.word 16) b) :
    Word16Value.Mul a b = specWord 16 .mul a b := by
  unfold Word16Value.Mul; num_mul a b (65535) (0)

theorem C12_Word16_div (a b : Int) (ha : inRange (.word 16) a) (hb : inRange (.word 16) b) :
    Word16Value.Div a b = specWord 16 .div a b := by
  unfold Word16Value.Div; num_div a b

theorem C12_Word16_mod (a b : Int) (ha : inRange (.word 16) a) (hb : inRange (.word 16) b) :
    Word16Value.Mod a b = specWord 16 .mod a b := by
  unfold Word16Value.Mod; num_mod a b

/-! ### Word32 -/

theorem C12_Word32_add (a b : Int) (ha : inRange (.word 32) a) (hb : inRange (.word 32) b) :
    Word32Value.Plus a b = specWord 32 .add a b := by
  unfold Word32Value.Plus; num_arith

theorem C12_Word32_sub (a b : Int) (ha : inRange (.word 32) a) (hb : inRange (.word 32) b) :
    Word32Value.Minus a b = specWord 32 .sub a b := by
  unfold Word32Value.Minus; num_arith

theorem C12_Word32_mul (a b : Int) (ha : inRange (.word 32) a) (hb : inRange (.word 32) b) :
    Word32Value.Mul a b = specWord 32 .mul a b := by
  unfold Word32Value.Mul; num_mul a b (4294967295) (0)

theorem C12_Word32_div (a b : Int) (ha : inRange (.word 32) a) (hb : inRange (.word 32) b) :
    Word32Value.Div a b = specWord 32 .div a b := by
  unfold Word32Value.Div; num_div a b

theorem C12_Word32_mod (a b : Int) (ha : inRange (.word 32) a) (hb : inRange (.word 32) b) :
    Word32Value.Mod a b = specWord 32 .mod a b := by
  unfold Word32Value.Mod; num_mod a b

/-! ### Word64 -/

theorem C12_Word64_add (a b : Int) (ha : inRange (.word 64) a) (hb : inRange (.word 64) b) :
    Word64Value.Plus a b = specWord 64 .add a b := by
  unfold Word64Value.Plus; num_arith

theorem C12_Word64_sub (a b : Int) (ha : inRange (.word 64) a) (hb : inRange (.word 64) b) :
    Word64Value.Minus a b = specWord 64 .sub a b := by
  unfold Word64Value.Minus; num_arith

theorem C12_Word64_mul (a b : Int) (ha : inRange (.word 64) a) (hb : inRange (.word 64) b) :
    Word64Value.Mul a b = specWord 64 .mul a b := by
  unfold Word64Value.Mul; num_mul a b (18446744073709551615) (0)

theorem C12_Word64_div (a b : Int) (ha : inRange (.word 64) a) (hb : inRange (.word 64) b) :
    Word64Value.Div a b = specWord 64 .div a b := by
  unfold Word64Value.Div; num_div a b

theorem C12_Word64_mod (a b : Int) (ha : inRange (.word 64) a) (hb : inRange (.word 64) b) :
    Word64Value.Mod a b = specWord 64 .mod a b := by
  unfold Word64Value.Mod; num_mod a b

/-! ### Word128 -/

theorem C12_Word128_add (a b : Int) (ha : inRange (.word 128) a) (hb : inRange (.word 128) b) :
    Word128Value.Plus a b = specWord 128 .add a b := by
  unfold Word128Value.Plus; num_arith

theorem C12_Word128_sub (a b : Int) (ha : inRange (.word 128) a) (hb : inRange (.word 128) b) :
    Word128Value.Minus a b = specWord 128 .sub a b := by
  unfold Word128Value.Minus; num_arith

theorem C12_Word128_mul (a b : Int) (ha : inRange (.word 128) a) (hb : inRange (.word 128) b) :
    Word128Value.Mul a b = specWord 128 .mul a b := by
  unfold Word128Value.Mul; num_mul a b (340282366920938463463374607431768211455) (0)

theorem C12_Word128_div (a b : Int) (ha : inRange (.word 128) a) (hb : inRange (.word 128) b) :
    Word128Value.Div a b = specWord 128 .div a b := by
  unfold Word128Value.Div; num_div a b

theorem C12_Word128_mod (a b : Int) (ha : inRange (.word 128) a) (hb : inRange (.word 128) b) :
    Word128Value.Mod a b = specWord 128 .mod a b := by
  unfold Word128Value.Mod; num_mod a b

/-! ### Word256 -/

theorem C12_Word256_add (a b : Int) (ha : inRange (.word 256) a) (hb : inRange (.word 256) b) :
    Word256Value.Plus a b = specWord 256 .add a b := by
  unfold Word256Value.Plus; num_arith

theorem C12_Word256_sub (a b : Int) (ha : inRange (.word 256) a) (hb : inRange (.word 256) b) :
    Word256Value.Minus a b = specWord 256 .sub a b := by
  unfold Word256Value.Minus; num_arith

theorem C12_Word256_mul (a b : Int) (ha : inRange (.word 256) a) (hb : inRange (.word 256) b) :
    Word256Value.Mul a b = specWord 256 .mul a b := by
  unfold Word256Value.Mul; num_mul a b (115792089237316195423570985008687907853269984665640564039457584007913129639935) (0)

theorem C12_Word256_div (a b : Int) (ha : inRange (.word 256) a) (hb : inRange (.word 256) b) :
    Word256Value.Div a b = specWord 256 .div a b := by
  unfold Word256Value.Div; num_div a b

theorem C12_Word256_mod (a b : Int) (ha : inRange (.word 256) a) (hb : inRange (.word 256) b) :
    Word256Value.Mod a b = specWord 256 .mod a b := by
  unfold Word256Value.Mod; num_mod a b

/-- the spec never fails with overflow / underflow: a Word operation fails only by division by zero -/
theorem C12_only_divZero (n : Nat) (op : Op) (a b : Int) (e : NumErr) (h : specWord n op a b = .error e) :
    e = .divZero ∧ b = 0 ∧ op.divides = true := by
  unfold specWord at h
  split at h
  · rename_i hc; cases h; exact ⟨rfl, hc.2, hc.1⟩
  · cases h

/-! ### Non-vacuity -/

example : inRange (.word 8) 255 ∧ Word8Value.Plus 255 1 = .ok 0 ∧ Word8Value.Minus 0 1 = .ok 255 := by decide
example : Word16Value.Mul 65535 2 = .ok 65534 ∧ Word8Value.Div 7 0 = .error .divZero := by decide
example : Word128Value.Minus 0 1 = .ok (2 ^ 128 - 1) ∧ Word256Value.Plus (2 ^ 256 - 1) 2 = .ok 1 := by decide

end Verif.Properties.C12
