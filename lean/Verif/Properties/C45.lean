/-
C45 — Type identity is preserved across representations.

Model: Verif.Model.Types.Location (ports of common/location.go and common/*location.go: type IDs of
the six location kinds and `DecodeTypeID`) and Verif.Model.Types.TypeID (the `ID()` methods of the
checker types, the run-time static types and the exported types; `ConvertSemaToStaticType`,
`ConvertStaticToSemaType` with the interpreter's lookups, `ExportType`, `ImportType`; the run-time type
constructors).  Strings are character lists.
-/
import Verif.Model.Types.TypeID
import Verif.Proofs.TypeID
namespace Verif.Properties.C45
open Verif.Model.Types.Loc Verif.Model.Types.TID

/-- The checker type, its run-time static type and its exported type have the same ID
    (for every type whose entitlement sets have no repeated member). -/
theorem id_agree (t : STy) (h : t.wf = true) :
    staticID (toStatic t) = semaID t ∧ extID (exportTy t) = semaID t :=
  ⟨Verif.Proofs.TypeID.staticID_toStatic t h, (Verif.Proofs.TypeID.extID_export t).1 h⟩

/-- Importing the exported type gives the converted static type, hence the same ID again
    (`ImportType` has no case for function types). -/
theorem id_agree_import (t : STy) (hf : t.fnFree = true) (h : t.wf = true) :
    importTy (exportTy t) = some (toStatic t) ∧ staticID (toStatic t) = semaID t :=
  ⟨Verif.Proofs.TypeID.import_export t hf, Verif.Proofs.TypeID.staticID_toStatic t h⟩

/-- Checker → run-time → checker yields an equal type, **partial**: for types all of whose nominal
    members are found by the run-time lookups; for entitlements that includes that their type ID
    *decodes* to their location (`Interpreter.GetEntitlementType` finds the declaring program by
    decoding the ID) — false for locations whose name contains a '.', see `convert_roundtrip_witness`.
    Full statement (NOT true of the code): the same without `decodable` for entitlement locations. -/
theorem convert_roundtrip_partial (env : Env) (t : STy) (h : t.resolves env = true) :
    ∃ t', toSema env (toStatic t) = some t' ∧ t.equal t' = true :=
  ⟨t, Verif.Proofs.TypeID.toSema_toStatic env t h, Verif.Proofs.TypeID.equal_refl t⟩

/-- the dotted string location `a.b`, its entitlement `E` -/
def dottedE : Nominal := { loc := some (.string ['a', '.', 'b']), qid := ['E'] }

/-- **Known finding.** `auth(E) &Int` with `E` declared in the program at string location `a.b`
    (e.g. `import E from "a.b"`) does not convert back: the run-time looks for `S.a.b.E` in the program at
    location `a`.  (The real run-time fails with "failed to load type: S.a.b.E", both engines.) -/
theorem convert_roundtrip_witness :
    toSema [dottedE] (toStatic (.ref (.set .conj [dottedE]) (.prim ['I', 'n', 't']))) = none ∧
    (STy.ref (.set .conj [dottedE]) (.prim ['I', 'n', 't'])).wf = true ∧ dottedE.resolves [dottedE] = true := by
  decide

/-- A type ID decodes to the location and qualified identifier it was built from, **partial**:
    for `decodable` locations — string / identifier location names without '.', and an address
    location's name (which is not part of the ID) equal to the first component of the qualified
    identifier.  Full statement (NOT true of the code, see `decode_typeid_witness`): all locations. -/
theorem decode_typeid_partial (loc : Option Location) (qid : Str) (h : decodable loc qid = true) :
    decodeTypeID (typeID loc qid) = .ok (loc, qid) :=
  Verif.Proofs.TypeIDLoc.decode_roundtrip loc qid h

/-- **Known finding.** `StringLocation("a.b")` + `C.D` → `S.a.b.C.D` decodes to location `a`,
    identifier `b.C.D`; the same for `IdentifierLocation`. -/
theorem decode_typeid_witness :
    typeID (some (.string ['a', '.', 'b'])) ['C', '.', 'D'] = ['S', '.', 'a', '.', 'b', '.', 'C', '.', 'D'] ∧
    decodeTypeID (typeID (some (.string ['a', '.', 'b'])) ['C', '.', 'D'])
      = .ok (some (.string ['a']), ['b', '.', 'C', '.', 'D']) ∧
    decodeTypeID (typeID (some (.identifier ['a', '.', 'b'])) ['C', '.', 'D'])
      = .ok (some (.identifier ['a']), ['b', '.', 'C', '.', 'D']) := by
  refine ⟨rfl, rfl, rfl⟩

/-- An address location's name is not part of its type IDs (so it cannot be decoded from them; the
    decoder takes the first component of the qualified identifier instead). -/
theorem address_name_not_in_id (a : List UInt8) (n n' qid : Str) :
    typeID (some (.address a n)) qid = typeID (some (.address a n')) qid := rfl

/-! Run-time type constructors build the static type of the corresponding checker type. -/

theorem constructors_simple (t k v : STy) (n : Nat) :
    ctorOptional (toStatic t) = toStatic (.opt t) ∧
    ctorVarArr (toStatic t) = toStatic (.varArr t) ∧
    ctorConstArr (toStatic t) n = toStatic (.constArr t n) ∧
    ctorDict true (toStatic k) (toStatic v) = some (toStatic (.dict k v)) ∧
    ctorRange true (toStatic t) = some (toStatic (.range t)) :=
  ⟨rfl, rfl, rfl, rfl, rfl⟩

theorem constructors_capability (a : SAuth) (t : STy) :
    ctorCap (toStatic (.ref a t)) = some (toStatic (.cap (.ref a t))) := rfl

/-- `CompositeType(id)`, for a declared composite whose ID decodes to its location -/
theorem constructors_composite (env : Env) (n : Nominal) (h : n.entResolves env = true) :
    ctorComposite env n.id = some (toStatic (.comp n)) := by
  simp [ctorComposite, Verif.Proofs.TypeID.lookupByID_of env n h, toStatic]

/-- `ReferenceType(entitlements:type:)` -/
theorem constructors_reference (env : Env) (es : List Nominal) (t : STy)
    (h : es.all (·.entResolves env) = true) :
    ctorReference env (es.map Nominal.id) (toStatic t) =
      some (toStatic (.ref (if es.isEmpty then .unauth else .set .conj es) t)) := by
  cases es with
  | nil => rfl
  | cons e es =>
    have hall : ((e :: es).map Nominal.id).all (fun x => (lookupEntitlement env x).isSome) = true := by
      simp only [List.all_eq_true, List.mem_map] at h ⊢
      rintro x ⟨y, hy, rfl⟩
      rw [Verif.Proofs.TypeID.lookupEntitlement_of env y (h y hy)]; rfl
    simp only [ctorReference, hall]
    rfl

/-- `IntersectionType(types:)` -/
theorem constructors_intersection (env : Env) (is : List Nominal) (h : is.all (·.entResolves env) = true) :
    ctorIntersection env true (is.map Nominal.id) = some (toStatic (.inter is)) := by
  have : allSome ((is.map Nominal.id).map (lookupByID env)) = some is :=
    Verif.Proofs.TypeID.allSome_map _ is
      (fun x hx => Verif.Proofs.TypeID.lookupByID_of env x ((List.all_eq_true.mp h) x hx))
  simp only [ctorIntersection, this]
  rfl

/-! Non-vacuity -/
def addrC : Option Location := some (.address [0, 0, 0, 0, 0, 0, 0, 1] ['C'])
def envEx : Env := [{ loc := addrC, qid := ['C', '.', 'E'] }, { loc := addrC, qid := ['C', '.', 'F'] }, { loc := addrC, qid := ['C', '.', 'I'] }]
def tyEx : STy := .opt (.ref (.set .conj [{ loc := addrC, qid := ['C', '.', 'F'] }, { loc := addrC, qid := ['C', '.', 'E'] }])
  (.inter [{ loc := addrC, qid := ['C', '.', 'I'] }]))
example : tyEx.wf = true ∧ tyEx.resolves envEx = true := by decide
example : String.ofList (semaID tyEx) = "(auth(A.0000000000000001.C.E,A.0000000000000001.C.F)&{A.0000000000000001.C.I})?" := by decide
example : decodable addrC ['C', '.', 'E'] = true := by decide
example : decodable (some (.string ['a', '.', 'b'])) ['C'] = false := by decide

end Verif.Properties.C45
