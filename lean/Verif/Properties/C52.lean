import Verif.Proofs.LangTrace
import Verif.Proofs.LangVM5
/-!
# C52 — Evaluation order and short-circuiting follow the language definition

Theorems about the μCadence evaluator (`Verif.Model.Lang.eval` / `exec`, tied to /repo's interpreter
and VM by the stream `evalorder`), stated outright on traces, for **all** programs `p`, expressions,
states `s` and fuel `n` of the fragment (no typing assumption, no bound).

Reading guide: `r = eval p (n+1) e s` is the evaluation of the compound expression; `ra`, `rb`, … are
the evaluations of its sub-expressions *in the states in which the definition evaluates them*
(`rb` starts in `ra.st`, the state left by the left operand).  `r.tr = ra.tr ++ rb.tr` says: the
effects of `a` come first, then those of `b`, each exactly once and nothing else; `r = ⟨_, ra.st, ra.tr⟩`
says: `b` (or the member part) is not evaluated at all.  `Outcome.failed` = error or out of fuel; after a
failed sub-expression nothing further is evaluated.
-/
namespace Verif.Properties.C52
open Verif.Model.Lang

private theorem failed_of {α} {o : Outcome α} (h : ∀ a, o ≠ .ok a) : o.failed := h

/-- **Strict binary operators** (arithmetic, bitwise, comparison, equality): left operand, then right
operand in the state left by the left one, each exactly once, then the operation (which logs nothing). -/
theorem binary (p : Program) (n : Nat) (op : BinOp) (a b : Expr) (s : State) :
    let ra := eval p n a s
    let rb := eval p n b ra.st
    let r := eval p (n + 1) (.binary op a b) s
    (ra.out.failed → r = ⟨ra.out.castErr, ra.st, ra.tr⟩) ∧
    (∀ va, ra.out = .ok va →
      r.tr = ra.tr ++ rb.tr ∧ r.st = rb.st ∧
      (rb.out.failed → r.out = rb.out.castErr) ∧
      (∀ vb, rb.out = .ok vb → r.out = (M.ofExcept (applyBinary op va vb) rb.st).out)) := by
  dsimp only
  have e : eval p (n + 1) (.binary op a b) =
      (eval p n a >>= fun va => eval p n b >>= fun vb => M.ofExcept (applyBinary op va vb)) := by
    simp only [eval]
  rw [e]
  refine ⟨fun hf => ?_, fun va ha => ?_⟩
  · rw [M.bind_failed _ _ _ hf]
  · rw [M.bind_ok _ _ _ _ ha]
    have fin := M.bind_fin (eval p n b) (fun vb => M.ofExcept (applyBinary op va vb)) (eval p n a s).st
      (fun x s' => ⟨M.ofExcept_tr _ _, M.ofExcept_st _ _⟩)
    refine ⟨by rw [fin.1], fin.2, fun hf => ?_, fun vb hb => ?_⟩
    · simp only [M.bind_failed _ _ _ hf]
    · simp only [M.bind_ok _ _ _ _ hb]

/-- **Unary operators**: the operand exactly once. -/
theorem unary (p : Program) (n : Nat) (op : UnOp) (a : Expr) (s : State) :
    let ra := eval p n a s
    let r := eval p (n + 1) (.unary op a) s
    r.tr = ra.tr ∧ r.st = ra.st := by
  dsimp only
  have e : eval p (n + 1) (.unary op a) = (eval p n a >>= fun v => M.ofExcept (applyUnary op v)) := by
    simp only [eval]
  rw [e]
  exact M.bind_fin _ _ _ (fun x s' => ⟨M.ofExcept_tr _ _, M.ofExcept_st _ _⟩)

/-- **`&&`**: the right operand is evaluated iff the left one is `true`. -/
theorem and_ (p : Program) (n : Nat) (a b : Expr) (s : State) :
    let ra := eval p n a s
    let rb := eval p n b ra.st
    let r := eval p (n + 1) (.and a b) s
    (ra.out.failed → r = ⟨ra.out.castErr, ra.st, ra.tr⟩) ∧
    (ra.out = .ok (.bool false) → r = ⟨.ok (.bool false), ra.st, ra.tr⟩) ∧
    (ra.out = .ok (.bool true) →
      r.tr = ra.tr ++ rb.tr ∧ r.st = rb.st ∧
      (rb.out.failed → r.out = rb.out.castErr) ∧
      (∀ v, rb.out = .ok (.bool v) → r.out = .ok (.bool v))) := by
  dsimp only
  have e : eval p (n + 1) (.and a b) = (eval p n a >>= fun va =>
      match va with
      | .bool false => pure (.bool false)
      | .bool true => eval p n b >>= fun vb =>
        match vb with
        | .bool r => pure (.bool r)
        | _ => M.internalErr .typeMismatch
      | _ => M.internalErr .typeMismatch) := by
    simp only [eval]; rfl
  rw [e]
  refine ⟨fun hf => ?_, fun ha => ?_, fun ha => ?_⟩
  · rw [M.bind_failed _ _ _ hf]
  · rw [M.bind_ok _ _ _ _ ha]; simp only [M.pure_apply, List.append_nil]
  · rw [M.bind_ok _ _ _ _ ha]
    dsimp only
    have fin := M.bind_fin (eval p n b) (fun vb => match vb with
        | .bool r => (pure (.bool r) : M Value)
        | _ => M.internalErr .typeMismatch) (eval p n a s).st
      (fun x s' => by cases x <;> exact ⟨rfl, rfl⟩)
    refine ⟨by rw [fin.1], fin.2, fun hf => ?_, fun v hb => ?_⟩
    · simp only [M.bind_failed _ _ _ hf]
    · simp only [M.bind_ok _ _ _ _ hb, M.pure_apply]

/-- **`||`**: the right operand is evaluated iff the left one is `false`. -/
theorem or_ (p : Program) (n : Nat) (a b : Expr) (s : State) :
    let ra := eval p n a s
    let rb := eval p n b ra.st
    let r := eval p (n + 1) (.or a b) s
    (ra.out.failed → r = ⟨ra.out.castErr, ra.st, ra.tr⟩) ∧
    (ra.out = .ok (.bool true) → r = ⟨.ok (.bool true), ra.st, ra.tr⟩) ∧
    (ra.out = .ok (.bool false) →
      r.tr = ra.tr ++ rb.tr ∧ r.st = rb.st ∧
      (rb.out.failed → r.out = rb.out.castErr) ∧
      (∀ v, rb.out = .ok (.bool v) → r.out = .ok (.bool v))) := by
  dsimp only
  have e : eval p (n + 1) (.or a b) = (eval p n a >>= fun va =>
      match va with
      | .bool true => pure (.bool true)
      | .bool false => eval p n b >>= fun vb =>
        match vb with
        | .bool r => pure (.bool r)
        | _ => M.internalErr .typeMismatch
      | _ => M.internalErr .typeMismatch) := by
    simp only [eval]; rfl
  rw [e]
  refine ⟨fun hf => ?_, fun ha => ?_, fun ha => ?_⟩
  · rw [M.bind_failed _ _ _ hf]
  · rw [M.bind_ok _ _ _ _ ha]; simp only [M.pure_apply, List.append_nil]
  · rw [M.bind_ok _ _ _ _ ha]
    dsimp only
    have fin := M.bind_fin (eval p n b) (fun vb => match vb with
        | .bool r => (pure (.bool r) : M Value)
        | _ => M.internalErr .typeMismatch) (eval p n a s).st
      (fun x s' => by cases x <;> exact ⟨rfl, rfl⟩)
    refine ⟨by rw [fin.1], fin.2, fun hf => ?_, fun v hb => ?_⟩
    · simp only [M.bind_failed _ _ _ hf]
    · simp only [M.bind_ok _ _ _ _ hb, M.pure_apply]

/-- **`??`** — partial.  Full statement (what the property says): the right operand is evaluated iff the
left one is `nil`.  Proved: it is not evaluated for a boxed left value `some v`, and it is evaluated
(once, after the left operand) for every other left value, in particular `nil`.  Missing: "a non-nil
left value is always boxed" — false in the interpreter, see `nilcoalesce_witness`. -/
theorem nilcoalesce_partial (p : Program) (n : Nat) (ty : Ty) (a b : Expr) (s : State) :
    let ra := eval p n a s
    let rb := eval p n b ra.st
    let r := eval p (n + 1) (.coalesce ty a b) s
    (ra.out.failed → r = ⟨ra.out.castErr, ra.st, ra.tr⟩) ∧
    (∀ v, ra.out = .ok (.some v) → r = ⟨.ok (box ty v), ra.st, ra.tr⟩) ∧
    (∀ va, ra.out = .ok va → (∀ v, va ≠ .some v) →
      r.tr = ra.tr ++ rb.tr ∧ r.st = rb.st ∧
      (rb.out.failed → r.out = rb.out.castErr) ∧
      (∀ v, rb.out = .ok v → r.out = .ok (box ty v))) := by
  dsimp only
  have e : eval p (n + 1) (.coalesce ty a b) = (eval p n a >>= fun va =>
      match va with
      | .some v => pure (box ty v)
      | _ => eval p n b >>= fun vb => pure (box ty vb)) := by
    simp only [eval]; rfl
  rw [e]
  refine ⟨fun hf => ?_, fun v ha => ?_, fun va ha hns => ?_⟩
  · rw [M.bind_failed _ _ _ hf]
  · rw [M.bind_ok _ _ _ _ ha]; simp only [M.pure_apply, List.append_nil]
  · rw [M.bind_ok _ _ _ _ ha]
    have fin := M.bind_fin (eval p n b) (fun vb => (pure (box ty vb) : M Value)) (eval p n a s).st
      (fun x s' => ⟨rfl, rfl⟩)
    cases va
    case some v => exact absurd rfl (hns v)
    all_goals
      refine ⟨by dsimp only; rw [fin.1], fin.2, fun hf => ?_, fun v hb => ?_⟩
      · simp only [M.bind_failed _ _ _ hf]
      · simp only [M.bind_ok _ _ _ _ hb, M.pure_apply]

/-- **Conditional operator**: the test, then exactly the selected branch. -/
theorem conditional (p : Program) (n : Nat) (c t e : Expr) (s : State) :
    let rc := eval p n c s
    let r := eval p (n + 1) (.cond c t e) s
    (rc.out.failed → r = ⟨rc.out.castErr, rc.st, rc.tr⟩) ∧
    (rc.out = .ok (.bool true) →
      let rt := eval p n t rc.st
      r = ⟨rt.out, rt.st, rc.tr ++ rt.tr⟩) ∧
    (rc.out = .ok (.bool false) →
      let re := eval p n e rc.st
      r = ⟨re.out, re.st, rc.tr ++ re.tr⟩) := by
  dsimp only
  have eq : eval p (n + 1) (.cond c t e) = (eval p n c >>= fun vc =>
      match vc with
      | .bool true => eval p n t
      | .bool false => eval p n e
      | _ => M.internalErr .typeMismatch) := by
    simp only [eval]; rfl
  rw [eq]
  refine ⟨fun hf => ?_, fun h => ?_, fun h => ?_⟩
  · rw [M.bind_failed _ _ _ hf]
  · rw [M.bind_ok _ _ _ _ h]
  · rw [M.bind_ok _ _ _ _ h]

/-- **Argument lists / array elements**: the first expression, then the remaining ones in the state
it left — left to right, each exactly once. -/
theorem args (p : Program) (n : Nat) (e : Expr) (es : List Expr) (s : State) :
    let r1 := eval p n e s
    let rs := evalArgs p n es r1.st
    let r := evalArgs p (n + 1) (e :: es) s
    (r1.out.failed → r = ⟨r1.out.castErr, r1.st, r1.tr⟩) ∧
    (∀ v, r1.out = .ok v →
      r.tr = r1.tr ++ rs.tr ∧ r.st = rs.st ∧
      (rs.out.failed → r.out = rs.out.castErr) ∧
      (∀ vs, rs.out = .ok vs → r.out = .ok (v :: vs))) := by
  dsimp only
  have eq : evalArgs p (n + 1) (e :: es) =
      (eval p n e >>= fun v => evalArgs p n es >>= fun vs => pure (v :: vs)) := by
    simp only [evalArgs]
  rw [eq]
  refine ⟨fun hf => ?_, fun v h => ?_⟩
  · rw [M.bind_failed _ _ _ hf]
  · rw [M.bind_ok _ _ _ _ h]
    have fin := M.bind_fin (evalArgs p n es) (fun vs => (pure (v :: vs) : M (List Value))) (eval p n e s).st
      (fun x s' => ⟨rfl, rfl⟩)
    refine ⟨by rw [fin.1], fin.2, fun hf => ?_, fun vs hb => ?_⟩
    · simp only [M.bind_failed _ _ _ hf]
    · simp only [M.bind_ok _ _ _ _ hb, M.pure_apply]

/-- **Invocation**: all arguments (left to right, by `args`) before the callee's body. -/
theorem call_args_first (p : Program) (n : Nat) (f : String) (as : List Expr) (s : State) :
    let ra := evalArgs p n as s
    let r := eval p (n + 1) (.call f as) s
    (ra.out.failed → r = ⟨ra.out.castErr, ra.st, ra.tr⟩) ∧
    (∀ vs, ra.out = .ok vs →
      let rc := callNamed p n f vs ra.st
      r = ⟨rc.out, rc.st, ra.tr ++ rc.tr⟩) := by
  dsimp only
  have eq : eval p (n + 1) (.call f as) = (evalArgs p n as >>= fun vs => callNamed p n f vs) := by
    simp only [eval]
  rw [eq]
  exact ⟨fun hf => by rw [M.bind_failed _ _ _ hf], fun vs h => by rw [M.bind_ok _ _ _ _ h]⟩

/-- **Array and dictionary literals**: array elements left to right (the trace is that of `evalArgs`);
dictionary entries one after the other, the key before the value within each entry. -/
theorem array_dict_literals (p : Program) (n : Nat) :
    (∀ ty es s, (eval p (n + 1) (.array ty es) s).tr = (evalArgs p n es s).tr) ∧
    (∀ k v rest s,
      let rk := eval p n k s
      let rv := eval p n v rk.st
      let rr := evalEntries p n rest rv.st
      let r := evalEntries p (n + 1) ((k, v) :: rest) s
      (rk.out.failed → r = ⟨rk.out.castErr, rk.st, rk.tr⟩) ∧
      (∀ vk, rk.out = .ok vk →
        (rv.out.failed → r = ⟨rv.out.castErr, rv.st, rk.tr ++ rv.tr⟩) ∧
        (∀ vv, rv.out = .ok vv → r.tr = rk.tr ++ (rv.tr ++ rr.tr) ∧ r.st = rr.st))) ∧
    (∀ kt vt es s, (eval p (n + 1) (.dict kt vt es) s).tr = (evalEntries p n es s).tr) := by
  refine ⟨fun ty es s => ?_, fun k v rest s => ?_, fun kt vt es s => ?_⟩
  · have eq : eval p (n + 1) (.array ty es) = (evalArgs p n es >>= fun vs => pure (.array (vs.map (box ty)))) := by
      simp only [eval]
    rw [eq]
    exact (M.bind_fin _ _ _ (fun x s' => ⟨rfl, rfl⟩)).1
  · dsimp only
    have eq : evalEntries p (n + 1) ((k, v) :: rest) =
        (eval p n k >>= fun vk => eval p n v >>= fun vv => evalEntries p n rest >>= fun kvs =>
          pure ((vk, vv) :: kvs)) := by
      simp only [evalEntries]
    rw [eq]
    refine ⟨fun hf => by rw [M.bind_failed _ _ _ hf], fun vk hk => ?_⟩
    rw [M.bind_ok _ _ _ _ hk]
    refine ⟨fun hf => by rw [M.bind_failed _ _ _ hf], fun vv hv => ?_⟩
    rw [M.bind_ok _ _ _ _ hv]
    have fin := M.bind_fin (evalEntries p n rest) (fun kvs => (pure ((vk, vv) :: kvs) : M _))
      (eval p n v (eval p n k s).st).st (fun x s' => ⟨rfl, rfl⟩)
    exact ⟨by rw [fin.1], fin.2⟩
  · have eq : eval p (n + 1) (.dict kt vt es) = (evalEntries p n es >>= fun kvs =>
        pure (.dict (kvs.foldl (fun acc kv => dictInsert acc (box kt kv.1) (box vt kv.2)) []))) := by
      simp only [eval]
    rw [eq]
    exact (M.bind_fin _ _ _ (fun x s' => ⟨rfl, rfl⟩)).1

/-- **Optional chaining**: the target is always evaluated; for a `nil` target neither the member is
read nor — for a method call — are the arguments evaluated; for a non-nil target the arguments are
evaluated right after the target. -/
theorem optional_chain (p : Program) (n : Nat) (a : Expr) (s : State) :
    let ra := eval p n a s
    (∀ f, ra.out = .ok .nil → eval p (n + 1) (.member true a f) s = ⟨.ok .nil, ra.st, ra.tr⟩) ∧
    (∀ f, (eval p (n + 1) (.member true a f) s).tr = ra.tr) ∧
    (∀ m as, ra.out = .ok .nil → eval p (n + 1) (.mcall true a m as) s = ⟨.ok .nil, ra.st, ra.tr⟩) ∧
    (∀ m as v, ra.out = .ok (.some v) →
      ∃ rest, (eval p (n + 1) (.mcall true a m as) s).tr = ra.tr ++ ((evalArgs p n as ra.st).tr ++ rest)) := by
  dsimp only
  refine ⟨fun f h => ?_, fun f => ?_, fun m as h => ?_, fun m as v h => ?_⟩
  · simp only [eval]
    rw [M.bind_ok _ _ _ _ h]; simp only [M.pure_apply, List.append_nil]
  · simp only [eval]
    refine (M.bind_fin _ _ _ (fun x s' => ?_)).1
    cases x with
    | nil => exact ⟨rfl, rfl⟩
    | some v =>
      dsimp only
      refine M.bind_quiet _ _ _ ⟨M.ofExcept_tr _ _, M.ofExcept_st _ _⟩ (fun r => ?_)
      cases r <;> exact ⟨rfl, rfl⟩
    | _ => exact ⟨rfl, rfl⟩
  · simp only [eval]
    rw [M.bind_ok _ _ _ _ h]; simp only [Bool.and_self, if_true, M.pure_apply, List.append_nil]
  · simp only [eval]
    rw [M.bind_ok _ _ _ _ h]
    simp only [Bool.and_false, Bool.false_eq_true, if_false]
    cases hargs : (evalArgs p n as (eval p n a s).st).out with
    | ok vs =>
      rw [M.bind_ok _ _ _ _ hargs]
      exact ⟨_, rfl⟩
    | userErr k => rw [M.bind_failed _ _ _ (failed_of (by intro x; simp [hargs]))]; exact ⟨[], by simp⟩
    | internalErr k => rw [M.bind_failed _ _ _ (failed_of (by intro x; simp [hargs]))]; exact ⟨[], by simp⟩
    | outOfFuel => rw [M.bind_failed _ _ _ (failed_of (by intro x; simp [hargs]))]; exact ⟨[], by simp⟩

/-- **Assignment and swap**: the target's sub-expressions (base before index) are evaluated before
the transferred value; a swap evaluates the left target, then the right target, and only then reads
and writes (which log nothing). -/
theorem assign_swap (p : Program) (n : Nat) (retTy : Ty) :
    -- index target: base, then index
    (∀ a i s,
      let rb := evalTarget p n a s
      let r := evalTarget p (n + 1) (.index a i) s
      (rb.out.failed → r = ⟨rb.out.castErr, rb.st, rb.tr⟩) ∧
      (∀ lv, rb.out = .ok lv → (lvRead lv rb.st).out.failed → r.tr = rb.tr) ∧
      (∀ lv c, rb.out = .ok lv → (lvRead lv rb.st).out = .ok c → r.tr = rb.tr ++ (eval p n i rb.st).tr)) ∧
    -- assignment: target, then value, then the write
    (∀ tg ty e s,
      let rt := evalTarget p n tg s
      let r := exec p (n + 1) retTy (.assign tg ty e) s
      (rt.out.failed → r = ⟨rt.out.castErr, rt.st, rt.tr⟩) ∧
      (∀ lv, rt.out = .ok lv → r.tr = rt.tr ++ (eval p n e rt.st).tr)) ∧
    -- swap: left target, right target; reads and writes are silent
    (∀ l lty r' rty s,
      let rl := evalTarget p n l s
      let rr := evalTarget p n r' rl.st
      let r := exec p (n + 1) retTy (.swap l lty r' rty) s
      (rl.out.failed → r = ⟨rl.out.castErr, rl.st, rl.tr⟩) ∧
      (∀ lv, rl.out = .ok lv → r.tr = rl.tr ++ rr.tr)) := by
  refine ⟨fun a i s => ?_, fun tg ty e s => ?_, fun l lty r' rty s => ?_⟩
  · dsimp only
    have eq : evalTarget p (n + 1) (.index a i) = (evalTarget p n a >>= fun lv => lvRead lv >>= fun _ =>
        eval p n i >>= fun vi => pure (lv.extend (.idx vi))) := by
      simp only [evalTarget]
    rw [eq]
    refine ⟨fun hf => by rw [M.bind_failed _ _ _ hf], fun lv h hr => ?_, fun lv c h hr => ?_⟩
    · rw [M.bind_ok _ _ _ _ h, M.bind_failed _ _ _ hr]
      simp only [(lvRead_tr lv _).1, List.append_nil]
    · rw [M.bind_ok _ _ _ _ h, M.bind_ok _ _ _ _ hr]
      simp only [(lvRead_tr lv _).1, (lvRead_tr lv _).2, List.nil_append]
      rw [(M.bind_fin _ _ _ (fun x s' => ⟨rfl, rfl⟩)).1]
  · dsimp only
    have eq : exec p (n + 1) retTy (.assign tg ty e) = (evalTarget p n tg >>= fun lv => eval p n e >>= fun v =>
        lvWrite lv (box ty v) >>= fun _ => pure .normal) := by
      simp only [exec]
    rw [eq]
    refine ⟨fun hf => by rw [M.bind_failed _ _ _ hf], fun lv h => ?_⟩
    rw [M.bind_ok _ _ _ _ h]
    simp only
    rw [M.bind_tr_fin _ _ _ (fun v s' => M.bind_tr_nil _ _ _ (lvWrite_tr _ _ _) (fun _ _ => rfl))]
  · dsimp only
    have eq : exec p (n + 1) retTy (.swap l lty r' rty) = (evalTarget p n l >>= fun ll =>
        evalTarget p n r' >>= fun lr => lvRead ll >>= fun vl => lvRead lr >>= fun vr =>
        lvWrite ll (box lty vr) >>= fun _ => lvWrite lr (box rty vl) >>= fun _ => pure .normal) := by
      simp only [exec]
    rw [eq]
    refine ⟨fun hf => by rw [M.bind_failed _ _ _ hf], fun lv h => ?_⟩
    rw [M.bind_ok _ _ _ _ h]
    simp only
    rw [M.bind_tr_fin _ _ _ (fun lr s' =>
      M.bind_tr_nil _ _ _ (lvRead_tr _ _).1 (fun vl s2 =>
      M.bind_tr_nil _ _ _ (lvRead_tr _ _).1 (fun vr s3 =>
      M.bind_tr_nil _ _ _ (lvWrite_tr _ _ _) (fun _ s4 =>
      M.bind_tr_nil _ _ _ (lvWrite_tr _ _ _) (fun _ _ => rfl)))))]

/-! ### Non-vacuity: concrete programs with logging calls (decided by evaluation) -/

private def tb : FunDecl := ⟨"tb", [⟨"id", .string⟩, ⟨"v", .bool⟩], .bool,
  [.expr (.call "log" [.var "id"]), .ret (some (.var "v"))]⟩
private def ti : FunDecl := ⟨"ti", [⟨"id", .string⟩, ⟨"v", .int .int⟩], .int .int,
  [.expr (.call "log" [.var "id"]), .ret (some (.var "v"))]⟩
private def to : FunDecl := ⟨"to", [⟨"id", .string⟩, ⟨"v", .opt (.int .int)⟩], .opt (.int .int),
  [.expr (.call "log" [.var "id"]), .ret (some (.var "v"))]⟩
private def prog : Program := ⟨[tb, ti, to], []⟩
private def cb (id : String) (b : Bool) : Expr := .call "tb" [.strLit id, .boolLit b]
private def ci (id : String) (n : Int) : Expr := .call "ti" [.strLit id, .intLit .int n]

-- `tb("#1", false) && tb("#2", true)`: the right call is not evaluated
example : (eval prog 12 (.and (cb "#1" false) (cb "#2" true)) ⟨[]⟩).tr = ["\"#1\""] := by decide
-- `ti("#1", 5) - ti("#2", 7)`: left then right, result -2
example : (eval prog 12 (.binary .sub (ci "#1" 5) (ci "#2" 7)) ⟨[]⟩).tr = ["\"#1\"", "\"#2\""] := by decide
-- `to("#1", 3) ?? ti("#2", 7)`: left is non-nil, the right call is not evaluated
example : (eval prog 12 (.coalesce (.int .int) (.call "to" [.strLit "#1", .intLit .int 3]) (ci "#2" 7)) ⟨[]⟩).tr
    = ["\"#1\""] := by decide
-- `a[ti("#1", 0)] = ti("#2", 9)`: index before value; the hypotheses of `assign_swap` hold with a real write
example : (exec prog 14 .void (.assign (.index (.var "a") (ci "#1" 0)) (.int .int) (ci "#2" 9))
    ⟨[("a", .array [.int .int 1])]⟩).tr = ["\"#1\"", "\"#2\""] := by decide

/-- **Known finding `conditional-result-not-boxed`** (witness, proved about the model of the
interpreter): in `(true ? 1 : nil) ?? ti("#2", 5)` the left operand evaluates to the non-nil value `1`
(the interpreter does not box the result of a conditional expression into its optional type), yet the
right operand is evaluated (its id is logged) and the result is `5`.  The VM returns `1` without
evaluating the right operand. -/
theorem nilcoalesce_witness :
    let left : Expr := .cond (.boolLit true) (.intLit .int 1) .nilLit
    (eval prog 12 left ⟨[]⟩).out = .ok (.int .int 1) ∧
    (eval prog 13 (.coalesce (.int .int) left (ci "#2" 5)) ⟨[]⟩).tr = ["\"#2\""] ∧
    (eval prog 13 (.coalesce (.int .int) left (ci "#2" 5)) ⟨[]⟩).out = .ok (.int .int 5) := by
  dsimp only
  exact ⟨rfl, by decide, rfl⟩

open Verif.Model.Lang.VM in
/-- **vm_same_partial** (`C52_vm_same`, instance of the C34 simulation): the log trace of the compiled
program on the model stack machine is identical to the evaluator's.  For every program `p` that the
model compiler accepts (`compile p = some tbl`) and that lies in the fragment `progOk` of
`C34.simulation_call_partial` — no structs, functions with at most one parameter, statements `let`/`var`,
assignment to a variable, `if`/`else`, `while` with `break`/`continue`, `return`, expression statements,
where each value / statement expression / condition is call-free or a single invocation (`log`, `assert`,
user functions, recursion) with call-free arguments — and every fuel `n` for which the evaluator's `run p n`
ends with a value `v`: the machine `runVM tbl m` (some fuel `m`) ends with the same value and **exactly
the same sequence of log lines**, the lines of all activations in the same order.
Missing: invocations nested inside operands and argument lists (the forms whose relative
order `binary`, `args`, `and_`, `or_`, … above fix for the evaluator — for these the two engines are tied
only by the stream `evalorder`), runs that end in an error (the trace up to the error), functions with
several parameters, L1. -/
theorem vm_same_partial (p : Program) (tbl : Table) (hc : compile p = some tbl) (hok : progOk p = true)
    (n : Nat) (v : Value) (h : (run p n).out = .ok v) :
    ∃ m, (runVM tbl m).tr = (run p n).tr ∧ (runVM tbl m).out = .ok v := by
  obtain ⟨m, hm⟩ := sim_program p tbl (compile_tableOk p tbl hc hok) n v _ _ (Verif.Model.Lang.VM.Res.eta_ok h)
  exact ⟨m, by rw [hm], by rw [hm]⟩

open Verif.Model.Lang.VM in
-- non-vacuity: the example program of C34 (`f` logs its argument, `main` calls it in a loop whose
-- condition calls `small`, and logs)
-- is in the fragment and its evaluator trace is "0", "1", "2"
example : (compile exProg).isSome = true ∧ progOk exProg = true ∧
    (match (run exProg 40).out with | .ok _ => true | _ => false) = true ∧
    (run exProg 40).tr = ["0", "1", "2"] := by
  refine ⟨by decide, by decide, by decide, by decide⟩

end Verif.Properties.C52
