import Verif.Proofs.Access.Rules
/-!
# C50 — Access modifiers and constant fields are enforced by the checker

Model: `Verif.Model.AccessCheck` (port of `isReadableMember` / `isWriteableMember` /
`containingContractKindedType` / `LocationsInSameAccount` / the access part of
`visitMemberExpressionAssignment`; entitlement permission = M-AUTH's `permits`), in the checker's
production mode (`AccessCheckModeStrict`).  Spec: `Verif.Spec.AccessSpec` (declarative scope rule).
Tie: stream `access` (generated multi-account, multi-contract programs checked by the real checker).
-/
namespace Verif.Properties.C50
open Verif.Model.AccessCheck Verif.Model.Auth Verif.Spec.AccessSpec Verif.Proofs.Access

/-- **Reads and calls.**  For every site and member (entitlement sets non-empty, reference
    authorizations those a reference type can carry), the port accepts the access exactly when
    the declarative rule permits it. -/
theorem read_iff (s : Site) (m : Member)
    (hreq : ∀ k es, m.access = .set k es → es ≠ [])
    (hheld : ∀ held, s.viaRef = some held → Verif.Spec.Auth.IsAuth held) :
    readable .strict s m = true ↔ specPermits s m :=
  Verif.Proofs.Access.read_iff s m hreq hheld

/-- non-vacuity of `read_iff`: an `access(contract)` member of a resource nested in contract `C`
    is readable from a sibling struct of the same contract, and not from another contract of the
    same account -/
example :
    let c : CType := ⟨.address 1 "C", [("R", .resource), ("C", .contract)]⟩
    let m : Member := ⟨.prim .contract, c, false, false⟩
    readable .strict ⟨.address 1 "C", [("S", .struct), ("C", .contract)], none⟩ m = true ∧
    readable .strict ⟨.address 1 "D", [("D", .contract)], none⟩ m = false := by decide

/-- **Monotonicity.**  As sets of permitted sites, `self ⊆ contract ⊆ account ⊆ all` (same
    declaring composite). -/
theorem monotone (s : Site) (c : CType) (l r : Bool) :
    (readable .strict s ⟨.prim .self, c, l, r⟩ = true → readable .strict s ⟨.prim .contract, c, l, r⟩ = true) ∧
    (readable .strict s ⟨.prim .contract, c, l, r⟩ = true → readable .strict s ⟨.prim .account, c, l, r⟩ = true) ∧
    (readable .strict s ⟨.prim .account, c, l, r⟩ = true → readable .strict s ⟨.prim .all, c, l, r⟩ = true) :=
  Verif.Proofs.Access.monotone s c l r

/-- **Assignments.**  The port reports no access error for `target.f = v` exactly when the site
    lies inside the declaring composite and, for a `let` field, the assignment is the initializing
    one (`self.f` in the initializer, not yet initialized); a resource field is not re-assigned in
    the initializer. -/
theorem write_iff (s : Site) (m : Member) (c : AssignCtx) :
    assignErrs .strict s m c = [] ↔ specAssignable s m c :=
  Verif.Proofs.Access.write_iff s m c

/-- non-vacuity of `write_iff`: a second assignment to a `let` field in the initializer is rejected,
    the first accepted; outside the declaring composite nothing is assignable -/
example :
    let c : CType := ⟨.address 1 "C", [("R", .resource), ("C", .contract)]⟩
    let m : Member := ⟨.prim .all, c, true, false⟩
    let inR : Site := ⟨.address 1 "C", [("R", .resource), ("C", .contract)], none⟩
    assignErrs .strict inR m ⟨true, true, false⟩ = [] ∧
    assignErrs .strict inR m ⟨true, true, true⟩ = [.fieldReinitialization] ∧
    assignErrs .strict ⟨.address 1 "C", [("C", .contract)], none⟩ ⟨.prim .all, c, false, false⟩ ⟨false, false, false⟩ =
      [.invalidAssignmentAccess] := by decide

end Verif.Properties.C50
