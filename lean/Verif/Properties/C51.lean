/-
C51 — Internal ordered collections behave like their models.

Models: Verif.Model.DS.{OrderedMap,BiMap,PersistentSet,IntervalST} (ports of common/orderedmap,
common/bimap, common/persistent, common/intervalst).  Specs: Verif.Spec.DS.
Only statements and their final proofs live here; lemmas are in Verif.Proofs.DS.*.
-/
import Verif.Proofs.DS.OrderedMap
import Verif.Proofs.DS.BiMap
namespace Verif.Properties.C51
open Verif.DS Verif.Model.DS

/-! ## ordered map -/

/-- **Refinement, every operation sequence.**  Whatever the initial receivers (each of the registers
    either `orderedmap.New(..)` or the zero value `&OrderedMap{}`) and whatever the sequence of
    operations (`Set Get Contains GetPair Delete Len Oldest Newest Pair.Next Pair.Prev Foreach
    ForeachWithIndex ForeachWithError ForAllKeys ForAnyKey KeySetIsDisjointFrom KeySetIntersection
    KeySetUnion SetAll Clear`, with arbitrary keys, values, predicates and register aliasing), the
    code-shaped model (index map + linked list) produces exactly the observations — return values
    and callback invocation sequences, hence lookups and iteration order — of the insertion-ordered
    association list. -/
theorem orderedmap_refines {K V : Type} [DecidableEq K] (zeroValue : Nat → Bool) (ops : List (OMOp K V)) :
    (OrderedMap.impl K V).run ((OrderedMap.impl K V).init zeroValue) ops =
      (Verif.Spec.DS.OM.impl K V).run ((Verif.Spec.DS.OM.impl K V).init zeroValue) ops :=
  Verif.Proofs.DS.OM.model_sim.run_eq ops (Verif.Proofs.DS.OM.model_sim.init zeroValue)

example : (OrderedMap.impl Nat Nat).run ((OrderedMap.impl Nat Nat).init (fun r => r == 0))
    [.any 0 (fun _ => true), .set 0 3 7, .set 0 1 8, .set 0 3 9, .del 0 1, .set 0 1 5, .each 0, .any 0 (· < 2)] =
    [.boolKeys false [], .val none, .val none, .val (some 7), .val (some 8), .val none,
     .pairs [(3, 9), (1, 5)], .boolKeys true [3, 1]] := by decide

/-- The spec's `ForAnyKey`/`ForAllKeys` results are the plain `any`/`all` over the keys in insertion
    order (so: `false` / `true` on every empty map, zero value included). -/
theorem orderedmap_spec_forAny_forAll {K V : Type} [DecidableEq K] (s : List (K × V)) (p : K → Bool) :
    ((Verif.Spec.DS.OM.impl K V).forAnyKey s p).1 = (s.map Prod.fst).any p ∧
    ((Verif.Spec.DS.OM.impl K V).forAllKeys s p).1 = (s.map Prod.fst).all p :=
  ⟨Verif.Proofs.DS.OM.visitUntil_fst p _, Verif.Proofs.DS.OM.visitUntil_not_fst p _⟩

/-- `ForAnyKey` on the zero value `&OrderedMap{}` is `false` and calls the predicate on no key
    (the fixed code; before `fix:` 2fef6c8 it returned `true`). -/
theorem orderedmap_forAnyKey_zero {K V : Type} [DecidableEq K] (p : K → Bool) :
    OrderedMap.forAnyKey (OrderedMap.zero : OrderedMap.OM K V) p = (false, []) := rfl

/-! ## bidirectional map -/

/-- **Refinement, every operation sequence** from `NewBiMap()`: same observations as the finite
    one-to-one relation. -/
theorem bimap_refines {K V : Type} [DecidableEq K] [DecidableEq V] (ops : List (BMOp K V)) :
    BiMap.run (BiMap.new : BiMap.BM K V) ops = Verif.Spec.DS.BM.run [] ops :=
  Verif.Proofs.DS.BM.run_sim Verif.Proofs.DS.BM.R_new ops

/-- **forward and backward stay mutually inverse** after every operation sequence. -/
theorem bimap_inverse {K V : Type} [DecidableEq K] [DecidableEq V] (ops : List (BMOp K V)) (k : K) (v : V) :
    BiMap.get (BiMap.after (BiMap.new : BiMap.BM K V) ops) k = some v ↔
      BiMap.getInverse (BiMap.after BiMap.new ops) v = some k :=
  Verif.Proofs.DS.BM.inverse_of_R (Verif.Proofs.DS.BM.after_sim Verif.Proofs.DS.BM.R_new ops) k v

/-- **`Insert` evicts both stale pairs**: in any reachable state `Insert k v` succeeds, relates `k`
    and `v` in both directions, removes the old value of `k` from the backward map and the old key
    of `v` from the forward map, and leaves all pairs not mentioning `k` or `v` alone. -/
theorem bimap_insert_evicts {K V : Type} [DecidableEq K] [DecidableEq V] (ops : List (BMOp K V)) (k : K) (v : V) :
    let m := BiMap.after (BiMap.new : BiMap.BM K V) ops
    ∃ m', BiMap.insert m k v = some m' ∧ BiMap.get m' k = some v ∧ BiMap.getInverse m' v = some k ∧
      (∀ v0, BiMap.get m k = some v0 → v0 ≠ v → BiMap.getInverse m' v0 = none) ∧
      (∀ k0, BiMap.getInverse m v = some k0 → k0 ≠ k → BiMap.get m' k0 = none) ∧
      (∀ k' v', k' ≠ k → v' ≠ v → (BiMap.get m' k' = some v' ↔ BiMap.get m k' = some v')) :=
  Verif.Proofs.DS.BM.insert_evicts_of_R (Verif.Proofs.DS.BM.after_sim Verif.Proofs.DS.BM.R_new ops) k v

example : BiMap.run (BiMap.new : BiMap.BM Nat Nat) [.insert 1 2, .insert 1 3, .insert 4 3, .get 1, .getInverse 3, .getInverse 2, .size] =
    [.done, .done, .done, .val none, .key (some 4), .key none, .nat 1] := by decide

/-- The zero value `BiMap{}` (nil maps): every read sees the empty relation and `Insert` is a Go
    panic that leaves the receiver unchanged — the zero value is outside the spec (like a nil map). -/
theorem bimap_zero_value {K V : Type} [DecidableEq K] [DecidableEq V] (ops : List (BMOp K V)) :
    BiMap.after (BiMap.BM.zero : BiMap.BM K V) ops = .zero ∧
    ∀ k v, BiMap.insert (BiMap.BM.zero : BiMap.BM K V) k v = none ∧ BiMap.get (.zero : BiMap.BM K V) k = none ∧
      BiMap.getInverse (.zero : BiMap.BM K V) v = none :=
  ⟨Verif.Proofs.DS.BM.after_zero ops, fun _ _ => ⟨rfl, rfl, rfl⟩⟩

end Verif.Properties.C51
