/-
C51 — Internal ordered collections behave like their models.

Models: Verif.Model.DS.{OrderedMap,BiMap,PersistentSet,IntervalST} (ports of common/orderedmap,
common/bimap, common/persistent, common/intervalst).  Specs: Verif.Spec.DS.
Only statements and their final proofs live here; lemmas are in Verif.Proofs.DS.*.
-/
import Verif.Proofs.DS.OrderedMap
import Verif.Proofs.DS.BiMap
import Verif.Proofs.DS.IntervalST
import Verif.Proofs.DS.PersistentSet
namespace Verif.Properties.C51
open Verif.DS Verif.Model.DS

/-! ## ordered map -/

/-- **Refinement, every operation sequence.**  Whatever the initial receivers (each of the registers
    either `orderedmap.New(..)` or the zero value `&OrderedMap{}`) and whatever the sequence of
    operations (`Set Get Contains GetPair Delete Len Oldest Newest Pair.Next Pair.Prev Foreach
    ForeachWithIndex ForeachWithError ForAllKeys ForAnyKey KeySetIsDisjointFrom KeySetIntersection
    KeySetUnion SetAll Clear`, with arbitrary keys, values, predicates and register aliasing), the
    code-shaped model (index map + linked list) produces exactly the observations — return values
    and callback invocation sequences, hence lookups and iteration order — of the insertion-ordered
    association list. -/
theorem orderedmap_refines {K V : Type} [DecidableEq K] (zeroValue : Nat → Bool) (ops : List (OMOp K V)) :
    (OrderedMap.impl K V).run ((OrderedMap.impl K V).init zeroValue) ops =
      (Verif.Spec.DS.OM.impl K V).run ((Verif.Spec.DS.OM.impl K V).init zeroValue) ops :=
  Verif.Proofs.DS.OM.model_sim.run_eq ops (Verif.Proofs.DS.OM.model_sim.init zeroValue)

example : (OrderedMap.impl Nat Nat).run ((OrderedMap.impl Nat Nat).init (fun r => r == 0))
    [.any 0 (fun _ => true), .set 0 3 7, .set 0 1 8, .set 0 3 9, .del 0 1, .set 0 1 5, .each 0, .any 0 (· < 2)] =
    [.boolKeys false [], .val none, .val none, .val (some 7), .val (some 8), .val none,
     .pairs [(3, 9), (1, 5)], .boolKeys true [3, 1]] := by decide

/-- The spec's `ForAnyKey`/`ForAllKeys` results are the plain `any`/`all` over the keys in insertion
    order (so: `false` / `true` on every empty map, zero value included). -/
theorem orderedmap_spec_forAny_forAll {K V : Type} [DecidableEq K] (s : List (K × V)) (p : K → Bool) :
    ((Verif.Spec.DS.OM.impl K V).forAnyKey s p).1 = (s.map Prod.fst).any p ∧
    ((Verif.Spec.DS.OM.impl K V).forAllKeys s p).1 = (s.map Prod.fst).all p :=
  ⟨Verif.Proofs.DS.OM.visitUntil_fst p _, Verif.Proofs.DS.OM.visitUntil_not_fst p _⟩

/-- `ForAnyKey` on the zero value `&OrderedMap{}` is `false` and calls the predicate on no key
    (the fixed code; before `fix:` 2fef6c8 it returned `true`). -/
theorem orderedmap_forAnyKey_zero {K V : Type} [DecidableEq K] (p : K → Bool) :
    OrderedMap.forAnyKey (OrderedMap.zero : OrderedMap.OM K V) p = (false, []) := rfl

/-! ## bidirectional map -/

/-- **Refinement, every operation sequence** from `NewBiMap()`: same observations as the finite
    one-to-one relation. -/
theorem bimap_refines {K V : Type} [DecidableEq K] [DecidableEq V] (ops : List (BMOp K V)) :
    BiMap.run (BiMap.new : BiMap.BM K V) ops = Verif.Spec.DS.BM.run [] ops :=
  Verif.Proofs.DS.BM.run_sim Verif.Proofs.DS.BM.R_new ops

/-- **forward and backward stay mutually inverse** after every operation sequence. -/
theorem bimap_inverse {K V : Type} [DecidableEq K] [DecidableEq V] (ops : List (BMOp K V)) (k : K) (v : V) :
    BiMap.get (BiMap.after (BiMap.new : BiMap.BM K V) ops) k = some v ↔
      BiMap.getInverse (BiMap.after BiMap.new ops) v = some k :=
  Verif.Proofs.DS.BM.inverse_of_R (Verif.Proofs.DS.BM.after_sim Verif.Proofs.DS.BM.R_new ops) k v

/-- **`Insert` evicts both stale pairs**: in any reachable state `Insert k v` succeeds, relates `k`
    and `v` in both directions, removes the old value of `k` from the backward map and the old key
    of `v` from the forward map, and leaves all pairs not mentioning `k` or `v` alone. -/
theorem bimap_insert_evicts {K V : Type} [DecidableEq K] [DecidableEq V] (ops : List (BMOp K V)) (k : K) (v : V) :
    let m := BiMap.after (BiMap.new : BiMap.BM K V) ops
    ∃ m', BiMap.insert m k v = some m' ∧ BiMap.get m' k = some v ∧ BiMap.getInverse m' v = some k ∧
      (∀ v0, BiMap.get m k = some v0 → v0 ≠ v → BiMap.getInverse m' v0 = none) ∧
      (∀ k0, BiMap.getInverse m v = some k0 → k0 ≠ k → BiMap.get m' k0 = none) ∧
      (∀ k' v', k' ≠ k → v' ≠ v → (BiMap.get m' k' = some v' ↔ BiMap.get m k' = some v')) :=
  Verif.Proofs.DS.BM.insert_evicts_of_R (Verif.Proofs.DS.BM.after_sim Verif.Proofs.DS.BM.R_new ops) k v

example : BiMap.run (BiMap.new : BiMap.BM Nat Nat) [.insert 1 2, .insert 1 3, .insert 4 3, .get 1, .getInverse 3, .getInverse 2, .size] =
    [.done, .done, .done, .val none, .key (some 4), .key none, .nat 1] := by decide

/-- The zero value `BiMap{}` (nil maps): every read sees the empty relation and `Insert` is a Go
    panic that leaves the receiver unchanged — the zero value is outside the spec (like a nil map). -/
theorem bimap_zero_value {K V : Type} [DecidableEq K] [DecidableEq V] (ops : List (BMOp K V)) :
    BiMap.after (BiMap.BM.zero : BiMap.BM K V) ops = .zero ∧
    ∀ k v, BiMap.insert (BiMap.BM.zero : BiMap.BM K V) k v = none ∧ BiMap.get (.zero : BiMap.BM K V) k = none ∧
      BiMap.getInverse (.zero : BiMap.BM K V) v = none :=
  ⟨Verif.Proofs.DS.BM.after_zero ops, fun _ _ => ⟨rfl, rfl, rfl⟩⟩

/-! ## persistent ordered set

Model and spec run the *same* set-level code (`PSItems.step` in `Model/DS/Ops.lean`: parent chain on a
heap, `Contains ForEach IsEmpty Add AddIntersection Clone`) and differ only in the `items` field:
`*orderedmap.OrderedMap[T, struct{}]` (nil, then the zero value) against a plain list. -/

/-- **Refinement, every operation sequence.**  From the empty heap with all registers nil, whatever
    the sequence of `NewOrderedSet(parent)`, `Clone`, `Add`, `Contains`, `ForEach` (with and without
    an early stop), `AddIntersection`, `IsEmpty` (arbitrary items, register aliasing, shared
    ancestors, nil receivers and their nil-pointer panics), the code-shaped model (objects whose
    `items` is nil or an ordered map starting as the zero value) produces exactly the observations of
    the spec (objects owning a plain list of items, seen before the ancestors' items). -/
theorem pset_refines {T : Type} [DecidableEq T] (ops : List (PSOp T)) :
    (PersistentSet.items T).run (PersistentSet.items T).init ops =
      (Verif.Spec.DS.PS.items T).run (Verif.Spec.DS.PS.items T).init ops :=
  Verif.Proofs.DS.PS.run_sim Verif.Proofs.DS.PS.model_itemsSim Verif.Proofs.DS.PS.init_sim ops

/-- what the spec machine computes, in closed form: `Contains` is membership in the concatenation of
    the own lists along the parent chain, `ForEach` visits exactly that concatenation, `IsEmpty` says
    it is empty. -/
theorem pset_spec_meaning {T : Type} [DecidableEq T] (h : (Verif.Spec.DS.PS.items T).Heap) (s : Option Nat) (x : T) :
    PSItems.setContains (Verif.Spec.DS.PS.items T) h s x = (PSItems.forEach (Verif.Spec.DS.PS.items T) h s).contains x ∧
    PSItems.isEmpty (Verif.Spec.DS.PS.items T) h s = (PSItems.forEach (Verif.Spec.DS.PS.items T) h s).isEmpty :=
  ⟨Verif.Proofs.DS.PS.spec_contains h s x, Verif.Proofs.DS.PS.spec_isEmpty h s⟩

/-- `items`-level simulation: the ordered-map field behaves as the list of its keys in insertion
    order, for `Contains`, `Set` of a new item (the only way `Add` calls it), iteration and emptiness. -/
theorem pset_items_refine {T : Type} [DecidableEq T] :
    Verif.Proofs.DS.PS.RI (PersistentSet.items T).nil (Verif.Spec.DS.PS.items T).nil ∧
    ∀ (i : Option (OrderedMap.OM T Unit)) (l : List T), Verif.Proofs.DS.PS.RI i l →
      (∀ x, (PersistentSet.items T).contains i x = (Verif.Spec.DS.PS.items T).contains l x) ∧
      (∀ x, (PersistentSet.items T).contains i x = false →
        Verif.Proofs.DS.PS.RI ((PersistentSet.items T).add i x) ((Verif.Spec.DS.PS.items T).add l x)) ∧
      (PersistentSet.items T).list i = (Verif.Spec.DS.PS.items T).list l ∧
      (PersistentSet.items T).nonEmpty i = (Verif.Spec.DS.PS.items T).nonEmpty l :=
  ⟨rfl, fun _ _ h => ⟨Verif.Proofs.DS.PS.items_contains h, Verif.Proofs.DS.PS.items_add h,
    Verif.Proofs.DS.PS.items_list h, Verif.Proofs.DS.PS.items_nonEmpty h⟩⟩

example : (PersistentSet.items Nat).run (PersistentSet.items Nat).init
    [.mk 0 none, .add 0 1, .clone 1 0, .add 1 2, .add 0 2, .each 1, .each 0, .has 1 1, .add 2 5] =
    [.done, .done, .done, .done, .done, .items [2, 1, 2], .items [1, 2], .bool true, .goPanic] := by decide

/-! ## interval tree -/
section ist
open Verif.Model.DS.IntervalST Verif.Proofs.DS.IST

/-- the tree after a sequence of `Put`s, each with its own coin sequence (oracle) -/
def istAfter {T : Type} : List (Interval × T × List Bool) → Tree T
  | [] => .nil
  | (i, v, o) :: rest => put (istAfter rest) i v o

/-- the multiset spec: the entries that were put -/
def istSpec {T : Type} (puts : List (Interval × T × List Bool)) : List (Interval × T) :=
  puts.map (fun x => (x.1, x.2.1))

/-- **Invariant under every oracle.**  After any sequence of `Put`s, whatever the outcomes of the
    random choices in `randomizedInsert`: every node caches the size and the max right endpoint of
    its subtree (`Fixed`: what `check()` tests, at every node), the in-order traversal is sorted by
    `(min, max)` (BST order, duplicates allowed), and the tree holds exactly the entries that were
    put, as a multiset. -/
theorem ist_invariant {T : Type} (puts : List (Interval × T × List Bool)) :
    Inv (istAfter puts) ∧ (entries (istAfter puts)).Perm (istSpec puts) := by
  induction puts with
  | nil => exact ⟨⟨trivial, List.Pairwise.nil⟩, List.Perm.refl _⟩
  | cons x rest ih =>
    obtain ⟨i, v, o⟩ := x
    exact ⟨⟨fixed_randomizedInsert ih.1.1 i v o, sorted_randomizedInsert ih.1.2 i v o⟩,
      (entries_randomizedInsert _ i v o).trans (ih.2.cons _)⟩

/-- the cached fields mean what they say: `size` is the number of entries and `max` is the largest
    right endpoint in the subtree -/
theorem ist_cached_fields {T : Type} (puts : List (Interval × T × List Bool)) :
    (istAfter puts).size = puts.length ∧
    (∀ e ∈ istSpec puts, ple (some e.1.max) (istAfter puts).maxPos) ∧
    (puts ≠ [] → ∃ e ∈ istSpec puts, (istAfter puts).maxPos = some e.1.max) := by
  have h := ist_invariant puts
  have hm := maxPos_spec h.1.1
  refine ⟨by rw [size_eq_length h.1.1, h.2.length_eq]; simp [istSpec], ?_, ?_⟩
  · intro e he; exact hm.1 e (h.2.mem_iff.2 he)
  · intro hne
    have : istAfter puts ≠ .nil := by
      intro hnil
      have := h.2.length_eq
      rw [hnil] at this
      cases puts with
      | nil => exact hne rfl
      | cons => simp [entries, istSpec] at this
    obtain ⟨e, he, hmax⟩ := hm.2 this
    exact ⟨e, h.2.mem_iff.1 he, hmax⟩

/-- **`Search` is sound and complete**: it returns an entry that was put and contains the point, and
    it returns one whenever some entry contains the point (which one depends on the random shape). -/
theorem ist_search_sound_complete {T : Type} (puts : List (Interval × T × List Bool)) (p : Int) :
    (∀ e, search (istAfter puts) p = some e → e ∈ istSpec puts ∧ e.1.contains p = true) ∧
    ((∃ e ∈ istSpec puts, e.1.contains p = true) → (search (istAfter puts) p).isSome = true) := by
  have h := ist_invariant puts
  refine ⟨fun e he => ⟨h.2.mem_iff.1 (search_sound he).1, (search_sound he).2⟩, ?_⟩
  rintro ⟨e, he, hc⟩
  exact search_complete h.1 ⟨e, h.2.mem_iff.2 he, hc⟩

/-- the same for `SearchInterval` (some entry intersecting the query interval) -/
theorem ist_searchInterval_sound_complete {T : Type} (puts : List (Interval × T × List Bool)) (q : Interval) :
    (∀ e, searchInterval (istAfter puts) q = some e → e ∈ istSpec puts ∧ e.1.intersects q = true) ∧
    ((∃ e ∈ istSpec puts, e.1.intersects q = true) → (searchInterval (istAfter puts) q).isSome = true) := by
  have h := ist_invariant puts
  refine ⟨fun e he => ⟨h.2.mem_iff.1 (searchInterval_sound he).1, (searchInterval_sound he).2⟩, ?_⟩
  rintro ⟨e, he, hc⟩
  exact searchInterval_complete h.1 ⟨e, h.2.mem_iff.2 he, hc⟩

/-- **`Get`/`Contains` are exact** on intervals: a value stored under exactly that interval, iff one exists. -/
theorem ist_get_exact {T : Type} (puts : List (Interval × T × List Bool)) (q : Interval) :
    (∀ v, IntervalST.get (istAfter puts) q = some v → (q, v) ∈ istSpec puts) ∧
    ((∃ v, (q, v) ∈ istSpec puts) ↔ contains (istAfter puts) q = true) := by
  have h := ist_invariant puts
  refine ⟨fun v hv => h.2.mem_iff.1 (get_sound hv), ?_, ?_⟩
  · rintro ⟨v, hv⟩
    exact get_complete h.1 ⟨v, h.2.mem_iff.2 hv⟩
  · intro hc
    unfold contains at hc
    cases hg : IntervalST.get (istAfter puts) q with
    | none => rw [hg] at hc; simp at hc
    | some v => exact ⟨v, h.2.mem_iff.1 (get_sound hg)⟩

/-- **`SearchAll` is exact**: after any sequence of `Put`s under any oracles, `SearchAll p` returns
    exactly the entries that were put and whose interval contains `p`, as a multiset (each stored
    duplicate once; the order is the visiting order node – left subtree – right subtree restricted to
    the hits, which depends on the random shape), and the internal `found` flag says whether there is
    one.  The pruning (`left.max < p` skips the left subtree; nothing found in a left subtree that
    reaches `p` skips the right one) loses no entry. -/
theorem ist_searchAll_exact {T : Type} (puts : List (Interval × T × List Bool)) (p : Int) :
    (searchAllTop (istAfter puts) p).Perm ((istSpec puts).filter (fun e => e.1.contains p)) ∧
    searchAllTop (istAfter puts) p = (preorder (istAfter puts)).filter (fun e => e.1.contains p) ∧
    (searchAll (istAfter puts) p []).1 = (istSpec puts).any (fun e => e.1.contains p) := by
  have h := ist_invariant puts
  refine ⟨?_, searchAllTop_exact h.1 p, ?_⟩
  · rw [searchAllTop_exact h.1 p]
    exact (hits_perm _ p).trans (h.2.filter _)
  · rw [searchAll_exact h.1 p []]
    show (!(hits (istAfter puts) p).isEmpty) = _
    rw [Bool.eq_iff_iff]
    simp only [Bool.not_eq_true', List.isEmpty_eq_false_iff, ne_eq, hits_eq_nil_iff, List.any_eq_true]
    constructor
    · intro hne
      by_contra hno
      exact hne (fun e he => by
        cases hc : e.1.contains p with
        | false => rfl
        | true => exact absurd ⟨e, h.2.mem_iff.1 he, hc⟩ hno)
    · rintro ⟨e, he, hc⟩ hall
      rw [hall e (h.2.mem_iff.2 he)] at hc; cases hc

example : searchAllTop (istAfter [(⟨1, 3⟩, 8, [false]), (⟨1, 3⟩, 7, []), (⟨5, 9⟩, 1, []), (⟨2, 6⟩, 4, [false, false])]) 2 =
    [(⟨1, 3⟩, 7), (⟨1, 3⟩, 8), (⟨2, 6⟩, 4)] := by decide

example : search (istAfter [(⟨1, 3⟩, 8, [false]), (⟨1, 3⟩, 7, []), (⟨5, 9⟩, 1, [])]) 2 = some (⟨1, 3⟩, 7) := by decide
example : search (istAfter [(⟨1, 3⟩, 8, [false]), (⟨1, 3⟩, 7, []), (⟨5, 9⟩, 1, [])]) 4 = none := by decide

end ist

end Verif.Properties.C51
