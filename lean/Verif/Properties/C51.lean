/-
C51 — Internal ordered collections behave like their models.

Models: Verif.Model.DS.{OrderedMap,BiMap,PersistentSet,IntervalST} (ports of common/orderedmap,
common/bimap, common/persistent, common/intervalst).  Specs: Verif.Spec.DS.
Only statements and their final proofs live here; lemmas are in Verif.Proofs.DS.*.
-/
import Verif.Model.DS.OrderedMap
import Verif.Spec.DS
namespace Verif.Properties.C51
open Verif.DS Verif.Model.DS

/-- `ForAnyKey` on the zero value `&OrderedMap{}` is `false` and calls the predicate on no key
    (the fixed code; before `fix:` 2fef6c8 it returned `true`). -/
theorem orderedmap_forAnyKey_zero {K V : Type} [DecidableEq K] (p : K → Bool) :
    OrderedMap.forAnyKey (OrderedMap.zero : OrderedMap.OM K V) p = (false, []) := rfl

end Verif.Properties.C51
