import Verif.Proofs.Str
/-!
# C19 — Strings behave as sequences of grapheme clusters of their normalized form

Model: `Verif.Model.Str` — ports of `interpreter/value_string.go` at the byte level (offsets, the
cluster iterator, `strings.Index`, the boundary tests), parametric in the segmentation: a string is
*any* list of non-empty clusters (`Str.wf`).  Spec: `Verif.Spec.Str` — the same operations on the
cluster list, without byte offsets.  NFC and UAX #29 themselves are trusted libraries.
-/
namespace Verif.Properties.C19
open Verif.Model.Str Verif.Proofs.Str

/-- `length` is the number of clusters; indexing succeeds exactly inside `0 ≤ i < length` and then
yields the `i`-th cluster. -/
theorem length_getKey (s : Str) (i : Int) :
    s.length = s.clusters.length ∧
    (s.getKey i = .error .indexOutOfBounds ↔ (i < 0 ∨ i ≥ s.clusters.length)) ∧
    (0 ≤ i → i < s.clusters.length → ∃ c, s.clusters[i.toNat]? = some c ∧ s.getKey i = .ok c) := by
  refine ⟨rfl, ?_, ?_⟩
  · unfold Str.getKey Str.length
    by_cases h : i < 0 ∨ i ≥ (s.clusters.length : Int)
    · simp [h]
    · have hlt : i.toNat < s.clusters.length := by omega
      simp [h, List.getElem?_eq_getElem hlt]
  · intro h0 h1
    have hlt : i.toNat < s.clusters.length := by omega
    refine ⟨s.clusters[i.toNat], List.getElem?_eq_getElem hlt, ?_⟩
    unfold Str.getKey Str.length
    have : ¬ (i < 0 ∨ i ≥ (s.clusters.length : Int)) := by omega
    simp [this, List.getElem?_eq_getElem hlt]

example : (⟨[[0x61], [0x65, 0xcc, 0x81]]⟩ : Str).getKey 1 = .ok [0x65, 0xcc, 0x81] ∧
    (⟨[[0x61], [0x65, 0xcc, 0x81]]⟩ : Str).getKey 2 = .error .indexOutOfBounds := by decide

/-- `slice` fails exactly for `from < 0 ∨ to > length ∨ from > to`; otherwise the bytes cut out at the
byte level (`v.Str[start:end]` with the iterator's positions) are the concatenation of the clusters
`from … to-1`. -/
theorem slice_bounds (s : Str) (a b : Int) :
    ((∃ e, s.sliceBytes a b = .error e) ↔ Verif.Spec.Str.sliceFails s.clusters.length a b) ∧
    (¬ Verif.Spec.Str.sliceFails s.clusters.length a b →
      s.sliceBytes a b = .ok (Verif.Spec.Str.slice s.clusters a.toNat b.toNat).flatten) := by
  unfold Verif.Spec.Str.sliceFails
  constructor
  · unfold Str.sliceBytes Str.length
    by_cases h1 : a < 0 ∨ a > (s.clusters.length : Int) ∨ b < 0 ∨ b > (s.clusters.length : Int)
    · simp [h1]; rcases h1 with h | h | h | h <;> omega
    · by_cases h2 : a > b
      · simp [h1, h2]
      · simp only [h1, h2, if_false]
        constructor
        · intro ⟨e, he⟩; split at he <;> simp at he
        · intro h; exfalso; rcases h with h | h | h <;> omega
  · intro hn
    have ha : 0 ≤ a := by omega
    have hab : a ≤ b := by omega
    have hb : b ≤ s.clusters.length := by omega
    unfold Str.sliceBytes Str.length Verif.Spec.Str.slice
    have h1 : ¬ (a < 0 ∨ a > (s.clusters.length : Int) ∨ b < 0 ∨ b > (s.clusters.length : Int)) := by omega
    have h2 : ¬ a > b := by omega
    simp only [h1, h2, if_false]
    split
    · rename_i h3
      rcases h3 with h3 | h3
      · -- empty string: every slice is empty
        have : s.clusters.flatten = [] := List.length_eq_zero_iff.mp h3
        have e : ((s.clusters.drop a.toNat).take (b.toNat - a.toNat)).flatten = [] := by
          apply List.eq_nil_of_length_eq_zero
          have h4 : ((s.clusters.drop a.toNat).take (b.toNat - a.toNat)).flatten.length ≤ s.clusters.flatten.length := by
            have := flatten_take_drop s.clusters a.toNat b.toNat (by omega) (by omega)
            rw [← this]; simp; omega
          rw [this] at h4; simpa using h4
        rw [e]
      · subst h3; simp
    · rw [show s.bytes = s.clusters.flatten from rfl]
      rw [flatten_take_drop s.clusters a.toNat b.toNat (by omega) (by omega)]

example : (⟨[[0x61], [0x65, 0xcc, 0x81], [0x62]]⟩ : Str).sliceBytes 1 3 = .ok [0x65, 0xcc, 0x81, 0x62] ∧
    (⟨[[0x61], [0x65, 0xcc, 0x81], [0x62]]⟩ : Str).sliceBytes 2 1 = .error .invalidSliceIndex ∧
    (⟨[[0x61]]⟩ : Str).sliceBytes 0 2 = .error .sliceIndices := by decide

/-- Soundness of the aligned search, for *any* segmentation: whenever the byte search with its two
boundary tests (`strings.Index`, `seekGraphemeBoundaryStartPrepared`, `isGraphemeBoundaryEndPrepared`)
reports a match `(i, off)` for a non-empty needle, `off` is the byte offset at which cluster `i`
starts and a whole number of clusters from `i` on concatenate to exactly the needle; the empty needle
is found at 0 and nothing is found in the empty string.

Full statement `index_aligned` (the reported index is moreover the *first* such `i`, i.e.
`s.indexOf needle = (Spec.Str.indexOf s.clusters needle 0).map fun i => (i, startOf s.clusters i)`,
and `count` / `split` / `replaceAll` equal their cluster-list specs): not proved here — checked on
every `index` / `contains` / `count` / `split` / `replace` line of stream `str` by the executable
cluster-list spec. -/
theorem index_aligned_partial (s : Str) (needle : Bytes) :
    (needle = [] → s.indexOf needle = some (0, 0)) ∧
    (needle ≠ [] → s.bytes = [] → s.indexOf needle = none) ∧
    (needle ≠ [] → ∀ i off, s.indexOf needle = some (i, off) →
      i < s.clusters.length ∧ off = startOf s.clusters i ∧
      Verif.Spec.Str.alignedPrefix (s.clusters.drop i) needle = true) := by
  refine ⟨?_, ?_, ?_⟩
  · intro h; subst h; simp [Str.indexOf]
  · intro hn hb
    have hl : needle.length ≠ 0 := by simpa using hn
    simp [Str.indexOf, hl, hb]
  · intro hn i off h
    exact indexOf_sound s needle hn i off h

-- `"e\u{301}a".index(of: "e")`: the byte occurrence at 0 ends inside a cluster; `"ae\u{301}".index(of: "e\u{301}")` = 1
example : (⟨[[0x65, 0xcc, 0x81], [0x61]]⟩ : Str).indexOf [0x65] = none ∧
    (⟨[[0x61], [0x65, 0xcc, 0x81]]⟩ : Str).indexOf [0x65, 0xcc, 0x81] = some (1, 1) := by decide

/-- `String.encodeHex` followed by `decodeHex` is the identity on byte arrays. -/
theorem hex_roundtrip (bs : Bytes) : decodeHex (encodeHex bs) = .ok bs := decode_encode bs

example : encodeHex [0x00, 0xab, 0xff] = [0x30, 0x30, 0x61, 0x62, 0x66, 0x66] ∧
    decodeHex [0x30, 0x67] = .error (.invalidHexByte 0x67) ∧ decodeHex [0x30] = .error .invalidHexLength := by decide

end Verif.Properties.C19
