import Verif.Proofs.Str
import Verif.Proofs.StrIndex
import Verif.Proofs.StrCount
/-!
# C19 — Strings behave as sequences of grapheme clusters of their normalized form

Model: `Verif.Model.Str` — ports of `interpreter/value_string.go` at the byte level (offsets, the
cluster iterator, `strings.Index`, the boundary tests), parametric in the segmentation: a string is
*any* list of non-empty clusters (`Str.wf`).  Spec: `Verif.Spec.Str` — the same operations on the
cluster list, without byte offsets.  NFC and UAX #29 themselves are trusted libraries.
-/
namespace Verif.Properties.C19
open Verif.Model.Str Verif.Proofs.Str

/-- `length` is the number of clusters; indexing succeeds exactly inside `0 ≤ i < length` and then
yields the `i`-th cluster. -/
theorem length_getKey (s : Str) (i : Int) :
    s.length = s.clusters.length ∧
    (s.getKey i = .error .indexOutOfBounds ↔ (i < 0 ∨ i ≥ s.clusters.length)) ∧
    (0 ≤ i → i < s.clusters.length → ∃ c, s.clusters[i.toNat]? = some c ∧ s.getKey i = .ok c) := by
  refine ⟨rfl, ?_, ?_⟩
  · unfold Str.getKey Str.length
    by_cases h : i < 0 ∨ i ≥ (s.clusters.length : Int)
    · simp [h]
    · have hlt : i.toNat < s.clusters.length := by omega
      simp [h, List.getElem?_eq_getElem hlt]
  · intro h0 h1
    have hlt : i.toNat < s.clusters.length := by omega
    refine ⟨s.clusters[i.toNat], List.getElem?_eq_getElem hlt, ?_⟩
    unfold Str.getKey Str.length
    have : ¬ (i < 0 ∨ i ≥ (s.clusters.length : Int)) := by omega
    simp [this, List.getElem?_eq_getElem hlt]

example : (⟨[[0x61], [0x65, 0xcc, 0x81]]⟩ : Str).getKey 1 = .ok [0x65, 0xcc, 0x81] ∧
    (⟨[[0x61], [0x65, 0xcc, 0x81]]⟩ : Str).getKey 2 = .error .indexOutOfBounds := by decide

/-- `slice` fails exactly for `from < 0 ∨ to > length ∨ from > to`; otherwise the bytes cut out at the
byte level (`v.Str[start:end]` with the iterator's positions) are the concatenation of the clusters
`from … to-1`. -/
theorem slice_bounds (s : Str) (a b : Int) :
    ((∃ e, s.sliceBytes a b = .error e) ↔ Verif.Spec.Str.sliceFails s.clusters.length a b) ∧
    (¬ Verif.Spec.Str.sliceFails s.clusters.length a b →
      s.sliceBytes a b = .ok (Verif.Spec.Str.slice s.clusters a.toNat b.toNat).flatten) := by
  unfold Verif.Spec.Str.sliceFails
  constructor
  · unfold Str.sliceBytes Str.length
    by_cases h1 : a < 0 ∨ a > (s.clusters.length : Int) ∨ b < 0 ∨ b > (s.clusters.length : Int)
    · simp [h1]; rcases h1 with h | h | h | h <;> omega
    · by_cases h2 : a > b
      · simp [h1, h2]
      · simp only [h1, h2, if_false]
        constructor
        · intro ⟨e, he⟩; split at he <;> simp at he
        · intro h; exfalso; rcases h with h | h | h <;> omega
  · intro hn
    have ha : 0 ≤ a := by omega
    have hab : a ≤ b := by omega
    have hb : b ≤ s.clusters.length := by omega
    unfold Str.sliceBytes Str.length Verif.Spec.Str.slice
    have h1 : ¬ (a < 0 ∨ a > (s.clusters.length : Int) ∨ b < 0 ∨ b > (s.clusters.length : Int)) := by omega
    have h2 : ¬ a > b := by omega
    simp only [h1, h2, if_false]
    split
    · rename_i h3
      rcases h3 with h3 | h3
      · -- empty string: every slice is empty
        have : s.clusters.flatten = [] := List.length_eq_zero_iff.mp h3
        have e : ((s.clusters.drop a.toNat).take (b.toNat - a.toNat)).flatten = [] := by
          apply List.eq_nil_of_length_eq_zero
          have h4 : ((s.clusters.drop a.toNat).take (b.toNat - a.toNat)).flatten.length ≤ s.clusters.flatten.length := by
            have := flatten_take_drop s.clusters a.toNat b.toNat (by omega) (by omega)
            rw [← this]; simp; omega
          rw [this] at h4; simpa using h4
        rw [e]
      · subst h3; simp
    · rw [show s.bytes = s.clusters.flatten from rfl]
      rw [flatten_take_drop s.clusters a.toNat b.toNat (by omega) (by omega)]

example : (⟨[[0x61], [0x65, 0xcc, 0x81], [0x62]]⟩ : Str).sliceBytes 1 3 = .ok [0x65, 0xcc, 0x81, 0x62] ∧
    (⟨[[0x61], [0x65, 0xcc, 0x81], [0x62]]⟩ : Str).sliceBytes 2 1 = .error .invalidSliceIndex ∧
    (⟨[[0x61]]⟩ : Str).sliceBytes 0 2 = .error .sliceIndices := by decide

/-- Soundness of the aligned search, for *any* segmentation (empty clusters included): whenever the
byte search with its two boundary tests (`strings.Index`, `seekGraphemeBoundaryStartPrepared`,
`isGraphemeBoundaryEndPrepared`) reports a match `(i, off)` for a non-empty needle, `off` is the byte
offset at which cluster `i` starts and a whole number of clusters from `i` on concatenate to exactly
the needle; the empty needle is found at 0 and nothing is found in the empty string. -/
theorem index_sound_any_segmentation (s : Str) (needle : Bytes) :
    (needle = [] → s.indexOf needle = some (0, 0)) ∧
    (needle ≠ [] → s.bytes = [] → s.indexOf needle = none) ∧
    (needle ≠ [] → ∀ i off, s.indexOf needle = some (i, off) →
      i < s.clusters.length ∧ off = startOf s.clusters i ∧
      Verif.Spec.Str.alignedPrefix (s.clusters.drop i) needle = true) := by
  refine ⟨?_, ?_, ?_⟩
  · intro h; subst h; simp [Str.indexOf]
  · intro hn hb
    have hl : needle.length ≠ 0 := by simpa using hn
    simp [Str.indexOf, hl, hb]
  · intro hn i off h
    exact indexOf_sound s needle hn i off h

-- `"e\u{301}a".index(of: "e")`: the byte occurrence at 0 ends inside a cluster; `"ae\u{301}".index(of: "e\u{301}")` = 1
example : (⟨[[0x65, 0xcc, 0x81], [0x61]]⟩ : Str).indexOf [0x65] = none ∧
    (⟨[[0x61], [0x65, 0xcc, 0x81]]⟩ : Str).indexOf [0x65, 0xcc, 0x81] = some (1, 1) := by decide

/-- **The byte search with boundary checks returns the first cluster-aligned occurrence.**  For every
segmentation into non-empty clusters and every non-empty needle, `indexOf` — `strings.Index` from an
increasing start offset, each candidate accepted only if it starts at a cluster start
(`seekGraphemeBoundaryStartPrepared`) and ends at a cluster end (`isGraphemeBoundaryEndPrepared`),
the iterator restored after a failed candidate — equals the search on the cluster list: the least
cluster index `i` such that a whole number of clusters from `i` on concatenate to the needle
(with its byte offset), or none when there is no such `i`.  Soundness, completeness and minimality. -/
theorem index_aligned (s : Str) (hw : s.wf) (needle : Bytes) :
    (needle = [] → s.indexOf needle = some (0, 0)) ∧
    (needle ≠ [] → s.indexOf needle =
      (Verif.Spec.Str.indexOf s.clusters needle 0).map (fun i => (i, startOf s.clusters i))) ∧
    (∀ i, Verif.Spec.Str.indexOf s.clusters needle 0 = some i →
      i < s.clusters.length ∧ Verif.Spec.Str.alignedPrefix (s.clusters.drop i) needle = true ∧
      ∀ j, j < i → Verif.Spec.Str.alignedPrefix (s.clusters.drop j) needle = false) ∧
    (Verif.Spec.Str.indexOf s.clusters needle 0 = none →
      ∀ j, j < s.clusters.length → Verif.Spec.Str.alignedPrefix (s.clusters.drop j) needle = false) := by
  refine ⟨?_, fun hn => indexOf_eq_spec s hw needle hn, ?_, spec_indexOf_none _ _ _⟩
  · intro h; subst h; simp [Str.indexOf]
  · intro i hi
    obtain ⟨k, hk, hl, hal, hmin⟩ := spec_indexOf_some _ _ _ _ hi
    have : i = k := by omega
    subst this
    exact ⟨hl, hal, hmin⟩

-- "e\u{301}e".index(of: "e"): the byte occurrence at 0 is inside a cluster, the aligned one is cluster 1 (offset 3)
example : (⟨[[0x65, 0xcc, 0x81], [0x65]]⟩ : Str).wf ∧
    (⟨[[0x65, 0xcc, 0x81], [0x65]]⟩ : Str).indexOf [0x65] = some (1, 3) ∧
    Verif.Spec.Str.indexOf [[0x65, 0xcc, 0x81], [0x65]] [0x65] 0 = some 1 := by
  refine ⟨?_, by decide, by decide⟩
  intro c hc; simp at hc; rcases hc with rfl | rfl <;> simp

-- "\r\n\n\n".index(of: "\n\n"): the needle overlaps itself; the first byte-level occurrence (offset 1) starts
-- inside the cluster CR LF and is rejected, the aligned occurrence (cluster 1, offset 2) overlaps it — the
-- search has to resume one byte after the rejected start, not after the rejected occurrence
example : (⟨[[0x0d, 0x0a], [0x0a], [0x0a]]⟩ : Str).indexOf [0x0a, 0x0a] = some (1, 2) ∧
    indexFrom [0x0d, 0x0a, 0x0a, 0x0a] [0x0a, 0x0a] 5 0 = some 1 ∧
    Verif.Spec.Str.indexOf [[0x0d, 0x0a], [0x0a], [0x0a]] [0x0a, 0x0a] 0 = some 1 := by decide

/-- **`count`** is the greedy left-to-right count of non-overlapping cluster-aligned occurrences (and
`1 + length` for the empty needle).  `SegStable` is the segmentation assumption of the model restricted
to what `count` uses: `remaining.slice(index + other.Length(), …)` skips as many clusters as the needle
has *on its own*, so every aligned occurrence has to span that many clusters of the receiver. -/
theorem count (s needle : Str) (hw : s.wf) (hnw : needle.wf) :
    (needle.clusters = [] → s.count needle = 1 + s.clusters.length) ∧
    (needle.clusters ≠ [] → SegStable s.clusters needle.bytes needle.length →
      s.count needle = Verif.Spec.Str.count needle.bytes (s.clusters.length + 1) s.clusters) := by
  constructor
  · intro h; simp [Str.count, Str.length, h]
  · intro hne hseg
    have hl : needle.length ≠ 0 := by simpa [Str.length] using hne
    have hb : needle.bytes ≠ [] := by
      cases hc : needle.clusters with
      | nil => exact absurd hc hne
      | cons c cs =>
        have := hnw c (by rw [hc]; simp)
        intro hb
        simp [Str.bytes, hc] at hb
        exact this hb.1
    have hl' : ¬ (needle.clusters.length = 0) := by simpa [Str.length] using hl
    simp only [Str.count, Str.length, hl', if_false]
    exact countLoop_eq_spec needle.bytes hb needle.clusters.length _ s.clusters hw hseg

example : (⟨[[0x61], [0x65, 0xcc, 0x81], [0x61], [0x61]]⟩ : Str).count ⟨[[0x61]]⟩ = 3 ∧
    Verif.Spec.Str.count [0x61] 5 [[0x61], [0x65, 0xcc, 0x81], [0x61], [0x61]] = 3 := by decide

/-- **`split`** cuts at the greedy left-to-right aligned occurrences of the separator (one part per
cluster for the empty separator), and **joining the parts with the separator gives back the string**
(at the byte level, i.e. before `join` re-normalises). -/
theorem split_join (s sep : Str) (hw : s.wf) (hsw : sep.wf)
    (hseg : SegStable s.clusters sep.bytes sep.length) :
    (sep.clusters ≠ [] →
      s.split sep = (Verif.Spec.Str.split sep.bytes (s.clusters.length + 1) s.clusters).map Str.mk) ∧
    joinBytes sep.bytes ((s.split sep).map Str.bytes) = s.bytes := by
  by_cases hne : sep.clusters = []
  · refine ⟨fun h => absurd hne h, ?_⟩
    have hb : sep.bytes = [] := by simp [Str.bytes, hne]
    simp only [Str.split, hb, List.length_nil, if_true, List.map_map]
    rw [joinBytes_nil_sep]
    show (s.clusters.map (fun c => [c].flatten)).flatten = s.clusters.flatten
    simp
  · have hb : sep.bytes ≠ [] := by
      cases hc : sep.clusters with
      | nil => exact absurd hc hne
      | cons c cs =>
        have := hsw c (by rw [hc]; simp)
        intro hb
        simp [Str.bytes, hc] at hb
        exact this hb.1
    have hl : sep.bytes.length ≠ 0 := by simpa using hb
    have e : s.split sep = (Verif.Spec.Str.split sep.bytes (s.clusters.length + 1) s.clusters).map Str.mk := by
      simp only [Str.split, hl, if_false, Str.length]
      exact splitLoop_eq_spec sep.bytes hb sep.clusters.length _ s.clusters hw hseg
    refine ⟨fun _ => e, ?_⟩
    rw [e, List.map_map]
    exact spec_split_join sep.bytes _ s.clusters

example : (⟨[[0x61], [0x2c], [0x65, 0xcc, 0x81], [0x2c], [0x2c]]⟩ : Str).split ⟨[[0x2c]]⟩ =
    [⟨[[0x61]]⟩, ⟨[[0x65, 0xcc, 0x81]]⟩, ⟨[]⟩, ⟨[]⟩] := by decide

/-- `String.encodeHex` followed by `decodeHex` is the identity on byte arrays. -/
theorem hex_roundtrip (bs : Bytes) : decodeHex (encodeHex bs) = .ok bs := decode_encode bs

example : encodeHex [0x00, 0xab, 0xff] = [0x30, 0x30, 0x61, 0x62, 0x66, 0x66] ∧
    decodeHex [0x30, 0x67] = .error (.invalidHexByte 0x67) ∧ decodeHex [0x30] = .error .invalidHexLength := by decide

end Verif.Properties.C19
