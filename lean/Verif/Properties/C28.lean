/-
C28 — Host failures are never swallowed.

Model: Verif.Model.HostProp (execution trees of host calls, failure plans, the two documented
exception frames, `absorbErr` for the BLS aggregation functions as the code exists, top-level Recover).
Facts: Verif.Gen.HostFacts (regenerated), pinned in Verif.Spec.HostFacts.  Lemmas: Verif.Proofs.HostProp.

Full strength ("for every execution tree and failure plan: success only if every failure happened under
a documented exception frame; otherwise an error carrying the first such failure; no panic escapes") is
FALSE of the code as it exists: `BLS.aggregateSignatures` / `BLS.aggregatePublicKeys` turn a returned
host error into `nil` (`bls_swallow_witness`, known finding `bls-aggregate-error-swallowed`).  The
`_partial` theorems prove it for all trees without such calls; `propagates` / `no_success_after_failure`
extend them to ALL trees by making the absorbed failures explicit (only *error returns* of calls made by
`absorbErr` nodes are ever absorbed).  What the model does not cover —
unmodelled Go code between a call site and the top dropping a *returned* error — is what the `fault`
stream checks exhaustively over its corpus (it found `vm-type-load-drops-host-error`, fixed in /repo c7c148d).
-/
import Verif.Proofs.HostProp
import Verif.Spec.HostFacts
namespace Verif.Properties.C28
open Verif.Model.HostProp Verif.Proofs.HostProp Verif.Spec.HostFacts

/-- FX: every method of `runtime.ExternalInterface` calls the inner interface inside
    `errors.WrapPanic`, wraps a returned error with `WrappedExternalError` and returns it; the method set
    is exactly that of `runtime.Interface` + `runtime.Metrics`; the recover() inventory and the
    `defer Recover` entry points are the pinned ones and include all six executor entry points. -/
theorem hostfacts_ok :
    allWrappedB Verif.Gen.HostFacts.methods = true ∧
    Verif.Gen.HostFacts.methods.map (·.name) = Verif.Gen.HostFacts.interfaceMethods ∧
    Verif.Gen.HostFacts.recoverSites = pinnedRecoverSites ∧
    Verif.Gen.HostFacts.topRecoverSites = pinnedTopRecoverSites ∧
    topRecoverB Verif.Gen.HostFacts.topRecoverSites = true := by decide

/-- The extracted table satisfies the model's side condition. -/
theorem extracted_all_wrapped : AllWrapped (sitesOf Verif.Gen.HostFacts.methods) := by
  intro m
  unfold sitesOf
  have h : ∀ s ∈ (Verif.Gen.HostFacts.methods.map siteOf), s.wrapPanic = true ∧ s.returnsErr = true := by decide
  cases hm : (Verif.Gen.HostFacts.methods.map siteOf)[m]? with
  | none => simp
  | some s => simpa using h s (List.mem_of_getElem? hm)

/-- Success only after absorbed failures: if all call sites are wrapped and the tree has no
    `absorbErr` call, an execution that reports success has had every injected failure it reached caught
    by a `contracts.tryUpdate` frame — for every tree and every failure plan (any number of failures). -/
theorem no_success_after_failure_partial (sites : Nat → Site) (hs : AllWrapped sites) (plan : Nat → Option Mode)
    (t : Tree) (hna : t.hasAbsorb = false) (topRecover : Bool)
    (hok : (execute sites topRecover plan t).1 = .ok) :
    ∀ c, c < (execute sites topRecover plan t).2.counter → plan c ≠ none → c ∈ (execute sites topRecover plan t).2.caught := by
  intro c hc hp
  have inv := run_inv sites hs plan t {}
  have habs := run_absorbed sites plan t hna {}
  unfold execute at hok hc ⊢
  rcases hr : run sites plan t {} with ⟨st, r⟩
  rw [hr] at inv habs
  simp only [hr] at hok hc ⊢
  cases r with
  | some x => cases x <;> simp [top] at hok <;> (split at hok <;> cases hok)
  | none =>
    rcases inv.success rfl c (Nat.zero_le _) hc hp with h | h
    · exact h
    · simp only [] at habs; rw [habs] at h; cases h

/-- Propagation: under the same hypotheses, with the executors running under `Recover`, a failure that
    is raised to the top yields an error that carries an injected failure (`plan c ≠ none`), is tagged
    external, is the last host call made (nothing runs after it), and every earlier injected failure was
    caught by a `tryUpdate` frame — i.e. the result carries the *first* failure outside an exception
    frame.  No panic escapes. -/
theorem propagates_partial (sites : Nat → Site) (hs : AllWrapped sites) (plan : Nat → Option Mode)
    (t : Tree) (hna : t.hasAbsorb = false) :
    (execute sites true plan t).1 = .ok ∨
    ∃ c, (execute sites true plan t).1 = .error true c ∧ plan c ≠ none ∧
      c + 1 = (execute sites true plan t).2.counter ∧
      ∀ c', c' < c → plan c' ≠ none → c' ∈ (execute sites true plan t).2.caught := by
  have inv := run_inv sites hs plan t {}
  have habs := run_absorbed sites plan t hna {}
  unfold execute
  rcases hr : run sites plan t {} with ⟨st, r⟩
  rw [hr] at inv habs
  simp only []
  cases r with
  | none => exact .inl rfl
  | some x =>
    obtain ⟨f1, _, f3, f4, f5⟩ := inv.failure x rfl
    have hcaught : ∀ c', c' < x.carrier → plan c' ≠ none → c' ∈ st.caught := by
      intro c' h1 h2
      rcases f5 c' (Nat.zero_le _) h1 h2 with h | h
      · exact h
      · simp only [] at habs; rw [habs] at h; cases h
    cases x with
    | raw c => simp [Raise.isRaw] at f1
    | ext c => exact .inr ⟨c, by simp [top], f4, f3, hcaught⟩
    | user c => exact .inr ⟨c, by simp [top], f4, f3, hcaught⟩

/-- **Propagation for ALL trees, `absorbErr` nodes included** (the code as it exists): with the
    executors under `Recover` and all call sites wrapped, the execution either reports success, or yields an
    external-tagged error that carries an injected failure, raised at the last host call made, such that
    every earlier injected failure was either caught by a `contracts.tryUpdate` frame or *absorbed* — and
    what is absorbed is exactly characterised: an **error return** (never a panic) of a call made by an
    `absorbErr` node (BLS aggregation) that the run reached.  No panic escapes.

    This is as far as `propagates_partial` extends: its conclusion "every earlier failure was *caught by a
    documented frame*" is false on trees with `absorbErr` nodes (`bls_swallow_witness`), so the absorbed
    set has to appear in the statement; everything else carries over unchanged — in particular a *panic*
    at an `absorbErr` site, and an error at any other site of such a tree, still propagate. -/
theorem propagates (sites : Nat → Site) (hs : AllWrapped sites) (plan : Nat → Option Mode) (t : Tree) :
    let r := execute sites true plan t
    (r.1 = .ok ∨
     ∃ c, r.1 = .error true c ∧ plan c ≠ none ∧ c + 1 = r.2.counter ∧
       ∀ c', c' < c → plan c' ≠ none → c' ∈ r.2.caught ∨ c' ∈ r.2.absorbed) ∧
    (∀ c, c ∈ r.2.absorbed → plan c = some .err ∧ c < r.2.counter ∧ t.hasAbsorb = true) := by
  have inv := run_inv sites hs plan t {}
  have habs := run_absorbed_err sites plan t {}
  unfold execute
  rcases hr : run sites plan t {} with ⟨st, r⟩
  rw [hr] at inv habs
  simp only []
  constructor
  · cases r with
    | none => exact .inl rfl
    | some x =>
      obtain ⟨f1, _, f3, f4, f5⟩ := inv.failure x rfl
      cases x with
      | raw c => simp [Raise.isRaw] at f1
      | ext c => exact .inr ⟨c, by simp [top], f4, f3, fun c' h1 h2 => f5 c' (Nat.zero_le _) h1 h2⟩
      | user c => exact .inr ⟨c, by simp [top], f4, f3, fun c' h1 h2 => f5 c' (Nat.zero_le _) h1 h2⟩
  · intro c hc
    rcases habs c hc with h | ⟨h1, _, h3, h4⟩
    · simp at h
    · exact ⟨h1, h3, h4⟩

/-- Success after failures, for ALL trees: an execution that reports success has had every injected
    failure it reached caught by a `tryUpdate` frame or absorbed as an error return of an `absorbErr`
    (BLS aggregation) call — in particular **no panic of the host is ever followed by success** outside a
    `tryUpdate` frame, and no error return of any of the other 43 callbacks. -/
theorem no_success_after_failure (sites : Nat → Site) (hs : AllWrapped sites) (plan : Nat → Option Mode)
    (t : Tree) (hok : (execute sites true plan t).1 = .ok) :
    ∀ c, c < (execute sites true plan t).2.counter → plan c ≠ none →
      c ∈ (execute sites true plan t).2.caught ∨
      (c ∈ (execute sites true plan t).2.absorbed ∧ plan c = some .err) := by
  intro c hc hp
  have inv := run_inv sites hs plan t {}
  have habs := run_absorbed_err sites plan t {}
  unfold execute at hok hc ⊢
  rcases hr : run sites plan t {} with ⟨st, r⟩
  rw [hr] at inv habs
  simp only [hr] at hok hc ⊢
  cases r with
  | some x => cases x <;> simp [top] at hok
  | none =>
    rcases inv.success rfl c (Nat.zero_le _) hc hp with h | h
    · exact .inl h
    · rcases habs c h with h' | ⟨h1, _, _, _⟩
      · simp at h'
      · exact .inr ⟨h, h1⟩

/-- No failure is dropped at a call site (all sites wrapped). -/
theorem nothing_swallowed_at_call_sites (sites : Nat → Site) (hs : AllWrapped sites) (plan : Nat → Option Mode)
    (t : Tree) (topRecover : Bool) : (execute sites topRecover plan t).2.swallowed = [] := by
  have inv := run_inv sites hs plan t {}
  unfold execute
  rcases hr : run sites plan t {} with ⟨st, r⟩
  rw [hr] at inv
  simpa using inv.swallowed

/-- Why the FX side condition matters: a call site that does not return the error lets the program
    succeed after a host failure (the shape of the mutation "return nil from GetAccountBalance"). -/
theorem unwrapped_site_swallows_witness :
    (execute (fun _ => ⟨true, false⟩) true (fun c => if c = 0 then some .err else none) (.seq (.call 0) (.call 1))).1 = .ok := by
  decide

/-- Known finding: with the extracted (fully wrapped) table, a BLS aggregation call whose host callback
    returns an error makes the execution succeed with nothing caught by a documented frame. -/
theorem bls_swallow_witness :
    let r := execute (sitesOf Verif.Gen.HostFacts.methods) true (fun c => if c = 1 then some .err else none)
      (.seq (.call 0) (.seq (.absorbErr 3) (.call 2)))
    r.1 = .ok ∧ r.2.caught = [] ∧ r.2.absorbed = [1] := by decide

/-! Non-vacuity -/
-- `propagates` on a tree with an `absorbErr` node: the absorbed error return at call 1, then the panic at
-- the BLS call 3 propagates, carried by the result
def absorbDemo : Res × St := execute (sitesOf Verif.Gen.HostFacts.methods) true
  (fun c => if c = 1 then some Mode.err else if c = 3 then some Mode.panic else none)
  (.seq (.call 0) (.seq (.absorbErr 3) (.seq (.call 2) (.seq (.absorbErr 4) (.call 5)))))
example : absorbDemo.1 = .error true 3 ∧ absorbDemo.2.absorbed = [1] ∧ absorbDemo.2.counter = 4 := by decide
example : (execute (sitesOf Verif.Gen.HostFacts.methods) true (fun c => if c = 1 then some .panic else none)
    (.seq (.call 0) (.seq (.call 5) (.call 2)))).1 = .error true 1 := by decide
example : (execute (sitesOf Verif.Gen.HostFacts.methods) true (fun c => if c = 0 then some .err else none)
    (.seq (.pkValidate 0) (.call 2))).1 = .error true 0 := by decide
example : (execute (sitesOf Verif.Gen.HostFacts.methods) true (fun c => if c = 0 ∨ c = 2 then some .err else none)
    (.seq (.tryUpdate (.seq (.call 0) (.call 1))) (.seq (.call 2) (.call 3)))).1 = .error true 2 := by decide

end Verif.Properties.C28
