/-
C22 — Account storage behaves as a typed path-indexed map across transactions.

Spec machine: Verif.Model.Store (M-STORE).  The theorems are the laws the property names, proved for
every store / every history (no bound); the `store` correspondence stream drives the real runtime and
this machine with the same histories (refinement testing).  Level: proof (spec machine) + CC.
Only statements, final proofs and non-vacuity examples here; lemmas are in Verif.Proofs.Store.
-/
import Verif.Proofs.Store
namespace Verif.Properties.C22
open Verif.Model.Store Verif.Proofs.Store

/-! ### the type tests: an explicit preorder (base table × optional depth) -/

theorem subtype_refl (t : Ty) : subtype t t = true :=
  (subtype_iff t t).2 ⟨baseSub_refl _, .inr (Nat.le_refl _)⟩

theorem subtype_trans (a b c : Ty) (h1 : subtype a b = true) (h2 : subtype b c = true) :
    subtype a c = true := by
  obtain ⟨hab, h1'⟩ := (subtype_iff a b).1 h1
  obtain ⟨hbc, h2'⟩ := (subtype_iff b c).1 h2
  refine (subtype_iff a c).2 ⟨baseSub_trans _ _ _ hab hbc, ?_⟩
  rcases h2' with hc | hnk
  · exact .inl hc
  · rcases h1' with hb | hmn
    · exact .inl (baseSub_top_left _ _ hbc hb)
    · exact .inr (Nat.le_trans hmn hnk)

/-- Antisymmetric up to the optional layers on a top type: `AnyStruct`, `AnyStruct?`, `AnyStruct??`, …
    are subtypes of each other (and likewise `AnyResource…`); all other types are ordered strictly. -/
theorem subtype_antisymm (a b : Ty) (h1 : subtype a b = true) (h2 : subtype b a = true) :
    a = b ∨ (a.base = b.base ∧ a.base.isTop = true) := by
  obtain ⟨hab, h1'⟩ := (subtype_iff a b).1 h1
  obtain ⟨hba, h2'⟩ := (subtype_iff b a).1 h2
  have hbase : a.base = b.base := baseSub_antisymm _ _ hab hba
  by_cases ht : a.base.isTop = true
  · exact .inr ⟨hbase, ht⟩
  · left
    have hm : a.opt ≤ b.opt := by
      rcases h1' with h | h
      · rw [← hbase] at h; exact absurd h ht
      · exact h
    have hn : b.opt ≤ a.opt := by
      rcases h2' with h | h
      · exact absurd h ht
      · exact h
    cases a; cases b; simp_all; omega

/-- struct- and resource-kinded types are never related: `copy<T: AnyStruct>` cannot return a resource.
    (`nil`, of dynamic type `Never?`, is the one value below both kinds.) -/
theorem subtype_same_kind (a b : Ty) (h : subtype a b = true) (hn : a.base ≠ .never) : a.isRes = b.isRes :=
  baseSub_same_kind _ _ ((subtype_iff a b).1 h).1 hn

/-- The optional rules of the checker, which the closed form of `subtype` encodes: optionals are
    covariant, `T <: U?` when `T <: U`, and `T? <: U` for a non-optional `U` only when `U` is the top
    type of `T`'s kind. -/
theorem subtype_optional_rules (t u : Ty) :
    subtype t.some u.some = subtype t u ∧
    (subtype t u = true → subtype t u.some = true) ∧
    (u.opt = 0 → (subtype t.some u = true ↔ (u.base.isTop = true ∧ subtype t u = true))) := by
  refine ⟨?_, ?_, ?_⟩
  · simp [subtype, Ty.some]
  · intro h
    obtain ⟨hb, hd⟩ := (subtype_iff t u).1 h
    exact (subtype_iff _ _).2 ⟨hb, hd.imp id (fun h => Nat.le_succ_of_le h)⟩
  · intro hu
    rw [subtype_iff, subtype_iff]
    simp only [Ty.some, hu]
    constructor
    · rintro ⟨hb, ht | hd⟩
      · exact ⟨ht, hb, .inl ht⟩
      · omega
    · rintro ⟨ht, hb, _⟩
      exact ⟨hb, .inl ht⟩

/-- The case the dynamic check must get right: a stored optional *resource* is not an `AnyStruct`
    (nor an `AnyStruct?`), a stored optional struct is; both are below the top type of their own kind. -/
theorem optional_resource_not_anystruct (v : Val) (hr : v.ty.isRes = true) (n : Nat) :
    subtype (Val.some v).ty ⟨.anyStruct, n⟩ = false ∧ subtype (Val.some v).ty ⟨.anyResource, n⟩ = true := by
  have hb : (Val.some v).ty.base = v.ty.base := rfl
  generalize hbv : v.ty.base = bv at hb
  have hr' : bv.isRes = true := by simpa [Ty.isRes, hbv] using hr
  constructor
  · simp only [subtype, hb]
    cases bv <;> first | rfl | exact absurd hr' (by decide)
  · simp only [subtype, hb]
    cases bv <;> first | rfl | exact absurd hr' (by decide)

/-- Known finding `borrow-stored-nil-as-anyresource`: what the machine requires on a stored `nil`.
    Its dynamic type `Never?` is below `AnyResource` (as `subtype_trans` forces: `Never? <: AnyResource?
    <: AnyResource`), so `check<@AnyResource>` is true and `borrow<&AnyResource>` yields a reference.  The
    runtime agrees on `check` / `load` and deviates on `borrow` (type mismatch). -/
theorem stored_nil_anyresource_witness (a p : Nat) :
    subtype Val.nil.ty ⟨.anyResource, 1⟩ = true ∧ subtype ⟨.anyResource, 1⟩ ⟨.anyResource, 0⟩ = true ∧
    step [((a, p), .nil)] (.check a p ⟨.anyResource, 0⟩) = .ok ([((a, p), .nil)], .bool true) ∧
    step [((a, p), .nil)] (.borrow a p ⟨.anyResource, 0⟩) = .ok ([((a, p), .nil)], .ref .nil) := by
  refine ⟨by decide, by decide, ?_, ?_⟩ <;> simp [step, getAt, subtype, baseSub, Base.isTop, Val.ty]

/-! ### single operations on any store -/

/-- `save` on an occupied path fails (and, by `abort_noop`, changes nothing). -/
theorem save_occupied_fails (s : Store) (a p : Nat) (v v0 : Val) (h : getAt s (a, p) = some v0) :
    step s (.save a p v) = .error .overwrite := by
  simp [step, h]

/-- `save` on a free path stores the value there and nowhere else. -/
theorem save_free_stores (s : Store) (a p : Nat) (v : Val) (h : getAt s (a, p) = none) :
    ∃ s', step s (.save a p v) = .ok (s', .saved) ∧ getAt s' (a, p) = some v ∧
      ∀ k, k ≠ (a, p) → getAt s' k = getAt s k :=
  ⟨putAt s (a, p) v, by simp [step, h], getAt_put_same .., fun k hk => getAt_put_other _ _ _ _ hk⟩

/-- `load<T>`: empty → nil, nothing changes; stored value not a subtype of `T` → error (the
    transaction aborts: `abort_noop`); otherwise the value is returned and exactly that path is emptied. -/
theorem load_semantics (s : Store) (a p : Nat) (t : Ty) :
    (getAt s (a, p) = none → step s (.load a p t) = .ok (s, .none)) ∧
    (∀ v, getAt s (a, p) = some v → subtype v.ty t = false → step s (.load a p t) = .error .mismatch) ∧
    (∀ v, getAt s (a, p) = some v → subtype v.ty t = true →
      ∃ s', step s (.load a p t) = .ok (s', .val v) ∧ getAt s' (a, p) = none ∧
        ∀ k, k ≠ (a, p) → getAt s' k = getAt s k) := by
  refine ⟨fun h => by simp [step, h], fun v h hs => by simp [step, h, hs], fun v h hs => ?_⟩
  exact ⟨delAt s (a, p), by simp [step, h, hs], getAt_del_same .., fun k hk => getAt_del_other _ _ _ hk⟩

/-- `copy<T>`: nil / error / the value; the store is never changed. -/
theorem copy_semantics (s : Store) (a p : Nat) (t : Ty) :
    (getAt s (a, p) = none → step s (.copy a p t) = .ok (s, .none)) ∧
    (∀ v, getAt s (a, p) = some v → subtype v.ty t = false → step s (.copy a p t) = .error .mismatch) ∧
    (∀ v, getAt s (a, p) = some v → subtype v.ty t = true → step s (.copy a p t) = .ok (s, .val v)) :=
  ⟨fun h => by simp [step, h], fun v h hs => by simp [step, h, hs], fun v h hs => by simp [step, h, hs]⟩

/-- `borrow<&T>`: nil / error / a reference through which exactly the stored value is seen. -/
theorem borrow_semantics (s : Store) (a p : Nat) (t : Ty) :
    (getAt s (a, p) = none → step s (.borrow a p t) = .ok (s, .none)) ∧
    (∀ v, getAt s (a, p) = some v → subtype v.ty t = false → step s (.borrow a p t) = .error .mismatch) ∧
    (∀ v, getAt s (a, p) = some v → subtype v.ty t = true → step s (.borrow a p t) = .ok (s, .ref v)) :=
  ⟨fun h => by simp [step, h], fun v h hs => by simp [step, h, hs], fun v h hs => by simp [step, h, hs]⟩

/-- `check<T>` never fails, never changes the store, and is true exactly when a value whose type is
    a subtype of `T` is stored. -/
theorem check_semantics (s : Store) (a p : Nat) (t : Ty) :
    ∃ b, step s (.check a p t) = .ok (s, .bool b) ∧
      (b = true ↔ ∃ v, getAt s (a, p) = some v ∧ subtype v.ty t = true) := by
  cases h : getAt s (a, p) with
  | none => exact ⟨false, by simp [step, h], by simp⟩
  | some v => exact ⟨subtype v.ty t, by simp [step, h], by simp⟩

/-- `check<T>` predicts the typed accessors: it is true exactly when `load<T>`, `copy<T>` and
    `borrow<&T>` on the same store return the stored value (rather than nil or an error). -/
theorem check_predicts (s : Store) (a p : Nat) (t : Ty) :
    (∃ s', step s (.check a p t) = .ok (s', .bool true)) ↔
      ((∃ v s', step s (.load a p t) = .ok (s', .val v)) ∧ (∃ v, step s (.copy a p t) = .ok (s, .val v)) ∧
       (∃ v, step s (.borrow a p t) = .ok (s, .ref v))) := by
  cases h : getAt s (a, p) with
  | none => simp [step, h]
  | some v =>
    by_cases hs : subtype v.ty t = true
    · simp [step, h, hs]
    · simp [step, h, hs]

/-- `type(at:)` is the stored value's dynamic type, or nil. -/
theorem type_semantics (s : Store) (a p : Nat) :
    step s (.type a p) = .ok (s, .ty ((getAt s (a, p)).map Val.ty)) := rfl

/-- Every operation touches at most the path it names (frame property of the map). -/
theorem step_frame (s s' : Store) (op : Op) (o : Obs) (h : step s op = .ok (s', o)) (k : Key)
    (hk : match op with
          | .save a p _ | .load a p _ => k ≠ (a, p)
          | _ => True) : getAt s' k = getAt s k := by
  cases op with
  | save a p v =>
    simp only [step] at h
    split at h
    · cases h
    · cases h; exact getAt_put_other _ _ _ _ hk
  | load a p t =>
    simp only [step] at h
    split at h
    · cases h; rfl
    · split at h
      · cases h; exact getAt_del_other _ _ _ hk
      · cases h
  | copy a p t =>
    simp only [step] at h
    split at h
    · cases h; rfl
    · split at h <;> cases h; rfl
  | borrow a p t =>
    simp only [step] at h
    split at h
    · cases h; rfl
    · split at h <;> cases h; rfl
  | check a p t => simp only [step] at h; split at h <;> (cases h; rfl)
  | type a p => simp only [step] at h; cases h; rfl
  | paths a => simp only [step] at h; cases h; rfl
  | forEach a => simp only [step] at h; cases h; rfl
  | panic => simp only [step] at h; cases h

/-! ### histories -/

/-- A store is reachable when it is the working copy after some successful prefix of a transaction
    that started from the committed state of an arbitrary history (from the empty ledger). -/
def Reachable (s : Store) : Prop :=
  ∃ (h : List (List Op)) (ops : List Op) (logs : List Obs), exec (runHist [] h).1 ops = (.ok s, logs)

theorem reachable_committed (h : List (List Op)) : Reachable (runHist [] h).1 := ⟨h, [], [], rfl⟩

/-- `storagePaths` and `forEachStored` enumerate exactly the occupied paths — each once, with the
    stored value's dynamic type — in every reachable store (mid-transaction or committed). -/
theorem paths_exact (s : Store) (hr : Reachable s) (a : Nat) :
    (∀ p, p ∈ paths s a ↔ (getAt s (a, p)).isSome = true) ∧ (paths s a).Nodup ∧
    (∀ p t, (p, t) ∈ entries s a ↔ ∃ v, getAt s (a, p) = some v ∧ v.ty = t) ∧
    (entries s a).map (·.1) = paths s a := by
  obtain ⟨h, ops, logs, he⟩ := hr
  have hw : WF s := exec_wf _ s ops logs (runHist_wf [] h wf_nil) he
  exact ⟨mem_paths_iff s a, paths_nodup s a hw, mem_entries_iff s hw a, entries_paths s a⟩

/-- The observations `storagePaths` / `forEachStored` produce inside a transaction are those of the
    working copy at that point. -/
theorem paths_op_semantics (s : Store) (a : Nat) :
    step s (.paths a) = .ok (s, .paths (paths s a)) ∧ step s (.forEach a) = .ok (s, .entries (entries s a)) :=
  ⟨rfl, rfl⟩

/-- An aborted transaction leaves the committed state unchanged … -/
theorem abort_noop (s : Store) (tx : List Op) (h : (runTx s tx).2.outcome ≠ none) : (runTx s tx).1 = s := by
  unfold runTx at h ⊢
  split
  · rename_i s' logs he; simp [he] at h
  · rfl

/-- … so it can be erased from any history: the final state and the observations of all other
    transactions are those of the history without it. -/
theorem abort_erasable (s : Store) (h1 h2 : List (List Op)) (tx : List Op)
    (h : (runTx (runHist s h1).1 tx).2.outcome ≠ none) :
    (runHist s (h1 ++ tx :: h2)).1 = (runHist s (h1 ++ h2)).1 ∧
    (runHist s (h1 ++ tx :: h2)).2 =
      (runHist s h1).2 ++ (runTx (runHist s h1).1 tx).2 :: (runHist (runHist s h1).1 h2).2 ∧
    (runHist s (h1 ++ h2)).2 = (runHist s h1).2 ++ (runHist (runHist s h1).1 h2).2 := by
  have := abort_noop _ tx h
  simp [runHist_append, runHist, this]

/-- A type-mismatching `load` (which removes before it checks) aborts the whole transaction, so
    the removal is never visible. -/
theorem load_mismatch_tx_noop (s s1 : Store) (ops1 ops2 : List Op) (l1 : List Obs) (a p : Nat) (t : Ty) (v : Val)
    (h1 : exec s ops1 = (.ok s1, l1)) (hv : getAt s1 (a, p) = some v) (hs : subtype v.ty t = false) :
    runTx s (ops1 ++ .load a p t :: ops2) = (s, ⟨some .mismatch, l1⟩) := by
  have hstep := (load_semantics s1 a p t).2.1 v hv hs
  have : exec s1 (.load a p t :: ops2) = (.error .mismatch, []) := by simp [exec, hstep]
  simp [runTx, exec_append_ok s s1 ops1 _ l1 h1, this]

/-- What later transactions observe is exactly the fold of the earlier ones: running `h1 ++ h2` is
    running `h2` from the state `h1` committed. -/
theorem commit_persists (s : Store) (h1 h2 : List (List Op)) :
    runHist s (h1 ++ h2) =
      ((runHist (runHist s h1).1 h2).1, (runHist s h1).2 ++ (runHist (runHist s h1).1 h2).2) :=
  runHist_append s h1 h2

/-- The committed state is the fold of the effects of the transactions that committed. -/
theorem committed_state_is_fold (s : Store) (h : List (List Op)) :
    (runHist s h).1 = h.foldl (fun st tx => (runTx st tx).1) s := by
  induction h generalizing s with
  | nil => rfl
  | cons tx rest ih => simpa [runHist] using ih _

/-- Commit-and-reload is the identity on the abstract map: a committed transaction followed by
    another one behaves exactly like the single transaction with the operations concatenated. -/
theorem commit_boundary_unobservable (s s1 : Store) (tx1 tx2 : List Op) (l1 : List Obs)
    (h : exec s tx1 = (.ok s1, l1)) :
    (runTx s tx1) = (s1, ⟨none, l1⟩) ∧
    exec s (tx1 ++ tx2) = ((exec s1 tx2).1, l1 ++ (exec s1 tx2).2) :=
  ⟨by simp [runTx, h], exec_append_ok s s1 tx1 tx2 l1 h⟩

/-! ### non-vacuity -/

-- a value saved in one transaction is loaded (and removed) two transactions later; the aborted one is a no-op
example : runHist [] [[.save 1 2 (.s2 4)], [.save 1 3 (.int 5), .load 1 2 ⟨.int, 0⟩], [.check 1 2 ⟨.i, 0⟩, .load 1 2 ⟨.i, 0⟩, .paths 1]] =
    ([], [⟨none, [.saved]⟩, ⟨some .mismatch, [.saved]⟩, ⟨none, [.bool true, .val (.s2 4), .paths []]⟩]) := by decide
example : Reachable [((1, 2), .int 5)] := ⟨[[.save 1 2 (.int 5)]], [], [], rfl⟩
example : step [((1, 2), .int 5)] (.save 1 2 (.bool true)) = .error .overwrite := rfl
example : subtype ⟨.s2, 0⟩ ⟨.i, 0⟩ = true ∧ subtype ⟨.i, 0⟩ ⟨.s2, 0⟩ = false ∧ subtype ⟨.r, 0⟩ ⟨.anyStruct, 0⟩ = false := by decide
-- a stored `@R?`: not an `AnyStruct`, so `load<AnyStruct>` aborts and the resource stays where it is
example : runHist [] [[.save 1 2 (.some (.r 42))], [.check 1 2 ⟨.anyStruct, 0⟩, .load 1 2 ⟨.anyStruct, 0⟩], [.check 1 2 ⟨.r, 1⟩, .load 1 2 ⟨.anyResource, 0⟩]] =
    ([], [⟨none, [.saved]⟩, ⟨some .mismatch, [.bool false]⟩, ⟨none, [.bool true, .val (.some (.r 42))]⟩]) := by decide
-- the two directions that keep `subtype_antisymm` from being plain antisymmetry
example : subtype ⟨.anyStruct, 1⟩ ⟨.anyStruct, 0⟩ = true ∧ subtype ⟨.anyStruct, 0⟩ ⟨.anyStruct, 1⟩ = true := by decide
example : subtype (Val.some (.int 5)).ty ⟨.int, 0⟩ = false ∧ subtype (Val.int 5).ty ⟨.int, 2⟩ = true ∧
    subtype Val.nil.ty ⟨.r, 1⟩ = true ∧ subtype Val.nil.ty ⟨.r, 0⟩ = false := by decide

end Verif.Properties.C22
