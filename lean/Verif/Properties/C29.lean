/-
C29 — entry-point arguments are validated against parameter types.

Model: `Verif.Model.Import` (port of `importValidatedArguments`, `valueImporter.importValue` and
its per-kind helpers, `IsImportable`, `ConformsToStaticType`, `BoxOptional`).  Spec:
`Verif.Spec.Import` (all nested values of a value; the local conditions `ImportableHere`,
`ConformsHere`).  Every theorem holds for *every* context `c`: any set of declarations, any subtype
relations, any least-common-supertype function.
-/
import Verif.Proofs.Import
import Verif.Proofs.ImportDeep
namespace Verif.Properties.C29
open Verif.Model.Types Verif.Model.Import Verif.Spec.Import Verif.Proofs.Import Verif.Proofs.ImportDeep

/-- An accepted argument is importable, its run-time type is a subtype of the parameter type, and it
    conforms to its static type. -/
theorem import_sound (c : Ctx) (a : Option XV) (t : Ty) (v : IV) (h : importArg c a t = .ok v) :
    importable c v = true ∧ c.subSema (dynType c v) t = true ∧ conforms c v = true :=
  importArg_ok c a t v h

/-- The same, with "importable" and "conforms" spelled out declaratively at every depth: the run-time
    type of the accepted value is a subtype of the parameter type, and *every* value nested in it
    (optional payloads, array elements, dictionary keys and values, composite fields, recursively) is
    neither a capability nor a composite of a non-importable type, and its direct content fits its own
    static type (element / key / value / field types, constant array size, composite kind, exactly
    the declared fields). -/
theorem import_sound_deep (c : Ctx) (a : Option XV) (t : Ty) (v : IV) (h : importArg c a t = .ok v) :
    c.subSema (dynType c v) t = true ∧ ∀ w ∈ subvalues v, ImportableHere c w ∧ ConformsHere c w := by
  have hs := importArg_ok c a t v h
  exact ⟨hs.2.1, fun w hw => ⟨importable_deep c v hs.1 w hw, conforms_deep c v hs.2.2 w hw⟩⟩

/-- The import is total and never ends in an internal error: every argument is either accepted or
    rejected with one of the invalid-argument *user* errors (decode / import / not importable /
    wrong type / malformed). -/
theorem import_total (c : Ctx) (a : Option XV) (t : Ty) :
    (∃ v, importArg c a t = .ok v) ∨ (∃ s, importArg c a t = .user s) :=
  importArg_total c a t

/-- An argument that does not decode is rejected with the decode user error. -/
theorem import_undecodable (c : Ctx) (t : Ty) : importArg c none t = .user .decode := rfl

/-- The same for a whole argument list (`importValidatedArguments`). -/
theorem import_args_total (c : Ctx) (args : List (Option XV)) (params : List Ty) :
    (∃ vs, importArgs c args params = .ok vs) ∨ (∃ s, importArgs c args params = .user s) :=
  importArgs_total c args params

/-- A mismatch of argument and parameter counts is the parameter-count user error. -/
theorem import_args_count (c : Ctx) (args : List (Option XV)) (params : List Ty)
    (h : args.length ≠ params.length) : importArgs c args params = .user .count :=
  importArgs_count c args params h

/-- Every value of an accepted argument list satisfies the three checks against its own parameter. -/
theorem import_args_sound (c : Ctx) (args : List (Option XV)) (params : List Ty) (vs : List IV)
    (h : importArgs c args params = .ok vs) :
    vs.length = params.length ∧
    ∀ i (hi : i < vs.length) (hp : i < params.length),
      importable c vs[i] = true ∧ c.subSema (dynType c vs[i]) params[i] = true ∧ conforms c vs[i] = true :=
  importArgs_ok c args params vs h

/-- The Boolean checks imply the declarative deep conditions (used by the driver to judge the value
    that Go hands to the script, independently of the model's import). -/
theorem importable_means_deep (c : Ctx) (v : IV) (h : importable c v = true) :
    ∀ w ∈ subvalues v, ImportableHere c w := importable_deep c v h

theorem conforms_means_deep (c : Ctx) (v : IV) (h : conforms c v = true) :
    ∀ w ∈ subvalues v, ConformsHere c w := conforms_deep c v h

/-! ### Non-vacuity: a concrete context and concrete arguments -/

section Examples
def exS : Decl := { kind := .struct, ty := .comp "S" .struct [] false, fields := [("x", .prim "Int")], importable := true }
def exR : Decl := { kind := .resource, ty := .comp "R" .resource [] false, fields := [], importable := false }
def exCtx : Ctx := {
  decls := fun id => if id == "S" then some exS else if id == "R" then some exR else none
  sub := fun a b => a == b || b == .prim "AnyStruct"
  subSema := fun a b => a == b || b == .prim "AnyStruct"
  semaSub := fun a b => a == b
  lcs := fun ts => ts.head? }

def stageOf : Outcome IV → Option Stage
  | .user s => some s
  | _ => none
def accepted : Outcome IV → Bool
  | .ok _ => true
  | _ => false

/-- accepted: `[S(x: 1)]` for `[S]` -/
example : accepted (importArg exCtx (some (.arr (.cons (.comp .struct "S" (.cons "x" (.num "Int" 1) .nil)) .nil))) (.varArr exS.ty)) = true := by decide
/-- wrong field type, nested: rejected as malformed -/
example : stageOf (importArg exCtx (some (.arr (.cons (.comp .struct "S" (.cons "x" (.str "61") .nil)) .nil))) (.varArr exS.ty))
    = some .malformed := by decide
/-- missing field: malformed; wrong type at the top: type error; resource under AnyStruct: not importable;
    unknown type ID and function values: import error -/
example : stageOf (importArg exCtx (some (.comp .struct "S" .nil)) exS.ty) = some .malformed := by decide
example : stageOf (importArg exCtx (some (.bool true)) exS.ty) = some .type_ := by decide
example : stageOf (importArg exCtx (some (.comp .resource "R" .nil)) (.prim "AnyStruct")) = some .notImportable := by decide
example : stageOf (importArg exCtx (some (.comp .struct "Nope" .nil)) (.prim "AnyStruct")) = some .import_ := by decide
example : stageOf (importArg exCtx (some .func) (.prim "AnyStruct")) = some .import_ := by decide
end Examples

/-
`export_roundtrips` (second sentence of the property: every value a script returns exports to a value
that round-trips through JSON-CDC and CCF) — STATED, NOT PROVED here:

  theorem export_roundtrips (v : IV) (hv : exportable v) :
      Codec.Json.decode (Codec.Json.encode (export v)) = some (Codec.Json.erase (export v)) ∧
      Codec.Ccf.decode (Codec.Ccf.encode (export v)) = some (export v)

It needs an `export : IV → CValue` port of `exportValue` into the value algebra of the codec models
(`Verif.Model.Codec.CValue`, properties C41 / C42, still being built) and the statement that the
image of `export` lies in the domain of their round-trip theorems (`Properties/C41`, `C42`).  The
`args` stream exercises the composition on the Go side only: every accepted argument is returned by
the script, exported by `ExportValue`, and its printed form is compared with the model's value.
-/

end Verif.Properties.C29
