/-
C29 — entry-point arguments are validated against parameter types.

Model: `Verif.Model.Import` (port of `importValidatedArguments`, `valueImporter.importValue`,
`IsImportable`, `ConformsToStaticType`).  All theorems hold for every context `c` (declarations,
subtype relations, least-common-supertype function).
-/
import Verif.Proofs.Import
namespace Verif.Properties.C29
open Verif.Model.Types Verif.Model.Import Verif.Proofs.Import

/-- An accepted argument is importable, its run-time type is a subtype of the parameter type, and it
    conforms to its static type. -/
theorem import_sound (c : Ctx) (a : Option XV) (t : Ty) (v : IV) (h : importArg c a t = .ok v) :
    importable c v = true ∧ c.subSema (dynType c v) t = true ∧ conforms c v = true :=
  importArg_ok c a t v h

/-- The import is total and never ends in an internal error: every argument is either accepted or
    rejected with one of the invalid-argument *user* errors. -/
theorem import_total (c : Ctx) (a : Option XV) (t : Ty) :
    (∃ v, importArg c a t = .ok v) ∨ (∃ s, importArg c a t = .user s) :=
  importArg_total c a t

/-- The same for a whole argument list (`importValidatedArguments`): a mismatch of the counts is the
    parameter-count user error; otherwise every argument is validated. -/
theorem import_args_total (c : Ctx) (args : List (Option XV)) (params : List Ty) :
    (∃ vs, importArgs c args params = .ok vs) ∨ (∃ s, importArgs c args params = .user s) :=
  importArgs_total c args params

theorem import_args_count (c : Ctx) (args : List (Option XV)) (params : List Ty)
    (h : args.length ≠ params.length) : importArgs c args params = .user .count :=
  importArgs_count c args params h

/-- Every value of an accepted argument list satisfies the three checks against its own parameter. -/
theorem import_args_sound (c : Ctx) (args : List (Option XV)) (params : List Ty) (vs : List IV)
    (h : importArgs c args params = .ok vs) :
    vs.length = params.length ∧
    ∀ i (hi : i < vs.length) (hp : i < params.length),
      importable c vs[i] = true ∧ c.subSema (dynType c vs[i]) params[i] = true ∧ conforms c vs[i] = true :=
  importArgs_ok c args params vs h

end Verif.Properties.C29
