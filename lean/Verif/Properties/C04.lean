import Verif.Proofs.Lang2Refs
import Verif.Proofs.Lang2Heap
import Verif.Model.Lang2.Eval
/-!
# C04 — References to moved or destroyed resources become unusable

Theorems about the μCadence L2 evaluator (`Verif.Model.Lang2`, tied to /repo's interpreter and VM by the
stream `refinv`).  An ephemeral reference is `ref (ptr id) g`: the referenced cell and the cell's
generation when the reference was taken (`mkRef`); generations only grow; every use of a reference goes
through `deref`, which fails with `invalidated-reference` unless the cell is alive and still has
generation `g`.  `transfer` of a resource (every move: declaration, assignment, argument, return, swap,
container insert / remove, save, load) runs `bumpVal` over the moved value.

`resReach n h v id`: `id` is the cell of `v` or a resource-kinded cell nested in `v` through
resource-kinded cells, within traversal fuel `n` (`heapFuel` = heap size + 16 in the evaluator).
All statements hold for every state / heap / value (no bound).
-/
namespace Verif.Properties.C04
open Verif.Model.Lang2

/-- **invalidated (move)**: after a resource `v` is transferred, every reference taken before (recorded
generation `g` at most the cell's generation at the time of the move) to `v`'s cell or to a resource
nested in it fails on its next use with the invalidated-reference error. -/
theorem invalidated (s : State) (v : Val) (id g : Nat)
    (hres : isResVal s.heap v = true)
    (hreach : resReach (heapFuel s) s.heap v id)
    (hg : g ≤ cellGen s.heap id) :
    (transfer v s).out = .ok v ∧
    (deref (.ref (.ptr id) g) (transfer v s).st).out = .userErr .invalidatedRef := by
  have hlt := bumpVal_gen_lt (heapFuel s) s.heap v id hreach
  have hninv : v ≠ .invalid := by intro e; subst e; simp [isResVal] at hres
  have ht : transfer v s = ⟨.ok v, { s with heap := bumpVal (heapFuel s) s.heap v }, []⟩ := by
    unfold transfer
    cases v <;> simp_all
  rw [ht]
  refine ⟨rfl, ?_⟩
  simp only [deref]
  have : refValid (bumpVal (heapFuel s) s.heap v) (.ptr id) g = false := by
    simp only [refValid]
    cases hc : (bumpVal (heapFuel s) s.heap v)[id]? with
    | none => rfl
    | some c =>
      have : cellGen (bumpVal (heapFuel s) s.heap v) id = c.gen := by simp [cellGen, hc]
      simp only [Bool.and_eq_false_iff, beq_eq_false_iff_ne]
      right; omega
  simp [this]

/-- **derived references**: reading a reference-typed field / element / entry *through another
reference* (`holderRef.ref`, `refsRef[0]`; the evaluator applies `mkRef` to the member it read) yields a
reference to the same cell carrying the generation the *stored* reference recorded — in whatever heap
`h'` it is derived, before or after the move; the derivation never refreshes the generation.  Hence the
derived reference is invalidated by a move of the referent or of a resource the referent is nested in
exactly like the stored one (also under an optional wrapper). -/
theorem derived_invalidated (s : State) (v : Val) (id g : Nat) (h' : Heap)
    (hres : isResVal s.heap v = true)
    (hreach : resReach (heapFuel s) s.heap v id)
    (hg : g ≤ cellGen s.heap id) :
    mkRef h' (.ref (.ptr id) g) = .ref (.ptr id) g ∧
    mkRef h' (.some (.ref (.ptr id) g)) = .some (.ref (.ptr id) g) ∧
    (deref (mkRef h' (.ref (.ptr id) g)) (transfer v s).st).out = .userErr .invalidatedRef := by
  refine ⟨by simp [mkRef], by simp [mkRef], ?_⟩
  have e : mkRef h' (.ref (.ptr id) g) = .ref (.ptr id) g := by simp [mkRef]
  rw [e]
  exact (invalidated s v id g hres hreach hg).2

/-- **invalidated (destroy)**: a reference to a destroyed (dead) cell fails on use, whatever generation
it recorded. -/
theorem invalidated_dead (s : State) (id g : Nat) (c : Cell)
    (hc : s.heap[id]? = some c) (hdead : c.alive = false) :
    (deref (.ref (.ptr id) g) s).out = .userErr .invalidatedRef := by
  simp [deref, refValid, hc, hdead]

/-- **stable**: a move of a resource `v` leaves the validity of every reference to a cell outside the
moved value (not `v`'s cell, not nested in it) exactly as it was; in particular a valid reference whose
referent and ancestors have not moved stays usable. -/
theorem stable (s : State) (v : Val) (id g : Nat)
    (hres : isResVal s.heap v = true)
    (hnot : ¬ resReach (heapFuel s) s.heap v id) :
    refValid (transfer v s).st.heap (.ptr id) g = refValid s.heap (.ptr id) g := by
  have hninv : v ≠ .invalid := by intro e; subst e; simp [isResVal] at hres
  have ht : (transfer v s).st.heap = bumpVal (heapFuel s) s.heap v := by
    unfold transfer
    cases v <;> simp_all
  rw [ht]
  have rel := bumpVal_rel (heapFuel s) s.heap v
  have hgen := bumpVal_gen_eq (heapFuel s) s.heap v id hnot
  simp only [refValid]
  cases hc : s.heap[id]? with
  | none =>
    have : (bumpVal (heapFuel s) s.heap v)[id]? = none := by
      apply List.getElem?_eq_none
      rw [rel.len]
      exact Nat.le_of_not_lt (fun hlt => by simp [List.getElem?_eq_getElem hlt] at hc)
    simp [this]
  | some c =>
    obtain ⟨c', hc', _, _, ha, _, _⟩ := rel.same id c hc
    have g1 : cellGen (bumpVal (heapFuel s) s.heap v) id = c'.gen := by simp [cellGen, hc']
    have g2 : cellGen s.heap id = c.gen := by simp [cellGen, hc]
    simp only [hc']
    rw [ha, show c'.gen = c.gen by omega]

/-- **stable (copies)**: the transfer of a non-resource value (a deep copy) never invalidates a
reference to an existing cell. -/
theorem stable_copy (s : State) (v v' : Val) (id g : Nat)
    (hres : isResVal s.heap v = false) (hid : id < s.heap.length)
    (hok : (transfer v s).out = .ok v') :
    refValid (transfer v s).st.heap (.ptr id) g = refValid s.heap (.ptr id) g := by
  have hcopy : copyVal (heapFuel s) s.heap v = some ((transfer v s).st.heap, v') := by
    unfold transfer at hok ⊢
    cases v with
    | invalid => simp at hok
    | _ =>
      all_goals
        simp only [hres, Bool.false_eq_true, if_false] at hok ⊢
        split at hok
        · next h' w heq => simp at hok; subst hok; simp [heq]
        · simp at hok
  obtain ⟨e, he⟩ := (copyVal_spec _ _ _ _ _ hcopy).ext
  simp only [refValid, he, List.getElem?_append_left hid]

/-- **storage_ref**: a storage reference reaches the value *currently* stored at its path when that
value has the borrow type, and fails with the dereference error when the path is empty or holds a value
of another type. -/
theorem storage_ref (s : State) (path : String) (ty : Ty) :
    (deref (.sref path ty) s).st = s ∧
    (∀ sv, (s.storage.find? (·.1 == path)).map (·.2) = some sv →
      (deref (.sref path ty) s).out =
        if conforms s.heap sv ty then .ok sv else .userErr .dereference) ∧
    ((s.storage.find? (·.1 == path)).map (·.2) = none →
      (deref (.sref path ty) s).out = .userErr .dereference) := by
  refine ⟨?_, fun sv h => ?_, fun h => ?_⟩
  · simp only [deref]
    split
    · split <;> rfl
    · rfl
  · simp only [deref, h]
    split <;> rfl
  · simp only [deref, h]

/-- the model exhibits the known finding `nested-non-resource-reference-not-invalidated` (it mirrors
`InvalidateReferencedResources`, which skips non-resource values): heap `hs` = struct cell 0 held in the
field `s` of resource cell 1; after the resource is moved (`bumpVal`), a reference to the struct taken
before (generation 0) is still valid, while a reference to the resource itself is not. -/
theorem nested_struct_reference_witness :
    let hs : Heap :=
      [⟨.comp "S" [("x", .int .int 1)], .nom "S", false, 0, true⟩,
       ⟨.comp "R2" [("s", .ptr 0)], .res "R2", true, 0, true⟩]
    refValid (bumpVal 18 hs (.ptr 1)) (.ptr 0) 0 = true ∧ refValid (bumpVal 18 hs (.ptr 1)) (.ptr 1) 0 = false := by
  decide

/-! ### non-vacuity: resource 1 holds resource 0 in its `inner` field; moving 1 invalidates a reference to 0 -/

def h0 : Heap :=
  [⟨.comp "R" [("tag", .int .int 2)], .res "R", true, 0, true⟩,
   ⟨.comp "R" [("tag", .int .int 1), ("inner", .some (.ptr 0))], .res "R", true, 0, true⟩]

example : resReach 18 h0 (.ptr 1) 0 := by
  simp [resReach, resReachL, h0, Obj.vals]

example : ¬ resReach 18 h0 (.ptr 0) 1 := by
  simp [resReach, resReachL, h0, Obj.vals]

/-- non-vacuity of `derived_invalidated`: a reference to the nested resource 0, derived again in the
heap after the move of resource 1, is still the generation-0 reference and fails there -/
example : mkRef (bumpVal 18 h0 (.ptr 1)) (.ref (.ptr 0) 0) = .ref (.ptr 0) 0 ∧
    refValid (bumpVal 18 h0 (.ptr 1)) (.ptr 0) 0 = false :=
  ⟨by simp [mkRef], by decide⟩

end Verif.Properties.C04
