/-
C39 — The formatter preserves meaning and comments and is idempotent.

Model: Verif.Model.Front.Layout (documents and layout of turbolent/prettier, external, modelled),
Verif.Model.Front.Trivia (ports of the post-passes stripTrailingLineWhitespace / collapseBlankLines).
Idempotence and the comment attachment are NOT modelled: correspondence (stream `fmt`) only.
-/
import Verif.Proofs.Layout
namespace Verif.Properties.C39
open Verif.Model.Front.Layout Verif.Model.Front.Trivia Verif.Proofs.Layout

/-- `layout_token_invariant`: for every document, line width and indent string (of white space), the
    non-white-space characters of the rendering are those of the document's text pieces, in order —
    whatever the groups' break decisions.  With C38 (the printed tokens re-parse to the AST) the
    formatted text therefore carries the same tokens as the flat print.
    (Token-internal white space — inside string literals and comments — is white space here too: the
    statement is about the character sequence with all blanks removed.) -/
theorem layout_token_invariant (d : Doc) (w : Nat) (indent : List Char) (h : ∀ c ∈ indent, isWs c = true) :
    nonWs (render w indent d) = nonWs (texts d) := by
  unfold render
  rw [best_tokens w indent.length indent h (size d + 1) 0 [(0, d)] (by simp [stackSize])]
  simp [stackTexts]

/-- … and flattening a document (what a fitting group does) does not change them either -/
theorem flatten_token_invariant (d : Doc) : nonWs (texts (flatten d)) = nonWs (texts d) :=
  nonWs_texts_flatten d

/-- non-vacuity: a group that breaks at width 5 and fits at width 80 -/
example :
    let d := Doc.group (.cat (.text "foo(".toList) (.cat (.indent (.cat .softline (.cat (.text "a,".toList) (.cat .line (.text "b".toList))))) (.cat .softline (.text ")".toList))))
    String.ofList (render 80 "    ".toList d) = "foo(a, b)" ∧
    String.ofList (render 5 "    ".toList d) = "foo(\n    a,\n    b\n)" ∧
    nonWs (render 5 "    ".toList d) = "foo(a,b)".toList := by
  decide

/-- `postpass_tokens`: the two ported post-passes, as functions on the list of lines, only delete or
    empty lines that consist of white space: every other line survives verbatim and in order.  (Code
    tokens and the lines of string literals and comments that carry text are therefore preserved; the
    byte level `split "\n"` / `join "\n"` around them is part of the port, not of this statement.) -/
theorem postpass_tokens (max c : Nat) (ls : List Bytes) :
    (collapseLines max c ls).filter (fun l => !blank l) = ls.filter (fun l => !blank l) ∧
    (stripLines ls).filter (fun l => !blank l) = ls.filter (fun l => !blank l) :=
  ⟨collapseLines_nonBlank max c ls, stripLines_nonBlank ls⟩

/-- KNOWN FINDING `block-comment-blank-lines-collapsed`: `collapseBlankLines` works on raw lines, so a
    run of blank lines *inside a block comment* is collapsed too — the comment text changes -/
theorem collapse_comment_witness :
    collapse 1 (ascii "/* a\n\n\n\n\n b */") = ascii "/* a\n\n b */" := by
  decide

/-- `postpass_comments_partial`: text without white-space-only lines (in particular a comment without
    blank lines inside) passes through both post-passes unchanged.
    Intended full statement `postpass_comments` (does NOT hold, see `collapse_comment_witness`): the
    post-passes preserve the text of every comment. -/
theorem postpass_comments_partial (max c : Nat) (ls : List Bytes) (h : ∀ l ∈ ls, blank l = false) :
    collapseLines max c ls = ls ∧ stripLines ls = ls :=
  ⟨collapseLines_id max c ls h, stripLines_id ls h⟩

example : (∀ l ∈ splitLines (ascii "/* a\n b */"), blank l = false) := by decide
example : collapse 1 (ascii "/* a\n b */") = ascii "/* a\n b */" := by decide
/-- `stripTrailingLineWhitespace` leaves the trailing blanks of a line comment alone (the trailing
    blanks of `// t   ` are removed elsewhere, in the comment rendering — CC finding) -/
example : strip (ascii "x // t   \n   \ny") = ascii "x // t   \n\ny" := by decide

end Verif.Properties.C39
