/-
C39 — The formatter preserves meaning and comments and is idempotent.

Model: Verif.Model.Front.Layout (documents and layout of turbolent/prettier, external, modelled),
Verif.Model.Front.Trivia (ports of the post-passes stripTrailingLineWhitespace / collapseBlankLines).
Verif.Model.Front.Attach (the slot-assignment loops of trivia.attachLevel, tied by stream `attach`).  Idempotence is NOT modelled: correspondence (stream `fmt`) only.
-/
import Verif.Proofs.Layout
import Verif.Proofs.Attach
namespace Verif.Properties.C39
open Verif.Model.Front.Layout Verif.Model.Front.Trivia Verif.Proofs.Layout

/-- `layout_token_invariant`: for every document, line width and indent string (of white space), the
    non-white-space characters of the rendering are those of the document's text pieces, in order —
    whatever the groups' break decisions.  With C38 (the printed tokens re-parse to the AST) the
    formatted text therefore carries the same tokens as the flat print.
    (Token-internal white space — inside string literals and comments — is white space here too: the
    statement is about the character sequence with all blanks removed.) -/
theorem layout_token_invariant (d : Doc) (w : Nat) (indent : List Char) (h : ∀ c ∈ indent, isWs c = true) :
    nonWs (render w indent d) = nonWs (texts d) := by
  unfold render
  rw [best_tokens w indent.length indent h (size d + 1) 0 [(0, d)] (by simp [stackSize])]
  simp [stackTexts]

/-- … and flattening a document (what a fitting group does) does not change them either -/
theorem flatten_token_invariant (d : Doc) : nonWs (texts (flatten d)) = nonWs (texts d) :=
  nonWs_texts_flatten d

/-- non-vacuity: a group that breaks at width 5 and fits at width 80 -/
example :
    let d := Doc.group (.cat (.text "foo(".toList) (.cat (.indent (.cat .softline (.cat (.text "a,".toList) (.cat .line (.text "b".toList))))) (.cat .softline (.text ")".toList))))
    String.ofList (render 80 "    ".toList d) = "foo(a, b)" ∧
    String.ofList (render 5 "    ".toList d) = "foo(\n    a,\n    b\n)" ∧
    nonWs (render 5 "    ".toList d) = "foo(a,b)".toList := by
  decide

/-- `postpass_tokens`: the two ported post-passes, as functions on the list of lines, only delete or
    empty lines that consist of white space: every other line survives verbatim and in order.  (Code
    tokens and the lines of string literals and comments that carry text are therefore preserved; the
    byte level `split "\n"` / `join "\n"` around them is part of the port, not of this statement.) -/
theorem postpass_tokens (max c : Nat) (ls : List Bytes) :
    (collapseLines max c ls).filter (fun l => !blank l) = ls.filter (fun l => !blank l) ∧
    (stripLines ls).filter (fun l => !blank l) = ls.filter (fun l => !blank l) :=
  ⟨collapseLines_nonBlank max c ls, stripLines_nonBlank ls⟩

/-- KNOWN FINDING `block-comment-blank-lines-collapsed`: `collapseBlankLines` works on raw lines, so a
    run of blank lines *inside a block comment* is collapsed too — the comment text changes -/
theorem collapse_comment_witness :
    collapse 1 (ascii "/* a\n\n\n\n\n b */") = ascii "/* a\n\n b */" := by
  decide

/-- `postpass_comments_partial`: text without white-space-only lines (in particular a comment without
    blank lines inside) passes through both post-passes unchanged.
    Intended full statement `postpass_comments` (does NOT hold, see `collapse_comment_witness`): the
    post-passes preserve the text of every comment. -/
theorem postpass_comments_partial (max c : Nat) (ls : List Bytes) (h : ∀ l ∈ ls, blank l = false) :
    collapseLines max c ls = ls ∧ stripLines ls = ls :=
  ⟨collapseLines_id max c ls h, stripLines_id ls h⟩

example : (∀ l ∈ splitLines (ascii "/* a\n b */"), blank l = false) := by decide
example : collapse 1 (ascii "/* a\n b */") = ascii "/* a\n b */" := by decide
/-- `stripTrailingLineWhitespace` leaves the trailing blanks of a line comment alone (the trailing
    blanks of `// t   ` are removed elsewhere, in the comment rendering — CC finding) -/
example : strip (ascii "x // t   \n   \ny") = ascii "x // t   \n\ny" := by decide

/-! ## Comment attachment -/

open Verif.Model.Front.Attach in
/-- `comments_once_partial`: on the model of `trivia.Attach` / `attachLevel` (the four loops, the recursion
    into the children with the left-over rule, the header and footer rules), for every forest of elements,
    every list of comment groups and every recursion bound: the groups of the performed slot assignments
    (header, leading, same-line, trailing, footer), in the order they are performed, are exactly the input
    groups — every scanned comment group is assigned to exactly one slot, none is dropped, none duplicated,
    whatever the positions say (no sortedness or nesting assumption is needed).
    `_partial`: (1) the model records the assignment *sequence*; in the Go code `cm.SameLine` is a map, so a
    second same-line assignment to the same element would overwrite the first (the model has no such
    overwrite when element identities are distinct and every element is visited once — not proved);
    (2) the three `hoist…` post-passes of `Attach` and the rendering of the slots (`CommentMap.Wrap` /
    `Take`: every slot emitted once) are not modelled — the recorded findings `comment-next-to-else-dropped`
    and `comment-inside-string-template-dropped` live there.
    Tie: stream `attach` — on generated programs with comments at every white-space position (plus header /
    footer comments) the model's assignments equal the `CommentMap` of the real `attachLevel` (verif hook
    `trivia.VerifAttachLevel`, forest = `StartPosition` / `EndPosition` / `trueEndPosition` / `getChildren` of the
    real elements), and Go's map is judged directly: every group in exactly one slot. -/
theorem comments_once_partial (fuel : Nat) (decls : List N) (gs : List G) :
    groupsOf (attach fuel decls gs) = gs :=
  Verif.Proofs.Attach.attach_cons fuel decls gs

open Verif.Model.Front.Attach in
/-- non-vacuity: two declarations, the first with a child; a header comment, a leading comment, a comment
    inside the first declaration after its child (trailing of the child), a same-line comment, a comment
    between the declarations after a blank line (leading of the second), a footer comment -/
example :
    let child := N.mk 11 25 3 30 29 3 []
    let d1 := N.mk 1 20 3 40 39 4 [child]
    let d2 := N.mk 2 80 8 90 89 8 []
    let gs : List G := [⟨100, 0, 5, 1, 1⟩, ⟨101, 10, 15, 2, 2⟩, ⟨102, 32, 36, 4, 4⟩, ⟨103, 42, 48, 4, 4⟩,
      ⟨104, 60, 70, 7, 7⟩, ⟨105, 120, 130, 12, 12⟩]
    (attach 3 [d1, d2] gs).map (fun a => (a.slot, a.node, a.g.id)) =
      [(.header, 0, 100), (.leading, 1, 101), (.trailing, 11, 102), (.sameLine, 1, 103), (.leading, 2, 104),
       (.footer, 0, 105)] := by
  decide

end Verif.Properties.C39
